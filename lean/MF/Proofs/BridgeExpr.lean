/-
  MF.Proofs.BridgeExpr — the hand-written printer `sqlE` and position formulas `posP` / `endP` of the expression
  fragment ARE the generic interpreters on the regenerated tables: induction over `PExpr`, one case per constructor, each
  case an application of the per-kind lemmas of BridgeSqlKinds / BridgePosKinds (a new constructor adds one case).
-/
import MF.Proofs.BridgeSqlKinds
import MF.Proofs.BridgePosKinds
namespace MF.Bridge
open MF MF.Ast MF.Expr

/-! ## what the generic interpreters need: identifiers are not empty (`QuoteSQLIdent("")` panics), a `Path` has an
identifier (`posP` / `endP` answer 0 on the empty path by convention, Go answers `InvalidPos`) -/

mutual
def wfBridge : PExpr → Bool
  | .null _ | .bool _ _ | .int _ _ _ _ | .float _ _ _ _ | .str _ _ _ | .bytes _ _ _ | .param _ _ => true
  | .ident id => !id.name.isEmpty
  | .path ids => !ids.isEmpty && ids.all (fun i => !i.name.isEmpty)
  | .paren _ _ e => wfBridge e
  | .unary _ _ e => wfBridge e
  | .bin _ l r => wfBridge l && wfBridge r
  | .isNull _ e _ => wfBridge e
  | .isBool _ e _ _ => wfBridge e
  | .between _ e lo hi => wfBridge e && wfBridge lo && wfBridge hi
  | .inList _ e _ _ f m => wfBridge e && wfBridge f && wfBridges m
  | .inUnnest _ e _ _ a => wfBridge e && wfBridge a
  | .sel e id => wfBridge e && !id.name.isEmpty
  | .index _ e _ i => wfBridge e && wfBridge i
  | .caseE _ _ o _ c t ws el => wfBridgeO o && wfBridge c && wfBridge t && wfBridgeW ws && wfBridgeO el
  | .ifE _ _ c t e => wfBridge c && wfBridge t && wfBridge e
  | .array _ _ es => wfBridges es
  | .cast _ _ e path => wfBridge e && (!path.isEmpty && path.all (fun i => !i.name.isEmpty))
def wfBridges : PExprs → Bool
  | .nil => true
  | .cons e es => wfBridge e && wfBridges es
def wfBridgeW : PWhens → Bool
  | .nil => true
  | .cons _ c t ws => wfBridge c && wfBridge t && wfBridgeW ws
def wfBridgeO : POExpr → Bool
  | .none => true
  | .some _ e => wfBridge e
end

/-- the precondition of the bridge theorems (decidable) -/
def WFBridge (e : PExpr) : Prop := wfBridge e = true
instance (e : PExpr) : Decidable (WFBridge e) := inferInstanceAs (Decidable (_ = _))

/-! ## the translation, seen by `exprPrec` and by the type switch of `SelectorExpr.SQL()` -/

theorem toKidsP_eq : (k : Nat) → (es : PExprs) → toKidsP k es = sliceKids "Exprs" k (es.toList.map toNodeP)
  | _, .nil => rfl
  | k, .cons e es => by simp [toKidsP, PExprs.toList, sliceKids, toKidsP_eq (k + 1) es]

theorem toKidsV_eq : (k : Nat) → (es : PExprs) → toKidsV k es = sliceKids "Values" k (es.toList.map toNodeP)
  | _, .nil => rfl
  | k, .cons e es => by simp [toKidsV, PExprs.toList, sliceKids, toKidsV_eq (k + 1) es]

/-- the `CaseWhen` nodes of the further WHEN clauses -/
def whenNodes : PWhens → List Node
  | .nil => []
  | .cons wp c t ws => nCaseWhen wp (toNodeP c) (toNodeP t) :: whenNodes ws

theorem toKidsW_eq : (k : Nat) → (ws : PWhens) → toKidsW k ws = sliceKids "Whens" k (whenNodes ws)
  | _, .nil => rfl
  | k, .cons wp c t ws => by simp [toKidsW, whenNodes, sliceKids, toKidsW_eq (k + 1) ws]

/-- `exprPrec` (hand-written) is the `exprPrec` switch of the regenerated table -/
theorem prec_bridge (e : PExpr) :
    ST.exprPrecOf (toNodeP e).kind (toNodeP e).scalars = some (exprPrec (erase e)) := by
  cases e with
  | null p => exact prec_NullLiteral _
  | bool p b => exact prec_BoolLiteral _
  | int p e s raw => exact prec_IntLiteral _
  | float p e s raw => exact prec_FloatLiteral _
  | str p e v => exact prec_StringLiteral _
  | bytes p e v => exact prec_BytesLiteral _
  | param a n => exact prec_Param _
  | ident id => exact prec_Ident _
  | path ids => exact prec_Path _
  | paren lp rp e => exact prec_ParenExpr _
  | unary p op e => exact prec_UnaryExpr _ op
  | bin op l r => exact prec_BinaryExpr op
  | isNull p e n => exact prec_IsNullExpr _
  | isBool p e n r => exact prec_IsBoolExpr _
  | between n e lo hi => exact prec_BetweenExpr _
  | inList n e lp rp f m => exact prec_InExpr _
  | inUnnest n e un rp a => exact prec_InExpr _
  | sel e id => exact prec_SelectorExpr _
  | index rb e kw i => cases kw <;> exact prec_IndexExpr _
  | caseE cp ep o wp c t ws el => exact prec_CaseExpr _
  | ifE ip rp c t e => exact prec_IfExpr _
  | array lb rb es => exact prec_ArrayLiteral _
  | cast cp rp e path => exact prec_CastExpr _

/-- `_, ok := s.Expr.(*IntLiteral)` -/
theorem kind_isIntLit (e : PExpr) : ((toNodeP e).kind == "IntLiteral") = isIntLit (erase e) := by
  cases e with
  | index rb e kw i => cases kw <;> rfl
  | _ => rfl

/-! ## spellings -/

theorem quoteIdent_some (ip : Nat → Bool) (n : Bytes) (h : n.isEmpty = false) :
    Quote.quoteIdent ip n = some ((Quote.quoteIdent ip n).getD []) := by
  cases n with
  | nil => simp at h
  | cons c t =>
    have : ∃ b, Quote.needQuoteIdent (c :: t) = some b := by
      unfold Quote.needQuoteIdent; split <;> exact ⟨_, rfl⟩
    obtain ⟨b, hb⟩ := this
    unfold Quote.quoteIdent; rw [hb]; cases b <;> rfl

theorem sql_identP (i : PIdent) (h : i.name.isEmpty = false) :
    sqlOf ST asciiPrint (identP i) = some (identSQL i.name) := by
  rw [identP, sql_Ident, quoteIdent_some _ _ h]; rfl

theorem sql_identsP (ids : List PIdent) (h : ids.all (fun i => !i.name.isEmpty) = true) :
    (ids.map identP).map (sqlOf ST asciiPrint) = ((ids.map (·.name)).map identSQL).map some := by
  induction ids with
  | nil => rfl
  | cons i r ih =>
    simp only [List.all_cons, Bool.and_eq_true, Bool.not_eq_true'] at h
    simp only [List.map_cons, sql_identP i h.1, ih h.2]

/-- the blank `UnaryExpr.SQL()` inserts after NOT and between two minus signs -/
theorem unary_space (op : UOp) (s : Bytes) :
    (op.str == B "NOT" || (op.str == B "-" && (B "-").isPrefixOf s)) =
      (op == .not || (op == .minus && s.head? == some 45)) := by
  have h : B "-" = [45] ∧ B "+" = [43] ∧ B "~" = [126] ∧ B "NOT" = [78, 79, 84] := by decide
  have hc : ∀ a : UInt8, (45 == a) = (a == 45) := fun a => by rw [BEq.comm]
  cases op <;> cases s <;> simp [UOp.str, h, List.isPrefixOf, hc]

theorem joinSql_sqlEs : (first : Bytes) → (more : PExprs) →
    joinSql (B ", ") (first :: more.toList.map (fun e => sqlE (erase e))) = first ++ sqlEs (erases more)
  | first, .nil => by simp [PExprs.toList, joinSql, erases, sqlEs]
  | first, .cons e es => by
    simp only [PExprs.toList, List.map_cons, joinSql, erases, sqlEs, joinSql_sqlEs (sqlE (erase e)) es,
      List.append_assoc]

theorem joinSql_sqlEs_all : (es : PExprs) →
    B "[" ++ joinSql (B ", ") (es.toList.map (fun e => sqlE (erase e))) ++ B "]" = sqlE (.array (erases es))
  | .nil => by simp [PExprs.toList, joinSql, erases, sqlE]
  | .cons e es => by
    simp only [PExprs.toList, List.map_cons, erases, sqlE, joinSql_sqlEs (sqlE (erase e)) es, List.append_assoc]

/-- the texts of the further WHEN clauses -/
def whenSqls : PWhens → List Bytes
  | .nil => []
  | .cons _ c t ws => (B "WHEN " ++ sqlE (erase c) ++ B " THEN " ++ sqlE (erase t)) :: whenSqls ws

/-- the text of the operand (`kw = false`) / of the `CaseElse` node (`kw = true`), if present -/
def oSql (kw : Bool) : POExpr → Option Bytes
  | .none => none
  | .some _ e => some (if kw then B "ELSE " ++ sqlE (erase e) else sqlE (erase e))

theorem joinSql_sqlWs : (first : Bytes) → (ws : PWhens) →
    joinSql (B " ") (first :: whenSqls ws) = first ++ sqlWs (eraseW ws)
  | first, .nil => by simp [whenSqls, joinSql, eraseW, sqlWs]
  | first, .cons wp c t ws => by
    have h : B " WHEN " = B " " ++ B "WHEN " := by decide
    simp only [whenSqls, joinSql, eraseW, sqlWs, joinSql_sqlWs _ ws, List.append_assoc, h]

theorem optS_oSql_false (o : POExpr) : optS (oSql false o) = sqlO [] (eraseO o) := by
  cases o <;> simp [oSql, optS, eraseO, sqlO]

theorem optS_oSql_true (o : POExpr) : optS (oSql true o) = sqlO (B "ELSE ") (eraseO o) := by
  cases o <;> simp [oSql, optS, eraseO, sqlO]

/-! ## `SQL()` -/

theorem fmtBoolUpper_eq (b : Bool) : fmtBoolUpper b = boolUpper b := rfl

mutual
/-- the hand-written printer is the generic printer on the regenerated table -/
theorem sql_bridge_expr : (e : PExpr) → wfBridge e = true →
    sqlOf ST asciiPrint (toNodeP e) = some (sqlE (erase e))
  | .null p, _ => sql_NullLiteral _ p
  | .bool p b, _ => sql_BoolLiteral _ p b
  | .int p e s raw, _ => sql_IntLiteral _ p e _ _
  | .float p e s raw, _ => sql_FloatLiteral _ p e _
  | .str p e v, _ => sql_StringLiteral _ p e v
  | .bytes p e v, _ => sql_BytesLiteral _ p e v
  | .param a n, _ => sql_Param _ a n
  | .ident id, h => by
    simp only [wfBridge, Bool.not_eq_true'] at h
    exact sql_identP id h
  | .path ids, h => by
    simp only [wfBridge, Bool.and_eq_true] at h
    simp only [toNodeP, erase, sqlE, identKidsP_eq, ← joinSql_eq_joinBytes]
    exact sql_Path _ _ _ (sql_identsP ids h.2)
  | .paren lp rp e, h => by
    simp only [wfBridge] at h
    exact sql_ParenExpr _ lp rp _ _ (sql_bridge_expr e h)
  | .unary p op e, h => by
    simp only [wfBridge] at h
    have := sql_UnaryExpr _ p op.str op.prec _ _ _ (prec_UnaryExpr p op) (sql_bridge_expr e h) (prec_bridge e)
    simp only [toNodeP, erase, sqlE, parenS_eq, this, unary_space]
    rfl
  | .bin op l r, h => by
    simp only [wfBridge, Bool.and_eq_true] at h
    exact sql_BinaryExpr _ op.str op.prec _ _ _ _ _ _ (prec_BinaryExpr op) (sql_bridge_expr l h.1)
      (sql_bridge_expr r h.2) (prec_bridge l) (prec_bridge r)
  | .isNull p e n, h => by
    simp only [wfBridge] at h
    exact sql_IsNullExpr _ p n _ _ _ (sql_bridge_expr e h) (prec_bridge e)
  | .isBool p e n r, h => by
    simp only [wfBridge] at h
    exact sql_IsBoolExpr _ p n r _ _ _ (sql_bridge_expr e h) (prec_bridge e)
  | .between n e lo hi, h => by
    simp only [wfBridge, Bool.and_eq_true] at h
    exact sql_BetweenExpr _ n _ _ _ _ _ _ _ _ _ (sql_bridge_expr e h.1.1) (sql_bridge_expr lo h.1.2)
      (sql_bridge_expr hi h.2) (prec_bridge e) (prec_bridge lo) (prec_bridge hi)
  | .inList n e lp rp first more, h => by
    simp only [wfBridge, Bool.and_eq_true] at h
    have hv : sqlOf ST asciiPrint (nValuesInCondition lp rp (.cons "Exprs" (some 0) (toNodeP first) (toKidsP 1 more))) =
        some (B "(" ++ sqlE (erase first) ++ sqlEs (erases more) ++ B ")") := by
      have := sql_ValuesInCondition asciiPrint lp rp (toNodeP first :: more.toList.map toNodeP)
        (sqlE (erase first) :: more.toList.map (fun e => sqlE (erase e)))
        (by simp only [List.map_cons, sql_bridge_expr first h.1.2, sql_bridge_exprs more h.2, List.map_map])
      simp only [sliceKids, ← toKidsP_eq, joinSql_sqlEs] at this
      simp only [this, List.append_assoc]
    have := sql_InExpr _ n _ _ _ _ _ (sql_bridge_expr e h.1.1) hv (prec_bridge e)
    simp only [toNodeP, erase, sqlE, parenS_eq, this, List.append_assoc]
  | .inUnnest n e un rp a, h => by
    simp only [wfBridge, Bool.and_eq_true] at h
    have := sql_InExpr _ n _ _ _ _ _ (sql_bridge_expr e h.1)
      (sql_UnnestInCondition _ un rp _ _ (sql_bridge_expr a h.2)) (prec_bridge e)
    simp only [toNodeP, erase, sqlE, parenS_eq, this, List.append_assoc]
  | .sel e id, h => by
    simp only [wfBridge, Bool.and_eq_true, Bool.not_eq_true'] at h
    have := sql_SelectorExpr _ _ _ _ _ _ (sql_bridge_expr e h.1) (sql_identP id h.2) (prec_bridge e)
    simp only [toNodeP, erase, sqlE, parenS_eq, this, kind_isIntLit]
  | .index rb e none i, h => by
    simp only [wfBridge, Bool.and_eq_true] at h
    exact sql_IndexExpr _ rb _ _ _ _ _ (sql_bridge_expr e h.1) (sql_ExprArg _ _ _ (sql_bridge_expr i h.2))
      (prec_bridge e)
  | .index rb e (some w) i, h => by
    simp only [wfBridge, Bool.and_eq_true] at h
    have := sql_IndexExpr _ rb _ _ _ _ _ (sql_bridge_expr e h.1)
      (sql_SubscriptSpecifierKeyword _ w.keywordPos w.rparen w.k.str _ _ (sql_bridge_expr i h.2)) (prec_bridge e)
    simp only [toNodeP, erase, sqlE, parenS_eq, this, Option.map_some, PKw.erase, List.append_assoc]
  | .caseE cp ep o wp c t ws el, h => by
    simp only [wfBridge, Bool.and_eq_true] at h
    have hw0 := sql_CaseWhen asciiPrint wp _ _ _ _ (sql_bridge_expr c h.1.1.1.2) (sql_bridge_expr t h.1.1.2)
    have := sql_CaseExpr asciiPrint cp ep (toNodeO false o) (toNodeO true el)
      (nCaseWhen wp (toNodeP c) (toNodeP t) :: whenNodes ws) (oSql false o) (oSql true el)
      ((B "WHEN " ++ sqlE (erase c) ++ B " THEN " ++ sqlE (erase t)) :: whenSqls ws)
      (sql_bridge_o false o h.1.1.1.1) (by simp only [List.map_cons, hw0, sql_bridge_whens ws h.1.2])
      (sql_bridge_o true el h.2)
    simp only [sliceKids, ← toKidsW_eq] at this
    simp only [toNodeP, erase, sqlE, this, joinSql_sqlWs, optS_oSql_false, optS_oSql_true, List.append_assoc]
  | .ifE ip rp c t e, h => by
    simp only [wfBridge, Bool.and_eq_true] at h
    exact sql_IfExpr _ ip rp _ _ _ _ _ _ (sql_bridge_expr c h.1.1) (sql_bridge_expr t h.1.2) (sql_bridge_expr e h.2)
  | .cast cp rp e path, h => by
    simp only [wfBridge, Bool.and_eq_true] at h
    have ht : sqlOf ST asciiPrint (nNamedType (identKidsP "Path" 0 path)) =
        some (joinBytes (B ".") ((path.map (·.name)).map identSQL)) := by
      rw [identKidsP_eq, ← joinSql_eq_joinBytes]
      exact sql_NamedType _ _ _ (sql_identsP path h.2.2)
    have := sql_CastExpr asciiPrint cp rp false _ _ _ _ (sql_bridge_expr e h.1) ht
    simp only [toNodeP, erase, sqlE, this, Bool.false_eq_true, if_false, List.nil_append, List.append_assoc]
  | .array lb rb es, h => by
    simp only [wfBridge] at h
    have := sql_ArrayLiteral asciiPrint lb rb (es.toList.map toNodeP) (es.toList.map (fun e => sqlE (erase e)))
      (by simp only [sql_bridge_exprs es h, List.map_map])
    simp only [← toKidsV_eq] at this
    simp only [toNodeP, erase, this, joinSql_sqlEs_all]
theorem sql_bridge_exprs : (es : PExprs) → wfBridges es = true →
    (es.toList.map toNodeP).map (sqlOf ST asciiPrint) = (es.toList.map (fun e => sqlE (erase e))).map some
  | .nil, _ => rfl
  | .cons e es, h => by
    simp only [wfBridges, Bool.and_eq_true] at h
    simp only [PExprs.toList, List.map_cons, sql_bridge_expr e h.1, sql_bridge_exprs es h.2]
theorem sql_bridge_whens : (ws : PWhens) → wfBridgeW ws = true →
    (whenNodes ws).map (sqlOf ST asciiPrint) = (whenSqls ws).map some
  | .nil, _ => rfl
  | .cons wp c t ws, h => by
    simp only [wfBridgeW, Bool.and_eq_true] at h
    simp only [whenNodes, whenSqls, List.map_cons, sql_bridge_whens ws h.2,
      sql_CaseWhen asciiPrint wp _ _ _ _ (sql_bridge_expr c h.1.1) (sql_bridge_expr t h.1.2)]
theorem sql_bridge_o (kw : Bool) : (o : POExpr) → wfBridgeO o = true →
    (toNodeO kw o).map (sqlOf ST asciiPrint) = (oSql kw o).map some
  | .none, _ => rfl
  | .some p e, h => by
    simp only [wfBridgeO] at h
    cases kw
    · simp only [toNodeO, oSql, Option.map_some, Bool.false_eq_true, if_false, sql_bridge_expr e h]
    · simp only [toNodeO, oSql, Option.map_some, if_true, sql_CaseElse asciiPrint p _ _ (sql_bridge_expr e h)]
end

/-! ## `Pos()` / `End()` -/

/-- `(Pos(), End())` of the further `CaseWhen` nodes -/
def whenPEs : PWhens → List (Int × Int)
  | .nil => []
  | .cons wp _ t ws => ((wp : Int), (endP t : Int)) :: whenPEs ws

theorem goKids_optKid {f : String} {o : Option Node} (h : ∀ n, o = some n → ∃ pe, goPosEnd PT n = some pe) :
    ∃ ks, goKids PT (optKid f o) = some ks := by
  cases o with
  | none => exact ⟨[], rfl⟩
  | some n =>
    obtain ⟨pe, hpe⟩ := h n rfl
    exact ⟨[⟨f, none, pe.1, pe.2⟩], by simp [optKid, goKids, hpe]⟩

theorem pos_identP (i : PIdent) : goPosEnd PT (identP i) = some ((i.namePos : Int), (i.nameEnd : Int)) :=
  pos_Ident _ _ _

theorem pos_identsP (ids : List PIdent) :
    (ids.map identP).map (goPosEnd PT) = (ids.map (fun i => ((i.namePos : Int), (i.nameEnd : Int)))).map some := by
  induction ids with
  | nil => rfl
  | cons i r ih => simp only [List.map_cons, pos_identP, ih]

mutual
/-- the hand-written position formulas are the compiled `Pos()` / `End()` of the regenerated table -/
theorem pos_bridge_expr : (e : PExpr) → wfBridge e = true →
    goPosEnd PT (toNodeP e) = some ((posP e : Int), (endP e : Int))
  | .null p, _ => by simp only [toNodeP, pos_NullLiteral, posP, endP, Int.natCast_add]; rfl
  | .bool p b, _ => by cases b <;> simp [toNodeP, pos_BoolLiteral, posP, endP, boolLen, Int.natCast_add]
  | .int p e s raw, _ => pos_IntLiteral p e _ _
  | .float p e s raw, _ => pos_FloatLiteral p e _
  | .str p e v, _ => pos_StringLiteral p e v
  | .bytes p e v, _ => pos_BytesLiteral p e v
  | .param a n, _ => by simp only [toNodeP, pos_Param, posP, endP, Int.natCast_add]; rfl
  | .ident id, _ => pos_identP id
  | .path ids, h => by
    simp only [wfBridge, Bool.and_eq_true] at h
    simp only [toNodeP, identKidsP_eq, pos_Path _ _ (pos_identsP ids), posP, endP]
    cases ids with
    | nil => simp at h
    | cons a r =>
      simp only [List.getLast?_map]
      cases hl : (a :: r).getLast? with
      | none => simp at hl
      | some v => rfl
  | .paren lp rp e, h => by
    simp only [wfBridge] at h
    simp only [toNodeP, pos_ParenExpr lp rp _ _ _ (pos_bridge_expr e h), posP, endP, Int.natCast_add]; rfl
  | .unary p op e, h => by
    simp only [wfBridge] at h
    exact pos_UnaryExpr p op.str _ _ _ (pos_bridge_expr e h)
  | .bin op l r, h => by
    simp only [wfBridge, Bool.and_eq_true] at h
    exact pos_BinaryExpr op.str _ _ _ _ _ _ (pos_bridge_expr l h.1) (pos_bridge_expr r h.2)
  | .isNull p e n, h => by
    simp only [wfBridge] at h
    simp only [toNodeP, pos_IsNullExpr p n _ _ _ (pos_bridge_expr e h), posP, endP, Int.natCast_add]; rfl
  | .isBool p e n r, h => by
    simp only [wfBridge] at h
    cases r <;> simp [toNodeP, pos_IsBoolExpr p n _ _ _ _ (pos_bridge_expr e h), posP, endP, boolLen, Int.natCast_add]
  | .between n e lo hi, h => by
    simp only [wfBridge, Bool.and_eq_true] at h
    exact pos_BetweenExpr n _ _ _ _ _ _ _ _ _ (pos_bridge_expr e h.1.1) (pos_bridge_expr lo h.1.2)
      (pos_bridge_expr hi h.2)
  | .inList n e lp rp first more, h => by
    simp only [wfBridge, Bool.and_eq_true] at h
    have hv := pos_ValuesInCondition lp rp (toNodeP first :: more.toList.map toNodeP)
      (((posP first : Int), (endP first : Int)) :: more.toList.map (fun e => ((posP e : Int), (endP e : Int))))
      (by simp only [List.map_cons, pos_bridge_expr first h.1.2, pos_bridge_exprs more h.2, List.map_map])
    simp only [sliceKids, ← toKidsP_eq] at hv
    simp only [toNodeP, pos_InExpr n _ _ _ _ _ _ (pos_bridge_expr e h.1.1) hv, posP, endP, Int.natCast_add]; rfl
  | .inUnnest n e un rp a, h => by
    simp only [wfBridge, Bool.and_eq_true] at h
    simp only [toNodeP, pos_InExpr n _ _ _ _ _ _ (pos_bridge_expr e h.1)
      (pos_UnnestInCondition un rp _ _ _ (pos_bridge_expr a h.2)), posP, endP, Int.natCast_add]; rfl
  | .sel e id, h => by
    simp only [wfBridge, Bool.and_eq_true] at h
    exact pos_SelectorExpr _ _ _ _ _ _ (pos_bridge_expr e h.1) (pos_identP id)
  | .index rb e none i, h => by
    simp only [wfBridge, Bool.and_eq_true] at h
    simp only [toNodeP, pos_IndexExpr rb _ _ _ _ _ _ (pos_bridge_expr e h.1)
      (pos_ExprArg _ _ _ (pos_bridge_expr i h.2)), posP, endP, Int.natCast_add]; rfl
  | .index rb e (some w) i, h => by
    simp only [wfBridge, Bool.and_eq_true] at h
    simp only [toNodeP, pos_IndexExpr rb _ _ _ _ _ _ (pos_bridge_expr e h.1)
      (pos_SubscriptSpecifierKeyword w.keywordPos w.rparen w.k.str _ _ _ (pos_bridge_expr i h.2)), posP, endP,
      Int.natCast_add]; rfl
  | .caseE cp ep o wp c t ws el, h => by
    simp only [wfBridge, Bool.and_eq_true] at h
    have hw0 := pos_CaseWhen wp _ _ _ _ _ _ (pos_bridge_expr c h.1.1.1.2) (pos_bridge_expr t h.1.1.2)
    have hsl := goKids_slice (T := PT) (f := "Whens") (k := 0)
      (nodes := nCaseWhen wp (toNodeP c) (toNodeP t) :: whenNodes ws)
      (pes := ((wp : Int), (endP t : Int)) :: whenPEs ws)
      (by simp only [List.map_cons, hw0, pos_bridge_whens ws h.1.2])
    simp only [sliceKids, ← toKidsW_eq] at hsl
    obtain ⟨k1, hk1⟩ := goKids_optKid (f := "Expr") (pos_bridge_o false o h.1.1.1.1)
    obtain ⟨k3, hk3⟩ := goKids_optKid (f := "Else") (pos_bridge_o true el h.2)
    have hk := goKids_app _ _ _ _ hk1 (goKids_app _ _ _ _ hsl hk3)
    simp only [toNodeP, pos_CaseExpr cp ep _ _ hk, posP, endP, Int.natCast_add]; rfl
  | .ifE ip rp c t e, h => by
    simp only [wfBridge, Bool.and_eq_true] at h
    simp only [toNodeP, pos_IfExpr ip rp _ _ _ _ _ _ _ _ _ (pos_bridge_expr c h.1.1) (pos_bridge_expr t h.1.2)
      (pos_bridge_expr e h.2), posP, endP, Int.natCast_add]; rfl
  | .cast cp rp e path, h => by
    simp only [wfBridge, Bool.and_eq_true] at h
    have ht := pos_NamedType (path.map identP) (path.map (fun i => ((i.namePos : Int), (i.nameEnd : Int))))
      (pos_identsP path)
    rw [← identKidsP_eq] at ht
    simp only [toNodeP, pos_CastExpr cp rp false _ _ _ _ _ _ (pos_bridge_expr e h.1) ht, posP, endP, Int.natCast_add]; rfl
  | .array lb rb es, h => by
    simp only [wfBridge] at h
    have hk := goKids_slice (T := PT) (f := "Values") (k := 0) (nodes := es.toList.map toNodeP)
      (pes := es.toList.map (fun e => ((posP e : Int), (endP e : Int))))
      (by simp only [pos_bridge_exprs es h, List.map_map])
    simp only [← toKidsV_eq] at hk
    simp only [toNodeP, pos_ArrayLiteral lb rb _ _ hk, posP, endP, Int.natCast_add]; rfl
theorem pos_bridge_exprs : (es : PExprs) → wfBridges es = true →
    (es.toList.map toNodeP).map (goPosEnd PT) =
      (es.toList.map (fun e => ((posP e : Int), (endP e : Int)))).map some
  | .nil, _ => rfl
  | .cons e es, h => by
    simp only [wfBridges, Bool.and_eq_true] at h
    simp only [PExprs.toList, List.map_cons, pos_bridge_expr e h.1, pos_bridge_exprs es h.2]
theorem pos_bridge_whens : (ws : PWhens) → wfBridgeW ws = true →
    (whenNodes ws).map (goPosEnd PT) = (whenPEs ws).map some
  | .nil, _ => rfl
  | .cons wp c t ws, h => by
    simp only [wfBridgeW, Bool.and_eq_true] at h
    simp only [whenNodes, whenPEs, List.map_cons, pos_bridge_whens ws h.2,
      pos_CaseWhen wp _ _ _ _ _ _ (pos_bridge_expr c h.1.1) (pos_bridge_expr t h.1.2)]
theorem pos_bridge_o (kw : Bool) : (o : POExpr) → wfBridgeO o = true →
    ∀ n, toNodeO kw o = some n → ∃ pe, goPosEnd PT n = some pe
  | .none, _ => fun _ hn => by cases hn
  | .some p e, h => fun n hn => by
    simp only [wfBridgeO] at h
    cases kw
    · simp only [toNodeO, Bool.false_eq_true, if_false, Option.some.injEq] at hn
      subst hn; exact ⟨_, pos_bridge_expr e h⟩
    · simp only [toNodeO, if_true, Option.some.injEq] at hn
      subst hn; exact ⟨_, pos_CaseElse p _ _ _ (pos_bridge_expr e h)⟩
end

end MF.Bridge
