/-
  MF.Proofs.Walk — the explicit-stack traversal of ast/walk.go computes the declarative preorder specification.
-/
import MF.Model.Walk
import MF.Spec.Preorder
namespace MF.Ast
open Spec.Preorder

variable {σ : Type}

/-! ### the events a stack item stands for -/

def itemEvents (V : Vis σ) (table : List (String × List WalkPush)) : Item σ → List (Event σ)
  | .node none _ => []
  | .node (some n) v => events V table n v
  | .nodes ns v =>
    Event.visitMany v ns :: (List.range ns.length).reverse.map (fun i => Event.index (V.visitMany v ns) i) ++
      ns.zipIdx.flatMap (fun q => events V table q.1 (V.index (V.visitMany v ns) q.2))

/-- number of `Field` / `Index` calls = number of stack items pushed while producing these events -/
def pushed : List (Event σ) → Nat
  | [] => 0
  | .field _ _ :: r => pushed r + 1
  | .index _ _ :: r => pushed r + 1
  | .visit _ _ :: r => pushed r
  | .visitMany _ _ :: r => pushed r

theorem pushed_append : ∀ (a b : List (Event σ)), pushed (a ++ b) = pushed a + pushed b
  | [], b => by simp [pushed]
  | e :: a, b => by
    cases e <;> simp only [List.cons_append, pushed, pushed_append a b] <;> omega

theorem pushed_map_field {α : Type} (f : α → σ) (g : α → String) :
    ∀ (l : List α), pushed (l.map (fun p => Event.field (f p) (g p))) = l.length
  | [] => rfl
  | a :: l => by simp only [List.map_cons, pushed, pushed_map_field f g l, List.length_cons]

theorem pushed_map_index {α : Type} (f : α → σ) (g : α → Nat) :
    ∀ (l : List α), pushed (l.map (fun p => Event.index (f p) (g p))) = l.length
  | [] => rfl
  | a :: l => by simp only [List.map_cons, pushed, pushed_map_index f g l, List.length_cons]

theorem pushed_map_index' (w : σ) : ∀ (l : List Nat), pushed (l.map (Event.index w)) = l.length
  | [] => rfl
  | a :: l => by simp only [List.map_cons, pushed, pushed_map_index' w l, List.length_cons]

theorem revIndexed_length (ns : List Node) : (revIndexed ns).length = ns.length := by
  simp [revIndexed]

theorem revIndexed_fst (ns : List Node) : (revIndexed ns).map (·.1) = (List.range ns.length).reverse := by
  simp only [revIndexed, List.map_reverse, List.map_map]
  congr 1
  have : ((fun (x : Nat × Node) => x.1) ∘ fun (p : Node × Nat) => (p.2, p.1)) = Prod.snd := rfl
  rw [this, List.zipIdx_map_snd, List.range_eq_range']

/-- pushes of a kind (no row = no pushes) -/
def pushesOf (table : List (String × List WalkPush)) (n : Node) : List WalkPush := (table.lookup n.kind).getD []

def itemOf (V : Vis σ) (n : Node) (v : σ) (p : WalkPush) : Item σ :=
  if p.many then Item.nodes (n.kids.slice p.field) (V.field v p.label)
  else Item.node (n.kids.single p.field) (V.field v p.label)

theorem walkInternal_eq (V : Vis σ) (table : List (String × List WalkPush)) (n : Node) (v : σ) :
    walkInternal V table n v =
      ((pushesOf table n).map (itemOf V n v), (pushesOf table n).map (fun p => Event.field v p.label)) := by
  unfold walkInternal pushesOf
  cases table.lookup n.kind <;> rfl

/-- the specification, phrased with the items `walkInternal` pushes -/
theorem events_eq_items (V : Vis σ) (table : List (String × List WalkPush)) (n : Node) (v : σ) :
    events V table n v =
      Event.visit v n ::
        match V.visit v n with
        | none => []
        | some v' => (walkInternal V table n v').2 ++ (walkInternal V table n v').1.reverse.flatMap (itemEvents V table) := by
  rw [events_eq]
  cases hv : V.visit v n with
  | none => rfl
  | some v' =>
    simp only
    rw [walkInternal_eq]
    simp only
    rw [← List.map_reverse, List.flatMap_map]
    congr 1
    congr 1
    congr 1
    funext p
    unfold itemOf
    split
    · rfl
    · simp only [itemEvents]
      split <;> rename_i h <;> simp only [h]

/-- pops needed to consume a stack: one per item, plus one per item pushed on the way -/
def stackCost (V : Vis σ) (table : List (String × List WalkPush)) (stack : List (Item σ)) : Nat :=
  stack.length + pushed (stack.flatMap (itemEvents V table))

/-- `walkMain` consumes any stack, appending exactly the events its items stand for, whenever the fuel covers the
number of pops (plus the final test of the empty stack) -/
theorem walkMain_stack (V : Vis σ) (table : List (String × List WalkPush)) :
    ∀ (fuel : Nat) (stack : List (Item σ)) (acc : List (Event σ)), stackCost V table stack + 1 ≤ fuel →
      walkMain V table fuel stack acc = some (acc ++ stack.flatMap (itemEvents V table))
  | 0, _, _, h => by omega
  | fuel + 1, [], acc, _ => by simp [walkMain]
  | fuel + 1, top :: stack, acc, h => by
    have ih := walkMain_stack V table fuel
    simp only [stackCost, List.flatMap_cons, List.length_cons, pushed_append] at h
    cases top with
    | node on v =>
      cases on with
      | none =>
        simp only [walkMain]
        rw [ih stack acc (by simp only [stackCost, itemEvents, pushed] at h ⊢; omega)]
        simp [itemEvents]
      | some n =>
        simp only [walkMain]
        simp only [itemEvents] at h
        rw [events_eq_items] at h
        simp only [List.flatMap_cons, itemEvents]
        rw [events_eq_items]
        cases hv : V.visit v n with
        | none =>
          simp only [hv, pushed] at h
          simp only
          rw [ih stack _ (by simp only [stackCost]; omega)]
          simp
        | some v' =>
          simp only [hv] at h
          simp only
          rcases hwi : walkInternal V table n v' with ⟨items, evs⟩
          rw [hwi] at h
          simp only [pushed, pushed_append] at h
          have hlen : pushed evs = items.length := by
            rw [walkInternal_eq] at hwi
            cases hwi
            rw [pushed_map_field, List.length_map]
          simp only
          rw [ih _ _ (by
            simp only [stackCost, List.flatMap_append, List.length_append, List.length_reverse, pushed_append]
            omega)]
          simp [List.flatMap_append]
    | nodes ns v =>
      simp only [walkMain]
      have hitems : ((revIndexed ns).map (fun p => Item.node (some p.2) (V.index (V.visitMany v ns) p.1))).reverse
          = ns.zipIdx.map (fun q => Item.node (some q.1) (V.index (V.visitMany v ns) q.2)) := by
        simp only [revIndexed, List.map_reverse, List.reverse_reverse, List.map_map]
        rfl
      have hev : (revIndexed ns).map (fun p => Event.index (V.visitMany v ns) p.1)
          = (List.range ns.length).reverse.map (fun i => Event.index (V.visitMany v ns) i) := by
        rw [← revIndexed_fst, List.map_map]; rfl
      rw [hitems, hev]
      have hfm : (ns.zipIdx.map (fun q => Item.node (some q.1) (V.index (V.visitMany v ns) q.2))).flatMap (itemEvents V table)
          = ns.zipIdx.flatMap (fun q => events V table q.1 (V.index (V.visitMany v ns) q.2)) := by
        rw [List.flatMap_map]; rfl
      simp only [itemEvents, pushed, pushed_append, pushed_map_index', List.length_reverse, List.length_range] at h
      rw [ih _ _ (by
        simp only [stackCost, List.flatMap_append, List.length_append, List.length_map, List.length_zipIdx,
          pushed_append, hfm]
        omega)]
      simp only [List.flatMap_append, hfm, List.flatMap_cons, itemEvents]
      simp

/-- `walkMain` started as `ast.Walk` does, with any fuel that covers the pops, returns the specification -/
theorem walkMain_eq_spec (V : Vis σ) (table : List (String × List WalkPush)) (n : Node) (v : σ) (fuel : Nat)
    (h : pushed (events V table n v) + 2 ≤ fuel) :
    walkMain V table fuel [.node (some n) v] [] = some (events V table n v) := by
  rw [walkMain_stack V table fuel _ _ (by simp only [stackCost, List.flatMap_cons, List.flatMap_nil, itemEvents,
    List.append_nil, List.length_cons, List.length_nil]; omega)]
  simp [itemEvents]

/-! ### the fuel of `walk` suffices — for tables that push every field at most once

For an ARBITRARY table the statement is false (see `walk_fuel_counterexample` below: the fuel of `walk` depends on the
tree only, the number of pops also on the table).  `WalkTableOK` is the decidable condition under which it holds: no
kind has more than `maxPushes` pushes, and no kind pushes the same (field, many) twice — so every child is pushed at
most once and a tree of size `s` needs at most `(maxPushes + 1) · s` pops. -/

def pushKey (p : WalkPush) : String × Bool := (p.field, p.many)

def nodupB {α : Type} [BEq α] : List α → Bool
  | [] => true
  | a :: l => !l.contains a && nodupB l

def maxPushes : Nat := 22

def WalkTableOK (table : List (String × List WalkPush)) : Bool :=
  table.all (fun row => decide (row.2.length ≤ maxPushes) && nodupB (row.2.map pushKey))

theorem lookup_mem {β : Type} (k : String) : ∀ (l : List (String × β)) (b : β), l.lookup k = some b → (k, b) ∈ l
  | [], _, h => by simp at h
  | (a, x) :: l, b, h => by
    rw [List.lookup_cons] at h
    by_cases hk : k = a
    · subst hk
      simp only [beq_self_eq_true, Option.some.injEq] at h
      subst h
      exact List.mem_cons_self
    · have : (k == a) = false := by simpa using hk
      rw [this] at h
      exact List.mem_cons_of_mem _ (lookup_mem k l b h)

theorem pushesOf_ok {table : List (String × List WalkPush)} (hT : WalkTableOK table = true) (n : Node) :
    (pushesOf table n).length ≤ maxPushes ∧ nodupB ((pushesOf table n).map pushKey) = true := by
  unfold pushesOf
  cases hl : table.lookup n.kind with
  | none => exact ⟨Nat.zero_le _, rfl⟩
  | some ps =>
    have := List.all_eq_true.mp hT _ (lookup_mem _ _ _ hl)
    simpa using this

/-- total size of the children a push reaches -/
def childSize (ks : Kids) (p : WalkPush) : Nat :=
  if p.many then ((ks.slice p.field).map Node.size).sum
  else match ks.single p.field with
    | none => 0
    | some m => m.size

theorem sum_map_le {α : Type} (f g : α → Nat) : ∀ (l : List α), (∀ a ∈ l, f a ≤ g a) → (l.map f).sum ≤ (l.map g).sum
  | [], _ => Nat.le_refl _
  | a :: l, h => by
    have h1 := h a List.mem_cons_self
    have h2 := sum_map_le f g l (fun b hb => h b (List.mem_cons_of_mem _ hb))
    simp only [List.map_cons, List.sum_cons]
    omega

theorem sum_map_add {α : Type} (f g : α → Nat) : ∀ (l : List α),
    (l.map (fun a => f a + g a)).sum = (l.map f).sum + (l.map g).sum
  | [] => rfl
  | a :: l => by
    simp only [List.map_cons, List.sum_cons, sum_map_add f g l]
    omega

theorem sum_map_mul {α : Type} (c : Nat) (f : α → Nat) : ∀ (l : List α),
    (l.map (fun a => c * f a)).sum = c * (l.map f).sum
  | [] => rfl
  | a :: l => by
    simp only [List.map_cons, List.sum_cons, sum_map_mul c f l, Nat.mul_add]

theorem sum_map_zero {α : Type} (f : α → Nat) : ∀ (l : List α), (∀ a ∈ l, f a = 0) → (l.map f).sum = 0
  | [], _ => rfl
  | a :: l, h => by
    simp only [List.map_cons, List.sum_cons, h a List.mem_cons_self,
      sum_map_zero f l (fun b hb => h b (List.mem_cons_of_mem _ hb))]

/-- among pushes with distinct keys at most one has a given key -/
theorem sum_key_le (k : String × Bool) (c : Nat) : ∀ (l : List WalkPush), nodupB (l.map pushKey) = true →
    (l.map (fun p => if pushKey p = k then c else 0)).sum ≤ c
  | [], _ => Nat.zero_le _
  | a :: l, h => by
    simp only [List.map_cons, nodupB, Bool.and_eq_true, Bool.not_eq_true', List.contains_eq_mem,
      decide_eq_false_iff_not] at h
    simp only [List.map_cons, List.sum_cons]
    by_cases ha : pushKey a = k
    · have : (l.map (fun p => if pushKey p = k then c else 0)).sum = 0 := by
        apply sum_map_zero
        intro b hb
        have : pushKey b ≠ k := by
          intro hbk
          apply h.1
          rw [ha, ← hbk]
          exact List.mem_map_of_mem hb
        simp [this]
      rw [this]; simp [ha]
    · have := sum_key_le k c l h.2
      simp only [ha, if_false]
      omega

theorem childSize_cons (g : String) (i : Option Nat) (m : Node) (r : Kids) (p : WalkPush) :
    childSize (.cons g i m r) p ≤ (if pushKey p = (g, i != none) then m.size else 0) + childSize r p := by
  unfold childSize pushKey
  by_cases hm : p.many = true
  · simp only [hm, if_true]
    rw [Kids.slice]
    by_cases hc : (g == p.field && i != none) = true
    · simp only [hc, if_true, List.map_cons, List.sum_cons]
      simp only [Bool.and_eq_true, beq_iff_eq] at hc
      simp [hc.1, hc.2]
    · simp only [hc]
      exact Nat.le_add_left _ _
  · simp only [hm]
    rw [Kids.single]
    by_cases hc : (g == p.field && i == none) = true
    · simp only [hc, if_true]
      simp only [Bool.and_eq_true, beq_iff_eq] at hc
      simp [hc.1, hc.2]
    · simp only [hc]
      exact Nat.le_add_left _ _

/-- pushes with distinct keys reach disjoint children -/
theorem sum_childSize_le : ∀ (ks : Kids) (l : List WalkPush), nodupB (l.map pushKey) = true →
    (l.map (childSize ks)).sum ≤ ks.size
  | .nil, l, _ => by
    rw [sum_map_zero]
    · exact Nat.zero_le _
    · intro p _
      unfold childSize
      simp [Kids.slice, Kids.single]
  | .cons g i m r, l, h => by
    have h1 := sum_map_le _ _ l (fun p _ => childSize_cons g i m r p)
    rw [sum_map_add] at h1
    have h2 := sum_key_le (g, i != none) m.size l h
    have h3 := sum_childSize_le r l h
    rw [Kids.size]
    omega

theorem pushed_flatMap {α : Type} (F : α → List (Event σ)) : ∀ (l : List α),
    pushed (l.flatMap F) = (l.map (fun a => pushed (F a))).sum
  | [] => rfl
  | a :: l => by simp only [List.flatMap_cons, pushed_append, pushed_flatMap F l, List.map_cons, List.sum_cons]

theorem pushed_slice_le (V : Vis σ) (table : List (String × List WalkPush)) (C : Nat) (f : Nat → σ) :
    ∀ (ns : List Node) (k : Nat), (∀ m ∈ ns, ∀ w, pushed (events V table m w) + 1 ≤ C * m.size) →
      ns.length + pushed ((ns.zipIdx k).flatMap (fun q => events V table q.1 (f q.2))) ≤ C * (ns.map Node.size).sum
  | [], _, _ => by simp [pushed]
  | m :: ns, k, h => by
    have h1 := h m List.mem_cons_self (f k)
    have h2 := pushed_slice_le V table C f ns (k + 1) (fun a ha => h a (List.mem_cons_of_mem _ ha))
    simp only [List.zipIdx_cons, List.flatMap_cons, pushed_append, List.length_cons, List.map_cons, List.sum_cons,
      Nat.mul_add]
    omega

theorem pushed_events_le (V : Vis σ) {table : List (String × List WalkPush)} (hT : WalkTableOK table = true) :
    ∀ (k : Nat) (n : Node) (v : σ), n.size ≤ k → pushed (events V table n v) + 1 ≤ (maxPushes + 1) * n.size
  | 0, n, _, h => by rw [Node.size_eq] at h; omega
  | k + 1, n, v, h => by
    have ih := pushed_events_le V hT k
    have hs := Node.size_eq n
    rw [events_eq]
    cases hv : V.visit v n with
    | none =>
      simp only [pushed]
      rw [hs, Nat.mul_add]; omega
    | some v' =>
      obtain ⟨hlen, hnd⟩ := pushesOf_ok hT n
      simp only [pushed, pushed_append]
      rw [pushed_map_field, pushed_flatMap, List.map_reverse, List.sum_reverse_nat]
      have key : ∀ (F : WalkPush → Nat), (∀ p ∈ pushesOf table n, F p ≤ (maxPushes + 1) * childSize n.kids p) →
          (pushesOf table n).length + ((pushesOf table n).map F).sum + 1 ≤ (maxPushes + 1) * n.size := by
        intro F hb
        have h1 := sum_map_le _ _ _ hb
        rw [sum_map_mul] at h1
        have h2 := sum_childSize_le n.kids _ hnd
        have h3 := Nat.mul_le_mul_left (maxPushes + 1) h2
        rw [hs, Nat.mul_add]
        omega
      refine key _ ?_
      intro p _
      unfold childSize
      split
      · simp only [pushed, pushed_append, pushed_map_index', List.length_reverse, List.length_range]
        refine pushed_slice_le V table _ _ _ 0 ?_
        intro m hm w
        exact ih m w (by have := Kids.slice_size _ _ _ hm; omega)
      · split
        · simp [pushed]
        · rename_i m hm
          have := ih m (V.field v' p.label) (by have := Kids.single_size _ _ _ hm; omega)
          simp only [hm]
          omega

theorem fuel_arith (s : Nat) (hs : 1 ≤ s) : (maxPushes + 1) * s + 1 ≤ 4 * s * (s + 2) + 16 := by
  unfold maxPushes
  rcases Nat.lt_or_ge s 4 with h | h
  · have : s = 1 ∨ s = 2 ∨ s = 3 := by omega
    rcases this with rfl | rfl | rfl <;> decide
  · have h2 : 4 * s ≤ s * s := Nat.mul_le_mul_right s h
    rw [Nat.mul_add, Nat.mul_assoc]
    omega

/-- `ast.Walk` computes the specification (the fuel inside `walk` suffices) on every table that pushes each field at
most once and at most `maxPushes` fields per kind -/
theorem walk_eq_spec (V : Vis σ) (table : List (String × List WalkPush)) (hT : WalkTableOK table = true)
    (n : Node) (v : σ) : walk V table n v = some (events V table n v) := by
  unfold walk
  apply walkMain_eq_spec
  have h1 := pushed_events_le V hT n.size n v (Nat.le_refl _)
  have h2 := fuel_arith n.size (by rw [Node.size_eq]; omega)
  omega

/-! ### arbitrary tables: partial correctness, and why the table hypothesis is needed -/

theorem walkMain_mono (V : Vis σ) (table : List (String × List WalkPush)) :
    ∀ (fuel : Nat) (stack : List (Item σ)) (acc r : List (Event σ)), walkMain V table fuel stack acc = some r →
      ∀ fuel', fuel ≤ fuel' → walkMain V table fuel' stack acc = some r
  | 0, _, _, _, h, _, _ => by simp [walkMain] at h
  | fuel + 1, stack, acc, r, h, 0, hle => by omega
  | fuel + 1, [], acc, r, h, f' + 1, _ => by
    simp only [walkMain] at h ⊢; exact h
  | fuel + 1, top :: stack, acc, r, h, f' + 1, hle => by
    have ih := fun st a (hh : walkMain V table fuel st a = some r) => walkMain_mono V table fuel st a r hh f' (by omega)
    cases top with
    | node on v =>
      cases on with
      | none => simp only [walkMain] at h ⊢; exact ih _ _ h
      | some n =>
        simp only [walkMain] at h ⊢
        cases hv : V.visit v n with
        | none => simp only [hv] at h ⊢; exact ih _ _ h
        | some v' => simp only [hv] at h ⊢; exact ih _ _ h
    | nodes ns v => simp only [walkMain] at h ⊢; exact ih _ _ h

/-- whatever the table and the fuel: if the stack machine returns, it returns the specification -/
theorem walkMain_sound (V : Vis σ) (table : List (String × List WalkPush)) (n : Node) (v : σ) (fuel : Nat)
    (r : List (Event σ)) (h : walkMain V table fuel [.node (some n) v] [] = some r) : r = events V table n v := by
  have h1 := walkMain_mono V table fuel _ _ r h (fuel + (pushed (events V table n v) + 2)) (by omega)
  have h2 := walkMain_eq_spec V table n v (fuel + (pushed (events V table n v) + 2)) (by omega)
  rw [h1] at h2
  exact Option.some.inj h2

theorem walk_sound (V : Vis σ) (table : List (String × List WalkPush)) (n : Node) (v : σ) (r : List (Event σ))
    (h : walk V table n v = some r) : r = events V table n v :=
  walkMain_sound V table n v _ r h

/-- the fuel of `walk` does not suffice for every table: a leaf whose kind pushes 30 (absent) fields -/
theorem walk_fuel_counterexample :
    walk (σ := Unit) ⟨fun _ _ => some (), fun _ _ => (), fun _ _ => (), fun _ _ => ()⟩
      [("K", List.replicate 30 ⟨"F", false, "F"⟩)] (.mk "K" [] .nil) () = none := by decide

/-! ### corollaries on the specification -/

/-- (b) a node whose `Visit` returns nil contributes exactly one event -/
theorem events_pruned (V : Vis σ) (table : List (String × List WalkPush)) (n : Node) (v : σ)
    (h : V.visit v n = none) : events V table n v = [Event.visit v n] := by
  rw [events_eq, h]

theorem visited_append (a b : List (Event σ)) : visited (a ++ b) = visited a ++ visited b := by
  unfold visited; exact List.filterMap_append

theorem visited_map_field {α : Type} (f : α → σ) (g : α → String) (l : List α) :
    visited (l.map (fun p => Event.field (f p) (g p))) = [] := by
  unfold visited
  simp

theorem visited_map_index (w : σ) (l : List Nat) : visited (l.map (fun i => Event.index w i)) = [] := by
  unfold visited
  simp

theorem visited_flatMap {α : Type} (F : α → List (Event σ)) (l : List α) :
    visited (l.flatMap F) = l.flatMap (fun a => visited (F a)) := by
  unfold visited; exact List.filterMap_flatMap

theorem flatMap_congr' {α β : Type} (f g : α → List β) : ∀ (l : List α), (∀ a ∈ l, f a = g a) → l.flatMap f = l.flatMap g
  | [], _ => rfl
  | a :: l, h => by
    simp only [List.flatMap_cons, h a List.mem_cons_self,
      flatMap_congr' f g l (fun b hb => h b (List.mem_cons_of_mem _ hb))]

theorem visited_slice (V : Vis σ) (table : List (String × List WalkPush)) (f : Nat → σ) :
    ∀ (ns : List Node) (k : Nat), (∀ m ∈ ns, ∀ w, visited (events V table m w) = nodes table m) →
      visited ((ns.zipIdx k).flatMap (fun q => events V table q.1 (f q.2))) = ns.flatMap (nodes table)
  | [], _, _ => rfl
  | m :: ns, k, h => by
    simp only [List.zipIdx_cons, List.flatMap_cons, visited_append, h m List.mem_cons_self,
      visited_slice V table f ns (k + 1) (fun a ha => h a (List.mem_cons_of_mem _ ha))]

theorem visited_events_aux (V : Vis σ) (table : List (String × List WalkPush))
    (hV : ∀ v n, (V.visit v n).isSome = true) :
    ∀ (k : Nat) (n : Node) (v : σ), n.size ≤ k → visited (events V table n v) = nodes table n
  | 0, n, _, h => by rw [Node.size_eq] at h; omega
  | k + 1, n, v, h => by
    have ih := visited_events_aux V table hV k
    have hs := Node.size_eq n
    rw [events_eq, nodes_eq]
    cases hv : V.visit v n with
    | none => have := hV v n; simp [hv] at this
    | some v' =>
      simp only
      have hc : visited (Event.visit v n :: ([] : List (Event σ))) = [n] := rfl
      rw [show ∀ (l : List (Event σ)), Event.visit v n :: l = [Event.visit v n] ++ l from fun _ => rfl,
        visited_append, hc, visited_append, visited_map_field, visited_flatMap]
      simp only [List.nil_append, List.singleton_append]
      congr 1
      apply flatMap_congr'
      intro p _
      split
      · rw [show ∀ (x : Event σ) (a b : List (Event σ)), x :: a ++ b = [x] ++ (a ++ b) from fun _ _ _ => rfl,
          visited_append, visited_append, visited_map_index]
        simp only [visited, List.filterMap_cons, List.filterMap_nil, List.nil_append]
        refine visited_slice V table _ _ 0 ?_
        intro m hm w
        exact ih m w (by have := Kids.slice_size _ _ _ hm; omega)
      · split
        · rfl
        · rename_i m hm
          exact ih m _ (by have := Kids.single_size _ _ _ hm; omega)

/-- (a) with a visitor that never returns nil, the `Visit` calls are exactly the nodes reachable through the table's
fields, each once, parent before children, siblings in declaration order: the visited nodes are the preorder listing -/
theorem visited_events (V : Vis σ) (table : List (String × List WalkPush))
    (hV : ∀ v n, (V.visit v n).isSome = true) (n : Node) (v : σ) :
    visited (events V table n v) = nodes table n :=
  visited_events_aux V table hV n.size n v (Nat.le_refl _)

/-! ### (c) `Preorder`: a visitor with a mutable closure variable

`ast.Preorder` runs `Inspect` with the closure `func(n) bool { ok = ok && yield(n); return ok }`: its `Visit` reads and
writes a variable shared by ALL visitor values, which a `Vis σ` (whose state only flows from a node to its children)
cannot express.  `walkMainG` is `walkMain` with a global state `γ` threaded through the `Visit` calls in the order the
stack machine makes them; for a `Visit` that ignores the global state it IS `walkMain` (`walkMainG_lift`).  This
stateful machine is an extension made here for stating (c); it is not itself covered by the differential tests. -/

structure VisG (σ γ : Type) where
  /-- `VisitMany`, `Field`, `Index` (and an unused `visit`) -/
  base : Vis σ
  /-- `Visit`, reading and updating the shared state -/
  visitG : γ → σ → Node → Option σ × γ

def Vis.lift (V : Vis σ) (γ : Type) : VisG σ γ := ⟨V, fun g v n => (V.visit v n, g)⟩

def walkMainG {γ : Type} (W : VisG σ γ) (table : List (String × List WalkPush)) :
    Nat → List (Item σ) → γ → List (Event σ) → Option (List (Event σ) × γ)
  | 0, _, _, _ => none
  | _ + 1, [], g, acc => some (acc, g)
  | fuel + 1, top :: stack, g, acc =>
    match top with
    | .node none _ => walkMainG W table fuel stack g acc
    | .nodes ns v =>
      let v' := W.base.visitMany v ns
      let pushes := revIndexed ns
      let items := pushes.map (fun p => Item.node (some p.2) (W.base.index v' p.1))
      walkMainG W table fuel (items.reverse ++ stack) g
        (acc ++ [Event.visitMany v ns] ++ pushes.map (fun p => Event.index v' p.1))
    | .node (some n) v =>
      match W.visitG g v n with
      | (none, g') => walkMainG W table fuel stack g' (acc ++ [Event.visit v n])
      | (some v', g') =>
        let (items, evs) := walkInternal W.base table n v'
        walkMainG W table fuel (items.reverse ++ stack) g' (acc ++ [Event.visit v n] ++ evs)

/-- conservativity: with a `Visit` that ignores the shared state the stateful machine is the model's `walkMain` -/
theorem walkMainG_lift {γ : Type} (V : Vis σ) (table : List (String × List WalkPush)) :
    ∀ (fuel : Nat) (stack : List (Item σ)) (g : γ) (acc : List (Event σ)),
      walkMainG (V.lift γ) table fuel stack g acc = (walkMain V table fuel stack acc).map (fun r => (r, g))
  | 0, _, _, _ => rfl
  | fuel + 1, [], g, acc => rfl
  | fuel + 1, top :: stack, g, acc => by
    have ih := walkMainG_lift (γ := γ) V table fuel
    cases top with
    | node on v =>
      cases on with
      | none => simp only [walkMainG, walkMain]; exact ih _ _ _
      | some n =>
        simp only [walkMainG, walkMain, Vis.lift]
        cases hv : V.visit v n with
        | none => simp only; exact ih _ _ _
        | some v' => simp only; exact ih _ _ _
    | nodes ns v => simp only [walkMainG, walkMain]; exact ih _ _ _

theorem flatMap_zipIdx_fst {α β : Type} (f : α → List β) : ∀ (l : List α) (k : Nat),
    (l.zipIdx k).flatMap (fun a => f a.1) = l.flatMap f
  | [], _ => rfl
  | a :: l, k => by simp only [List.zipIdx_cons, List.flatMap_cons, flatMap_zipIdx_fst f l (k + 1)]

/-- the full preorder listing an item stands for -/
def itemNodes (table : List (String × List WalkPush)) : Item σ → List Node
  | .node none _ => []
  | .node (some n) _ => nodes table n
  | .nodes ns _ => ns.flatMap (nodes table)

theorem nodes_eq_items (V : Vis σ) (table : List (String × List WalkPush)) (n : Node) (v : σ) :
    nodes table n = n :: (walkInternal V table n v).1.reverse.flatMap (itemNodes table) := by
  rw [nodes_eq, walkInternal_eq]
  simp only
  rw [← List.map_reverse, List.flatMap_map]
  congr 1
  congr 1
  funext p
  unfold itemOf
  split
  · rfl
  · simp only [itemNodes]
    split <;> rename_i h <;> simp only [h]

/-- the body of a `for n := range ast.Preorder(root)` loop: loop state in; continue? and loop state out -/
structure Yield (s : Type) where
  step : s → Node → Bool × s

/-- the closure variable `ok`, the state of the loop body, and (ghost) the log of the calls of `yield` with their results -/
structure PState (s : Type) where
  ok : Bool
  st : s
  calls : List (Node × Bool)

variable {s : Type}

/-- `ok = ok && yield(n); return ok` -/
def yieldStep (Y : Yield s) (g : PState s) (n : Node) : Bool × PState s :=
  if g.ok then ((Y.step g.st n).1, ⟨(Y.step g.st n).1, (Y.step g.st n).2, g.calls ++ [(n, (Y.step g.st n).1)]⟩)
  else (false, g)

/-- the `inspector` of walk.go around that closure -/
def preorderVis (Y : Yield s) : VisG Unit (PState s) :=
  ⟨⟨fun _ _ => none, fun _ _ => (), fun _ _ => (), fun _ _ => ()⟩,
   fun g _ n => (if (yieldStep Y g n).1 then some () else none, (yieldStep Y g n).2)⟩

/-- SPECIFICATION of `Preorder`: offer the nodes of a list to the loop body, in order -/
def feed (Y : Yield s) (g : PState s) (l : List Node) : PState s := l.foldl (fun g m => (yieldStep Y g m).2) g

theorem feed_not_ok (Y : Yield s) : ∀ (l : List Node) (g : PState s), g.ok = false → feed Y g l = g
  | [], _, _ => rfl
  | m :: l, g, h => by
    have : (yieldStep Y g m).2 = g := by simp [yieldStep, h]
    simp only [feed, List.foldl_cons, this]
    exact feed_not_ok Y l g h

theorem feed_cons (Y : Yield s) (g : PState s) (m : Node) (l : List Node) :
    feed Y g (m :: l) = feed Y (yieldStep Y g m).2 l := rfl

/-- whenever the stack machine returns, the shared state is the one obtained by offering the full preorder listing
of the stack to the loop body -/
theorem walkMainG_preorder (Y : Yield s) (table : List (String × List WalkPush)) :
    ∀ (fuel : Nat) (stack : List (Item Unit)) (g : PState s) (acc evs : List (Event Unit)) (g' : PState s),
      walkMainG (preorderVis Y) table fuel stack g acc = some (evs, g') →
        g' = feed Y g (stack.flatMap (itemNodes table))
  | 0, _, _, _, _, _, h => by simp [walkMainG] at h
  | fuel + 1, [], g, acc, evs, g', h => by
    simp only [walkMainG, Option.some.injEq, Prod.mk.injEq] at h
    rw [← h.2]; rfl
  | fuel + 1, top :: stack, g, acc, evs, g', h => by
    have ih := walkMainG_preorder Y table fuel
    cases top with
    | node on v =>
      cases on with
      | none =>
        simp only [walkMainG] at h
        simpa [itemNodes] using ih _ _ _ _ _ h
      | some n =>
        simp only [walkMainG] at h
        simp only [List.flatMap_cons, itemNodes]
        rw [nodes_eq_items (preorderVis Y).base table n (), List.cons_append, feed_cons]
        cases hb : (yieldStep Y g n).1 with
        | false =>
          have hv : (preorderVis Y).visitG g v n = (none, (yieldStep Y g n).2) := by
            simp [preorderVis, hb]
          rw [hv] at h
          have hok : (yieldStep Y g n).2.ok = false := by
            unfold yieldStep at hb ⊢
            split
            · rename_i hg; simpa [hg] using hb
            · rename_i hg; simpa using hg
          rw [ih _ _ _ _ _ h, feed_not_ok Y _ _ hok, feed_not_ok Y _ _ hok]
        | true =>
          have hv : (preorderVis Y).visitG g v n = (some (), (yieldStep Y g n).2) := by
            simp [preorderVis, hb]
          rw [hv] at h
          simp only at h
          rcases hwi : walkInternal (preorderVis Y).base table n () with ⟨items, evs'⟩
          rw [hwi] at h
          simp only at h
          rw [ih _ _ _ _ _ h, List.flatMap_append]
    | nodes ns v =>
      simp only [walkMainG] at h
      have hitems : ((revIndexed ns).map (fun p => Item.node (σ := Unit) (some p.2)
            ((preorderVis Y).base.index ((preorderVis Y).base.visitMany v ns) p.1))).reverse
          = ns.zipIdx.map (fun q => Item.node (some q.1) ()) := by
        simp only [revIndexed, List.map_reverse, List.reverse_reverse, List.map_map]
        rfl
      rw [hitems] at h
      rw [ih _ _ _ _ _ h]
      congr 1
      simp only [List.flatMap_append, List.flatMap_cons, itemNodes, List.flatMap_map]
      congr 1
      exact flatMap_zipIdx_fst (nodes table) ns 0

/-! termination of the stateful machine, whatever the visitor: pruning only removes work, so the pops of the
never-pruning traversal bound the pops of every traversal -/

/-- the visitor that never prunes (and carries no information) -/
def Vfull : Vis Unit := ⟨fun _ _ => some (), fun _ _ => (), fun _ _ => (), fun _ _ => ()⟩

theorem Vfull_visit (v : Unit) (n : Node) : Vfull.visit v n = some () := rfl

def Item.forget : Item σ → Item Unit
  | .node on _ => .node on ()
  | .nodes ns _ => .nodes ns ()

theorem forget_walkInternal (V : Vis σ) (table : List (String × List WalkPush)) (n : Node) (v : σ) :
    (walkInternal V table n v).1.map Item.forget = (walkInternal Vfull table n ()).1 := by
  rw [walkInternal_eq, walkInternal_eq]
  simp only [List.map_map]
  apply List.map_congr_left
  intro p _
  simp only [Function.comp, itemOf]
  split <;> rfl

theorem walkMainG_total {γ : Type} (W : VisG σ γ) (table : List (String × List WalkPush)) :
    ∀ (fuel : Nat) (stack : List (Item σ)) (g : γ) (acc : List (Event σ)),
      stackCost Vfull table (stack.map Item.forget) + 1 ≤ fuel → ∃ r, walkMainG W table fuel stack g acc = some r
  | 0, _, _, _, h => by omega
  | fuel + 1, [], g, acc, _ => ⟨_, rfl⟩
  | fuel + 1, top :: stack, g, acc, h => by
    have ih := walkMainG_total W table fuel
    simp only [stackCost, List.map_cons, List.flatMap_cons, List.length_cons, pushed_append] at h
    cases top with
    | node on v =>
      cases on with
      | none =>
        simp only [walkMainG]
        exact ih _ _ _ (by simp only [stackCost, List.length_map] at h ⊢; omega)
      | some n =>
        simp only [Item.forget, itemEvents] at h
        rw [events_eq_items] at h
        simp only [Vfull_visit, pushed, pushed_append, List.length_map] at h
        simp only [walkMainG]
        rcases hv : W.visitG g v n with ⟨o, g1⟩
        cases o with
        | none =>
          simp only
          exact ih _ _ _ (by simp only [stackCost, List.length_map]; omega)
        | some v' =>
          simp only
          rcases hwi : walkInternal W.base table n v' with ⟨items, evs⟩
          simp only
          have hf := forget_walkInternal W.base table n v'
          rw [hwi] at hf
          simp only at hf
          have hlen : pushed (walkInternal Vfull table n ()).2 = items.length := by
            rw [← List.length_map (f := Item.forget), hf, walkInternal_eq]
            simp only [pushed_map_field, List.length_map]
          refine ih _ _ _ ?_
          simp only [stackCost, List.map_append, List.map_reverse, hf, List.flatMap_append, List.length_append,
            List.length_reverse, List.length_map, pushed_append]
          have : (walkInternal Vfull table n ()).1.length = items.length := by
            rw [← hf, List.length_map]
          omega
    | nodes ns v =>
      simp only [walkMainG]
      have hitems : (((revIndexed ns).map (fun p => Item.node (some p.2)
            (W.base.index (W.base.visitMany v ns) p.1))).reverse).map Item.forget
          = ns.zipIdx.map (fun q => Item.node (some q.1) ()) := by
        simp only [revIndexed, List.map_reverse, List.reverse_reverse, List.map_map]
        rfl
      have hfm : (ns.zipIdx.map (fun q => Item.node (σ := Unit) (some q.1) ())).flatMap (itemEvents Vfull table)
          = ns.zipIdx.flatMap (fun q => events Vfull table q.1 (Vfull.index (Vfull.visitMany () ns) q.2)) := by
        rw [List.flatMap_map]; rfl
      simp only [Item.forget, itemEvents, pushed, pushed_append, pushed_map_index', List.length_reverse,
        List.length_range, List.length_map] at h
      refine ih _ _ _ ?_
      simp only [stackCost, List.map_append, hitems, List.flatMap_append, List.length_append, List.length_map,
        List.length_zipIdx, pushed_append, hfm]
      omega

/-! what `feed` does: nothing after the first `false` -/

theorem feed_calls_inv (Y : Yield s) : ∀ (l : List Node) (g : PState s),
    (g.ok = true → ∀ c ∈ g.calls, c.2 = true) → (∀ c ∈ g.calls.dropLast, c.2 = true) →
      (∀ c ∈ (feed Y g l).calls.dropLast, c.2 = true)
  | [], _, _, h2 => h2
  | m :: l, g, h1, h2 => by
    rw [feed_cons]
    apply feed_calls_inv Y l
    · unfold yieldStep
      split
      · rename_i hg
        intro hok c hc
        simp only at hok hc
        rcases List.mem_append.mp hc with hc | hc
        · exact h1 hg c hc
        · simp only [List.mem_singleton] at hc
          rw [hc]; exact hok
      · intro hok; exact h1 hok
    · unfold yieldStep
      split
      · rename_i hg
        simp only [List.dropLast_concat]
        exact h1 hg
      · exact h2

theorem feed_calls_prefix (Y : Yield s) : ∀ (l : List Node) (g : PState s),
    ∃ k, (feed Y g l).calls.map (·.1) = g.calls.map (·.1) ++ l.take k
  | [], g => ⟨0, by simp [feed]⟩
  | m :: l, g => by
    rw [feed_cons]
    obtain ⟨k, hk⟩ := feed_calls_prefix Y l (yieldStep Y g m).2
    by_cases hg : g.ok = true
    · refine ⟨k + 1, ?_⟩
      rw [hk]
      simp [yieldStep, hg]
    · have hg' : g.ok = false := by simpa using hg
      refine ⟨0, ?_⟩
      have : (yieldStep Y g m).2 = g := by simp [yieldStep, hg']
      rw [this, feed_not_ok Y l g hg']
      simp

/-- the shared state a `for n := range ast.Preorder(root)` loop starts with -/
def PState.init (s0 : s) : PState s := ⟨true, s0, []⟩

/-- (c), characterisation: the traversal under `Preorder`'s closure terminates, and whenever it returns, the calls
of `yield` (with their results and the final loop state) are those of offering the preorder listing `nodes table n`
to the loop body, in order, up to and including the first `false` -/
theorem preorder_calls (Y : Yield s) (table : List (String × List WalkPush)) (n : Node) (s0 : s) :
    (∃ fuel evs, walkMainG (preorderVis Y) table fuel [.node (some n) ()] (PState.init s0) [] =
        some (evs, feed Y (PState.init s0) (nodes table n))) ∧
    (∀ fuel evs g', walkMainG (preorderVis Y) table fuel [.node (some n) ()] (PState.init s0) [] = some (evs, g') →
        g' = feed Y (PState.init s0) (nodes table n)) := by
  have hsound : ∀ fuel evs g', walkMainG (preorderVis Y) table fuel [.node (some n) ()] (PState.init s0) [] =
      some (evs, g') → g' = feed Y (PState.init s0) (nodes table n) := by
    intro fuel evs g' h
    have := walkMainG_preorder Y table fuel _ _ _ _ _ h
    simpa [itemNodes] using this
  refine ⟨?_, hsound⟩
  obtain ⟨⟨evs, g'⟩, hr⟩ := walkMainG_total (preorderVis Y) table _ [.node (some n) ()] (PState.init s0) []
    (Nat.le_refl _)
  exact ⟨_, evs, by rw [hr, hsound _ _ _ hr]⟩

/-- (c) `preorder_stops`: once `yield` has returned false no later `yield` call happens — in the log of the calls,
an entry with result `false` is the last one -/
theorem preorder_stops (Y : Yield s) (table : List (String × List WalkPush)) (n : Node) (s0 : s)
    (fuel : Nat) (evs : List (Event Unit)) (g' : PState s)
    (h : walkMainG (preorderVis Y) table fuel [.node (some n) ()] (PState.init s0) [] = some (evs, g'))
    (pre post : List (Node × Bool)) (m : Node) (hc : g'.calls = pre ++ (m, false) :: post) : post = [] := by
  rw [(preorder_calls Y table n s0).2 fuel evs g' h] at hc
  have hinv := feed_calls_inv Y (nodes table n) (PState.init s0) (by simp [PState.init]) (by simp [PState.init])
  rw [hc] at hinv
  cases post with
  | nil => rfl
  | cons c post =>
    have : (m, false) ∈ (pre ++ (m, false) :: c :: post).dropLast := by
      rw [List.dropLast_append_cons]
      simp [List.dropLast]
    have := hinv _ this
    simp at this

/-- … and the nodes `yield` is called on are an initial segment of the preorder listing -/
theorem preorder_calls_prefix (Y : Yield s) (table : List (String × List WalkPush)) (n : Node) (s0 : s)
    (fuel : Nat) (evs : List (Event Unit)) (g' : PState s)
    (h : walkMainG (preorderVis Y) table fuel [.node (some n) ()] (PState.init s0) [] = some (evs, g')) :
    ∃ k, g'.calls.map (·.1) = (nodes table n).take k := by
  rw [(preorder_calls Y table n s0).2 fuel evs g' h]
  obtain ⟨k, hk⟩ := feed_calls_prefix Y (nodes table n) (PState.init s0)
  exact ⟨k, by simpa [PState.init] using hk⟩

end MF.Ast
