/-
  MF.Proofs.ExprNoCrash — the one Go runtime panic the expression ladder could hit (`e.Value[0]` in `parseUnary` on an
  empty literal spelling) is unreachable: on token lists whose numeric tokens are non-empty — in particular on the
  output of the model lexer — the parser model never answers `crash`.
-/
import MF.Proofs.ExprSound
import MF.Proofs.LexAll
namespace MF.Expr

/-- every numeric token has a non-empty spelling (true of lexer output: only `<eof>` is empty) -/
def NumOK (ts : List Token) : Prop := ∀ t ∈ ts, (tk t.kind = .int ∨ tk t.kind = .float) → t.raw ≠ []

theorem NumOK.tail {ts : List Token} (h : NumOK ts) : NumOK ts.tail :=
  fun t ht => h t (List.mem_of_mem_tail ht)

theorem NumOK.of_spells {ts rest : List Token} {ys : List Tok'} (h : NumOK ts) (hs : Spells ts rest ys) : NumOK rest := by
  obtain ⟨pre, rfl, _⟩ := hs
  exact fun t ht => h t (by simp [ht])

/-- not a Go runtime panic -/
def NC {α : Type} (r : Res α) : Prop := r ≠ .crash

theorem NC.bind {α β : Type} {p : Res α} {k : α → Res β} (hp : NC p) (hk : ∀ a, p = .ok a → NC (k a)) : NC (p.bind k) := by
  cases p with
  | ok a => exact hk a rfl
  | crash => exact absurd rfl hp
  | _ => intro h; cases h

theorem foldSign_nc {op : UOp} {e : Expr} {ts rest : List Token} (hn : NumOK ts) (hs : Spells ts rest (yield e)) :
    NC (foldSign op e) := by
  unfold foldSign
  split
  · intro h; cases h
  · split
    · rename_i raw
      have : raw ≠ [] := by
        obtain ⟨pre, rfl, hm⟩ := hs
        simp only [yield, signToks, List.nil_append] at hm
        cases pre with
        | nil => simp at hm
        | cons t p =>
          simp only [List.map_cons, List.cons.injEq] at hm
          have hk : tk t.kind = .int := congrArg Tok'.k hm.1
          have hv : tokVal t = raw := congrArg Tok'.v hm.1
          simp only [tokVal, hk] at hv
          rw [← hv]; exact hn t (by simp) (Or.inl hk)
      cases raw with
      | nil => exact absurd rfl this
      | cons c cs => simp only [unsignedRaw?]; cases (c != 43 && c != 45) <;> (intro h; cases h)
    · rename_i raw
      have : raw ≠ [] := by
        obtain ⟨pre, rfl, hm⟩ := hs
        simp only [yield, signToks, List.nil_append] at hm
        cases pre with
        | nil => simp at hm
        | cons t p =>
          simp only [List.map_cons, List.cons.injEq] at hm
          have hk : tk t.kind = .float := congrArg Tok'.k hm.1
          have hv : tokVal t = raw := congrArg Tok'.v hm.1
          simp only [tokVal, hk] at hv
          rw [← hv]; exact hn t (by simp) (Or.inr hk)
      cases raw with
      | nil => exact absurd rfl this
      | cons c cs => simp only [unsignedRaw?]; cases (c != 43 && c != 45) <;> (intro h; cases h)
    · intro h; cases h

theorem NC.ok {α : Type} (a : α) : NC (Res.ok a) := fun h => by cases h
theorem NC.raise {α : Type} : NC (Res.raise : Res α) := fun h => by cases h
theorem NC.outside {α : Type} : NC (Res.outside : Res α) := fun h => by cases h
theorem NC.oof {α : Type} : NC (Res.outOfFuel : Res α) := fun h => by cases h

structure NoCrashAt (f : Nat) : Prop where
  expr : ∀ ts, NumOK ts → NC (parseExpr f ts)
  or_ : ∀ ts, NumOK ts → NC (parseOr f ts)
  orLoop : ∀ e ts, NumOK ts → NC (orLoop f e ts)
  and_ : ∀ ts, NumOK ts → NC (parseAnd f ts)
  andLoop : ∀ e ts, NumOK ts → NC (andLoop f e ts)
  not_ : ∀ ts, NumOK ts → NC (parseNot f ts)
  cmp : ∀ ts, NumOK ts → NC (parseComparison f ts)
  btw : ∀ n e ts, NumOK ts → NC (parseBetweenTail f n e ts)
  inCond : ∀ ts, NumOK ts → NC (parseInCondition f ts)
  inList : ∀ ts, NumOK ts → NC (inListLoop f ts)
  bitOr : ∀ ts, NumOK ts → NC (parseBitOr f ts)
  bitOrLoop : ∀ e ts, NumOK ts → NC (bitOrLoop f e ts)
  bitXor : ∀ ts, NumOK ts → NC (parseBitXor f ts)
  bitXorLoop : ∀ e ts, NumOK ts → NC (bitXorLoop f e ts)
  bitAnd : ∀ ts, NumOK ts → NC (parseBitAnd f ts)
  bitAndLoop : ∀ e ts, NumOK ts → NC (bitAndLoop f e ts)
  shift : ∀ ts, NumOK ts → NC (parseBitShift f ts)
  shiftLoop : ∀ e ts, NumOK ts → NC (shiftLoop f e ts)
  add : ∀ ts, NumOK ts → NC (parseAddSub f ts)
  addLoop : ∀ e ts, NumOK ts → NC (addLoop f e ts)
  mul : ∀ ts, NumOK ts → NC (parseMulDiv f ts)
  mulLoop : ∀ e ts, NumOK ts → NC (mulLoop f e ts)
  unary : ∀ ts, NumOK ts → NC (parseUnary f ts)
  sel : ∀ ts, NumOK ts → NC (parseSelector f ts)
  selLoop : ∀ e ts, NumOK ts → NC (selLoop f e ts)
  idx : ∀ ts, NumOK ts → NC (parseIndexSpecifier f ts)
  lit : ∀ ts, NumOK ts → NC (parseLit f ts)
  paren : ∀ ts, NumOK ts → NC (parseParenExpr f ts)
  caseE : ∀ ts, NumOK ts → NC (parseCaseExpr f ts)
  caseLoop : ∀ ts, NumOK ts → NC (caseWhenLoop f ts)
  caseWhen : ∀ ts, NumOK ts → NC (parseCaseWhen f ts)
  caseElse : ∀ ts, NumOK ts → NC (parseCaseElse f ts)
  ifE : ∀ ts, NumOK ts → NC (parseIfExpr f ts)
  arr : ∀ ts, NumOK ts → NC (parseSimpleArrayLiteral f ts)
  cast : ∀ ts, NumOK ts → NC (parseCastExpr f ts)

theorem nocrash_zero : NoCrashAt 0 := by
  constructor <;> intros <;> simp only [parseExpr, parseOr, orLoop, parseAnd, andLoop, parseNot, parseComparison,
    parseBetweenTail, parseInCondition, inListLoop, parseBitOr, bitOrLoop, parseBitXor, bitXorLoop, parseBitAnd,
    bitAndLoop, parseBitShift, shiftLoop, parseAddSub, addLoop, parseMulDiv, mulLoop, parseUnary, parseSelector,
    selLoop, parseIndexSpecifier, parseLit, parseParenExpr, parseCaseExpr, caseWhenLoop, parseCaseWhen, parseCaseElse,
    parseIfExpr, parseSimpleArrayLiteral, parseCastExpr] <;> exact NC.oof

/-! the rest of a successful call is a suffix of the input -/
section Rest
variable {f : Nat} {ts : List Token}
theorem r_expr {a} (h : parseExpr f ts = .ok a) (hn : NumOK ts) : NumOK a.2 := hn.of_spells ((sound_all f).expr ts a.1 a.2 h).1
theorem r_and {a} (h : parseAnd f ts = .ok a) (hn : NumOK ts) : NumOK a.2 := hn.of_spells ((sound_all f).and_ ts a.1 a.2 h).1
theorem r_not {a} (h : parseNot f ts = .ok a) (hn : NumOK ts) : NumOK a.2 := hn.of_spells ((sound_all f).not_ ts a.1 a.2 h).1
theorem r_bitOr {a} (h : parseBitOr f ts = .ok a) (hn : NumOK ts) : NumOK a.2 := hn.of_spells ((sound_all f).bitOr ts a.1 a.2 h).1
theorem r_bitXor {a} (h : parseBitXor f ts = .ok a) (hn : NumOK ts) : NumOK a.2 := hn.of_spells ((sound_all f).bitXor ts a.1 a.2 h).1
theorem r_bitAnd {a} (h : parseBitAnd f ts = .ok a) (hn : NumOK ts) : NumOK a.2 := hn.of_spells ((sound_all f).bitAnd ts a.1 a.2 h).1
theorem r_shift {a} (h : parseBitShift f ts = .ok a) (hn : NumOK ts) : NumOK a.2 := hn.of_spells ((sound_all f).shift ts a.1 a.2 h).1
theorem r_add {a} (h : parseAddSub f ts = .ok a) (hn : NumOK ts) : NumOK a.2 := hn.of_spells ((sound_all f).add ts a.1 a.2 h).1
theorem r_mul {a} (h : parseMulDiv f ts = .ok a) (hn : NumOK ts) : NumOK a.2 := hn.of_spells ((sound_all f).mul ts a.1 a.2 h).1
theorem r_unary {a} (h : parseUnary f ts = .ok a) (hn : NumOK ts) : NumOK a.2 := hn.of_spells ((sound_all f).unary ts a.1 a.2 h).1
theorem r_lit {a} (h : parseLit f ts = .ok a) (hn : NumOK ts) : NumOK a.2 := hn.of_spells ((sound_all f).lit ts a.1 a.2 h).1
theorem r_inCond {a} (h : parseInCondition f ts = .ok a) (hn : NumOK ts) : NumOK a.2 := hn.of_spells ((sound_all f).inCond ts a.1 a.2 h).1
theorem r_inList {a} (h : inListLoop f ts = .ok a) (hn : NumOK ts) : NumOK a.2 := hn.of_spells ((sound_all f).inList ts a.1 a.2 h).1
theorem r_idx {a} (h : parseIndexSpecifier f ts = .ok a) (hn : NumOK ts) : NumOK a.2 := hn.of_spells ((sound_all f).idx ts a.1 a.2 h).1
theorem r_caseWhen {a} (h : parseCaseWhen f ts = .ok a) (hn : NumOK ts) : NumOK a.2 :=
  hn.of_spells ((sound_all f).caseWhen ts a.1.1 a.1.2 a.2 h).1
theorem r_caseLoop {a} (h : caseWhenLoop f ts = .ok a) (hn : NumOK ts) : NumOK a.2 :=
  hn.of_spells ((sound_all f).caseLoop ts a.1 a.2 h).1
end Rest

/-- the type model has no run-time panic -/
theorem castType_nc (f : Nat) (ts : List Token) : NC (castType f ts) := by
  unfold castType
  split
  · split
    · exact NC.outside
    · split <;> first | exact NC.ok _ | exact NC.outside | exact NC.raise | exact NC.oof
  · exact NC.outside
  · exact NC.outside
  · exact NC.raise

theorem parseIsTail_nc (e : Expr) (ts : List Token) : NC (parseIsTail e ts) := by
  unfold parseIsTail
  try simp only
  split <;> first | exact NC.ok _ | exact NC.raise

section Step
variable {f : Nat}

theorem nc_succ (ih : NoCrashAt f) : NoCrashAt (f + 1) where
  expr := fun ts hn => by simp only [parseExpr]; exact ih.or_ ts hn
  or_ := fun ts hn => by
    simp only [parseOr]; exact NC.bind (ih.and_ ts hn) fun a ha => ih.orLoop _ _ (r_and ha hn)
  orLoop := fun e ts hn => by
    simp only [orLoop]; split
    · exact NC.bind (ih.and_ _ hn.tail) fun a ha => ih.orLoop _ _ (r_and ha hn.tail)
    · exact NC.ok _
  and_ := fun ts hn => by
    simp only [parseAnd]; exact NC.bind (ih.not_ ts hn) fun a ha => ih.andLoop _ _ (r_not ha hn)
  andLoop := fun e ts hn => by
    simp only [andLoop]; split
    · exact NC.bind (ih.not_ _ hn.tail) fun a ha => ih.andLoop _ _ (r_not ha hn.tail)
    · exact NC.ok _
  not_ := fun ts hn => by
    simp only [parseNot]; split
    · exact NC.bind (ih.not_ _ hn.tail) fun a _ => NC.ok _
    · exact ih.cmp ts hn
  cmp := fun ts hn => by
    simp only [parseComparison]
    refine NC.bind (ih.bitOr ts hn) fun a ha => ?_
    have hn1 := r_bitOr ha hn
    try simp only
    split
    · exact NC.bind (ih.bitOr _ hn1.tail) fun _ _ => NC.ok _
    · split
      · exact NC.bind (ih.inCond _ hn1.tail) fun _ _ => NC.ok _
      · exact ih.btw _ _ _ hn1.tail
      · split
        · exact NC.bind (ih.bitOr _ hn1.tail.tail) fun _ _ => NC.ok _
        · exact NC.bind (ih.inCond _ hn1.tail.tail) fun _ _ => NC.ok _
        · exact ih.btw _ _ _ hn1.tail.tail
        · exact NC.raise
      · exact parseIsTail_nc _ _
      · exact NC.ok _
  btw := fun n e ts hn => by
    simp only [parseBetweenTail]
    refine NC.bind (ih.bitOr ts hn) fun a ha => ?_
    have hn1 := r_bitOr ha hn
    try simp only
    split
    · exact NC.bind (ih.bitOr _ hn1.tail) fun _ _ => NC.ok _
    · exact NC.raise
  inCond := fun ts hn => by
    simp only [parseInCondition]
    split
    · exact NC.outside
    · split
      · refine NC.bind (ih.expr _ hn.tail) fun a ha => ?_
        have hn1 := r_expr ha hn.tail
        refine NC.bind (ih.inList _ hn1) fun b _ => ?_
        (try simp only); split <;> first | exact NC.ok _ | exact NC.raise
      · split
        · refine NC.bind (ih.expr _ hn.tail.tail) fun a _ => ?_
          (try simp only); split <;> first | exact NC.ok _ | exact NC.raise
        · exact NC.raise
      · exact NC.raise
  inList := fun ts hn => by
    simp only [inListLoop]; split
    · refine NC.bind (ih.expr _ hn.tail) fun a ha => ?_
      exact NC.bind (ih.inList _ (r_expr ha hn.tail)) fun _ _ => NC.ok _
    · exact NC.ok _
  bitOr := fun ts hn => by
    simp only [parseBitOr]; exact NC.bind (ih.bitXor ts hn) fun a ha => ih.bitOrLoop _ _ (r_bitXor ha hn)
  bitOrLoop := fun e ts hn => by
    simp only [bitOrLoop]; split
    · exact NC.bind (ih.bitXor _ hn.tail) fun a ha => ih.bitOrLoop _ _ (r_bitXor ha hn.tail)
    · exact NC.ok _
  bitXor := fun ts hn => by
    simp only [parseBitXor]; exact NC.bind (ih.bitAnd ts hn) fun a ha => ih.bitXorLoop _ _ (r_bitAnd ha hn)
  bitXorLoop := fun e ts hn => by
    simp only [bitXorLoop]; split
    · exact NC.bind (ih.bitAnd _ hn.tail) fun a ha => ih.bitXorLoop _ _ (r_bitAnd ha hn.tail)
    · exact NC.ok _
  bitAnd := fun ts hn => by
    simp only [parseBitAnd]; exact NC.bind (ih.shift ts hn) fun a ha => ih.bitAndLoop _ _ (r_shift ha hn)
  bitAndLoop := fun e ts hn => by
    simp only [bitAndLoop]; split
    · exact NC.bind (ih.shift _ hn.tail) fun a ha => ih.bitAndLoop _ _ (r_shift ha hn.tail)
    · exact NC.ok _
  shift := fun ts hn => by
    simp only [parseBitShift]; exact NC.bind (ih.add ts hn) fun a ha => ih.shiftLoop _ _ (r_add ha hn)
  shiftLoop := fun e ts hn => by
    simp only [shiftLoop]; split
    · exact NC.bind (ih.add _ hn.tail) fun a ha => ih.shiftLoop _ _ (r_add ha hn.tail)
    · exact NC.ok _
  add := fun ts hn => by
    simp only [parseAddSub]; exact NC.bind (ih.mul ts hn) fun a ha => ih.addLoop _ _ (r_mul ha hn)
  addLoop := fun e ts hn => by
    simp only [addLoop]; split
    · exact NC.bind (ih.mul _ hn.tail) fun a ha => ih.addLoop _ _ (r_mul ha hn.tail)
    · exact NC.ok _
  mul := fun ts hn => by
    simp only [parseMulDiv]; exact NC.bind (ih.unary ts hn) fun a ha => ih.mulLoop _ _ (r_unary ha hn)
  mulLoop := fun e ts hn => by
    simp only [mulLoop]; split
    · exact NC.bind (ih.unary _ hn.tail) fun a ha => ih.mulLoop _ _ (r_unary ha hn.tail)
    · exact NC.ok _
  unary := fun ts hn => by
    simp only [parseUnary]; split
    · exact ih.sel ts hn
    · refine NC.bind (ih.unary _ hn.tail) fun a ha => ?_
      exact NC.bind (foldSign_nc hn.tail ((sound_all f).unary _ a.1 a.2 ha).1) fun _ _ => NC.ok _
  sel := fun ts hn => by
    simp only [parseSelector]; exact NC.bind (ih.lit ts hn) fun a ha => ih.selLoop _ _ (r_lit ha hn)
  selLoop := fun e ts hn => by
    simp only [selLoop]; split
    · split
      · exact NC.ok _
      · refine NC.bind ?_ fun a ha => ?_
        · simp only [parseIdent]; split <;> first | exact NC.ok _ | exact NC.raise
        · simp only [parseIdent] at ha
          split at ha
          · cases ha; exact ih.selLoop _ _ hn.tail.tail
          · cases ha
    · refine NC.bind (ih.idx _ hn.tail) fun a ha => ?_
      have hn1 := r_idx ha hn.tail
      (try simp only); split
      · exact ih.selLoop _ _ hn1.tail
      · exact NC.raise
    · exact NC.ok _
  idx := fun ts hn => by
    simp only [parseIndexSpecifier]; split
    · split
      · refine NC.bind (ih.expr _ hn.tail.tail) fun a _ => ?_
        (try simp only); split <;> first | exact NC.ok _ | exact NC.raise
      · exact NC.bind (ih.expr ts hn) fun _ _ => NC.ok _
    · exact NC.bind (ih.expr ts hn) fun _ _ => NC.ok _
  lit := fun ts hn => by
    simp only [parseLit]
    split
    all_goals first
      | exact ih.paren ts hn
      | exact ih.caseE ts hn
      | exact ih.ifE ts hn
      | exact ih.arr ts hn
      | exact ih.cast ts hn
      | exact NC.outside
      | exact NC.raise
      | (simp only [parseNullLiteral, parseBoolLiteral, parseIntLiteral, parseFloatLiteral, parseStringLiteral,
          parseBytesLiteral, parseParam, expectThen, parseLitIdent]
         repeat' split
         all_goals first | exact NC.ok _ | exact NC.raise | exact NC.outside)
  paren := fun ts hn => by
    simp only [parseParenExpr]; split
    · exact NC.outside
    · refine NC.bind (ih.expr _ hn.tail) fun a _ => ?_
      (try simp only); split <;> first | exact NC.ok _ | exact NC.raise | exact NC.outside
  caseE := fun ts hn => by
    simp only [parseCaseExpr]; split
    · refine NC.bind ?_ fun o ho => ?_
      · split
        · exact NC.ok _
        · exact NC.bind (ih.expr _ hn.tail) fun _ _ => NC.ok _
      · have hn1 : NumOK o.2 := hn.tail.of_spells (s_caseOperand (sound_all f) ho).1
        refine NC.bind (ih.caseWhen _ hn1) fun w hw => ?_
        have hn2 := r_caseWhen hw hn1
        refine NC.bind (ih.caseLoop _ hn2) fun ws hws => ?_
        have hn3 := r_caseLoop hws hn2
        refine NC.bind ?_ fun el _ => ?_
        · split
          · exact NC.bind (ih.caseElse _ hn3) fun _ _ => NC.ok _
          · exact NC.ok _
        · (try simp only); split <;> first | exact NC.ok _ | exact NC.raise
    · exact NC.raise
  caseLoop := fun ts hn => by
    simp only [caseWhenLoop]; split
    · refine NC.bind (ih.caseWhen _ hn) fun w hw => ?_
      exact NC.bind (ih.caseLoop _ (r_caseWhen hw hn)) fun _ _ => NC.ok _
    · exact NC.ok _
  caseWhen := fun ts hn => by
    simp only [parseCaseWhen]; split
    · refine NC.bind (ih.expr _ hn.tail) fun c hc => ?_
      have hn1 := r_expr hc hn.tail
      (try simp only); split
      · exact NC.bind (ih.expr _ hn1.tail) fun _ _ => NC.ok _
      · exact NC.raise
    · exact NC.raise
  caseElse := fun ts hn => by
    simp only [parseCaseElse]; split
    · exact ih.expr _ hn.tail
    · exact NC.raise
  ifE := fun ts hn => by
    simp only [parseIfExpr]; split
    · split
      · refine NC.bind (ih.expr _ hn.tail.tail) fun c hc => ?_
        have hn1 := r_expr hc hn.tail.tail
        (try simp only); split
        · refine NC.bind (ih.expr _ hn1.tail) fun t ht => ?_
          have hn2 := r_expr ht hn1.tail
          (try simp only); split
          · refine NC.bind (ih.expr _ hn2.tail) fun e _ => ?_
            (try simp only); split <;> first | exact NC.ok _ | exact NC.raise
          · exact NC.raise
        · exact NC.raise
      · exact NC.raise
    · exact NC.raise
  cast := fun ts hn => by
    simp only [parseCastExpr]; split
    · split
      · refine NC.bind (ih.expr _ hn.tail.tail) fun a _ => ?_
        (try simp only); split
        · refine NC.bind (castType_nc _ _) fun t _ => ?_
          (try simp only); split <;> first | exact NC.ok _ | exact NC.raise
        · exact NC.raise
      · exact NC.raise
    · exact NC.raise
  arr := fun ts hn => by
    simp only [parseSimpleArrayLiteral]; split
    · split
      · exact NC.ok _
      · refine NC.bind (ih.expr _ hn.tail) fun a ha => ?_
        have hn1 := r_expr ha hn.tail
        refine NC.bind (ih.inList _ hn1) fun b _ => ?_
        (try simp only); split <;> first | exact NC.ok _ | exact NC.raise
    · exact NC.raise

end Step

theorem nocrash_all : ∀ f, NoCrashAt f
  | 0 => nocrash_zero
  | f + 1 => nc_succ (nocrash_all f)

/-- **No runtime panic.**  On token lists whose numeric tokens have a non-empty spelling (lexer output: only
`<eof>` is empty) the expression parser never reaches the index panic of `parseUnary` (`e.Value[0]`). -/
theorem parseExpr_no_crash {fuel : Nat} {ts : List Token} (h : NumOK ts) : parseExpr fuel ts ≠ .crash :=
  (nocrash_all fuel).expr ts h


/-! ## lexer output -/

theorem symTK_ne_num (s : Bytes) : symTK s ≠ .int ∧ symTK s ≠ .float := by
  unfold symTK
  split
  · rename_i p hp
    have := symTable_vals p (List.mem_of_find?_eq_some hp)
    exact ⟨this.2.2.2.1, this.2.2.2.2.1⟩
  · decide

theorem tk_num_ne_eof {k : TokKind} (h : tk k = .int ∨ tk k = .float) : k ≠ .eof := by
  intro hk; subst hk; rcases h with h | h <;> simp [tk] at h

theorem tokensOK_raw_ne {buf : Bytes} {p : Nat} {ts : List Token} (h : Lex.TokensOK buf p ts) :
    ∀ t ∈ ts, t.kind ≠ .eof → t.raw ≠ [] := by
  induction ts generalizing p with
  | nil => intro t ht; cases ht
  | cons u us ih =>
    simp only [Lex.TokensOK] at h
    obtain ⟨_, _, _, c4, c5, c6, _, c8, _, c10⟩ := h
    intro t ht hk
    rcases List.mem_cons.1 ht with rfl | ht
    · intro hr
      have hl := slice_length (b := buf) c5 c6
      rw [← c4, hr] at hl
      have := c8 hk
      simp at hl; omega
    · exact ih c10 t ht hk

/-- the tokens of an accepted input satisfy `NumOK` -/
theorem lexAll_numOK {buf : Bytes} {ts : List Token} (h : Lex.lexAll buf = .ok ts) : NumOK ts := by
  intro t ht hk
  exact tokensOK_raw_ne (Lex.lexAll_ok h).2 t ht (tk_num_ne_eof hk)

/-- **No runtime panic on lexed input.** -/
theorem parseExpr_no_crash_lexed {buf : Bytes} {ts : List Token} (h : Lex.lexAll buf = .ok ts) (fuel : Nat) :
    parseExpr fuel ts ≠ .crash :=
  parseExpr_no_crash (lexAll_numOK h)

end MF.Expr
