/-
  MF.Proofs.PrecTable — what the Boolean comparison `sameMap` of two precedence tables means:
  both are functions of (kind, op), with the same graph, hence the same `level?` everywhere.
-/
import MF.Spec.PrecTable
namespace MF.Spec.PrecTable

theorem subTable_mem {a b : Table} (h : subTable a b = true) {r : String × Option String × Nat} (hr : r ∈ a) :
    r ∈ b := by
  have := List.all_eq_true.mp h r hr
  simpa using this

theorem level?_some_mem {t : Table} {k : String} {op : Option String} {l : Nat} (h : level? t k op = some l) :
    (k, op, l) ∈ t := by
  unfold level? at h
  cases hf : t.find? (fun r => r.1 == k && r.2.1 == op) with
  | none => simp [hf] at h
  | some r =>
    simp only [hf, Option.map_some, Option.some.injEq] at h
    have hp := List.find?_some hf
    simp only [Bool.and_eq_true, beq_iff_eq] at hp
    have hm := List.mem_of_find?_eq_some hf
    obtain ⟨k', op', l'⟩ := r
    simp only at hp h
    rw [← hp.1, ← hp.2, ← h]
    exact hm

theorem level?_of_mem : ∀ {t : Table}, functional t = true → ∀ {k : String} {op : Option String} {l : Nat},
    (k, op, l) ∈ t → level? t k op = some l
  | [], _, _, _, _, hm => by cases hm
  | r :: t, hf, k, op, l, hm => by
    simp only [functional, Bool.and_eq_true, List.all_eq_true, Bool.not_eq_true'] at hf
    unfold level?
    rw [List.find?_cons]
    rcases List.mem_cons.mp hm with rfl | hm
    · simp
    · have hne : (r.1 == k && r.2.1 == op) = false := by
        have := hf.1 (k, op, l) hm
        cases hc : (r.1 == k && r.2.1 == op) with
        | false => rfl
        | true =>
          simp only [Bool.and_eq_true, beq_iff_eq] at hc
          simp [hc.1, hc.2] at this
      rw [hne]
      exact level?_of_mem hf.2 hm

/-- two tables that compare equal as maps give every (kind, op) the same level (or none) -/
theorem sameMap_level? {a b : Table} (h : sameMap a b = true) (k : String) (op : Option String) :
    level? a k op = level? b k op := by
  simp only [sameMap, Bool.and_eq_true] at h
  obtain ⟨⟨⟨fa, fb⟩, hab⟩, hba⟩ := h
  cases ha : level? a k op with
  | some l => exact (level?_of_mem fb (subTable_mem hab (level?_some_mem ha))).symm
  | none =>
    cases hb : level? b k op with
    | none => rfl
    | some l =>
      have := level?_of_mem fa (subTable_mem hba (level?_some_mem hb))
      rw [ha] at this
      cases this

/-- … and have the same rows -/
theorem sameMap_mem {a b : Table} (h : sameMap a b = true) (r : String × Option String × Nat) : r ∈ a ↔ r ∈ b := by
  simp only [sameMap, Bool.and_eq_true] at h
  exact ⟨subTable_mem h.1.2, subTable_mem h.2⟩

end MF.Spec.PrecTable
