import MF.Model.Split
import MF.Proofs.LexErr
namespace MF.Split
open MF.Lex

/-- pieces are consecutive, in range, and carry exactly their own text -/
def PiecesOK (buf : Bytes) : Nat → List Piece → Prop
  | _, [] => True
  | p, x :: xs => p ≤ x.pos ∧ x.pos ≤ x.end ∧ x.end ≤ buf.length ∧ x.statement = slice buf x.pos x.end ∧
      PiecesOK buf (x.end + 1) xs

def lastPieceEnd : Nat → List Piece → Nat
  | p, [] => p
  | _, x :: xs => lastPieceEnd (x.end + 1) xs

theorem PiecesOK_append {buf : Bytes} {p : Nat} {xs : List Piece} {x : Piece}
    (h : PiecesOK buf p xs) (h1 : lastPieceEnd p xs ≤ x.pos) (h2 : x.pos ≤ x.end) (h3 : x.end ≤ buf.length)
    (h4 : x.statement = slice buf x.pos x.end) :
    PiecesOK buf p (xs ++ [x]) ∧ lastPieceEnd p (xs ++ [x]) = x.end + 1 := by
  induction xs generalizing p with
  | nil => simp [PiecesOK, lastPieceEnd] at *; exact ⟨h1, h2, h3, h4⟩
  | cons d ds ih =>
    simp only [PiecesOK, lastPieceEnd, List.cons_append] at *
    obtain ⟨a, b, c, d', e⟩ := h
    have := ih e h1
    exact ⟨⟨a, b, c, d', this.1⟩, this.2⟩

theorem startOf_le {buf : Bytes} {s s' : State} (fr : Frame buf s s') : s.pos ≤ startOf s'.tok ∧ startOf s'.tok ≤ s'.tok.pos := by
  unfold startOf
  have c := fr.comments
  have sl := fr.space_le
  split
  · rename_i c0 cs hc
    rw [hc] at c sl
    simp only [CommentsOK, lastEnd] at c sl
    have := CommentsOK_le c.2.2.2.2.2
    omega
  · rename_i hc
    rw [hc] at sl
    simp only [lastEnd] at sl
    exact ⟨sl, Nat.le_refl _⟩

theorem finish_ok {buf : Bytes} {acc ps : List Piece} (h : finish acc = .ok ps) (hp : PiecesOK buf 0 acc) :
    ps ≠ [] ∧ PiecesOK buf 0 ps := by
  unfold finish at h
  split at h
  · cases h; simp [PiecesOK, slice_self]
  · rename_i hne
    cases h
    exact ⟨by simpa using hne, hp⟩

/-- C12: every returned piece has `Statement == input[Pos:End]`, `0 ≤ Pos ≤ End ≤ len`, pieces are in increasing
order and at least one byte (the separator) apart; the result is never empty. -/
theorem splitLoop_ok {buf : Bytes} {fuel : Nat} {s : State} {firstPos : Nat} {acc ps : List Piece}
    (h : splitLoop buf fuel s firstPos acc = .ok ps)
    (h1 : s.tok.pos ≤ s.pos) (h1' : s.tok.kind = K ";" → s.tok.pos < s.pos)
    (h2 : s.pos ≤ buf.length) (h3 : firstPos ≤ s.tok.pos)
    (h4 : PiecesOK buf 0 acc) (h5 : lastPieceEnd 0 acc ≤ firstPos) :
    ps ≠ [] ∧ PiecesOK buf 0 ps := by
  induction fuel generalizing s firstPos acc with
  | zero => simp [splitLoop] at h
  | succ fuel ih =>
    simp only [splitLoop] at h
    split at h
    · rename_i hsemi
      split at h
      · cases h
      · rename_i st hst
        obtain ⟨a, b, c⟩ := slice?_some hst
        split at h
        · cases h
        · cases h
        · rename_i s' hs'
          have fr := nextToken_frame hs'
          have so := startOf_le fr
          have happ := PiecesOK_append (x := { pos := firstPos, «end» := s.tok.pos, statement := st }) h4 h5 a b c
          -- the ';' token is non-empty, so the next piece starts at least one byte later
          have pg := nextToken_progress hs' h2
          have hk : s.tok.kind = K ";" := by simpa using hsemi
          have hlt := h1' hk
          refine ih h (by have := fr.tok_le; have := fr.tok_end; omega) ?_ fr.le_len so.2 happ.1 ?_
          · intro hk'
            have : s'.tok.kind ≠ .eof := by rw [hk']; simp [K]
            have := pg.2.2.2 rfl this
            have := fr.tok_end
            omega
          · rw [happ.2]
            simp only
            omega
    · split at h
      · cases h
      · cases h
      · rename_i s' hs'
        have fr := nextToken_frame hs'
        split at h
        · split at h
          · split at h
            · cases h
            · rename_i st hst
              obtain ⟨a, b, c⟩ := slice?_some hst
              have happ := PiecesOK_append (x := { pos := firstPos, «end» := s'.tok.pos, statement := st }) h4 h5 a b c
              exact finish_ok h happ.1
          · exact finish_ok h h4
        · have : firstPos ≤ s'.tok.pos := by
            have := fr.space_le
            have := (CommentsOK_le fr.comments).1
            omega
          have pg := nextToken_progress hs' h2
          refine ih h (by have := fr.tok_le; have := fr.tok_end; omega) ?_ fr.le_len this h4 h5
          intro hk'
          have hne : s'.tok.kind ≠ .eof := by rw [hk']; simp [K]
          have := pg.2.2.2 rfl hne
          have := fr.tok_end
          omega

theorem split_ok {buf : Bytes} {ps : List Piece} (h : split buf = .ok ps) : ps ≠ [] ∧ PiecesOK buf 0 ps := by
  unfold split at h
  exact splitLoop_ok h (by simp [init]) (by simp [init, K]; decide) (by simp [init]) (by simp [init]) (by simp [PiecesOK])
    (by simp [lastPieceEnd])

/-- fuel the loop needs from state `s` -/
def need (buf : Bytes) (s : State) : Nat :=
  if s.tok.kind = .eof ∧ s.pos = buf.length then 1 else buf.length - s.pos + 2

/-- C03/C12: the splitter never ends in a runtime panic and its loop terminates -/
theorem splitLoop_ne_crash {buf : Bytes} {fuel : Nat} {s : State} {firstPos : Nat} {acc : List Piece}
    (h1 : s.tok.pos ≤ s.pos) (h2 : s.pos ≤ buf.length) (h3 : firstPos ≤ s.tok.pos) (hf : need buf s ≤ fuel) :
    splitLoop buf fuel s firstPos acc ≠ .crash := by
  induction fuel generalizing s firstPos acc with
  | zero => unfold need at hf; split at hf <;> omega
  | succ fuel ih =>
    simp only [splitLoop]
    have hneed : ∀ s', nextToken buf false s = .ok s' → s'.tok.kind ≠ .eof →
        ¬(s.tok.kind = .eof ∧ s.pos = buf.length) → need buf s' ≤ fuel := by
      intro s' hs' hk hcond
      have pg := nextToken_progress hs' h2
      have := pg.2.2.1 hk
      have fr := nextToken_frame hs'
      have hle := fr.le_len
      unfold need at hf ⊢
      simp only [hcond, if_false] at hf
      have : ¬(s'.tok.kind = .eof ∧ s'.pos = buf.length) := fun hh => hk hh.1
      simp only [this, if_false]
      omega
    split
    · rename_i hsemi
      have hk : s.tok.kind = K ";" := by simpa using hsemi
      have hcond : ¬(s.tok.kind = .eof ∧ s.pos = buf.length) := by
        intro hh; rw [hk] at hh; simp [K] at hh
      rw [slice?_of_le h3 (by omega)]
      simp only
      split
      · simp
      · rename_i hc; exact absurd hc (nextToken_ne_crash h2)
      · rename_i s' hs'
        have fr := nextToken_frame hs'
        have so := startOf_le fr
        refine ih (by have := fr.tok_le; have := fr.tok_end; omega) fr.le_len so.2 ?_
        by_cases hk' : s'.tok.kind = .eof
        · have pg := nextToken_progress hs' h2
          have := (pg.1 hk').2
          unfold need at hf ⊢
          simp only [hcond, if_false] at hf
          simp only [hk', this, and_self, if_true]
          omega
        · exact hneed s' hs' hk' hcond
    · split
      · simp
      · rename_i hc; exact absurd hc (nextToken_ne_crash h2)
      · rename_i s' hs'
        have fr := nextToken_frame hs'
        split
        · split
          · have : firstPos ≤ s'.tok.pos := by
              have := fr.space_le
              have := (CommentsOK_le fr.comments).1
              omega
            rw [slice?_of_le this (by have := fr.tok_le; have := fr.tok_end; have := fr.le_len; omega)]
            simp only [finish]
            split <;> simp
          · simp only [finish]; split <;> simp
        · rename_i hk
          have hk' : s'.tok.kind ≠ .eof := by simpa using hk
          have hcond : ¬(s.tok.kind = .eof ∧ s.pos = buf.length) := by
            intro hh
            -- at the end of input the next token is <eof>
            obtain ⟨s'', e1, e2, _⟩ := eof_stable (buf := buf) (np := false) (s := s) hh.2
            rw [hs'] at e1; cases e1
            exact absurd e2 hk'
          have : firstPos ≤ s'.tok.pos := by
            have := fr.space_le
            have := (CommentsOK_le fr.comments).1
            omega
          exact ih (by have := fr.tok_le; have := fr.tok_end; omega) fr.le_len this (hneed s' hs' hk' hcond)

theorem split_ne_crash (buf : Bytes) : split buf ≠ .crash := by
  unfold split
  refine splitLoop_ne_crash (by simp [init]) (by simp [init]) (by simp [init]) ?_
  unfold need
  split <;> simp [init] <;> omega

/-- the splitter sees exactly the token stream of the lexer: it fails with the lexer's error, and succeeds when
the lexer reaches `<eof>` -/
theorem splitLoop_follows_lexer {buf : Bytes} {f1 : Nat} {s : State} {acc : List Token} :
    ∀ {f2 firstPos pacc}, s.tok.pos ≤ s.pos → s.pos ≤ buf.length → firstPos ≤ s.tok.pos → need buf s ≤ f2 →
    (∀ ts e, lexAllFrom buf f1 s acc = .err ts e → splitLoop buf f2 s firstPos pacc = .err e) ∧
    (∀ ts, lexAllFrom buf f1 s acc = .ok ts → ∃ ps, splitLoop buf f2 s firstPos pacc = .ok ps) := by
  induction f1 generalizing s acc with
  | zero => intros; simp [lexAllFrom]
  | succ f1 ih =>
    intro f2 firstPos pacc h1 h2 h3 hf
    cases f2 with
    | zero => unfold need at hf; split at hf <;> omega
    | succ f2 =>
    have hnc := splitLoop_ne_crash (acc := pacc) h1 h2 h3 hf
    simp only [lexAllFrom]
    cases hn : nextToken buf false s with
    | crash => exact absurd hn (nextToken_ne_crash h2)
    | err e =>
      simp only
      refine ⟨?_, fun ts h => (by cases h)⟩
      intro ts e' h
      cases h
      simp only [splitLoop, hn]
      split
      · rw [slice?_of_le h3 (by omega)]
      · rfl
    | ok s' =>
      simp only
      have fr := nextToken_frame hn
      have pg := nextToken_progress hn h2
      have hs1 : s'.tok.pos ≤ s'.pos := by have := fr.tok_le; have := fr.tok_end; omega
      have hfp : firstPos ≤ s'.tok.pos := by
        have := fr.space_le
        have := (CommentsOK_le fr.comments).1
        omega
      have so := startOf_le fr
      by_cases hk : s'.tok.kind = .eof
      · simp only [hk, beq_self_eq_true, if_true]
        refine ⟨fun ts e h => (by cases h), ?_⟩
        intro ts _
        -- the splitter terminates successfully within two more steps
        cases hsl : splitLoop buf (f2 + 1) s firstPos pacc with
        | ok ps => exact ⟨ps, rfl⟩
        | crash => exact absurd hsl hnc
        | err e =>
          exfalso
          simp only [splitLoop, hn] at hsl
          split at hsl
          · rw [slice?_of_le h3 (by omega)] at hsl
            simp only at hsl
            -- second step: current token is <eof> at end of input
            obtain ⟨s'', e1, e2, e3, _⟩ := eof_stable (buf := buf) (np := false) (s := s') (pg.1 hk).2
            cases f2 with
            | zero => simp [splitLoop] at hsl
            | succ f3 =>
              simp only [splitLoop, hk, e1, e2] at hsl
              have : (TokKind.eof == K ";") = false := by simp [K]
              simp only [this, Bool.false_eq_true, if_false, beq_self_eq_true, if_true] at hsl
              split at hsl
              · split at hsl
                · cases hsl
                · (simp only [finish] at hsl; split at hsl <;> cases hsl)
              · (simp only [finish] at hsl; split at hsl <;> cases hsl)
          · simp only [hk, beq_self_eq_true, if_true] at hsl
            split at hsl
            · split at hsl
              · cases hsl
              · (simp only [finish] at hsl; split at hsl <;> cases hsl)
            · (simp only [finish] at hsl; split at hsl <;> cases hsl)
      · have hk' : (s'.tok.kind == TokKind.eof) = false := by simpa using hk
        simp only [hk', Bool.false_eq_true, if_false]
        have hcond : ¬(s.tok.kind = .eof ∧ s.pos = buf.length) := by
          intro hh
          obtain ⟨s'', e1, e2, _⟩ := eof_stable (buf := buf) (np := false) (s := s) hh.2
          rw [hn] at e1; cases e1
          exact absurd e2 hk
        have hneed : need buf s' ≤ f2 := by
          have := pg.2.2.1 hk
          have hle := fr.le_len
          unfold need at hf ⊢
          simp only [hcond, if_false] at hf
          have : ¬(s'.tok.kind = .eof ∧ s'.pos = buf.length) := fun hh => hk hh.1
          simp only [this, if_false]
          omega
        simp only [splitLoop, hn, hk', Bool.false_eq_true, if_false]
        split
        · rw [slice?_of_le h3 (by omega)]
          simp only
          exact ih hs1 fr.le_len so.2 hneed
        · exact ih hs1 fr.le_len hfp hneed

/-- C12: `SplitRawStatements` fails exactly when the input has a lexical error, with that error. -/
theorem split_err_iff (buf : Bytes) (e : LexErr) : split buf = .err e ↔ ∃ ts, lexAll buf = .err ts e := by
  have key := splitLoop_follows_lexer (buf := buf) (f1 := buf.length + 2) (s := init) (acc := [])
    (f2 := buf.length + 3) (firstPos := 0) (pacc := []) (by simp [init]) (by simp [init]) (by simp [init])
    (by unfold need; split <;> simp [init] <;> omega)
  constructor
  · intro h
    cases hl : lexAll buf with
    | err ts e' =>
      have := key.1 ts e' hl
      unfold split at h
      rw [h] at this; cases this
      exact ⟨ts, rfl⟩
    | ok ts =>
      obtain ⟨ps, hps⟩ := key.2 ts hl
      unfold split at h
      rw [h] at hps; cases hps
    | crash ts => exact absurd hl (lexAll_ne_crash buf ts)
  · rintro ⟨ts, h⟩
    exact key.1 ts e h

end MF.Split
