/-
  MF.Proofs.LexPieces — C11, lexer half, assembled: every piece of `SplitRawStatements`, shifted back to its offset by
  blanks, lexes to exactly the tokens of the whole input that lie inside the piece (same kind, raw text, value, base,
  position, comments), followed by `<eof>` at the end of the piece.
-/
import MF.Proofs.StmtList
import MF.Proofs.LexLocal
namespace MF.Stmt
open MF MF.Lex MF.Split

/-- what C11 compares for the piece `x` of an input whose tokens are `all`: lexing `x.statement` behind `x.pos`
blanks gives the tokens of `all` inside `x`, then `<eof>` at `x.end` carrying the comments of the terminator `t`
(the `;` token, or the `<eof>` of the whole input, that starts at `x.end`) -/
def PieceLex (all : List Token) (x : Piece) : Prop :=
  ∃ ts' t, lexAll (List.replicate x.pos 32 ++ x.statement) = .ok ts' ∧
    t ∈ all ∧ t.pos = x.end ∧ (t.kind = K ";" ∨ t.kind = .eof) ∧
    ts'.map tokCore = (tokensIn all x).map tokCore ++ [tokCore (eofOf t x.end)]

theorem isNextDotIdent_semi : isNextDotIdent (K ";") = false := by decide
theorem K_semi_ne_dot : K ";" ≠ K "." := by decide

theorem pieces_lex_aux {buf : Bytes} :
    ∀ (ts : List Token) {p fp : Nat} {done cur : List Token} {sa : State},
    TokensOK buf p ts → ts ≠ [] → FpOK fp ts →
    (∀ t ∈ done, t.pos < fp) →
    (∀ t ∈ cur, fp ≤ t.pos ∧ t.pos < t.end ∧ t.end ≤ p ∧ t.kind ≠ .eof) →
    Steps buf sa (cur ++ ts) → sa.pos ≤ buf.length → Fresh sa →
    ((sa.pos = 0 ∧ fp = 0) ∨ (∀ h0 rest0, cur ++ ts = h0 :: rest0 → fp = startOf h0)) →
    (∀ t ∈ ts, t.kind = K ";" → buf[t.pos]? = some 59) →
    ∀ x ∈ specPieces buf ts fp, PieceLex (done ++ cur ++ ts) x := by
  intro ts
  induction ts with
  | nil => intro p fp done cur sa _ hne; exact absurd rfl hne
  | cons t0 ts ih =>
    intro p fp done cur sa h hne hfp hdone hcur hsteps hlen hfresh hcase hbyte
    obtain ⟨f0, hiff, hts⟩ := TokensOK_head h
    have hfp0 : fp ≤ startOf t0 := hfp
    have hsg := f0.start_ge
    have hsl := f0.start_le
    have hpl := f0.pos_le
    have hel := f0.end_le
    -- the piece that ends at the terminator `t0`
    have hfirst : t0.kind = K ";" ∨ t0.kind = .eof →
        PieceLex (done ++ cur ++ t0 :: ts) { pos := fp, «end» := t0.pos, statement := slice buf fp t0.pos } := by
      intro hk
      have hsent : t0.pos < buf.length → buf[t0.pos]? = some 59 := by
        intro hlt
        rcases hk with hk | hk
        · exact hbyte t0 List.mem_cons_self hk
        · have := f0.eof_pos hk; omega
      obtain ⟨ts', h1, h2⟩ := piece_steps (fp := fp) hsteps rfl hfresh hlen hcase hsent (by omega) (by omega)
      refine ⟨ts', t0, h1, by simp, rfl, hk, ?_⟩
      rw [tokensIn_first h hfp hdone hcur hk]
      exact h2
    by_cases hs : t0.kind = K ";"
    · have hne0 := f0.nonempty (by rw [hs]; exact semi_ne_eof)
      have hns := nextStart_ge h
      have htne := TokensOK_tail_ne h (by rw [hs]; exact semi_ne_eof)
      intro x hx
      rw [specPieces_semi hs] at hx
      rcases List.mem_cons.1 hx with rfl | hx
      · exact hfirst (Or.inl hs)
      · obtain ⟨sb, hsb, hsbt, hsbl, hsbd⟩ := steps_after hsteps htne hlen
        have hfr : Fresh sb := by
          constructor
          · cases hd : sb.dotIdent with
            | false => rfl
            | true =>
              have := hsbd hd
              rw [hsbt, hs] at this
              exact absurd this K_semi_ne_dot
          · rw [hsbt, hs]; exact isNextDotIdent_semi
        have := ih (p := t0.end) (fp := nextStart t0 ts) (done := done ++ cur ++ [t0]) (cur := []) (sa := sb)
          hts htne FpOK_next
          (by
            intro t ht
            rcases List.mem_append.1 ht with ht | ht
            · rcases List.mem_append.1 ht with ht | ht
              · have := hdone t ht; omega
              · have := hcur t ht; omega
            · simp at ht; subst ht; omega)
          (fun _ h => (by cases h))
          (by simpa using hsb) hsbl hfr
          (Or.inr (by
            intro h0 rest0 heq
            simp only [List.nil_append] at heq
            subst heq
            rfl))
          (fun t ht => hbyte t (List.mem_cons_of_mem _ ht))
          x hx
        have e : done ++ cur ++ [t0] ++ [] ++ ts = done ++ cur ++ t0 :: ts := by simp
        rw [e] at this
        exact this
    · by_cases he : t0.kind = .eof
      · intro x hx
        rw [specPieces_eof he] at hx
        split at hx
        · simp at hx; subst hx
          exact hfirst (Or.inr he)
        · cases hx
      · intro x hx
        rw [specPieces_other hs he] at hx
        have hne0 := f0.nonempty he
        have := ih (p := t0.end) (fp := fp) (done := done) (cur := cur ++ [t0]) (sa := sa)
          hts (TokensOK_tail_ne h he) (FpOK_tail h hfp) hdone
          (by
            intro t ht
            rcases List.mem_append.1 ht with ht | ht
            · have := hcur t ht
              exact ⟨this.1, this.2.1, by omega, this.2.2.2⟩
            · simp at ht; subst ht
              exact ⟨by omega, hne0, Nat.le_refl _, he⟩)
          (by simpa using hsteps) hlen hfresh
          (by
            rcases hcase with hc | hc
            · exact Or.inl hc
            · right
              intro h0 rest0 heq
              exact hc h0 rest0 (by simpa using heq))
          (fun t ht => hbyte t (List.mem_cons_of_mem _ ht))
          x hx
        have e : done ++ (cur ++ [t0]) ++ ts = done ++ cur ++ t0 :: ts := by simp
        rw [e] at this
        exact this

/-- C11, lexer half: LOCALITY OF LEXING.  For an input that lexes to `ts`, every piece `x` of `SplitRawStatements`
(`specPieces buf ts 0`, see `split_eq_spec`) has this property: the text of the piece, shifted back to its offset by
`x.pos` blanks, lexes — from the initial lexer state — to exactly the tokens of `ts` that lie inside `[x.pos, x.end)`,
with the same kinds, raw texts, values, bases, positions and comments, followed by `<eof>` at `x.end`. -/
theorem pieces_lex {buf : Bytes} {ts : List Token} (h : lexAll buf = .ok ts) :
    ∀ x ∈ specPieces buf ts 0, PieceLex ts x := by
  obtain ⟨hne, hok⟩ := lexAll_ok h
  have hsteps := lexAll_steps h
  have := pieces_lex_aux (buf := buf) ts (p := 0) (fp := 0) (done := []) (cur := []) (sa := init) hok hne
    (FpOK_zero hok) (fun _ h => (by cases h)) (fun _ h => (by cases h)) (by simpa using hsteps) (by simp [init])
    ⟨rfl, isNextDotIdent_init⟩ (Or.inl ⟨rfl, rfl⟩) (steps_semi_byte hsteps)
  simpa using this

/-- the `<eof>` token of the empty input -/
def eofTok0 : Token := { kind := .eof, pos := 0, «end» := 0 }

theorem lexAll_nil : lexAll [] = .ok [eofTok0] := by rfl

/-- the same for the result of `SplitRawStatements` itself (including its special case, the single empty piece
returned for the empty input) -/
theorem split_pieces_lex {buf : Bytes} {ts : List Token} {ps : List Piece} (h : lexAll buf = .ok ts)
    (hs : split buf = .ok ps) : ∀ x ∈ ps, PieceLex ts x := by
  rcases split_cases h hs with ⟨rfl, _⟩ | ⟨hb, _, rfl⟩
  · exact pieces_lex h
  · subst hb
    rw [lexAll_nil] at h
    cases h
    intro x hx
    simp only [List.mem_singleton] at hx
    subst hx
    refine ⟨_, eofTok0, lexAll_nil, List.mem_singleton.2 rfl, rfl, Or.inr rfl, ?_⟩
    rfl

/-! ## C11 end to end -/

/-- the statement parser looks at tokens only through what `tokCore` keeps (not at the white space in front) -/
def CoreInv {α : Type} (P : StmtParser α) : Prop :=
  ∀ l1 l2 : List Token, l1.map tokCore = l2.map tokCore →
    (P l1).1 = (P l2).1 ∧ (P l1).2.map tokCore = (P l2).2.map tokCore

theorem headIsEof_core {l1 l2 : List Token} (h : l1.map tokCore = l2.map tokCore) : headIsEof l1 = headIsEof l2 := by
  cases l1 with
  | nil => cases l2 with
    | nil => rfl
    | cons b l2 => simp at h
  | cons a l1 => cases l2 with
    | nil => simp at h
    | cons b l2 =>
      simp only [List.map_cons, List.cons.injEq] at h
      have : a.kind = b.kind := congrArg (·.1) h.1
      simp [headIsEof, this]

theorem parseStatement_core {α : Type} {P : StmtParser α} (hI : CoreInv P) {l1 l2 : List Token}
    (h : l1.map tokCore = l2.map tokCore) : parseStatement P l1 = parseStatement P l2 := by
  obtain ⟨h1, h2⟩ := hI l1 l2 h
  unfold parseStatement
  rw [h1, headIsEof_core h2]

/-- the terminating `<eof>` token does not matter -/
theorem parseStatement_term {α : Type} {P : StmtParser α} (hP : Local P) {a : List Token} (hne : a ≠ [])
    (hf : Free a) {e1 e2 : Token} (h1 : e1.kind = .eof) (h2 : e2.kind = .eof) :
    parseStatement P (a ++ [e1]) = parseStatement P (a ++ [e2]) := by
  obtain ⟨eflag, v, a', ⟨pre, hpre⟩, hloc⟩ := hP a hne hf
  have hfree' : Free a' := fun x hx => hf x (by rw [hpre]; exact List.mem_append_right _ hx)
  obtain ⟨r1, hr1, hre1, hrv1⟩ := hloc e1 [] (Or.inr ⟨h1, rfl⟩)
  obtain ⟨r2, hr2, hre2, hrv2⟩ := hloc e2 [] (Or.inr ⟨h2, rfl⟩)
  unfold parseStatement
  rw [hr1, hr2]
  simp only
  have hh : ∀ e : Token, e.kind = .eof → headIsEof (a' ++ [e]) = decide (a' = []) := by
    intro e he
    cases a' with
    | nil => simp [headIsEof, he]
    | cons y a'' =>
      have := (hfree' y List.mem_cons_self).2
      simp [headIsEof, this]
  rw [hh e1 h1, hh e2 h2, hre1, hre2]
  cases heq : eflag
  · rw [hrv1 heq, hrv2 heq]
  · simp

/-- lexing a piece the way C11 does: behind as many blanks as its offset -/
def pieceTokens (x : Piece) : Option (List Token) :=
  match lexAll (List.replicate x.pos 32 ++ x.statement) with
  | .ok ts' => some ts'
  | _ => none

/-- `ParseStatement` on a raw statement (lexer included) -/
def parsePiece {α : Type} (P : StmtParser α) (x : Piece) : Option α := (pieceTokens x).bind (parseStatement P)

theorem tokensIn_free (all : List Token) (x : Piece) (h : ∀ t ∈ all, t.kind = K ";" → t.end ≤ x.pos ∨ x.end ≤ t.pos)
    (hnz : ∀ t ∈ all, t.kind = K ";" → t.pos < t.end) : Free (tokensIn all x) := by
  intro t ht
  unfold tokensIn at ht
  rw [List.mem_filter] at ht
  obtain ⟨hm, hd⟩ := ht
  have hd' : x.pos ≤ t.pos ∧ t.end ≤ x.end ∧ t.kind ≠ .eof := by simpa using hd
  refine ⟨?_, hd'.2.2⟩
  intro hk
  have := h t hm hk
  have := hnz t hm hk
  omega

/-- C11, end to end, for a statement parser that is `Local` and does not look at white space: on an input that lexes,
`ParseStatements` (on the tokens of the whole input) returns without error exactly when `ParseStatement` (lexer
included) returns without error on every raw statement of `SplitRawStatements` that contains a token, each shifted
back to its offset by blanks; and then the statements are the same, in order. -/
theorem c11_compose {α : Type} {P : StmtParser α} (hP : Local P) (hI : CoreInv P) {buf : Bytes} {ts : List Token}
    (h : lexAll buf = .ok ts) :
    parseStatements P ts =
      optAll (((specPieces buf ts 0).filter (fun x => !(tokensIn ts x).isEmpty)).map (parsePiece P)) := by
  obtain ⟨hne, hok⟩ := lexAll_ok h
  rw [parseStatements_eq hP (lexAll_WF h) (e := eofTok0) rfl, segments_pieces h]
  have hfm : ∀ l : List Piece, (l.map (tokensIn ts)).filter (fun s => !s.isEmpty) =
      (l.filter (fun x => !(tokensIn ts x).isEmpty)).map (tokensIn ts) := by
    intro l
    induction l with
    | nil => rfl
    | cons x l ih =>
      simp only [List.map_cons, List.filter_cons]
      split <;> simp [ih]
  rw [hfm, List.map_map]
  congr 1
  apply List.map_congr_left
  intro x hx
  rw [List.mem_filter] at hx
  obtain ⟨hxm, hxne⟩ := hx
  obtain ⟨ts', t, h1, h2, h3, h4, h5⟩ := pieces_lex h x hxm
  have hseg : tokensIn ts x ≠ [] := by
    intro hh; rw [hh] at hxne; simp at hxne
  have hfree : Free (tokensIn ts x) := by
    apply tokensIn_free
    · intro t ht hk
      exact spec_no_semicolon_inside hok (FpOK_zero hok) x hxm t ht hk
    · intro t ht hk
      exact (TokensOK_mem hok ht).nonempty (by rw [hk]; exact semi_ne_eof)
  simp only [Function.comp]
  unfold parsePiece pieceTokens
  rw [h1]
  simp only [Option.bind_some]
  have hcore : ts'.map tokCore = (tokensIn ts x ++ [eofOf t x.end]).map tokCore := by
    rw [h5]; simp
  rw [parseStatement_core hI hcore]
  exact parseStatement_term hP hseg hfree rfl rfl

end MF.Stmt
