/-
  MF.Proofs.TriviaToken — `consumeToken` / `consumeFieldToken` on the re-spelled buffer: same token kind, same
  length, same value (case-changed for unquoted identifiers).
-/
import MF.Proofs.TriviaNumber
import MF.Proofs.TriviaQuoted
namespace MF.Props.C16
open MF MF.Lex

/-- may the letters of the scanned token change case? (`caseFree` on scanner results) -/
def scanCaseFree (sc : Scan) (rest : Bytes) : Bool :=
  match sc.kind with
  | .sym k => reserved.contains k
  | .ident => rest.head? != some 96
  | _ => false

/-- the scanner result on the re-spelled buffer `rest₂` -/
def newScan (sc : Scan) (rest rest₂ : Bytes) : Scan :=
  if sc.kind = .ident ∧ rest.head? ≠ some 96 then { sc with asString := rest₂.take sc.len } else sc

theorem Term.ceq {P : UInt8 → Bool} (hP : Term P) {c d : UInt8} (h : Char.upperByte d = Char.upperByte c) :
    P d = P c := by
  rw [← hP.ci d, h, hP.ci]

/-! ### identifiers and keywords -/

theorem identTok_len (rest : Bytes) : (identTok rest).len = spanLen Char.isIdentPart rest := by
  unfold identTok
  simp only
  split <;> rfl

theorem identTok_sim {rest rest₂ : Bytes} (hs : ISim (identTok rest).len rest rest₂)
    (h0 : rest.head? ≠ some 96) :
    identTok rest₂ = newScan (identTok rest) rest rest₂ ∧
    ((identTok rest).kind = .ident → (identTok rest).asString = rest.take (identTok rest).len) := by
  rw [identTok_len] at hs
  have hsp := hs.spanLen term_identPart rfl
  have hup := hs.up
  unfold newScan
  rw [identTok_len]
  unfold identTok
  simp only [hsp, hup]
  split
  · simp
  · simp [h0]

theorem identStart_ne_bq : ∀ c : UInt8, Char.isIdentStart c = true → c ≠ 96 := by
  apply UInt8.forall_of_fin; decide +kernel

theorem fallbackTok_sim {c d : UInt8} {t t₂ : Bytes} {p p₂ : Nat} {sc : Scan}
    (h : fallbackTok (c :: t) c p false = .ok sc) (hs : ISim sc.len (c :: t) (d :: t₂))
    (hcd : Char.upperByte d = Char.upperByte c) :
    fallbackTok (d :: t₂) d p₂ false = .ok (newScan sc (c :: t) (d :: t₂)) ∧
    (sc.kind = .ident → sc.asString = (c :: t).take sc.len) := by
  unfold fallbackTok at h ⊢
  split at h
  · rename_i hst
    cases h
    have h0 : (c :: t).head? ≠ some 96 := by
      simp only [List.head?_cons, ne_eq, Option.some.injEq]
      exact identStart_ne_bq c hst
    obtain ⟨h1, h2⟩ := identTok_sim hs h0
    rw [term_identStart.ceq hcd, if_pos hst, h1]
    exact ⟨rfl, h2⟩
  · simp at h

/-! ### string prefixes -/

theorem strPrefix_ge {rest : Bytes} {fuel i0 : Nat} {b r : Bool} {i : Nat} {b' r' : Bool}
    (h : strPrefix rest fuel i0 b r = some (i, b', r')) : i0 ≤ i := by
  induction fuel generalizing i0 b r with
  | zero => simp [strPrefix] at h
  | succ fuel ih =>
    simp only [strPrefix] at h
    split at h
    · cases h
    · split at h
      · have := ih h; omega
      · split at h
        · have := ih h; omega
        · split at h
          · cases h; exact Nat.le_refl _
          · cases h

theorem strPrefix_exact {a b : Bytes} {n : Nat} (hex : b.take n = a.take n) :
    ∀ (fuel i0 : Nat) (bb r : Bool) (i : Nat) (b' r' : Bool),
      strPrefix a fuel i0 bb r = some (i, b', r') → i < n → strPrefix b fuel i0 bb r = some (i, b', r') := by
  intro fuel
  induction fuel with
  | zero => intro i0 bb r i b' r' h; simp [strPrefix] at h
  | succ fuel ih =>
    intro i0 bb r i b' r' h hi
    have hge := strPrefix_ge h
    simp only [strPrefix] at h ⊢
    rw [take_eq_get hex (show i0 < n by omega)]
    cases hc : a[i0]? with
    | none => rw [hc] at h; cases h
    | some c =>
      rw [hc] at h
      simp only at h ⊢
      split at h
      · rename_i c1; rw [if_pos c1]; exact ih _ _ _ _ _ _ h hi
      · rename_i c1
        rw [if_neg c1]
        split at h
        · rename_i c2; rw [if_pos c2]; exact ih _ _ _ _ _ _ h hi
        · rename_i c2
          rw [if_neg c2]
          exact h

theorem term_bB : Term (fun c => c == 66 || c == 98) := by byte_term
theorem term_rR : Term (fun c => c == 82 || c == 114) := by byte_term

theorem nonIdent_notBR : ∀ c, Char.isIdentPart c = false →
    (c == 66 || c == 98) = false ∧ (c == 82 || c == 114) = false := by
  apply UInt8.forall_of_fin; decide +kernel

theorem strPrefix_stop {b : Bytes} {f i0 : Nat} {bb r : Bool} {d : UInt8} (hd : b[i0]? = some d)
    (h1 : (d == 66 || d == 98) = false) (h2 : (d == 82 || d == 114) = false) (h3 : (d == 34 || d == 39) = false) :
    strPrefix b (f + 1) i0 bb r = none := by
  simp only [strPrefix, hd, h1, h2, h3, Bool.and_false, Bool.false_eq_true, if_false]

theorem strPrefix_none_sim {a b : Bytes} {n : Nat} (hs : ISim n a b)
    (hstop : ∀ c, a[n]? = some c → Char.isIdentPart c = false) :
    ∀ (fuel i0 : Nat) (bb r : Bool), strPrefix a fuel i0 bb r = none → i0 ≤ n → strPrefix b fuel i0 bb r = none := by
  intro fuel
  induction fuel with
  | zero => intro i0 bb r _ _; simp [strPrefix]
  | succ fuel ih =>
    intro i0 bb r h hi
    by_cases hin : i0 < n
    · obtain ⟨c, d, e1, e2, e3⟩ := hs.lt i0 hin
      simp only [strPrefix, e1] at h
      simp only [strPrefix, e2]
      have q1 := term_bB.ceq e3
      have q2 := term_rR.ceq e3
      have q3 := term_quote.ceq e3
      rw [q1, q2, q3]
      split at h
      · rename_i c1; rw [if_pos c1]; exact ih _ _ _ h (by omega)
      · rename_i c1
        rw [if_neg c1]
        split at h
        · rename_i c2; rw [if_pos c2]; exact ih _ _ _ h (by omega)
        · rename_i c2
          rw [if_neg c2]
          exact h
    · have : i0 = n := by omega
      subst this
      have hla := hs.la
      cases hy : b[i0]? with
      | none => simp [strPrefix, hy]
      | some d =>
        rw [hy] at hla
        cases hc : a[i0]? with
        | none =>
          rw [hc] at hla
          cases hla with
          | ws hw =>
            exact strPrefix_stop hy (term_bB.ws d hw) (term_rR.ws d hw) (term_quote.ws d hw)
        | some c =>
          rw [hc] at hla
          have hni := hstop c hc
          obtain ⟨n1, n2⟩ := nonIdent_notBR c hni
          have n3 : (c == 34 || c == 39) = false := by
            cases hq : (c == 34 || c == 39) with
            | false => rfl
            | true =>
              simp only [strPrefix, hc, n1, n2, hq, Bool.and_false, Bool.false_eq_true, if_false, if_true] at h
              cases h
          cases hla with
          | ceq he =>
            have := nonIdent_ceq c hni d he
            subst this
            exact strPrefix_stop hy n1 n2 n3
          | ws hw =>
            exact strPrefix_stop hy (term_bB.ws d hw) (term_rR.ws d hw) (term_quote.ws d hw)

/-! ### quoted tokens -/

theorem take_drop_eq {a b : Bytes} {n : Nat} (h : b.take n = a.take n) (i : Nat) :
    (b.drop i).take (n - i) = (a.drop i).take (n - i) := by
  rw [← List.drop_take, ← List.drop_take, h]

theorem peekDelimiter_sim {a b : Bytes} {m : Nat} {q : Bytes} (h : peekDelimiter a = some q) (hs : ISim m a b)
    (hex : b.take m = a.take m) (hm : 2 ≤ m) (hq3 : q.length = 3 → 3 ≤ m) : peekDelimiter b = some q := by
  unfold peekDelimiter at h ⊢
  rw [take_eq_get hex (show 0 < m by omega), take_eq_get hex (show 1 < m by omega)]
  cases hc : a[0]? with
  | none => rw [hc] at h; cases h
  | some c =>
    rw [hc] at h
    simp only at h ⊢
    split at h
    · cases h
    · rename_i c1
      rw [if_neg c1]
      have hcq : c = 34 ∨ c = 39 := by
        simp only [bne_iff_ne, ne_eq, Bool.and_eq_true, not_and, Decidable.not_not] at c1
        by_cases h34 : c = 34
        · exact Or.inl h34
        · exact Or.inr (c1 h34)
      split at h
      · rename_i c2
        cases h
        have := hq3 rfl
        rw [take_eq_get hex (show 2 < m by omega), if_pos c2]
      · rename_i c2
        cases h
        rcases Nat.lt_or_ge 2 m with h3 | h3
        · rw [take_eq_get hex h3, if_neg c2]
        · have hm2 : m = 2 := by omega
          subst hm2
          by_cases h1 : a[1]? = some c
          · have h2 : peekIs a 2 c = false := by
              unfold peekIs
              simp only [h1, beq_self_eq_true, Bool.true_and] at c2
              simpa using c2
            have h2' : peekIs b 2 c = false := by
              rcases hcq with rfl | rfl
              · exact hs.peekIs_false term_eq_34 (Nat.le_refl _) h2
              · exact hs.peekIs_false term_eq_39 (Nat.le_refl _) h2
            unfold peekIs at h2'
            simp [h2']
          · have : (a[1]? == some c) = false := by simpa using h1
            simp [this]

theorem quotedTok_inv {kind : TokKind} {pre : Nat} {r : Res QC} {sc : Scan} (h : quotedTok kind pre r = .ok sc) :
    ∃ qc, r = .ok qc ∧ sc = { kind := if qc.hasError then .bad else kind, len := pre + qc.len, asString := qc.content } := by
  unfold quotedTok at h
  split at h
  · rename_i qc; cases h; exact ⟨qc, rfl, rfl⟩
  · cases h
  · cases h

theorem Agree.of_isim {n : Nat} {a b : Bytes} (hs : ISim n a b) (hex : b.take n = a.take n) : Agree n a b :=
  ⟨hex, hs.len.1, hs.len.2⟩

theorem bquoteTok_sim {rest rest₂ : Bytes} {p p₂ : Nat} {sc : Scan} {t : Bytes} (hr : rest = 96 :: t)
    (h : quotedTok .ident 0 (consumeQuotedContent rest p [96] false true true false) = .ok sc)
    (hs : ISim sc.len rest rest₂)
    (hex : scanCaseFree sc rest = false → rest₂.take sc.len = rest.take sc.len) :
    quotedTok .ident 0 (consumeQuotedContent rest₂ p₂ [96] false true true false) = .ok (newScan sc rest rest₂) := by
  obtain ⟨qc, h1, h2⟩ := quotedTok_inv h
  have hlen : sc.len = qc.len := by rw [h2]; simp
  have hcf : scanCaseFree sc rest = false := by
    rw [h2, hr]; cases qc.hasError <;> simp [scanCaseFree]
  have hns : newScan sc rest rest₂ = sc := by
    unfold newScan; rw [hr]; simp
  rw [hns]
  have hex := hex hcf
  rw [hlen] at hs hex
  rw [consumeQuotedContent_agree h1 (Agree.of_isim hs hex) (by simp)]
  rw [h2]; rfl

theorem stringTok_sim {c d : UInt8} {t t₂ : Bytes} {p p₂ : Nat} {sc : Scan}
    (h : stringTok (c :: t) c p false = .ok sc) (hs : ISim sc.len (c :: t) (d :: t₂))
    (hcd : Char.upperByte d = Char.upperByte c)
    (hex : scanCaseFree sc (c :: t) = false → (d :: t₂).take sc.len = (c :: t).take sc.len) :
    stringTok (d :: t₂) d p₂ false = .ok (newScan sc (c :: t) (d :: t₂)) ∧
    (sc.kind = .ident → (c :: t).head? ≠ some 96 → sc.asString = (c :: t).take sc.len) := by
  unfold stringTok at h ⊢
  cases hsp : strPrefix (c :: t) 3 0 false false with
  | some r =>
    obtain ⟨i, bytes, raw⟩ := r
    rw [hsp] at h
    simp only at h
    have hpi := strPrefix_some hsp
    cases hpd : peekDelimiter ((c :: t).drop i) with
    | none => rw [hpd] at h; cases h
    | some q =>
      rw [hpd] at h
      simp only at h
      obtain ⟨qc, h1, h2⟩ := quotedTok_inv h
      have hq := peekDelimiter_some hpd
      have hqc := consumeQuotedContent_ok h1 hq.2
      have hqc2 : q.length + q.length ≤ qc.len := by
        unfold consumeQuotedContent at h1
        exact quotedLoop_len' h1
      have hlen : sc.len = i + qc.len := by rw [h2]
      have hkind : sc.kind ≠ .ident ∧ scanCaseFree sc (c :: t) = false := by
        rw [h2]; unfold scanCaseFree; simp only
        cases qc.hasError <;> cases bytes <;> simp
      have hns : newScan sc (c :: t) (d :: t₂) = sc := by
        unfold newScan; simp [hkind.1]
      have hex := hex hkind.2
      rw [hlen] at hs hex
      have hsd := hs.drop (show i ≤ i + qc.len by omega)
      have hexd := take_drop_eq hex i
      have e : i + qc.len - i = qc.len := by omega
      rw [e] at hsd hexd
      rw [strPrefix_exact hex _ _ _ _ _ _ _ hsp (by omega)]
      simp only
      rw [peekDelimiter_sim hpd hsd hexd (by omega) (by omega)]
      simp only
      rw [consumeQuotedContent_agree h1 (Agree.of_isim hsd hexd) hq.1, hns]
      refine ⟨?_, fun hk => absurd hk hkind.1⟩
      rw [h2]; rfl
  | none =>
    rw [hsp] at h
    simp only at h
    have hfb := h
    unfold fallbackTok at hfb
    split at hfb
    · cases hfb
      have hsp2 := spanLen_spec (identTok_len (c :: t)).symm
      rw [strPrefix_none_sim hs hsp2.2 _ _ _ _ hsp (Nat.zero_le _)]
      simp only
      obtain ⟨g1, g2⟩ := fallbackTok_sim h hs hcd
      exact ⟨g1, fun hk _ => g2 hk⟩
    · simp at hfb

/-! ### parameters -/

theorem paramTok_sim {rest rest₂ : Bytes} {sc : Scan} (h : paramTok rest = .ok sc) (hs : ISim sc.len rest rest₂)
    (hex : rest₂.take sc.len = rest.take sc.len) : paramTok rest₂ = .ok sc := by
  unfold paramTok at h ⊢
  simp only at h ⊢
  cases h
  simp only at hs hex
  have hsd := hs.drop (show 1 ≤ 1 + spanLen Char.isIdentPart (List.drop 1 rest) by omega)
  have e : 1 + spanLen Char.isIdentPart (List.drop 1 rest) - 1 = spanLen Char.isIdentPart (List.drop 1 rest) := by
    omega
  rw [e] at hsd
  rw [hsd.spanLen term_identPart rfl, (Agree.of_isim hs hex).slice (Nat.le_refl _)]

/-! ### operators: `if peekIs 1 x₁ then tok2 k₁ else … else tok1 k₀` -/

def opTab (rest : Bytes) : List (UInt8 × String) → String → Res Scan
  | [], k0 => tok1 k0
  | (x, k) :: alts, k0 => if peekIs rest 1 x then tok2 k else opTab rest alts k0

theorem opTab_sim {rest rest₂ : Bytes} {sc : Scan} :
    ∀ (alts : List (UInt8 × String)) (k0 : String), opTab rest alts k0 = .ok sc → ISim sc.len rest rest₂ →
      (∀ x k, (x, k) ∈ alts → Term (fun c => c == x)) →
      opTab rest₂ alts k0 = .ok sc ∧ 1 ≤ sc.len ∧ ∃ k, sc.kind = K k := by
  intro alts
  induction alts with
  | nil =>
    intro k0 h _ _
    simp only [opTab, tok1] at h ⊢
    cases h
    exact ⟨rfl, Nat.le_refl _, _, rfl⟩
  | cons xk alts ih =>
    intro k0 h hs hT
    obtain ⟨x, k⟩ := xk
    simp only [opTab] at h ⊢
    have hx := hT x k (by simp)
    split at h
    · rename_i c1
      simp only [tok2] at h
      cases h
      rw [if_pos (hs.peekIs_true hx (by show 1 < 2; omega) c1)]
      exact ⟨rfl, (by show 1 ≤ 2; omega), _, rfl⟩
    · rename_i c1
      obtain ⟨g1, g2, g3⟩ := ih k0 h hs (fun x' k' hm => hT x' k' (by simp [hm]))
      have c1' : peekIs rest 1 x = false := by simpa using c1
      rw [hs.peekIs_false hx g2 c1', g1]
      exact ⟨by simp, g2, g3⟩


theorem single_nonIdent : ∀ c, classify c ≠ .digit → classify c ≠ .strStart → classify c ≠ .other →
    Char.isIdentPart c = false := by
  apply UInt8.forall_of_fin; decide +kernel

theorem classify_bquote : ∀ c, classify c = .bquote → c = 96 := by
  apply UInt8.forall_of_fin; decide +kernel

theorem newScan_of_ne {sc : Scan} {rest rest₂ : Bytes} (h : sc.kind ≠ .ident) : newScan sc rest rest₂ = sc := by
  unfold newScan; simp [h]

theorem opByte_term : ∀ x : UInt8, x ∈ [60, 61, 62, 124] → Term (fun c => c == x) := by
  intro x hx
  simp only [List.mem_cons, List.mem_nil_iff, or_false] at hx
  rcases hx with rfl | rfl | rfl | rfl
  · exact term_eq_60
  · exact term_eq_61
  · exact term_eq_62
  · exact term_eq_124

theorem consumeToken_sim {rest rest₂ : Bytes} {p p₂ : Nat} {lk : TokKind} {sc : Scan}
    (h : consumeToken rest p lk false = .ok sc) (hs : ISim sc.len rest rest₂)
    (hex : scanCaseFree sc rest = false → rest₂.take sc.len = rest.take sc.len)
    (hnil : rest = [] → rest₂ = []) :
    consumeToken rest₂ p₂ lk false = .ok (newScan sc rest rest₂) ∧
    (sc.kind = .ident → rest.head? ≠ some 96 → sc.asString = rest.take sc.len) := by
  cases rest with
  | nil =>
    have := hnil rfl
    subst this
    simp only [consumeToken] at h ⊢
    cases h
    exact ⟨rfl, by simp⟩
  | cons c t =>
    have hok := consumeToken_ok h
    have hpos : 0 < sc.len := hok.pos (by simp)
    obtain ⟨c', d, e1, e2, e3⟩ := hs.lt 0 hpos
    cases rest₂ with
    | nil => simp at e2
    | cons d' t₂ =>
      simp only [List.getElem?_cons_zero, Option.some.injEq] at e1 e2
      subst e1 e2
      have hcl := classify_ceq e3
      have hop : ∀ (alts : List (UInt8 × String)) (k0 : String),
          alts.all (fun xk => [60, 61, 62, 124].contains xk.1) = true → opTab (c :: t) alts k0 = .ok sc →
          opTab (d' :: t₂) alts k0 = .ok (newScan sc (c :: t) (d' :: t₂)) ∧
          (sc.kind = .ident → (c :: t).head? ≠ some 96 → sc.asString = (c :: t).take sc.len) := by
        intro alts k0 hall ho
        obtain ⟨g1, _, k, g3⟩ := opTab_sim alts k0 ho hs (by
          intro x k hm
          apply opByte_term
          have := List.all_eq_true.1 hall (x, k) hm
          simpa using this)
        have hne : sc.kind ≠ .ident := by rw [g3]; simp [K]
        rw [newScan_of_ne hne]
        exact ⟨g1, fun hk => absurd hk hne⟩
      simp only [consumeToken, hcl] at h ⊢
      cases hc : classify c
      all_goals simp only [hc] at h ⊢
      case single =>
        cases h
        have := nonIdent_ceq c (single_nonIdent c (by simp [hc]) (by simp [hc]) (by simp [hc])) d' e3
        subst this
        exact ⟨by simp [newScan], by simp⟩
      case lt => exact hop [(60, "<<"), (61, "<="), (62, "<>")] "<" (by decide) h
      case gt => exact hop [(62, ">>"), (61, ">=")] ">" (by decide) h
      case plus => exact hop [(61, "+=")] "+" (by decide) h
      case minus => exact hop [(61, "-="), (62, "->")] "-" (by decide) h
      case eq => exact hop [(62, "=>")] "=" (by decide) h
      case bar => exact hop [(62, "|>"), (124, "||")] "|" (by decide) h
      case bang => exact hop [(61, "!=")] "!" (by decide) h
      case dot =>
        split at h
        · rename_i c1
          simp only [Bool.and_eq_true, Bool.not_eq_true'] at c1
          obtain ⟨g1, g2, g3⟩ := consumeNumber_sim (p₂ := p₂) h hs (fun hk => hex (by
            unfold scanCaseFree; rcases hk with hk | hk <;> rw [hk]))
          have hne : sc.kind ≠ .ident := by rcases g2 with hk | hk <;> rw [hk] <;> simp
          have h1 : 1 < sc.len := by
            rcases Nat.lt_or_ge 1 sc.len with h1 | h1
            · exact h1
            · have e : sc.len = 1 := by omega
              rw [e] at g3
              have hp := c1.2
              unfold peekSat at hp
              cases hx : (c :: t)[1]? with
              | none => rw [hx] at hp; cases hp
              | some x =>
                rw [hx] at hp
                have := g3 x hx
                rw [digit_identPart x hp] at this
                cases this
          have := hs.peekSat_true term_digit h1 c1.2
          rw [if_pos (by simp [c1.1, this]), newScan_of_ne hne]
          exact ⟨g1, fun hk => absurd hk hne⟩
        · rename_i c1
          cases h
          have hcond : (!isNextDotIdent lk && peekSat (d' :: t₂) 1 Char.isDigit) = false := by
            cases hlk : isNextDotIdent lk with
            | true => simp
            | false =>
              have : peekSat (c :: t) 1 Char.isDigit = false := by simpa [hlk] using c1
              simp [hs.peekSat_false term_digit (Nat.le_refl _) this]
          rw [hcond]
          exact ⟨by simp [newScan, K], by simp [K]⟩
      case «at» =>
        split at h
        · rename_i c1
          simp only [tok2] at h
          cases h
          rw [if_pos (hs.peekIs_true term_eq_64 (by show 1 < 2; omega) c1)]
          exact ⟨by simp [newScan, K, tok2], by simp [K]⟩
        · rename_i c1
          have c1' : peekIs (c :: t) 1 64 = false := by simpa using c1
          rw [hs.peekIs_false term_eq_64 hpos c1']
          simp only [Bool.false_eq_true, if_false]
          split at h
          · rename_i c2
            have hk : sc.kind = .param ∧ 1 < sc.len := by
              unfold paramTok at h
              cases h
              refine ⟨rfl, ?_⟩
              simp only [List.drop_succ_cons, List.drop_zero]
              unfold peekSat at c2
              cases t with
              | nil => simp at c2
              | cons x t' =>
                simp only [List.getElem?_cons_succ, List.getElem?_cons_zero] at c2
                have := spanLen_pos (t := t') (identStart_part x c2)
                omega
            have hne : sc.kind ≠ .ident := by rw [hk.1]; simp
            have hex' := hex (by unfold scanCaseFree; rw [hk.1])
            rw [if_pos (hs.peekSat_true term_identStart hk.2 c2), newScan_of_ne hne]
            exact ⟨paramTok_sim h hs hex', fun hk => absurd hk hne⟩
          · rename_i c2
            simp only [tok1] at h
            cases h
            have c2' : peekSat (c :: t) 1 Char.isIdentStart = false := by simpa using c2
            rw [hs.peekSat_false term_identStart (Nat.le_refl _) c2']
            exact ⟨by simp [newScan, K, tok1], by simp [K]⟩
      case bquote =>
        have hc96 := classify_bquote c hc
        subst hc96
        exact ⟨bquoteTok_sim rfl h hs hex, fun _ h0 => absurd h0 (by simp)⟩
      case digit =>
        obtain ⟨g1, g2, _⟩ := consumeNumber_sim (p₂ := p₂) h hs (fun hk => hex (by
          unfold scanCaseFree; rcases hk with hk | hk <;> rw [hk]))
        have hne : sc.kind ≠ .ident := by rcases g2 with hk | hk <;> rw [hk] <;> simp
        rw [newScan_of_ne hne]
        exact ⟨g1, fun hk => absurd hk hne⟩
      case strStart => exact stringTok_sim h hs e3 hex
      case other =>
        obtain ⟨g1, g2⟩ := fallbackTok_sim h hs e3
        exact ⟨g1, fun hk _ => g2 hk⟩


theorem identPart_ne_bq : ∀ c : UInt8, Char.isIdentPart c = true → c ≠ 96 := by
  apply UInt8.forall_of_fin; decide +kernel

theorem consumeFieldToken_sim {rest rest₂ : Bytes} {p p₂ : Nat} {lk : TokKind} {sc : Scan}
    (h : consumeFieldToken rest p lk false = .ok sc) (hs : ISim sc.len rest rest₂)
    (hex : scanCaseFree sc rest = false → rest₂.take sc.len = rest.take sc.len)
    (hnil : rest = [] → rest₂ = []) :
    consumeFieldToken rest₂ p₂ lk false = .ok (newScan sc rest rest₂) ∧
    (sc.kind = .ident → rest.head? ≠ some 96 → sc.asString = rest.take sc.len) := by
  cases rest with
  | nil =>
    have := hnil rfl
    subst this
    simp only [consumeFieldToken] at h ⊢
    exact consumeToken_sim h hs hex hnil
  | cons c t =>
    have hok := consumeFieldToken_ok h
    have hpos : 0 < sc.len := hok.pos (by simp)
    obtain ⟨c', d, e1, e2, e3⟩ := hs.lt 0 hpos
    cases rest₂ with
    | nil => simp at e2
    | cons d' t₂ =>
      simp only [List.getElem?_cons_zero, Option.some.injEq] at e1 e2
      subst e1 e2
      simp only [consumeFieldToken] at h ⊢
      rw [term_identPart.ceq e3]
      split at h
      · rename_i c1
        cases h
        simp only at hs
        have hsp := hs.spanLen term_identPart rfl
        have h0 : (c :: t).head? ≠ some 96 := by
          simp only [List.head?_cons, ne_eq, Option.some.injEq]
          exact identPart_ne_bq c c1
        unfold newScan
        simp only [hsp, h0, ne_eq, not_false_eq_true, and_self, if_true, c1]
        exact ⟨trivial, fun _ _ => trivial⟩
      · rename_i c1
        rw [if_neg c1]
        exact consumeToken_sim h hs hex hnil

end MF.Props.C16
