/-
  MF.Proofs.ExprTerminates — TOTAL termination of the model of `ParseExpr`: on EVERY token list, accepted, rejected or
  garbage, the fuel-driven model `parseExpr` answers `ok`, `raise`, `outside` (or `crash`, excluded on lexer output by
  ExprNoCrash) — never `outOfFuel` — as soon as the fuel is at least

      exprFuel ts = 15 * ts.length + 15        (≤ topFuel ts = 32 * (ts.length + 2), the fuel the driver passes)

  and from there on the answer does not depend on the fuel.

  Why a bound LINEAR in the number of tokens exists.  Fuel is CALL DEPTH: every function of the mutual block passes
  `fuel - 1` to its callees, and a loop iteration is a call.  The look-aheads (`lookaheadSubQuery` / `selectAhead`,
  `lookaheadCallExpr`, `posKw?`, `isCastLike`, `isTypedLitWord`, `TypeP.lookaheadSimpleType`) are structurally recursive on
  the token list or not recursive at all and take no fuel; the leaves (`parseNullLiteral` … `parseParam`, `parseIdent`,
  `parseLitIdent`, `parseIsTail`, `foldSign`) take none either.  The measure of a state is the number of tokens left.
  The longest call chain that consumes no token is the ladder

      parseExpr → parseOr → parseAnd → parseNot → parseComparison → parseBitOr → parseBitXor → parseBitAnd →
      parseBitShift → parseAddSub → parseMulDiv → parseUnary → parseSelector → parseLit → parseParenExpr (→ parseExpr)

  fifteen calls for the one token `(` (the same count through `CASE`, `IF (`, `[`, `CAST (`); every other cycle of the
  call graph (a loop iteration behind an operator token, `NOT`, a sign, `IN (`, `BETWEEN`, a subscript `[`, `WHEN`, `ELSE`)
  spends fewer calls per consumed token.  Hence the per-function bounds `15 * |ts| + d` of `TermAt`, with `d` the height
  of the function in the ladder (`parseExpr` 15 … `parseLit` 2, the compound atoms 1, every loop 1, except `selLoop` 2 and
  `parseIndexSpecifier` 16: it calls `parseExpr` on the SAME tokens, the `[` was consumed by its caller `selLoop`).
  Proof: induction on the fuel; where the state AFTER a callee matters (the loop behind an operand, the second operand of
  BETWEEN, the parts of CASE / IF / CAST / `[…]` / `IN (…)`) the soundness record `sound_all` gives "the rest is a suffix
  of the input" (`Spells`), hence not longer; `parseCaseWhen` (called by `caseWhenLoop` on the same tokens) is the one
  place where the STRICT decrease is needed, and soundness gives it (its yield starts with WHEN).

  The type of a CAST runs the path loop of the type model (`TypeP.pathLoop`): one call per `.` `ident` pair.

  Fuel monotonicity is MF/Proofs/ExprMono.lean (`mono_all`); together: `parseExpr_stable`, `parseExprTop_stable`.
-/
import MF.Proofs.ExprSound
import MF.Proofs.ExprMono
namespace MF.Expr

/-! ## answered: not out of fuel -/

/-- the call answered (a tree, a syntax error, "outside the fragment", or the modelled run-time panic) -/
def NT {α : Type} (r : Res α) : Prop := r ≠ .outOfFuel

theorem NT.bind {α β : Type} {p : Res α} {k : α → Res β} (hp : NT p) (hk : ∀ a, p = .ok a → NT (k a)) :
    NT (p.bind k) := by
  cases p with
  | ok a => exact hk a rfl
  | outOfFuel => exact absurd rfl hp
  | _ => intro h; cases h

theorem NT.ok {α : Type} (a : α) : NT (Res.ok a) := fun h => by cases h
theorem NT.raise {α : Type} : NT (Res.raise : Res α) := fun h => by cases h
theorem NT.outside {α : Type} : NT (Res.outside : Res α) := fun h => by cases h
theorem NT.crash {α : Type} : NT (Res.crash : Res α) := fun h => by cases h

/-! ## the measure: tokens left -/

theorem Spells.len {ts rest : List Token} {ys : List Tok'} (h : Spells ts rest ys) : rest.length ≤ ts.length := by
  obtain ⟨pre, rfl, _⟩ := h
  simp only [List.length_append]; omega

/-- tokens that read a non-empty yield were consumed -/
theorem Spells.len_lt {ts rest : List Token} {y : Tok'} {ys : List Tok'} (h : Spells ts rest (y :: ys)) :
    rest.length + 1 ≤ ts.length := by
  obtain ⟨pre, rfl, hm⟩ := h
  cases pre with
  | nil => simp at hm
  | cons t p => simp only [List.length_append, List.length_cons]; omega

/-- the parser stands on a token that is not `<eof>`: there is a token -/
theorem pos_of_cur {ts : List Token} {k : TK} (h : cur ts = k) (hk : k ≠ .eof) : 0 < ts.length := by
  obtain ⟨t, tl, rfl, _⟩ := cur_ne_eof h hk
  simp

/-- the same through an operator classifier (`unOp?`, `mulOp?`, `addOp?`, `shiftOp?`, `cmpOp?`) -/
theorem pos_of_op {β : Type} {g : TK → Option β} {ts : List Token} {b : β} (hg : g .eof = none)
    (h : g (cur ts) = some b) : 0 < ts.length := by
  cases ts with
  | nil => rw [cur_nil, hg] at h; cases h
  | cons t tl => simp

/-- arithmetic on token counts: `ts.tail.length = ts.length - 1`, then linear arithmetic -/
macro "lia" : tactic => `(tactic| ((try simp only [List.length_tail] at *); omega))

/-! the rest of a successful call is not longer than the input (from soundness) -/
section Rest
variable {f : Nat} {ts : List Token}
theorem l_expr {a} (h : parseExpr f ts = .ok a) : a.2.length ≤ ts.length := ((sound_all f).expr ts a.1 a.2 h).1.len
theorem l_and {a} (h : parseAnd f ts = .ok a) : a.2.length ≤ ts.length := ((sound_all f).and_ ts a.1 a.2 h).1.len
theorem l_not {a} (h : parseNot f ts = .ok a) : a.2.length ≤ ts.length := ((sound_all f).not_ ts a.1 a.2 h).1.len
theorem l_bitOr {a} (h : parseBitOr f ts = .ok a) : a.2.length ≤ ts.length := ((sound_all f).bitOr ts a.1 a.2 h).1.len
theorem l_bitXor {a} (h : parseBitXor f ts = .ok a) : a.2.length ≤ ts.length := ((sound_all f).bitXor ts a.1 a.2 h).1.len
theorem l_bitAnd {a} (h : parseBitAnd f ts = .ok a) : a.2.length ≤ ts.length := ((sound_all f).bitAnd ts a.1 a.2 h).1.len
theorem l_shift {a} (h : parseBitShift f ts = .ok a) : a.2.length ≤ ts.length := ((sound_all f).shift ts a.1 a.2 h).1.len
theorem l_add {a} (h : parseAddSub f ts = .ok a) : a.2.length ≤ ts.length := ((sound_all f).add ts a.1 a.2 h).1.len
theorem l_mul {a} (h : parseMulDiv f ts = .ok a) : a.2.length ≤ ts.length := ((sound_all f).mul ts a.1 a.2 h).1.len
theorem l_unary {a} (h : parseUnary f ts = .ok a) : a.2.length ≤ ts.length := ((sound_all f).unary ts a.1 a.2 h).1.len
theorem l_lit {a} (h : parseLit f ts = .ok a) : a.2.length ≤ ts.length := ((sound_all f).lit ts a.1 a.2 h).1.len
theorem l_idx {a} (h : parseIndexSpecifier f ts = .ok a) : a.2.length ≤ ts.length :=
  ((sound_all f).idx ts a.1 a.2 h).1.len
/-- `parseCaseWhen` consumed at least the WHEN -/
theorem l_caseWhen {a} (h : parseCaseWhen f ts = .ok a) : a.2.length + 1 ≤ ts.length :=
  ((sound_all f).caseWhen ts a.1.1 a.1.2 a.2 h).1.len_lt
theorem l_caseLoop {a} (h : caseWhenLoop f ts = .ok a) : a.2.length ≤ ts.length :=
  ((sound_all f).caseLoop ts a.1 a.2 h).1.len
theorem l_caseOperand {o : OExpr × List Token}
    (h : (if cur ts = .when_ then Res.ok (OExpr.none, ts)
      else (parseExpr f ts).bind fun p => .ok (OExpr.some p.1, p.2)) = .ok o) : o.2.length ≤ ts.length :=
  (s_caseOperand (sound_all f) (o := o.1) (rest := o.2) h).1.len
end Rest

/-! ## the type of a CAST: the path loop of the type model -/

theorem pathLoop_ne_oof : ∀ (f : Nat) (ts : List Token), ts.length + 1 ≤ f → TypeP.pathLoop f ts ≠ .outOfFuel
  | 0, _, h => by omega
  | f + 1, ts, h => by
    simp only [TypeP.pathLoop]
    split
    · rename_i hc
      obtain ⟨d, tl, rfl, _⟩ := TypeP.cur_ne_eof hc (by decide)
      simp only [List.length_cons] at h
      simp only [TypeP.parseIdent, TypeP.expect]
      split
      · simp only [List.tail_cons, TypeP.Res.bind_ok]
        have h1 := pathLoop_ne_oof f tl.tail (by lia)
        cases hp : TypeP.pathLoop f tl.tail with
        | ok a => intro h'; cases h'
        | raise => intro h'; cases h'
        | outOfFuel => exact absurd hp h1
      · intro h; cases h
    · intro h; cases h

/-- `castType` answers with fuel above the number of tokens -/
theorem castType_nt {f : Nat} {ts : List Token} (h : ts.length + 1 ≤ f) : NT (castType f ts) := by
  by_cases hc : TypeP.cur ts = .ident
  · by_cases hs : TypeP.lookaheadSimpleType ts = true
    · simp only [castType, hc, hs, if_true]; exact NT.outside
    · have hs' : TypeP.lookaheadSimpleType ts = false := by simpa using hs
      obtain ⟨t, tl, rfl, ht⟩ := TypeP.cur_ne_eof hc (by decide)
      have hk := TypeP.tk_ident.1 ht
      obtain ⟨g, rfl⟩ : ∃ g, f = g + 1 := ⟨f - 1, by omega⟩
      rw [castType_succ hk hs']
      have h1 := pathLoop_ne_oof g tl (by simp only [List.length_cons] at h; omega)
      cases hp : TypeP.pathLoop g tl with
      | ok a => exact NT.ok _
      | raise => exact NT.raise
      | outOfFuel => exact absurd hp h1
  · unfold castType
    split
    · rename_i h'; exact absurd h' hc
    · exact NT.outside
    · exact NT.outside
    · exact NT.raise

theorem parseIsTail_nt (e : Expr) (ts : List Token) : NT (parseIsTail e ts) := by
  unfold parseIsTail
  try simp only
  split <;> first | exact NT.ok _ | exact NT.raise

theorem foldSign_nt (op : UOp) (e : Expr) : NT (foldSign op e) := by
  unfold foldSign
  repeat' split
  all_goals first | exact NT.ok _ | exact NT.crash

theorem parseIdent_nt (ts : List Token) : NT (parseIdent ts) := by
  simp only [parseIdent]; split <;> first | exact NT.ok _ | exact NT.raise

theorem parseIdent_len {ts : List Token} {a : Bytes × List Token} (h : parseIdent ts = .ok a) :
    a.2.length ≤ ts.length := by
  simp only [parseIdent] at h
  split at h
  · cases h; simp only [List.length_tail]; omega
  · cases h

/-! ## termination of the mutually recursive productions -/

/-- with fuel `f`, every production answers on every token list `ts` with `15 * |ts| + d ≤ f`; `d` is the height of the
production in the ladder -/
structure TermAt (f : Nat) : Prop where
  expr : ∀ ts, 15 * ts.length + 15 ≤ f → NT (parseExpr f ts)
  or_ : ∀ ts, 15 * ts.length + 14 ≤ f → NT (parseOr f ts)
  orLoop : ∀ e ts, 15 * ts.length + 1 ≤ f → NT (orLoop f e ts)
  and_ : ∀ ts, 15 * ts.length + 13 ≤ f → NT (parseAnd f ts)
  andLoop : ∀ e ts, 15 * ts.length + 1 ≤ f → NT (andLoop f e ts)
  not_ : ∀ ts, 15 * ts.length + 12 ≤ f → NT (parseNot f ts)
  cmp : ∀ ts, 15 * ts.length + 11 ≤ f → NT (parseComparison f ts)
  btw : ∀ n e ts, 15 * ts.length + 11 ≤ f → NT (parseBetweenTail f n e ts)
  inCond : ∀ ts, 15 * ts.length + 1 ≤ f → NT (parseInCondition f ts)
  inList : ∀ ts, 15 * ts.length + 1 ≤ f → NT (inListLoop f ts)
  bitOr : ∀ ts, 15 * ts.length + 10 ≤ f → NT (parseBitOr f ts)
  bitOrLoop : ∀ e ts, 15 * ts.length + 1 ≤ f → NT (bitOrLoop f e ts)
  bitXor : ∀ ts, 15 * ts.length + 9 ≤ f → NT (parseBitXor f ts)
  bitXorLoop : ∀ e ts, 15 * ts.length + 1 ≤ f → NT (bitXorLoop f e ts)
  bitAnd : ∀ ts, 15 * ts.length + 8 ≤ f → NT (parseBitAnd f ts)
  bitAndLoop : ∀ e ts, 15 * ts.length + 1 ≤ f → NT (bitAndLoop f e ts)
  shift : ∀ ts, 15 * ts.length + 7 ≤ f → NT (parseBitShift f ts)
  shiftLoop : ∀ e ts, 15 * ts.length + 1 ≤ f → NT (shiftLoop f e ts)
  add : ∀ ts, 15 * ts.length + 6 ≤ f → NT (parseAddSub f ts)
  addLoop : ∀ e ts, 15 * ts.length + 1 ≤ f → NT (addLoop f e ts)
  mul : ∀ ts, 15 * ts.length + 5 ≤ f → NT (parseMulDiv f ts)
  mulLoop : ∀ e ts, 15 * ts.length + 1 ≤ f → NT (mulLoop f e ts)
  unary : ∀ ts, 15 * ts.length + 4 ≤ f → NT (parseUnary f ts)
  sel : ∀ ts, 15 * ts.length + 3 ≤ f → NT (parseSelector f ts)
  selLoop : ∀ e ts, 15 * ts.length + 2 ≤ f → NT (selLoop f e ts)
  idx : ∀ ts, 15 * ts.length + 16 ≤ f → NT (parseIndexSpecifier f ts)
  lit : ∀ ts, 15 * ts.length + 2 ≤ f → NT (parseLit f ts)
  /-- `parseParenExpr` does not test the `(` itself (its caller `parseLit` did) -/
  paren : ∀ ts, cur ts = .lparen → 15 * ts.length + 1 ≤ f → NT (parseParenExpr f ts)
  caseE : ∀ ts, 15 * ts.length + 1 ≤ f → NT (parseCaseExpr f ts)
  caseLoop : ∀ ts, 15 * ts.length + 2 ≤ f → NT (caseWhenLoop f ts)
  caseWhen : ∀ ts, 15 * ts.length + 1 ≤ f → NT (parseCaseWhen f ts)
  caseElse : ∀ ts, 15 * ts.length + 1 ≤ f → NT (parseCaseElse f ts)
  ifE : ∀ ts, 15 * ts.length + 1 ≤ f → NT (parseIfExpr f ts)
  arr : ∀ ts, 15 * ts.length + 1 ≤ f → NT (parseSimpleArrayLiteral f ts)
  cast : ∀ ts, 15 * ts.length + 1 ≤ f → NT (parseCastExpr f ts)

theorem term_zero : TermAt 0 := by
  constructor <;> intros <;> omega

section Step
variable {f : Nat}

theorem term_succ (ih : TermAt f) : TermAt (f + 1) where
  expr := fun ts h => by simp only [parseExpr]; exact ih.or_ ts (by omega)
  or_ := fun ts h => by
    simp only [parseOr]
    refine NT.bind (ih.and_ ts (by omega)) fun a ha => ?_
    have h1 := l_and ha
    exact ih.orLoop _ _ (by omega)
  orLoop := fun e ts h => by
    simp only [orLoop]; split
    · rename_i hc
      have h0 := pos_of_cur hc (by decide)
      refine NT.bind (ih.and_ _ (by lia)) fun a ha => ?_
      have h1 := l_and ha
      exact ih.orLoop _ _ (by lia)
    · exact NT.ok _
  and_ := fun ts h => by
    simp only [parseAnd]
    refine NT.bind (ih.not_ ts (by omega)) fun a ha => ?_
    have h1 := l_not ha
    exact ih.andLoop _ _ (by omega)
  andLoop := fun e ts h => by
    simp only [andLoop]; split
    · rename_i hc
      have h0 := pos_of_cur hc (by decide)
      refine NT.bind (ih.not_ _ (by lia)) fun a ha => ?_
      have h1 := l_not ha
      exact ih.andLoop _ _ (by lia)
    · exact NT.ok _
  not_ := fun ts h => by
    simp only [parseNot]; split
    · rename_i hc
      have h0 := pos_of_cur hc (by decide)
      exact NT.bind (ih.not_ _ (by lia)) fun a _ => NT.ok _
    · exact ih.cmp ts (by omega)
  cmp := fun ts h => by
    simp only [parseComparison]
    refine NT.bind (ih.bitOr ts (by omega)) fun a ha => ?_
    have h1 := l_bitOr ha
    try simp only
    split
    · rename_i hop
      have h0 := pos_of_op (g := cmpOp?) rfl hop
      exact NT.bind (ih.bitOr _ (by lia)) fun _ _ => NT.ok _
    · split
      · rename_i hc
        have h0 := pos_of_cur hc (by decide)
        exact NT.bind (ih.inCond _ (by lia)) fun _ _ => NT.ok _
      · rename_i hc
        have h0 := pos_of_cur hc (by decide)
        exact ih.btw _ _ _ (by lia)
      · rename_i hc
        have h0 := pos_of_cur hc (by decide)
        split
        · exact NT.bind (ih.bitOr _ (by lia)) fun _ _ => NT.ok _
        · exact NT.bind (ih.inCond _ (by lia)) fun _ _ => NT.ok _
        · exact ih.btw _ _ _ (by lia)
        · exact NT.raise
      · exact parseIsTail_nt _ _
      · exact NT.ok _
  btw := fun n e ts h => by
    simp only [parseBetweenTail]
    refine NT.bind (ih.bitOr ts (by omega)) fun a ha => ?_
    have h1 := l_bitOr ha
    try simp only
    split
    · rename_i hc
      have h0 := pos_of_cur hc (by decide)
      exact NT.bind (ih.bitOr _ (by lia)) fun _ _ => NT.ok _
    · exact NT.raise
  inCond := fun ts h => by
    simp only [parseInCondition]
    split
    · exact NT.outside
    · split
      · rename_i hc
        have h0 := pos_of_cur hc (by decide)
        refine NT.bind (ih.expr _ (by lia)) fun a ha => ?_
        have h1 := l_expr ha
        refine NT.bind (ih.inList _ (by lia)) fun b _ => ?_
        (try simp only); split <;> first | exact NT.ok _ | exact NT.raise
      · rename_i hc
        have h0 := pos_of_cur hc (by decide)
        split
        · refine NT.bind (ih.expr _ (by lia)) fun a _ => ?_
          (try simp only); split <;> first | exact NT.ok _ | exact NT.raise
        · exact NT.raise
      · exact NT.raise
  inList := fun ts h => by
    simp only [inListLoop]; split
    · rename_i hc
      have h0 := pos_of_cur hc (by decide)
      refine NT.bind (ih.expr _ (by lia)) fun a ha => ?_
      have h1 := l_expr ha
      exact NT.bind (ih.inList _ (by lia)) fun _ _ => NT.ok _
    · exact NT.ok _
  bitOr := fun ts h => by
    simp only [parseBitOr]
    refine NT.bind (ih.bitXor ts (by omega)) fun a ha => ?_
    have h1 := l_bitXor ha
    exact ih.bitOrLoop _ _ (by omega)
  bitOrLoop := fun e ts h => by
    simp only [bitOrLoop]; split
    · rename_i hc
      have h0 := pos_of_cur hc (by decide)
      refine NT.bind (ih.bitXor _ (by lia)) fun a ha => ?_
      have h1 := l_bitXor ha
      exact ih.bitOrLoop _ _ (by lia)
    · exact NT.ok _
  bitXor := fun ts h => by
    simp only [parseBitXor]
    refine NT.bind (ih.bitAnd ts (by omega)) fun a ha => ?_
    have h1 := l_bitAnd ha
    exact ih.bitXorLoop _ _ (by omega)
  bitXorLoop := fun e ts h => by
    simp only [bitXorLoop]; split
    · rename_i hc
      have h0 := pos_of_cur hc (by decide)
      refine NT.bind (ih.bitAnd _ (by lia)) fun a ha => ?_
      have h1 := l_bitAnd ha
      exact ih.bitXorLoop _ _ (by lia)
    · exact NT.ok _
  bitAnd := fun ts h => by
    simp only [parseBitAnd]
    refine NT.bind (ih.shift ts (by omega)) fun a ha => ?_
    have h1 := l_shift ha
    exact ih.bitAndLoop _ _ (by omega)
  bitAndLoop := fun e ts h => by
    simp only [bitAndLoop]; split
    · rename_i hc
      have h0 := pos_of_cur hc (by decide)
      refine NT.bind (ih.shift _ (by lia)) fun a ha => ?_
      have h1 := l_shift ha
      exact ih.bitAndLoop _ _ (by lia)
    · exact NT.ok _
  shift := fun ts h => by
    simp only [parseBitShift]
    refine NT.bind (ih.add ts (by omega)) fun a ha => ?_
    have h1 := l_add ha
    exact ih.shiftLoop _ _ (by omega)
  shiftLoop := fun e ts h => by
    simp only [shiftLoop]; split
    · rename_i hop
      have h0 := pos_of_op (g := shiftOp?) rfl hop
      refine NT.bind (ih.add _ (by lia)) fun a ha => ?_
      have h1 := l_add ha
      exact ih.shiftLoop _ _ (by lia)
    · exact NT.ok _
  add := fun ts h => by
    simp only [parseAddSub]
    refine NT.bind (ih.mul ts (by omega)) fun a ha => ?_
    have h1 := l_mul ha
    exact ih.addLoop _ _ (by omega)
  addLoop := fun e ts h => by
    simp only [addLoop]; split
    · rename_i hop
      have h0 := pos_of_op (g := addOp?) rfl hop
      refine NT.bind (ih.mul _ (by lia)) fun a ha => ?_
      have h1 := l_mul ha
      exact ih.addLoop _ _ (by lia)
    · exact NT.ok _
  mul := fun ts h => by
    simp only [parseMulDiv]
    refine NT.bind (ih.unary ts (by omega)) fun a ha => ?_
    have h1 := l_unary ha
    exact ih.mulLoop _ _ (by omega)
  mulLoop := fun e ts h => by
    simp only [mulLoop]; split
    · rename_i hop
      have h0 := pos_of_op (g := mulOp?) rfl hop
      refine NT.bind (ih.unary _ (by lia)) fun a ha => ?_
      have h1 := l_unary ha
      exact ih.mulLoop _ _ (by lia)
    · exact NT.ok _
  unary := fun ts h => by
    simp only [parseUnary]; split
    · exact ih.sel ts (by omega)
    · rename_i hop
      have h0 := pos_of_op (g := unOp?) rfl hop
      refine NT.bind (ih.unary _ (by lia)) fun a _ => ?_
      exact NT.bind (foldSign_nt _ _) fun _ _ => NT.ok _
  sel := fun ts h => by
    simp only [parseSelector]
    refine NT.bind (ih.lit ts (by omega)) fun a ha => ?_
    have h1 := l_lit ha
    exact ih.selLoop _ _ (by omega)
  selLoop := fun e ts h => by
    simp only [selLoop]; split
    · rename_i hc
      have h0 := pos_of_cur hc (by decide)
      split
      · exact NT.ok _
      · refine NT.bind (parseIdent_nt _) fun a ha => ?_
        have h1 := parseIdent_len ha
        exact ih.selLoop _ _ (by lia)
    · rename_i hc
      have h0 := pos_of_cur hc (by decide)
      refine NT.bind (ih.idx _ (by lia)) fun a ha => ?_
      have h1 := l_idx ha
      (try simp only); split
      · exact ih.selLoop _ _ (by lia)
      · exact NT.raise
    · exact NT.ok _
  idx := fun ts h => by
    simp only [parseIndexSpecifier]; split
    · split
      · refine NT.bind (ih.expr _ (by lia)) fun a _ => ?_
        (try simp only); split <;> first | exact NT.ok _ | exact NT.raise
      · exact NT.bind (ih.expr ts (by omega)) fun _ _ => NT.ok _
    · exact NT.bind (ih.expr ts (by omega)) fun _ _ => NT.ok _
  lit := fun ts h => by
    simp only [parseLit]
    split
    all_goals first
      | exact ih.paren ts ‹cur ts = .lparen› (by omega)
      | exact ih.caseE ts (by omega)
      | exact ih.ifE ts (by omega)
      | exact ih.arr ts (by omega)
      | exact ih.cast ts (by omega)
      | exact NT.outside
      | exact NT.raise
      | (simp only [parseNullLiteral, parseBoolLiteral, parseIntLiteral, parseFloatLiteral, parseStringLiteral,
          parseBytesLiteral, parseParam, expectThen, parseLitIdent]
         repeat' split
         all_goals first | exact NT.ok _ | exact NT.raise | exact NT.outside)
  paren := fun ts hc h => by
    have h0 := pos_of_cur hc (by decide)
    simp only [parseParenExpr]; split
    · exact NT.outside
    · refine NT.bind (ih.expr _ (by lia)) fun a _ => ?_
      (try simp only); split <;> first | exact NT.ok _ | exact NT.raise | exact NT.outside
  caseE := fun ts h => by
    simp only [parseCaseExpr]; split
    · rename_i hc
      have h0 := pos_of_cur hc (by decide)
      refine NT.bind ?_ fun o ho => ?_
      · split
        · exact NT.ok _
        · exact NT.bind (ih.expr _ (by lia)) fun _ _ => NT.ok _
      · have h1 := l_caseOperand ho
        refine NT.bind (ih.caseWhen _ (by lia)) fun w hw => ?_
        have h2 := l_caseWhen hw
        refine NT.bind (ih.caseLoop _ (by lia)) fun ws hws => ?_
        have h3 := l_caseLoop hws
        refine NT.bind ?_ fun el _ => ?_
        · split
          · exact NT.bind (ih.caseElse _ (by lia)) fun _ _ => NT.ok _
          · exact NT.ok _
        · (try simp only); split <;> first | exact NT.ok _ | exact NT.raise
    · exact NT.raise
  caseLoop := fun ts h => by
    simp only [caseWhenLoop]; split
    · refine NT.bind (ih.caseWhen _ (by omega)) fun w hw => ?_
      have h1 := l_caseWhen hw
      exact NT.bind (ih.caseLoop _ (by omega)) fun _ _ => NT.ok _
    · exact NT.ok _
  caseWhen := fun ts h => by
    simp only [parseCaseWhen]; split
    · rename_i hc
      have h0 := pos_of_cur hc (by decide)
      refine NT.bind (ih.expr _ (by lia)) fun c hc' => ?_
      have h1 := l_expr hc'
      (try simp only); split
      · exact NT.bind (ih.expr _ (by lia)) fun _ _ => NT.ok _
      · exact NT.raise
    · exact NT.raise
  caseElse := fun ts h => by
    simp only [parseCaseElse]; split
    · rename_i hc
      have h0 := pos_of_cur hc (by decide)
      exact ih.expr _ (by lia)
    · exact NT.raise
  ifE := fun ts h => by
    simp only [parseIfExpr]; split
    · rename_i hc
      have h0 := pos_of_cur hc (by decide)
      split
      · refine NT.bind (ih.expr _ (by lia)) fun c hc' => ?_
        have h1 := l_expr hc'
        (try simp only); split
        · refine NT.bind (ih.expr _ (by lia)) fun t ht => ?_
          have h2 := l_expr ht
          (try simp only); split
          · refine NT.bind (ih.expr _ (by lia)) fun e _ => ?_
            (try simp only); split <;> first | exact NT.ok _ | exact NT.raise
          · exact NT.raise
        · exact NT.raise
      · exact NT.raise
    · exact NT.raise
  cast := fun ts h => by
    simp only [parseCastExpr]; split
    · rename_i hc
      have h0 := pos_of_cur hc (by decide)
      split
      · refine NT.bind (ih.expr _ (by lia)) fun a ha => ?_
        have h1 := l_expr ha
        (try simp only); split
        · refine NT.bind (castType_nt (by lia)) fun t _ => ?_
          (try simp only); split <;> first | exact NT.ok _ | exact NT.raise
        · exact NT.raise
      · exact NT.raise
    · exact NT.raise
  arr := fun ts h => by
    simp only [parseSimpleArrayLiteral]; split
    · rename_i hc
      have h0 := pos_of_cur hc (by decide)
      split
      · exact NT.ok _
      · refine NT.bind (ih.expr _ (by lia)) fun a ha => ?_
        have h1 := l_expr ha
        refine NT.bind (ih.inList _ (by lia)) fun b _ => ?_
        (try simp only); split <;> first | exact NT.ok _ | exact NT.raise
    · exact NT.raise

end Step

theorem term_all : ∀ f, TermAt f
  | 0 => term_zero
  | f + 1 => term_succ (term_all f)

/-! ## the bound -/

/-- fuel that suffices for EVERY token list: fifteen per token (the depth of the ladder), plus fifteen -/
def exprFuel (ts : List Token) : Nat := 15 * ts.length + 15

/-- the driver's fuel is above the bound -/
theorem exprFuel_le_topFuel (ts : List Token) : exprFuel ts ≤ topFuel ts := by
  unfold exprFuel topFuel; omega

/-- **`parseExpr` terminates on every token list** -/
theorem parseExpr_ne_oof {f : Nat} {ts : List Token} (h : exprFuel ts ≤ f) : parseExpr f ts ≠ .outOfFuel :=
  (term_all f).expr ts h

/-- **`ParseExpr` (model) terminates on every token list** -/
theorem parseExprTop_ne_oof {f : Nat} {ts : List Token} (h : exprFuel ts ≤ f) : parseExprTop f ts ≠ .outOfFuel := by
  unfold parseExprTop
  refine NT.bind (parseExpr_ne_oof h) (fun p _ => ?_)
  split
  · exact NT.ok _
  · exact NT.raise

/-- a non-`outOfFuel` answer of the entry point survives more fuel -/
theorem parseExprTop_mono {n m : Nat} {ts : List Token} (hnm : n ≤ m) (h : parseExprTop n ts ≠ .outOfFuel) :
    parseExprTop m ts = parseExprTop n ts := by
  unfold parseExprTop at h ⊢
  have h' : parseExpr n ts ≠ .outOfFuel := by
    intro e; rw [e] at h; exact h rfl
  rw [parseExpr_mono hnm rfl h']

/-- from the bound on, the answer of `parseExpr` does not depend on the fuel -/
theorem parseExpr_stable {f g : Nat} {ts : List Token} (hf : exprFuel ts ≤ f) (hg : exprFuel ts ≤ g) :
    parseExpr f ts = parseExpr g ts := by
  rw [parseExpr_mono hf rfl (parseExpr_ne_oof (Nat.le_refl _)), parseExpr_mono hg rfl (parseExpr_ne_oof (Nat.le_refl _))]

/-- from the bound on, the answer of the entry point does not depend on the fuel -/
theorem parseExprTop_stable {f g : Nat} {ts : List Token} (hf : exprFuel ts ≤ f) (hg : exprFuel ts ≤ g) :
    parseExprTop f ts = parseExprTop g ts := by
  rw [parseExprTop_mono hf (parseExprTop_ne_oof (Nat.le_refl _)),
    parseExprTop_mono hg (parseExprTop_ne_oof (Nat.le_refl _))]

end MF.Expr
