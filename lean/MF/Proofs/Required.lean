/-
  MF.Proofs.Required — `requiredFields` is sufficient: a tree in which every node carries the fields of
  `requiredFields`, has non-empty strings in `nonEmptyFields`, and meets the remaining clauses of `need`
  (`needRest`), is `SqlShaped` — the hypothesis of `sql_total`.
-/
import MF.Model.Required
namespace MF.Ast

theorem SqlE.need_of_required (T : SqlTables) (c : SqlCtx) :
    ∀ (e : SqlE), (∀ f ∈ e.required, c.present f = true) → (∀ f ∈ e.nonEmpty, c.strNonEmpty f = true) →
      e.needRest T c = true → e.need T c = true
  | .lit _, _, _, _ => rfl
  | .cat a b, hr, hn, h => by
    simp only [SqlE.needRest, Bool.and_eq_true] at h
    simp only [SqlE.required, List.mem_append] at hr
    simp only [SqlE.nonEmpty, List.mem_append] at hn
    simp only [SqlE.need, Bool.and_eq_true]
    exact ⟨SqlE.need_of_required T c a (fun f hf => hr f (.inl hf)) (fun f hf => hn f (.inl hf)) h.1,
      SqlE.need_of_required T c b (fun f hf => hr f (.inr hf)) (fun f hf => hn f (.inr hf)) h.2⟩
  | .child f, hr, _, _ => by
    simp only [SqlE.need]
    exact hr f (by simp [SqlE.required])
  | .sqlOpt l _ r, hr, hn, h => by
    simp only [SqlE.needRest, Bool.and_eq_true] at h
    simp only [SqlE.required, List.mem_append] at hr
    simp only [SqlE.nonEmpty, List.mem_append] at hn
    simp only [SqlE.need, Bool.and_eq_true]
    exact ⟨SqlE.need_of_required T c l (fun f hf => hr f (.inl hf)) (fun f hf => hn f (.inl hf)) h.1,
      SqlE.need_of_required T c r (fun f hf => hr f (.inr hf)) (fun f hf => hn f (.inr hf)) h.2⟩
  | .strOpt _ s, hr, hn, h => by
    simp only [SqlE.needRest] at h
    simp only [SqlE.need]
    exact SqlE.need_of_required T c s hr hn h
  | .strIfElse _ a b, hr, hn, h => by
    simp only [SqlE.needRest, Bool.and_eq_true] at h
    simp only [SqlE.required, List.mem_append] at hr
    simp only [SqlE.nonEmpty, List.mem_append] at hn
    simp only [SqlE.need, Bool.and_eq_true]
    exact ⟨SqlE.need_of_required T c a (fun f hf => hr f (.inl hf)) (fun f hf => hn f (.inl hf)) h.1,
      SqlE.need_of_required T c b (fun f hf => hr f (.inr hf)) (fun f hf => hn f (.inr hf)) h.2⟩
  | .sqlJoin f sep, hr, hn, h => by
    simp only [SqlE.needRest, Bool.and_eq_true] at h
    simp only [SqlE.need, Bool.and_eq_true]
    exact ⟨SqlE.need_of_required T c sep hr hn h.1, h.2⟩
  | .paren _ f, hr, _, h => by
    have hp := hr f (by simp [SqlE.required])
    simp only [SqlCtx.present] at hp
    simp only [SqlE.needRest] at h
    simp only [SqlE.need]
    split at hp
    · rename_i k hk
      simp only [hk] at h
      exact h
    · cases hp
  | .enumStr _, _, _, _ => rfl
  | .strField _, _, _, _ => rfl
  | .quoteIdent f, _, hn, _ => by
    have := hn f (by simp [SqlE.nonEmpty])
    simp only [SqlCtx.strNonEmpty] at this
    simp only [SqlE.need]
    cases hs : c.str f with
    | none => simp [hs] at this
    | some s => simpa [hs] using this
  | .quoteString _, _, _, _ => rfl
  | .quoteBytes _, _, _, _ => rfl
  | .boolUpper _, _, _, _ => rfl
  | .local _, _, _, _ => rfl
  | .spaceAfterInt e, hr, hn, h => by
    simp only [SqlE.needRest] at h
    simp only [SqlE.need]
    exact SqlE.need_of_required T c e hr hn h

theorem customNeed_of_required (c : SqlCtx) (name src : String)
    (hr : ∀ f ∈ customRequired name src, c.present f = true) (h : customNeedRest c name src = true) :
    customNeed c name src = true := by
  unfold customNeedRest at h
  unfold customRequired at hr
  unfold customNeed
  by_cases h1 : (name == "BadNode" && src == srcBadNode) = true
  · simp only [h1, if_true]
  simp only [h1, Bool.false_eq_true, if_false] at h hr ⊢
  by_cases h2 : (name == "BadNode" && src == srcBadNodeC) = true
  · simp only [h2, if_true]
  simp only [h2, Bool.false_eq_true, if_false] at h hr ⊢
  by_cases h3 : (name == "OptionsDef" && src == srcOptionsDef) = true
  · simp only [h3, if_true, Bool.and_eq_true] at hr ⊢
    exact ⟨hr "Name" (by simp), hr "Value" (by simp)⟩
  simp only [h3, Bool.false_eq_true, if_false] at h hr ⊢
  by_cases h4 : (name == "BracedConstructorField" && src == srcBracedConstructorField) = true
  · simp only [h4, if_true, Bool.and_eq_true] at hr ⊢
    exact ⟨hr "Name" (by simp), hr "Value" (by simp)⟩
  simp only [h4, Bool.false_eq_true, if_false] at h hr ⊢
  by_cases h5 : (name == "ChangeStreamForTables" && src == srcChangeStreamForTables) = true
  · simp only [h5, if_true] at h ⊢
    exact h
  simp only [h5, Bool.false_eq_true, if_false] at h

theorem SqlBody.need_of_required (T : SqlTables) :
    ∀ (b : SqlBody) (c : SqlCtx), (∀ f ∈ b.required, c.present f = true) → (∀ f ∈ b.nonEmpty, c.strNonEmpty f = true) →
      b.needRest T c = true → b.need T c = true
  | .ret e, c, hr, hn, h => SqlE.need_of_required T c e hr hn h
  | .letPrec rest, c, hr, hn, h => by
    simp only [SqlBody.needRest, Bool.and_eq_true] at h
    simp only [SqlBody.need, Bool.and_eq_true]
    exact ⟨h.1, SqlBody.need_of_required T rest c hr hn h.2⟩
  | .letStr _ e rest, c, hr, hn, h => by
    simp only [SqlBody.needRest, Bool.and_eq_true] at h
    simp only [SqlBody.required, List.mem_append] at hr
    simp only [SqlBody.nonEmpty, List.mem_append] at hn
    simp only [SqlBody.need, Bool.and_eq_true]
    exact ⟨SqlE.need_of_required T c e (fun f hf => hr f (.inl hf)) (fun f hf => hn f (.inl hf)) h.1,
      SqlBody.need_of_required T rest c (fun f hf => hr f (.inr hf)) (fun f hf => hn f (.inr hf)) h.2⟩
  | .ifRet cd a rest, c, hr, hn, h => by
    simp only [SqlBody.required, List.mem_append] at hr
    simp only [SqlBody.nonEmpty, List.mem_append] at hn
    simp only [SqlBody.needRest] at h
    simp only [SqlBody.need]
    split at h
    · rename_i hc
      rw [hc]
      exact SqlE.need_of_required T c a (fun f hf => hr f (.inl hf)) (fun f hf => hn f (.inl hf)) h
    · rename_i hc
      rw [hc]
      exact SqlBody.need_of_required T rest c (fun f hf => hr f (.inr hf)) (fun f hf => hn f (.inr hf)) h
    · cases h
  | .custom name src, c, hr, _, h => by
    simp only [SqlBody.need]
    exact customNeed_of_required c name src hr h
  | .missing, _, _, _, h => by simp [SqlBody.needRest] at h

theorem mem_eraseDups {α : Type} [BEq α] [LawfulBEq α] {a : α} {l : List α} (h : a ∈ l) : a ∈ l.eraseDups := by
  simpa using h

mutual
  theorem Node.sqlShaped_of_reqShaped (T : SqlTables) (P : PosTables) :
      ∀ (n : Node), n.reqShaped T P = true → n.sqlShaped T = true
    | .mk k sc kids, h => by
      simp only [Node.reqShaped, Bool.and_eq_true] at h
      obtain ⟨⟨⟨⟨⟨hk, hs⟩, hr⟩, hn⟩, hb⟩, hkids⟩ := h
      simp only [Node.sqlShaped, Bool.and_eq_true]
      refine ⟨⟨⟨hk, hs⟩, ?_⟩, Kids.sqlShaped_of_reqShaped T P kids hkids⟩
      cases hl : T.bodies.lookup k with
      | none => simp [hl] at hb
      | some b =>
        simp only [hl] at hb ⊢
        have hr' := List.all_eq_true.mp hr
        have hn' := List.all_eq_true.mp hn
        apply SqlBody.need_of_required T b _ _ _ hb
        · intro f hf
          apply hr'
          unfold requiredFields
          apply mem_eraseDups
          simp only [hl, List.mem_append]
          exact .inl hf
        · intro f hf
          apply hn'
          unfold nonEmptyFields
          simp only [hl]
          exact mem_eraseDups hf
  theorem Kids.sqlShaped_of_reqShaped (T : SqlTables) (P : PosTables) :
      ∀ (ks : Kids), ks.reqShaped T P = true → ks.sqlShaped T = true
    | .nil, _ => rfl
    | .cons _ _ n r, h => by
      simp only [Kids.reqShaped, Bool.and_eq_true] at h
      simp only [Kids.sqlShaped, Bool.and_eq_true]
      exact ⟨Node.sqlShaped_of_reqShaped T P n h.1, Kids.sqlShaped_of_reqShaped T P r h.2⟩
end

/-- **Stage 1.**  Every node carries its `requiredFields` (+ non-empty names + the remaining clauses) ⇒ `SqlShaped`. -/
theorem sqlShaped_of_required (T : SqlTables) (P : PosTables) (n : Node) (h : n.reqShaped T P = true) :
    SqlShaped T n :=
  Node.sqlShaped_of_reqShaped T P n h

/-! ### Pos()/End() need no child at all -/

theorem GoNode.derefs_nil : ∀ (e : GoNode), e.derefs = []
  | .atom a => by cases a <;> rfl
  | .nodeChoice as => by
    simp only [GoNode.derefs]
    induction as with
    | nil => rfl
    | cons a as ih =>
      simp only [List.flatMap_cons, ih, List.append_nil]
      cases a <;> rfl

theorem GoPosAtom.derefs_nil : ∀ (a : GoPosAtom), a.derefs = []
  | .field _ => rfl
  | .nodePos e => GoNode.derefs_nil e
  | .nodeEnd e => GoNode.derefs_nil e

theorem GoPos.derefs_nil : ∀ (e : GoPos), e.derefs = []
  | .term t => GoPosAtom.derefs_nil t.atom
  | .posChoice ts => by
    simp only [GoPos.derefs]
    induction ts with
    | nil => rfl
    | cons a as ih => rw [List.flatMap_cons, ih, GoPosAtom.derefs_nil]; rfl
  | .unrecognised _ => rfl

/-- no body of pos.go that fits the DSL dereferences a single node field without a nil test -/
theorem posRequired_nil (P : PosTables) (k : String) : posRequired P k = [] := by
  unfold posRequired
  split
  · simp only [GoPos.derefs_nil, List.append_nil]
  · rfl

end MF.Ast
