/-
  MF.Proofs.TriviaMain — C16, lexer side: one `nextToken` step on the re-spelled input mirrors the step on the
  original input (`step_sim`), and by induction over the token list so does the whole run (`trivia_lemma`).
-/
import MF.Proofs.TriviaToken
import MF.Proofs.TriviaSpace
namespace MF.Props.C16
open MF MF.Lex

/-! ### inversion of an accepted step (panic mode) -/

theorem nextToken_inv {x : Bytes} {s s' : State} (h : nextToken x false s = .ok s') :
    ∃ pos cs sp sc, triviaLoop x false (x.length + 2) s.pos [] = .ok (pos, cs, sp, false) ∧
      (if s.dotIdent = true then consumeFieldToken (x.drop pos) pos s.tok.kind false
       else consumeToken (x.drop pos) pos s.tok.kind false) = .ok sc ∧
      pos + sc.len ≤ x.length ∧
      s' = { pos := pos + sc.len, lastKind := s.tok.kind, dotIdent := if s.dotIdent = true then false else sc.dot,
             tok := { kind := sc.kind, comments := cs, space := sp, raw := slice x pos (pos + sc.len),
                      asString := sc.asString, base := sc.base, pos := pos, «end» := pos + sc.len } } := by
  have h := nextToken_ok_core h
  unfold nextTokenCore at h
  simp only at h
  split at h
  · cases h
  · cases h
  · rename_i pos cs sp he htl
    have inv := triviaLoop_ok (p0 := s.pos) htl (by simp [CommentsOK]) (by simp [lastEnd])
    split at h
    · rename_i hhe
      have := (inv.2.2.2.2.2 hhe).2
      cases this
    · rename_i hhe
      have hhe' : he = false := by simpa using hhe
      subst hhe'
      split at h
      · cases h
      · cases h
      · rename_i sc hsc
        split at h
        · cases h
        · rename_i raw hraw
          obtain ⟨r1, r2, r3⟩ := slice?_some hraw
          cases h
          exact ⟨pos, cs, sp, sc, htl, hsc, r2, by rw [r3]⟩

theorem triviaLoop_end {buf : Bytes} {fuel pos : Nat} {cs : List Comment} {pos' : Nat} {cs' : List Comment}
    {sp : Bytes} (h : triviaLoop buf false fuel pos cs = .ok (pos', cs', sp, false)) :
    ∃ he, skipComment (buf.drop pos') pos' false = .ok (0, he) := by
  induction fuel generalizing pos cs with
  | zero => simp [triviaLoop] at h
  | succ fuel ih =>
    simp only [triviaLoop] at h
    split at h
    · cases h
    · split at h
      · cases h
      · cases h
      · rename_i n he1 hsc
        split at h
        · rename_i hn0
          cases h
          have : n = 0 := by simpa using hn0
          subst this
          exact ⟨he1, hsc⟩
        · split at h
          · cases h
          · split at h
            · cases h
            · exact ih h

theorem noComment_of_skip {rest : Bytes} {p : Nat} {he : Bool} (h : skipComment rest p false = .ok (0, he)) :
    isLineCommentStart rest = false ∧ isBlockCommentStart rest = false := by
  unfold skipComment at h
  split at h
  · rename_i hl
    exfalso
    have hne : rest ≠ [] := by
      intro e; subst e; simp [isLineCommentStart] at hl
    cases hs : scanUntil [10] rest with
    | some k =>
      rw [hs] at h
      have := (scanUntil_some hs).1
      simp at h this
      omega
    | none =>
      rw [hs] at h
      simp at h
      exact hne h.1
  · rename_i hl
    split at h
    · rename_i hb
      split at h
      · simp at h
      · simp at h
    · rename_i hb
      exact ⟨by simpa using hl, by simpa using hb⟩

theorem term_eq_35 : Term (fun c => c == 35) := by byte_term

theorem isLineCommentStart_eq (rest : Bytes) : isLineCommentStart rest =
    (peekIs rest 0 35 || (peekIs rest 0 47 && peekIs rest 1 47) || (peekIs rest 0 45 && peekIs rest 1 45)) := by
  cases rest with
  | nil => simp [isLineCommentStart, peekIs]
  | cons c t => simp [isLineCommentStart, peekIs]

theorem isBlockCommentStart_eq (rest : Bytes) : isBlockCommentStart rest =
    (peekIs rest 0 47 && peekIs rest 1 42) := by
  cases rest with
  | nil => simp [isBlockCommentStart, peekIs]
  | cons c t => simp [isBlockCommentStart, peekIs]

theorem ISim.and_false {n : Nat} {a b : Bytes} (hs : ISim n a b) (hn : 1 ≤ n) {x y : UInt8}
    (hx : Term (fun c => c == x)) (hy : Term (fun c => c == y))
    (h : (peekIs a 0 x && peekIs a 1 y) = false) : (peekIs b 0 x && peekIs b 1 y) = false := by
  cases h0 : peekIs a 0 x with
  | false => rw [hs.peekIs_false hx (Nat.zero_le _) h0]; rfl
  | true =>
    rw [h0] at h
    simp only [Bool.true_and] at h
    rw [hs.peekIs_false hy hn h]
    simp

theorem ISim.noComment {n : Nat} {a b : Bytes} (hs : ISim n a b) (hn : 1 ≤ n)
    (h1 : isLineCommentStart a = false) (h2 : isBlockCommentStart a = false) :
    isLineCommentStart b = false ∧ isBlockCommentStart b = false := by
  rw [isLineCommentStart_eq] at h1 ⊢
  rw [isBlockCommentStart_eq] at h2 ⊢
  simp only [Bool.or_eq_false_iff] at h1 ⊢
  exact ⟨⟨⟨hs.peekIs_false term_eq_35 (Nat.zero_le _) h1.1.1, hs.and_false hn term_eq_47 term_eq_47 h1.1.2⟩,
    hs.and_false hn term_eq_45 term_eq_45 h1.2⟩, hs.and_false hn term_eq_47 term_eq_42 h2⟩

/-- first byte of a token -/
def tokStart (c : UInt8) : Bool := Char.isIdentPart c || classify c != .other

theorem tokStart_upper : ∀ c, tokStart (Char.upperByte c) = tokStart c := by
  apply UInt8.forall_of_fin; decide +kernel

theorem tokStart_ascii : ∀ d, tokStart d = true → d.toNat < 128 ∧ Utf8.isSpace d.toNat = false := by
  apply UInt8.forall_of_fin; decide +kernel

theorem consumeToken_tokStart {c : UInt8} {t : Bytes} {p : Nat} {lk : TokKind} {sc : Scan}
    (h : consumeToken (c :: t) p lk false = .ok sc) : tokStart c = true := by
  unfold tokStart
  cases hcl : classify c
  case other =>
    simp only [consumeToken, hcl] at h
    unfold fallbackTok at h
    split at h
    · rename_i hst; simp [identStart_part c hst]
    · simp at h
  all_goals simp

theorem consumeFieldToken_tokStart {c : UInt8} {t : Bytes} {p : Nat} {lk : TokKind} {sc : Scan}
    (h : consumeFieldToken (c :: t) p lk false = .ok sc) : tokStart c = true := by
  simp only [consumeFieldToken] at h
  split at h
  · rename_i hp; simp [tokStart, hp]
  · exact consumeToken_tokStart h

theorem noTriviaStart_cons {d : UInt8} {t : Bytes} (hd : tokStart d = true)
    (h1 : isLineCommentStart (d :: t) = false) (h2 : isBlockCommentStart (d :: t) = false) :
    NoTriviaStart (d :: t) := by
  obtain ⟨a1, a2⟩ := tokStart_ascii d hd
  refine ⟨skipSpaces_ascii t a1 a2, ?_⟩
  intro p
  unfold skipComment
  simp [h1, h2]

/-! ### one step -/

theorem newScan_kind (sc : Scan) (a b : Bytes) : (newScan sc a b).kind = sc.kind ∧ (newScan sc a b).len = sc.len ∧
    (newScan sc a b).base = sc.base ∧ (newScan sc a b).dot = sc.dot := by
  unfold newScan; split <;> simp

theorem toUpper_length {a b : Bytes} (h : Char.toUpper a = Char.toUpper b) : a.length = b.length := by
  have := congrArg List.length h
  simpa [Char.toUpper] using this

theorem caseFree_eq (sc : Scan) (rest : Bytes) (tok : Token) (hk : tok.kind = sc.kind)
    (hr : tok.raw.head? = rest.head?) : caseFree tok = scanCaseFree sc rest := by
  unfold caseFree scanCaseFree
  rw [hk, hr]
  cases sc.kind <;> rfl

theorem step_sim {x x' : Bytes} {s s' t : State} {τ' r' rest' : Bytes} {fin : Bool}
    (h : nextToken x false s = .ok s')
    (ht : t.pos ≤ x'.length) (hk : t.tok.kind = s.tok.kind) (hd : t.dotIdent = s.dotIdent)
    (hx' : x'.drop t.pos = τ' ++ r' ++ rest')
    (hτ : Trivia fin τ') (hfin : fin = true → s'.tok.kind = .eof)
    (heof : s'.tok.kind = .eof → rest' = [])
    (hraw : RawOK s'.tok r')
    (hla : LA (x.drop s'.pos).head? rest'.head?) :
    ∃ t', nextToken x' false t = .ok t' ∧ t'.pos = t.pos + τ'.length + r'.length ∧
      t'.dotIdent = s'.dotIdent ∧ TokRel s'.tok r' t'.tok := by
  obtain ⟨pos, cs, sp, sc, htl, hsc, hle, hs'⟩ := nextToken_inv h
  subst hs'
  simp only at hfin heof hraw hla ⊢
  -- the original buffer at the token
  have hr : slice x pos (pos + sc.len) = (x.drop pos).take sc.len := slice_drop x pos sc.len
  rw [hr] at hraw ⊢
  generalize hrest : x.drop pos = rest at hsc hraw ⊢
  have hZ : x.drop (pos + sc.len) = rest.drop sc.len := by rw [← hrest, List.drop_drop]
  rw [hZ] at hla
  have hrestlen : sc.len ≤ rest.length := by rw [← hrest, List.length_drop]; omega
  have hok : ScanOK rest sc := by
    split at hsc
    · exact consumeFieldToken_ok hsc
    · exact consumeToken_ok hsc
  have hrl : (rest.take sc.len).length = sc.len := by rw [List.length_take]; omega
  have hsplit : rest.take sc.len ++ rest.drop sc.len = rest := List.take_append_drop _ _
  have hhead : (rest.take sc.len).head? = rest.head? := by
    cases rest with
    | nil => simp
    | cons c t0 =>
      have := hok.pos (by simp)
      cases hn : sc.len with
      | zero => omega
      | succ m => simp
  unfold RawOK at hraw
  rw [caseFree_eq sc rest _ rfl hhead] at hraw
  simp only at hraw
  have hup : Char.toUpper r' = Char.toUpper (rest.take sc.len) := by
    split at hraw
    · exact hraw
    · rw [hraw]
  have hexact : scanCaseFree sc rest = false → r' = rest.take sc.len := by
    intro hc
    rw [hc] at hraw
    simpa using hraw
  have hr'len : r'.length = sc.len := by rw [toUpper_length hup, hrl]
  -- the simulation relation
  have hsim : ISim sc.len rest (r' ++ rest') := by
    have := ISim.of_append hup hla
    rwa [hsplit, hrl] at this
  have hex : scanCaseFree sc rest = false → (r' ++ rest').take sc.len = rest.take sc.len := by
    intro hc
    rw [List.take_left' hr'len]
    exact hexact hc
  have hkeof : rest = [] → sc.kind = .eof := by
    intro e
    rw [e] at hsc
    split at hsc
    · rw [consumeFieldToken_nil] at hsc; cases hsc; rfl
    · rw [consumeToken_nil] at hsc; cases hsc; rfl
  have hXnil : sc.kind = .eof → r' ++ rest' = [] := by
    intro hke
    have e1 := hok.eof hke
    have e2 := heof hke
    have : r'.length = 0 := by
      rw [hr'len]
      have := hok.le
      rw [e1] at this
      simpa using this
    have : r' = [] := List.eq_nil_of_length_eq_zero this
    rw [this, e2]; rfl
  have hnil : rest = [] → r' ++ rest' = [] := fun e => hXnil (hkeof e)
  -- the token scanner on the new buffer
  have hsc' : (if s.dotIdent = true then consumeFieldToken (r' ++ rest') (t.pos + τ'.length) s.tok.kind false
       else consumeToken (r' ++ rest') (t.pos + τ'.length) s.tok.kind false) = .ok (newScan sc rest (r' ++ rest')) ∧
      (sc.kind = .ident → rest.head? ≠ some 96 → sc.asString = rest.take sc.len) := by
    split at hsc
    · rename_i hdi
      rw [if_pos hdi]
      exact consumeFieldToken_sim hsc hsim hex hnil
    · rename_i hdi
      rw [if_neg hdi]
      exact consumeToken_sim hsc hsim hex hnil
  -- no trivia at the start of the new token
  have hX : NoTriviaStart (r' ++ rest') := by
    cases hrc : rest with
    | nil => rw [hnil hrc]; exact noTriviaStart_nil
    | cons c t0 =>
      have hpos := hok.pos (by rw [hrc]; simp)
      obtain ⟨c', d, e1, e2, e3⟩ := hsim.lt 0 hpos
      rw [hrc] at e1
      simp only [List.getElem?_cons_zero, Option.some.injEq] at e1
      subst e1
      have hts : tokStart c = true := by
        rw [hrc] at hsc
        split at hsc
        · exact consumeFieldToken_tokStart hsc
        · exact consumeToken_tokStart hsc
      have htd : tokStart d = true := by rw [← tokStart_upper, e3, tokStart_upper]; exact hts
      obtain ⟨he, hskip⟩ := triviaLoop_end htl
      rw [hrest] at hskip
      obtain ⟨n1, n2⟩ := noComment_of_skip hskip
      obtain ⟨m1, m2⟩ := hsim.noComment hpos n1 n2
      cases hY : r' ++ rest' with
      | nil => rw [hY] at e2; simp at e2
      | cons d' t₂ =>
        rw [hY] at e2 m1 m2
        simp only [List.getElem?_cons_zero, Option.some.injEq] at e2
        subst e2
        exact noTriviaStart_cons htd m1 m2
  -- the trivia loop on the new buffer
  have hx'' : x'.drop t.pos = τ' ++ (r' ++ rest') := by rw [hx', List.append_assoc]
  have hfinX : fin = true → r' ++ rest' = [] := fun hf => hXnil (hfin hf)
  obtain ⟨cs', sp', htl'⟩ := triviaLoop_trivia_ok hτ hfinX hX hx'' ht
  have hdrop2 : x'.drop (t.pos + τ'.length) = r' ++ rest' := by
    rw [← List.drop_drop, hx'', List.drop_left]
  have hlen' : t.pos + τ'.length + r'.length + rest'.length = x'.length := by
    have := congrArg List.length hx'
    simp only [List.length_drop, List.length_append] at this
    omega
  obtain ⟨k1, k2, k3, k4⟩ := newScan_kind sc rest (r' ++ rest')
  have hcore : nextTokenCore x' false t = .ok
      { pos := t.pos + τ'.length + sc.len, lastKind := s.tok.kind,
        dotIdent := if s.dotIdent = true then false else sc.dot,
        tok := { kind := sc.kind, comments := cs', space := sp', raw := r',
                 asString := (newScan sc rest (r' ++ rest')).asString, base := sc.base,
                 pos := t.pos + τ'.length, «end» := t.pos + τ'.length + sc.len } } := by
    unfold nextTokenCore
    simp only [htl', hdrop2, hk, hd, hsc'.1, Bool.false_eq_true, if_false, k1, k2, k3, k4]
    rw [slice?_of_le (Nat.le_add_right _ _) (by omega)]
    simp only
    rw [slice_drop, hdrop2, ← hr'len, List.take_left]
  refine ⟨_, by unfold nextToken; rw [hcore], by simp only; omega, rfl, ?_⟩
  simp only
  refine ⟨rfl, rfl, rfl, ?_, ?_⟩
  · intro hu
    unfold unquotedIdent at hu
    simp only [hhead] at hu
    refine ⟨hsc'.2 hu.1 hu.2, ?_⟩
    unfold newScan
    rw [if_pos hu]
    simp only
    rw [← hr'len, List.take_left]
  · intro hu
    unfold unquotedIdent at hu
    simp only [hhead] at hu
    unfold newScan
    rw [if_neg hu]


/-! ### the whole run -/

/-- an accepted run of `nextToken` from state `s`, producing the tokens `ts` (the last one is `<eof>`) -/
inductive Run (x : Bytes) : State → List Token → Prop
  | last {s s' : State} : nextToken x false s = .ok s' → s'.tok.kind = .eof → Run x s [s'.tok]
  | step {s s' : State} {ts : List Token} : nextToken x false s = .ok s' → s'.tok.kind ≠ .eof → Run x s' ts →
      Run x s (s'.tok :: ts)

theorem lexAllFrom_run {x : Bytes} {fuel : Nat} {s : State} {acc ts : List Token}
    (h : lexAllFrom x fuel s acc = .ok ts) : ∃ new, ts = acc.reverse ++ new ∧ Run x s new := by
  induction fuel generalizing s acc with
  | zero => simp [lexAllFrom] at h
  | succ fuel ih =>
    simp only [lexAllFrom] at h
    split at h
    · cases h
    · cases h
    · rename_i s' hnt
      split at h
      · rename_i hk
        have hk' : s'.tok.kind = .eof := by simpa using hk
        cases h
        exact ⟨[s'.tok], by simp, .last hnt hk'⟩
      · rename_i hk
        have hk' : s'.tok.kind ≠ .eof := by simpa using hk
        obtain ⟨new, h1, h2⟩ := ih h
        exact ⟨s'.tok :: new, by simp [h1], .step hnt hk' h2⟩

theorem run_lexAllFrom {x : Bytes} {s : State} {new : List Token} (hr : Run x s new) :
    ∀ (fuel : Nat) (acc : List Token), s.pos ≤ x.length → x.length - s.pos + 1 ≤ fuel →
      lexAllFrom x fuel s acc = .ok (acc.reverse ++ new) := by
  induction hr with
  | @last s s' hnt hk =>
    intro fuel acc _ hf
    cases fuel with
    | zero => omega
    | succ f =>
      simp [lexAllFrom, hnt, hk]
  | @step s s' ts hnt hk _ ih =>
    intro fuel acc hp hf
    have fr := nextToken_frame hnt
    have pg := (nextToken_progress hnt hp).2.2.1 hk
    cases fuel with
    | zero => omega
    | succ f =>
      have hk' : (s'.tok.kind == TokKind.eof) = false := by simpa using hk
      simp only [lexAllFrom, hnt, hk', Bool.false_eq_true, if_false]
      rw [ih f (s'.tok :: acc) fr.le_len (by have := fr.le_len; omega)]
      simp

theorem la_of_upper {r r' Z Y : Bytes} (hup : Char.toUpper r' = Char.toUpper r) (hne : r ≠ []) :
    LA (r ++ Z).head? (r' ++ Y).head? := by
  cases r with
  | nil => exact absurd rfl hne
  | cons c t =>
    cases r' with
    | nil => simp [Char.toUpper] at hup
    | cons d t' =>
      simp only [Char.toUpper, List.map_cons, List.cons.injEq] at hup
      simp only [List.cons_append, List.head?_cons]
      exact .ceq hup.1

/-- the byte after a token in the original and in the re-spelled input are look-ahead compatible -/
theorem la_of_run {x : Bytes} {s : State} {ts : List Token} {ps : List (Bytes × Bytes)} {Y : Bytes}
    (hr : Run x s ts) (hp : s.pos ≤ x.length) (hre : RespellFrom false ts ps Y) :
    LA (x.drop s.pos).head? Y.head? := by
  have key : ∀ (s' : State) (ts' : List Token), nextToken x false s = .ok s' → ts = s'.tok :: ts' →
      (s'.tok.kind = .eof → ts' = []) → LA (x.drop s.pos).head? Y.head? := by
    intro s' ts' hnt hts hlast
    subst hts
    cases ps with
    | nil => simp [RespellFrom] at hre
    | cons pr ps' =>
      obtain ⟨τ', r'⟩ := pr
      simp only [RespellFrom] at hre
      obtain ⟨rest', hY, _, hS, hraw, hre'⟩ := hre
      obtain ⟨hS1, hS2⟩ := hS trivial
      rcases hS1 with hnil | ⟨w, τ₀, hw, hτ⟩
      · subst hnil
        obtain ⟨hcm, hsp⟩ := hS2 rfl
        have fr := nextToken_frame hnt
        have pg := nextToken_progress hnt hp
        have hsp2 := fr.space
        rw [hcm, hsp] at hsp2
        simp only [lastEnd] at hsp2
        have hsl := fr.space_le
        rw [hcm] at hsl
        simp only [lastEnd] at hsl
        have hte : s'.tok.end ≤ x.length := by rw [fr.tok_end]; exact fr.le_len
        have hpe : s'.tok.pos = s.pos := by
          have := congrArg List.length hsp2
          rw [slice_length hsl (by have := fr.tok_le; omega)] at this
          simp at this
          omega
        have hup : Char.toUpper r' = Char.toUpper s'.tok.raw := by
          unfold RawOK at hraw
          split at hraw
          · exact hraw
          · rw [hraw]
        have hrawlen : s'.tok.raw.length = s'.tok.end - s'.tok.pos := by
          rw [fr.raw, slice_length fr.tok_le hte]
        by_cases hk : s'.tok.kind = .eof
        · have hts' := hlast hk
          subst hts'
          cases ps' with
          | cons _ _ => simp [RespellFrom] at hre'
          | nil =>
            simp only [RespellFrom] at hre'
            subst hre'
            have h1 := (pg.1 hk).1
            have h2 := (pg.1 hk).2
            have hr0 : s'.tok.raw = [] := by
              apply List.eq_nil_of_length_eq_zero
              rw [hrawlen, fr.tok_end]; omega
            have hr'0 : r' = [] := by
              apply List.eq_nil_of_length_eq_zero
              rw [toUpper_length hup, hr0]; rfl
            have hd : x.drop s.pos = [] := by
              rw [List.drop_eq_nil_iff]; omega
            rw [hd, hY, hr'0]
            exact .none
        · have hlt := pg.2.2.2 rfl hk
          have hne : s'.tok.raw ≠ [] := by
            intro e
            rw [e] at hrawlen
            simp at hrawlen
            omega
          have hd : x.drop s.pos = s'.tok.raw ++ x.drop s'.tok.end := by
            rw [fr.raw, hpe]
            obtain ⟨k, hk2⟩ : ∃ k, s'.tok.end = s.pos + k := ⟨s'.tok.end - s.pos, by omega⟩
            rw [hk2, slice_drop, ← List.drop_drop]
            exact (List.take_append_drop _ _).symm
          rw [hd, hY, List.nil_append]
          exact la_of_upper hup hne
      · obtain ⟨c, t0, hw1, hw2⟩ := hw.head
        rw [hY, hτ, hw1]
        simp only [List.cons_append, List.head?_cons]
        exact .ws hw2
  cases hr with
  | last hnt hk => exact key _ [] hnt rfl (fun _ => rfl)
  | step hnt hk hr' => exact key _ _ hnt rfl (fun e => absurd e hk)

theorem Run.ne_nil {x : Bytes} {s : State} {ts : List Token} (h : Run x s ts) : ts.isEmpty = false := by
  cases h <;> rfl

theorem run_sim {x x' : Bytes} {s : State} {ts : List Token} (hr : Run x s ts) :
    ∀ (first : Bool) (t : State) (ps : List (Bytes × Bytes)), s.pos ≤ x.length → t.pos ≤ x'.length →
      t.tok.kind = s.tok.kind → t.dotIdent = s.dotIdent → RespellFrom first ts ps (x'.drop t.pos) →
      ∃ ts', Run x' t ts' ∧ TokensRel ts ps ts' := by
  induction hr with
  | @last s s' hnt hk =>
    intro first t ps hp ht hkk hdd hre
    cases ps with
    | nil => simp [RespellFrom] at hre
    | cons pr ps' =>
      obtain ⟨τ', r'⟩ := pr
      simp only [RespellFrom] at hre
      obtain ⟨rest', hY, hτ, _, hraw, hre'⟩ := hre
      cases ps' with
      | cons _ _ => simp [RespellFrom] at hre'
      | nil =>
        simp only [RespellFrom] at hre'
        subst hre'
        have pg := nextToken_progress hnt hp
        have hla : LA (x.drop s'.pos).head? ([] : Bytes).head? := by
          have : x.drop s'.pos = [] := by
            rw [List.drop_eq_nil_iff]; have := (pg.1 hk).2; omega
          rw [this]; exact .none
        obtain ⟨t', g1, g2, g3, g4⟩ := step_sim hnt ht hkk hdd hY hτ (fun _ => hk) (fun _ => rfl) hraw hla
        refine ⟨[t'.tok], .last g1 (by rw [g4.1]; exact hk), ?_⟩
        simp only [TokensRel, and_true]
        exact g4
  | @step s s' ts hnt hk hr' ih =>
    intro first t ps hp ht hkk hdd hre
    cases ps with
    | nil => simp [RespellFrom] at hre
    | cons pr ps' =>
      obtain ⟨τ', r'⟩ := pr
      simp only [RespellFrom] at hre
      obtain ⟨rest', hY, hτ, _, hraw, hre'⟩ := hre
      rw [hr'.ne_nil] at hτ
      have fr := nextToken_frame hnt
      have hla := la_of_run hr' fr.le_len hre'
      obtain ⟨t', g1, g2, g3, g4⟩ := step_sim hnt ht hkk hdd hY hτ (fun e => by cases e)
        (fun e => absurd e hk) hraw hla
      have hlen : t.pos + τ'.length + r'.length + rest'.length = x'.length := by
        have := congrArg List.length hY
        simp only [List.length_drop, List.length_append] at this
        omega
      have hd : x'.drop t'.pos = rest' := by
        rw [g2, Nat.add_assoc, ← List.drop_drop, hY, ← List.length_append, List.drop_left]
      obtain ⟨ts', h1, h2⟩ := ih false t' ps' fr.le_len (by omega) g4.1 g3 (by rw [hd]; exact hre')
      refine ⟨t'.tok :: ts', .step g1 (by rw [g4.1]; exact hk) h1, ?_⟩
      simp only [TokensRel]
      exact ⟨g4, h2⟩

/-- C16, lexer side: re-spelling an accepted input (new trivia, new letter case of keywords and unquoted
identifiers) is accepted and yields the same tokens. -/
theorem trivia_lemma {x x' : Bytes} {ts : List Token} {ps : List (Bytes × Bytes)}
    (h : lexAll x = .ok ts) (hre : Respell ts ps x') :
    ∃ ts', lexAll x' = .ok ts' ∧ TokensRel ts ps ts' := by
  unfold lexAll at h
  obtain ⟨new, h1, hrun⟩ := lexAllFrom_run h
  simp only [List.reverse_nil, List.nil_append] at h1
  subst h1
  obtain ⟨ts', g1, g2⟩ := run_sim (x' := x') hrun true Lex.init ps (by simp [Lex.init]) (by simp [Lex.init]) rfl rfl
    (by simpa [Lex.init, Respell] using hre)
  refine ⟨ts', ?_, g2⟩
  unfold lexAll
  have := run_lexAllFrom g1 (x'.length + 2) [] (by simp [Lex.init]) (by simp [Lex.init])
  simpa using this


end MF.Props.C16
