import MF.Proofs.RefineBasic
namespace MF.Refine
open MF MF.Lex MF.Spec.Lexical

/-! ### numbers -/

/-- in exponent state (base 10) the loop consumes exactly a digit run -/
theorem numberLoop_exp {rest : Bytes} (fuel i : Nat) (isInt : Bool) (hi : i ≤ rest.length)
    (hf : rest.length < fuel + i) :
    numberLoop rest 10 fuel i isInt true = some (i + run isDigit (rest.drop i), isInt) := by
  induction fuel generalizing i with
  | zero => omega
  | succ fuel ih =>
    simp only [numberLoop]
    cases h : rest[i]? with
    | none => simp [drop_of_getElem?_none h, run]
    | some c =>
      have hlt := getElem?_some_lt h
      rw [drop_of_getElem? h]
      simp only [run]
      rw [isDigit_eq]
      by_cases hd : isDigit c = true
      · simp only [hd, if_true, beq_self_eq_true, Bool.and_true]
        rw [ih (i + 1) (by omega) (by omega)]
        simp; omega
      · simp [hd]

/-- in base 16 the loop consumes exactly a run of hexadecimal digits -/
theorem numberLoop_hex {rest : Bytes} (fuel i : Nat) (isInt exp : Bool) (hi : i ≤ rest.length)
    (hf : rest.length < fuel + i) :
    numberLoop rest 16 fuel i isInt exp = some (i + run isHex (rest.drop i), isInt) := by
  induction fuel generalizing i with
  | zero => omega
  | succ fuel ih =>
    simp only [numberLoop]
    cases h : rest[i]? with
    | none => simp [drop_of_getElem?_none h, run]
    | some c =>
      have hlt := getElem?_some_lt h
      rw [drop_of_getElem? h]
      simp only [run]
      rw [isHexDigit_eq]
      by_cases hd : isHex c = true
      · simp [hd]
        rw [ih (i + 1) (by omega) (by omega)]
        simp; omega
      · simp [hd]

theorem run_drop_none {rest : Bytes} {j : Nat} (p : UInt8 → Bool) (h : rest[j]? = none) : run p (rest.drop j) = 0 := by
  rw [drop_of_getElem?_none h]; rfl

theorem run_drop_some {rest : Bytes} {j : Nat} {d : UInt8} (p : UInt8 → Bool) (h : rest[j]? = some d) :
    run p (rest.drop j) = if p d then run p (rest.drop (j + 1)) + 1 else 0 := by
  rw [drop_of_getElem? h]; rfl

theorem exponentLen_at {rest : Bytes} {i : Nat} {c : UInt8} (h : rest[i]? = some c) (he : (c == 69 || c == 101) = true) :
    exponentLen (rest.drop i) =
      if (rest[i + 1]? == some 43 || rest[i + 1]? == some 45) = true then
        (if run isDigit (rest.drop (i + 2)) > 0 then 2 + run isDigit (rest.drop (i + 2)) else 0)
      else (if run isDigit (rest.drop (i + 1)) > 0 then 1 + run isDigit (rest.drop (i + 1)) else 0) := by
  rw [drop_of_getElem? h]
  simp only [exponentLen, he, if_true]
  cases h1 : rest[i + 1]? with
  | none =>
    rw [drop_of_getElem?_none h1]
    simp [run]
  | some sg =>
    rw [drop_of_getElem? h1]
    by_cases hs : (sg == 43 || sg == 45) = true
    · have : (some sg == some 43 || some sg == some 45) = true := by simpa using hs
      simp only [hs, this, if_true]
      simp
    · have : ¬ (some sg == some 43 || some sg == some 45) = true := by simpa using hs
      simp only [hs, this]
      simp

theorem exponentLen_not_e {c : UInt8} {t : Bytes} (he : (c == 69 || c == 101) = false) : exponentLen (c :: t) = 0 := by
  simp [exponentLen, he]

theorem numberLoop_stop_or_exp {rest : Bytes} {fuel i : Nat} {c : UInt8} {isInt : Bool}
    (h : rest[i]? = some c) (hd : isDigit c = false) (hdot : isInt = false ∨ (c == 46) = false)
    (hf : rest.length < fuel + i + 1) :
    numberLoop rest 10 (fuel + 1) i isInt false =
      if exponentLen (rest.drop i) > 0 then some (i + exponentLen (rest.drop i), false) else some (i, isInt) := by
  have hlt := getElem?_some_lt h
  have hdot' : (isInt && c == 46) = false := by rcases hdot with h | h <;> simp [h]
  simp only [numberLoop, h]
  rw [isDigit_eq]
  simp only [hd, Bool.and_false, Bool.false_eq_true, if_false, Bool.not_false, Bool.true_and]
  have h16 : ((10 : Nat) == 16) = false := by decide
  simp only [h16, Bool.false_and, Bool.false_eq_true, if_false, beq_self_eq_true, Bool.true_and, Bool.and_true, hdot']
  by_cases he : (c == 69 || c == 101) = true
  · rw [exponentLen_at h he]
    simp only [he, if_true]
    by_cases hs : (rest[i + 1]? == some 43 || rest[i + 1]? == some 45) = true
    · simp only [hs, if_true]
      cases h2 : rest[i + 1 + 1]? with
      | none => simp [run_drop_none isDigit h2]
      | some d =>
        have hlt2 := getElem?_some_lt h2
        rw [run_drop_some isDigit h2]
        by_cases hdd : isDigit d = true
        · simp only [hdd, if_true]
          rw [numberLoop_exp (rest := rest) fuel (i + 1 + 1) false (by omega) (by omega), run_drop_some isDigit h2]
          simp [hdd]; rw [if_pos (by omega)]; simp only [Option.some.injEq, Prod.mk.injEq, and_true]; omega
        · simp [hdd]
    · have hs' := Bool.eq_false_iff.2 hs
      simp only [hs', Bool.false_eq_true, if_false]
      cases h2 : rest[i + 1]? with
      | none => simp [run_drop_none isDigit h2]
      | some d =>
        have hlt2 := getElem?_some_lt h2
        rw [run_drop_some isDigit h2]
        by_cases hdd : isDigit d = true
        · simp only [hdd, if_true]
          rw [numberLoop_exp (rest := rest) fuel (i + 1) false (by omega) (by omega), run_drop_some isDigit h2]
          simp [hdd]; rw [if_pos (by omega)]; simp only [Option.some.injEq, Prod.mk.injEq, and_true]; omega
        · simp [hdd]
  · have he' : (c == 69 || c == 101) = false := by simpa using he
    rw [drop_of_getElem? h, exponentLen_not_e he']
    simp [he']

/-- after the `.`: digits, then an optional exponent -/
theorem numberLoop_frac {rest : Bytes} (fuel i : Nat) (hi : i ≤ rest.length) (hf : rest.length < fuel + i) :
    numberLoop rest 10 fuel i false false =
      some (i + run isDigit (rest.drop i) +
        exponentLen (rest.drop (i + run isDigit (rest.drop i))), false) := by
  induction fuel generalizing i with
  | zero => omega
  | succ fuel ih =>
    cases h : rest[i]? with
    | none =>
      simp only [numberLoop, h]
      simp [drop_of_getElem?_none h, run, exponentLen]
    | some c =>
      have hlt := getElem?_some_lt h
      by_cases hd : isDigit c = true
      · simp only [numberLoop, h]
        rw [isDigit_eq]
        simp only [hd, if_true, beq_self_eq_true, Bool.and_true]
        rw [ih (i + 1) (by omega) (by omega), run_drop_some isDigit h]
        simp only [hd, if_true]
        have e1 : i + 1 + run isDigit (rest.drop (i + 1)) = i + (run isDigit (rest.drop (i + 1)) + 1) := by omega
        rw [e1]
      · have hd' := Bool.eq_false_iff.2 hd
        rw [numberLoop_stop_or_exp h hd' (Or.inl rfl) (by omega), run_drop_some isDigit h]
        simp only [hd', Bool.false_eq_true, if_false, Nat.add_zero]
        split
        · rfl
        · rename_i h0
          have : exponentLen (rest.drop i) = 0 := by omega
          rw [this]; rfl

/-- the part of the reference `number` after the hexadecimal test, as (length, isInt) -/
def numRest (s : Bytes) : Nat × Bool :=
  let ip := run isDigit s
  match s.drop ip with
  | dot :: t =>
    if dot == 46 then (ip + 1 + run isDigit t + exponentLen (t.drop (run isDigit t)), false)
    else if exponentLen (dot :: t) > 0 then (ip + exponentLen (dot :: t), false) else (ip, true)
  | [] => (ip, true)

theorem numRest_digit {c : UInt8} {t : Bytes} (h : isDigit c = true) :
    numRest (c :: t) = ((numRest t).1 + 1, (numRest t).2) := by
  unfold numRest
  simp only [run, h, if_true, List.drop_succ_cons]
  cases t.drop (run isDigit t) with
  | nil => simp
  | cons d u =>
    simp only
    split
    · simp; omega
    · split
      · simp; omega
      · simp

theorem numberLoop_int {rest : Bytes} (fuel i : Nat) (hi : i ≤ rest.length) (hf : rest.length < fuel + i) :
    numberLoop rest 10 fuel i true false = some (i + (numRest (rest.drop i)).1, (numRest (rest.drop i)).2) := by
  induction fuel generalizing i with
  | zero => omega
  | succ fuel ih =>
    cases h : rest[i]? with
    | none =>
      simp only [numberLoop, h]
      simp [drop_of_getElem?_none h, numRest, run]
    | some c =>
      have hlt := getElem?_some_lt h
      by_cases hd : isDigit c = true
      · simp only [numberLoop, h]
        rw [isDigit_eq]
        simp only [hd, if_true, beq_self_eq_true, Bool.and_true]
        rw [ih (i + 1) (by omega) (by omega), drop_of_getElem? h, numRest_digit hd]
        simp only [Option.some.injEq, Prod.mk.injEq, and_true]; omega
      · have hd' := Bool.eq_false_iff.2 hd
        by_cases hdot : (c == 46) = true
        · simp only [numberLoop, h]
          rw [isDigit_eq]
          have h16 : ((10 : Nat) == 16) = false := by decide
          simp only [hd', h16, Bool.and_false, Bool.false_and, Bool.false_eq_true, if_false, Bool.not_false,
            Bool.true_and, beq_self_eq_true, hdot, if_true]
          rw [numberLoop_frac fuel (i + 1) (by omega) (by omega), drop_of_getElem? h]
          simp only [numRest, run, hd', Bool.false_eq_true, if_false, List.drop_zero, hdot, if_true]
          simp only [List.drop_drop, Option.some.injEq, Prod.mk.injEq, and_true]
          omega
        · have hdot' := Bool.eq_false_iff.2 hdot
          rw [numberLoop_stop_or_exp h hd' (Or.inr hdot') (by omega), drop_of_getElem? h]
          simp only [numRest, run, hd', Bool.false_eq_true, if_false, List.drop_zero, hdot', Nat.zero_add]
          split <;> rfl

theorem run_pos_iff (p : UInt8 → Bool) (s : Bytes) :
    (0 < run p s) ↔ (match s with | x :: _ => p x = true | [] => False) := by
  cases s with
  | nil => simp [run]
  | cons c t => by_cases h : p c = true <;> simp [run, h]

theorem number_hex {z x : UInt8} {t : Bytes} (h : (z == 48 && (x == 120 || x == 88)) = true)
    (hr : 0 < run isHex t) : number (z :: x :: t) = (.int16, 2 + run isHex t) := by
  unfold number
  simp only [h, if_true]
  have : decide (run isHex t > 0) = true := by simpa using hr
  simp [hr]

theorem number_dec {s : Bytes}
    (hnohex : ∀ z x t, s = z :: x :: t → (z == 48 && (x == 120 || x == 88)) = true → run isHex t = 0)
    (hpos : ∀ t, s.drop (run isDigit s) = 46 :: t → 0 < run isDigit s + run isDigit t) :
    number s = (if (numRest s).2 then .int10 else .float, (numRest s).1) := by
  have key : ∀ hx : Nat, hx = 0 →
      (if hx > 0 then (NumKind.int16, 2 + hx)
       else
        match s.drop (run isDigit s) with
        | dot :: t =>
          if (dot == 46) = true then
            if run isDigit s + run isDigit t > 0 then
              (NumKind.float, run isDigit s + 1 + run isDigit t + exponentLen (List.drop (run isDigit t) t))
            else (NumKind.int10, run isDigit s)
          else
            if exponentLen (s.drop (run isDigit s)) > 0 then
              (NumKind.float, run isDigit s + exponentLen (s.drop (run isDigit s)))
            else (NumKind.int10, run isDigit s)
        | [] => (NumKind.int10, run isDigit s)) = (if (numRest s).2 then .int10 else .float, (numRest s).1) := by
    intro hx hx0
    subst hx0
    unfold numRest
    simp only [Nat.lt_irrefl, gt_iff_lt, if_false]
    cases hd : s.drop (run isDigit s) with
    | nil => simp
    | cons d u =>
      simp only
      by_cases hdot : (d == 46) = true
      · have hd46 : d = 46 := by simpa using hdot
        subst hd46
        have := hpos u hd
        simp [this]
      · simp only [hdot, Bool.false_eq_true, if_false]
        by_cases hex : 0 < exponentLen (d :: u)
        · simp [hex]
        · simp [hex]
  unfold number
  dsimp only
  match s, hnohex, key with
  | [], _, key => exact key 0 rfl
  | [_], _, key => exact key 0 rfl
  | z :: x :: t, hn, key =>
    apply key
    by_cases hc : (z == 48 && (x == 120 || x == 88)) = true
    · dsimp only; rw [if_pos hc]; exact hn z x t rfl hc
    · dsimp only; rw [if_neg hc]

theorem consumeNumber_of_loop {s : Bytes} {p0 n : Nat} {isInt : Bool} (hex : Bool) (hhex : isHexPrefix s = hex)
    (hl : numberLoop s (if hex then 16 else 10) (s.length + 1) (if hex then 2 else 0) true false = some (n, isInt)) :
    (∃ x u, s.drop n = x :: u ∧ isIdentChar x = true ∧ ∃ e, consumeNumber s p0 false = .err e) ∨
    ((∀ x u, s.drop n = x :: u → isIdentChar x = false) ∧
      consumeNumber s p0 false =
        .ok (if isInt then { kind := .int, len := n, base := if hex then 16 else 10 } else { kind := .float, len := n })) := by
  unfold consumeNumber
  simp only [hhex, hl]
  cases h : s[n]? with
  | none =>
    right
    refine ⟨?_, rfl⟩
    intro x u hd
    rw [drop_of_getElem?_none h] at hd
    cases hd
  | some c =>
    have hd := drop_of_getElem? h
    rw [isIdentPart_eq]
    by_cases hc : isIdentChar c = true
    · left
      refine ⟨c, _, hd, hc, ?_⟩
      simp [hc]
    · right
      have hc' := Bool.eq_false_iff.2 hc
      refine ⟨?_, by simp [hc']⟩
      intro x u hd'
      rw [hd] at hd'
      cases hd'
      exact hc'

/-- the scan record the reference lexer builds from `number` -/
def numScan (k : NumKind) (n : Nat) : Scan :=
  { kind := if k == .float then .float else .int, len := n,
    base := if k == .int16 then 16 else if k == .int10 then 10 else 0 }

theorem consumeNumber_refines (s : Bytes) (p0 : Nat)
    (hstart : (∃ c t, s = c :: t ∧ isDigit c = true) ∨ (∃ d t, s = 46 :: d :: t ∧ isDigit d = true)) :
    ∃ k n, number s = (k, n) ∧
      ((∃ x u, s.drop n = x :: u ∧ isIdentChar x = true ∧ ∃ e, consumeNumber s p0 false = .err e) ∨
       ((∀ x u, s.drop n = x :: u → isIdentChar x = false) ∧ consumeNumber s p0 false = .ok (numScan k n))) := by
  by_cases hex : isHexPrefix s = true
  · -- hexadecimal
    obtain ⟨z, x, t, rfl, hzx, hr⟩ : ∃ z x t, s = z :: x :: t ∧ (z == 48 && (x == 120 || x == 88)) = true ∧
        0 < run isHex t := by
      match s, hex with
      | [], h => simp [isHexPrefix] at h
      | [_], h => simp [isHexPrefix] at h
      | z :: x :: t, h =>
        refine ⟨z, x, t, rfl, ?_, ?_⟩
        · simp [isHexPrefix] at h ⊢; exact h.1
        · rw [run_pos_iff]
          simp only [isHexPrefix, peekSat, Bool.and_eq_true] at h
          have := h.2
          cases t with
          | nil => simp at this
          | cons a b => rw [← isHexDigit_eq]; simpa using this
    refine ⟨.int16, 2 + run isHex t, number_hex hzx hr, ?_⟩
    have hl := numberLoop_hex (rest := z :: x :: t) ((z :: x :: t).length + 1) 2 true false (by simp) (by omega)
    have := consumeNumber_of_loop (p0 := p0) true hex hl
    simpa [numScan] using this
  · have hex' := Bool.eq_false_iff.2 hex
    have hl := numberLoop_int (rest := s) (s.length + 1) 0 (by omega) (by omega)
    have hnum : number s = (if (numRest s).2 then .int10 else .float, (numRest s).1) := by
      apply number_dec
      · intro z x t hs hzx
        subst hs
        rcases Nat.eq_zero_or_pos (run isHex t) with h | h
        · exact h
        · exfalso
          apply hex
          have h : 0 < run isHex t := h
          rw [run_pos_iff] at h
          cases t with
          | nil => exact h.elim
          | cons a b =>
            simp only [Bool.and_eq_true, Bool.or_eq_true, beq_iff_eq] at hzx
            simp only [isHexPrefix, peekSat, isHexDigit_eq]
            rcases hzx with ⟨rfl, rfl | rfl⟩ <;> simpa using h
      · intro t hd
        rcases hstart with ⟨c, u, rfl, hc⟩ | ⟨d, u, rfl, hdg⟩
        · simp only [run, hc, if_true]; omega
        · have h46 : isDigit 46 = false := by decide
          simp only [run, h46, Bool.false_eq_true, if_false, List.drop_zero] at hd ⊢
          cases hd
          simp [run, hdg]
    refine ⟨_, _, hnum, ?_⟩
    have := consumeNumber_of_loop (p0 := p0) false hex' hl
    simp only [List.drop_zero, Nat.zero_add] at this
    cases hk : (numRest s).2 <;> simpa [numScan, hk] using this

end MF.Refine
