/-
  MF.Proofs.ExprPosExact — C06 for the expression fragment, parser half: if a token list `ts'` is the token range of a
  sub-expression `n` moved `d` bytes to the left and followed by `<eof>` (`SliceToks`), then `parsePTop ts'` is `n` with
  all positions moved `d` bytes to the left.  Uses Task F's completeness theorem (`parseExprTop_complete`) for the shape,
  `erase_parseTop` to lift it to the positioned parser, and `placeG` for the positions.
-/
import MF.Proofs.ExprPosSub
import MF.Proofs.ExprPosC05
import MF.Proofs.ExprUnique
namespace MF.Expr

/-- `ts'` = the tokens `i … j-1` of `ts` moved `d` bytes to the left (same kind, spelling and value), then `<eof>` -/
structure SliceToks (ts : List Token) (i j d : Nat) (ts' : List Token) : Prop where
  len : ts'.length = j - i + 1
  tok : ∀ k, k < j - i →
    (tokAt ts' k).kind = (tokAt ts (i + k)).kind ∧ (tokAt ts' k).raw = (tokAt ts (i + k)).raw ∧
    (tokAt ts' k).asString = (tokAt ts (i + k)).asString ∧
    (tokAt ts' k).pos = (tokAt ts (i + k)).pos - d ∧ (tokAt ts' k).end = (tokAt ts (i + k)).end - d
  eof : (tokAt ts' (j - i)).kind = .eof

theorem proj_congr {t u : Token} (h1 : t.kind = u.kind) (h2 : t.raw = u.raw) (h3 : t.asString = u.asString) :
    proj t = proj u := by
  simp [proj, tokVal, h1, h2, h3]

theorem isCastLike_congr {t u : Token} (h1 : t.kind = u.kind) (h2 : t.raw = u.raw) : isCastLike t = isCastLike u := by
  simp [isCastLike, Token.isKeywordLike, h1, h2]

theorem getElem?_tokAt {all : List Token} {k : Nat} (h : k < all.length) : all[k]? = some (tokAt all k) := by
  rw [tokAt_of_getElem? (List.getElem?_eq_getElem h)]; exact List.getElem?_eq_getElem h

/-- reading the same yield from another token list with the same projections -/
theorem Pre.transfer {all all' : List Token} {ys : List Tok'} {i i' : Nat} (h : Pre all i ys)
    (hlen : i' + ys.length ≤ all'.length)
    (hp : ∀ k, k < ys.length → proj (tokAt all' (i' + k)) = proj (tokAt all (i + k))) : Pre all' i' ys := by
  induction ys generalizing i i' with
  | nil => exact Pre_nil _ _
  | cons y ys ih =>
    obtain ⟨h1, h2⟩ := Pre_cons'.mp h
    refine Pre_cons'.mpr ⟨?_, ih h2 (by simp only [List.length_cons] at hlen; omega) ?_⟩
    · refine ⟨tokAt all' i', getElem?_tokAt (by simp only [List.length_cons] at hlen; omega), ?_⟩
      have := hp 0 (by simp)
      simp only [Nat.add_zero] at this
      rw [this]
      obtain ⟨t, ht, hy⟩ := h1
      rw [tokAt_of_getElem? ht]; exact hy
    · intro k hk
      have := hp (k + 1) (by simp only [List.length_cons]; omega)
      rwa [show i' + (k + 1) = i' + 1 + k by omega, show i + (k + 1) = i + 1 + k by omega] at this

theorem mem_take_tokAt {all : List Token} {n : Nat} {t : Token} (h : t ∈ all.take n) :
    ∃ k, k < n ∧ k < all.length ∧ t = tokAt all k := by
  obtain ⟨k, hk, rfl⟩ := List.getElem_of_mem h
  simp only [List.length_take] at hk
  refine ⟨k, by omega, by omega, ?_⟩
  rw [List.getElem_take]
  exact (tokAt_of_getElem? (List.getElem?_eq_getElem (by omega))).symm

/-- **C06, parser half.** -/
theorem exact_parse {ts ts' : List Token} {i d : Nat} {n : PExpr}
    (hn : placeG (pe ts) (erase n) i = (n, i + ntok (erase n))) (hpre : Pre ts i (yield (erase n)))
    (hnf : nf (erase n) = true) (hprec : precOK (erase n) = true)
    (hs : SliceToks ts i (i + ntok (erase n)) d ts')
    (hc : ∀ k, k < ntok (erase n) → isCastLike (tokAt ts (i + k)) = false) :
    ∃ N, ∀ fuel, N ≤ fuel → parsePTop fuel ts' = .ok (shiftP d n) := by
  have hji : i + ntok (erase n) - i = ntok (erase n) := by omega
  have hlen := hs.len; rw [hji] at hlen
  -- the new tokens read the same yield
  have hpre' : Pre ts' 0 (yield (erase n)) := by
    refine hpre.transfer (by rw [yield_length, hlen]; omega) ?_
    intro k hk
    rw [yield_length] at hk
    obtain ⟨a, b, c, _, _⟩ := hs.tok k (by omega)
    rw [Nat.zero_add]
    exact proj_congr a b c
  -- split `ts'` into the expression's tokens and `<eof>`
  have htake : (ts'.take (ntok (erase n))).map proj = yield (erase n) := by
    have := List.prefix_iff_eq_take.mp hpre'
    rw [List.drop_zero, yield_length] at this
    rw [this, List.map_take]
  have hrest : cur (ts'.drop (ntok (erase n))) = .eof := by
    have hlt : ntok (erase n) < ts'.length := by omega
    rw [List.drop_eq_getElem_cons hlt, cur_cons, ← tokAt_of_getElem? (List.getElem?_eq_getElem hlt)]
    have := hs.eof; rw [hji] at this
    rw [this]; rfl
  have hcast : ∀ t ∈ ts'.take (ntok (erase n)), isCastLike t = false := by
    intro t ht
    obtain ⟨k, hk1, _, rfl⟩ := mem_take_tokAt ht
    obtain ⟨a, b, _⟩ := hs.tok k (by omega)
    rw [isCastLike_congr a b]; exact hc k hk1
  obtain ⟨N, hN⟩ := parseExprTop_complete (e := erase n) hprec hnf htake hcast hrest
  rw [List.take_append_drop] at hN
  refine ⟨N, fun fuel hf => ?_⟩
  have h1 := hN fuel hf
  have h2 := parseExprTop_eq_erase fuel ts'
  rw [h1] at h2
  obtain ⟨e', he', hee⟩ := Res.map_eq_ok.mp h2.symm
  rw [he']
  congr 1
  -- positions of `e'`
  have hp' := he'
  unfold parsePTop at hp'
  obtain ⟨⟨e1, rest1⟩, hpe, h3⟩ := Res.bind_eq_ok.mp hp'
  have he1 : e1 = e' := by
    simp only at h3
    split at h3
    · simpa using h3
    · cases h3
  subst he1
  obtain ⟨j', hj', _⟩ := parsePExpr_placed (all := ts') (i := 0) (by simpa using hpe)
  rw [hee] at hj'
  have hsh : Sh d (pe ts) i (pe ts') 0 (ntok (erase n)) := by
    intro k hk
    obtain ⟨_, _, _, p1, p2⟩ := hs.tok k (by omega)
    simp only [pe, Nat.zero_add, p1, p2]
  have := placeG_shift (erase n) i 0 hsh
  rw [hj', hn] at this
  exact this

end MF.Expr
