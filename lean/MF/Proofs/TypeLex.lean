/-
  MF.Proofs.TypeLex — facts about the lexer model that the theorems on type positions need:
  the tokens `>` `>>` `<>` are 1, 2, 2 bytes long; an identifier token that does not start with a back quote is as
  long as its name (`End = Pos + len(AsString)`).
-/
import MF.Proofs.LexLocal
import MF.Proofs.LexAll
namespace MF.Lex

/-- what the type theorems need to know about one scanned token -/
structure ScanFacts (c : Option UInt8) (sc : Scan) : Prop where
  gt : sc.kind = K ">" → sc.len = 1
  lt : sc.kind = K "<" → sc.len = 1
  shr : sc.kind = K ">>" → sc.len = 2
  ltgt : sc.kind = K "<>" → sc.len = 2
  ident : sc.kind = .ident → c ≠ some 96 → sc.len = sc.asString.length

theorem reserved_ne_puncts : ∀ k ∈ reserved, k ≠ [62] ∧ k ≠ [60] ∧ k ≠ [62, 62] ∧ k ≠ [60, 62] := by decide

theorem K_vals4 : K ">" = .sym [62] ∧ K "<" = .sym [60] ∧ K ">>" = .sym [62, 62] ∧ K "<>" = .sym [60, 62] := by decide

theorem identTok_facts (R : Bytes) (c : Option UInt8) : ScanFacts c (identTok R) := by
  obtain ⟨k1, k2, k3, k4⟩ := K_vals4
  unfold identTok
  simp only
  split
  · rename_i hr
    have := reserved_ne_puncts _ (by simpa using hr)
    constructor <;> intro hk <;> simp only [k1, k2, k3, k4, TokKind.sym.injEq] at hk <;> simp_all
  · constructor <;> intro hk
    · cases hk
    · cases hk
    · cases hk
    · cases hk
    · intro _
      simp only [List.length_take]
      have := spanLen_le Char.isIdentPart R
      omega

theorem scanFacts_of_kind {c : Option UInt8} {sc : Scan}
    (h : sc.kind = .int ∨ sc.kind = .float ∨ sc.kind = .bad ∨ sc.kind = .string ∨ sc.kind = .bytes ∨ sc.kind = .param
      ∨ sc.kind = .eof) : ScanFacts c sc := by
  obtain ⟨k1, k2, k3, k4⟩ := K_vals4
  constructor <;> intro hk <;> rcases h with h | h | h | h | h | h | h <;> rw [h] at hk <;> simp [k1, k2, k3, k4] at hk

theorem fallbackTok_facts {R : Bytes} {c : UInt8} {p0 : Nat} {np : Bool} {sc : Scan} (o : Option UInt8)
    (h : fallbackTok R c p0 np = .ok sc) : ScanFacts o sc := by
  unfold fallbackTok at h
  split at h
  · cases h
    exact identTok_facts R o
  · split at h
    · cases h; exact scanFacts_of_kind (by simp)
    · cases h

theorem stringTok_facts {R : Bytes} {c : UInt8} {p0 : Nat} {np : Bool} {sc : Scan} (o : Option UInt8)
    (h : stringTok R c p0 np = .ok sc) : ScanFacts o sc := by
  unfold stringTok at h
  split at h
  · split at h
    · cases h
    · have := quotedTok_kind h
      apply scanFacts_of_kind
      rcases this.1 with h1 | h1
      · rw [h1]; split <;> simp
      · simp [h1]
  · exact fallbackTok_facts o h

theorem classify_bquote : ∀ c : UInt8, classify c = .bquote → c = 96 := by
  apply UInt8.forall_of_fin; decide +kernel

theorem classify_single_ne : ∀ c : UInt8, classify c = .single → c ≠ 62 ∧ c ≠ 60 := by
  apply UInt8.forall_of_fin; decide +kernel

theorem tokBody_facts {R : Bytes} {c : UInt8} {p0 : Nat} {lk : TokKind} {np : Bool} {sc : Scan}
    (h : tokBody R c p0 lk np = .ok sc) : ScanFacts (some c) sc := by
  obtain ⟨k1, k2, k3, k4⟩ := K_vals4
  unfold tokBody at h
  split at h
  · -- single
    rename_i hc
    cases h
    have hs : c ≠ 62 ∧ c ≠ 60 := classify_single_ne c hc
    constructor <;> intro hk <;> simp only [k1, k2, k3, k4, TokKind.sym.injEq] at hk
    · simp only [List.cons.injEq, and_true] at hk; exact absurd hk hs.1
    · simp only [List.cons.injEq, and_true] at hk; exact absurd hk hs.2
    · simp at hk
    · simp at hk
    · cases hk
  · -- dot
    split at h
    · have := consumeNumber_kind h
      apply scanFacts_of_kind
      rcases this.1 with h1 | h1 | h1 <;> simp [h1]
    · cases h
      constructor <;> intro hk <;> first | (exact absurd hk (by dsimp only; decide)) | cases hk
  all_goals first
    | exact stringTok_facts _ h
    | exact fallbackTok_facts _ h
    | (have := consumeNumber_kind h
       apply scanFacts_of_kind
       rcases this.1 with h1 | h1 | h1 <;> simp [h1])
    | (rename_i hc
       have hq := classify_bquote c hc
       have := quotedTok_kind h
       constructor <;> intro hk
       · rcases this.1 with h1 | h1 <;> rw [h1] at hk <;> cases hk
       · rcases this.1 with h1 | h1 <;> rw [h1] at hk <;> cases hk
       · rcases this.1 with h1 | h1 <;> rw [h1] at hk <;> cases hk
       · rcases this.1 with h1 | h1 <;> rw [h1] at hk <;> cases hk
       · intro hne; exact absurd (by rw [hq]) hne)
    | ((repeat' split at h) <;>
        (simp only [tok1, tok2, paramTok, Res.ok.injEq] at h
         subst h
         constructor <;> intro hk <;> first | rfl | (exact absurd hk (by dsimp only; decide)) | cases hk))

theorem consumeToken_facts {R : Bytes} {p0 : Nat} {lk : TokKind} {np : Bool} {sc : Scan}
    (h : consumeToken R p0 lk np = .ok sc) : ScanFacts R.head? sc := by
  cases R with
  | nil =>
    rw [consumeToken_nil] at h
    cases h
    exact scanFacts_of_kind (by simp)
  | cons c t =>
    rw [consumeToken_cons] at h
    exact tokBody_facts h

theorem consumeFieldToken_facts {R : Bytes} {p0 : Nat} {lk : TokKind} {np : Bool} {sc : Scan}
    (h : consumeFieldToken R p0 lk np = .ok sc) : ScanFacts R.head? sc := by
  unfold consumeFieldToken at h
  split at h
  · split at h
    · cases h
      rename_i c t _
      constructor <;> intro hk
      · cases hk
      · cases hk
      · cases hk
      · cases hk
      · intro _
        simp only [List.length_take]
        have := spanLen_le Char.isIdentPart (c :: t)
        omega
    · exact consumeToken_facts h
  · exact consumeToken_facts h

/-- the same facts for a token of the token list -/
structure TokFacts (t : Token) : Prop where
  gt : t.kind = K ">" → t.end = t.pos + 1
  lt : t.kind = K "<" → t.end = t.pos + 1
  shr : t.kind = K ">>" → t.end = t.pos + 2
  ltgt : t.kind = K "<>" → t.end = t.pos + 2
  ident : t.kind = .ident → t.raw.head? ≠ some 96 → t.end = t.pos + t.asString.length

theorem nextTokenCore_facts {buf : Bytes} {s s1 : State} (h : nextTokenCore buf false s = .ok s1) :
    TokFacts s1.tok := by
  rw [nextTokenCore_eq] at h
  split at h
  · cases h
  · cases h
  · rename_i pos comments space hasError htl
    have hne := triviaLoop_noErr htl
    subst hne
    simp only [Bool.false_eq_true, if_false] at h
    unfold afterTrivia at h
    simp only at h
    split at h
    · cases h
    · cases h
    · rename_i sc hsc
      split at h
      · cases h
      · rename_i raw hraw
        cases h
        have hf : ScanFacts (buf.drop pos).head? sc := by
          split at hsc
          · exact consumeFieldToken_facts hsc
          · exact consumeToken_facts hsc
        obtain ⟨r1, r2, r3⟩ := slice?_some hraw
        have hhead : sc.len ≠ 0 → raw.head? = (buf.drop pos).head? := by
          intro hl
          rw [r3]
          unfold slice
          cases hd : buf.drop pos with
          | nil => simp
          | cons c t =>
            have : pos + sc.len - pos = (sc.len - 1) + 1 := by omega
            rw [this]; rfl
        constructor <;> simp only
        · intro hk; rw [hf.gt hk]
        · intro hk; rw [hf.lt hk]
        · intro hk; rw [hf.shr hk]
        · intro hk; rw [hf.ltgt hk]
        · intro hk hq
          have hok : ScanOK (buf.drop pos) sc := by
            split at hsc
            · exact consumeFieldToken_ok hsc
            · exact consumeToken_ok hsc
          by_cases hl : sc.len = 0
          · have hnil : buf.drop pos = [] := by
              cases hd : buf.drop pos with
              | nil => rfl
              | cons c t => have := hok.pos (by rw [hd]; simp); omega
            rw [hf.ident hk (by rw [hnil]; simp)]
          · rw [hhead hl] at hq
            rw [hf.ident hk hq]

theorem steps_facts {buf : Bytes} {s : State} {l : List Token} (h : Steps buf s l) : ∀ t ∈ l, TokFacts t := by
  induction h with
  | last hn _ =>
    intro t ht
    simp only [List.mem_singleton] at ht
    subst ht
    exact nextTokenCore_facts (nextToken_ok_core hn)
  | cons hn _ _ ih =>
    intro t ht
    simp only [List.mem_cons] at ht
    rcases ht with rfl | ht
    · exact nextTokenCore_facts (nextToken_ok_core hn)
    · exact ih t ht

/-- every token of an accepted input has the stated lengths -/
theorem lexAll_facts {buf : Bytes} {ts : List Token} (h : lexAll buf = .ok ts) : ∀ t ∈ ts, TokFacts t :=
  steps_facts (lexAll_steps h)

end MF.Lex
