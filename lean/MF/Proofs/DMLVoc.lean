/-
  MF.Proofs.DMLVoc — the vocabulary of an expression yield: no token of class `other` (in particular no `;`, no
  reserved word outside the expression vocabulary) and no `<eof>`.  Hence the tokens of a sentence of G_DML contain
  neither `;` nor `<eof>` (`StmtD.free`): a statement never reaches over a statement terminator.

  This is the ONE place of the DML development that recurses over `Expr` (the C07 theorems do not expose the
  vocabulary of `yield`); a new constructor of `Expr` needs a new line here.
-/
import MF.Proofs.DMLComplete
import MF.Proofs.StmtList
namespace MF.DML
open MF MF.Expr

def vocOK (y : Tok') : Bool := y.k != .other && y.k != .eof

theorem all_append' {l1 l2 : List Tok'} (h1 : l1.all vocOK = true) (h2 : l2.all vocOK = true) : (l1 ++ l2).all vocOK = true := by
  simp [List.all_append, h1, h2]

theorem pathToks_voc : ∀ ns : List Bytes, (pathToks ns).all vocOK = true
  | [] => rfl
  | [_] => rfl
  | _ :: b :: rest => by
    have := pathToks_voc (b :: rest)
    simp only [pathToks, List.all_cons, this, Bool.and_true]
    rfl

theorem signToks_voc (s : Option Sign) : (signToks s).all vocOK = true := by
  cases s with
  | none => rfl
  | some s => cases s <;> rfl

theorem notToks_voc (b : Bool) : (notToks b).all vocOK = true := by cases b <;> rfl
theorem bopToks_voc (op : BOp) : op.toks.all vocOK = true := by cases op <;> rfl
theorem T_voc {k : TK} (h1 : k ≠ .other) (h2 : k ≠ .eof) : vocOK (T k) = true := by simp [vocOK, T, h1, h2]
theorem boolTK_voc (b : Bool) : vocOK (T (boolTK b)) = true := by cases b <;> rfl
theorem uop_voc (op : UOp) : vocOK (T op.tk) = true := by cases op <;> rfl

mutual
theorem yield_voc : ∀ e : Expr, (yield e).all vocOK = true
  | .null => rfl
  | .bool b => by simp [yield, boolTK_voc]
  | .int s raw => by simp only [yield]; exact all_append' (signToks_voc s) rfl
  | .float s raw => by simp only [yield]; exact all_append' (signToks_voc s) rfl
  | .str _ => rfl
  | .bytes _ => rfl
  | .param _ => rfl
  | .ident _ => rfl
  | .path ns => by simp only [yield]; exact pathToks_voc ns
  | .paren e => by
    simp only [yield, List.all_cons, List.all_append, yield_voc e]; rfl
  | .unary op e => by simp only [yield, List.all_cons, yield_voc e, uop_voc op]; rfl
  | .bin op l r => by simp only [yield, List.all_append, yield_voc l, yield_voc r, bopToks_voc op]; rfl
  | .isNull e n => by simp only [yield, List.all_append, List.all_cons, yield_voc e, notToks_voc n]; rfl
  | .isBool e n r => by simp only [yield, List.all_append, List.all_cons, yield_voc e, notToks_voc n, boolTK_voc r]; rfl
  | .between n e lo hi => by
    simp only [yield, List.all_append, List.all_cons, yield_voc e, yield_voc lo, yield_voc hi, notToks_voc n]; rfl
  | .inList n e f m => by
    simp only [yield, List.all_append, List.all_cons, yield_voc e, yield_voc f, yields_voc m, notToks_voc n]; rfl
  | .inUnnest n e a => by
    simp only [yield, List.all_append, List.all_cons, yield_voc e, yield_voc a, notToks_voc n]; rfl
  | .sel e _ => by simp only [yield, List.all_append, List.all_cons, yield_voc e]; rfl
  | .index e none i => by simp only [yield, List.all_append, List.all_cons, yield_voc e, yield_voc i]; rfl
  | .index e (some (_, _)) i => by simp only [yield, List.all_append, List.all_cons, yield_voc e, yield_voc i]; rfl
  | .caseE o c t ws el => by
    simp only [yield, List.all_append, List.all_cons, yield_voc c, yield_voc t, yieldW_voc ws, yieldO_voc [] rfl o,
      yieldO_voc [T .else_] rfl el]; rfl
  | .ifE c t e => by simp only [yield, List.all_append, List.all_cons, yield_voc c, yield_voc t, yield_voc e]; rfl
  | .array .nil => rfl
  | .array (.cons e es) => by simp only [yield, List.all_append, List.all_cons, yield_voc e, yields_voc es]; rfl
  | .cast e ns => by simp only [yield, List.all_append, List.all_cons, yield_voc e, pathToks_voc ns]; rfl
theorem yields_voc : ∀ es : Exprs, (yields es).all vocOK = true
  | .nil => rfl
  | .cons e es => by simp only [yields, List.all_append, List.all_cons, yield_voc e, yields_voc es]; rfl
theorem yieldW_voc : ∀ ws : Whens, (yieldW ws).all vocOK = true
  | .nil => rfl
  | .cons c t ws => by simp only [yieldW, List.all_append, List.all_cons, yield_voc c, yield_voc t, yieldW_voc ws]; rfl
theorem yieldO_voc (pre : List Tok') (hp : pre.all vocOK = true) : ∀ o : OExpr, (yieldO pre o).all vocOK = true
  | .none => rfl
  | .some e => by simp only [yieldO, List.all_append, hp, yield_voc e]; rfl
end

/-! ## a sentence of G_DML contains no `;` and no `<eof>` -/

open MF.Stmt (Free)

theorem free_nil : Free [] := fun _ h => (by cases h)
theorem free_cons {t : Token} {a : List Token} (ht : t.kind ≠ K ";" ∧ t.kind ≠ .eof) (ha : Free a) : Free (t :: a) := by
  intro x hx
  rcases List.mem_cons.1 hx with h | h
  · subst h; exact ht
  · exact ha x h
theorem free_append {a b : List Token} (ha : Free a) (hb : Free b) : Free (a ++ b) := by
  intro x hx
  rcases List.mem_append.1 hx with h | h
  · exact ha x h
  · exact hb x h

theorem ft_of_tk {t : Token} {k : TK} (h : tk t.kind = k) (h1 : k ≠ .other) (h2 : k ≠ .eof) :
    t.kind ≠ K ";" ∧ t.kind ≠ .eof := by
  constructor
  · intro he; rw [he] at h; exact h1 (h.symm.trans (by decide))
  · intro he; rw [he] at h; exact h2 (h.symm.trans (by decide))

theorem ft_of_kind {t : Token} {s : String} (h : t.kind = K s) (hs : K s ≠ K ";") : t.kind ≠ K ";" ∧ t.kind ≠ .eof := by
  rw [h]; exact ⟨hs, by simp [K]⟩

theorem ft_of_kw {t : Token} {s : String} (h : t.isKeywordLike (B s) = true) : t.kind ≠ K ";" ∧ t.kind ≠ .eof :=
  ft_of_tk (kwLike_ident h) (by decide) (by decide)

theorem ExprD.free {e : Expr} {pre : List Token} (h : ExprD e pre) : Free pre := by
  intro t ht
  have hv := yield_voc e
  rw [← h.2.2] at hv
  have := List.all_eq_true.1 hv (proj t) (List.mem_map_of_mem ht)
  simp only [vocOK, proj, Bool.and_eq_true, bne_iff_ne, ne_eq] at this
  exact ft_of_tk rfl this.1 this.2

theorem PathTailD.free {ids : List PIdent} {p : List Token} (h : PathTailD ids p) : Free p := by
  induction h with
  | nil => exact free_nil
  | cons hd ht _ ih => exact free_cons (ft_of_tk hd (by decide) (by decide)) (free_cons (ft_of_tk ht (by decide) (by decide)) ih)

theorem PathD.free {ids : List PIdent} {p : List Token} (h : PathD ids p) : Free p := by
  cases h with
  | mk ht htl => exact free_cons (ft_of_tk ht (by decide) (by decide)) htl.free

theorem IdListD.free {ids : List PIdent} {p : List Token} (h : IdListD ids p) : Free p := by
  induction h with
  | one ht => exact free_cons (ft_of_tk ht (by decide) (by decide)) free_nil
  | cons ht hc _ ih => exact free_cons (ft_of_tk ht (by decide) (by decide)) (free_cons (ft_of_tk hc (by decide) (by decide)) ih)

theorem ColsD.free {ids : List PIdent} {p : List Token} (h : ColsD ids p) : Free p := by
  cases h with
  | empty hl hr => exact free_cons (ft_of_tk hl (by decide) (by decide)) (free_cons (ft_of_tk hr (by decide) (by decide)) free_nil)
  | list hl hd hr =>
    exact free_cons (ft_of_tk hl (by decide) (by decide)) (free_append hd.free (free_cons (ft_of_tk hr (by decide) (by decide)) free_nil))

theorem DefaultD.free {d : DefaultExpr Expr} {p : List Token} (h : DefaultD d p) : Free p := by
  cases h with
  | dflt hk => exact free_cons (ft_of_kind hk (by decide)) free_nil
  | expr he => exact he.free

theorem EntriesD.free {ds : List (DefaultExpr Expr)} {p : List Token} (h : EntriesD ds p) : Free p := by
  induction h with
  | one hd => exact hd.free
  | cons hd hc _ ih => exact free_append hd.free (free_cons (ft_of_tk hc (by decide) (by decide)) ih)

theorem RowD.free {r : ValuesRow Expr} {p : List Token} (h : RowD r p) : Free p := by
  cases h with
  | empty hl hr => exact free_cons (ft_of_tk hl (by decide) (by decide)) (free_cons (ft_of_tk hr (by decide) (by decide)) free_nil)
  | list hl hd hr =>
    exact free_cons (ft_of_tk hl (by decide) (by decide)) (free_append hd.free (free_cons (ft_of_tk hr (by decide) (by decide)) free_nil))

theorem RowsD.free {rs : List (ValuesRow Expr)} {p : List Token} (h : RowsD rs p) : Free p := by
  induction h with
  | one hd => exact hd.free
  | cons hd hc _ ih => exact free_append hd.free (free_cons (ft_of_tk hc (by decide) (by decide)) ih)

theorem ItemD.free {u : UpdateItem Expr} {p : List Token} (h : ItemD u p) : Free p := by
  cases h with
  | mk hp he hd => exact free_append hp.free (free_cons (ft_of_tk he (by decide) (by decide)) hd.free)

theorem ItemsD.free {us : List (UpdateItem Expr)} {p : List Token} (h : ItemsD us p) : Free p := by
  induction h with
  | one hd => exact hd.free
  | cons hd hc _ ih => exact free_append hd.free (free_cons (ft_of_tk hc (by decide) (by decide)) ih)

theorem WhereD.free {w : Where Expr} {p : List Token} (h : WhereD w p) : Free p := by
  cases h with
  | mk ht he => exact free_cons (ft_of_kind ht (by decide)) he.free

theorem AliasD.free {a : Option AsAlias} {p : List Token} (h : AliasD a p) : Free p := by
  cases h with
  | none => exact free_nil
  | as_ ha ht => exact free_cons (ft_of_tk ha (by decide) (by decide)) (free_cons (ft_of_tk ht (by decide) (by decide)) free_nil)
  | bare ht => exact free_cons (ft_of_tk ht (by decide) (by decide)) free_nil

theorem OrD.free {o : InsertOrType} {p : List Token} (h : OrD o p) : Free p := by
  cases h with
  | none => exact free_nil
  | update ho hu => exact free_cons (ft_of_tk ho (by decide) (by decide)) (free_cons (ft_of_kw hu) free_nil)
  | ignore ho hu => exact free_cons (ft_of_tk ho (by decide) (by decide)) (free_cons (ft_of_kind hu (by decide)) free_nil)

theorem OptD.free {s : String} (hs : K s ≠ K ";") {p : List Token} (h : OptD s p) : Free p := by
  cases h with
  | none => exact free_nil
  | some ht => exact free_cons (ft_of_kind ht hs) free_nil

/-- a statement never reaches over a statement terminator -/
theorem StmtD.free {s : Stmt Expr} {pre : List Token} (h : StmtD s pre) : Free pre := by
  cases h with
  | insert hk ho hi hp hc hv hr =>
    exact free_cons (ft_of_kw hk) (free_append ho.free (free_append (hi.free (by decide)) (free_append hp.free
      (free_append hc.free (free_cons (ft_of_kw hv) hr.free)))))
  | delete hk hf hp ha hw =>
    exact free_cons (ft_of_kw hk) (free_append (hf.free (by decide)) (free_append hp.free (free_append ha.free hw.free)))
  | update hk hp ha hs hu hw =>
    exact free_cons (ft_of_kw hk) (free_append hp.free (free_append ha.free (free_cons (ft_of_kind hs (by decide))
      (free_append hu.free hw.free))))

end MF.DML
