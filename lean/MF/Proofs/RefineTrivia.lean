import MF.Proofs.RefineBasic
namespace MF.Refine
open MF MF.Lex MF.Spec.Lexical

/-! ### trivia -/

theorem skipSpaces_eq_whiteLen (f1 f2 : Nat) (s : Bytes) (h1 : s.length < f1) (h2 : s.length < f2) :
    skipSpaces f1 s = whiteLen f2 s := by
  induction f1 generalizing f2 s with
  | zero => omega
  | succ f1 ih =>
    cases f2 with
    | zero => omega
    | succ f2 =>
      cases s with
      | nil => unfold skipSpaces whiteLen; rfl
      | cons c t =>
        have hsz := (decodeRune_size (c :: t)).1
        have hpos := (decodeRune_size (c :: t)).2 (by simp)
        unfold skipSpaces whiteLen
        simp only [List.isEmpty_cons, Bool.false_eq_true, if_false]
        rw [isSpace_eq]
        have hd : decide ((Utf8.decodeRune (c :: t)).2 > 0) = true := by simpa using hpos
        simp only [hd, Bool.and_true]
        generalize Utf8.decodeRune (c :: t) = d at hsz hpos ⊢
        by_cases hw : isWhite d.1 = true
        · simp only [hw, if_true]
          congr 1
          apply ih
          · simp only [List.length_drop]; omega
          · simp only [List.length_drop]; omega
        · simp [hw]

theorem scanUntil_eq_findAfter (pat s : Bytes) : scanUntil pat s = findAfter pat s := by
  induction s with
  | nil => rfl
  | cons c t ih => simp only [scanUntil, findAfter, startsWith, ih]; rfl

theorem isLineCommentStart_eq (s : Bytes) :
    isLineCommentStart s = (startsWith s [35] || startsWith s [45, 45] || startsWith s [47, 47]) := by
  cases s with
  | nil => simp [isLineCommentStart, startsWith]
  | cons c t =>
    cases t with
    | nil =>
      simp [isLineCommentStart, startsWith]
    | cons d u =>
      simp [isLineCommentStart, startsWith]
      cases (c == 35) <;> cases (c == 47 && d == 47) <;> cases (c == 45 && d == 45) <;> rfl

theorem isBlockCommentStart_eq (s : Bytes) : isBlockCommentStart s = startsWith s [47, 42] := by
  cases s with
  | nil => simp [isBlockCommentStart, startsWith]
  | cons c t =>
    cases t with
    | nil => simp [isBlockCommentStart, startsWith]
    | cons d u => simp [isBlockCommentStart, startsWith]

/-- `skipComment` in panic mode against the reference `comment` -/
theorem skipComment_refines (s : Bytes) (p0 : Nat) :
    match skipComment s p0 false, comment s with
    | .ok (n, he), .none => n = 0 ∧ he = false
    | .ok (n, he), .len m => n = m ∧ he = false
    | .err _, .unclosed => True
    | _, _ => False := by
  unfold skipComment comment
  rw [isLineCommentStart_eq, isBlockCommentStart_eq, scanUntil_eq_findAfter, scanUntil_eq_findAfter]
  by_cases h1 : (startsWith s [35] || startsWith s [45, 45] || startsWith s [47, 47]) = true
  · simp only [h1, if_true]
    cases findAfter [10] s <;> simp
  · simp only [h1]
    by_cases h2 : startsWith s [47, 42] = true
    · simp only [h2, if_true]
      cases findAfter [42, 47] (s.drop 2) <;> simp
    · simp only [h2]; simp

theorem triviaLoop_refines (buf : Bytes) (fuel fuel' pos : Nat) (cs : List MF.Comment)
    (hp : pos ≤ buf.length) (hf : buf.length < fuel + pos) (hf' : buf.length < fuel' + pos) :
    match triviaLoop buf false fuel pos cs, triviaLen fuel' (buf.drop pos) with
    | .ok (pos', _, _, he), some w => pos' = pos + w ∧ he = false
    | .err _, none => True
    | _, _ => False := by
  induction fuel generalizing fuel' pos cs with
  | zero => omega
  | succ fuel ih =>
    cases fuel' with
    | zero => omega
    | succ fuel' =>
      have hsp := skipSpaces_le (buf.length + 1) (buf.drop pos)
      simp only [List.length_drop] at hsp
      have hw : skipSpaces (buf.length + 1) (buf.drop pos) = whiteLen ((buf.drop pos).length + 1) (buf.drop pos) :=
        skipSpaces_eq_whiteLen _ _ _ (by simp only [List.length_drop]; omega) (by omega)
      simp only [triviaLoop, triviaLen]
      rw [← hw]
      generalize skipSpaces (buf.length + 1) (buf.drop pos) = w at hsp
      rw [slice?_of_le (Nat.le_add_right _ _) (by omega)]
      simp only [List.drop_drop]
      have hsc := skipComment_refines (buf.drop (pos + w)) (pos + w)
      have hle := @skipComment_ok_le (buf.drop (pos + w)) (pos + w) false
      revert hsc hle
      cases skipComment (buf.drop (pos + w)) (pos + w) false with
      | crash => cases comment (buf.drop (pos + w)) <;> simp
      | err e => cases comment (buf.drop (pos + w)) <;> simp
      | ok r =>
        obtain ⟨n, he⟩ := r
        cases comment (buf.drop (pos + w)) with
        | unclosed => simp
        | none =>
          intro hsc _
          obtain ⟨rfl, rfl⟩ := hsc
          simp
        | len m =>
          intro hsc hle
          obtain ⟨rfl, rfl⟩ := hsc
          have hn := hle rfl
          simp only [List.length_drop] at hn
          by_cases hn0 : n = 0
          · subst hn0; simp
          · have hb : (n == 0) = false := by simpa using hn0
            simp only [hb, Bool.false_eq_true, if_false]
            rw [slice?_of_le (Nat.le_add_right _ _) (by omega)]
            simp only
            have := ih (fuel' := fuel') (pos := pos + w + n)
              (cs := cs ++ [{ space := slice buf pos (pos + w), raw := slice buf (pos + w) (pos + w + n),
                              pos := pos + w, «end» := pos + w + n }]) (by omega) (by omega) (by omega)
            revert this
            rw [show pos + (w + n) = pos + w + n by omega]
            cases triviaLoop buf false fuel (pos + w + n) _ with
            | crash => cases triviaLen fuel' (buf.drop (pos + w + n)) <;> simp
            | err e => cases triviaLen fuel' (buf.drop (pos + w + n)) <;> simp
            | ok r =>
              obtain ⟨p', cs', sp', he'⟩ := r
              cases triviaLen fuel' (buf.drop (pos + w + n)) with
              | none => simp
              | some w' =>
                simp only [Option.map_some]
                intro h; refine ⟨?_, h.2⟩; omega

end MF.Refine
