/-
  MF.Proofs.TriviaNumber — `consumeNumber` is determined by the bytes of the number and the class of the
  byte that follows it.
-/
import MF.Proofs.TriviaBytes
namespace MF.Props.C16
open MF MF.Lex

theorem wsLead_stop : ∀ w, wsLead w = true →
    Char.isDigit w = false ∧ Char.isHexDigit w = false ∧ w ≠ 46 ∧ w ≠ 69 ∧ w ≠ 101 := by
  apply UInt8.forall_of_fin; decide +kernel

theorem nonIdent_stop : ∀ c, Char.isIdentPart c = false →
    Char.isDigit c = false ∧ Char.isHexDigit c = false ∧ c ≠ 69 ∧ c ≠ 101 := by
  apply UInt8.forall_of_fin; decide +kernel

theorem digit_identPart : ∀ c, Char.isDigit c = true → Char.isIdentPart c = true := by
  apply UInt8.forall_of_fin; decide +kernel

theorem hexDigit_identPart : ∀ c, Char.isHexDigit c = true → Char.isIdentPart c = true := by
  apply UInt8.forall_of_fin; decide +kernel

theorem numberLoop_stop {rest : Bytes} {base f i : Nat} {a b : Bool} {d : UInt8} (hd : rest[i]? = some d)
    (h1 : Char.isDigit d = false) (h2 : Char.isHexDigit d = false)
    (h3 : (!b && a && base == 10 && d == 46) = false) (h4 : d ≠ 69) (h5 : d ≠ 101) :
    numberLoop rest base (f + 1) i a b = some (i, a) := by
  simp only [numberLoop, hd, h1, h2, h3, Bool.and_false, Bool.false_eq_true, if_false]
  have : (d == 69 || d == 101) = false := by simp [h4, h5]
  simp [this]

theorem numberLoop_dot {rest : Bytes} {base f i : Nat} {a b : Bool} {d : UInt8} (hd : rest[i]? = some d)
    (h1 : Char.isDigit d = false) (h2 : Char.isHexDigit d = false)
    (h3 : (!b && a && base == 10 && d == 46) = true) :
    numberLoop rest base (f + 1) i a b = numberLoop rest base f (i + 1) false b := by
  simp only [numberLoop, hd, h1, h2, h3, Bool.and_false, Bool.false_eq_true, if_false, if_true]

theorem numberLoop_sim {rest rest₂ : Bytes} {base n : Nat} {r : Bool}
    (hag : ∀ i, i < n → rest₂[i]? = rest[i]?) (hstop : ∀ c, rest[n]? = some c → Char.isIdentPart c = false)
    (hla : LA rest[n]? rest₂[n]?) (hn2 : n ≤ rest₂.length) :
    ∀ (fuel fuel₂ i : Nat) (a b : Bool), numberLoop rest base fuel i a b = some (n, r) → i ≤ rest.length →
      rest₂.length < fuel₂ + i → numberLoop rest₂ base fuel₂ i a b = some (n, r) := by
  intro fuel
  induction fuel with
  | zero => intro fuel₂ i a b h; simp [numberLoop] at h
  | succ fuel ih =>
    intro fuel₂ i a b h hi hf
    have hb := numberLoop_bound h hi
    cases fuel₂ with
    | zero => omega
    | succ f₂ =>
      by_cases hin : i < n
      · have e := hag i hin
        simp only [numberLoop] at h ⊢
        rw [e]
        cases hc : rest[i]? with
        | none => rw [hc] at h; simp at h; omega
        | some c =>
          have hlt := getElem?_some_lt hc
          rw [hc] at h
          simp only at h ⊢
          split at h
          · rename_i c1
            rw [if_pos c1]
            exact ih _ _ _ _ h (by omega) (by omega)
          · rename_i c1
            rw [if_neg c1]
            split at h
            · rename_i c2
              rw [if_pos c2]
              exact ih _ _ _ _ h (by omega) (by omega)
            · rename_i c2
              rw [if_neg c2]
              split at h
              · rename_i c3
                rw [if_pos c3]
                exact ih _ _ _ _ h (by omega) (by omega)
              · rename_i c3
                rw [if_neg c3]
                split at h
                · rename_i c4
                  rw [if_pos c4]
                  generalize hi2 : (if (rest[i + 1]? == some 43 || rest[i + 1]? == some 45) = true then i + 1 + 1 else i + 1) = i2 at h
                  have hi2le : i + 1 ≤ i2 := by rw [← hi2]; split <;> omega
                  have hi2le' : i2 ≤ i + 2 := by rw [← hi2]; split <;> omega
                  cases hd2 : rest[i2]? with
                  | none => rw [hd2] at h; simp at h; omega
                  | some d =>
                    rw [hd2] at h
                    simp only at h
                    split at h
                    · rename_i hdig
                      have hlt2 := getElem?_some_lt hd2
                      have hb2 := numberLoop_bound h (by omega)
                      have hne : i2 ≠ n := by
                        intro e2
                        rw [e2] at hd2
                        have := hstop d hd2
                        rw [digit_identPart d hdig] at this
                        cases this
                      rw [hag (i + 1) (by omega), hi2, hag i2 (by omega), hd2]
                      simp only
                      rw [if_pos hdig]
                      exact ih _ _ _ _ h (by omega) (by omega)
                    · simp at h; omega
                · simp at h; omega
      · have hin' : i = n := by omega
        subst hin'
        cases hc : rest[i]? with
        | none =>
          simp [numberLoop, hc] at h
          subst h
          rw [hc] at hla
          cases hy : rest₂[i]? with
          | none => simp [numberLoop, hy]
          | some w =>
            rw [hy] at hla
            cases hla with
            | ws hw =>
              obtain ⟨w1, w2, w3, w4, w5⟩ := wsLead_stop w hw
              exact numberLoop_stop hy w1 w2 (by simp [w3]) w4 w5
        | some c =>
          have hlt := getElem?_some_lt hc
          obtain ⟨s1, s2, s4, s5⟩ := nonIdent_stop c (hstop c hc)
          by_cases hdot : (!b && a && base == 10 && c == 46) = true
          · rw [numberLoop_dot hc s1 s2 hdot] at h
            have := numberLoop_bound h (by omega)
            omega
          · have hdot' : (!b && a && base == 10 && c == 46) = false := by simpa using hdot
            rw [numberLoop_stop hc s1 s2 hdot' s4 s5] at h
            simp at h; subst h
            rw [hc] at hla
            cases hy : rest₂[i]? with
            | none => rw [hy] at hla; cases hla
            | some w =>
              rw [hy] at hla
              cases hla with
              | ceq he =>
                have := nonIdent_ceq c (hstop c hc) w he
                subst this
                exact numberLoop_stop hy s1 s2 hdot' s4 s5
              | ws hw =>
                obtain ⟨w1, w2, w3, w4, w5⟩ := wsLead_stop w hw
                exact numberLoop_stop hy w1 w2 (by simp [w3]) w4 w5

theorem isHexPrefix_eq (rest : Bytes) : isHexPrefix rest =
    (peekSat rest 0 (fun c => c == 48) && peekSat rest 1 (fun c => c == 120 || c == 88) &&
      peekSat rest 2 Char.isHexDigit) := by
  unfold isHexPrefix peekSat
  cases rest[0]? <;> cases rest[1]? <;> simp

theorem peekSat_imp {a : Bytes} {i : Nat} {Q P : UInt8 → Bool} (himp : ∀ c, Q c = true → P c = true)
    (h : peekSat a i Q = true) : peekSat a i P = true := by
  unfold peekSat at h ⊢
  cases hc : a[i]? with
  | none => rw [hc] at h; cases h
  | some c => rw [hc] at h; exact himp c h

theorem peekSat_exact {n : Nat} {a b : Bytes} (hex : b.take n = a.take n) {i : Nat} (hi : i < n)
    (P : UInt8 → Bool) : peekSat b i P = peekSat a i P := by
  unfold peekSat
  rw [take_eq_get hex hi]

theorem zero_identPart : ∀ c : UInt8, (c == 48) = true → Char.isIdentPart c = true := by
  apply UInt8.forall_of_fin; decide +kernel

theorem xX_identPart : ∀ c : UInt8, (c == 120 || c == 88) = true → Char.isIdentPart c = true := by
  apply UInt8.forall_of_fin; decide +kernel

theorem consumeNumber_sim {rest rest₂ : Bytes} {p p₂ : Nat} {sc : Scan}
    (h : consumeNumber rest p false = .ok sc) (hs : ISim sc.len rest rest₂)
    (hex : (sc.kind = .int ∨ sc.kind = .float) → rest₂.take sc.len = rest.take sc.len) :
    consumeNumber rest₂ p₂ false = .ok sc ∧ (sc.kind = .int ∨ sc.kind = .float) ∧
      (∀ c, rest[sc.len]? = some c → Char.isIdentPart c = false) := by
  unfold consumeNumber at h
  simp only at h
  split at h
  · cases h
  · rename_i n r hnl
    have hi0 : (if isHexPrefix rest = true then 2 else 0) ≤ rest.length := by
      split
      · rename_i hh
        have := isHexPrefix_len hh
        omega
      · omega
    have hb := numberLoop_bound hnl hi0
    have hfacts : (∀ c, rest[n]? = some c → Char.isIdentPart c = false) ∧
        sc = (if r = true then { kind := .int, len := n, base := if isHexPrefix rest = true then 16 else 10 }
              else { kind := .float, len := n }) := by
      split at h
      · rename_i c hc
        split at h
        · simp at h
        · rename_i hnp
          cases h
          refine ⟨?_, rfl⟩
          intro c' hc'
          rw [hc] at hc'; cases hc'
          simpa using hnp
      · rename_i hc
        cases h
        exact ⟨fun c hc' => (by rw [hc] at hc'; cases hc'), rfl⟩
    obtain ⟨hstop, hsc⟩ := hfacts
    have hlen : sc.len = n := by rw [hsc]; split <;> rfl
    have hkind : sc.kind = .int ∨ sc.kind = .float := by rw [hsc]; split <;> simp
    have hex := hex hkind
    rw [hlen] at hs hex
    have hpn : peekSat rest n Char.isIdentPart = false := by
      unfold peekSat
      cases hc : rest[n]? with
      | none => rfl
      | some c => exact hstop c hc
    have hpn2 := hs.peekSat_false term_identPart (Nat.le_refl _) hpn
    have hhex : isHexPrefix rest₂ = isHexPrefix rest := by
      cases hh : isHexPrefix rest with
      | true =>
        rw [hh] at hnl hb
        simp only [if_true] at hnl hb
        rw [isHexPrefix_eq] at hh ⊢
        simp only [Bool.and_eq_true] at hh ⊢
        have hn3 : 3 ≤ n := by
          rcases Nat.lt_or_ge n 3 with h3 | h3
          · have : n = 2 := by omega
            subst this
            have := peekSat_imp hexDigit_identPart hh.2
            rw [hpn] at this; cases this
          · exact h3
        rw [peekSat_exact hex (by omega), peekSat_exact hex (by omega), peekSat_exact hex (by omega)]
        exact hh
      | false =>
        cases hh2 : isHexPrefix rest₂ with
        | false => rfl
        | true =>
          exfalso
          rw [isHexPrefix_eq] at hh hh2
          simp only [Bool.and_eq_true] at hh2
          rcases Nat.lt_or_ge n 3 with h3 | h3
          · have hcases : n = 0 ∨ n = 1 ∨ n = 2 := by omega
            rcases hcases with rfl | rfl | rfl
            · have := peekSat_imp zero_identPart hh2.1.1
              rw [hpn2] at this; cases this
            · have := peekSat_imp xX_identPart hh2.1.2
              rw [hpn2] at this; cases this
            · have := peekSat_imp hexDigit_identPart hh2.2
              rw [hpn2] at this; cases this
          · rw [← peekSat_exact hex (show 0 < n by omega), ← peekSat_exact hex (show 1 < n by omega),
              ← peekSat_exact hex (show 2 < n by omega), hh2.1.1, hh2.1.2, hh2.2] at hh
            cases hh
    have hn2 := hs.len.2
    have hi02 : (if isHexPrefix rest = true then 2 else 0) ≤ n := hb.1
    have hnl2 := numberLoop_sim (fun i hi => take_eq_get hex hi) hstop hs.la hn2 _ (rest₂.length + 1) _ _ _ hnl hi0
      (by omega)
    refine ⟨?_, hkind, by rw [hlen]; exact hstop⟩
    unfold consumeNumber
    simp only
    rw [hhex, hnl2]
    simp only
    cases hc2 : rest₂[n]? with
    | none => simp only; rw [hsc]
    | some d =>
      have hd : Char.isIdentPart d = false := by
        unfold peekSat at hpn2
        rw [hc2] at hpn2
        exact hpn2
      simp only [hd, Bool.false_eq_true, if_false]
      rw [hsc]

end MF.Props.C16
