/-
  MF.Proofs.NodeLits — what the lock-step pass `sitesZip` means in terms of `requiredFields` / `nonEmptyFields`
  (the by-name tables of MF/Model/Required.lean), given that the kind names of the catalogue are distinct.
-/
import MF.Model.NodeLits
namespace MF.NodeLits
open MF.Ast

theorem sitesZip_spec (F : Facts) (A : List Assumed) :
    ∀ (ks : List KindDecl) (rs : List (String × SqlBody)) (ps : List (String × GoPos × GoPos)) (gs : List KindSites),
      sitesZip F A ks rs ps gs = true → (ks.map (·.name)).Nodup →
      ∀ g ∈ gs, g.kind ∈ ks.map (·.name) ∧
        ∃ b pe ee, rs.lookup g.kind = some b ∧ ps.lookup g.kind = some (pe, ee) ∧
          g.sites.all (siteOK F A g.kind (b.required ++ (pe.derefs ++ ee.derefs)).eraseDups b.nonEmpty.eraseDups) = true
  | [], [], [], [], _, _, g, hg => by cases hg
  | [], [], [], _ :: _, h, _, _, _ => by simp [sitesZip] at h
  | [], [], _ :: _, _, h, _, _, _ => by simp [sitesZip] at h
  | [], _ :: _, _, _, h, _, _, _ => by simp [sitesZip] at h
  | _ :: _, [], _, _, h, _, _, _ => by simp [sitesZip] at h
  | _ :: _, _ :: _, [], _, h, _, _, _ => by simp [sitesZip] at h
  | _ :: _, _ :: _, _ :: _, [], h, _, _, _ => by simp [sitesZip] at h
  | k :: ks, (name, b) :: rs, (pname, pe, ee) :: ps, g0 :: gs, h, hnd, g, hg => by
    simp only [sitesZip, Bool.and_eq_true, beq_iff_eq] at h
    obtain ⟨⟨⟨⟨hn, hp⟩, hk⟩, hs⟩, hrest⟩ := h
    simp only [List.map_cons, List.nodup_cons] at hnd
    rcases List.mem_cons.mp hg with hg | hg
    · subst hg
      refine ⟨by simp [hk], b, pe, ee, ?_, ?_, hs⟩
      · rw [List.lookup_cons, hk, hn]; simp
      · rw [List.lookup_cons, hk, hp]; simp
    · obtain ⟨hmem, b', pe', ee', hb, hpe, hall⟩ := sitesZip_spec F A ks rs ps gs hrest hnd.2 g hg
      have hne : g.kind ≠ k.name := fun e => hnd.1 (e ▸ hmem)
      refine ⟨List.mem_cons_of_mem _ hmem, b', pe', ee', ?_, ?_, hall⟩
      · rw [List.lookup_cons]
        have : (g.kind == name) = false := by rw [hn]; simpa using hne
        rw [this]; exact hb
      · rw [List.lookup_cons]
        have : (g.kind == pname) = false := by rw [hp]; simpa using hne
        rw [this]; exact hpe

/-- **the static condition, by name**: at every literal site of kind `K`, every field of `requiredFields K` is provably
    never nil (or the site is assumed), every field of `nonEmptyFields K` comes from an identifier token (or is assumed);
    the claimed never-nil sets are consistent; no mutation puts a possibly-nil value into a required field -/
theorem sitesOK_spec (F : Facts) (T : SqlTables) (P : PosTables) (A : List Assumed)
    (h : sitesOK F T P A = true) (hnd : (T.kinds.map (·.name)).Nodup) :
    F.failures = [] ∧ consistent F = true ∧
    (∀ g ∈ F.kindSites, ∀ s ∈ g.sites,
      (∀ f ∈ requiredFields T P g.kind, fieldOK F A g.kind s f = true) ∧
      (∀ f ∈ nonEmptyFields T g.kind, strOK A g.kind s f = true)) ∧
    (∀ m ∈ F.mutations, mutationOK F A T.bodies m = true) ∧
    (∀ a ∈ A, assumedUsed F a = true) := by
  simp only [sitesOK, Bool.and_eq_true, List.isEmpty_iff, List.all_eq_true] at h
  obtain ⟨⟨⟨⟨hf, hc⟩, hz⟩, hm⟩, ha⟩ := h
  refine ⟨hf, hc, ?_, hm, ha⟩
  intro g hg s hs
  obtain ⟨_, b, pe, ee, hb, hp, hall⟩ := sitesZip_spec F A _ _ _ _ hz hnd g hg
  have hsite := List.all_eq_true.mp hall s hs
  simp only [siteOK, Bool.and_eq_true, List.all_eq_true] at hsite
  constructor
  · intro f hf'
    apply hsite.1
    simpa [requiredFields, posRequired, hb, hp] using hf'
  · intro f hf'
    apply hsite.2
    simpa [nonEmptyFields, hb] using hf'

end MF.NodeLits
