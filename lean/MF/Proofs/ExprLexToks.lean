/-
  MF.Proofs.ExprLexToks — the tokens of the expression printer, in context, at the level of the projection
  `proj : Token → Tok'` of C07: keyword, identifier (`Ident.SQL()`, quoted or not, in either lexer mode),
  parameter, numeric literal, string / bytes literal, punctuation and operators.  Each lemma is a one-token run
  `PRun (blanks ++ text ++ X) lk d [tok] X lk' d'` for an arbitrary suffix `X` whose first byte satisfies the
  stated junction condition.
-/
import MF.Proofs.LexQuoteCtx
import MF.Proofs.LexNumCtx
import MF.Spec.PrintToks
set_option linter.unusedSimpArgs false
namespace MF.Expr
open MF MF.Lex MF.Spec.Lexical MF.Concat

/-- the C07 projection of a token record -/
def projR (r : TRec) : Tok' :=
  ⟨tk r.kind, match tk r.kind with
    | .ident | .param | .string | .bytes => r.value
    | .int | .float => r.raw
    | _ => []⟩

theorem proj_eq_projR (t : Token) : proj t = projR (trec t) := rfl

theorem projR_eof : projR eofRec = T .eof := rfl

/-- a run of the lexer, tokens seen through the projection -/
def PRun (R : Bytes) (lk : TokKind) (d : Bool) (toks : List Tok') (R' : Bytes) (lk' : TokKind) (d' : Bool) : Prop :=
  ∃ l, SRun R lk d l R' lk' d' ∧ l.map projR = toks

theorem PRun.nil (R : Bytes) (lk : TokKind) (d : Bool) : PRun R lk d [] R lk d := ⟨[], SRun.nil R lk d, rfl⟩

theorem PRun.append {R : Bytes} {lk : TokKind} {d : Bool} {l1 : List Tok'} {R1 : Bytes} {lk1 : TokKind} {d1 : Bool}
    {l2 : List Tok'} {R2 : Bytes} {lk2 : TokKind} {d2 : Bool}
    (h1 : PRun R lk d l1 R1 lk1 d1) (h2 : PRun R1 lk1 d1 l2 R2 lk2 d2) : PRun R lk d (l1 ++ l2) R2 lk2 d2 := by
  obtain ⟨a, ha, rfl⟩ := h1
  obtain ⟨b, hb, rfl⟩ := h2
  exact ⟨a ++ b, ha.append hb, by simp⟩

/-- one token, preceded by `k` blanks and followed by `X` -/
theorem prun_tok {w X : Bytes} (hnt : NoTrivia (w ++ X)) (k : Nat) {lk : TokKind} {d : Bool} {t : STok}
    (ht : token (w ++ X) lk d = some t) (hl : t.len = w.length) (hk : t.kind ≠ .eof) :
    PRun (List.replicate k 32 ++ (w ++ X)) lk d [projR ⟨t.kind, w, t.value, t.base⟩] X t.kind (dotAfter lk d t) := by
  have := SRun.tok1 hnt k ht hk
  rw [hl, List.drop_left] at this
  refine ⟨_, this, ?_⟩
  simp only [List.map_cons, List.map_nil, srec, hl, List.take_left]

/-! ## follow classes -/

/-- what may directly follow the text of an expression: end of input, blank, `)`, `]`, `,`, `[` -/
def folB (X : Bytes) : Bool :=
  match X with
  | [] => true
  | c :: _ => c == 32 || c == 41 || c == 93 || c == 44 || c == 91

/-- the suffix starts with `.` -/
def folDot (X : Bytes) : Bool :=
  match X with
  | c :: _ => c == 46
  | [] => false

theorem folB_byte : ∀ c : UInt8, (c == 32 || c == 41 || c == 93 || c == 44 || c == 91) = true →
    isIdentChar c = false ∧ isQuote c = false ∧ (c == 46) = false ∧ isDigit c = false := by
  apply UInt8.forall_of_fin; decide +kernel

theorem folB_facts {X : Bytes} (h : folB X = true) :
    headSat isIdentChar X = false ∧ headSat isQuote X = false ∧ headSat (· == 46) X = false := by
  cases X with
  | nil => simp
  | cons c t =>
    obtain ⟨a, b, c', _⟩ := folB_byte c h
    exact ⟨a, b, c'⟩

theorem folDot_facts {X : Bytes} (h : folDot X = true) :
    headSat isIdentChar X = false ∧ headSat isQuote X = false := by
  cases X with
  | nil => simp
  | cons c t =>
    have : c = 46 := by simpa [folDot] using h
    subst this
    exact ⟨by simp only [headSat_cons]; decide, by simp only [headSat_cons]; decide⟩

theorem fol_facts {X : Bytes} (h : folB X = true ∨ folDot X = true) :
    headSat isIdentChar X = false ∧ headSat isQuote X = false := by
  rcases h with h | h
  · exact ⟨(folB_facts h).1, (folB_facts h).2.1⟩
  · exact folDot_facts h

/-! ## classes of symbols -/

theorem symTable_noval : ∀ p ∈ symTable, p.2 ≠ .ident ∧ p.2 ≠ .param ∧ p.2 ≠ .string ∧ p.2 ≠ .bytes ∧
    p.2 ≠ .int ∧ p.2 ≠ .float := by decide

theorem symTK_noval (s : Bytes) : symTK s ≠ .ident ∧ symTK s ≠ .param ∧ symTK s ≠ .string ∧ symTK s ≠ .bytes ∧
    symTK s ≠ .int ∧ symTK s ≠ .float := by
  unfold symTK
  cases h : symTable.find? (fun p => B p.1 == s) with
  | none => simp
  | some p => exact symTable_noval p (List.mem_of_find?_eq_some h)

/-- a keyword / punctuation token projects to its class, without value -/
theorem projR_sym (s raw v : Bytes) (b : Nat) : projR ⟨.sym s, raw, v, b⟩ = T (symTK s) := by
  obtain ⟨h1, h2, h3, h4, h5, h6⟩ := symTK_noval s
  simp only [projR, tk, T, Tok'.mk.injEq, true_and]

theorem dotAfter_sym {s : Bytes} (hs : s ≠ [46]) (lk : TokKind) (d : Bool) (len : Nat) (v : Bytes) (b : Nat) :
    dotAfter lk d { kind := .sym s, len := len, value := v, base := b } = false := by
  simp [dotAfter, hs]

theorem dotAfter_nosym {k : TokKind} (hk : ∀ s, k ≠ .sym s) (lk : TokKind) (d : Bool) (len : Nat) (v : Bytes)
    (b : Nat) : dotAfter lk d { kind := k, len := len, value := v, base := b } = false := by
  cases k <;> simp [dotAfter]
  rename_i s
  exact absurd rfl (hk s)

/-! ## keywords -/

/-- `w` is a reserved word spelled in upper case -/
def kwOK (w : Bytes) : Bool :=
  match w with
  | c :: n => isLetter c && n.all isIdentChar && reserved.contains w && (w.map upper == w)
  | [] => false

theorem prun_kw (w : Bytes) (hw : kwOK w = true) (k : Nat) (lk : TokKind) {X : Bytes}
    (hX : headSat isIdentChar X = false) (hQ : headSat isQuote X = false) :
    PRun (List.replicate k 32 ++ (w ++ X)) lk false [T (symTK w)] X (.sym w) false := by
  match w, hw with
  | c :: n, hw =>
    simp only [kwOK, Bool.and_eq_true, beq_iff_eq] at hw
    obtain ⟨⟨⟨hc, hall⟩, hres⟩, hup⟩ := hw
    have ht := token_word hc hall hX hQ lk
    rw [hup, if_pos hres] at ht
    obtain ⟨_, _, _, _, _, _, g1, g2, g3, g4, g5⟩ := letter_facts c hc
    have hnt : NoTrivia ((c :: n) ++ X) := noTrivia_of_head _ g1 g2 g3 g4 g5
    have := prun_tok hnt k ht rfl (by simp)
    rw [projR_sym, dotAfter_sym] at this
    · exact this
    · intro h
      rw [h] at hres
      exact absurd hres (by decide +kernel)

/-! ## identifiers: `Ident.SQL()` -/

/-- `Ident.SQL()` of a non-empty name, in either lexer mode, followed by a byte that is neither an identifier
character nor a quote -/
theorem prun_ident (n : Bytes) (hn : n ≠ []) (k : Nat) (lk : TokKind) (d : Bool) {X : Bytes}
    (hX : headSat isIdentChar X = false) (hQ : headSat isQuote X = false) :
    PRun (List.replicate k 32 ++ (identSQL n ++ X)) lk d [⟨.ident, n⟩] X .ident false := by
  match n, hn with
  | c :: t, _ =>
    unfold identSQL Quote.quoteIdent Quote.needQuoteIdent
    by_cases hkw : isKeyword (c :: t) = true
    · -- a keyword: back-quoted
      simp only [hkw, if_true, Option.getD_some]
      have hct := consumeToken_bquote_ctx asciiPrint (c :: t) (by simp) lk X
      have ht := token_of_consume hct
      simp only at ht
      have ht' : token ([96] ++ Quote.quoteStringContent asciiPrint 96 ((c :: t).length + 1) (c :: t) ++ [96] ++ X) lk d =
          some { kind := .ident, len := ([96] ++ Quote.quoteStringContent asciiPrint 96 ((c :: t).length + 1) (c :: t) ++ [96]).length,
                 value := c :: t, base := 0 } := by
        cases d with
        | false => exact ht
        | true =>
          rw [← ht]
          simp only [List.cons_append, List.nil_append]
          exact token_field_eq _ lk (by decide)
      have hnt : NoTrivia ([96] ++ Quote.quoteStringContent asciiPrint 96 ((c :: t).length + 1) (c :: t) ++ [96] ++ X) :=
        noTrivia_of_head _ (by decide) (by decide +kernel) (by decide) (by decide) (by decide)
      have := prun_tok hnt k ht' rfl (by simp)
      rw [dotAfter_nosym (by simp)] at this
      exact this
    · have hkw' : isKeyword (c :: t) = false := by simpa using hkw
      simp only [hkw', Bool.false_eq_true, if_false]
      by_cases hq : (!Char.isIdentStart c || !(c :: t).all Char.isIdentPart) = true
      · -- not identifier-shaped: back-quoted
        simp only [hq, Option.getD_some]
        have hct := consumeToken_bquote_ctx asciiPrint (c :: t) (by simp) lk X
        have ht := token_of_consume hct
        simp only at ht
        have ht' : token ([96] ++ Quote.quoteStringContent asciiPrint 96 ((c :: t).length + 1) (c :: t) ++ [96] ++ X) lk d =
            some { kind := .ident, len := ([96] ++ Quote.quoteStringContent asciiPrint 96 ((c :: t).length + 1) (c :: t) ++ [96]).length,
                   value := c :: t, base := 0 } := by
          cases d with
          | false => exact ht
          | true =>
            rw [← ht]
            simp only [List.cons_append, List.nil_append]
            exact token_field_eq _ lk (by decide)
        have hnt : NoTrivia ([96] ++ Quote.quoteStringContent asciiPrint 96 ((c :: t).length + 1) (c :: t) ++ [96] ++ X) :=
          noTrivia_of_head _ (by decide) (by decide +kernel) (by decide) (by decide) (by decide)
        have := prun_tok hnt k ht' rfl (by simp)
        rw [dotAfter_nosym (by simp)] at this
        exact this
      · -- a plain identifier
        have hq' : (!Char.isIdentStart c || !(c :: t).all Char.isIdentPart) = false := by simpa using hq
        simp only [hq', Option.getD_some]
        simp only [Bool.or_eq_false_iff, Bool.not_eq_false', List.all_cons, Bool.and_eq_true] at hq'
        obtain ⟨hc, _, hall⟩ := hq'
        rw [MF.Refine.isIdentStart_eq] at hc
        rw [MF.Refine.isIdentPart_eq] at hall
        obtain ⟨_, _, _, _, _, f6, g1, g2, g3, g4, g5⟩ := letter_facts c hc
        have hnt : NoTrivia ((c :: t) ++ X) := noTrivia_of_head _ g1 g2 g3 g4 g5
        have hres : reserved.contains ((c :: t).map upper) = false := by
          rw [← MF.Refine.toUpper_eq]; exact hkw'
        have ht : token ((c :: t) ++ X) lk d = some { kind := .ident, len := (c :: t).length, value := c :: t } := by
          cases d with
          | false =>
            have := token_word hc hall hX hQ lk
            rw [hres] at this
            simpa using this
          | true => exact token_field f6 hall hX lk
        have := prun_tok hnt k ht rfl (by simp)
        rw [dotAfter_nosym (by simp)] at this
        exact this

/-! ## parameters -/

/-- a parameter name as the lexer produces it: a letter or `_`, then identifier characters -/
def paramOK (n : Bytes) : Bool :=
  match n with
  | c :: t => isLetter c && t.all isIdentChar
  | [] => false

theorem prun_param (n : Bytes) (hn : paramOK n = true) (k : Nat) (lk : TokKind) (d : Bool) {X : Bytes}
    (hX : headSat isIdentChar X = false) :
    PRun (List.replicate k 32 ++ ((64 :: n) ++ X)) lk d [⟨.param, n⟩] X .param false := by
  match n, hn with
  | c :: t, hn =>
    simp only [paramOK, Bool.and_eq_true] at hn
    have ht := token_param hn.1 hn.2 hX lk d
    have hnt : NoTrivia ((64 :: c :: t) ++ X) :=
      noTrivia_of_head _ (by decide) (by decide +kernel) (by decide) (by decide) (by decide)
    have := prun_tok hnt k (w := 64 :: c :: t) ht (by simp) (by simp)
    rw [dotAfter_nosym (by simp)] at this
    exact this

/-! ## numeric literals -/

/-- `raw` is, alone, exactly one numeric literal: an integer (`isInt`) or a floating-point literal -/
def numOK (isInt : Bool) (raw : Bytes) : Bool :=
  numStart raw && ((number raw).2 == raw.length) && (((number raw).1 == .float) != isInt)

theorem numStart_noTrivia {raw : Bytes} (h : numStart raw = true) (X : Bytes) : NoTrivia (raw ++ X) := by
  match raw, h with
  | c :: t, h =>
    simp only [numStart, Bool.or_eq_true, Bool.and_eq_true, beq_iff_eq] at h
    rcases h with hd | ⟨rfl, _⟩
    · obtain ⟨_, _, _, _, g1, g2, g3, g4, g5, _⟩ := digit_facts c hd
      exact noTrivia_of_head _ g1 g2 g3 g4 g5
    · exact noTrivia_of_head _ (by decide) (by decide +kernel) (by decide) (by decide) (by decide)

theorem numStart_head {raw : Bytes} (h : numStart raw = true) :
    ∃ c t, raw = c :: t ∧ (isDigit c = true ∨ c = 46) := by
  match raw, h with
  | c :: t, h =>
    simp only [numStart, Bool.or_eq_true, Bool.and_eq_true, beq_iff_eq] at h
    exact ⟨c, t, rfl, h.imp id (·.1)⟩

theorem prun_int (raw : Bytes) (h : numOK true raw = true) (k : Nat) (lk : TokKind) {X : Bytes}
    (hX : headSat isIdentChar X = false) (hdot : headSat (· == 46) X = false) :
    ∃ lk', PRun (List.replicate k 32 ++ (raw ++ X)) lk false [⟨.int, raw⟩] X lk' false ∧ dotEnables lk' = false := by
  simp only [numOK, Bool.and_eq_true, beq_iff_eq, bne_iff_ne, ne_eq] at h
  obtain ⟨⟨hs, hlen⟩, hk⟩ := h
  have hk' : ((number raw).1 == NumKind.float) = false := by simpa using hk
  have hl46 : headSat (· == 46) raw = false := by
    -- an integer literal does not start with `.`
    obtain ⟨c, t, rfl, hc⟩ := numStart_head hs
    rcases hc with hd | rfl
    · exact (digit_facts c hd).1
    · exfalso
      simp only [numStart, Bool.or_eq_true, Bool.and_eq_true, beq_iff_eq] at hs
      rcases hs with hd | ⟨_, hd⟩
      · exact absurd hd (by decide)
      · -- `.d…` is a float
        match t, hd with
        | d :: u, hd =>
          simp only [headSat_cons] at hd
          have h46 : isDigit 46 = false := by decide
          have : (number (46 :: d :: u)).1 = .float := by
            rw [number_eq]
            have hx : hexD (46 :: d :: u) = 0 := by simp [hexD]
            rw [hx, if_neg (by omega)]
            have hdrop : (46 :: d :: u).drop (run isDigit (46 :: d :: u)) = 46 :: d :: u := by
              simp [run, h46]
            rw [decPart_dot_branch hdrop]
            simp [run, h46, hd]
          rw [this] at hk'
          simp at hk'
  have ht := token_number hs hlen hX (fun _ => hdot) lk (by rw [hl46]; simp)
  have := prun_tok (numStart_noTrivia hs X) k ht rfl (by simp [numTok]; split <;> simp)
  simp only [numTok, hk', Bool.false_eq_true, if_false] at this
  rw [dotAfter_nosym (by simp)] at this
  exact ⟨_, this, rfl⟩

theorem prun_float (raw : Bytes) (h : numOK false raw = true) (k : Nat) (lk : TokKind)
    (hlk : dotEnables lk = false) {X : Bytes} (hX : headSat isIdentChar X = false) :
    ∃ lk', PRun (List.replicate k 32 ++ (raw ++ X)) lk false [⟨.float, raw⟩] X lk' false ∧ dotEnables lk' = false := by
  simp only [numOK, Bool.and_eq_true, beq_iff_eq, bne_iff_ne, ne_eq] at h
  obtain ⟨⟨hs, hlen⟩, hk⟩ := h
  have hk' : ((number raw).1 == NumKind.float) = true := by simpa using hk
  have hk2 : (number raw).1 = .float := by simpa using hk'
  have ht := token_number hs hlen hX (fun hne => absurd hk2 hne) lk (fun _ => hlk)
  have := prun_tok (numStart_noTrivia hs X) k ht rfl (by simp [numTok]; split <;> simp)
  simp only [numTok, hk', if_true] at this
  rw [dotAfter_nosym (by simp)] at this
  exact ⟨_, this, rfl⟩

/-! ## string and bytes literals -/

theorem quote_noTrivia {q : UInt8} (hq : q = 34 ∨ q = 39) (t : Bytes) : NoTrivia (q :: t) := by
  rcases hq with rfl | rfl <;>
    exact noTrivia_of_head _ (by decide) (by decide +kernel) (by decide) (by decide) (by decide)

theorem prun_str (v : Bytes) (k : Nat) (lk : TokKind) {X : Bytes} (hQ : headSat isQuote X = false) :
    PRun (List.replicate k 32 ++ (Quote.quoteString asciiPrint v ++ X)) lk false [⟨.string, v⟩] X .string false := by
  have ht := token_of_consume (consumeToken_quoteString_ctx asciiPrint v lk hQ)
  simp only at ht
  have hnt : NoTrivia (Quote.quoteString asciiPrint v ++ X) := by
    unfold Quote.quoteString
    exact quote_noTrivia (Quote.suitableQuote_cases v) _
  have := prun_tok hnt k ht rfl (by simp)
  rw [dotAfter_nosym (by simp)] at this
  exact this

theorem prun_bytes (v : Bytes) (k : Nat) (lk : TokKind) {X : Bytes} (hQ : headSat isQuote X = false) :
    PRun (List.replicate k 32 ++ (Quote.quoteBytes v ++ X)) lk false [⟨.bytes, v⟩] X .bytes false := by
  have ht := token_of_consume (consumeToken_quoteBytes_ctx v lk hQ)
  simp only at ht
  have hnt : NoTrivia (Quote.quoteBytes v ++ X) := by
    unfold Quote.quoteBytes
    exact noTrivia_of_head _ (by decide) (by decide +kernel) (by decide) (by decide) (by decide)
  have := prun_tok hnt k ht rfl (by simp)
  rw [dotAfter_nosym (by simp)] at this
  exact this

/-! ## punctuation -/

theorem singles_facts : ∀ c ∈ singles, c ≠ 47 →
    c.toNat < 0x80 ∧ isWhite c.toNat = false ∧ c ≠ 35 ∧ c ≠ 45 ∧ [c] ≠ [46] := by decide +kernel

/-- a one-byte punctuation token other than `/` (no look-ahead at all) -/
theorem prun_single (c : UInt8) (hc : c ∈ singles) (h47 : c ≠ 47) (k : Nat) (lk : TokKind) (X : Bytes) :
    PRun (List.replicate k 32 ++ (c :: X)) lk false [T (symTK [c])] X (.sym [c]) false := by
  obtain ⟨g1, g2, g3, g5, g6⟩ := singles_facts c hc h47
  have hnt : NoTrivia ([c] ++ X) := noTrivia_of_head _ g1 g2 g3 h47 g5
  have := prun_tok hnt k (w := [c]) (token_single hc X lk) rfl (by simp)
  rw [projR_sym, dotAfter_sym g6] at this
  exact this

/-- the spellings of the symbolic binary operators -/
def opList : List Bytes :=
  [[42], [47], [124, 124], [43], [45], [60, 60], [62, 62], [38], [94], [124], [61], [33, 61], [60], [60, 61], [62],
   [62, 61]]

theorem token_op_blank (p : Bytes) (hp : p ∈ opList) (X : Bytes) (lk : TokKind) :
    token (p ++ 32 :: X) lk false = some { kind := .sym p, len := p.length } := by
  simp only [opList, List.mem_cons, List.not_mem_nil, or_false] at hp
  rcases hp with rfl | rfl | rfl | rfl | rfl | rfl | rfl | rfl | rfl | rfl | rfl | rfl | rfl | rfl | rfl | rfl <;>
    simp only [List.cons_append, List.nil_append] <;>
    first
      | exact token_single (by decide) _ lk
      | exact token_of_punctLen (by decide) lk (by simp [punctLen, puncts, startsWith])

theorem opList_noTrivia (p : Bytes) (hp : p ∈ opList) (X : Bytes) : NoTrivia (p ++ 32 :: X) := by
  simp only [opList, List.mem_cons, List.not_mem_nil, or_false] at hp
  rcases hp with rfl | rfl | rfl | rfl | rfl | rfl | rfl | rfl | rfl | rfl | rfl | rfl | rfl | rfl | rfl | rfl <;>
    simp only [List.cons_append, List.nil_append] <;>
    first
      | exact noTrivia_of_head _ (by decide) (by decide +kernel) (by decide) (by decide) (by decide)
      | exact noTrivia_slash (by simp)
      | exact noTrivia_minus (by simp)

theorem opList_facts : ∀ p ∈ opList, p ≠ [46] ∧ dotEnables (.sym p) = false := by decide

/-- a symbolic binary operator followed by a blank -/
theorem prun_op (p : Bytes) (hp : p ∈ opList) (k : Nat) (lk : TokKind) (X : Bytes) :
    PRun (List.replicate k 32 ++ (p ++ 32 :: X)) lk false [T (symTK p)] (32 :: X) (.sym p) false := by
  have := prun_tok (opList_noTrivia p hp X) k (token_op_blank p hp X lk) rfl (by simp)
  rw [projR_sym, dotAfter_sym (opList_facts p hp).1] at this
  exact this

/-- unary `+` directly followed by its operand -/
theorem prun_plus (k : Nat) (lk : TokKind) {X : Bytes} (hX : headSat (· == 61) X = false) :
    PRun (List.replicate k 32 ++ (43 :: X)) lk false [T .plus] X (.sym [43]) false := by
  have hnt : NoTrivia ([43] ++ X) :=
    noTrivia_of_head _ (by decide) (by decide +kernel) (by decide) (by decide) (by decide)
  have ht := token_of_punctLen (c := 43) (by decide) lk (punctLen_plus hX)
  have := prun_tok hnt k (w := [43]) ht rfl (by simp)
  rw [projR_sym, dotAfter_sym (by decide)] at this
  exact this

/-- unary `-` directly followed by its operand (which does not start with `-`) -/
theorem prun_minus (k : Nat) (lk : TokKind) {X : Bytes} (hX : headSat (fun c => c == 61 || c == 62) X = false)
    (h45 : X.head? ≠ some 45) :
    PRun (List.replicate k 32 ++ (45 :: X)) lk false [T .minus] X (.sym [45]) false := by
  have hnt : NoTrivia ([45] ++ X) := noTrivia_minus h45
  have ht := token_of_punctLen (c := 45) (by decide) lk (punctLen_minus hX)
  have := prun_tok hnt k (w := [45]) ht rfl (by simp)
  rw [projR_sym, dotAfter_sym (by decide)] at this
  exact this

/-- `.` not followed by a digit -/
theorem prun_dot (k : Nat) (lk : TokKind) (d : Bool) {X : Bytes} (hX : headSat isDigit X = false) :
    PRun (List.replicate k 32 ++ (46 :: X)) lk d [T .dot] X (.sym [46]) (!d && dotEnables lk) := by
  have hnt : NoTrivia ([46] ++ X) :=
    noTrivia_of_head _ (by decide) (by decide +kernel) (by decide) (by decide) (by decide)
  have := prun_tok hnt k (w := [46]) (token_dot hX lk d) rfl (by simp)
  rw [projR_sym, show symTK [46] = .dot by decide] at this
  simpa [dotAfter] using this

/-! ## binary operators as printed: ` op ` -/

theorem kwOK_words : kwOK (B "NULL") = true ∧ kwOK (B "TRUE") = true ∧ kwOK (B "FALSE") = true ∧
    kwOK (B "NOT") = true ∧ kwOK (B "LIKE") = true ∧ kwOK (B "AND") = true ∧ kwOK (B "OR") = true ∧
    kwOK (B "IS") = true ∧ kwOK (B "BETWEEN") = true ∧ kwOK (B "IN") = true ∧ kwOK (B "UNNEST") = true := by
  decide +kernel

theorem blank_follow (X : Bytes) : headSat isIdentChar (32 :: X) = false ∧ headSat isQuote (32 :: X) = false := by
  constructor <;> (simp only [headSat_cons]; decide)

/-- a binary operator as `BinaryExpr.SQL()` prints it (a blank on either side; the second blank is left for the
right operand) -/
theorem prun_binop (op : BOp) (lk : TokKind) (X : Bytes) :
    ∃ lk', PRun (32 :: (op.str ++ 32 :: X)) lk false op.toks (32 :: X) lk' false ∧ dotEnables lk' = false := by
  obtain ⟨_, _, _, kNot, kLike, kAnd, kOr, _⟩ := kwOK_words
  have hb := blank_follow X
  cases op
  case like => exact ⟨_, prun_kw (B "LIKE") kLike 1 lk hb.1 hb.2, by decide⟩
  case and => exact ⟨_, prun_kw (B "AND") kAnd 1 lk hb.1 hb.2, by decide⟩
  case or => exact ⟨_, prun_kw (B "OR") kOr 1 lk hb.1 hb.2, by decide⟩
  case notLike =>
    have hb' := blank_follow (B "LIKE" ++ 32 :: X)
    have h1 := prun_kw (B "NOT") kNot 1 lk hb'.1 hb'.2
    have h2 := prun_kw (B "LIKE") kLike 1 (.sym (B "NOT")) hb.1 hb.2
    exact ⟨_, h1.append h2, by decide⟩
  all_goals first
    | exact ⟨_, prun_op [42] (by decide) 1 lk X, by decide⟩
    | exact ⟨_, prun_op [47] (by decide) 1 lk X, by decide⟩
    | exact ⟨_, prun_op [124, 124] (by decide) 1 lk X, by decide⟩
    | exact ⟨_, prun_op [43] (by decide) 1 lk X, by decide⟩
    | exact ⟨_, prun_op [45] (by decide) 1 lk X, by decide⟩
    | exact ⟨_, prun_op [60, 60] (by decide) 1 lk X, by decide⟩
    | exact ⟨_, prun_op [62, 62] (by decide) 1 lk X, by decide⟩
    | exact ⟨_, prun_op [38] (by decide) 1 lk X, by decide⟩
    | exact ⟨_, prun_op [94] (by decide) 1 lk X, by decide⟩
    | exact ⟨_, prun_op [124] (by decide) 1 lk X, by decide⟩
    | exact ⟨_, prun_op [61] (by decide) 1 lk X, by decide⟩
    | exact ⟨_, prun_op [33, 61] (by decide) 1 lk X, by decide⟩
    | exact ⟨_, prun_op [60] (by decide) 1 lk X, by decide⟩
    | exact ⟨_, prun_op [60, 61] (by decide) 1 lk X, by decide⟩
    | exact ⟨_, prun_op [62] (by decide) 1 lk X, by decide⟩
    | exact ⟨_, prun_op [62, 61] (by decide) 1 lk X, by decide⟩

end MF.Expr
