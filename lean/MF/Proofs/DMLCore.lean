/-
  MF.Proofs.DMLCore — the derivations of G_DML look at a token only through `tokCore` (kind, raw text, value, base,
  position, comments without the white space in front): `StmtD s pre` and `pre'.map tokCore = pre.map tokCore` give
  `StmtD s pre'` — the same TREE, positions included.  This is what `CoreInv` of the C11 theory needs.
-/
import MF.Proofs.DMLVoc
import MF.Proofs.LexPieces
namespace MF.DML
open MF MF.Expr MF.Lex

/-- two tokens with the same core -/
structure SameCore (a b : Token) : Prop where
  kind : a.kind = b.kind
  raw : a.raw = b.raw
  asString : a.asString = b.asString
  pos : a.pos = b.pos
  «end» : a.end = b.end

theorem sameCore_of {a b : Token} (h : tokCore a = tokCore b) : SameCore a b := by
  simp only [tokCore, Prod.mk.injEq] at h
  exact ⟨h.1, h.2.1, h.2.2.1, h.2.2.2.2.1, h.2.2.2.2.2.1⟩

theorem SameCore.identOf {a b : Token} (h : SameCore a b) : identOf a = identOf b := by
  simp [Expr.identOf, h.pos, h.end, h.asString]
theorem SameCore.kw {a b : Token} (h : SameCore a b) (s : Bytes) : a.isKeywordLike s = b.isKeywordLike s := by
  simp [Token.isKeywordLike, h.kind, h.raw]
theorem SameCore.proj {a b : Token} (h : SameCore a b) : proj a = proj b := by
  simp [Expr.proj, tokVal, h.kind, h.raw, h.asString]
theorem SameCore.cast {a b : Token} (h : SameCore a b) : isCastLike a = isCastLike b := by
  simp [isCastLike, h.kw]

theorem map_proj_core : ∀ {l1 l2 : List Token}, l1.map tokCore = l2.map tokCore → l1.map proj = l2.map proj
  | [], [], _ => rfl
  | [], _ :: _, h => by simp at h
  | _ :: _, [], h => by simp at h
  | a :: l1, b :: l2, h => by
    simp only [List.map_cons, List.cons.injEq] at h ⊢
    exact ⟨(sameCore_of h.1).proj, map_proj_core h.2⟩

theorem noCast_core : ∀ {l1 l2 : List Token}, l1.map tokCore = l2.map tokCore → NoCast l2 → NoCast l1
  | [], _, _, _ => fun _ h => (by cases h)
  | _ :: _, [], h, _ => by simp at h
  | a :: l1, b :: l2, h, hc => by
    simp only [List.map_cons, List.cons.injEq] at h
    intro t ht
    rcases List.mem_cons.1 ht with h1 | h1
    · subst h1; rw [(sameCore_of h.1).cast]; exact hc b List.mem_cons_self
    · exact noCast_core h.2 (NoCast.tail hc) t h1

theorem ExprD.core {e : Expr} {p : List Token} (h : ExprD e p) {p' : List Token}
    (hp : p'.map tokCore = p.map tokCore) : ExprD e p' :=
  ⟨h.1, h.2.1, (map_proj_core hp).trans h.2.2⟩

/-- split a one-token list -/
theorem core_one {p' : List Token} {t : Token} (hp : p'.map tokCore = [t].map tokCore) :
    ∃ t', p' = [t'] ∧ SameCore t' t := by
  obtain ⟨t', l, rfl, h1, h2⟩ := List.map_eq_cons_iff.1 hp
  have : l = [] := by simpa using h2
  subst this
  exact ⟨t', rfl, sameCore_of h1⟩

theorem core_cons {p' : List Token} {t : Token} {ts : List Token} (hp : p'.map tokCore = (t :: ts).map tokCore) :
    ∃ t' ts', p' = t' :: ts' ∧ SameCore t' t ∧ ts'.map tokCore = ts.map tokCore := by
  obtain ⟨t', l, rfl, h1, h2⟩ := List.map_eq_cons_iff.1 hp
  exact ⟨t', l, rfl, sameCore_of h1, h2⟩

theorem core_append {p' a b : List Token} (hp : p'.map tokCore = (a ++ b).map tokCore) :
    ∃ a' b', p' = a' ++ b' ∧ a'.map tokCore = a.map tokCore ∧ b'.map tokCore = b.map tokCore := by
  rw [List.map_append] at hp
  exact List.map_eq_append_iff.1 hp

theorem PathTailD.core {ids : List PIdent} {p : List Token} (h : PathTailD ids p) :
    ∀ {p' : List Token}, p'.map tokCore = p.map tokCore → PathTailD ids p' := by
  induction h with
  | nil => intro p' hp; have : p' = [] := by simpa using hp
           subst this; exact .nil
  | cons hd ht _ ih =>
    intro p' hp
    obtain ⟨d', r1, rfl, hd', hp⟩ := core_cons hp
    obtain ⟨t', r2, rfl, ht', hp⟩ := core_cons hp
    rw [← ht'.identOf]
    exact .cons (by rw [hd'.kind]; exact hd) (by rw [ht'.kind]; exact ht) (ih hp)

theorem PathD.core {ids : List PIdent} {p : List Token} (h : PathD ids p) {p' : List Token}
    (hp : p'.map tokCore = p.map tokCore) : PathD ids p' := by
  cases h with
  | mk ht htl =>
    obtain ⟨t', r, rfl, ht', hp⟩ := core_cons hp
    rw [← ht'.identOf]
    exact .mk (by rw [ht'.kind]; exact ht) (htl.core hp)

theorem IdListD.core {ids : List PIdent} {p : List Token} (h : IdListD ids p) :
    ∀ {p' : List Token}, p'.map tokCore = p.map tokCore → IdListD ids p' := by
  induction h with
  | one ht =>
    intro p' hp
    obtain ⟨t', rfl, ht'⟩ := core_one hp
    rw [← ht'.identOf]
    exact .one (by rw [ht'.kind]; exact ht)
  | cons ht hc _ ih =>
    intro p' hp
    obtain ⟨t', r1, rfl, ht', hp⟩ := core_cons hp
    obtain ⟨c', r2, rfl, hc', hp⟩ := core_cons hp
    rw [← ht'.identOf]
    exact .cons (by rw [ht'.kind]; exact ht) (by rw [hc'.kind]; exact hc) (ih hp)

theorem ColsD.core {ids : List PIdent} {p : List Token} (h : ColsD ids p) {p' : List Token}
    (hp : p'.map tokCore = p.map tokCore) : ColsD ids p' := by
  cases h with
  | empty hl hr =>
    obtain ⟨l', r1, rfl, hl', hp⟩ := core_cons hp
    obtain ⟨r', rfl, hr'⟩ := core_one hp
    exact .empty (by rw [hl'.kind]; exact hl) (by rw [hr'.kind]; exact hr)
  | list hl hd hr =>
    obtain ⟨l', r1, rfl, hl', hp⟩ := core_cons hp
    obtain ⟨m', e', rfl, hm, he⟩ := core_append hp
    obtain ⟨r', rfl, hr'⟩ := core_one he
    exact .list (by rw [hl'.kind]; exact hl) (hd.core hm) (by rw [hr'.kind]; exact hr)

theorem DefaultD.core {d : DefaultExpr Expr} {p : List Token} (h : DefaultD d p) {p' : List Token}
    (hp : p'.map tokCore = p.map tokCore) : DefaultD d p' := by
  cases h with
  | dflt hk =>
    obtain ⟨t', rfl, ht'⟩ := core_one hp
    rw [← ht'.pos]
    exact .dflt (by rw [ht'.kind]; exact hk)
  | expr he => exact .expr (he.core hp)

theorem EntriesD.core {ds : List (DefaultExpr Expr)} {p : List Token} (h : EntriesD ds p) :
    ∀ {p' : List Token}, p'.map tokCore = p.map tokCore → EntriesD ds p' := by
  induction h with
  | one hd => intro p' hp; exact .one (hd.core hp)
  | cons hd hc _ ih =>
    intro p' hp
    obtain ⟨a', b', rfl, ha, hb⟩ := core_append hp
    obtain ⟨c', r, rfl, hc', hb⟩ := core_cons hb
    exact .cons (hd.core ha) (by rw [hc'.kind]; exact hc) (ih hb)

theorem RowD.core {r : ValuesRow Expr} {p : List Token} (h : RowD r p) {p' : List Token}
    (hp : p'.map tokCore = p.map tokCore) : RowD r p' := by
  cases h with
  | empty hl hr =>
    obtain ⟨l', r1, rfl, hl', hp⟩ := core_cons hp
    obtain ⟨r', rfl, hr'⟩ := core_one hp
    rw [← hl'.pos, ← hr'.pos]
    exact .empty (by rw [hl'.kind]; exact hl) (by rw [hr'.kind]; exact hr)
  | list hl hd hr =>
    obtain ⟨l', r1, rfl, hl', hp⟩ := core_cons hp
    obtain ⟨m', e', rfl, hm, he⟩ := core_append hp
    obtain ⟨r', rfl, hr'⟩ := core_one he
    rw [← hl'.pos, ← hr'.pos]
    exact .list (by rw [hl'.kind]; exact hl) (hd.core hm) (by rw [hr'.kind]; exact hr)

theorem RowsD.core {rs : List (ValuesRow Expr)} {p : List Token} (h : RowsD rs p) :
    ∀ {p' : List Token}, p'.map tokCore = p.map tokCore → RowsD rs p' := by
  induction h with
  | one hd => intro p' hp; exact .one (hd.core hp)
  | cons hd hc _ ih =>
    intro p' hp
    obtain ⟨a', b', rfl, ha, hb⟩ := core_append hp
    obtain ⟨c', r, rfl, hc', hb⟩ := core_cons hb
    exact .cons (hd.core ha) (by rw [hc'.kind]; exact hc) (ih hb)

theorem ItemD.core {u : UpdateItem Expr} {p : List Token} (h : ItemD u p) {p' : List Token}
    (hp : p'.map tokCore = p.map tokCore) : ItemD u p' := by
  cases h with
  | mk hpth he hd =>
    obtain ⟨a', b', rfl, ha, hb⟩ := core_append hp
    obtain ⟨e', r, rfl, he', hb⟩ := core_cons hb
    exact .mk (hpth.core ha) (by rw [he'.kind]; exact he) (hd.core hb)

theorem ItemsD.core {us : List (UpdateItem Expr)} {p : List Token} (h : ItemsD us p) :
    ∀ {p' : List Token}, p'.map tokCore = p.map tokCore → ItemsD us p' := by
  induction h with
  | one hd => intro p' hp; exact .one (hd.core hp)
  | cons hd hc _ ih =>
    intro p' hp
    obtain ⟨a', b', rfl, ha, hb⟩ := core_append hp
    obtain ⟨c', r, rfl, hc', hb⟩ := core_cons hb
    exact .cons (hd.core ha) (by rw [hc'.kind]; exact hc) (ih hb)

theorem WhereD.core {w : Where Expr} {p : List Token} (h : WhereD w p) {p' : List Token}
    (hp : p'.map tokCore = p.map tokCore) : WhereD w p' := by
  cases h with
  | mk ht he =>
    obtain ⟨t', r, rfl, ht', hp⟩ := core_cons hp
    rw [← ht'.pos]
    exact .mk (by rw [ht'.kind]; exact ht) (he.core hp)

theorem AliasD.core {a : Option AsAlias} {p : List Token} (h : AliasD a p) {p' : List Token}
    (hp : p'.map tokCore = p.map tokCore) : AliasD a p' := by
  cases h with
  | none => have : p' = [] := by simpa using hp
            subst this; exact .none
  | as_ ha ht =>
    obtain ⟨a', r, rfl, ha', hp⟩ := core_cons hp
    obtain ⟨t', rfl, ht'⟩ := core_one hp
    rw [← ha'.pos, ← ht'.identOf]
    exact .as_ (by rw [ha'.kind]; exact ha) (by rw [ht'.kind]; exact ht)
  | bare ht =>
    obtain ⟨t', rfl, ht'⟩ := core_one hp
    rw [← ht'.identOf]
    exact .bare (by rw [ht'.kind]; exact ht)

theorem OrD.core {o : InsertOrType} {p : List Token} (h : OrD o p) {p' : List Token}
    (hp : p'.map tokCore = p.map tokCore) : OrD o p' := by
  cases h with
  | none => have : p' = [] := by simpa using hp
            subst this; exact .none
  | update ho hu =>
    obtain ⟨o', r, rfl, ho', hp⟩ := core_cons hp
    obtain ⟨u', rfl, hu'⟩ := core_one hp
    exact .update (by rw [ho'.kind]; exact ho) (by rw [hu'.kw]; exact hu)
  | ignore ho hu =>
    obtain ⟨o', r, rfl, ho', hp⟩ := core_cons hp
    obtain ⟨u', rfl, hu'⟩ := core_one hp
    exact .ignore (by rw [ho'.kind]; exact ho) (by rw [hu'.kind]; exact hu)

theorem OptD.core {s : String} {p : List Token} (h : OptD s p) {p' : List Token}
    (hp : p'.map tokCore = p.map tokCore) : OptD s p' := by
  cases h with
  | none => have : p' = [] := by simpa using hp
            subst this; exact .none
  | some ht =>
    obtain ⟨t', rfl, ht'⟩ := core_one hp
    exact .some (by rw [ht'.kind]; exact ht)

/-- the derivations see a token only through `tokCore` -/
theorem StmtD.core {s : Stmt Expr} {p : List Token} (h : StmtD s p) {p' : List Token}
    (hp : p'.map tokCore = p.map tokCore) : StmtD s p' := by
  cases h with
  | insert hk ho hi hpth hc hv hr =>
    obtain ⟨k', r0, rfl, hk', hp⟩ := core_cons hp
    obtain ⟨o', r1, rfl, ho', hp⟩ := core_append hp
    obtain ⟨i', r2, rfl, hi', hp⟩ := core_append hp
    obtain ⟨p1, r3, rfl, hp1, hp⟩ := core_append hp
    obtain ⟨c', r4, rfl, hc', hp⟩ := core_append hp
    obtain ⟨v', r5, rfl, hv', hp⟩ := core_cons hp
    rw [← hk'.pos, ← hv'.pos]
    exact .insert (by rw [hk'.kw]; exact hk) (ho.core ho') (hi.core hi') (hpth.core hp1) (hc.core hc')
      (by rw [hv'.kw]; exact hv) (hr.core hp)
  | delete hk hf hpth ha hw =>
    obtain ⟨k', r0, rfl, hk', hp⟩ := core_cons hp
    obtain ⟨f', r1, rfl, hf', hp⟩ := core_append hp
    obtain ⟨p1, r2, rfl, hp1, hp⟩ := core_append hp
    obtain ⟨a', w', rfl, ha', hw'⟩ := core_append hp
    rw [← hk'.pos]
    exact .delete (by rw [hk'.kw]; exact hk) (hf.core hf') (hpth.core hp1) (ha.core ha') (hw.core hw')
  | update hk hpth ha hs hu hw =>
    obtain ⟨k', r0, rfl, hk', hp⟩ := core_cons hp
    obtain ⟨p1, r1, rfl, hp1, hp⟩ := core_append hp
    obtain ⟨a', r2, rfl, ha', hp⟩ := core_append hp
    obtain ⟨s', r3, rfl, hs', hp⟩ := core_cons hp
    obtain ⟨u', w', rfl, hu', hw'⟩ := core_append hp
    rw [← hk'.pos]
    exact .update (by rw [hk'.kw]; exact hk) (hpth.core hp1) (ha.core ha') (by rw [hs'.kind]; exact hs) (hu.core hu')
      (hw.core hw')

end MF.DML
