import MF.Proofs.LexTotal
namespace MF.Lex

def Token.text (t : Token) : Bytes := triviaBytes t.comments ++ t.space ++ t.raw

/-- the token list tiles `buf` from `p` to the end: consecutive, in range, only the last is `<eof>`,
no other token is empty -/
def TokensOK (buf : Bytes) : Nat → List Token → Prop
  | _, [] => True
  | p, t :: ts =>
    CommentsOK buf p t.comments ∧ lastEnd p t.comments ≤ t.pos ∧
    t.space = slice buf (lastEnd p t.comments) t.pos ∧
    t.raw = slice buf t.pos t.end ∧ t.pos ≤ t.end ∧ t.end ≤ buf.length ∧
    (t.kind = .eof ↔ ts = []) ∧ (t.kind ≠ .eof → t.pos < t.end) ∧
    (t.kind = .eof → t.pos = buf.length ∧ t.end = buf.length) ∧
    TokensOK buf t.end ts

theorem nextToken_progress {buf : Bytes} {np : Bool} {s s' : State}
    (h : nextToken buf np s = .ok s') (hp : s.pos ≤ buf.length) :
    (s'.tok.kind = .eof → s'.tok.pos = buf.length ∧ s'.pos = buf.length) ∧
    (np = false → s'.tok.pos = buf.length → s'.tok.kind = .eof) ∧
    (s'.tok.kind ≠ .eof → s.pos < s'.pos) ∧
    (np = false → s'.tok.kind ≠ .eof → s'.tok.pos < s'.tok.end) :=
  nextTokenCore_progress (nextToken_ok_core h) hp

theorem lexAllFrom_ok {buf : Bytes} {fuel : Nat} {s : State} {acc ts : List Token}
    (h : lexAllFrom buf fuel s acc = .ok ts) (hp : s.pos ≤ buf.length) :
    ∃ new, ts = acc.reverse ++ new ∧ new ≠ [] ∧ TokensOK buf s.pos new := by
  induction fuel generalizing s acc with
  | zero => simp [lexAllFrom] at h
  | succ fuel ih =>
    simp only [lexAllFrom] at h
    split at h
    · cases h
    · cases h
    · rename_i s' hnt
      have fr := nextToken_frame hnt
      have pg := nextToken_progress hnt hp
      have hend : s'.tok.end ≤ buf.length := by rw [fr.tok_end]; exact fr.le_len
      split at h
      · rename_i hk
        have hk' : s'.tok.kind = .eof := by simpa using hk
        cases h
        refine ⟨[s'.tok], by simp, by simp, ?_⟩
        simp only [TokensOK]
        refine ⟨fr.comments, fr.space_le, fr.space, fr.raw, fr.tok_le, hend, by simp [hk'], fun hh => absurd hk' hh, ?_, trivial⟩
        intro _
        have := pg.1 hk'
        rw [fr.tok_end]; exact this
      · rename_i hk
        have hk' : s'.tok.kind ≠ .eof := by simpa using hk
        obtain ⟨new, h1, h2, h3⟩ := ih h fr.le_len
        refine ⟨s'.tok :: new, by simp [h1], by simp, ?_⟩
        simp only [TokensOK]
        refine ⟨fr.comments, fr.space_le, fr.space, fr.raw, fr.tok_le, hend, ?_, fun _ => pg.2.2.2 rfl hk', fun hh => absurd hh hk', ?_⟩
        · constructor
          · intro hh; exact absurd hh hk'
          · intro hh; exact absurd hh h2
        · rw [fr.tok_end]; exact h3

/-- C13: an accepted input is tiled by its tokens. -/
theorem lexAll_ok {buf : Bytes} {ts : List Token} (h : lexAll buf = .ok ts) :
    ts ≠ [] ∧ TokensOK buf 0 ts := by
  unfold lexAll at h
  obtain ⟨new, h1, h2, h3⟩ := lexAllFrom_ok (s := init) h (by simp [init])
  simp at h1
  subst h1
  exact ⟨h2, h3⟩

theorem TokensOK_tile {buf : Bytes} {p : Nat} {ts : List Token} (h : TokensOK buf p ts) (hne : ts ≠ [])
    (hp : p ≤ buf.length) : ts.flatMap Token.text = slice buf p buf.length := by
  induction ts generalizing p with
  | nil => exact absurd rfl hne
  | cons t ts ih =>
    simp only [TokensOK] at h
    obtain ⟨c1, c2, c3, c4, c5, c6, c7, c8, c9, c10⟩ := h
    have tb := triviaBytes_tile c1
    have cl := CommentsOK_le c1
    simp only [List.flatMap_cons, Token.text]
    rw [tb, c3, c4, slice_append buf cl.1 c2, slice_append buf (by omega) c5]
    by_cases hts : ts = []
    · subst hts
      have := (c9 (c7.2 rfl)).2
      simp [this]
    · rw [ih c10 hts c6, slice_append buf (by omega) c6]

/-- C13 (tiling): concatenating, for each token, its comments (space + raw each), its space and its
raw reproduces the input byte for byte. -/
theorem lexAll_tiles {buf : Bytes} {ts : List Token} (h : lexAll buf = .ok ts) :
    ts.flatMap Token.text = buf := by
  obtain ⟨h1, h2⟩ := lexAll_ok h
  rw [TokensOK_tile h2 h1 (Nat.zero_le _), slice_zero_length]

/-- C13: at end of input `NextToken` keeps returning `<eof>` without moving. -/
theorem eof_stable {buf : Bytes} {np : Bool} {s : State} (hp : s.pos = buf.length) :
    ∃ s', nextToken buf np s = .ok s' ∧ s'.tok.kind = .eof ∧ s'.pos = buf.length ∧
      s'.tok.raw = [] ∧ s'.tok.pos = buf.length := by
  have hdrop : buf.drop s.pos = [] := by rw [List.drop_eq_nil_iff]; omega
  have hcore : ∃ s', nextTokenCore buf np s = .ok s' ∧ s'.tok.kind = .eof ∧ s'.pos = buf.length ∧
      s'.tok.raw = [] ∧ s'.tok.pos = buf.length := by
    unfold nextTokenCore
    simp only
    have hfuel : buf.length + 2 = (buf.length + 1) + 1 := rfl
    rw [hfuel]
    simp only [triviaLoop]
    have hsk : skipSpaces (buf.length + 1) (List.drop s.pos buf) = 0 := by
      rw [hdrop]; simp [skipSpaces]
    rw [hsk]
    simp only [Nat.add_zero]
    rw [slice?_of_le (Nat.le_refl _) (by omega), hdrop]
    simp only [skipComment, isLineCommentStart, isBlockCommentStart, Bool.false_eq_true, if_false,
      beq_self_eq_true, if_true]
    rw [hdrop]
    have hsc : (if s.dotIdent = true then consumeFieldToken [] s.pos s.tok.kind np
          else consumeToken [] s.pos s.tok.kind np) = .ok { kind := .eof, len := 0 } := by
      split
      · exact consumeFieldToken_nil
      · exact consumeToken_nil
    rw [hsc]
    simp only [Nat.add_zero]
    rw [slice?_of_le (Nat.le_refl _) (by omega)]
    exact ⟨_, rfl, rfl, hp, slice_self _ _, hp⟩
  obtain ⟨s', h1, h2⟩ := hcore
  refine ⟨s', ?_, h2⟩
  unfold nextToken
  rw [h1]

end MF.Lex
