/-
  MF.Proofs.ExprPosTokens — vocabulary for the position proofs: reading a yield at a token index (`Pre`), the facts
  about lexer output that the proofs use (`Lexed`: ordered, non-empty, in range, keyword / punctuation / parameter
  lengths), monotonicity of token positions in the token index, and the number of tokens of a tree.
-/
import MF.Proofs.ExprPosPlace
import MF.Proofs.LexTokLen
namespace MF.Expr
open MF.Lex (TokensOK TokLen)

/-! ## a yield read at a token index -/

/-- the tokens number `i`, `i+1`, … of `all` read `ys` -/
def Pre (all : List Token) (i : Nat) (ys : List Tok') : Prop := ys <+: (all.drop i).map proj

@[simp] theorem Pre_nil (all : List Token) (i : Nat) : Pre all i [] := List.nil_prefix

theorem Pre_cons {all : List Token} {i : Nat} {y : Tok'} {ys : List Tok'} :
    Pre all i (y :: ys) ↔ (∃ t, all[i]? = some t ∧ proj t = y) ∧ Pre all (i + 1) ys := by
  unfold Pre
  rcases Nat.lt_or_ge i all.length with h | h
  · rw [List.drop_eq_getElem_cons h]
    simp only [List.map_cons, List.cons_prefix_cons, List.getElem?_eq_getElem h, Option.some.injEq, exists_eq_left']
    constructor
    · rintro ⟨h1, h2⟩; exact ⟨h1.symm, h2⟩
    · rintro ⟨h1, h2⟩; exact ⟨h1.symm, h2⟩
  · rw [List.drop_eq_nil_of_le h]
    simp [List.getElem?_eq_none h]

theorem Pre_append {all : List Token} {i : Nat} {a b : List Tok'} :
    Pre all i (a ++ b) ↔ Pre all i a ∧ Pre all (i + a.length) b := by
  induction a generalizing i with
  | nil => simp
  | cons y a ih =>
    simp only [List.cons_append, Pre_cons, ih, List.length_cons]
    have : i + 1 + a.length = i + (a.length + 1) := by omega
    rw [this]
    constructor
    · rintro ⟨h1, h2, h3⟩; exact ⟨⟨h1, h2⟩, h3⟩
    · rintro ⟨⟨h1, h2⟩, h3⟩; exact ⟨h1, h2, h3⟩

theorem Pre.len {all : List Token} {i : Nat} {ys : List Tok'} (h : Pre all i ys) (hne : ys ≠ []) :
    i + ys.length ≤ all.length := by
  have h1 := List.IsPrefix.length_le h
  simp only [List.length_map, List.length_drop] at h1
  have h2 : 0 < ys.length := List.length_pos_iff.mpr hne
  omega

/-- a single token read at index `k` -/
def TokIs (all : List Token) (k : Nat) (y : Tok') : Prop := ∃ t, all[k]? = some t ∧ proj t = y

theorem TokIs.lt {all : List Token} {k : Nat} {y : Tok'} (h : TokIs all k y) : k < all.length := by
  obtain ⟨t, h1, _⟩ := h
  exact (List.getElem?_eq_some_iff.mp h1).1

theorem TokIs.tk {all : List Token} {k : Nat} {y : Tok'} (h : TokIs all k y) : tk (tokAt all k).kind = y.k := by
  obtain ⟨t, h1, h2⟩ := h
  rw [tokAt_of_getElem? h1, ← h2]; rfl

theorem TokIs.mem {all : List Token} {k : Nat} {y : Tok'} (h : TokIs all k y) : tokAt all k ∈ all := by
  obtain ⟨t, h1, _⟩ := h
  rw [tokAt_of_getElem? h1]
  exact List.mem_of_getElem? h1

theorem tokAt_mem {all : List Token} {k : Nat} (h : k < all.length) : tokAt all k ∈ all := by
  have : all[k]? = some all[k] := List.getElem?_eq_getElem h
  rw [tokAt_of_getElem? this]; exact List.getElem_mem h

/-! ## what the proofs use about lexer output -/

/-- per-token facts (`len` = length of the input) -/
structure TokOK (len : Nat) (t : Token) : Prop where
  le : t.end ≤ len
  null : tk t.kind = .null → t.end = t.pos + 4
  true_ : tk t.kind = .true_ → t.end = t.pos + 4
  false_ : tk t.kind = .false_ → t.end = t.pos + 5
  rparen : tk t.kind = .rparen → t.end = t.pos + 1
  rbrack : tk t.kind = .rbrack → t.end = t.pos + 1
  param : tk t.kind = .param → t.end = t.pos + 1 + t.asString.length
  end_ : tk t.kind = .end_ → t.end = t.pos + 3

/-- a token list as the lexer produces it -/
structure Lexed (all : List Token) (len : Nat) : Prop where
  tok : ∀ t ∈ all, TokOK len t
  /-- every token but the last (`<eof>`) is non-empty -/
  lt : ∀ k, k + 1 < all.length → (tokAt all k).pos < (tokAt all k).end
  /-- ordered, without overlap -/
  sorted : ∀ a b, a < b → b < all.length → (tokAt all a).end ≤ (tokAt all b).pos
  /-- the last token is `<eof>` -/
  last : ∀ k, k + 1 = all.length → tk (tokAt all k).kind = .eof

namespace Lexed
variable {all : List Token} {len : Nat}

theorem pos_le_pos (L : Lexed all len) {a b : Nat} (h : a ≤ b) (hb : b < all.length) :
    (tokAt all a).pos ≤ (tokAt all b).pos := by
  rcases Nat.eq_or_lt_of_le h with rfl | h
  · exact Nat.le_refl _
  · have := L.lt a (by omega); have := L.sorted a b h hb; omega

theorem end_le_end (L : Lexed all len) {a b : Nat} (h : a ≤ b) (hb : b + 1 < all.length) :
    (tokAt all a).end ≤ (tokAt all b).end := by
  rcases Nat.eq_or_lt_of_le h with rfl | h
  · exact Nat.le_refl _
  · have := L.lt b hb; have := L.sorted a b h (by omega); omega

theorem pos_lt_end (L : Lexed all len) {a b : Nat} (h : a ≤ b) (hb : b + 1 < all.length) :
    (tokAt all a).pos < (tokAt all b).end := by
  have := L.pos_le_pos h (by omega); have := L.lt b hb; omega

theorem end_le (L : Lexed all len) {a : Nat} (h : a < all.length) : (tokAt all a).end ≤ len :=
  (L.tok _ (tokAt_mem h)).le

end Lexed

theorem tk_sym_eq {k : TokKind} {c : TK} {s : String} (h : tk k = c) (hs : ∀ p ∈ symTable, p.2 = c → p.1 = s)
    (hc : c ≠ .eof ∧ c ≠ .ident ∧ c ≠ .param ∧ c ≠ .int ∧ c ≠ .float ∧ c ≠ .string ∧ c ≠ .bytes ∧ c ≠ .other) :
    k = .sym (B s) := by
  obtain ⟨c1, c2, c3, c4, c5, c6, c7, c8⟩ := hc
  cases k with
  | sym b =>
    simp only [tk, symTK] at h
    split at h
    · rename_i p hp
      have h1 := List.find?_some hp
      have h2 := List.mem_of_find?_eq_some hp
      have := hs p h2 h
      simp only [beq_iff_eq] at h1
      rw [← h1, this]
    · exact absurd h.symm c8
  | _ =>
    simp only [tk] at h
    first
      | exact absurd h.symm c1 | exact absurd h.symm c2 | exact absurd h.symm c3 | exact absurd h.symm c4
      | exact absurd h.symm c5 | exact absurd h.symm c6 | exact absurd h.symm c7 | exact absurd h.symm c8

theorem tk_param {k : TokKind} (h : tk k = .param) : k = .param := by
  cases k with
  | sym b =>
    simp only [tk, symTK] at h
    split at h
    · rename_i p hp
      have h2 := List.mem_of_find?_eq_some hp
      have : ∀ p ∈ symTable, p.2 ≠ TK.param := by decide
      exact absurd h (this p h2)
    · cases h
  | _ => simp only [tk] at h <;> first | rfl | cases h

theorem tokOK_of {buf : Bytes} {t : Token} (h1 : t.end ≤ buf.length) (h2 : TokLen t) : TokOK buf.length t where
  le := h1
  null h := by rw [h2.1 _ (tk_sym_eq (s := "NULL") h (by decide) (by decide))]; rfl
  true_ h := by rw [h2.1 _ (tk_sym_eq (s := "TRUE") h (by decide) (by decide))]; rfl
  false_ h := by rw [h2.1 _ (tk_sym_eq (s := "FALSE") h (by decide) (by decide))]; rfl
  rparen h := by rw [h2.1 _ (tk_sym_eq (s := ")") h (by decide) (by decide))]; rfl
  rbrack h := by rw [h2.1 _ (tk_sym_eq (s := "]") h (by decide) (by decide))]; rfl
  param h := h2.2 (tk_param h)
  end_ h := by rw [h2.1 _ (tk_sym_eq (s := "END") h (by decide) (by decide))]; rfl

/-- consequences of `TokensOK buf p ts` by index -/
theorem tokensOK_idx {buf : Bytes} {p : Nat} {ts : List Token} (h : TokensOK buf p ts) :
    (∀ k, k < ts.length → p ≤ (tokAt ts k).pos ∧ (tokAt ts k).pos ≤ (tokAt ts k).end ∧ (tokAt ts k).end ≤ buf.length) ∧
    (∀ k, k + 1 < ts.length → (tokAt ts k).pos < (tokAt ts k).end) ∧
    (∀ a b, a < b → b < ts.length → (tokAt ts a).end ≤ (tokAt ts b).pos) ∧
    (∀ k, k + 1 = ts.length → (tokAt ts k).kind = .eof) := by
  induction ts generalizing p with
  | nil => simp
  | cons t ts ih =>
    simp only [TokensOK] at h
    obtain ⟨c1, c2, c3, c4, c5, c6, c7, c8, c9, c10⟩ := h
    obtain ⟨i1, i2, i3, i4⟩ := ih c10
    have hle : p ≤ t.pos := by
      have := (MF.Lex.CommentsOK_le c1).1; omega
    have hat0 : tokAt (t :: ts) 0 = t := rfl
    have hatS : ∀ k, tokAt (t :: ts) (k + 1) = tokAt ts k := fun k => rfl
    refine ⟨?_, ?_, ?_, ?_⟩
    · intro k hk
      cases k with
      | zero => rw [hat0]; exact ⟨hle, c5, c6⟩
      | succ k =>
        rw [hatS]
        have := i1 k (by simpa using hk)
        exact ⟨by omega, this.2.1, this.2.2⟩
    · intro k hk
      cases k with
      | zero =>
        rw [hat0]
        apply c8
        intro he
        have := c7.1 he
        subst this
        simp at hk
      | succ k => rw [hatS]; exact i2 k (by simpa using hk)
    · intro a b hab hb
      cases b with
      | zero => omega
      | succ b =>
        rw [hatS]
        have hb' : b < ts.length := by simpa using hb
        cases a with
        | zero => rw [hat0]; exact (i1 b hb').1
        | succ a => rw [hatS]; exact i3 a b (by omega) hb'
    · intro k hk
      cases k with
      | zero =>
        rw [hat0]
        have : ts = [] := by
          cases ts with
          | nil => rfl
          | cons _ _ => simp at hk
        exact c7.2 this
      | succ k => rw [hatS]; exact i4 k (by simpa using hk)

/-- **lexer output is `Lexed`** (from C13's `tokens_ok` and the token-length lemma) -/
theorem lexAll_lexed {buf : Bytes} {ts : List Token} (h : Lex.lexAll buf = .ok ts) : Lexed ts buf.length := by
  obtain ⟨_, hok⟩ := MF.Lex.lexAll_ok h
  obtain ⟨i1, i2, i3, i4⟩ := tokensOK_idx hok
  have hlen := MF.Lex.lexAll_len h
  refine ⟨?_, i2, i3, ?_⟩
  · intro t ht
    obtain ⟨k, hk, rfl⟩ := List.getElem_of_mem ht
    have : tokAt ts k = ts[k] := tokAt_of_getElem? (List.getElem?_eq_getElem hk)
    exact tokOK_of (this ▸ (i1 k hk).2.2) (hlen _ ht)
  · intro k hk; rw [i4 k hk]; rfl

/-! ## number of tokens -/

/-- number of tokens of a tree -/
def ntok (x : Expr) : Nat := (yield x).length
def ntoks (es : Exprs) : Nat := (yields es).length
def ntokW (ws : Whens) : Nat := (yieldW ws).length
def ntokO (pre : List Tok') (o : OExpr) : Nat := (yieldO pre o).length

theorem pathToks_length (a : Bytes) (ns : List Bytes) : (pathToks (a :: ns)).length = 1 + 2 * ns.length := by
  induction ns generalizing a with
  | nil => simp [pathToks]
  | cons b ns ih => simp only [pathToks, List.length_cons, ih]; omega

theorem notToks_length (b : Bool) : (notToks b).length = nb b := by cases b <;> rfl

theorem placeIds_snd (g : Nat → Nat × Nat) (ns : List Bytes) (k : Nat) : (placeIds g ns k).2 = k + 2 * ns.length := by
  induction ns generalizing k with
  | nil => simp [placeIds]
  | cons n ns ih => simp only [placeIds, ih, List.length_cons]; omega

theorem placePath_snd (g : Nat → Nat × Nat) (ns : List Bytes) (k : Nat) :
    (placePath g ns k).2 = k + (pathToks ns).length := by
  cases ns with
  | nil => simp [placePath, pathToks]
  | cons a ns => simp only [placePath, placeIds_snd, pathToks_length]; omega

mutual
theorem placeG_snd (g : Nat → Nat × Nat) : (x : Expr) → (i : Nat) → (placeG g x i).2 = i + ntok x
  | .null, i | .bool _, i | .str _, i | .bytes _, i | .param _, i | .ident _, i => by simp [placeG, ntok, yield]
  | .int none _, i | .float none _, i => by simp [placeG, ntok, yield, signToks]
  | .int (some _) _, i | .float (some _) _, i => by simp [placeG, ntok, yield, signToks]
  | .path [], i => by simp [placeG, ntok, yield, pathToks]
  | .path (a :: ns), i => by simp only [placeG, ntok, yield, placeIds_snd, pathToks_length]; omega
  | .paren e, i => by simp only [placeG, ntok, yield, placeG_snd g e, List.length_cons, List.length_append, List.length_nil]; omega
  | .unary _ e, i => by simp only [placeG, ntok, yield, placeG_snd g e, List.length_cons]; omega
  | .bin op l r, i => by
    simp only [placeG, ntok, yield, placeG_snd g l, placeG_snd g r, List.length_append]; omega
  | .isNull e n, i => by
    simp only [placeG, ntok, yield, placeG_snd g e, List.length_cons, List.length_append, List.length_nil, notToks_length]
    omega
  | .isBool e n _, i => by
    simp only [placeG, ntok, yield, placeG_snd g e, List.length_cons, List.length_append, List.length_nil, notToks_length]
    omega
  | .between n e lo hi, i => by
    simp only [placeG, ntok, yield, placeG_snd g e, placeG_snd g lo, placeG_snd g hi, List.length_cons, List.length_append,
      notToks_length]
    omega
  | .inList n e first more, i => by
    simp only [placeG, ntok, yield, placeG_snd g e, placeG_snd g first, placesG_snd g more, List.length_cons,
      List.length_append, List.length_nil, notToks_length, ntoks]
    omega
  | .inUnnest n e a, i => by
    simp only [placeG, ntok, yield, placeG_snd g e, placeG_snd g a, List.length_cons, List.length_append, List.length_nil,
      notToks_length]
    omega
  | .sel e _, i => by
    simp only [placeG, ntok, yield, placeG_snd g e, List.length_cons, List.length_append, List.length_nil]
    omega
  | .index e none ix, i => by
    simp only [placeG, ntok, yield, placeG_snd g e, placeG_snd g ix, List.length_cons, List.length_append, List.length_nil]
    omega
  | .index e (some (_, _)) ix, i => by
    simp only [placeG, ntok, yield, placeG_snd g e, placeG_snd g ix, List.length_cons, List.length_append, List.length_nil]
    omega
  | .caseE o c t ws el, i => by
    simp only [placeG, ntok, yield, placeO_snd g false o, placeG_snd g c, placeG_snd g t, placeW_snd g ws,
      placeO_snd g true el, List.length_cons, List.length_append, List.length_nil, ntokW, ntokO, nb]
    simp only [Bool.false_eq_true, if_false, if_true, List.length_nil, List.length_cons]
    omega
  | .ifE c t e, i => by
    simp only [placeG, ntok, yield, placeG_snd g c, placeG_snd g t, placeG_snd g e, List.length_cons, List.length_append,
      List.length_nil]
    omega
  | .cast e ns, i => by
    simp only [placeG, ntok, yield, placeG_snd g e, placePath_snd, List.length_cons, List.length_append,
      List.length_nil]
    omega
  | .array .nil, i => by simp [placeG, ntok, yield]
  | .array (.cons e es), i => by
    simp only [placeG, ntok, yield, placeG_snd g e, placesG_snd g es, List.length_cons, List.length_append,
      List.length_nil, ntoks]
    omega
theorem placesG_snd (g : Nat → Nat × Nat) : (es : Exprs) → (i : Nat) → (placesG g es i).2 = i + ntoks es
  | .nil, i => by simp [placesG, ntoks, yields]
  | .cons e es, i => by
    simp only [placesG, ntoks, yields, placeG_snd g e, placesG_snd g es, List.length_cons, List.length_append, ntok]
    omega
theorem placeW_snd (g : Nat → Nat × Nat) : (ws : Whens) → (i : Nat) → (placeW g ws i).2 = i + ntokW ws
  | .nil, i => by simp [placeW, ntokW, yieldW]
  | .cons c t ws, i => by
    simp only [placeW, ntokW, yieldW, placeG_snd g c, placeG_snd g t, placeW_snd g ws, List.length_cons,
      List.length_append, ntok]
    omega
/-- `kw = true`: one keyword token (ELSE) in front of the expression -/
theorem placeO_snd (g : Nat → Nat × Nat) (kw : Bool) : (o : OExpr) → (i : Nat) →
    (placeO g kw o i).2 = i + ntokO (if kw then [T .else_] else []) o
  | .none, i => by simp [placeO, ntokO, yieldO]
  | .some e, i => by
    cases kw <;> simp only [placeO, ntokO, yieldO, placeG_snd g e, List.length_cons, List.length_append, ntok, nb,
      Bool.false_eq_true, if_false, if_true, List.length_nil] <;> omega
end

/-! ## no `<eof>` inside a yield -/

/-- no token of class `<eof>` -/
def NE (l : List Tok') : Prop := ∀ y ∈ l, y.k ≠ .eof

@[simp] theorem NE_nil : NE [] := by simp [NE]
theorem NE_cons {y : Tok'} {l : List Tok'} : NE (y :: l) ↔ y.k ≠ .eof ∧ NE l := by simp [NE]
theorem NE_append {a b : List Tok'} : NE (a ++ b) ↔ NE a ∧ NE b := by
  simp only [NE, List.mem_append]
  constructor
  · intro h; exact ⟨fun y hy => h y (Or.inl hy), fun y hy => h y (Or.inr hy)⟩
  · rintro ⟨h1, h2⟩ y (hy | hy)
    · exact h1 y hy
    · exact h2 y hy

theorem pathToks_NE (ns : List Bytes) : NE (pathToks ns) := by
  induction ns with
  | nil => simp [pathToks]
  | cons a ns ih =>
    cases ns with
    | nil => simp [pathToks, NE_cons]
    | cons b ns => simp only [pathToks, NE_cons] at ih ⊢; exact ⟨by simp, by simp [T], ih⟩

theorem optoks_NE (op : BOp) : NE op.toks := by cases op <;> simp [BOp.toks, T, NE_cons]
theorem notToks_NE (b : Bool) : NE (notToks b) := by cases b <;> simp [notToks, T, NE_cons]
theorem signToks_NE (s : Option Sign) : NE (signToks s) := by
  cases s with
  | none => simp [signToks]
  | some s => cases s <;> simp [signToks, T, Sign.tk, NE_cons]
theorem T_ne {k : TK} (h : k ≠ .eof) : (T k).k ≠ .eof := h

mutual
theorem yield_NE : (x : Expr) → NE (yield x)
  | .null | .str _ | .bytes _ | .param _ | .ident _ => by simp [yield, T, NE_cons]
  | .bool b => by cases b <;> simp [yield, T, boolTK, NE_cons]
  | .int s _ | .float s _ => by simp [yield, NE_append, NE_cons, signToks_NE]
  | .path ns => by simpa [yield] using pathToks_NE ns
  | .paren e => by simp [yield, NE_append, NE_cons, T, yield_NE e]
  | .unary op e => by cases op <;> simp [yield, NE_cons, T, UOp.tk, yield_NE e]
  | .bin op l r => by simp [yield, NE_append, yield_NE l, yield_NE r, optoks_NE]
  | .isNull e n => by simp [yield, NE_append, NE_cons, T, yield_NE e, notToks_NE]
  | .isBool e n b => by cases b <;> simp [yield, NE_append, NE_cons, T, boolTK, yield_NE e, notToks_NE]
  | .between n e lo hi => by simp [yield, NE_append, NE_cons, T, yield_NE e, yield_NE lo, yield_NE hi, notToks_NE]
  | .inList n e first more => by
    simp [yield, NE_append, NE_cons, T, yield_NE e, yield_NE first, yields_NE more, notToks_NE]
  | .inUnnest n e a => by simp [yield, NE_append, NE_cons, T, yield_NE e, yield_NE a, notToks_NE]
  | .sel e _ => by simp [yield, NE_append, NE_cons, T, yield_NE e]
  | .index e none ix => by simp [yield, NE_append, NE_cons, T, yield_NE e, yield_NE ix]
  | .index e (some (_, _)) ix => by simp [yield, NE_append, NE_cons, T, yield_NE e, yield_NE ix]
  | .caseE o c t ws el => by
    have h2 : NE (yieldO [{ k := TK.else_ }] el) := yieldO_NE [T .else_] el (by simp [NE_cons, T])
    simp [yield, NE_append, NE_cons, T, yieldO_NE [] o, yield_NE c, yield_NE t, yieldW_NE ws, h2]
  | .ifE c t e => by simp [yield, NE_append, NE_cons, T, yield_NE c, yield_NE t, yield_NE e]
  | .cast e ns => by simp [yield, NE_append, NE_cons, T, yield_NE e, pathToks_NE ns]
  | .array .nil => by simp [yield, NE_cons, T]
  | .array (.cons e es) => by simp [yield, NE_append, NE_cons, T, yield_NE e, yields_NE es]
theorem yields_NE : (es : Exprs) → NE (yields es)
  | .nil => by simp [yields]
  | .cons e es => by simp [yields, NE_append, NE_cons, T, yield_NE e, yields_NE es]
theorem yieldW_NE : (ws : Whens) → NE (yieldW ws)
  | .nil => by simp [yieldW]
  | .cons c t ws => by simp [yieldW, NE_append, NE_cons, T, yield_NE c, yield_NE t, yieldW_NE ws]
theorem yieldO_NE (pre : List Tok') : (o : OExpr) → NE pre → NE (yieldO pre o)
  | .none, _ => by simp [yieldO]
  | .some e, h => by simp [yieldO, NE_append, h, yield_NE e]
end

end MF.Expr
