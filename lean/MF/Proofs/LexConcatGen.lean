/-
  MF.Proofs.LexConcatGen — the general CONCATENATION theorem for the model lexer.

  `concat_lexes`: if `u` lexes to `tu ++ [<eof>]` and `v` lexes to `tv ++ [<eof>]`, then `u ++ blanks ++ v` lexes to
  `tu ++ shift tv ++ [shift <eof>]` — same kinds, texts (`Raw`), values (`AsString`), bases, and positions shifted
  by `|u| + k` — under the explicit junction conditions `Junction` (see there).  The proof transfers every step of
  the two runs to the concatenated buffer through the reference lexer (C14, `spec_step` / `model_step`):
    * a step of `v` at offset `q` is a step of `p ++ v` at offset `|p| + q` (prefix invariance: no condition);
    * a step of `u` that ends strictly inside `u` is a step of `u ++ W` (`next_append`: forward extension of white
      space, comments, numbers, quoted content, words, punctuation);
    * the last step of `u` is covered by the junction condition, which only involves the last token of `u`, the
      trivia in front of it, and the FIRST BYTE of what follows.
  Byte-class sufficient conditions for the junction, per token class, are the one-token lemmas of
  MF/Proofs/LexTokCtx.lean, LexNumCtx.lean, LexQuoteCtx.lean (`token_word`, `token_field`, `token_param`,
  `token_number`, `token_single`, `punctLen_*`, `token_dot`, `consumeToken_quote*_ctx`).
-/
import MF.Proofs.LexAppendTok
set_option linter.unusedSimpArgs false
namespace MF.Concat
open MF MF.Lex MF.Spec.Lexical

/-! ## records with positions -/

/-- kind, text, value, base, start, end -/
def tokRec (t : Token) : TokKind × Bytes × Bytes × Nat × Nat × Nat := (t.kind, t.raw, t.asString, t.base, t.pos, t.end)

/-- positions shifted by `n` -/
def shiftRec (n : Nat) (r : TokKind × Bytes × Bytes × Nat × Nat × Nat) : TokKind × Bytes × Bytes × Nat × Nat × Nat :=
  (r.1, r.2.1, r.2.2.1, r.2.2.2.1, r.2.2.2.2.1 + n, r.2.2.2.2.2 + n)

theorem shiftRec_zero (r : TokKind × Bytes × Bytes × Nat × Nat × Nat) : shiftRec 0 r = r := rfl

/-! ## one step, transferred between two buffers -/

/-- if the reference lexer takes the same step (up to the amount of trivia) at the two cursors, and the token text
is the same, the model takes the same step: same kind, text, value, base, next dot flag; positions shifted -/
theorem step_transfer {b1 b2 : Bytes} {s1 s1' s2 : State} {w1 w2 off : Nat} {t : STok} (hp1 : s1.pos ≤ b1.length)
    (hp2 : s2.pos ≤ b2.length) (hn : nextToken b1 false s1 = .ok s1')
    (h1 : next (b1.drop s1.pos) s1.tok.kind s1.dotIdent = .tok w1 t)
    (h2 : next (b2.drop s2.pos) s2.tok.kind s2.dotIdent = .tok w2 t)
    (hk : dotAfter s2.tok.kind s2.dotIdent t = dotAfter s1.tok.kind s1.dotIdent t)
    (hpos : s2.pos + w2 = s1.pos + w1 + off)
    (hraw : (b2.drop (s2.pos + w2)).take t.len = (b1.drop (s1.pos + w1)).take t.len) :
    ∃ s2', nextToken b2 false s2 = .ok s2' ∧ tokRec s2'.tok = shiftRec off (tokRec s1'.tok) ∧
      s2'.pos = s1'.pos + off ∧ s2'.pos ≤ b2.length ∧ s2'.tok.kind = s1'.tok.kind ∧ s2'.dotIdent = s1'.dotIdent := by
  obtain ⟨w, t', g0, g1, g2, g3, g4, g5, g6, g7, g8, g9⟩ := spec_step hp1 hn
  rw [h1] at g0
  cases g0
  obtain ⟨s2', e0, e1, e2, e3, e4, e5, e6, e7, e8, e9⟩ := model_step hp2 h2
  refine ⟨s2', e0, ?_, by omega, e2, by rw [e3, g3], by rw [e7, g7, hk]⟩
  simp only [tokRec, shiftRec, e3, g3, e4, g4, e5, g5, e6, g6, hraw, e8, g8, e9, g9, Prod.mk.injEq, true_and]
  omega

/-! ## prefix invariance -/

/-- **Prefix invariance.**  A run of the lexer on `v` from a state at offset `q` is a run on `p ++ v` from any state
at offset `|p| + q` with the same previous kind and dot flag: same tokens, positions shifted by `|p|`. -/
theorem steps_prefix (p : Bytes) {v : Bytes} {s : State} {l : List Token} (h : Steps v s l) :
    s.pos ≤ v.length → ∀ s2 : State, s2.pos = s.pos + p.length → s2.tok.kind = s.tok.kind → s2.dotIdent = s.dotIdent →
      ∃ l2, Steps (p ++ v) s2 l2 ∧ l2.map tokRec = l.map (fun t => shiftRec p.length (tokRec t)) := by
  induction h with
  | @last s s1 hn hk =>
    intro hp s2 hpos hkind hdot
    obtain ⟨w, t, g0, _⟩ := spec_step hp hn
    have hdrop : (p ++ v).drop s2.pos = v.drop s.pos := by
      rw [hpos, Nat.add_comm, ← List.drop_drop, List.drop_left]
    obtain ⟨s2', e0, e1, _, _, e4, _⟩ := step_transfer (b2 := p ++ v) (s2 := s2) (w2 := w) (off := p.length) hp
      (by rw [hpos, List.length_append]; omega) hn g0 (by rw [hdrop, hkind, hdot]; exact g0) (by rw [hkind, hdot])
      (by omega) (by rw [hpos, show s.pos + p.length + w = p.length + (s.pos + w) by omega, ← List.drop_drop,
        List.drop_left])
    exact ⟨[s2'.tok], Steps.last e0 (by rw [e4]; exact hk), by simp [e1]⟩
  | @cons s s1 l hn hk _ ih =>
    intro hp s2 hpos hkind hdot
    obtain ⟨w, t, g0, _⟩ := spec_step hp hn
    have hdrop : (p ++ v).drop s2.pos = v.drop s.pos := by
      rw [hpos, Nat.add_comm, ← List.drop_drop, List.drop_left]
    obtain ⟨s2', e0, e1, e2, _, e4, e5⟩ := step_transfer (b2 := p ++ v) (s2 := s2) (w2 := w) (off := p.length) hp
      (by rw [hpos, List.length_append]; omega) hn g0 (by rw [hdrop, hkind, hdot]; exact g0) (by rw [hkind, hdot])
      (by omega) (by rw [hpos, show s.pos + p.length + w = p.length + (s.pos + w) by omega, ← List.drop_drop,
        List.drop_left])
    obtain ⟨l2, hs2, hm2⟩ := ih (nextToken_frame hn).le_len s2' e2 e4 e5
    exact ⟨s2'.tok :: l2, Steps.cons e0 (by rw [e4]; exact hk) hs2, by simp [e1, hm2]⟩

/-- a text that lexes alone lexes the same at any offset of a longer buffer (after a token that does not enable
dot-identifier mode) -/
theorem lexes_at_offset (p : Bytes) {v : Bytes} {tv : List Token} (h : Lex.lexAll v = .ok tv) (s2 : State)
    (hpos : s2.pos = p.length) (hk : s2.tok.kind = .sym []) (hd : s2.dotIdent = false) :
    ∃ l2, Steps (p ++ v) s2 l2 ∧ l2.map tokRec = tv.map (fun t => shiftRec p.length (tokRec t)) :=
  steps_prefix p (lexAll_steps h) (Nat.zero_le _) s2 (by simp [Lex.init, hpos]) (by simp [Lex.init, hk])
    (by simp [Lex.init, hd])

/-! ## trivia: fuel independence, and blanks in front -/

theorem triviaLen_fuel {F : Nat} : ∀ {F' : Nat} {R : Bytes}, R.length < F → R.length < F' →
    triviaLen F' R = triviaLen F R := by
  induction F with
  | zero => intro F' R h; omega
  | succ F ih =>
    intro F' R hF hF'
    cases F' with
    | zero => omega
    | succ F' =>
      simp only [triviaLen]
      cases hcm : comment (R.drop (whiteLen (R.length + 1) R)) with
      | none => rfl
      | unclosed => rfl
      | len n =>
        simp only
        by_cases hn : (n == 0) = true
        · simp only [if_pos hn]
        · simp only [if_neg hn]
          have hn1 : 1 ≤ n := by
            have : n ≠ 0 := by simpa using hn
            omega
          obtain ⟨c0, t0, hd0, _⟩ := comment_head_ascii (S := R.drop (whiteLen (R.length + 1) R)) (by rw [hcm]; simp)
          have hR1 : 1 ≤ R.length := by
            have := congrArg List.length hd0
            simp only [List.length_drop, List.length_cons] at this
            omega
          rw [ih (R := R.drop (whiteLen (R.length + 1) R + n)) (by simp only [List.length_drop]; omega)
            (by simp only [List.length_drop]; omega)]

/-- `k` blanks in front add `k` to the trivia -/
theorem triviaLen_blanks_gen (k : Nat) (R : Bytes) :
    triviaLen ((List.replicate k 32 ++ R).length + 1) (List.replicate k 32 ++ R) =
      (triviaLen (R.length + 1) R).map (· + k) := by
  have hw : whiteLen ((List.replicate k 32 ++ R).length + 1) (List.replicate k 32 ++ R) =
      k + whiteLen (R.length + 1) R := by
    have := whiteLen_blanks k (R.length + 1) R
    rw [List.length_append, List.length_replicate, show k + R.length + 1 = R.length + 1 + k by omega, this]
  have hdrop : ∀ m, (List.replicate k (32 : UInt8) ++ R).drop (k + m) = R.drop m := by
    intro m
    rw [← List.drop_drop, List.drop_append, List.drop_replicate, List.length_replicate]
    simp
  simp only [triviaLen, hw, hdrop]
  cases hcm : comment (R.drop (whiteLen (R.length + 1) R)) with
  | none => simp only [Option.map_some]; congr 1; omega
  | unclosed => rfl
  | len n =>
    simp only
    by_cases hn : (n == 0) = true
    · simp only [if_pos hn, Option.map_some]; congr 1; omega
    · simp only [if_neg hn]
      have hn1 : 1 ≤ n := by
        have : n ≠ 0 := by simpa using hn
        omega
      have hwl := whiteLen_le (R.length + 1) R
      obtain ⟨c0, t0, hd0, _⟩ := comment_head_ascii (S := R.drop (whiteLen (R.length + 1) R)) (by rw [hcm]; simp)
      have hR1 : 1 ≤ R.length := by
        have := congrArg List.length hd0
        simp only [List.length_drop, List.length_cons] at this
        omega
      rw [show k + whiteLen (R.length + 1) R + n = k + (whiteLen (R.length + 1) R + n) by omega, hdrop]
      rw [triviaLen_fuel (F := R.length) (F' := (List.replicate k (32 : UInt8) ++ R).length)
        (by simp only [List.length_drop]; omega)
        (by simp only [List.length_drop, List.length_append, List.length_replicate]; omega)]
      cases triviaLen R.length (R.drop (whiteLen (R.length + 1) R + n)) with
      | none => rfl
      | some x => simp only [Option.map_some]; congr 1; omega

theorem next_blanks_gen (k : Nat) {R : Bytes} {lk : TokKind} {d : Bool} {w : Nat} {t : STok}
    (h : next R lk d = .tok w t) : next (List.replicate k 32 ++ R) lk d = .tok (w + k) t := by
  unfold next at h ⊢
  rw [triviaLen_blanks_gen]
  cases htl : triviaLen (R.length + 1) R with
  | none => rw [htl] at h; cases h
  | some w' =>
    rw [htl] at h
    simp only [Option.map_some] at h ⊢
    have hdrop : (List.replicate k (32 : UInt8) ++ R).drop (w' + k) = R.drop w' := by
      rw [Nat.add_comm, ← List.drop_drop, List.drop_append, List.drop_replicate, List.length_replicate]
      simp
    rw [hdrop]
    cases htk : token (R.drop w') lk d with
    | none => rw [htk] at h; cases h
    | some t' =>
      rw [htk] at h
      simp only at h ⊢
      cases h
      rfl

/-! ## the previous kind only matters in front of `.` -/

theorem token_lk_congr {R : Bytes} {lk lk' : TokKind} (d : Bool) (h : dotEnables lk = dotEnables lk') :
    token R lk d = token R lk' d := by
  unfold token
  rw [h]

theorem token_lk_nodot {c : UInt8} (s : Bytes) (lk lk' : TokKind) (d : Bool) (hc : (c == 46) = false) :
    token (c :: s) lk d = token (c :: s) lk' d := by
  unfold token
  simp only [hc, Bool.false_eq_true, if_false]

theorem next_trivia {R : Bytes} {lk : TokKind} {d : Bool} {w : Nat} {t : STok} (h : next R lk d = .tok w t) :
    triviaLen (R.length + 1) R = some w := by
  unfold next at h
  split at h
  · cases h
  · rename_i w' hw
    split at h
    · cases h
    · cases h; exact hw

theorem next_token {R : Bytes} {lk : TokKind} {d : Bool} {w : Nat} {t : STok} (h : next R lk d = .tok w t) :
    token (R.drop w) lk d = some t := by
  unfold next at h
  split at h
  · cases h
  · rename_i w' hw
    split at h
    · cases h
    · rename_i t' ht
      cases h
      exact ht

theorem next_of {R : Bytes} {lk : TokKind} {d : Bool} {w : Nat} {t : STok}
    (h1 : triviaLen (R.length + 1) R = some w) (h2 : token (R.drop w) lk d = some t) : next R lk d = .tok w t := by
  unfold next
  rw [h1]
  simp only [h2]

/-- **forward extension of a step**: a step of the reference lexer that ends strictly inside `R` is the same step on
`R ++ W` -/
theorem next_append {R : Bytes} {lk : TokKind} {d : Bool} {w : Nat} {t : STok} (h : next R lk d = .tok w t)
    (h1 : 1 ≤ t.len) (hlt : w + t.len < R.length) (W : Bytes) : next (R ++ W) lk d = .tok w t := by
  have htl := next_trivia h
  have htk := next_token h
  have hne : ∃ c s, R.drop w = c :: s := by
    cases hd : R.drop w with
    | nil =>
      have := congrArg List.length hd
      simp only [List.length_drop, List.length_nil] at this
      omega
    | cons c s => exact ⟨c, s, rfl⟩
  obtain ⟨c, s, hcs⟩ := hne
  have hascii : ∀ x, (R.drop w).head? = some x → x.toNat < 0x80 := by
    intro x hx
    rw [hcs] at hx htk
    simp only [List.head?_cons, Option.some.injEq] at hx
    subst hx
    exact token_head_ascii htk
  have h1' := triviaLen_append htl (by omega) (by omega) hascii W (F' := (R ++ W).length + 1) (by omega)
  apply next_of h1'
  rw [List.drop_append_of_le_length (by omega)]
  exact token_append htk h1 (by simp only [List.length_drop]; omega) W

/-! ## partial runs of the model -/

/-- `Run buf s l s'`: from `s` the model produces the non-`<eof>` tokens `l` and reaches `s'` -/
inductive Run (buf : Bytes) : State → List Token → State → Prop
  | nil (s : State) : Run buf s [] s
  | cons {s s1 s' : State} {l : List Token} : nextToken buf false s = .ok s1 → s1.tok.kind ≠ .eof →
      Run buf s1 l s' → Run buf s (s1.tok :: l) s'

theorem Run.snoc {buf : Bytes} {s s' s'' : State} {l : List Token} (h : Run buf s l s')
    (hn : nextToken buf false s' = .ok s'') (hk : s''.tok.kind ≠ .eof) : Run buf s (l ++ [s''.tok]) s'' := by
  induction h with
  | nil s => exact Run.cons hn hk (Run.nil _)
  | cons h1 h2 _ ih => exact Run.cons h1 h2 (ih hn)

theorem Run.steps {buf : Bytes} {s s' : State} {l l' : List Token} (h : Run buf s l s') (h' : Steps buf s' l') :
    Steps buf s (l ++ l') := by
  induction h with
  | nil s => exact h'
  | cons h1 h2 _ ih => exact Steps.cons h1 h2 (ih h')

/-! ## the state of the lexer after a list of tokens -/

/-- end of the last token (0 for none) -/
def endOf (l : List Token) : Nat := (l.getLast?.map (·.end)).getD 0

/-- previous kind and dot-identifier flag after the tokens `l`, from `(lk, d)` -/
def stateAfter : TokKind × Bool → List Token → TokKind × Bool
  | st, [] => st
  | (lk, d), t :: l => stateAfter (t.kind, !d && t.kind == .sym [46] && dotEnables lk) l

theorem stateAfter_snoc (st : TokKind × Bool) (l : List Token) (t : Token) :
    stateAfter st (l ++ [t]) =
      (t.kind, !(stateAfter st l).2 && t.kind == .sym [46] && dotEnables (stateAfter st l).1) := by
  induction l generalizing st with
  | nil => obtain ⟨lk, d⟩ := st; rfl
  | cons a l ih => obtain ⟨lk, d⟩ := st; simp only [List.cons_append, stateAfter, ih]

theorem endOf_snoc (l : List Token) (t : Token) : endOf (l ++ [t]) = t.end := by
  simp [endOf]

/-- the initial state of the lexer: previous kind `""`, dot flag off -/
def st0 : TokKind × Bool := (.sym [], false)

/-! ## the junction conditions -/

/-- Conditions under which `u ++ blanks ++ v` lexes to the tokens of `u` followed by the (shifted) tokens of `v`.
`tu`, `eu`: the tokens of `u` and its `<eof>`; `tv`, `ev`: those of `v`, lexed from the state `sv` (for `lexAll v`:
`sv = Lex.init`). -/
structure Junction (u : Bytes) (tu : List Token) (k : Nat) (v : Bytes) (sv : State) (tv : List Token) (ev : Token) :
    Prop where
  /-- `u` ends with its last token: no trailing white space or comment (which would merge with what follows; a
  trailing `-- …` comment would swallow it) -/
  noTrail : endOf tu = u.length
  /-- the last token of `u` is not continued: the reference lexer, run on the last chunk of `u` (the trivia in front
  of the last token and that token) followed by the FIRST BYTE `b` of `blanks ++ v`, takes the same step as on the
  chunk alone.  By token class this means: `b` is not an identifier character after a word / number / parameter
  (`token_word`, `token_field`, `token_param`, `token_number`), not `.` after a decimal integer, not a quote after a
  word that spells a literal prefix (`r`, `b`, `rb`, `br`) or after an empty string literal, not the second byte of
  a longer operator (`<<` `<=` `<>` `>>` `>=` `+=` `-=` `->` `=>` `|>` `||` `!=` `@@`, `punctLen_*`) nor of a comment
  opener (`--` `//` `/*`), not a digit after a `.` that is not in field position (`token_dot`). -/
  last : ∀ pre tl, tu = pre ++ [tl] → ∀ b rest, List.replicate k 32 ++ v = b :: rest →
    next (u.drop (endOf pre) ++ [b]) (stateAfter st0 pre).1 (stateAfter st0 pre).2 =
      next (u.drop (endOf pre)) (stateAfter st0 pre).1 (stateAfter st0 pre).2
  /-- the dot-identifier flag after `u` is the one `v` was lexed with (after `x.` the next token is lexed in field
  mode: then `v` must have been lexed from a state with `dotIdent = true`) -/
  dot : sv.dotIdent = (stateAfter st0 tu).2
  /-- the previous-kind context is respected: same dot-enabling class, or the first token of `v` does not start
  with `.` -/
  ctx : dotEnables sv.tok.kind = dotEnables (stateAfter st0 tu).1 ∨
    ∀ t1, (tv ++ [ev]).head? = some t1 → t1.raw.head? ≠ some 46 ∧ t1.kind ≠ .sym [46]

/-- the junction conditions for a concrete token list: the universally quantified decomposition `tu = pre ++ [tl]` is
`pre = tu.dropLast` -/
theorem junction_of {u : Bytes} {tu : List Token} {k : Nat} {v : Bytes} {sv : State} {tv : List Token} {ev : Token}
    (h1 : endOf tu = u.length)
    (h2 : tu ≠ [] → ∀ b rest, List.replicate k 32 ++ v = b :: rest →
      next (u.drop (endOf tu.dropLast) ++ [b]) (stateAfter st0 tu.dropLast).1 (stateAfter st0 tu.dropLast).2 =
        next (u.drop (endOf tu.dropLast)) (stateAfter st0 tu.dropLast).1 (stateAfter st0 tu.dropLast).2)
    (h3 : sv.dotIdent = (stateAfter st0 tu).2)
    (h4 : dotEnables sv.tok.kind = dotEnables (stateAfter st0 tu).1 ∨
      ∀ t1, (tv ++ [ev]).head? = some t1 → t1.raw.head? ≠ some 46 ∧ t1.kind ≠ .sym [46]) :
    Junction u tu k v sv tv ev := by
  refine ⟨h1, ?_, h3, h4⟩
  intro pre tl htu b rest hW
  have hd : tu.dropLast = pre := by rw [htu, List.dropLast_concat]
  have := h2 (by rw [htu]; simp) b rest hW
  rw [hd] at this
  exact this

/-! ## phase A: the tokens of `u`, read in `u ++ W` -/

theorem steps_at_end {buf : Bytes} {s : State} {l : List Token} (h : Steps buf s l) (hp : s.pos = buf.length) :
    ∃ x, l = [x] := by
  cases h with
  | last hn hk => exact ⟨_, rfl⟩
  | cons hn hk _ =>
    exfalso
    have := (nextToken_progress hn (by omega)).2.2.1 hk
    have := (nextToken_frame hn).le_len
    omega

theorem phaseA {u : Bytes} {tu : List Token} (W : Bytes)
    (hlast : ∀ pre tl, tu = pre ++ [tl] → ∀ b rest, W = b :: rest →
      next (u.drop (endOf pre) ++ [b]) (stateAfter st0 pre).1 (stateAfter st0 pre).2 =
        next (u.drop (endOf pre)) (stateAfter st0 pre).1 (stateAfter st0 pre).2)
    (hnt : endOf tu = u.length) :
    ∀ (l : List Token) (eu : Token) (s : State), Steps u s (l ++ [eu]) → ∀ (c : List Token), tu = c ++ l →
      s.pos = endOf c → (s.tok.kind, s.dotIdent) = stateAfter st0 c → s.pos ≤ u.length →
      ∀ s2 : State, s2.pos = s.pos → s2.tok.kind = s.tok.kind → s2.dotIdent = s.dotIdent →
      ∃ l2 s2', Run (u ++ W) s2 l2 s2' ∧ l2.map tokRec = l.map tokRec ∧ s2'.pos = u.length ∧
        (s2'.tok.kind, s2'.dotIdent) = stateAfter st0 tu := by
  intro l
  induction l with
  | nil =>
    intro eu s _ c hc hpos hst hp s2 hp2 hk2 hd2
    rw [List.append_nil] at hc
    subst hc
    exact ⟨[], s2, Run.nil _, rfl, by rw [hp2, hpos, hnt], by rw [hk2, hd2, hst]⟩
  | cons a l ih =>
    intro eu s hsteps c hc hpos hst hp s2 hp2 hk2 hd2
    generalize hL : (a :: l) ++ [eu] = L at hsteps
    cases hsteps with
    | last hn hk =>
      exact absurd (congrArg List.length hL) (by simp)
    | @cons _ s1 l' hn hk hrest =>
      simp only [List.cons_append, List.cons.injEq] at hL
      obtain ⟨ha, hl'⟩ := hL
      subst ha hl'
      -- `a = s1.tok`
      have fr := nextToken_frame hn
      have pg := nextToken_progress hn hp
      obtain ⟨w, t, g0, g1, g2, g3, g4, g5, g6, g7, g8, g9⟩ := spec_step hp hn
      have hlen1 : 1 ≤ t.len := by
        have := pg.2.2.2 rfl hk
        omega
      have hdropB : (u ++ W).drop s2.pos = u.drop s.pos ++ W := by
        rw [hp2, List.drop_append_of_le_length hp]
      -- the same step of the reference lexer on the longer buffer
      have hnext : next (u.drop s.pos ++ W) s.tok.kind s.dotIdent = .tok w t := by
        by_cases hin : s1.pos < u.length
        · exact next_append g0 hlen1 (by simp only [List.length_drop]; omega) W
        · have hs1 : s1.pos = u.length := by omega
          obtain ⟨x, hx⟩ := steps_at_end hrest hs1
          have hl : l = [] := by
            cases l with
            | nil => rfl
            | cons y l' =>
              have := congrArg List.length hx
              simp at this
          subst hl
          cases W with
          | nil => rw [List.append_nil]; exact g0
          | cons b rest =>
            have hj := hlast c s1.tok (by rw [hc]) b rest rfl
            rw [← hpos] at hj
            have hst1 : (stateAfter st0 c).1 = s.tok.kind := by rw [← hst]
            have hst2 : (stateAfter st0 c).2 = s.dotIdent := by rw [← hst]
            rw [hst1, hst2, g0] at hj
            have hlt' : w + t.len < (u.drop s.pos ++ [b]).length := by
              simp only [List.length_append, List.length_drop, List.length_cons, List.length_nil]
              omega
            have := next_append hj hlen1 hlt' rest
            rw [List.append_assoc] at this
            exact this
      obtain ⟨s2', e0, e1, e2, e3, e4, e5⟩ := step_transfer (b2 := u ++ W) (s2 := s2) (w2 := w) (off := 0) hp
        (by rw [hp2, List.length_append]; omega) hn g0 (by rw [hdropB, hk2, hd2]; exact hnext) (by rw [hk2, hd2])
        (by omega)
        (by rw [hp2, List.drop_append_of_le_length (by omega), List.take_append_of_le_length
          (by simp only [List.length_drop]; omega)])
      rw [shiftRec_zero] at e1
      have hst' : (s1.tok.kind, s1.dotIdent) = stateAfter st0 (c ++ [s1.tok]) := by
        rw [stateAfter_snoc, ← hst, g7]
        simp only [dotAfter, g3]
      obtain ⟨l2, s2'', r1, r2, r3, r4⟩ := ih eu s1 hrest (c ++ [s1.tok]) (by rw [hc]; simp)
        (by rw [endOf_snoc, fr.tok_end]) hst' fr.le_len s2' (by omega) e4 e5
      exact ⟨s2'.tok :: l2, s2'', Run.cons e0 (by rw [e4]; exact hk) r1, by simp [e1, r2], r3, r4⟩

/-! ## phase B: the tokens of `v`, read after `u ++ blanks` -/

theorem next_lk_change {R : Bytes} {lk lk' : TokKind} {d : Bool} {w : Nat} {t : STok} (h : next R lk d = .tok w t)
    (hc : dotEnables lk' = dotEnables lk ∨ (R.drop w).head? ≠ some 46) : next R lk' d = .tok w t := by
  apply next_of (next_trivia h)
  rw [← next_token h]
  rcases hc with hc | hc
  · exact token_lk_congr d hc
  · cases hd : R.drop w with
    | nil => rfl
    | cons c s =>
      rw [hd] at hc
      simp only [List.head?_cons, ne_eq, Option.some.injEq] at hc
      exact token_lk_nodot s lk' lk d (by simpa using hc)

theorem phaseB {u v : Bytes} (k : Nat) {sv : State} {L : List Token} (hv : Steps v sv L) (hsv : sv.pos = 0)
    (s2 : State) (hp2 : s2.pos = u.length) (hd2 : s2.dotIdent = sv.dotIdent)
    (hctx : dotEnables s2.tok.kind = dotEnables sv.tok.kind ∨
      ∀ t1, L.head? = some t1 → t1.raw.head? ≠ some 46 ∧ t1.kind ≠ .sym [46]) :
    ∃ l2, Steps (u ++ List.replicate k 32 ++ v) s2 l2 ∧
      l2.map tokRec = L.map (fun t => shiftRec (u.length + k) (tokRec t)) := by
  have hp : sv.pos ≤ v.length := by omega
  -- the first step
  have first : ∀ s1 : State, nextToken v false sv = .ok s1 → L.head? = some s1.tok →
      ∃ s2', nextToken (u ++ List.replicate k 32 ++ v) false s2 = .ok s2' ∧
        tokRec s2'.tok = shiftRec (u.length + k) (tokRec s1.tok) ∧ s2'.pos = s1.pos + (u.length + k) ∧
        s2'.tok.kind = s1.tok.kind ∧ s2'.dotIdent = s1.dotIdent := by
    intro s1 hn hhead
    have pg := nextToken_progress hn hp
    obtain ⟨w, t, g0, g1, g2, g3, g4, g5, g6, g7, g8, g9⟩ := spec_step hp hn
    rw [hsv, List.drop_zero] at g0
    have hdropB : (u ++ List.replicate k 32 ++ v).drop s2.pos = List.replicate k 32 ++ v := by
      rw [hp2, List.append_assoc, List.drop_left]
    have hhd : dotEnables s2.tok.kind = dotEnables sv.tok.kind ∨ (v.drop w).head? ≠ some 46 := by
      rcases hctx with h | h
      · exact Or.inl h
      · right
        obtain ⟨h1, _⟩ := h s1.tok hhead
        by_cases hk : s1.tok.kind = .eof
        · have := (pg.1 hk).1
          have hw : w = v.length := by omega
          rw [hw, List.drop_length]; simp
        · have hlen := pg.2.2.2 rfl hk
          rw [g6, hsv, Nat.zero_add] at h1
          cases hdv : v.drop w with
          | nil => simp
          | cons c r =>
            rw [hdv] at h1
            have : 1 ≤ t.len := by omega
            obtain ⟨m, hm⟩ : ∃ m, t.len = m + 1 := ⟨t.len - 1, by omega⟩
            rw [hm] at h1
            simpa using h1
    have h2 : next (List.replicate k 32 ++ v) s2.tok.kind s2.dotIdent = .tok (w + k) t := by
      rw [hd2]
      exact next_blanks_gen k (next_lk_change g0 hhd)
    have hk : dotAfter s2.tok.kind s2.dotIdent t = dotAfter sv.tok.kind sv.dotIdent t := by
      simp only [dotAfter, hd2]
      rcases hctx with h | h
      · rw [h]
      · obtain ⟨_, h2'⟩ := h s1.tok hhead
        rw [g3] at h2'
        have : (t.kind == TokKind.sym [46]) = false := by simpa using h2'
        simp [this]
    obtain ⟨s2', e0, e1, e2, _, e4, e5⟩ := step_transfer (b2 := u ++ List.replicate k 32 ++ v) (s2 := s2)
      (w1 := w) (w2 := w + k) (off := u.length + k) hp
      (by rw [hp2]; simp only [List.length_append]; omega) hn (by rw [hsv, List.drop_zero]; exact g0)
      (by rw [hdropB]; exact h2) hk (by omega)
      (by
        rw [hp2, hsv, Nat.zero_add, show u.length + (w + k) = (u ++ List.replicate k (32 : UInt8)).length + w by
          simp only [List.length_append, List.length_replicate]; omega]
        rw [← List.drop_drop, List.drop_left])
    exact ⟨s2', e0, e1, e2, e4, e5⟩
  cases hv with
  | last hn hk =>
    obtain ⟨s2', e0, e1, _, e4, _⟩ := first _ hn rfl
    exact ⟨[s2'.tok], Steps.last e0 (by rw [e4]; exact hk), by simp [e1]⟩
  | @cons _ s1 l hn hk hrest =>
    obtain ⟨s2', e0, e1, e2, e4, e5⟩ := first _ hn rfl
    obtain ⟨l2, hs2, hm2⟩ := steps_prefix (u ++ List.replicate k 32) hrest (nextToken_frame hn).le_len s2'
      (by rw [e2]; simp only [List.length_append, List.length_replicate]) e4 e5
    refine ⟨s2'.tok :: l2, Steps.cons e0 (by rw [e4]; exact hk) hs2, ?_⟩
    simp only [List.map_cons, e1, hm2, List.length_append, List.length_replicate]

/-! ## the concatenation theorem -/

/-- **Concatenation, on lexer states.**  `u` lexes to `tu ++ [eu]`; `v`, lexed from the state `sv` at offset 0
(previous kind and dot flag as the junction demands), gives `tv ++ [ev]`; then `u ++ blanks ++ v` lexes to the tokens
of `u` followed by those of `v` shifted by `|u| + k` (kind, text, value, base, positions). -/
theorem concat_steps {u v : Bytes} {tu tv : List Token} {eu ev : Token} {sv : State} (k : Nat)
    (hu : Lex.lexAll u = .ok (tu ++ [eu])) (hv : Steps v sv (tv ++ [ev])) (hsv : sv.pos = 0)
    (hj : Junction u tu k v sv tv ev) :
    ∃ ts, Lex.lexAll (u ++ List.replicate k 32 ++ v) = .ok ts ∧
      ts.map tokRec = tu.map tokRec ++ (tv ++ [ev]).map (fun t => shiftRec (u.length + k) (tokRec t)) := by
  obtain ⟨l2, s2', r1, r2, r3, r4⟩ := phaseA (u := u) (tu := tu) (List.replicate k 32 ++ v) hj.last hj.noTrail tu eu
    Lex.init (lexAll_steps hu) [] (by simp) rfl rfl (Nat.zero_le _) Lex.init rfl rfl rfl
  have hk' : s2'.tok.kind = (stateAfter st0 tu).1 := by rw [← r4]
  have hd' : s2'.dotIdent = (stateAfter st0 tu).2 := by rw [← r4]
  obtain ⟨l3, hs3, hm3⟩ := phaseB (u := u) k hv hsv s2' r3 (by rw [hd', hj.dot])
    (by rw [hk']; exact hj.ctx.imp Eq.symm id)
  rw [← List.append_assoc] at r1
  exact ⟨l2 ++ l3, steps_lexAll (r1.steps hs3), by rw [List.map_append, r2, hm3]⟩

/-- **Concatenation.**  If `u` lexes to `tu ++ [<eof>]` and `v` lexes to `tv ++ [<eof>]`, then `u ++ blanks ++ v` lexes
to `tu ++ shift tv ++ [shift <eof>]`, under the junction conditions (`Junction`, with `sv = init`: the lexer is not in
dot-identifier mode after `u`, and either the last token of `u` does not enable it or `v` does not start with `.`). -/
theorem concat_lexes {u v : Bytes} {tu tv : List Token} {eu ev : Token} (k : Nat)
    (hu : Lex.lexAll u = .ok (tu ++ [eu])) (hv : Lex.lexAll v = .ok (tv ++ [ev]))
    (hj : Junction u tu k v Lex.init tv ev) :
    ∃ ts, Lex.lexAll (u ++ List.replicate k 32 ++ v) = .ok ts ∧
      ts.map tokRec = tu.map tokRec ++ tv.map (fun t => shiftRec (u.length + k) (tokRec t)) ++
        [shiftRec (u.length + k) (tokRec ev)] := by
  obtain ⟨ts, h1, h2⟩ := concat_steps k hu (lexAll_steps hv) rfl hj
  exact ⟨ts, h1, by rw [h2, List.map_append]; simp⟩

end MF.Concat
