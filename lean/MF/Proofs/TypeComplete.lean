/-
  MF.Proofs.TypeComplete — completeness of the `ParseType` model with a CONCRETE fuel: whenever the (expanded) tokens in
  front of the parser read as the yield of a `wf` tree `t` and what follows cannot continue a type, `parseType` returns
  exactly `t`, for every fuel `≥ needT t`.
-/
import MF.Proofs.TypeSound
import MF.Proofs.TypeDeriv
namespace MF.TypeP
open MF.TypeG

/-! ## "for every fuel from `n` on" -/

def EvN {α : Type} (n : Nat) (p : Nat → Res α) (r : Res α) : Prop := ∀ f, n ≤ f → p f = r

theorem EvN.mono {α : Type} {n m : Nat} {p : Nat → Res α} {r : Res α} (h : EvN n p r) (hnm : n ≤ m) : EvN m p r :=
  fun f hf => h f (by omega)

theorem EvN.const {α : Type} (n : Nat) (r : Res α) : EvN n (fun _ => r) r := fun _ _ => rfl

/-- one unit of fuel for the call itself -/
theorem EvN.step {α : Type} {n : Nat} {p q : Nat → Res α} {r : Res α} (h : ∀ f, p (f + 1) = q f) (hq : EvN n q r) :
    EvN (n + 1) p r := by
  intro f hf
  obtain ⟨g, rfl⟩ : ∃ g, f = g + 1 := ⟨f - 1, by omega⟩
  rw [h g]; exact hq g (by omega)

theorem EvN.bind {α β : Type} {n : Nat} {p : Nat → Res α} {k : Nat → α → Res β} {a : α} {r : Res β}
    (hp : EvN n p (.ok a)) (hk : EvN n (fun f => k f a) r) : EvN n (fun f => (p f).bind (k f)) r := by
  intro f hf
  show (p f).bind (k f) = r
  rw [hp f hf]; exact hk f hf

theorem EvN.congr {α : Type} {n : Nat} {p q : Nat → Res α} {r : Res α} (h : ∀ f, p f = q f) (hq : EvN n q r) :
    EvN n p r := fun f hf => (h f).trans (hq f hf)

/-! ## reading the expanded list -/

/-- class of the first token of an (expanded) list -/
def curX : List Token → TK
  | [] => .eof
  | u :: _ => tk u.kind

/-- a `>>` reads as `>` first, a `<>` as `<` -/
def xcls : TK → TK
  | .shr => .gt
  | .ltgt => .lt
  | c => c

theorem xcls_eq_gt {c : TK} (h : xcls c = .gt) : c = .gt ∨ c = .shr := by
  cases c <;> simp [xcls] at h ⊢

theorem xcls_eq_eof {c : TK} (h : xcls c = .eof) : c = .eof := by
  cases c <;> simp [xcls] at h ⊢

theorem curX_expand (ts : PState) : curX (expand ts) = xcls (cur ts) := by
  cases ts with
  | nil => rfl
  | cons t tl =>
    simp only [expand, cur_cons]
    split
    · rename_i h; rw [h]; simp [curX, xcls]
    · rename_i h; rw [h]; simp [curX, xcls]
    · rename_i h1 h2
      simp only [curX]
      cases h : tk t.kind <;> simp_all [xcls]

/-- a token of the expanded list that is neither `>` nor `<` is a token of the list -/
theorem plain_head {ts : PState} {y : Token} {more : List Token} (h : expand ts = y :: more)
    (hg : tk y.kind ≠ .gt) (hl : tk y.kind ≠ .lt) : ∃ tl, ts = y :: tl ∧ expand tl = more := by
  cases ts with
  | nil => simp at h
  | cons t tl =>
    simp only [expand] at h
    split at h
    · simp only [List.cons.injEq] at h
      exact absurd (by rw [← h.1]; simp) hg
    · simp only [List.cons.injEq] at h
      exact absurd (by rw [← h.1]; simp) hl
    · simp only [List.cons.injEq] at h
      obtain ⟨rfl, rfl⟩ := h
      exact ⟨tl, rfl, rfl⟩

/-- a `>` of the expanded list is a `>` token, or the first half of a `>>` token -/
theorem gt_head {ts : PState} {y : Token} {more : List Token} (h : expand ts = y :: more) (hg : tk y.kind = .gt) :
    (∃ tl, ts = y :: tl ∧ expand tl = more) ∨
    (∃ u tl, ts = u :: tl ∧ tk u.kind = .shr ∧ y = gt1 u ∧ more = gt2 u :: expand tl) := by
  cases ts with
  | nil => simp at h
  | cons t tl =>
    simp only [expand] at h
    split at h
    · rename_i hs
      simp only [List.cons.injEq] at h
      exact Or.inr ⟨t, tl, rfl, hs, h.1.symm, h.2.symm⟩
    · simp only [List.cons.injEq] at h
      rw [← h.1] at hg
      simp at hg
    · simp only [List.cons.injEq] at h
      obtain ⟨rfl, rfl⟩ := h
      exact Or.inl ⟨tl, rfl, rfl⟩

/-- a `<` of the expanded list is a `<` token, or the first half of a `<>` token -/
theorem lt_head {ts : PState} {y : Token} {more : List Token} (h : expand ts = y :: more) (hg : tk y.kind = .lt) :
    (∃ tl, ts = y :: tl ∧ expand tl = more) ∨
    (∃ u tl, ts = u :: tl ∧ tk u.kind = .ltgt ∧ y = lt1 u ∧ more = gt2 u :: expand tl) := by
  cases ts with
  | nil => simp at h
  | cons t tl =>
    simp only [expand] at h
    split at h
    · simp only [List.cons.injEq] at h
      rw [← h.1] at hg
      simp at hg
    · rename_i hs
      simp only [List.cons.injEq] at h
      exact Or.inr ⟨t, tl, rfl, hs, h.1.symm, h.2.symm⟩
    · simp only [List.cons.injEq] at h
      obtain ⟨rfl, rfl⟩ := h
      exact Or.inl ⟨tl, rfl, rfl⟩

/-! ## first tokens -/

/-- classes that can start a type -/
def TStart (c : TK) : Prop := c = .ident ∨ c = .array ∨ c = .struct_

theorem yieldT_head : ∀ t : Ty, wf t = true → ∃ y ys, yieldT t = y :: ys ∧ TStart y.cls
  | .simple p n, _ => ⟨_, _, rfl, Or.inl rfl⟩
  | .named [], h => by simp [wf] at h
  | .named (a :: rest), _ => ⟨.ident a, yieldDots rest, by simp [yieldT, yieldPath_cons], Or.inl rfl⟩
  | .array a g item, _ => ⟨_, _, rfl, Or.inr (Or.inl rfl)⟩
  | .struct s g fs, _ => ⟨_, _, rfl, Or.inr (Or.inr rfl)⟩

theorem field_head {i : Option Ident} {t : Ty} (hw : wf t = true) (tail : List YT) :
    ∃ y ys, yieldName i ++ yieldT t ++ tail = y :: ys ∧ TStart y.cls := by
  cases i with
  | some id => exact ⟨.ident id, _, rfl, Or.inl rfl⟩
  | none =>
    obtain ⟨y, ys, e, hy⟩ := yieldT_head t hw
    exact ⟨y, ys ++ tail, by simp [yieldName, e], hy⟩

theorem TStart.plain {c : TK} (h : TStart c) : c ≠ .gt ∧ c ≠ .lt ∧ c ≠ .shr ∧ c ≠ .comma ∧ c ≠ .dot ∧ c ≠ .eof := by
  rcases h with rfl | rfl | rfl <;> decide

/-! ## fuel -/

mutual
/-- fuel `parseType` needs to return the tree -/
def needT : Ty → Nat
  | .simple _ _ => 1
  | .named path => path.length + 1
  | .array _ _ item => needT item + 2
  | .struct _ _ fs => needFs fs + 3
/-- fuel `parseFieldList` needs (0 for the empty list, which does not reach it) -/
def needFs : Fields → Nat
  | .nil => 0
  | .cons _ t rest => max (needT t + 1) (needLoop rest) + 1
/-- fuel `fieldLoop` needs -/
def needLoop : Fields → Nat
  | .nil => 1
  | .cons _ t rest => max (needT t + 1) (needLoop rest) + 1
end

/-! ## leaves -/

theorem parseIdent_cons {t : Token} {ts : PState} (h : tk t.kind = .ident) :
    parseIdent (t :: ts) = .ok (⟨t.pos, t.end, t.asString⟩, ts) := by
  simp [parseIdent, expect_cons h]

/-- what may follow a path: anything but `.` -/
theorem pathLoop_complete (ids : List Ident) :
    ∀ (ts : PState) (pre rest : List Token), Match (yieldDots ids) pre → expand ts = pre ++ rest → curX rest ≠ .dot →
      ∃ ts', expand ts' = rest ∧ EvN (ids.length + 1) (fun f => pathLoop f ts) (.ok (ids, ts')) := by
  induction ids with
  | nil =>
    intro ts pre rest hm he hf
    have := hm.nil_left; subst this
    simp only [List.nil_append] at he
    refine ⟨ts, he, ?_⟩
    apply EvN.step (q := fun _ => .ok ([], ts)) _ (EvN.const _ _)
    intro f
    have hc : cur ts ≠ .dot := by
      intro hc
      apply hf
      rw [← he, curX_expand, hc]; rfl
    simp [pathLoop, hc]
  | cons a ids ih =>
    intro ts pre rest hm he hf
    simp only [yieldDots] at hm
    obtain ⟨d, r1, rfl, hd, hm1⟩ := match_cons_inv hm
    obtain ⟨u, r2, rfl, hu, hm2⟩ := match_cons_inv hm1
    have hdk : tk d.kind = .dot := hd
    obtain ⟨huk, rfl⟩ := hu
    obtain ⟨tl, rfl, he1⟩ := plain_head he (by rw [hdk]; decide) (by rw [hdk]; decide)
    obtain ⟨tl2, rfl, he2⟩ := plain_head he1 (by rw [huk]; decide) (by rw [huk]; decide)
    obtain ⟨ts', e', ev⟩ := ih tl2 r2 rest hm2 he2 hf
    refine ⟨ts', e', ?_⟩
    simp only [List.length_cons]
    apply EvN.step (q := fun f => (pathLoop f tl2).bind fun q => .ok (⟨u.pos, u.end, u.asString⟩ :: q.1, q.2))
    · intro f
      simp [pathLoop, hdk, parseIdent_cons huk]
    · exact EvN.bind ev (EvN.const _ _)


/-! ## the closing `>` -/

theorem parseGt_complete {ts : PState} {tg : Token} {rest : List Token} (he : expand ts = tg :: rest)
    (hg : tk tg.kind = .gt) : ∃ ts', expand ts' = rest ∧ parseGt ts = .ok (tg.pos, ts') := by
  rcases gt_head he hg with ⟨tl, rfl, e⟩ | ⟨u, tl, rfl, hu, rfl, rfl⟩
  · refine ⟨tl, e, ?_⟩
    simp [parseGt, hg, expect_cons hg]
  · refine ⟨splitTok u :: tl, by rw [expand_splitTok]; rfl, ?_⟩
    simp [parseGt, hu]

/-! ## look-aheads -/

theorem lookaheadType_true {t : Token} {ts : PState} (h : TStart (tk t.kind)) : lookaheadType (t :: ts) = true := by
  rcases h with h | h | h <;> simp [lookaheadType, h]

theorem lookaheadType_false {ts : PState} (h : xcls (cur ts) = .comma ∨ xcls (cur ts) = .gt ∨ xcls (cur ts) = .dot ∨
    xcls (cur ts) = .eof) : lookaheadType ts = false := by
  unfold lookaheadType
  cases hc : cur ts <;> simp_all [xcls]

theorem yieldT_ident_second : ∀ t : Ty, wf t = true → ∀ y ys, yieldT t = y :: ys → y.cls = .ident →
    ys = [] ∨ ∃ ys', ys = .sym .dot :: ys'
  | .simple p n, _, y, ys, e, _ => by
    simp only [yieldT, List.cons.injEq] at e
    exact Or.inl e.2.symm
  | .named [], h, _, _, _, _ => by simp [wf] at h
  | .named (a :: rest), _, y, ys, e, _ => by
    simp only [yieldT, yieldPath_cons, List.cons.injEq] at e
    rw [← e.2]
    cases rest with
    | nil => exact Or.inl rfl
    | cons b r => exact Or.inr ⟨_, rfl⟩
  | .array a g item, _, y, ys, e, hy => by
    simp only [yieldT] at e
    injection e with e1 e2
    rw [← e1] at hy
    cases hy
  | .struct s g fs, _, y, ys, e, hy => by
    simp only [yieldT] at e
    injection e with e1 e2
    rw [← e1] at hy
    cases hy

/-! ## the productions -/

/-- what may follow a type: anything but `.` (which would continue a path) -/
def CompT (t : Ty) : Prop :=
  ∀ (ts : PState) (pre rest : List Token), Match (yieldT t) pre → expand ts = pre ++ rest → curX rest ≠ .dot →
    ∃ ts', expand ts' = rest ∧ EvN (needT t) (fun f => parseType f ts) (.ok (t, ts'))

/-- what follows a field inside `STRUCT< … >`: `,` or `>` -/
def CompField (i : Option Ident) (t : Ty) : Prop :=
  ∀ (ts : PState) (pre rest : List Token), Match (yieldName i ++ yieldT t) pre → expand ts = pre ++ rest →
    (curX rest = .comma ∨ curX rest = .gt) →
    ∃ ts', expand ts' = rest ∧ EvN (needT t + 1) (fun f => parseFieldType f ts) (.ok ((i, t), ts'))

def CompLoop (fs : Fields) : Prop :=
  ∀ (ts : PState) (pre rest : List Token), Match (yieldMore fs) pre → expand ts = pre ++ rest → curX rest = .gt →
    ∃ ts', expand ts' = rest ∧ EvN (needLoop fs) (fun f => fieldLoop f ts) (.ok (fs, ts'))

theorem curX_append_of_ne {a b : List Token} (h : a ≠ []) : curX (a ++ b) = curX a := by
  cases a with
  | nil => exact absurd rfl h
  | cons u a => rfl

theorem field_complete {i : Option Ident} {t : Ty} (hw : wf t = true) (ih : CompT t) : CompField i t := by
  intro ts pre rest hm he hf
  have hfd : curX rest ≠ .dot := by rcases hf with h | h <;> rw [h] <;> decide
  obtain ⟨pn, pt, rfl, hmn, hmt⟩ := hm.append_inv
  obtain ⟨y, ys, ey, hy⟩ := yieldT_head t hw
  rw [ey] at hmt
  obtain ⟨ty, pt', rfl, hyk, hmt'⟩ := match_cons_inv hmt
  have hty : TStart (tk ty.kind) := by rw [YT.ok_cls hyk]; exact hy
  have hmt0 : Match (yieldT t) (ty :: pt') := by rw [ey]; exact ⟨hyk, hmt'⟩
  cases i with
  | some id =>
    simp only [yieldName] at hmn
    obtain ⟨u, r, rfl, hu, hr⟩ := match_cons_inv hmn
    have := hr.nil_left; subst this
    obtain ⟨huk, rfl⟩ := hu
    simp only [List.cons_append, List.nil_append] at he
    obtain ⟨tl, rfl, he1⟩ := plain_head he (by rw [huk]; decide) (by rw [huk]; decide)
    obtain ⟨tl2, rfl, he2⟩ := plain_head he1 hty.plain.1 hty.plain.2.1
    obtain ⟨ts', e', ev⟩ := ih (ty :: tl2) (ty :: pt') rest hmt0 (by rw [he1]; rfl) hfd
    refine ⟨ts', e', ?_⟩
    intro f hf
    obtain ⟨g, rfl⟩ : ∃ g, f = g + 1 := ⟨f - 1, by omega⟩
    simp [parseFieldType, huk, lookaheadType_true hty, parseIdent_cons huk, ev g (by omega)]
  | none =>
    have := hmn.nil_left; subst this
    simp only [List.nil_append, List.cons_append] at he
    obtain ⟨tl, rfl, he1⟩ := plain_head he hty.plain.1 hty.plain.2.1
    obtain ⟨ts', e', ev⟩ := ih (ty :: tl) (ty :: pt') rest hmt0 (by simpa using he) hfd
    refine ⟨ts', e', ?_⟩
    have hcond : ¬ (cur (ty :: tl) = .ident ∧ lookaheadType (ty :: tl).tail = true) := by
      rintro ⟨hc, hl⟩
      have hyc : y.cls = .ident := by rw [← YT.ok_cls hyk]; exact hc
      have hla : lookaheadType tl = false := by
        apply lookaheadType_false
        rw [← curX_expand, he1]
        rcases yieldT_ident_second t hw y ys ey hyc with rfl | ⟨ys', rfl⟩
        · have := hmt'.nil_left; subst this
          rcases hf with h | h
          · exact Or.inl h
          · exact Or.inr (Or.inl h)
        · obtain ⟨d, r, rfl, hd, _⟩ := match_cons_inv hmt'
          have hdk : tk d.kind = .dot := hd
          exact Or.inr (Or.inr (Or.inl hdk))
      simp only [List.tail_cons] at hl
      rw [hla] at hl
      cases hl
    intro f hf
    obtain ⟨g, rfl⟩ : ∃ g, f = g + 1 := ⟨f - 1, by omega⟩
    simp only [parseFieldType, hcond, if_false, ev g (by omega)]
    rfl

theorem yieldMore_follow (fs : Fields) {pm rest : List Token} (hm : Match (yieldMore fs) pm) (hr : curX rest = .gt) :
    curX (pm ++ rest) = .comma ∨ curX (pm ++ rest) = .gt := by
  cases fs with
  | nil =>
    simp only [yieldMore] at hm
    have := hm.nil_left; subst this
    exact Or.inr hr
  | cons i t r =>
    simp only [yieldMore, List.cons_append] at hm
    obtain ⟨c, r', rfl, hc, _⟩ := match_cons_inv hm
    exact Or.inl hc

theorem loop_nil_complete : CompLoop .nil := by
  intro ts pre rest hm he hf
  simp only [yieldMore] at hm
  have := hm.nil_left; subst this
  simp only [List.nil_append] at he
  refine ⟨ts, he, ?_⟩
  intro f hf'
  obtain ⟨g, rfl⟩ : ∃ g, f = g + 1 := ⟨f - 1, by simp only [needLoop] at hf'; omega⟩
  have hc : cur ts ≠ .comma := by
    intro hc
    have := curX_expand ts
    rw [he, hf, hc] at this
    cases this
  simp [fieldLoop, hc]

theorem loop_cons_complete {i : Option Ident} {t : Ty} {r : Fields} (hf1 : CompField i t) (hl : CompLoop r) :
    CompLoop (.cons i t r) := by
  intro ts pre rest hm he hf
  simp only [yieldMore, List.cons_append] at hm
  obtain ⟨c, pre1, rfl, hc, hm1⟩ := match_cons_inv hm
  have hck : tk c.kind = .comma := hc
  obtain ⟨pf, pm, rfl, hmf, hmm⟩ := hm1.append_inv
  simp only [List.cons_append] at he
  obtain ⟨tl, rfl, he1⟩ := plain_head he (by rw [hck]; decide) (by rw [hck]; decide)
  obtain ⟨ts1, e1, ev1⟩ := hf1 tl pf (pm ++ rest) hmf (by rw [he1, List.append_assoc]) (yieldMore_follow r hmm hf)
  obtain ⟨ts', e', ev2⟩ := hl ts1 pm rest hmm e1 hf
  refine ⟨ts', e', ?_⟩
  intro f hf'
  simp only [needLoop] at hf'
  obtain ⟨g, rfl⟩ : ∃ g, f = g + 1 := ⟨f - 1, by omega⟩
  simp [fieldLoop, hck, ev1 g (by omega), ev2 g (by omega)]

/-- `parseFieldList` on a non-empty field list followed by `>` -/
theorem list_complete {i : Option Ident} {t : Ty} {r : Fields} (hf1 : CompField i t) (hl : CompLoop r) :
    ∀ (ts : PState) (pre rest : List Token), Match (yieldFs (.cons i t r)) pre → expand ts = pre ++ rest →
      curX rest = .gt →
      ∃ ts', expand ts' = rest ∧ EvN (needFs (.cons i t r)) (fun f => parseFieldList f ts) (.ok (.cons i t r, ts')) := by
  intro ts pre rest hm he hf
  simp only [yieldFs] at hm
  obtain ⟨pf, pm, rfl, hmf, hmm⟩ := hm.append_inv
  obtain ⟨ts1, e1, ev1⟩ := hf1 ts pf (pm ++ rest) hmf (by rw [he, List.append_assoc]) (yieldMore_follow r hmm hf)
  obtain ⟨ts', e', ev2⟩ := hl ts1 pm rest hmm e1 hf
  refine ⟨ts', e', ?_⟩
  intro f hf'
  simp only [needFs] at hf'
  obtain ⟨g, rfl⟩ : ∃ g, f = g + 1 := ⟨f - 1, by omega⟩
  simp [parseFieldList, ev1 g (by omega), ev2 g (by omega)]


/-- the class of the token after a consumed prefix, read from the expanded rest (`.` is never half of a split) -/
theorem cur_ne_dot {tl : PState} {rest : List Token} (he : expand tl = rest) (hf : curX rest ≠ .dot) :
    cur tl ≠ .dot := by
  intro hc
  apply hf
  rw [← he, curX_expand, hc]; rfl

theorem simple_complete (p : Nat) (n : Bytes) : CompT (.simple p n) := by
  intro ts pre rest hm he hf
  simp only [yieldT] at hm
  obtain ⟨y, r, rfl, hy, hr⟩ := match_cons_inv hm
  have := hr.nil_left; subst this
  obtain ⟨hk, rfl, hn⟩ := hy
  obtain ⟨tl, rfl, he1⟩ := plain_head he (by rw [hk]; decide) (by rw [hk]; decide)
  refine ⟨tl, he1, ?_⟩
  -- the look-ahead sees the token after the identifier: it is not `.`
  have hnd : cur tl ≠ .dot := cur_ne_dot he1 hf
  have hla : lookaheadSimpleType (y :: tl) = true := by
    rw [lookaheadSimpleType_cons hk]; simp [hn, hnd]
  intro f hf
  obtain ⟨g, rfl⟩ : ∃ g, f = g + 1 := ⟨f - 1, by simp only [needT] at hf; omega⟩
  simp [parseType, hk, hla, hn, parseSimpleType, expect_cons hk]

theorem named_complete (a : Ident) (ids : List Ident) (hw : wf (.named (a :: ids)) = true) :
    CompT (.named (a :: ids)) := by
  intro ts pre rest hm he hf
  simp only [yieldT, yieldPath_cons] at hm
  obtain ⟨y, pd, rfl, hy, hmd⟩ := match_cons_inv hm
  obtain ⟨hk, rfl⟩ := hy
  obtain ⟨tl, rfl, he1⟩ := plain_head he (by rw [hk]; decide) (by rw [hk]; decide)
  obtain ⟨ts', e', ev⟩ := pathLoop_complete ids tl pd rest hmd he1 hf
  refine ⟨ts', e', ?_⟩
  have hla : lookaheadSimpleType (y :: tl) = false := by
    rw [lookaheadSimpleType_cons hk]
    cases ids with
    | nil =>
      -- one component: by `wf` it does not read as a simple type name
      have hs : simpleName? y = none := by
        rw [simpleName?_eq (tk_ident.1 hk)]
        simpa [wf] using hw
      simp [hs]
    | cons b ids =>
      -- two or more components: the next token is the `.`
      simp only [yieldDots] at hmd
      obtain ⟨d, r1, rfl, hd, _⟩ := match_cons_inv hmd
      have hdk : tk d.kind = .dot := hd
      obtain ⟨tl2, rfl, _⟩ := plain_head he1 (by rw [hdk]; decide) (by rw [hdk]; decide)
      simp [hdk]
  intro f hf'
  simp only [needT, List.length_cons] at hf'
  obtain ⟨g, rfl⟩ : ∃ g, f = g + 1 := ⟨f - 1, by omega⟩
  simp [parseType, hk, hla, parseNamedType, parseIdentOrPath, parseIdent_cons hk, ev g (by omega)]

theorem array_complete {a g : Nat} {item : Ty} (hw : wf item = true) (ih : CompT item) : CompT (.array a g item) := by
  intro ts pre rest hm he _
  simp only [yieldT] at hm
  obtain ⟨ta, r1, rfl, hya, hm1⟩ := match_cons_inv hm
  obtain ⟨tl_, r2, rfl, hyl, hm2⟩ := match_cons_inv hm1
  obtain ⟨mid, last, rfl, hmi, hml⟩ := hm2.append_inv
  obtain ⟨tg, r3, rfl, hyg, hr3⟩ := match_cons_inv hml
  have := hr3.nil_left; subst this
  obtain ⟨hka, rfl⟩ := hya
  obtain ⟨hkg, rfl⟩ := hyg
  have hkl : tk tl_.kind = .lt := hyl
  simp only [List.cons_append] at he
  obtain ⟨ts1, rfl, he1⟩ := plain_head he (by rw [hka]; decide) (by rw [hka]; decide)
  -- the first token of the item
  obtain ⟨y, ys, ey, hy⟩ := yieldT_head item hw
  rw [ey] at hmi
  obtain ⟨ty, mid', rfl, hyk, hmi'⟩ := match_cons_inv hmi
  have hty : TStart (tk ty.kind) := by rw [YT.ok_cls hyk]; exact hy
  have hmi0 : Match (yieldT item) (ty :: mid') := by rw [ey]; exact ⟨hyk, hmi'⟩
  rcases lt_head he1 hkl with ⟨ts2, rfl, he2⟩ | ⟨u, tl, rfl, _, _, hbad⟩
  · obtain ⟨ts3, e3, ev⟩ := ih ts2 (ty :: mid') (tg :: rest) hmi0 (by rw [he2]; simp) (by simp [curX, hkg])
    obtain ⟨ts', e', hg⟩ := parseGt_complete e3 hkg
    refine ⟨ts', e', ?_⟩
    intro f hf
    simp only [needT] at hf
    obtain ⟨g1, rfl⟩ : ∃ g, f = g + 1 := ⟨f - 1, by omega⟩
    obtain ⟨g2, rfl⟩ : ∃ g, g1 = g + 1 := ⟨g1 - 1, by omega⟩
    simp [parseType, hka, parseArrayType, expect_cons hka, expect_cons hkl, ev g2 (by omega), hg]
  · -- `ARRAY<>`: the `>` half cannot start the item
    exfalso
    simp only [List.cons_append, List.cons.injEq] at hbad
    have := hty.plain.1
    rw [hbad.1] at this
    simp at this

theorem parseStructType_eq (f : Nat) {tS : Token} (ts1 : PState) (hk : tk tS.kind = .struct_)
    (hc : cur ts1 = .lt ∨ cur ts1 = .ltgt) :
    parseType (f + 2) (tS :: ts1) =
      (parseStructTypeFields f ts1).bind fun r => .ok (.struct tS.pos r.1.2 r.1.1, r.2) := by
  have : ¬ (cur ts1 ≠ .lt ∧ cur ts1 ≠ .ltgt) := by
    rcases hc with h | h <;> simp [h]
  simp [parseType, hk, parseStructType, expect_cons hk, this]

theorem struct_nil_complete (s g : Nat) : CompT (.struct s g .nil) := by
  intro ts pre rest hm he _
  simp only [yieldT, yieldFs] at hm
  obtain ⟨tS, r1, rfl, hys, hm1⟩ := match_cons_inv hm
  obtain ⟨tl_, r2, rfl, hyl, hm2⟩ := match_cons_inv hm1
  obtain ⟨tg, r3, rfl, hyg, hr3⟩ := match_cons_inv hm2
  have := hr3.nil_left; subst this
  obtain ⟨hks, rfl⟩ := hys
  obtain ⟨hkg, rfl⟩ := hyg
  have hkl : tk tl_.kind = .lt := hyl
  simp only [List.cons_append, List.nil_append] at he
  obtain ⟨ts1, rfl, he1⟩ := plain_head he (by rw [hks]; decide) (by rw [hks]; decide)
  rcases lt_head he1 hkl with ⟨ts2, rfl, he2⟩ | ⟨u, tl, rfl, hu, rfl, hmore⟩
  · obtain ⟨ts', e', hg⟩ := parseGt_complete he2 hkg
    refine ⟨ts', e', ?_⟩
    have hc2 : ¬ (cur ts2 ≠ .gt ∧ cur ts2 ≠ .shr) := by
      have := curX_expand ts2
      rw [he2] at this
      simp only [curX, hkg] at this
      rcases xcls_eq_gt this.symm with h | h <;> simp [h]
    intro f hf
    simp only [needT, needFs] at hf
    obtain ⟨g1, rfl⟩ : ∃ g, f = g + 3 := ⟨f - 3, by omega⟩
    show parseType (g1 + 1 + 2) _ = _
    rw [parseStructType_eq (g1 + 1) (tl_ :: ts2) hks (Or.inl hkl)]
    simp [parseStructTypeFields, hkl, expect_cons hkl, hc2, hg]
  · simp only [List.cons.injEq] at hmore
    obtain ⟨rfl, rfl⟩ := hmore
    refine ⟨tl, rfl, ?_⟩
    intro f hf
    simp only [needT, needFs] at hf
    obtain ⟨g1, rfl⟩ : ∃ g, f = g + 3 := ⟨f - 3, by omega⟩
    show parseType (g1 + 1 + 2) _ = _
    rw [parseStructType_eq (g1 + 1) (u :: tl) hks (Or.inr hu)]
    simp [parseStructTypeFields, hu]

theorem struct_cons_complete {s g : Nat} {i : Option Ident} {t : Ty} {r : Fields} (hw : wf t = true)
    (hf1 : CompField i t) (hl : CompLoop r) : CompT (.struct s g (.cons i t r)) := by
  intro ts pre rest hm he _
  simp only [yieldT] at hm
  obtain ⟨tS, r1, rfl, hys, hm1⟩ := match_cons_inv hm
  obtain ⟨tl_, r2, rfl, hyl, hm2⟩ := match_cons_inv hm1
  obtain ⟨mid, last, rfl, hmi, hml⟩ := hm2.append_inv
  obtain ⟨tg, r3, rfl, hyg, hr3⟩ := match_cons_inv hml
  have := hr3.nil_left; subst this
  obtain ⟨hks, rfl⟩ := hys
  obtain ⟨hkg, rfl⟩ := hyg
  have hkl : tk tl_.kind = .lt := hyl
  simp only [List.cons_append] at he
  obtain ⟨ts1, rfl, he1⟩ := plain_head he (by rw [hks]; decide) (by rw [hks]; decide)
  -- the first token of the first field
  have hmi_ := hmi
  simp only [yieldFs] at hmi_
  obtain ⟨y, ys, ey, hy⟩ := field_head (i := i) hw (yieldMore r)
  rw [ey] at hmi_
  obtain ⟨ty, mid', rfl, hyk, _⟩ := match_cons_inv hmi_
  have hty : TStart (tk ty.kind) := by rw [YT.ok_cls hyk]; exact hy
  rcases lt_head he1 hkl with ⟨ts2, rfl, he2⟩ | ⟨u, tl, rfl, _, _, hbad⟩
  · obtain ⟨ts3, e3, ev⟩ := list_complete hf1 hl ts2 (ty :: mid') (tg :: rest) hmi (by rw [he2]; simp) (by simp [curX, hkg])
    obtain ⟨ts', e', hg⟩ := parseGt_complete e3 hkg
    refine ⟨ts', e', ?_⟩
    have hc2 : cur ts2 ≠ .gt ∧ cur ts2 ≠ .shr := by
      simp only [List.cons_append] at he2
      obtain ⟨tl2, rfl, _⟩ := plain_head he2 hty.plain.1 hty.plain.2.1
      exact ⟨hty.plain.1, hty.plain.2.2.1⟩
    intro f hf
    simp only [needT] at hf
    obtain ⟨g1, rfl⟩ : ∃ g, f = g + 3 := ⟨f - 3, by omega⟩
    show parseType (g1 + 1 + 2) _ = _
    rw [parseStructType_eq (g1 + 1) (tl_ :: ts2) hks (Or.inl hkl)]
    simp [parseStructTypeFields, hkl, expect_cons hkl, hc2, ev g1 (by omega), hg]
  · -- `STRUCT<>` followed by a field: the `>` half cannot start a field
    exfalso
    simp only [List.cons_append, List.cons.injEq] at hbad
    have := hty.plain.1
    rw [hbad.1] at this
    simp at this

mutual
theorem completeT : ∀ t : Ty, wf t = true → CompT t
  | .simple p n, _ => simple_complete p n
  | .named [], h => by simp [wf] at h
  | .named (a :: ids), h => named_complete a ids h
  | .array a g item, h =>
    have hw : wf item = true := by simpa [wf] using h
    array_complete hw (completeT item hw)
  | .struct s g .nil, _ => struct_nil_complete s g
  | .struct s g (.cons i t r), h =>
    have hw : wf t = true ∧ wfs r = true := by simpa [wf, wfs] using h
    struct_cons_complete hw.1 (field_complete hw.1 (completeT t hw.1)) (completeLoop r hw.2)
theorem completeLoop : ∀ fs : Fields, wfs fs = true → CompLoop fs
  | .nil, _ => loop_nil_complete
  | .cons i t r, h =>
    have hw : wf t = true ∧ wfs r = true := by simpa [wfs] using h
    loop_cons_complete (field_complete hw.1 (completeT t hw.1)) (completeLoop r hw.2)
end

/-- completeness of `parseType`, with the concrete fuel `needT t` -/
theorem parseType_complete {t : Ty} (hw : wf t = true) {ts : PState} {pre rest : List Token}
    (hm : Match (yieldT t) pre) (he : expand ts = pre ++ rest) (hf : curX rest ≠ .dot) :
    ∃ ts', expand ts' = rest ∧ ∀ fuel, needT t ≤ fuel → parseType fuel ts = .ok (t, ts') :=
  completeT t hw ts pre rest hm he hf

/-- completeness of the entry point -/
theorem parseTypeTop_complete {t : Ty} (hw : wf t = true) {ts : PState} {pre rest : List Token}
    (hm : Match (yieldT t) pre) (he : expand ts = pre ++ rest) (hf : curX rest = .eof) :
    ∀ fuel, needT t ≤ fuel → parseTypeTop fuel ts = .ok t := by
  obtain ⟨ts', e', ev⟩ := parseType_complete hw hm he (by rw [hf]; decide)
  intro fuel hfuel
  have hc : cur ts' = .eof := by
    have := curX_expand ts'
    rw [e', hf] at this
    exact xcls_eq_eof this.symm
  simp [parseTypeTop, ev fuel hfuel, hc]

end MF.TypeP
