/-
  MF.Proofs.TriviaQuoted — the quoted-content scanner (strings, bytes, quoted identifiers) only reads the bytes
  of the literal it accepts: on any buffer that agrees on those bytes it returns the same result.
-/
import MF.Proofs.TriviaBytes
namespace MF.Props.C16
open MF MF.Lex

/-- `a` and `b` have the same first `n` bytes -/
structure Agree (n : Nat) (a b : Bytes) : Prop where
  take : b.take n = a.take n
  la : n ≤ a.length
  lb : n ≤ b.length

theorem Agree.get {n : Nat} {a b : Bytes} (h : Agree n a b) {i : Nat} (hi : i < n) : b[i]? = a[i]? :=
  take_eq_get h.take hi

theorem Agree.slice {n : Nat} {a b : Bytes} (h : Agree n a b) {lo hi : Nat} (hhi : hi ≤ n) :
    slice b lo hi = slice a lo hi := by
  unfold MF.slice
  apply List.ext_getElem?
  intro j
  simp only [List.getElem?_take, List.getElem?_drop]
  split
  · exact h.get (by omega)
  · rfl

theorem Agree.lslice {n : Nat} {a b : Bytes} (h : Agree n a b) {lo hi : Nat} (hhi : hi ≤ n) :
    lslice? b lo hi = lslice? a lo hi := by
  have h1 := h.la
  have h2 := h.lb
  unfold lslice? slice?
  have e1 : ¬ (a.length < hi) := by omega
  have e2 : ¬ (b.length < hi) := by omega
  simp only [e1, e2, if_false]
  have e3 : hi ≤ a.length := by omega
  have e4 : hi ≤ b.length := by omega
  simp only [e3, e4, and_true, h.slice hhi]

theorem find?_congr' {α : Type} {f g : α → Bool} {l : List α} (h : ∀ x, x ∈ l → f x = g x) :
    l.find? f = l.find? g := by
  induction l with
  | nil => rfl
  | cons x t ih =>
    simp only [List.find?_cons, h x (by simp)]
    rw [ih (fun y hy => h y (by simp [hy]))]

theorem Agree.firstBad {n : Nat} {a b : Bytes} (h : Agree n a b) {pred : UInt8 → Bool} {i size : Nat}
    (hin : i + size ≤ n) : firstBad b pred i size = firstBad a pred i size := by
  unfold Lex.firstBad
  apply find?_congr'
  intro j hj
  have : j < size := by simpa using hj
  rw [h.get (by omega)]

theorem escapeDigits_agree {a b : Bytes} {n p p₂ i : Nat} {pred : UInt8 → Bool} {start size base maxv : Nat}
    {k : ErrKind} {cp : Bool} {bs : Bytes} {i' : Nat}
    (h : escapeDigits a p i pred start size base maxv k cp = .bytes bs i') (hag : Agree n a b)
    (hin : i + size ≤ n) : escapeDigits b p₂ i pred start size base maxv k cp = .bytes bs i' := by
  unfold escapeDigits at h ⊢
  rw [hag.firstBad hin, hag.lslice hin]
  cases hfb : Lex.firstBad a pred i size with
  | some j => rw [hfb] at h; cases h
  | none =>
    rw [hfb] at h
    simp only at h ⊢
    cases hsl : lslice? a start (i + size) with
    | none => rw [hsl] at h; cases h
    | some s =>
      rw [hsl] at h
      simp only at h ⊢
      cases hpu : parseUint? s base maxv with
      | none => rw [hpu] at h; cases h
      | some u =>
        rw [hpu] at h
        simp only at h ⊢
        cases cp with
        | false => exact h
        | true =>
          simp only [if_true] at h ⊢
          split at h
          · cases h
          · rename_i hc
            rw [if_neg hc]; exact h

theorem escape_agree {a b : Bytes} {n p p₂ i : Nat} {u : Bool} {c : UInt8} {bs : Bytes} {i' : Nat}
    (h : escape a p u i c = .bytes bs i') (hag : Agree n a b) (_hi : i ≤ a.length) (hin : i' ≤ n) :
    escape b p₂ u i c = .bytes bs i' := by
  unfold escape at h ⊢
  cases hse : simpleEscape? c with
  | some x => rw [hse] at h; exact h
  | none =>
    rw [hse] at h
    simp only at h ⊢
    split at h
    · rename_i c1
      rw [if_pos c1]
      have := (escapeDigits_bytes (by decide) h).1
      exact escapeDigits_agree h hag (by omega)
    · rename_i c1
      rw [if_neg c1]
      split at h
      · rename_i c2
        rw [if_pos c2]
        split at h
        · cases h
        · rename_i c3
          rw [if_neg c3]
          have := (escapeDigits_bytes (by split <;> decide) h).1
          exact escapeDigits_agree h hag (by omega)
      · rename_i c2
        rw [if_neg c2]
        split at h
        · rename_i c3
          rw [if_pos c3]
          have := (escapeDigits_bytes (by decide) h).1
          exact escapeDigits_agree h hag (by omega)
        · cases h

theorem quotedStep_agree {a b : Bytes} {n tp p tp₂ p₂ : Nat} {q : Bytes} {raw uni isId : Bool} {i : Nat}
    {content : Bytes} {he : Bool} {R : QStep}
    (h : quotedStep a tp p q raw uni isId false i content he = R)
    (hR1 : ∀ e, R ≠ .fail e) (hR2 : R ≠ .crash) (hR3 : ∀ i' c' he', R = .next i' c' he' → i' ≤ n)
    (hag : Agree n a b) (hq : 0 < q.length) (hin : i + q.length ≤ n) :
    quotedStep b tp₂ p₂ q raw uni isId false i content he = R := by
  unfold quotedStep at h ⊢
  rw [hag.get (show i < n by omega), hag.lslice hin]
  simp only [Bool.false_eq_true, if_false] at h ⊢
  cases hc : a[i]? with
  | none => rw [hc] at h; exact absurd h.symm (hR1 _)
  | some c =>
    rw [hc] at h
    simp only at h ⊢
    cases hsl : lslice? a i (i + q.length) with
    | none => rw [hsl] at h; exact absurd h.symm hR2
    | some sl =>
      rw [hsl] at h
      simp only at h ⊢
      split at h
      · rename_i c1
        rw [if_pos c1]
        split at h
        · exact absurd h.symm (hR1 _)
        · rename_i c2
          rw [if_neg c2]; exact h
      · rename_i c1
        rw [if_neg c1]
        split at h
        · rename_i c2
          rw [if_pos c2]
          cases hc2 : a[i + 1]? with
          | none => rw [hc2] at h; exact absurd h.symm (hR1 _)
          | some x =>
            have hlt := getElem?_some_lt hc2
            rw [hc2] at h
            simp only at h
            split at h
            · rename_i c3
              have := hR3 _ _ _ h.symm
              rw [hag.get (show i + 1 < n by omega), hc2]
              simp only
              rw [if_pos c3]; exact h
            · rename_i c3
              cases hesc : escape a p uni (i + 2) x with
              | bytes bs i' =>
                rw [hesc] at h
                simp only at h
                have h1 := hR3 _ _ _ h.symm
                have h2 := escape_bytes hesc (by omega)
                rw [hag.get (show i + 1 < n by omega), hc2]
                simp only
                rw [if_neg c3, escape_agree hesc hag (by omega) h1]
                exact h
              | bad kk x y => rw [hesc] at h; exact absurd h.symm (hR1 _)
              | crash => rw [hesc] at h; exact absurd h.symm hR2
        · rename_i c2
          rw [if_neg c2]
          split at h
          · exact absurd h.symm (hR1 _)
          · rename_i c3
            rw [if_neg c3]; exact h

theorem quotedStep_done' {rest : Bytes} {tp p0 : Nat} {q : Bytes} {raw uni isId : Bool}
    {i : Nat} {content : Bytes} {he : Bool} {qc : QC}
    (h : quotedStep rest tp p0 q raw uni isId false i content he = .done qc) : qc.len = i + q.length := by
  unfold quotedStep at h
  simp only [Bool.false_eq_true, if_false] at h
  split at h
  · cases h
  · split at h
    · cases h
    · split at h
      · split at h
        · cases h
        · split at h <;> (cases h; rfl)
      · split at h
        · split at h
          · cases h
          · split at h
            · cases h
            · split at h <;> cases h
        · split at h <;> cases h

theorem quotedLoop_len' {rest : Bytes} {p0 : Nat} {q : Bytes} {raw uni isId : Bool}
    {fuel i : Nat} {content : Bytes} {he : Bool} {qc : QC}
    (h : quotedLoop rest p0 p0 q raw uni isId false fuel i content he = .ok qc) : i + q.length ≤ qc.len := by
  induction fuel generalizing i content he with
  | zero => simp [quotedLoop] at h
  | succ fuel ih =>
    simp only [quotedLoop] at h
    split at h
    · rename_i hd; cases h; rw [quotedStep_done' hd]; exact Nat.le_refl _
    · cases h
    · cases h
    · rename_i i' c' he' hn
      have := quotedStep_next hn
      have := ih h
      omega

theorem quotedLoop_agree {a b : Bytes} {p p₂ : Nat} {q : Bytes} {raw uni isId : Bool} {qc : QC}
    (hag : Agree qc.len a b) (hq : 0 < q.length) :
    ∀ (fuel fuel₂ i : Nat) (content : Bytes) (he : Bool),
      quotedLoop a p p q raw uni isId false fuel i content he = .ok qc → b.length < fuel₂ + i →
      quotedLoop b p₂ p₂ q raw uni isId false fuel₂ i content he = .ok qc := by
  intro fuel
  induction fuel with
  | zero => intro _ _ _ _ h; simp [quotedLoop] at h
  | succ fuel ih =>
    intro fuel₂ i content he h hf
    have hlen := quotedLoop_len' h
    have := hag.lb
    cases fuel₂ with
    | zero => omega
    | succ f₂ =>
      simp only [quotedLoop] at h ⊢
      cases hst : quotedStep a p p q raw uni isId false i content he with
      | done qc' =>
        rw [hst] at h
        simp only at h
        cases h
        rw [quotedStep_agree hst (by simp) (by simp) (by simp) hag hq hlen]
      | fail e => rw [hst] at h; cases h
      | crash => rw [hst] at h; cases h
      | next i' c' he' =>
        rw [hst] at h
        simp only at h
        have hlen' := quotedLoop_len' h
        have hnx := quotedStep_next hst
        rw [quotedStep_agree hst (by simp) (by simp) (by intro a b c e; cases e; omega) hag hq hlen]
        simp only
        exact ih _ _ _ _ h (by omega)

theorem consumeQuotedContent_agree {a b : Bytes} {p p₂ : Nat} {q : Bytes} {raw uni isId : Bool} {qc : QC}
    (h : consumeQuotedContent a p q raw uni isId false = .ok qc) (hag : Agree qc.len a b) (hq : 0 < q.length) :
    consumeQuotedContent b p₂ q raw uni isId false = .ok qc := by
  unfold consumeQuotedContent at h ⊢
  exact quotedLoop_agree hag hq _ _ _ _ _ h (by omega)

end MF.Props.C16
