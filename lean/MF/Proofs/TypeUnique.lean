/-
  MF.Proofs.TypeUnique — consequences of soundness + completeness:
  * `need_le`: the concrete fuel `needT t` is at most twice the number of (expanded) tokens of the type, so the
    driver's `topFuel` always suffices;
  * `tree_unique`: a token list has at most one `wf` tree (the grammar with `wf` is unambiguous);
  * `typeD_accepted`: every sentence of G_T is accepted by `parseTypeTop` and the result is the tree of the derivation.
-/
import MF.Proofs.TypeComplete
import MF.Proofs.TypeOfDeriv
namespace MF.TypeP
open MF.TypeG

/-! ## the fuel is linear in the number of tokens -/

theorem yieldPath_length (a : Ident) (rest : List Ident) : (yieldPath (a :: rest)).length = 2 * rest.length + 1 := by
  rw [yieldPath_cons]
  induction rest with
  | nil => rfl
  | cons b r ih => simp only [yieldDots, List.length_cons] at ih ⊢; omega

mutual
theorem need_le : ∀ t : Ty, wf t = true → needT t ≤ 2 * (yieldT t).length
  | .simple _ _, _ => by simp [needT, yieldT]
  | .named [], h => by simp [wf] at h
  | .named (a :: rest), _ => by
    simp only [needT, yieldT, yieldPath_length, List.length_cons]; omega
  | .array _ _ item, h => by
    have := need_le item (by simpa [wf] using h)
    simp only [needT, yieldT, List.length_cons, List.length_append, List.length_nil]; omega
  | .struct _ _ fs, h => by
    have := (needFs_le fs (by simpa [wf] using h)).1
    simp only [needT, yieldT, List.length_cons, List.length_append, List.length_nil]; omega
theorem needFs_le : ∀ fs : Fields, wfs fs = true →
    needFs fs ≤ 2 * (yieldFs fs).length + 2 ∧ needLoop fs ≤ 2 * (yieldMore fs).length + 1
  | .nil, _ => by simp [needFs, needLoop, yieldFs, yieldMore]
  | .cons i t rest, h => by
    have hw : wf t = true ∧ wfs rest = true := by simpa [wfs] using h
    have h1 := need_le t hw.1
    have h2 := (needFs_le rest hw.2).2
    simp only [needFs, needLoop, yieldFs, yieldMore, List.length_cons, List.length_append]
    constructor <;> omega
end

theorem expand_length (ts : List Token) : (expand ts).length ≤ 2 * ts.length := by
  induction ts with
  | nil => simp
  | cons t ts ih =>
    simp only [expand]
    split <;> simp only [List.length_cons] <;> omega

/-- the driver's fuel suffices for every tree that matches a prefix of the (expanded) token list -/
theorem need_le_topFuel {t : Ty} (hw : wf t = true) {ts : PState} {pre rest : List Token}
    (hm : Match (yieldT t) pre) (he : expand ts = pre ++ rest) : needT t ≤ topFuel ts := by
  have h1 := need_le t hw
  have h2 := hm.length
  have h3 := expand_length ts
  rw [he, List.length_append] at h3
  unfold topFuel
  omega

/-! ## uniqueness -/

theorem match_plain {ys : List YT} {pre : List Token} (hm : Match ys pre) (hv : ∀ y ∈ ys, Voc y.cls) :
    expand pre = pre := by
  apply expand_id
  induction ys generalizing pre with
  | nil => rw [hm.nil_left]; simp
  | cons y ys ih =>
    obtain ⟨t, r, rfl, hy, hr⟩ := match_cons_inv hm
    intro u hu
    simp only [List.mem_cons] at hu
    rcases hu with rfl | hu
    · rw [YT.ok_cls hy]
      exact ⟨(hv y (by simp)).ne.2.1, (hv y (by simp)).ne.2.2.1⟩
    · exact ih hr (fun z hz => hv z (by simp [hz])) u hu

/-- a token list is the yield of at most one `wf` tree -/
theorem tree_unique {t t' : Ty} {pre : List Token} (hw : wf t = true) (hw' : wf t' = true)
    (hm : Match (yieldT t) pre) (hm' : Match (yieldT t') pre) : t = t' := by
  have hp := match_plain hm (yieldT_cls t)
  have he : expand (pre ++ []) = pre ++ [] := by simpa using hp
  have h1 := parseTypeTop_complete hw hm he rfl (max (needT t) (needT t')) (by omega)
  have h2 := parseTypeTop_complete hw' hm' he rfl (max (needT t) (needT t')) (by omega)
  rw [h1] at h2
  cases h2
  rfl

/-! ## C08 for types -/

/-- every sentence of G_T is accepted, with the tree of the derivation: if the kinds of the (expanded) tokens in front
of `<eof>` are derivable from G_T — whatever their spelling, case, quoting, trivia; NO side condition — then
`parseTypeTop` succeeds (with the driver's fuel, and with any fuel `≥ needT t`), and its result is the unique `wf` tree
whose yield these tokens are. -/
theorem typeD_accepted {ts : PState} {pre rest : List Token} (he : expand ts = pre ++ rest) (hr : curX rest = .eof)
    (hd : TypeD (pre.map (·.kind))) :
    ∃ t, wf t = true ∧ Match (yieldT t) pre ∧ parseTypeTop (topFuel ts) ts = .ok t ∧
      (∀ fuel, needT t ≤ fuel → parseTypeTop fuel ts = .ok t) ∧
      ∀ t', wf t' = true → Match (yieldT t') pre → t' = t := by
  obtain ⟨t, hw, hm⟩ := typeD_tree hd
  have hc := parseTypeTop_complete hw hm he hr
  exact ⟨t, hw, hm, hc _ (need_le_topFuel hw hm he), hc, fun t' hw' hm' => tree_unique hw' hw hm' hm⟩

end MF.TypeP
