/-
  MF.Proofs.LexNumCtx — numeric literals in context: a spelling that is, alone, exactly one numeric literal is
  scanned identically when followed by a byte that cannot continue it (`number_append`), and the text of a
  numeric literal scanned at the head of an input is, alone, exactly that literal (`number_take`).
-/
import MF.Proofs.LexTokCtx
set_option linter.unusedSimpArgs false
namespace MF.Concat
open MF MF.Lex MF.Spec.Lexical

/-- the hexadecimal digits after `0x` -/
def hexD (s : Bytes) : Nat :=
  match s with
  | z :: x :: t => if z == 48 && (x == 120 || x == 88) then run isHex t else 0
  | _ => 0

/-- the decimal branch of `number` -/
def decPart (s : Bytes) : NumKind × Nat :=
  let ip := run isDigit s
  let afterInt := s.drop ip
  match afterInt with
  | dot :: t =>
    if dot == 46 then
      let fp := run isDigit t
      if ip + fp > 0 then (.float, ip + 1 + fp + exponentLen (t.drop fp))
      else (.int10, ip)
    else
      let ex := exponentLen afterInt
      if ex > 0 then (.float, ip + ex) else (.int10, ip)
  | [] => (.int10, ip)

theorem number_eq (s : Bytes) : number s = if hexD s > 0 then (.int16, 2 + hexD s) else decPart s := rfl

/-! ## the exponent -/

theorem exponentLen_nil : exponentLen [] = 0 := rfl

theorem exponentLen_stop {X : Bytes} (h : headSat isIdentChar X = false) : exponentLen X = 0 := by
  cases X with
  | nil => rfl
  | cons x t =>
    simp only [headSat_cons] at h
    exact MF.Refine.exponentLen_not_e (not_identChar_facts x h).2.2.2.2.1

/-- the exponent digits after an optional sign -/
def stripSign (t : Bytes) : Bytes :=
  match t with
  | sg :: u => if sg == 43 || sg == 45 then u else t
  | [] => t

theorem stripSign_sign {sg : UInt8} (hs : (sg == 43 || sg == 45) = true) (u : Bytes) : stripSign (sg :: u) = u := by
  simp only [stripSign, hs, if_true]

theorem stripSign_nosign {sg : UInt8} (hs : ¬ (sg == 43 || sg == 45) = true) (u : Bytes) :
    stripSign (sg :: u) = sg :: u := by
  simp only [stripSign, hs, Bool.false_eq_true, if_false]

theorem exponentLen_cons_e {e : UInt8} (he : (e == 69 || e == 101) = true) (t : Bytes) :
    exponentLen (e :: t) =
      if run isDigit (stripSign t) > 0 then 1 + (t.length - (stripSign t).length) + run isDigit (stripSign t) else 0 := by
  simp only [exponentLen, he, if_true]
  rfl

theorem headSat_digit_of_ident {X : Bytes} (h : headSat isIdentChar X = false) : headSat isDigit X = false := by
  cases X with
  | nil => rfl
  | cons x t => simp only [headSat_cons] at h ⊢; exact (not_identChar_facts x h).2.2.1

theorem headSat_hex_of_ident {X : Bytes} (h : headSat isIdentChar X = false) : headSat isHex X = false := by
  cases X with
  | nil => rfl
  | cons x t => simp only [headSat_cons] at h ⊢; exact (not_identChar_facts x h).2.2.2.1

theorem run_le' (p : UInt8 → Bool) (s : Bytes) : run p s ≤ s.length := MF.Refine.run_le p s

/-- an exponent that takes the whole of `a` is not changed by a suffix that does not continue a word -/
theorem exponentLen_append_full {a : Bytes} (h : exponentLen a = a.length) {X : Bytes}
    (hX : headSat isIdentChar X = false) : exponentLen (a ++ X) = a.length := by
  have hXd := headSat_digit_of_ident hX
  cases a with
  | nil => simp [exponentLen_stop hX]
  | cons e t =>
    by_cases he : (e == 69 || e == 101) = true
    · rw [exponentLen_cons_e he] at h
      rw [List.cons_append, exponentLen_cons_e he]
      cases t with
      | nil => simp [run, stripSign] at h
      | cons sg u =>
        by_cases hs : (sg == 43 || sg == 45) = true
        · rw [stripSign_sign hs] at h
          rw [List.cons_append, stripSign_sign hs, run_append u hXd]
          simp only [List.length_cons, List.length_append] at h ⊢
          have := run_le' isDigit u
          split at h <;> split <;> omega
        · rw [stripSign_nosign hs] at h
          rw [List.cons_append, stripSign_nosign hs, ← List.cons_append, run_append _ hXd]
          simp only [List.length_cons, List.length_append] at h ⊢
          have := run_le' isDigit (sg :: u)
          simp only [List.length_cons] at this
          split at h <;> split <;> omega
    · have he' := Bool.eq_false_iff.2 he
      rw [MF.Refine.exponentLen_not_e he'] at h
      simp at h

theorem exponentLen_le (a : Bytes) : exponentLen a ≤ a.length := by
  cases a with
  | nil => simp [exponentLen]
  | cons e t =>
    by_cases he : (e == 69 || e == 101) = true
    · rw [exponentLen_cons_e he]
      cases t with
      | nil => simp [run, stripSign]
      | cons sg u =>
        by_cases hs : (sg == 43 || sg == 45) = true
        · rw [stripSign_sign hs]
          simp only [List.length_cons]
          have := run_le' isDigit u
          split <;> omega
        · rw [stripSign_nosign hs]
          have := run_le' isDigit (sg :: u)
          simp only [List.length_cons] at this ⊢
          split <;> omega
    · rw [MF.Refine.exponentLen_not_e (Bool.eq_false_iff.2 he)]; omega

/-- the exponent scanned at the head of `a` is, alone, that exponent -/
theorem exponentLen_take_self (a : Bytes) : exponentLen (a.take (exponentLen a)) = exponentLen a := by
  cases a with
  | nil => simp [exponentLen]
  | cons e t =>
    by_cases he : (e == 69 || e == 101) = true
    · cases t with
      | nil => simp [exponentLen, he, run]
      | cons sg u =>
        by_cases hs : (sg == 43 || sg == 45) = true
        · have h0 : exponentLen (e :: sg :: u) = if run isDigit u > 0 then 2 + run isDigit u else 0 := by
            rw [exponentLen_cons_e he, stripSign_sign hs]; simp only [List.length_cons]
            split <;> omega
          rw [h0]
          by_cases hd : run isDigit u > 0
          · rw [if_pos hd]
            have : (e :: sg :: u).take (2 + run isDigit u) = e :: sg :: u.take (run isDigit u) := by
              rw [show 2 + run isDigit u = run isDigit u + 1 + 1 by omega]; rfl
            rw [this, exponentLen_cons_e he, stripSign_sign hs, run_take_ge isDigit u (Nat.le_refl _)]
            simp only [List.length_cons]
            rw [if_pos hd]; omega
          · rw [if_neg hd]; simp [exponentLen]
        · have h0 : exponentLen (e :: sg :: u) =
              if run isDigit (sg :: u) > 0 then 1 + run isDigit (sg :: u) else 0 := by
            rw [exponentLen_cons_e he, stripSign_nosign hs]
            split <;> omega
          rw [h0]
          by_cases hd : run isDigit (sg :: u) > 0
          · rw [if_pos hd]
            have hpos : run isDigit (sg :: u) = (run isDigit (sg :: u) - 1) + 1 := by omega
            have : (e :: sg :: u).take (1 + run isDigit (sg :: u)) = e :: (sg :: u).take (run isDigit (sg :: u)) := by
              rw [show 1 + run isDigit (sg :: u) = run isDigit (sg :: u) + 1 by omega]; rfl
            rw [this]
            have h2 : (sg :: u).take (run isDigit (sg :: u)) = sg :: u.take (run isDigit (sg :: u) - 1) := by
              rw [hpos]; simp
            have h3 := run_take_ge isDigit (sg :: u) (Nat.le_refl (run isDigit (sg :: u)))
            rw [h2] at h3
            rw [h2, exponentLen_cons_e he, stripSign_nosign hs, h3]
            rw [if_pos hd]; omega
          · rw [if_neg hd]; simp [exponentLen]
    · rw [MF.Refine.exponentLen_not_e (Bool.eq_false_iff.2 he)]; simp [exponentLen]

/-! ## `number` and a suffix -/

theorem not_identChar_48 : ∀ c : UInt8, isIdentChar c = false → (c == 48) = false ∧ (c == 46 → True) := by
  apply UInt8.forall_of_fin; decide +kernel

theorem hexD_append (a : Bytes) {X : Bytes} (hX : headSat isIdentChar X = false) : hexD (a ++ X) = hexD a := by
  match a with
  | [] =>
    match X, hX with
    | [], _ => rfl
    | [_], _ => rfl
    | z :: x :: t, hX =>
      simp only [headSat_cons] at hX
      simp [hexD, (not_identChar_48 z hX).1]
  | [z] =>
    match X, hX with
    | [], _ => rfl
    | x :: t, hX =>
      simp only [headSat_cons] at hX
      simp [hexD, (not_identChar_facts x hX).2.2.2.2.2.1]
  | z :: x :: t =>
    simp only [List.cons_append, hexD, run_append t (headSat_hex_of_ident hX)]

theorem decPart_nil_branch {a : Bytes} (h : a.drop (run isDigit a) = []) : decPart a = (.int10, run isDigit a) := by
  simp only [decPart, h]

theorem decPart_dot_branch {a t : Bytes} (h : a.drop (run isDigit a) = 46 :: t) :
    decPart a = if run isDigit a + run isDigit t > 0 then
        (.float, run isDigit a + 1 + run isDigit t + exponentLen (t.drop (run isDigit t)))
      else (.int10, run isDigit a) := by
  simp only [decPart, h, beq_self_eq_true, if_true]

theorem decPart_exp_branch {a t : Bytes} {c : UInt8} (h : a.drop (run isDigit a) = c :: t) (hc : (c == 46) = false) :
    decPart a = if exponentLen (c :: t) > 0 then (.float, run isDigit a + exponentLen (c :: t))
      else (.int10, run isDigit a) := by
  simp only [decPart, h, hc, Bool.false_eq_true, if_false]

theorem decPart_append {a : Bytes} (hlen : (decPart a).2 = a.length) {X : Bytes}
    (hX : headSat isIdentChar X = false) (hdot : (decPart a).1 = .int10 → headSat (· == 46) X = false) :
    decPart (a ++ X) = decPart a := by
  have hXd := headSat_digit_of_ident hX
  have hip : run isDigit (a ++ X) = run isDigit a := run_append a hXd
  have hle := run_le' isDigit a
  have hdrop : (a ++ X).drop (run isDigit (a ++ X)) = a.drop (run isDigit a) ++ X := by
    rw [hip, List.drop_append_of_le_length hle]
  cases h : a.drop (run isDigit a) with
  | nil =>
    rw [decPart_nil_branch h] at hlen hdot ⊢
    rw [h, List.nil_append] at hdrop
    cases X with
    | nil => rw [decPart_nil_branch hdrop, hip]
    | cons x t =>
      have hx : (x == 46) = false := by simpa using hdot rfl
      rw [decPart_exp_branch hdrop hx, exponentLen_stop hX, hip]
      simp
  | cons c t =>
    have hal : a.length = run isDigit a + (t.length + 1) := by
      have := congrArg List.length h
      simp only [List.length_drop, List.length_cons] at this
      omega
    rw [h, List.cons_append] at hdrop
    by_cases hc : (c == 46) = true
    · have hc46 : c = 46 := by simpa using hc
      subst hc46
      rw [decPart_dot_branch h] at hlen ⊢
      rw [decPart_dot_branch hdrop, hip, run_append t hXd]
      have hfl := run_le' isDigit t
      by_cases hpos : run isDigit a + run isDigit t > 0
      · rw [if_pos hpos] at hlen
        rw [if_pos hpos, if_pos hpos]
        simp only at hlen
        have hel := exponentLen_le (t.drop (run isDigit t))
        simp only [List.length_drop] at hel
        have hfull : exponentLen (t.drop (run isDigit t)) = (t.drop (run isDigit t)).length := by
          simp only [List.length_drop]; omega
        rw [List.drop_append_of_le_length hfl, exponentLen_append_full hfull hX, hfull]
      · rw [if_neg hpos, if_neg hpos]
    · have hc' := Bool.eq_false_iff.2 hc
      rw [decPart_exp_branch h hc'] at hlen ⊢
      rw [decPart_exp_branch hdrop hc']
      have hel := exponentLen_le (c :: t)
      simp only [List.length_cons] at hel
      by_cases hpos : exponentLen (c :: t) > 0
      · rw [if_pos hpos] at hlen
        rw [if_pos hpos]
        simp only at hlen
        have hfull : exponentLen (c :: t) = (c :: t).length := by simp only [List.length_cons]; omega
        rw [← List.cons_append, exponentLen_append_full hfull hX, hip, hfull]
        simp
      · rw [if_neg hpos] at hlen
        simp only at hlen
        omega

/-- **a numeric literal followed by a byte that cannot continue it**: if `a` alone is exactly one numeric literal,
`a ++ X` starts with the same literal, provided `X` does not start with an identifier character (letters, digits,
`_`: this covers `e`/`E`/`x` and further digits) nor, after an integer, with `.` -/
theorem number_append {a : Bytes} (hlen : (number a).2 = a.length) {X : Bytes}
    (hX : headSat isIdentChar X = false) (hdot : (number a).1 = .int10 → headSat (· == 46) X = false) :
    number (a ++ X) = number a := by
  rw [number_eq] at hlen hdot ⊢
  rw [number_eq, hexD_append a hX]
  by_cases hh : hexD a > 0
  · rw [if_pos hh, if_pos hh]
  · rw [if_neg hh] at hlen hdot
    rw [if_neg hh, if_neg hh]
    exact decPart_append hlen hX hdot

/-! ## the text of a scanned literal is, alone, that literal -/

theorem hexD_take_pos {R : Bytes} (h : hexD R > 0) : hexD (R.take (2 + hexD R)) = hexD R := by
  match R, h with
  | [], h => simp [hexD] at h
  | [_], h => simp [hexD] at h
  | z :: x :: t, h =>
    by_cases hc : (z == 48 && (x == 120 || x == 88)) = true
    · simp only [hexD, hc, if_true] at h ⊢
      rw [show 2 + run isHex t = run isHex t + 1 + 1 by omega]
      simp only [List.take_succ_cons, hexD, hc, if_true]
      exact run_take_ge isHex t (Nat.le_refl _)
    · simp [hexD, hc] at h

theorem hexD_take_zero {R : Bytes} (h : hexD R = 0) (n : Nat) : hexD (R.take n) = 0 := by
  match R, n, h with
  | [], _, _ => simp [hexD]
  | [_], 0, _ => simp [hexD]
  | [_], n + 1, _ => simp [hexD]
  | _ :: _ :: _, 0, _ => simp [hexD]
  | _ :: _ :: _, 1, _ => simp [hexD]
  | z :: x :: t, n + 2, h =>
    by_cases hc : (z == 48 && (x == 120 || x == 88)) = true
    · simp only [hexD, hc, if_true] at h
      simp only [List.take_succ_cons, hexD, hc, if_true]
      have := run_take_le isHex t n
      omega
    · simp [hexD, hc]

theorem decPart_take {R : Bytes} {k : NumKind} {n : Nat} (h : decPart R = (k, n)) : decPart (R.take n) = (k, n) := by
  have hle := run_le' isDigit R
  cases hd : R.drop (run isDigit R) with
  | nil =>
    rw [decPart_nil_branch hd] at h
    cases h
    have hip : run isDigit (R.take (run isDigit R)) = run isDigit R := run_take_ge isDigit R (Nat.le_refl _)
    have hd' : (R.take (run isDigit R)).drop (run isDigit (R.take (run isDigit R))) = [] := by
      rw [hip, List.drop_take]; simp
    rw [decPart_nil_branch hd', hip]
  | cons c t =>
    by_cases hc : (c == 46) = true
    · have hc46 : c = 46 := by simpa using hc
      subst hc46
      rw [decPart_dot_branch hd] at h
      by_cases hpos : run isDigit R + run isDigit t > 0
      · rw [if_pos hpos] at h
        cases h
        have hip : run isDigit (R.take (run isDigit R + 1 + run isDigit t + exponentLen (t.drop (run isDigit t)))) =
            run isDigit R := run_take_ge isDigit R (by omega)
        have hd' : (R.take (run isDigit R + 1 + run isDigit t + exponentLen (t.drop (run isDigit t)))).drop
            (run isDigit (R.take (run isDigit R + 1 + run isDigit t + exponentLen (t.drop (run isDigit t))))) =
            46 :: t.take (run isDigit t + exponentLen (t.drop (run isDigit t))) := by
          rw [hip, List.drop_take, hd]
          rw [show run isDigit R + 1 + run isDigit t + exponentLen (t.drop (run isDigit t)) - run isDigit R =
            (run isDigit t + exponentLen (t.drop (run isDigit t))) + 1 by omega]
          rfl
        rw [decPart_dot_branch hd', hip]
        have hfp : run isDigit (t.take (run isDigit t + exponentLen (t.drop (run isDigit t)))) = run isDigit t :=
          run_take_ge isDigit t (by omega)
        rw [hfp, if_pos hpos, List.drop_take]
        rw [show run isDigit t + exponentLen (t.drop (run isDigit t)) - run isDigit t =
          exponentLen (t.drop (run isDigit t)) by omega, exponentLen_take_self]
      · rw [if_neg hpos] at h
        cases h
        have : run isDigit R = 0 := by omega
        rw [this]
        rfl
    · have hc' := Bool.eq_false_iff.2 hc
      rw [decPart_exp_branch hd hc'] at h
      by_cases hpos : exponentLen (c :: t) > 0
      · rw [if_pos hpos] at h
        cases h
        have hip : run isDigit (R.take (run isDigit R + exponentLen (c :: t))) = run isDigit R :=
          run_take_ge isDigit R (by omega)
        have hex : exponentLen (c :: t) = (exponentLen (c :: t) - 1) + 1 := by omega
        have hd' : (R.take (run isDigit R + exponentLen (c :: t))).drop
            (run isDigit (R.take (run isDigit R + exponentLen (c :: t)))) = c :: t.take (exponentLen (c :: t) - 1) := by
          rw [hip, List.drop_take, hd, show run isDigit R + exponentLen (c :: t) - run isDigit R =
            (exponentLen (c :: t) - 1) + 1 by omega]
          rfl
        have hts := exponentLen_take_self (c :: t)
        rw [hex, List.take_succ_cons, ← hex] at hts
        rw [decPart_exp_branch hd' hc', hip, hts, if_pos hpos]
      · rw [if_neg hpos] at h
        cases h
        have hip : run isDigit (R.take (run isDigit R)) = run isDigit R := run_take_ge isDigit R (Nat.le_refl _)
        have hd' : (R.take (run isDigit R)).drop (run isDigit (R.take (run isDigit R))) = [] := by
          rw [hip, List.drop_take]; simp
        rw [decPart_nil_branch hd', hip]

/-- **the text of a numeric literal is, alone, that literal** -/
theorem number_take {R : Bytes} {k : NumKind} {n : Nat} (h : number R = (k, n)) : number (R.take n) = (k, n) := by
  rw [number_eq] at h ⊢
  by_cases hh : hexD R > 0
  · rw [if_pos hh] at h
    cases h
    rw [hexD_take_pos hh, if_pos hh]
  · rw [if_neg hh] at h
    rw [hexD_take_zero (by omega), if_neg (by omega)]
    exact decPart_take h

theorem number_len_le (R : Bytes) : (number R).2 ≤ R.length := by
  rw [number_eq]
  by_cases hh : hexD R > 0
  · rw [if_pos hh]
    match R, hh with
    | [], h => simp [hexD] at h
    | [_], h => simp [hexD] at h
    | z :: x :: t, h =>
      by_cases hc : (z == 48 && (x == 120 || x == 88)) = true
      · simp only [hexD, hc, if_true, List.length_cons]
        have := run_le' isHex t
        omega
      · simp [hexD, hc] at h
  · rw [if_neg hh]
    have hle := run_le' isDigit R
    cases hd : R.drop (run isDigit R) with
    | nil => rw [decPart_nil_branch hd]; exact hle
    | cons c t =>
      have hal : R.length = run isDigit R + (t.length + 1) := by
        have := congrArg List.length hd
        simp only [List.length_drop, List.length_cons] at this
        omega
      by_cases hc : (c == 46) = true
      · have hc46 : c = 46 := by simpa using hc
        subst hc46
        rw [decPart_dot_branch hd]
        have h1 := run_le' isDigit t
        have h2 := exponentLen_le (t.drop (run isDigit t))
        simp only [List.length_drop] at h2
        split <;> simp only <;> omega
      · rw [decPart_exp_branch hd (Bool.eq_false_iff.2 hc)]
        have h2 := exponentLen_le (c :: t)
        simp only [List.length_cons] at h2
        split <;> simp only <;> omega

/-! ## numeric tokens in context -/

/-- `raw` starts like a number: a digit, or `.` followed by a digit -/
def numStart (raw : Bytes) : Bool :=
  match raw with
  | c :: t => isDigit c || (c == 46 && headSat isDigit t)
  | [] => false

/-- the token record the reference lexer builds from `number` -/
def numTok (k : NumKind) (n : Nat) : STok :=
  { kind := if k == .float then .float else .int, len := n,
    base := if k == .int16 then 16 else if k == .int10 then 10 else 0 }

theorem token_number_aux {c : UInt8} {t : Bytes} {k : NumKind} {X : Bytes}
    (hs : isDigit c = true ∨ (c = 46 ∧ headSat isDigit t = true))
    (hna : number (c :: (t ++ X)) = (k, (c :: t).length))
    (hX : headSat isIdentChar X = false) (lk : TokKind) (hlk : c = 46 → dotEnables lk = false) :
    token (c :: (t ++ X)) lk false = some (numTok k (c :: t).length) := by
  have hdr : (c :: (t ++ X)).drop (c :: t).length = X := by
    rw [← List.cons_append]; exact List.drop_left
  cases X with
  | nil =>
    rcases hs with hd | ⟨hc46, hd⟩
    · obtain ⟨f1, _⟩ := digit_facts c hd
      unfold token
      simp only [Bool.false_and, Bool.false_eq_true, if_false, f1, hd, if_true, hna, hdr, numTok]
    · subst hc46
      have hl : dotEnables lk = false := hlk rfl
      match t, hd, hna, hdr with
      | d :: t', hd, hna, hdr =>
        simp only [headSat_cons] at hd
        rw [List.cons_append] at hna hdr ⊢
        unfold token
        simp only [Bool.false_and, Bool.false_eq_true, if_false, beq_self_eq_true, if_true, hl, Bool.not_false,
          Bool.true_and, hd, hna, hdr, numTok]
  | cons x u =>
    simp only [headSat_cons] at hX
    rcases hs with hd | ⟨hc46, hd⟩
    · obtain ⟨f1, _⟩ := digit_facts c hd
      unfold token
      simp only [Bool.false_and, Bool.false_eq_true, if_false, f1, hd, if_true, hna, hdr, hX, numTok]
    · subst hc46
      have hl : dotEnables lk = false := hlk rfl
      match t, hd, hna, hdr with
      | d :: t', hd, hna, hdr =>
        simp only [headSat_cons] at hd
        rw [List.cons_append] at hna hdr ⊢
        unfold token
        simp only [Bool.false_and, Bool.false_eq_true, if_false, beq_self_eq_true, if_true, hl, Bool.not_false,
          Bool.true_and, hd, hna, hdr, hX, numTok]

/-- **a numeric literal in context**: a spelling that is alone exactly one numeric literal, followed by a byte that
cannot continue it, is that literal -/
theorem token_number {raw : Bytes} (hs : numStart raw = true) (hlen : (number raw).2 = raw.length) {X : Bytes}
    (hX : headSat isIdentChar X = false) (hdot : (number raw).1 ≠ .float → headSat (· == 46) X = false)
    (lk : TokKind) (hlk : headSat (· == 46) raw = true → dotEnables lk = false) :
    token (raw ++ X) lk false = some (numTok (number raw).1 raw.length) := by
  have hna := number_append hlen hX (fun h10 => hdot (by rw [h10]; decide))
  match raw, hs, hlen, hlk, hna with
  | c :: t, hs, hlen, hlk, hna =>
    simp only [numStart, Bool.or_eq_true, Bool.and_eq_true, beq_iff_eq] at hs
    rw [List.cons_append] at hna ⊢
    apply token_number_aux hs _ hX lk
    · intro hc; subst hc; exact hlk (by simp)
    · rw [hna, ← hlen]

end MF.Concat
