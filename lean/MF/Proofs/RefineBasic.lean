import MF.Proofs.LexErr
import MF.Proofs.QuotedShift
import MF.Spec.Lexical
namespace MF.Refine
open MF MF.Lex MF.Spec.Lexical

/-! ### character classes -/

theorem isIdentPart_eq : Char.isIdentPart = isIdentChar := by
  funext c; revert c; apply UInt8.forall_of_fin; decide +kernel

theorem isIdentStart_eq : Char.isIdentStart = isLetter := by
  funext c; revert c; apply UInt8.forall_of_fin; decide +kernel

theorem isDigit_eq : Char.isDigit = isDigit := by
  funext c; revert c; apply UInt8.forall_of_fin; decide +kernel

theorem isHexDigit_eq : Char.isHexDigit = isHex := by
  funext c; revert c; apply UInt8.forall_of_fin; decide +kernel

theorem isOctalDigit_eq : Char.isOctalDigit = isOct := by
  funext c; revert c; apply UInt8.forall_of_fin; decide +kernel

theorem upperByte_eq : Char.upperByte = upper := by
  funext c; revert c; apply UInt8.forall_of_fin; decide +kernel

theorem hexVal_eq : ∀ c, Char.isHexDigit c = true → Char.hexVal c = hexVal c := by
  apply UInt8.forall_of_fin; decide +kernel

theorem isSpace_eq : Utf8.isSpace = isWhite := by
  funext r; rfl

theorem spanLen_eq_run (p : UInt8 → Bool) (s : Bytes) : spanLen p s = run p s := by
  induction s with
  | nil => rfl
  | cons c t ih => simp only [spanLen, run, ih]

theorem toUpper_eq (s : Bytes) : Char.toUpper s = s.map upper := by
  unfold Char.toUpper; rw [upperByte_eq]

theorem run_le (p : UInt8 → Bool) (s : Bytes) : run p s ≤ s.length := by
  rw [← spanLen_eq_run]; exact spanLen_le p s

/-! ### list index / suffix views -/

theorem drop_of_getElem? {rest : Bytes} {i : Nat} {c : UInt8} (h : rest[i]? = some c) :
    rest.drop i = c :: rest.drop (i + 1) := by
  have hlt := getElem?_some_lt h
  rw [List.drop_eq_getElem_cons hlt]
  congr 1
  rw [List.getElem?_eq_getElem hlt] at h
  exact Option.some.inj h

theorem drop_of_getElem?_none {rest : Bytes} {i : Nat} (h : rest[i]? = none) : rest.drop i = [] := by
  rw [List.drop_eq_nil_iff]
  exact List.getElem?_eq_none_iff.1 h

theorem getElem?_of_drop_cons {rest : Bytes} {i : Nat} {c : UInt8} {t : Bytes} (h : rest.drop i = c :: t) :
    rest[i]? = some c ∧ rest.drop (i + 1) = t := by
  have h0 : (rest.drop i)[0]? = some c := by rw [h]; rfl
  rw [List.getElem?_drop] at h0
  refine ⟨by simpa using h0, ?_⟩
  have := drop_of_getElem? (by simpa using h0 : rest[i]? = some c)
  rw [this] at h
  exact (List.cons.inj h).2

theorem getElem?_of_drop_nil {rest : Bytes} {i : Nat} (h : rest.drop i = []) : rest[i]? = none := by
  rw [List.drop_eq_nil_iff] at h
  exact List.getElem?_eq_none_iff.2 h

end MF.Refine
