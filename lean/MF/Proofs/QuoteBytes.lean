import MF.Proofs.QuotedShift
import MF.Proofs.LexAll
import MF.Model.Quote
namespace MF.Quote
open MF.Lex

theorem quoteByte_cases (q : UInt8) (hq : q = 34 ∨ q = 39) : ∀ b : UInt8,
    (b = q ∧ quoteByte q b = [92, q]) ∨ (b = 92 ∧ quoteByte q b = [92, 92]) ∨
    (b ≠ q ∧ b ≠ 92 ∧ b ≠ 10 ∧ quoteByte q b = [b]) ∨
    (quoteByte q b = [92, 120] ++ hex2 b.toNat ∧
       Char.isHexDigit (hexLower (b.toNat / 16 % 16)) = true ∧ Char.isHexDigit (hexLower (b.toNat % 16)) = true ∧
       parseUint? (hex2 b.toNat) 16 255 = some b.toNat) := by
  rcases hq with rfl | rfl
  · apply UInt8.forall_of_fin; decide +kernel
  · apply UInt8.forall_of_fin; decide +kernel

theorem byte_step (q : UInt8) (hq : q = 34 ∨ q = 39) (b : UInt8) (X : Bytes) (tp p0 : Nat) (content : Bytes) :
    quotedStep (quoteByte q b ++ X) tp p0 [q] false false false false 0 content false =
      .next (quoteByte q b).length (content ++ [b]) false := by
  rcases quoteByte_cases q hq b with ⟨h1, h2⟩ | ⟨h1, h2⟩ | ⟨h1, h2, h3, h4⟩ | ⟨h1, h2, h3, h4⟩
  · rw [h2]; subst h1
    rcases hq with rfl | rfl <;> simp [quotedStep, lslice?, slice?, slice, escape, simpleEscape?]
  · rw [h2]; subst h1
    rcases hq with rfl | rfl <;> simp [quotedStep, lslice?, slice?, slice, escape, simpleEscape?]
  · rw [h4]
    simp [quotedStep, lslice?, slice?, slice, h1, h2, h3]
  · rw [h1]
    have hp : parseUint? [hexLower (b.toNat / 16 % 16), hexLower (b.toNat % 16)] 16 255 = some b.toNat := by
      simpa [hex2] using h4
    have hl : ¬ (X.length + 1 + 1 + 1 + 1 < 4) := by omega
    have hq' : ¬ ((92 : UInt8) = q) := by rcases hq with rfl | rfl <;> decide
    simp [quotedStep, lslice?, slice?, slice, escape, simpleEscape?, escapeDigits, firstBad, hex2, h2, h3,
      List.range, List.range.loop, hl, hq', hp]

theorem close_step (q : UInt8) (X : Bytes) (tp p0 : Nat) (content : Bytes) (isId : Bool) (hne : content ≠ [] ∨ isId = false) :
    quotedStep (q :: X) tp p0 [q] false (!false) isId false 0 content false =
      .done { content := content, hasError := false, len := 1 } ∧
    quotedStep (q :: X) tp p0 [q] false false isId false 0 content false =
      .done { content := content, hasError := false, len := 1 } := by
  have : (content.isEmpty && isId) = false := by
    rcases hne with h | h
    · cases content with
      | nil => exact absurd rfl h
      | cons _ _ => simp
    · simp [h]
  constructor <;> simp [quotedStep, lslice?, slice?, slice, this]

theorem bytes_loop (q : UInt8) (hq : q = 34 ∨ q = 39) (bs : Bytes) :
    ∀ (pre X : Bytes) (tp p0 : Nat) (content : Bytes) (fuel : Nat), bs.length < fuel →
    quotedLoop (pre ++ bs.flatMap (quoteByte q) ++ [q] ++ X) tp p0 [q] false false false false fuel pre.length content false =
      .ok { content := content ++ bs, hasError := false, len := pre.length + (bs.flatMap (quoteByte q)).length + 1 } := by
  induction bs with
  | nil =>
    intro pre X tp p0 content fuel hf
    cases fuel with
    | zero => omega
    | succ fuel =>
      simp only [quotedLoop, List.flatMap_nil, List.append_nil, List.length_nil, Nat.add_zero]
      have hk : pre.length ≤ (pre ++ [q] ++ X).length := by simp
      have := quotedStep_drop (rest := pre ++ [q] ++ X) (k := pre.length) (tp := tp) (p0 := p0) (q := [q]) (raw := false)
        (uni := false) (isId := false) (np := false) (i := 0) (content := content) (he := false) hk
      rw [Nat.add_zero] at this
      rw [this]
      have hd : List.drop pre.length (pre ++ [q] ++ X) = q :: X := by simp
      rw [hd, (close_step q X tp (p0 + pre.length) content false (Or.inr rfl)).2]
      simp [QStep.shift]
  | cons b bs ih =>
    intro pre X tp p0 content fuel hf
    cases fuel with
    | zero => simp at hf
    | succ fuel =>
      simp only [quotedLoop, List.flatMap_cons]
      have hk : pre.length ≤ (pre ++ (quoteByte q b ++ bs.flatMap (quoteByte q)) ++ [q] ++ X).length := by simp
      have := quotedStep_drop (rest := pre ++ (quoteByte q b ++ bs.flatMap (quoteByte q)) ++ [q] ++ X) (k := pre.length)
        (tp := tp) (p0 := p0) (q := [q]) (raw := false) (uni := false) (isId := false) (np := false) (i := 0)
        (content := content) (he := false) hk
      rw [Nat.add_zero] at this
      rw [this]
      have hd : List.drop pre.length (pre ++ (quoteByte q b ++ bs.flatMap (quoteByte q)) ++ [q] ++ X) =
          quoteByte q b ++ (bs.flatMap (quoteByte q) ++ [q] ++ X) := by simp
      rw [hd, byte_step q hq b _ tp (p0 + pre.length) content]
      simp only [QStep.shift]
      have := ih (pre ++ quoteByte q b) X tp p0 (content ++ [b]) fuel (by simp at hf; omega)
      simp only [List.length_append, List.append_assoc] at this ⊢
      rw [this]
      simp [Nat.add_assoc]

/-- no trivia in front of an ASCII byte that is neither whitespace nor a comment opener -/
theorem triviaLoop_none {buf : Bytes} {np : Bool} {fuel : Nat} {c : UInt8} {t : Bytes} (hb : buf = c :: t)
    (hc : c = 98 ∨ c = 34 ∨ c = 39 ∨ c = 96) :
    triviaLoop buf np (fuel + 1) 0 [] = .ok (0, [], [], false) := by
  subst hb
  have hsp : skipSpaces ((c :: t).length + 1) (c :: t) = 0 := by
    rcases hc with rfl | rfl | rfl | rfl <;>
      simp [skipSpaces, Utf8.decodeRune, Utf8.isSpace]
  simp only [triviaLoop, List.drop_zero, hsp, Nat.add_zero]
  rw [slice?_of_le (Nat.le_refl _) (Nat.zero_le _)]
  have hcm : skipComment (c :: t) 0 np = .ok (0, false) := by
    rcases hc with rfl | rfl | rfl | rfl <;>
      simp [skipComment, isLineCommentStart, isBlockCommentStart]
  simp [hcm, slice_self]

theorem body_head (q : UInt8) (hq : q = 34 ∨ q = 39) (b : UInt8) (bs : Bytes) :
    ∃ c t, (b :: bs).flatMap (quoteByte q) = c :: t ∧ c ≠ q := by
  simp only [List.flatMap_cons]
  rcases quoteByte_cases q hq b with ⟨h1, h2⟩ | ⟨h1, h2⟩ | ⟨h1, h2, h3, h4⟩ | ⟨h1, h2, h3, h4⟩
  · rw [h2]; exact ⟨92, _, rfl, by rcases hq with rfl | rfl <;> decide⟩
  · rw [h2]; exact ⟨92, _, rfl, by rcases hq with rfl | rfl <;> decide⟩
  · rw [h4]; exact ⟨b, _, rfl, h1⟩
  · rw [h1]; exact ⟨92, _, rfl, by rcases hq with rfl | rfl <;> decide⟩

theorem suitableQuote_cases (b : Bytes) : suitableQuote b = 34 ∨ suitableQuote b = 39 := by
  unfold suitableQuote; split <;> simp

/-- the token scanned at the start of `QuoteSQLBytes(bs)` -/
theorem consumeToken_quoteBytes (bs : Bytes) (lk : TokKind) :
    consumeToken (quoteBytes bs) 0 lk false =
      .ok { kind := .bytes, len := (quoteBytes bs).length, asString := bs } := by
  unfold quoteBytes
  simp only
  generalize hqq : suitableQuote bs = q
  have hq : q = 34 ∨ q = 39 := by rw [← hqq]; exact suitableQuote_cases bs
  have hcl : classify 98 = .strStart := by decide
  simp only [List.cons_append, List.nil_append, consumeToken, hcl, stringTok]
  have hsp : strPrefix (98 :: q :: (bs.flatMap (quoteByte q) ++ [q])) 3 0 false false = some (1, true, false) := by
    rcases hq with rfl | rfl <;> simp [strPrefix]
  rw [hsp]
  simp only [List.drop_succ_cons, List.drop_zero]
  have hpd : peekDelimiter (q :: (bs.flatMap (quoteByte q) ++ [q])) = some [q] := by
    cases bs with
    | nil => rcases hq with rfl | rfl <;> simp [peekDelimiter]
    | cons b bs' =>
      obtain ⟨c, t, h1, h2⟩ := body_head q hq b bs'
      rw [h1]
      rcases hq with rfl | rfl <;> simp [peekDelimiter, h2]
  rw [hpd]
  simp only
  have hl := bytes_loop q hq bs [q] [] (0 + 1) (0 + 1) []
    ((q :: (bs.flatMap (quoteByte q) ++ [q])).length + 2) (by
      simp only [List.length_cons, List.length_append, List.length_nil]
      have : bs.length ≤ (bs.flatMap (quoteByte q)).length := by
        clear hsp hpd hqq
        induction bs with
        | nil => simp
        | cons b bs ih =>
          simp only [List.flatMap_cons, List.length_cons, List.length_append]
          have : 1 ≤ (quoteByte q b).length := by
            rcases quoteByte_cases q hq b with ⟨_, h2⟩ | ⟨_, h2⟩ | ⟨_, _, _, h4⟩ | ⟨h1, _⟩
            · rw [h2]; simp
            · rw [h2]; simp
            · rw [h4]; simp
            · rw [h1]; simp [hex2]
          omega
      omega)
  simp only [List.append_nil, List.length_cons, List.length_nil, List.nil_append, List.cons_append, Nat.zero_add] at hl
  simp only [consumeQuotedContent, Bool.not_true, List.length_cons, List.length_nil, Nat.zero_add]
  rw [hl]
  simp [quotedTok]
  omega

/-- a buffer that is exactly one token (starting with `b`, a quote or a back-quote) lexes as that token and `<eof>` -/
theorem lexAll_single {buf : Bytes} {c : UInt8} {t : Bytes} (hb : buf = c :: t)
    (hc : c = 98 ∨ c = 34 ∨ c = 39 ∨ c = 96) {k : TokKind} {a : Bytes} {bse : Nat} (hk : k ≠ .eof)
    (hs : consumeToken buf 0 (.sym []) false = .ok { kind := k, len := buf.length, asString := a, base := bse }) :
    ∃ t1 t2, lexAll buf = .ok [t1, t2] ∧ t1.kind = k ∧ t1.asString = a ∧ t1.raw = buf ∧ t1.space = [] ∧
      t1.comments = [] ∧ t1.pos = 0 ∧ t1.end = buf.length ∧ t2.kind = .eof := by
  have h1 : nextToken buf false Lex.init = .ok
      { pos := buf.length, lastKind := .sym [], dotIdent := false,
        tok := { kind := k, comments := [], space := [], raw := buf, asString := a, base := bse, pos := 0, «end» := buf.length } } := by
    have hcore : nextTokenCore buf false Lex.init = .ok
        { pos := buf.length, lastKind := .sym [], dotIdent := false,
          tok := { kind := k, comments := [], space := [], raw := buf, asString := a, base := bse, pos := 0, «end» := buf.length } } := by
      unfold nextTokenCore
      simp only [Lex.init]
      have hf : buf.length + 2 = (buf.length + 1) + 1 := rfl
      rw [hf, triviaLoop_none hb hc]
      simp only [Bool.false_eq_true, if_false, List.drop_zero, hs, Nat.zero_add]
      rw [slice?_of_le (Nat.zero_le _) (Nat.le_refl _)]
      simp [slice_zero_length]
    unfold nextToken
    rw [hcore]
  obtain ⟨s2, e1, e2, e3, e4, e5⟩ := eof_stable (buf := buf) (np := false)
    (s := { pos := buf.length, lastKind := .sym [], dotIdent := false,
            tok := { kind := k, comments := [], space := [], raw := buf, asString := a, base := bse, pos := 0, «end» := buf.length } }) rfl
  refine ⟨{ kind := k, comments := [], space := [], raw := buf, asString := a, base := bse, pos := 0, «end» := buf.length }, s2.tok, ?_, rfl, rfl, rfl, rfl, rfl, rfl, rfl, e2⟩
  unfold lexAll
  have hf : buf.length + 2 = (buf.length + 1) + 1 := rfl
  rw [hf]
  simp only [lexAllFrom, h1]
  have hk' : (k == TokKind.eof) = false := by simpa using hk
  simp only [hk', Bool.false_eq_true, if_false, e1, e2, beq_self_eq_true, if_true]
  simp

/-- C15 (bytes): `QuoteSQLBytes(b)` lexes as exactly one bytes-literal token whose value is `b`. -/
theorem quoteBytes_lex (bs : Bytes) :
    ∃ t1 t2, lexAll (quoteBytes bs) = .ok [t1, t2] ∧ t1.kind = .bytes ∧ t1.asString = bs ∧
      t1.raw = quoteBytes bs ∧ t1.space = [] ∧ t1.comments = [] ∧ t2.kind = .eof := by
  have hs := consumeToken_quoteBytes bs (.sym [])
  have hb : quoteBytes bs = 98 :: ([suitableQuote bs] ++ bs.flatMap (quoteByte (suitableQuote bs)) ++ [suitableQuote bs]) := by
    simp [quoteBytes]
  obtain ⟨t1, t2, h1, h2, h3, h4, h5, h6, _, _, h9⟩ := lexAll_single hb (Or.inl rfl) (k := .bytes) (a := bs) (bse := 0) (by simp) hs
  exact ⟨t1, t2, h1, h2, h3, h4, h5, h6, h9⟩

end MF.Quote
