import MF.Proofs.LexScan
namespace MF.Lex

theorem skipComment_ne_crash {rest : Bytes} {p0 : Nat} {np : Bool} : skipComment rest p0 np ≠ .crash := by
  unfold skipComment
  split
  · simp
  · split
    · split
      · simp
      · split <;> simp
    · simp

theorem triviaLoop_ne_crash {buf : Bytes} {np : Bool} {fuel pos : Nat} {cs : List Comment}
    (hp : pos ≤ buf.length) (hf : buf.length < fuel + pos) : triviaLoop buf np fuel pos cs ≠ .crash := by
  induction fuel generalizing pos cs with
  | zero => omega
  | succ fuel ih =>
    simp only [triviaLoop]
    have hsp := skipSpaces_le (buf.length + 1) (buf.drop pos)
    simp only [List.length_drop] at hsp
    rw [slice?_of_le (Nat.le_add_right _ _) (by omega)]
    simp only
    split
    · rename_i hc; exact absurd hc skipComment_ne_crash
    · simp
    · rename_i n he hsc
      have hn := skipComment_ok_le hsc
      simp only [List.length_drop] at hn
      split
      · simp
      · rename_i hn0
        have hn0' : n ≠ 0 := by simpa using hn0
        rw [slice?_of_le (Nat.le_add_right _ _) (by omega)]
        simp only
        split
        · simp
        · exact ih (by omega) (by omega)

/-- `nextToken` before the error value is built never hits a Go runtime panic and never runs out
of the fuel it gives its loops. -/
theorem nextTokenCore_ne_crash {buf : Bytes} {np : Bool} {s : State} (hp : s.pos ≤ buf.length) :
    nextTokenCore buf np s ≠ .crash := by
  unfold nextTokenCore
  simp only
  split
  · rename_i hc; exact absurd hc (triviaLoop_ne_crash hp (by omega))
  · simp
  · rename_i pos comments space he htl
    have inv := triviaLoop_ok (p0 := s.pos) htl (by simp [CommentsOK]) (by simp [lastEnd])
    obtain ⟨i1, i2, i3, i4, i5, i6⟩ := inv
    split
    · rw [slice?_of_le i4 (Nat.le_refl _)]; simp
    · split
      · rename_i hc
        split at hc
        · exact absurd hc consumeFieldToken_ne_crash
        · exact absurd hc consumeToken_ne_crash
      · simp
      · rename_i sc hsc
        have hok : ScanOK (buf.drop pos) sc := by
          split at hsc
          · exact consumeFieldToken_ok hsc
          · exact consumeToken_ok hsc
        have := hok.le
        simp only [List.length_drop] at this
        rw [slice?_of_le (Nat.le_add_right _ _) (by omega)]
        simp

theorem consumeToken_nil {p0 : Nat} {lk : TokKind} {np : Bool} :
    consumeToken [] p0 lk np = .ok { kind := .eof, len := 0 } := rfl

theorem consumeFieldToken_nil {p0 : Nat} {lk : TokKind} {np : Bool} :
    consumeFieldToken [] p0 lk np = .ok { kind := .eof, len := 0 } := rfl

/-- progress: `<eof>` is returned exactly at the end of input and is the only empty token
(in panic mode; in recovery mode a `<bad>` token after an unclosed comment is empty too, but
the cursor has still advanced past the comment). -/
theorem nextTokenCore_progress {buf : Bytes} {np : Bool} {s s' : State}
    (h : nextTokenCore buf np s = .ok s') (hp : s.pos ≤ buf.length) :
    (s'.tok.kind = .eof → s'.tok.pos = buf.length ∧ s'.pos = buf.length) ∧
    (np = false → s'.tok.pos = buf.length → s'.tok.kind = .eof) ∧
    (s'.tok.kind ≠ .eof → s.pos < s'.pos) ∧
    (np = false → s'.tok.kind ≠ .eof → s'.tok.pos < s'.tok.end) := by
  unfold nextTokenCore at h
  simp only at h
  split at h
  · cases h
  · cases h
  · rename_i pos comments space he htl
    have inv := triviaLoop_ok (p0 := s.pos) htl (by simp [CommentsOK]) (by simp [lastEnd])
    obtain ⟨i1, i2, i3, i4, i5, i6⟩ := inv
    split at h
    · rename_i hhe
      have j := i6 hhe
      have j4 := j.2
      subst j4
      split at h
      · cases h
      · cases h
        refine ⟨by simp, by simp, ?_, by simp⟩
        intro _; simp only; omega
    · split at h
      · cases h
      · cases h
      · rename_i sc hsc
        have hok : ScanOK (buf.drop pos) sc := by
          split at hsc
          · exact consumeFieldToken_ok hsc
          · exact consumeToken_ok hsc
        have hnil : buf.drop pos = [] → sc.kind = .eof ∧ sc.len = 0 := by
          intro hn
          rw [hn] at hsc
          split at hsc
          · rw [consumeFieldToken_nil] at hsc; cases hsc; exact ⟨rfl, rfl⟩
          · rw [consumeToken_nil] at hsc; cases hsc; exact ⟨rfl, rfl⟩
        have hdrop : buf.drop pos = [] ↔ pos = buf.length := by
          rw [List.drop_eq_nil_iff]; omega
        split at h
        · cases h
        · rename_i raw hraw
          cases h
          obtain ⟨r1, r2, r3⟩ := slice?_some hraw
          simp only
          refine ⟨?_, fun _ hp => (hnil (hdrop.2 hp)).1, ?_, ?_⟩
          · intro hk
            have := hdrop.1 (hok.eof hk)
            have := (hnil (hok.eof hk)).2
            omega
          · intro hk
            have hne : buf.drop pos ≠ [] := fun hn => hk (hnil hn).1
            have := hok.pos hne
            omega
          · intro _ hk
            have hne : buf.drop pos ≠ [] := fun hn => hk (hnil hn).1
            have := hok.pos hne
            omega

end MF.Lex
