/-
  MF.Proofs.LexModes — C10, I1: on text where panic-mode lexing succeeds, recovery-mode (`noPanic`) lexing returns
  the very same state.  Proved scanner by scanner: `f … false = .ok r → f … true = .ok r`.
-/
import MF.Proofs.LexErr
namespace MF.Lex

theorem skipComment_agrees {rest : Bytes} {p0 : Nat} {r : Nat × Bool}
    (h : skipComment rest p0 false = .ok r) : skipComment rest p0 true = .ok r ∧ r.2 = false := by
  unfold skipComment at h ⊢
  split at h
  · rename_i h1; cases h; simp [h1]
  · rename_i h1
    split at h
    · rename_i h2
      split at h
      · rename_i n hn; cases h; simp [h1, h2]
      · simp at h
    · rename_i h2; cases h; simp [h1, h2]

theorem triviaLoop_agrees {buf : Bytes} {fuel pos : Nat} {cs : List Comment} {r : Nat × List Comment × Bytes × Bool}
    (h : triviaLoop buf false fuel pos cs = .ok r) : triviaLoop buf true fuel pos cs = .ok r := by
  induction fuel generalizing pos cs with
  | zero => simp [triviaLoop] at h
  | succ fuel ih =>
    simp only [triviaLoop] at h ⊢
    split at h
    · cases h
    · rename_i space hsp
      split at h
      · cases h
      · cases h
      · rename_i n he hsc
        obtain ⟨hsc', hhe⟩ := skipComment_agrees hsc
        simp only at hhe; subst hhe
        rw [hsc']; simp only
        split at h
        · rename_i hn; cases h; simp [hn]
        · rename_i hn
          simp only [hn]
          split at h
          · cases h
          · rename_i raw hraw
            simp only [Bool.false_eq_true, if_false] at h ⊢
            exact ih h


theorem consumeNumber_agrees {rest : Bytes} {p0 : Nat} {sc : Scan}
    (h : consumeNumber rest p0 false = .ok sc) : consumeNumber rest p0 true = .ok sc := by
  unfold consumeNumber at h ⊢
  simp only at h ⊢
  split at h
  · cases h
  · split at h
    · split at h
      · simp at h
      · rename_i hc; simp only [hc]; exact h
    · exact h

theorem quotedStep_agrees {rest : Bytes} {tp p0 : Nat} {q : Bytes} {raw uni isId : Bool}
    {i : Nat} {content : Bytes} {he : Bool} {r : QStep}
    (h : quotedStep rest tp p0 q raw uni isId false i content he = r) (hr : ∀ e, r ≠ .fail e) :
    quotedStep rest tp p0 q raw uni isId true i content he = r := by
  unfold quotedStep at h ⊢
  simp only [Bool.false_eq_true, if_false, if_true] at h ⊢
  split at h
  · exact absurd h.symm (hr _)
  · split at h
    · exact h
    · split at h
      · split at h
        · exact absurd h.symm (hr _)
        · simp only [*, ↓reduceIte, Bool.false_eq_true] <;> exact h
      · split at h
        · split at h
          · exact absurd h.symm (hr _)
          · split at h
            · simp only [*, ↓reduceIte, Bool.false_eq_true] <;> exact h
            · split at h
              · simp only [*, ↓reduceIte, Bool.false_eq_true] <;> exact h
              · exact absurd h.symm (hr _)
              · simp only [*, ↓reduceIte, Bool.false_eq_true] <;> exact h
        · split at h
          · exact absurd h.symm (hr _)
          · simp only [*, ↓reduceIte, Bool.false_eq_true] <;> exact h

theorem quotedLoop_agrees {rest : Bytes} {tp p0 : Nat} {q : Bytes} {raw uni isId : Bool}
    {fuel i : Nat} {content : Bytes} {he : Bool} {qc : QC}
    (h : quotedLoop rest tp p0 q raw uni isId false fuel i content he = .ok qc) :
    quotedLoop rest tp p0 q raw uni isId true fuel i content he = .ok qc := by
  induction fuel generalizing i content he with
  | zero => simp [quotedLoop] at h
  | succ fuel ih =>
    simp only [quotedLoop] at h ⊢
    split at h
    · rename_i hs; rw [quotedStep_agrees hs (by simp)]; exact h
    · cases h
    · cases h
    · rename_i hs; rw [quotedStep_agrees hs (by simp)]; exact ih h

theorem consumeQuotedContent_agrees {rest : Bytes} {p0 : Nat} {q : Bytes} {raw uni isId : Bool} {qc : QC}
    (h : consumeQuotedContent rest p0 q raw uni isId false = .ok qc) :
    consumeQuotedContent rest p0 q raw uni isId true = .ok qc := quotedLoop_agrees h

theorem quotedTok_agrees {kind : TokKind} {pre : Nat} {rest : Bytes} {p0 : Nat} {q : Bytes} {raw uni isId : Bool} {sc : Scan}
    (h : quotedTok kind pre (consumeQuotedContent rest p0 q raw uni isId false) = .ok sc) :
    quotedTok kind pre (consumeQuotedContent rest p0 q raw uni isId true) = .ok sc := by
  cases hc : consumeQuotedContent rest p0 q raw uni isId false with
  | ok qc => rw [consumeQuotedContent_agrees hc]; rw [hc] at h; exact h
  | err e => rw [hc] at h; simp [quotedTok] at h
  | crash => rw [hc] at h; simp [quotedTok] at h

theorem fallbackTok_agrees {rest : Bytes} {c : UInt8} {p0 : Nat} {sc : Scan}
    (h : fallbackTok rest c p0 false = .ok sc) : fallbackTok rest c p0 true = .ok sc := by
  unfold fallbackTok at h ⊢
  split at h
  · rename_i hc; simp only [hc, if_true]; exact h
  · simp at h

theorem stringTok_agrees {rest : Bytes} {c : UInt8} {p0 : Nat} {sc : Scan}
    (h : stringTok rest c p0 false = .ok sc) : stringTok rest c p0 true = .ok sc := by
  unfold stringTok at h ⊢
  split at h
  · split at h
    · cases h
    · exact quotedTok_agrees h
  · exact fallbackTok_agrees h

theorem consumeToken_agrees {rest : Bytes} {p0 : Nat} {lk : TokKind} {sc : Scan}
    (h : consumeToken rest p0 lk false = .ok sc) : consumeToken rest p0 lk true = .ok sc := by
  unfold consumeToken at h ⊢
  split at h
  · exact h
  · split at h
    all_goals first
      | exact h
      | exact consumeNumber_agrees h
      | exact stringTok_agrees h
      | exact fallbackTok_agrees h
      | exact quotedTok_agrees h
      | (split at h
         · simp only [*, ↓reduceIte] <;> exact consumeNumber_agrees h
         · simp only [*, ↓reduceIte, Bool.false_eq_true] <;> exact h)

theorem consumeFieldToken_agrees {rest : Bytes} {p0 : Nat} {lk : TokKind} {sc : Scan}
    (h : consumeFieldToken rest p0 lk false = .ok sc) : consumeFieldToken rest p0 lk true = .ok sc := by
  unfold consumeFieldToken at h ⊢
  split at h
  · split at h
    · simp only [*, ↓reduceIte] <;> exact h
    · simp only [*, ↓reduceIte, Bool.false_eq_true] <;> exact consumeToken_agrees h
  · exact consumeToken_agrees h

theorem nextTokenCore_agrees {buf : Bytes} {s s' : State}
    (h : nextTokenCore buf false s = .ok s') : nextTokenCore buf true s = .ok s' := by
  unfold nextTokenCore at h ⊢
  simp only at h ⊢
  split at h
  · cases h
  · cases h
  · rename_i pos comments space he htl
    rw [triviaLoop_agrees htl]
    simp only
    split at h
    · simp only [*, ↓reduceIte] <;> exact h
    · rename_i hhe
      simp only [hhe]
      have hsc : ∀ sc, (if s.dotIdent = true then consumeFieldToken (List.drop pos buf) pos s.tok.kind false
            else consumeToken (List.drop pos buf) pos s.tok.kind false) = .ok sc →
          (if s.dotIdent = true then consumeFieldToken (List.drop pos buf) pos s.tok.kind true
            else consumeToken (List.drop pos buf) pos s.tok.kind true) = .ok sc := by
        intro sc hsc
        split at hsc
        · rename_i hd; simp only [hd, ↓reduceIte]; exact consumeFieldToken_agrees hsc
        · rename_i hd; simp only [hd]; exact consumeToken_agrees hsc
      split at h
      · cases h
      · cases h
      · rename_i sc hsc0
        rw [hsc sc hsc0]
        exact h

/-- I1 (C10): on text where panic-mode lexing succeeds, recovery-mode lexing returns the SAME state, token and all. -/
theorem noPanic_agrees {buf : Bytes} {s s' : State} (h : nextToken buf false s = .ok s') :
    nextToken buf true s = .ok s' := by
  have hc := nextTokenCore_agrees (nextToken_ok_core h)
  unfold nextToken
  rw [hc]

/-- iterate recovery-mode `nextToken` until `<eof>` (what a skip loop that never stops early enumerates) -/
def recAllFrom (buf : Bytes) : Nat → State → List Token → LexAll
  | 0, _, acc => .crash acc.reverse
  | fuel + 1, s, acc =>
    match nextToken buf true s with
    | .crash => .crash acc.reverse
    | .err e => .err acc.reverse e
    | .ok s' =>
      if s'.tok.kind == .eof then .ok (s'.tok :: acc).reverse
      else recAllFrom buf fuel s' (s'.tok :: acc)

def recAll (buf : Bytes) : LexAll := recAllFrom buf (buf.length + 2) init []

theorem recAllFrom_eq_lexAllFrom {buf : Bytes} {fuel : Nat} {s : State} {acc ts : List Token}
    (h : lexAllFrom buf fuel s acc = .ok ts) : recAllFrom buf fuel s acc = .ok ts := by
  induction fuel generalizing s acc with
  | zero => simp [lexAllFrom] at h
  | succ fuel ih =>
    simp only [lexAllFrom] at h
    simp only [recAllFrom]
    split at h
    · cases h
    · cases h
    · rename_i s' hnt
      rw [noPanic_agrees hnt]
      simp only
      split at h
      · rename_i hk; simp only [hk, ↓reduceIte]; exact h
      · rename_i hk; simp only [hk]; exact ih h

/-- I1, corollary: iterating recovery-mode `nextToken` over a lexically clean buffer enumerates exactly `lexAll buf`. -/
theorem recAll_clean {buf : Bytes} {ts : List Token} (h : lexAll buf = .ok ts) : recAll buf = .ok ts :=
  recAllFrom_eq_lexAllFrom h

end MF.Lex
