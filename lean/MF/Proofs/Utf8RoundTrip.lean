/-
  UTF-8 facts about the model's decoder / encoder (`MF.Utf8.decodeRune`, `MF.Utf8.encodeRune`):
  decoding a non-empty byte string either reports an invalid byte (`(RuneError, 1)`) or yields a rune whose
  encoding is exactly the consumed prefix.
-/
import MF.Model.Utf8
import MF.Proofs.Basic
namespace MF.Utf8

theorem toUInt8_of_eq {x : Nat} {b : UInt8} (h : x = b.toNat) : x.toUInt8 = b := by
  subst h; simp

/-- the "valid" outcome of `decodeRune s = (r, n)` -/
def Valid (s : Bytes) (r n : Nat) : Prop :=
  1 ≤ n ∧ n ≤ 4 ∧ n ≤ s.length ∧ encodeRune r = s.take n ∧ r < 0x110000 ∧ ¬(0xD800 ≤ r ∧ r ≤ 0xDFFF) ∧
    (n = 1 ↔ r < 0x80) ∧ (1 < n → ∀ b ∈ s.take n, 0x80 ≤ b.toNat)

theorem surr_false {r : Nat} (h1 : ¬(0xD800 ≤ r ∧ r ≤ 0xDFFF)) (h2 : r < 0x110000) :
    ((decide (0xD800 ≤ r) && decide (r ≤ 0xDFFF)) || decide (0x10FFFF < r)) = false := by
  simp only [Bool.or_eq_false_iff, Bool.and_eq_false_iff, decide_eq_false_iff_not]
  omega

theorem enc1 {s0 : UInt8} (h : s0.toNat < 0x80) : encodeRune s0.toNat = [s0] := by
  unfold encodeRune
  rw [if_pos h, toUInt8_of_eq rfl]

theorem enc2 {s0 s1 : UInt8} (h0 : 0xC2 ≤ s0.toNat) (h0' : s0.toNat < 0xE0)
    (h1 : 0x80 ≤ s1.toNat) (h1' : s1.toNat ≤ 0xBF) :
    encodeRune ((s0.toNat % 32) * 64 + s1.toNat % 64) = [s0, s1] := by
  unfold encodeRune
  rw [if_neg (by omega), if_pos (by omega)]
  rw [toUInt8_of_eq (b := s0) (by omega), toUInt8_of_eq (b := s1) (by omega)]

theorem enc3 {s0 s1 s2 : UInt8} {r : Nat}
    (hr : r = (s0.toNat % 16) * 4096 + (s1.toNat % 64) * 64 + s2.toNat % 64)
    (h0 : 0xE0 ≤ s0.toNat) (h0' : s0.toNat < 0xF0)
    (h1 : 0x80 ≤ s1.toNat) (h1' : s1.toNat ≤ 0xBF) (h2 : 0x80 ≤ s2.toNat) (h2' : s2.toNat ≤ 0xBF)
    (hlo : 0x800 ≤ r) (hs : ¬(0xD800 ≤ r ∧ r ≤ 0xDFFF)) :
    encodeRune r = [s0, s1, s2] := by
  unfold encodeRune
  rw [if_neg (by omega), if_neg (by omega), surr_false hs (by omega)]
  rw [if_neg (by simp), if_pos (by omega)]
  rw [toUInt8_of_eq (b := s0) (by omega), toUInt8_of_eq (b := s1) (by omega), toUInt8_of_eq (b := s2) (by omega)]

theorem enc4 {s0 s1 s2 s3 : UInt8} {r : Nat}
    (hr : r = (s0.toNat % 8) * 262144 + (s1.toNat % 64) * 4096 + (s2.toNat % 64) * 64 + s3.toNat % 64)
    (h0 : 0xF0 ≤ s0.toNat) (h0' : s0.toNat < 0xF5)
    (h1 : 0x80 ≤ s1.toNat) (h1' : s1.toNat ≤ 0xBF) (h2 : 0x80 ≤ s2.toNat) (h2' : s2.toNat ≤ 0xBF)
    (h3 : 0x80 ≤ s3.toNat) (h3' : s3.toNat ≤ 0xBF)
    (hlo : 0x10000 ≤ r) (hhi : r < 0x110000) :
    encodeRune r = [s0, s1, s2, s3] := by
  unfold encodeRune
  rw [if_neg (by omega), if_neg (by omega), surr_false (by omega) hhi]
  rw [if_neg (by simp), if_neg (by omega)]
  rw [toUInt8_of_eq (b := s0) (by omega), toUInt8_of_eq (b := s1) (by omega), toUInt8_of_eq (b := s2) (by omega),
    toUInt8_of_eq (b := s3) (by omega)]

theorem dec2_cases (s0 : UInt8) (t : Bytes) (h0 : 0xC2 ≤ s0.toNat) (h0' : s0.toNat < 0xE0) :
    ((dec2 s0.toNat t).1 = runeError ∧ (dec2 s0.toNat t).2 = 1) ∨
      Valid (s0 :: t) (dec2 s0.toNat t).1 (dec2 s0.toNat t).2 := by
  unfold dec2
  cases t with
  | nil => left; exact ⟨rfl, rfl⟩
  | cons s1 t =>
    simp only
    split
    · left; exact ⟨rfl, rfl⟩
    · rename_i h
      simp only [Bool.or_eq_true, decide_eq_true_eq, not_or, Nat.not_lt] at h
      right
      refine ⟨by omega, by omega, by simp, ?_, by simp only; omega, by simp only; omega, by simp only; omega, ?_⟩
      · simp only [List.take_succ_cons, List.take_zero]
        exact enc2 h0 h0' h.1 h.2
      · intro _ b hb
        simp only [List.take_succ_cons, List.take_zero, List.mem_cons, List.not_mem_nil, or_false] at hb
        rcases hb with rfl | rfl <;> omega

theorem dec3_cases (s0 : UInt8) (t : Bytes) (h0 : 0xE0 ≤ s0.toNat) (h0' : s0.toNat < 0xF0) :
    ((dec3 s0.toNat t).1 = runeError ∧ (dec3 s0.toNat t).2 = 1) ∨
      Valid (s0 :: t) (dec3 s0.toNat t).1 (dec3 s0.toNat t).2 := by
  unfold dec3
  match t with
  | [] => left; exact ⟨rfl, rfl⟩
  | [_] => left; exact ⟨rfl, rfl⟩
  | s1 :: s2 :: t =>
    simp only
    generalize hlo : (if (s0.toNat == 0xE0) = true then 0xA0 else 0x80) = lo
    generalize hhi : (if (s0.toNat == 0xED) = true then 0x9F else 0xBF) = hi
    have hlo' : 0x80 ≤ lo ∧ (s0.toNat = 0xE0 → 0xA0 ≤ lo) := by
      subst hlo; clear hhi; split <;> simp_all
    have hhi' : hi ≤ 0xBF ∧ (s0.toNat = 0xED → hi ≤ 0x9F) := by
      subst hhi; split <;> simp_all
    clear hlo hhi
    split
    · left; exact ⟨rfl, rfl⟩
    · rename_i h
      split
      · left; exact ⟨rfl, rfl⟩
      · rename_i h'
        simp only [Bool.or_eq_true, decide_eq_true_eq, not_or, Nat.not_lt] at h h'
        right
        refine ⟨by omega, by omega, by simp, ?_, by simp only; omega, by simp only; omega, by simp only; omega, ?_⟩
        · simp only [List.take_succ_cons, List.take_zero]
          exact enc3 rfl h0 h0' (by omega) (by omega) h'.1 h'.2 (by omega) (by omega)
        · intro _ b hb
          simp only [List.take_succ_cons, List.take_zero, List.mem_cons, List.not_mem_nil, or_false] at hb
          rcases hb with rfl | rfl | rfl <;> omega

theorem dec4_cases (s0 : UInt8) (t : Bytes) (h0 : 0xF0 ≤ s0.toNat) (h0' : s0.toNat < 0xF5) :
    ((dec4 s0.toNat t).1 = runeError ∧ (dec4 s0.toNat t).2 = 1) ∨
      Valid (s0 :: t) (dec4 s0.toNat t).1 (dec4 s0.toNat t).2 := by
  unfold dec4
  match t with
  | [] => left; exact ⟨rfl, rfl⟩
  | [_] => left; exact ⟨rfl, rfl⟩
  | [_, _] => left; exact ⟨rfl, rfl⟩
  | s1 :: s2 :: s3 :: t =>
    simp only
    generalize hlo : (if (s0.toNat == 0xF0) = true then 0x90 else 0x80) = lo
    generalize hhi : (if (s0.toNat == 0xF4) = true then 0x8F else 0xBF) = hi
    have hlo' : 0x80 ≤ lo ∧ (s0.toNat = 0xF0 → 0x90 ≤ lo) := by
      subst hlo; clear hhi; split <;> simp_all
    have hhi' : hi ≤ 0xBF ∧ (s0.toNat = 0xF4 → hi ≤ 0x8F) := by
      subst hhi; split <;> simp_all
    clear hlo hhi
    split
    · left; exact ⟨rfl, rfl⟩
    · rename_i h
      split
      · left; exact ⟨rfl, rfl⟩
      · rename_i h'
        split
        · left; exact ⟨rfl, rfl⟩
        · rename_i h''
          simp only [Bool.or_eq_true, decide_eq_true_eq, not_or, Nat.not_lt] at h h' h''
          right
          refine ⟨by omega, by omega, by simp, ?_, by simp only; omega, by simp only; omega, by simp only; omega, ?_⟩
          · simp only [List.take_succ_cons, List.take_zero]
            exact enc4 rfl h0 h0' (by omega) (by omega) h'.1 h'.2 h''.1 h''.2 (by omega) (by omega)
          · intro _ b hb
            simp only [List.take_succ_cons, List.take_zero, List.mem_cons, List.not_mem_nil, or_false] at hb
            rcases hb with rfl | rfl | rfl | rfl <;> omega

/-- Item 1: the two outcomes of `DecodeRuneInString` on a non-empty string. -/
theorem decodeRune_cases (s : Bytes) (hs : s ≠ []) :
    ((decodeRune s).1 = runeError ∧ (decodeRune s).2 = 1) ∨ Valid s (decodeRune s).1 (decodeRune s).2 := by
  cases s with
  | nil => exact absurd rfl hs
  | cons s0 t =>
    unfold decodeRune
    simp only
    split
    · rename_i h
      right
      refine ⟨by omega, by omega, by simp, ?_, by simp only; omega, by simp only; omega, ⟨fun _ => h, fun _ => rfl⟩, ?_⟩
      · simp only [List.take_succ_cons, List.take_zero]
        exact enc1 h
      · intro h; simp at h
    · split
      · left; exact ⟨rfl, rfl⟩
      · split
        · exact dec2_cases s0 t (by omega) (by omega)
        · split
          · exact dec3_cases s0 t (by omega) (by omega)
          · split
            · exact dec4_cases s0 t (by omega) (by omega)
            · left; exact ⟨rfl, rfl⟩

/-- Item 1 with `Valid` unfolded. -/
theorem decodeRune_cases' (s : Bytes) (hs : s ≠ []) :
    let r := (decodeRune s).1
    let n := (decodeRune s).2
    (r = runeError ∧ n = 1) ∨
    (1 ≤ n ∧ n ≤ 4 ∧ n ≤ s.length ∧ encodeRune r = s.take n ∧ r < 0x110000 ∧ ¬(0xD800 ≤ r ∧ r ≤ 0xDFFF) ∧
      (n = 1 ↔ r < 0x80) ∧ (1 < n → ∀ b ∈ s.take n, 0x80 ≤ b.toNat)) :=
  decodeRune_cases s hs

end MF.Utf8
