/-
  MF.Proofs.QueryComplete — completeness of the query model (MF/Model/Query.lean) w.r.t. the documented grammar G_Q
  (MF/Spec/QueryGrammar.lean), eventual-fuel form (`Ev`): every derivation of `QueryD0` (= G_Q without the `expr.*`
  production) read by a token list without unquoted SAFE_CAST / REPLACE_FIELDS identifiers and followed by `<eof>` is
  accepted by `parseQueryTop`, with ONE tree for all sufficiently large fuels.
  Expression slots: `MF.Expr.parseExpr_complete` (C07) through the erasure theorem and the fuel monotonicity of the
  positioned parser (`parsePExpr_mono`, MF/Proofs/ExprPosTerminates.lean).  No induction over `Expr`.
-/
import MF.Proofs.QuerySound
import MF.Proofs.ExprComplete
import MF.Proofs.ExprPosTerminates
namespace MF.Query
open MF MF.Expr

/-! ## readings -/

theorem matchB_split {a b : List QD} {pre : List Token} (h : matchB (a ++ b) pre = true) :
    ∃ p q, pre = p ++ q ∧ matchB a p = true ∧ matchB b q = true := by
  induction a generalizing pre with
  | nil => exact ⟨[], pre, rfl, rfl, by simpa using h⟩
  | cons d a ih =>
    cases pre with
    | nil => simp [matchB] at h
    | cons t pre =>
      simp only [List.cons_append, matchB, Bool.and_eq_true] at h
      obtain ⟨p, q, rfl, hp, hq⟩ := ih h.2
      exact ⟨t :: p, q, rfl, by simp [matchB, h.1, hp], hq⟩

theorem matchB_e_inv {pre : List Token} {ys : List Tok'} (h : matchB (ys.map QD.e) pre = true) : pre.map proj = ys := by
  induction ys generalizing pre with
  | nil => cases pre with
    | nil => rfl
    | cons t p => simp [matchB] at h
  | cons y ys ih => cases pre with
    | nil => simp [matchB] at h
    | cons t p =>
      simp only [List.map_cons, matchB, QD.ok, Bool.and_eq_true, beq_iff_eq] at h
      simp [h.1, ih h.2]

theorem matchB_nil {pa : List Token} (h : matchB [] pa = true) : pa = [] := by
  cases pa with
  | nil => rfl
  | cons t p => simp [matchB] at h

theorem matchB_cons {d : QD} {ds : List QD} {pa : List Token} (h : matchB (d :: ds) pa = true) :
    ∃ t p, pa = t :: p ∧ d.ok t = true ∧ matchB ds p = true := by
  cases pa with
  | nil => simp [matchB] at h
  | cons t p =>
    simp only [matchB, Bool.and_eq_true] at h
    exact ⟨t, p, rfl, h.1, h.2⟩

theorem ok_kw {c : QK} {t : Token} (h : (QD.kw c).ok t = true) : qk t.kind = c := by
  simpa [QD.ok] using h

theorem ok_ident {n : Bytes} {t : Token} (h : (QD.ident n).ok t = true) : qk t.kind = .ident := by
  simp only [QD.ok, Bool.and_eq_true, beq_iff_eq] at h
  rw [h.1]; rfl

/-! ## the two token tables: what the expression layer sees of a token the query layer classifies -/

theorem qsym_spec {s : Bytes} {c : QK} (h : qsym s = c) (hc : c ≠ .other) :
    ∃ p ∈ qsymTable, B p.1 = s ∧ p.2 = c := by
  unfold qsym at h
  split at h
  · rename_i p hp
    have hb := List.find?_some hp
    exact ⟨p, List.mem_of_find?_eq_some hp, eq_of_beq hb, h⟩
  · exact absurd h.symm hc

theorem qk_fact (P : QK → Bool) (Q : TK → Bool)
    (htab : ∀ p ∈ qsymTable, P p.2 = true → Q (symTK (B p.1)) = true) (hother : P .other = false)
    (h1 : P .eof = true → Q .eof = true) (h2 : P .ident = true → Q .ident = true)
    (h3 : P .int = true → Q .int = true) (h4 : P .param = true → Q .param = true)
    {k : TokKind} (h : P (qk k) = true) : Q (tk k) = true := by
  cases k with
  | sym s =>
    have hc : qsym s ≠ .other := fun e => by
      simp only [qk, e, hother] at h
      cases h
    obtain ⟨p, hp, rfl, he⟩ := qsym_spec rfl hc
    exact htab p hp (by rw [he]; exact h)
  | eof => exact h1 h
  | ident => exact h2 h
  | int => exact h3 h
  | param => exact h4 h
  | bad => simp only [qk, hother] at h; cases h
  | float => simp only [qk, hother] at h; cases h
  | string => simp only [qk, hother] at h; cases h
  | bytes => simp only [qk, hother] at h; cases h

/-- the classes of the query layer behind which an expression cannot continue -/
def stopK : QK → Bool
  | .eof | .ident | .comma | .as_ | .from_ | .where_ | .group | .having | .order | .limit | .asc | .desc => true
  | _ => false

theorem follow_of_stop {rest : List Token} (h : stopK (qcur rest) = true) : Follow rest := by
  unfold Follow noCont
  cases rest with
  | nil => rfl
  | cons t tl =>
    have := qk_fact stopK (fun c => (contLevel c).isNone) (by decide +kernel) rfl (fun _ => rfl) (fun _ => rfl)
      (fun h => absurd h (by decide)) (fun h => absurd h (by decide)) (k := t.kind) h
    simp only [cur_cons]
    cases hcl : contLevel (tk t.kind) with
    | none => rfl
    | some l => rw [hcl] at this; cases this

/-- classes that cannot start an expression -/
def noStartK : QK → Bool
  | .eof | .star | .from_ | .semi | .rparen | .as_ | .all | .distinct => true
  | _ => false

theorem not_start_of {k : TokKind} (h : noStartK (qk k) = true) : startTK (tk k) = false := by
  have := qk_fact noStartK (fun c => !startTK c) (by decide +kernel) rfl (fun _ => rfl) (fun h => absurd h (by decide))
    (fun h => absurd h (by decide)) (fun h => absurd h (by decide)) (k := k) h
  simpa using this

/-! ## clause starts -/

def clauseIdx : QK → Nat
  | .from_ => 1 | .where_ => 2 | .group => 3 | .having => 4 | .order => 5 | .limit => 6 | .eof => 7
  | _ => 0

/-- the rest starts with the keyword of clause number `≥ n` (FROM 1 … LIMIT 6) or is at `<eof>` (7) -/
def StartGe (n : Nat) (rest : List Token) : Prop := n ≤ clauseIdx (qcur rest)

theorem StartGe.mono {n m : Nat} {R : List Token} (h : StartGe n R) (hm : m ≤ n) : StartGe m R := Nat.le_trans hm h

theorem clause_cases {k : QK} (h : 1 ≤ clauseIdx k) :
    k = .from_ ∨ k = .where_ ∨ k = .group ∨ k = .having ∨ k = .order ∨ k = .limit ∨ k = .eof := by
  cases k <;> simp [clauseIdx] at h ⊢

theorem startGe_step {P : List QD → Prop} {c : QK} {n : Nat} (hP : ∀ ds, P ds → ∃ ds', ds = .kw c :: ds')
    (hn : n ≤ clauseIdx c) {ds : List QD} {p R : List Token} (hd : Opt P ds) (hm : matchB ds p = true)
    (hR : StartGe n R) : StartGe n (p ++ R) := by
  cases hd with
  | none => rw [matchB_nil hm]; exact hR
  | some h =>
    obtain ⟨ds', rfl⟩ := hP _ h
    obtain ⟨t, p', rfl, ht, _⟩ := matchB_cons hm
    show n ≤ clauseIdx (qk t.kind)
    rw [ok_kw ht]; exact hn

theorem fromD_head : ∀ ds, FromD ds → ∃ ds', ds = .kw .from_ :: ds' := by
  intro ds h; cases h <;> exact ⟨_, rfl⟩
theorem whereD_head : ∀ ds, WhereD ds → ∃ ds', ds = .kw .where_ :: ds' := by
  intro ds h; cases h; exact ⟨_, rfl⟩
theorem groupD_head : ∀ ds, GroupD ds → ∃ ds', ds = .kw .group :: ds' := by
  intro ds h; cases h; exact ⟨_, rfl⟩
theorem havingD_head : ∀ ds, HavingD ds → ∃ ds', ds = .kw .having :: ds' := by
  intro ds h; cases h; exact ⟨_, rfl⟩
theorem orderD_head : ∀ ds, OrderD ds → ∃ ds', ds = .kw .order :: ds' := by
  intro ds h; cases h; exact ⟨_, rfl⟩
theorem limitD_head : ∀ ds, LimitD ds → ∃ ds', ds = .kw .limit :: ds' := by
  intro ds h; cases h <;> exact ⟨_, rfl⟩

theorem kwLike_ident {R : List Token} {s : Bytes} (h : (hd R).isKeywordLike s = true) : qcur R = .ident := by
  cases R with
  | nil => simp [hd, Token.isKeywordLike] at h
  | cons t tl =>
    simp only [hd_cons, Token.isKeywordLike, Bool.and_eq_true, beq_iff_eq] at h
    show qk t.kind = .ident
    rw [h.1]; rfl

/-- what may follow a select item: `,` or a clause start -/
def ItemFollow (R : List Token) : Prop := qcur R = .comma ∨ StartGe 1 R

structure RestFacts (R : List Token) : Prop where
  follow : Follow R
  notAs : qcur R ≠ .as_
  notIdent : qcur R ≠ .ident
  notDot : qcur R ≠ .dot
  notExcept : qcur R ≠ .except

theorem restFacts_of_k {R : List Token} {k : QK} (h : qcur R = k) (hs : stopK k = true) (h1 : k ≠ .as_)
    (h2 : k ≠ .ident) : RestFacts R :=
  { follow := follow_of_stop (by rw [h]; exact hs)
    notAs := by rw [h]; exact h1
    notIdent := by rw [h]; exact h2
    notDot := by rw [h]; intro e; rw [e] at hs; cases hs
    notExcept := by rw [h]; intro e; rw [e] at hs; cases hs }

theorem StartGe.facts {R : List Token} (h : StartGe 1 R) : RestFacts R := by
  rcases clause_cases h with h | h | h | h | h | h | h <;> exact restFacts_of_k h rfl (by decide) (by decide)

theorem ItemFollow.facts {R : List Token} (h : ItemFollow R) : RestFacts R := by
  rcases h with h | h
  · exact restFacts_of_k h rfl (by decide) (by decide)
  · exact h.facts

theorem starModifiers_ok_of {R : List Token} (h : RestFacts R) : starModifiers R = .ok () := by
  unfold starModifiers
  rw [if_neg h.notExcept]
  split
  · rename_i hk; exact absurd (kwLike_ident hk) h.notIdent
  · rfl

/-! ## expression slots -/

theorem exprY_head {ds : List QD} {p : List Token} (he : ExprY ds) (hm : matchB ds p = true) :
    ∃ t p', p = t :: p' ∧ startTK (tk t.kind) = true := by
  obtain ⟨e, _, hn, rfl⟩ := he
  have hy := matchB_e_inv hm
  have hs := hk_yield_start e hn
  cases p with
  | nil =>
    simp only [List.map_nil] at hy
    rw [← hy] at hs
    simp [hk, startTK] at hs
  | cons t p' =>
    refine ⟨t, p', rfl, ?_⟩
    rw [← hy] at hs
    simpa [hk, proj] using hs

theorem parsePExpr_ev {ds : List QD} {pre rest : List Token} (he : ExprY ds) (hm : matchB ds pre = true)
    (hc : ∀ t ∈ pre, isCastLike t = false) (hf : Follow rest) :
    ∃ pe n, ∀ f, n ≤ f → parsePExpr f (pre ++ rest) = .ok (pe, rest) := by
  obtain ⟨e, hp, hn, rfl⟩ := he
  obtain ⟨n, hn'⟩ := parseExpr_complete hp hn (matchB_e_inv hm) hc hf
  have h := hn' n (Nat.le_refl _)
  rw [parseExpr_eq_erase] at h
  obtain ⟨a, ha, hea⟩ := Res.map_eq_ok.1 h
  obtain ⟨pe, r⟩ := a
  simp only [er, Prod.mk.injEq] at hea
  obtain ⟨_, rfl⟩ := hea
  refine ⟨pe, n, fun f hf' => ?_⟩
  rw [parsePExpr_mono hf' (by rw [ha]; intro h; cases h), ha]

/-! ## aliases, select items -/

theorem alias_some {a : List QD} {pa R : List Token} (hd : AliasD a) (hm : matchB a pa = true) :
    ∃ x, tryParseAsAlias (pa ++ R) = .ok (some x, R) := by
  cases hd with
  | bare n =>
    obtain ⟨t, p, rfl, ht, hp⟩ := matchB_cons hm
    rw [matchB_nil hp]
    have hq : qcur (([t] : List Token) ++ R) = .ident := ok_ident ht
    exact ⟨⟨none, identOf t⟩, by simp only [tryParseAsAlias, hq]; rfl⟩
  | as_ n =>
    obtain ⟨t, p, rfl, ht, hp⟩ := matchB_cons hm
    obtain ⟨u, p', rfl, hu, hp'⟩ := matchB_cons hp
    rw [matchB_nil hp']
    have hq : qcur (([t, u] : List Token) ++ R) = .as_ := ok_kw ht
    have hq2 : qcur (u :: R) = .ident := ok_ident hu
    exact ⟨⟨some t.pos, identOf u⟩, by
      simp only [tryParseAsAlias, hq]
      simp only [List.cons_append, List.nil_append, List.tail_cons, parseIdent, hq2, if_true, hd_cons, Res.bind_ok]⟩

theorem alias_none {R : List Token} (h1 : qcur R ≠ .as_) (h2 : qcur R ≠ .ident) : tryParseAsAlias R = .ok (none, R) := by
  unfold tryParseAsAlias
  split
  · rename_i h; exact absurd h h1
  · rename_i h; exact absurd h h2
  · rfl

theorem alias_follow {a : List QD} {pa R : List Token} (hd : AliasD a) (hm : matchB a pa = true) : Follow (pa ++ R) := by
  cases hd with
  | bare n =>
    obtain ⟨t, p, rfl, ht, _⟩ := matchB_cons hm
    exact follow_of_stop (by show stopK (qk t.kind) = true; rw [ok_ident ht]; rfl)
  | as_ n =>
    obtain ⟨t, p, rfl, ht, _⟩ := matchB_cons hm
    exact follow_of_stop (by show stopK (qk t.kind) = true; rw [ok_kw ht]; rfl)

theorem qcur_not_star_of_start {t : Token} {p : List Token} (h : startTK (tk t.kind) = true) : qcur (t :: p) ≠ .star := by
  intro e
  have := not_start_of (k := t.kind) (by show noStartK (qk t.kind) = true; rw [show qk t.kind = .star from e]; rfl)
  rw [this] at h; cases h

theorem item_complete {ds : List QD} {p R : List Token} (hd : ItemD0 ds) (hm : matchB ds p = true)
    (hc : ∀ t ∈ p, isCastLike t = false) (hR : ItemFollow R) :
    ∃ i, Ev (fun f => parseSelectItem f (p ++ R)) (.ok (i, R)) := by
  have fR := hR.facts
  cases hd with
  | star =>
    obtain ⟨t, p', rfl, ht, hp⟩ := matchB_cons hm
    rw [matchB_nil hp]
    have hq : qcur (([t] : List Token) ++ R) = .star := ok_kw ht
    refine ⟨.star t.pos, 0, fun f _ => ?_⟩
    simp only [parseSelectItem, hq, if_true]
    simp only [List.cons_append, List.nil_append, List.tail_cons, starModifiers_ok_of fR, Res.bind_ok, hd_cons]
  | expr he =>
    obtain ⟨t, p', rfl, hs⟩ := exprY_head he hm
    obtain ⟨pe, n, hn⟩ := parsePExpr_ev he hm hc fR.follow
    refine ⟨.expr pe, n, fun f hf => ?_⟩
    have hns : qcur ((t :: p') ++ R) ≠ .star := qcur_not_star_of_start hs
    simp only [parseSelectItem]
    rw [if_neg hns, hn f hf]
    simp only [Res.bind_ok, alias_none fR.notAs fR.notIdent, if_neg fR.notDot]
  | alias he ha =>
    obtain ⟨pe', pa, rfl, hme, hma⟩ := matchB_split hm
    obtain ⟨t, p', rfl, hs⟩ := exprY_head he hme
    obtain ⟨x, hx⟩ := alias_some (R := R) ha hma
    obtain ⟨pe, n, hn⟩ := parsePExpr_ev he hme (fun u hu => hc u (by simp only [List.mem_append]; exact Or.inl hu))
      (alias_follow (R := R) ha hma)
    refine ⟨.alias pe x, n, fun f hf => ?_⟩
    have hns : qcur ((t :: p') ++ (pa ++ R)) ≠ .star := qcur_not_star_of_start hs
    simp only [parseSelectItem]
    rw [List.append_assoc, if_neg hns, hn f hf]
    simp only [Res.bind_ok, hx]

theorem item_head {ds : List QD} {p : List Token} (hd : ItemD0 ds) (hm : matchB ds p = true) :
    ∃ t p', p = t :: p' ∧ (qk t.kind = .star ∨ startTK (tk t.kind) = true) := by
  cases hd with
  | star =>
    obtain ⟨t, p', rfl, ht, _⟩ := matchB_cons hm
    exact ⟨t, p', rfl, Or.inl (ok_kw ht)⟩
  | expr he =>
    obtain ⟨t, p', rfl, hs⟩ := exprY_head he hm
    exact ⟨t, p', rfl, Or.inr hs⟩
  | alias he ha =>
    obtain ⟨pe', pa, rfl, hme, _⟩ := matchB_split hm
    obtain ⟨t, p', rfl, hs⟩ := exprY_head he hme
    exact ⟨t, p' ++ pa, rfl, Or.inr hs⟩

/-- the first token of an item does not end the select list behind a comma -/
theorem item_head_not_end {t : Token} {p : List Token} (h : qk t.kind = .star ∨ startTK (tk t.kind) = true) :
    qcur (t :: p) ≠ .eof ∧ qcur (t :: p) ≠ .from_ ∧ qcur (t :: p) ≠ .semi ∧ qcur (t :: p) ≠ .rparen := by
  rcases h with h | h
  · simp [qcur, h]
  · refine ⟨?_, ?_, ?_, ?_⟩ <;>
    · intro e
      have := not_start_of (k := t.kind) (by show noStartK (qk t.kind) = true; rw [show qk t.kind = _ from e]; rfl)
      rw [this] at h; cases h

/-- where the select list may end: directly (`tr = false`: a clause start follows) or with a trailing comma before FROM
or `<eof>` -/
inductive ListEnd (R : List Token) : Bool → List Token → Prop
  | plain : StartGe 1 R → ListEnd R false R
  | trail (t : Token) : qk t.kind = .comma → (qcur R = .from_ ∨ qcur R = .eof) → ListEnd R true (t :: R)

theorem ListEnd.itemFollow {R T : List Token} {tr : Bool} (h : ListEnd R tr T) : ItemFollow T := by
  cases h with
  | plain h => exact Or.inr h
  | trail t ht _ => exact Or.inl ht

theorem ListEnd.loop {R T : List Token} {tr : Bool} (h : ListEnd R tr T) (f : Nat) :
    resultsLoop (f + 1) T = .ok (([], tr), R) := by
  cases h with
  | plain h =>
    have : qcur R ≠ .comma := by
      rcases clause_cases h with h | h | h | h | h | h | h <;> simp [h]
    simp only [resultsLoop, if_neg this]
  | trail t ht hR =>
    have hq : qcur (t :: R) = .comma := ht
    simp only [resultsLoop, hq, if_true, List.tail_cons]
    rcases hR with h | h <;> simp only [h]

theorem items_complete {ds : List QD} {p : List Token} (hd : SepBy ItemD0 ds) :
    ∀ {R T : List Token} {tr : Bool}, matchB ds p = true → (∀ t ∈ p, isCastLike t = false) → ListEnd R tr T →
    ∃ i T1 is, Ev (fun f => parseSelectItem f (p ++ T)) (.ok (i, T1)) ∧
      Ev (fun f => resultsLoop f T1) (.ok ((is, tr), R)) := by
  induction hd generalizing p with
  | one hP =>
    intro R T tr hm hc hE
    obtain ⟨i, hi⟩ := item_complete hP hm hc hE.itemFollow
    exact ⟨i, T, [], hi, 1, fun f hf => by
      obtain ⟨g, rfl⟩ : ∃ g, f = g + 1 := ⟨f - 1, by omega⟩
      exact hE.loop g⟩
  | cons hP _ ih =>
    intro R T tr hm hc hE
    obtain ⟨p1, q, rfl, hm1, hmq⟩ := matchB_split hm
    obtain ⟨tc, p2, rfl, htc, hm2⟩ := matchB_cons hmq
    obtain ⟨i2, T2, is2, hi2, hl2⟩ := ih hm2 (fun u hu => hc u (by simp [hu])) hE
    have hcomma : qcur (tc :: (p2 ++ T)) = .comma := ok_kw htc
    have hcomma' : ∀ l, qcur (tc :: l) = .comma := fun _ => ok_kw htc
    obtain ⟨i1, hi1⟩ := item_complete (R := tc :: (p2 ++ T)) hP hm1 (fun u hu => hc u (by simp [hu])) (Or.inl hcomma)
    refine ⟨i1, tc :: (p2 ++ T), i2 :: is2, by simpa [List.append_assoc] using hi1, ?_⟩
    obtain ⟨n1, hn1⟩ := hi2
    obtain ⟨n2, hn2⟩ := hl2
    refine ⟨max n1 n2 + 1, fun f hf => ?_⟩
    obtain ⟨g, rfl⟩ : ∃ g, f = g + 1 := ⟨f - 1, by omega⟩
    -- the token behind the comma starts an item
    obtain ⟨hsub⟩ : Nonempty (SepBy ItemD0 _) := ⟨by assumption⟩
    have hhead : ∃ t p', p2 = t :: p' ∧ (qk t.kind = .star ∨ startTK (tk t.kind) = true) := by
      cases hsub with
      | one hQ => exact item_head hQ hm2
      | cons hQ _ =>
        obtain ⟨q1, q2, rfl, hq1, _⟩ := matchB_split hm2
        obtain ⟨t, p', rfl, h⟩ := item_head hQ hq1
        exact ⟨t, p' ++ q2, rfl, h⟩
    obtain ⟨t, p', rfl, ht⟩ := hhead
    obtain ⟨e1, e2, e3, e4⟩ := item_head_not_end (p := p' ++ T) ht
    simp only [List.cons_append] at hn1
    simp only [resultsLoop, hcomma', if_true, List.tail_cons, List.cons_append]
    simp only [hn1 g (by omega), Res.bind_ok, hn2 g (by omega)]

/-! ## FROM -/

theorem path_complete {ds : List QD} (hd : PathD ds) : ∀ {p T : List Token}, matchB ds p = true → qcur T ≠ .dot →
    ∃ t p' m, p = t :: p' ∧ qk t.kind = .ident ∧ Ev (fun f => pathLoop f (p' ++ T)) (.ok (m, T)) := by
  induction hd with
  | one n =>
    intro p T hm hT
    obtain ⟨t, p', rfl, ht, hp⟩ := matchB_cons hm
    rw [matchB_nil hp]
    exact ⟨t, [], [], rfl, ok_ident ht, 1, fun f hf => by
      obtain ⟨g, rfl⟩ : ∃ g, f = g + 1 := ⟨f - 1, by omega⟩
      simp only [List.nil_append, pathLoop, if_neg hT]⟩
  | cons n _ ih =>
    intro p T hm hT
    obtain ⟨t, p1, rfl, ht, hm1⟩ := matchB_cons hm
    obtain ⟨d, p2, rfl, hdot, hm2⟩ := matchB_cons hm1
    obtain ⟨u, p3, m, rfl, hu, n1, hn1⟩ := ih hm2 hT
    refine ⟨t, d :: u :: p3, identOf u :: m, rfl, ok_ident ht, n1 + 1, fun f hf => ?_⟩
    obtain ⟨g, rfl⟩ : ∃ g, f = g + 1 := ⟨f - 1, by omega⟩
    have hq : ∀ l, qcur (d :: l) = .dot := fun _ => ok_kw hdot
    have hq2 : ∀ l, qcur (u :: l) = .ident := fun _ => hu
    simp only [List.cons_append, pathLoop, hq, if_true, List.tail_cons, parseIdent, hq2, hd_cons, Res.bind_ok,
      hn1 g (by omega)]

theorem tableTail_ok {R : List Token} (h : StartGe 1 R) : tableTail R = .ok () := by
  unfold tableTail
  rcases clause_cases h with h | h | h | h | h | h | h <;> simp only [h]

theorem from_complete {ds : List QD} {p R : List Token} (hd : FromD ds) (hm : matchB ds p = true) (hR : StartGe 1 R) :
    ∃ x, Ev (fun f => tryParseFrom f (p ++ R)) (.ok (some x, R)) := by
  have fR := hR.facts
  have hR' : qcur R ≠ .lparen ∧ qcur R ≠ .hint := by
    rcases clause_cases hR with h | h | h | h | h | h | h <;> simp [h]
  -- both productions: a path, then an optional alias reading `pa`
  have key : ∀ {pth : List QD} {pp pa : List Token}, PathD pth → matchB pth pp = true → (tf : Token) →
      qk tf.kind = .from_ → qcur (pa ++ R) ≠ .dot → qcur (pa ++ R) ≠ .lparen → qcur (pa ++ R) ≠ .hint →
      (a : Option AsAlias) → tryParseAsAlias (pa ++ R) = .ok (a, R) →
      ∃ x, Ev (fun f => tryParseFrom f (tf :: (pp ++ pa) ++ R)) (.ok (some x, R)) := by
    intro pth pp pa hpth hmp tf htf h1 h2 h3 a ha
    obtain ⟨t, p', m, rfl, ht, n, hn⟩ := path_complete hpth (T := pa ++ R) hmp h1
    have hqf : ∀ l, qcur (tf :: l) = .from_ := fun _ => htf
    have hqi : ∀ l, qcur (t :: l) = .ident := fun _ => ht
    cases m with
    | nil =>
      refine ⟨⟨tf.pos, .tableName (identOf t) a⟩, n, fun f hf => ?_⟩
      simp only [tryParseFrom, hqf, if_true, List.cons_append, List.tail_cons, List.append_assoc, parseTableExpr, hqi,
        parseIdent, hd_cons, Res.bind_ok, hn f hf]
      simp only [ha, Res.bind_ok, tableTail_ok hR]
    | cons i m =>
      refine ⟨⟨tf.pos, .path (identOf t) (i :: m) a⟩, n, fun f hf => ?_⟩
      simp only [tryParseFrom, hqf, if_true, List.cons_append, List.tail_cons, List.append_assoc, parseTableExpr, hqi,
        parseIdent, hd_cons, Res.bind_ok, hn f hf]
      simp only [ha, Res.bind_ok, tableTail_ok hR]
  cases hd with
  | plain hp =>
    obtain ⟨tf, pp, rfl, htf, hmp⟩ := matchB_cons hm
    have := key (pa := []) hp hmp tf (ok_kw htf) (by simpa using fR.notDot) (by simpa using hR'.1) (by simpa using hR'.2)
      none (by simpa using alias_none fR.notAs fR.notIdent)
    simpa using this
  | alias hp ha =>
    obtain ⟨tf, pq, rfl, htf, hmq⟩ := matchB_cons hm
    obtain ⟨pp, pa, rfl, hmp, hma⟩ := matchB_split hmq
    obtain ⟨x, hx⟩ := alias_some (R := R) ha hma
    have hk : qcur (pa ++ R) = .ident ∨ qcur (pa ++ R) = .as_ := by
      cases ha with
      | bare n => obtain ⟨t, p, rfl, ht, _⟩ := matchB_cons hma; exact Or.inl (ok_ident ht)
      | as_ n => obtain ⟨t, p, rfl, ht, _⟩ := matchB_cons hma; exact Or.inr (ok_kw ht)
    exact key hp hmp tf (ok_kw htf) (by rcases hk with h | h <;> simp [h]) (by rcases hk with h | h <;> simp [h])
      (by rcases hk with h | h <;> simp [h]) (some x) hx

/-! ## WHERE, GROUP BY, HAVING -/

theorem where_complete' {ds : List QD} {p R : List Token} (hd : WhereD ds) (hm : matchB ds p = true)
    (hc : ∀ t ∈ p, isCastLike t = false) (hf : Follow R) :
    ∃ x, Ev (fun f => tryParseWhere f (p ++ R)) (.ok (some x, R)) := by
  cases hd with
  | mk he =>
    obtain ⟨t, p', rfl, ht, hm'⟩ := matchB_cons hm
    obtain ⟨pe, n, hn⟩ := parsePExpr_ev he hm' (fun u hu => hc u (by simp [hu])) hf
    have hq : ∀ l, qcur (t :: l) = .where_ := fun _ => ok_kw ht
    exact ⟨⟨t.pos, pe⟩, n, fun f hf' => by
      simp only [tryParseWhere, hq, if_true, List.cons_append, List.tail_cons, hn f hf', Res.bind_ok, hd_cons]⟩

theorem having_complete' {ds : List QD} {p R : List Token} (hd : HavingD ds) (hm : matchB ds p = true)
    (hc : ∀ t ∈ p, isCastLike t = false) (hf : Follow R) :
    ∃ x, Ev (fun f => tryParseHaving f (p ++ R)) (.ok (some x, R)) := by
  cases hd with
  | mk he =>
    obtain ⟨t, p', rfl, ht, hm'⟩ := matchB_cons hm
    obtain ⟨pe, n, hn⟩ := parsePExpr_ev he hm' (fun u hu => hc u (by simp [hu])) hf
    have hq : ∀ l, qcur (t :: l) = .having := fun _ => ok_kw ht
    exact ⟨⟨t.pos, pe⟩, n, fun f hf' => by
      simp only [tryParseHaving, hq, if_true, List.cons_append, List.tail_cons, hn f hf', Res.bind_ok, hd_cons]⟩

theorem exprs_complete {ds : List QD} {p : List Token} (hd : SepBy ExprY ds) :
    ∀ {R : List Token}, matchB ds p = true → (∀ t ∈ p, isCastLike t = false) → StartGe 1 R →
    ∃ e T1 es, Ev (fun f => parsePExpr f (p ++ R)) (.ok (e, T1)) ∧ Ev (fun f => exprListLoop f T1) (.ok (es, R)) := by
  induction hd generalizing p with
  | one hP =>
    intro R hm hc hR
    obtain ⟨pe, hpe⟩ : ∃ pe, Ev (fun f => parsePExpr f (p ++ R)) (.ok (pe, R)) := by
      obtain ⟨pe, n, hn⟩ := parsePExpr_ev hP hm hc hR.facts.follow
      exact ⟨pe, n, hn⟩
    have hnc : qcur R ≠ .comma := by
      rcases clause_cases hR with h | h | h | h | h | h | h <;> simp [h]
    exact ⟨pe, R, [], hpe, 1, fun f hf => by
      obtain ⟨g, rfl⟩ : ∃ g, f = g + 1 := ⟨f - 1, by omega⟩
      simp only [exprListLoop, if_neg hnc]⟩
  | cons hP _ ih =>
    intro R hm hc hR
    obtain ⟨p1, q, rfl, hm1, hmq⟩ := matchB_split hm
    obtain ⟨tc, p2, rfl, htc, hm2⟩ := matchB_cons hmq
    obtain ⟨e2, T2, es2, ⟨n1, hn1⟩, ⟨n2, hn2⟩⟩ := ih hm2 (fun u hu => hc u (by simp [hu])) hR
    have hcomma : qcur (tc :: (p2 ++ R)) = .comma := ok_kw htc
    have hcomma' : ∀ l, qcur (tc :: l) = .comma := fun _ => ok_kw htc
    obtain ⟨pe, hpe⟩ : ∃ pe, Ev (fun f => parsePExpr f (p1 ++ (tc :: (p2 ++ R)))) (.ok (pe, tc :: (p2 ++ R))) := by
      obtain ⟨pe, n, hn⟩ := parsePExpr_ev (rest := tc :: (p2 ++ R)) hP hm1 (fun u hu => hc u (by simp [hu]))
        (follow_of_stop (by rw [hcomma]; rfl))
      exact ⟨pe, n, hn⟩
    refine ⟨pe, tc :: (p2 ++ R), e2 :: es2, by simpa [List.append_assoc] using hpe, max n1 n2 + 1, fun f hf => ?_⟩
    obtain ⟨g, rfl⟩ : ∃ g, f = g + 1 := ⟨f - 1, by omega⟩
    simp only [exprListLoop, hcomma', if_true, List.cons_append, List.tail_cons, hn1 g (by omega), Res.bind_ok, hn2 g (by omega)]

theorem group_complete {ds : List QD} {p R : List Token} (hd : GroupD ds) (hm : matchB ds p = true)
    (hc : ∀ t ∈ p, isCastLike t = false) (hR : StartGe 1 R) :
    ∃ x, Ev (fun f => tryParseGroupBy f (p ++ R)) (.ok (some x, R)) := by
  cases hd with
  | mk hs =>
    obtain ⟨t, p1, rfl, ht, hm1⟩ := matchB_cons hm
    obtain ⟨b, p2, rfl, hb, hm2⟩ := matchB_cons hm1
    obtain ⟨e, T1, es, ⟨n1, hn1⟩, ⟨n2, hn2⟩⟩ := exprs_complete hs hm2 (fun u hu => hc u (by simp [hu])) hR
    have hq : ∀ l, qcur (t :: l) = .group := fun _ => ok_kw ht
    have hq2 : ∀ l, qcur (b :: l) = .by_ := fun _ => ok_kw hb
    exact ⟨⟨t.pos, e, es⟩, max n1 n2, fun f hf => by
      simp only [tryParseGroupBy, hq, if_true, List.cons_append, List.tail_cons, hq2, hn1 f (by omega), Res.bind_ok,
        hn2 f (by omega), hd_cons]⟩

/-! ## ORDER BY, LIMIT -/

/-- what may follow an ORDER BY item: `,`, LIMIT or `<eof>` -/
def OrdFollow (R : List Token) : Prop := qcur R = .comma ∨ qcur R = .limit ∨ qcur R = .eof

theorem ordItem_complete {ds : List QD} {p R : List Token} (hd : OrdItemD ds) (hm : matchB ds p = true)
    (hc : ∀ t ∈ p, isCastLike t = false) (hR : OrdFollow R) :
    ∃ i, Ev (fun f => parseOrderByItem f (p ++ R)) (.ok (i, R)) := by
  have hRs : stopK (qcur R) = true ∧ qcur R ≠ .collate ∧ qcur R ≠ .asc ∧ qcur R ≠ .desc := by
    rcases hR with h | h | h <;> simp [h, stopK]
  cases hd with
  | plain he =>
    obtain ⟨pe, n, hn⟩ := parsePExpr_ev he hm hc (follow_of_stop hRs.1)
    refine ⟨⟨pe, none⟩, n, fun f hf => ?_⟩
    simp only [parseOrderByItem, hn f hf, Res.bind_ok, if_neg hRs.2.1]
    have : tryParseDirection R = (none, R) := by
      unfold tryParseDirection
      split
      · rename_i h; exact absurd h hRs.2.2.1
      · rename_i h; exact absurd h hRs.2.2.2
      · rfl
    rw [this]
  | asc he =>
    obtain ⟨pe', pa, rfl, hme, hma⟩ := matchB_split hm
    obtain ⟨t, p', rfl, ht, hp'⟩ := matchB_cons hma
    rw [matchB_nil hp']
    have hq : ∀ l, qcur (t :: l) = .asc := fun _ => ok_kw ht
    obtain ⟨pe, n, hn⟩ := parsePExpr_ev (rest := t :: R) he hme (fun u hu => hc u (by simp [hu]))
      (follow_of_stop (by rw [hq]; rfl))
    refine ⟨⟨pe, some (.asc, t.pos)⟩, n, fun f hf => ?_⟩
    simp only [parseOrderByItem, List.append_assoc, List.cons_append, List.nil_append, hn f hf, Res.bind_ok]
    rw [if_neg (by rw [hq]; decide)]
    simp only [tryParseDirection, hq, List.tail_cons, hd_cons]
  | desc he =>
    obtain ⟨pe', pa, rfl, hme, hma⟩ := matchB_split hm
    obtain ⟨t, p', rfl, ht, hp'⟩ := matchB_cons hma
    rw [matchB_nil hp']
    have hq : ∀ l, qcur (t :: l) = .desc := fun _ => ok_kw ht
    obtain ⟨pe, n, hn⟩ := parsePExpr_ev (rest := t :: R) he hme (fun u hu => hc u (by simp [hu]))
      (follow_of_stop (by rw [hq]; rfl))
    refine ⟨⟨pe, some (.desc, t.pos)⟩, n, fun f hf => ?_⟩
    simp only [parseOrderByItem, List.append_assoc, List.cons_append, List.nil_append, hn f hf, Res.bind_ok]
    rw [if_neg (by rw [hq]; decide)]
    simp only [tryParseDirection, hq, List.tail_cons, hd_cons]

theorem ords_complete {ds : List QD} {p : List Token} (hd : SepBy OrdItemD ds) :
    ∀ {R : List Token}, matchB ds p = true → (∀ t ∈ p, isCastLike t = false) → (qcur R = .limit ∨ qcur R = .eof) →
    ∃ e T1 es, Ev (fun f => parseOrderByItem f (p ++ R)) (.ok (e, T1)) ∧ Ev (fun f => orderListLoop f T1) (.ok (es, R)) := by
  induction hd generalizing p with
  | one hP =>
    intro R hm hc hR
    obtain ⟨i, hi⟩ := ordItem_complete hP hm hc (Or.inr hR)
    have hnc : qcur R ≠ .comma := by rcases hR with h | h <;> simp [h]
    exact ⟨i, R, [], hi, 1, fun f hf => by
      obtain ⟨g, rfl⟩ : ∃ g, f = g + 1 := ⟨f - 1, by omega⟩
      simp only [orderListLoop, if_neg hnc]⟩
  | cons hP _ ih =>
    intro R hm hc hR
    obtain ⟨p1, q, rfl, hm1, hmq⟩ := matchB_split hm
    obtain ⟨tc, p2, rfl, htc, hm2⟩ := matchB_cons hmq
    obtain ⟨e2, T2, es2, ⟨n1, hn1⟩, ⟨n2, hn2⟩⟩ := ih hm2 (fun u hu => hc u (by simp [hu])) hR
    have hcomma : qcur (tc :: (p2 ++ R)) = .comma := ok_kw htc
    have hcomma' : ∀ l, qcur (tc :: l) = .comma := fun _ => ok_kw htc
    obtain ⟨i, hi⟩ := ordItem_complete (R := tc :: (p2 ++ R)) hP hm1 (fun u hu => hc u (by simp [hu])) (Or.inl hcomma)
    refine ⟨i, tc :: (p2 ++ R), e2 :: es2, by simpa [List.append_assoc] using hi, max n1 n2 + 1, fun f hf => ?_⟩
    obtain ⟨g, rfl⟩ : ∃ g, f = g + 1 := ⟨f - 1, by omega⟩
    simp only [orderListLoop, hcomma', if_true, List.cons_append, List.tail_cons, hn1 g (by omega), Res.bind_ok, hn2 g (by omega)]

theorem order_complete {ds : List QD} {p R : List Token} (hd : OrderD ds) (hm : matchB ds p = true)
    (hc : ∀ t ∈ p, isCastLike t = false) (hR : qcur R = .limit ∨ qcur R = .eof) :
    ∃ x, Ev (fun f => tryParseOrderBy f (p ++ R)) (.ok (some x, R)) := by
  cases hd with
  | mk hs =>
    obtain ⟨t, p1, rfl, ht, hm1⟩ := matchB_cons hm
    obtain ⟨b, p2, rfl, hb, hm2⟩ := matchB_cons hm1
    obtain ⟨e, T1, es, ⟨n1, hn1⟩, ⟨n2, hn2⟩⟩ := ords_complete hs hm2 (fun u hu => hc u (by simp [hu])) hR
    have hq : ∀ l, qcur (t :: l) = .order := fun _ => ok_kw ht
    have hq2 : ∀ l, qcur (b :: l) = .by_ := fun _ => ok_kw hb
    exact ⟨⟨t.pos, e, es⟩, max n1 n2, fun f hf => by
      simp only [tryParseOrderBy, hq, if_true, List.cons_append, List.tail_cons, hq2, hn1 f (by omega), Res.bind_ok,
        hn2 f (by omega), hd_cons]⟩

theorem int_complete {d : QD} {t : Token} (hd : IntD d) (ht : d.ok t = true) (R : List Token) :
    ∃ v, parseIntValue (t :: R) = .ok (v, R) := by
  cases hd with
  | int raw =>
    simp only [QD.ok, Bool.and_eq_true, beq_iff_eq] at ht
    have hq : qcur (t :: R) = .int := by show qk t.kind = .int; rw [ht.1]; rfl
    exact ⟨.int t.pos t.end t.base t.raw, by simp only [parseIntValue, hq, List.tail_cons, hd_cons]⟩
  | param n =>
    simp only [QD.ok, Bool.and_eq_true, beq_iff_eq] at ht
    have hq : qcur (t :: R) = .param := by show qk t.kind = .param; rw [ht.1]; rfl
    exact ⟨.param t.pos t.asString, by simp only [parseIntValue, hq, List.tail_cons, hd_cons]⟩

theorem limit_complete {ds : List QD} {p R : List Token} (hD : LimitD ds) (hm : matchB ds p = true)
    (hR : qcur R = .eof) : ∃ x, tryParseLimit (p ++ R) = .ok (some x, R) := by
  have hno : (hd R).isKeywordLike (B "OFFSET") = false := by
    cases hk : (hd R).isKeywordLike (B "OFFSET") with
    | false => rfl
    | true => have := kwLike_ident hk; rw [hR] at this; cases this
  cases hD with
  | plain hc =>
    obtain ⟨t, p1, rfl, ht, hm1⟩ := matchB_cons hm
    obtain ⟨c, p2, rfl, hcok, hm2⟩ := matchB_cons hm1
    rw [matchB_nil hm2]
    obtain ⟨v, hv⟩ := int_complete hc hcok R
    have hq : ∀ l, qcur (t :: l) = .limit := fun _ => ok_kw ht
    exact ⟨⟨t.pos, v, none⟩, by
      simp only [tryParseLimit, hq, if_true, List.cons_append, List.nil_append, List.tail_cons, hv, Res.bind_ok,
        tryParseOffset, hno, hd_cons]
      rfl⟩
  | offset hc ho =>
    obtain ⟨t, p1, rfl, ht, hm1⟩ := matchB_cons hm
    obtain ⟨c, p2, rfl, hcok, hm2⟩ := matchB_cons hm1
    obtain ⟨k, p3, rfl, hkok, hm3⟩ := matchB_cons hm2
    obtain ⟨o, p4, rfl, hook, hm4⟩ := matchB_cons hm3
    rw [matchB_nil hm4]
    obtain ⟨v, hv⟩ := int_complete hc hcok (k :: o :: R)
    obtain ⟨w, hw⟩ := int_complete ho hook R
    have hq : ∀ l, qcur (t :: l) = .limit := fun _ => ok_kw ht
    have hk : k.isKeywordLike (B "OFFSET") = true := by simpa [QD.ok] using hkok
    exact ⟨⟨t.pos, v, some ⟨k.pos, w⟩⟩, by
      simp only [tryParseLimit, hq, if_true, List.cons_append, List.nil_append, List.tail_cons, hv, Res.bind_ok,
        tryParseOffset, hk, hw, hd_cons, if_true]⟩

/-! ## optional clauses -/

theorem opt_from {ds : List QD} {p R : List Token} (hd : Opt FromD ds) (hm : matchB ds p = true) (hR : StartGe 2 R) :
    ∃ x, Ev (fun f => tryParseFrom f (p ++ R)) (.ok (x, R)) ∧ (ds ≠ [] → qcur (p ++ R) = .from_) := by
  cases hd with
  | none =>
    rw [matchB_nil hm]
    have : qcur R ≠ .from_ := by
      intro e; unfold StartGe at hR; rw [e] at hR; simp [clauseIdx] at hR
    exact ⟨none, ⟨0, fun f _ => by simp only [List.nil_append, tryParseFrom, if_neg this]⟩, fun h => absurd rfl h⟩
  | some h =>
    obtain ⟨x, hx⟩ := from_complete h hm (hR.mono (by omega))
    obtain ⟨ds', rfl⟩ := fromD_head _ h
    obtain ⟨t, p', rfl, ht, _⟩ := matchB_cons hm
    exact ⟨some x, hx, fun _ => ok_kw ht⟩

theorem opt_where {ds : List QD} {p R : List Token} (hd : Opt WhereD ds) (hm : matchB ds p = true)
    (hc : ∀ t ∈ p, isCastLike t = false) (hR : StartGe 3 R) :
    ∃ x, Ev (fun f => tryParseWhere f (p ++ R)) (.ok (x, R)) := by
  cases hd with
  | none =>
    rw [matchB_nil hm]
    have : qcur R ≠ .where_ := by
      intro e; unfold StartGe at hR; rw [e] at hR; simp [clauseIdx] at hR
    exact ⟨none, 0, fun f _ => by simp only [List.nil_append, tryParseWhere, if_neg this]⟩
  | some h =>
    obtain ⟨x, hx⟩ := where_complete' h hm hc (hR.mono (by omega)).facts.follow
    exact ⟨some x, hx⟩

theorem opt_group {ds : List QD} {p R : List Token} (hd : Opt GroupD ds) (hm : matchB ds p = true)
    (hc : ∀ t ∈ p, isCastLike t = false) (hR : StartGe 4 R) :
    ∃ x, Ev (fun f => tryParseGroupBy f (p ++ R)) (.ok (x, R)) := by
  cases hd with
  | none =>
    rw [matchB_nil hm]
    have : qcur R ≠ .group := by
      intro e; unfold StartGe at hR; rw [e] at hR; simp [clauseIdx] at hR
    exact ⟨none, 0, fun f _ => by simp only [List.nil_append, tryParseGroupBy, if_neg this]⟩
  | some h =>
    obtain ⟨x, hx⟩ := group_complete h hm hc (hR.mono (by omega))
    exact ⟨some x, hx⟩

theorem opt_having {ds : List QD} {p R : List Token} (hd : Opt HavingD ds) (hm : matchB ds p = true)
    (hc : ∀ t ∈ p, isCastLike t = false) (hR : StartGe 5 R) :
    ∃ x, Ev (fun f => tryParseHaving f (p ++ R)) (.ok (x, R)) := by
  cases hd with
  | none =>
    rw [matchB_nil hm]
    have : qcur R ≠ .having := by
      intro e; unfold StartGe at hR; rw [e] at hR; simp [clauseIdx] at hR
    exact ⟨none, 0, fun f _ => by simp only [List.nil_append, tryParseHaving, if_neg this]⟩
  | some h =>
    obtain ⟨x, hx⟩ := having_complete' h hm hc (hR.mono (by omega)).facts.follow
    exact ⟨some x, hx⟩

theorem opt_order {ds : List QD} {p R : List Token} (hd : Opt OrderD ds) (hm : matchB ds p = true)
    (hc : ∀ t ∈ p, isCastLike t = false) (hR : StartGe 6 R) :
    ∃ x, Ev (fun f => tryParseOrderBy f (p ++ R)) (.ok (x, R)) := by
  have hR' : qcur R = .limit ∨ qcur R = .eof := by
    unfold StartGe at hR
    rcases clause_cases (Nat.le_trans (by omega) hR) with h | h | h | h | h | h | h <;> simp [h, clauseIdx] at hR ⊢
  cases hd with
  | none =>
    rw [matchB_nil hm]
    have : qcur R ≠ .order := by rcases hR' with h | h <;> simp [h]
    exact ⟨none, 0, fun f _ => by simp only [List.nil_append, tryParseOrderBy, if_neg this]⟩
  | some h =>
    obtain ⟨x, hx⟩ := order_complete h hm hc hR'
    exact ⟨some x, hx⟩

theorem opt_limit {ds : List QD} {p R : List Token} (hd : Opt LimitD ds) (hm : matchB ds p = true) (hR : qcur R = .eof) :
    ∃ x, tryParseLimit (p ++ R) = .ok (x, R) := by
  cases hd with
  | none =>
    rw [matchB_nil hm]
    exact ⟨none, by simp only [List.nil_append, tryParseLimit, hR]; rfl⟩
  | some h =>
    obtain ⟨x, hx⟩ := limit_complete h hm hR
    exact ⟨some x, hx⟩

/-! ## assembling a whole query -/

theorem aod_complete {a : List QD} {pa X : List Token} (ha : AodD a) (hm : matchB a pa = true)
    (h1 : qcur X ≠ .all) (h2 : qcur X ≠ .distinct) : ∃ x, tryParseAllOrDistinct (pa ++ X) = (x, X) := by
  cases ha with
  | none =>
    rw [matchB_nil hm]
    refine ⟨none, ?_⟩
    simp only [List.nil_append]
    unfold tryParseAllOrDistinct
    split
    · rename_i h; exact absurd h h1
    · rename_i h; exact absurd h h2
    · rfl
  | all =>
    obtain ⟨t, p, rfl, ht, hp⟩ := matchB_cons hm
    rw [matchB_nil hp]
    have hq : qcur (([t] : List Token) ++ X) = .all := ok_kw ht
    exact ⟨some .all, by simp only [tryParseAllOrDistinct, hq]; rfl⟩
  | distinct =>
    obtain ⟨t, p, rfl, ht, hp⟩ := matchB_cons hm
    rw [matchB_nil hp]
    have hq : qcur (([t] : List Token) ++ X) = .distinct := ok_kw ht
    exact ⟨some .distinct, by simp only [tryParseAllOrDistinct, hq]; rfl⟩

theorem select_eval {f : Nat} {tsel : Token} {Y X T1 R0 R1 R2 R3 R4 : List Token} {a : Option AllOrDistinct}
    {i : SelectItem} {is : List SelectItem} {tr : Bool} {fr : Option From} {w : Option Where} {g : Option GroupBy}
    {h : Option Having} (hsel : qk tsel.kind = .select) (haod : tryParseAllOrDistinct Y = (a, X)) (hnas : qcur X ≠ .as_)
    (hi : parseSelectItem f X = .ok (i, T1)) (hl : resultsLoop f T1 = .ok ((is, tr), R0))
    (hf : tryParseFrom f R0 = .ok (fr, R1)) (hw : tryParseWhere f R1 = .ok (w, R2))
    (hg : tryParseGroupBy f R2 = .ok (g, R3)) (hh : tryParseHaving f R3 = .ok (h, R4)) :
    parseSelect f (tsel :: Y) = .ok (⟨tsel.pos, a, i, is, tr, fr, w, g, h⟩, R4) := by
  have hq : qcur (tsel :: Y) = .select := hsel
  simp only [parseSelect, hq, if_true, List.tail_cons, haod, if_neg hnas, hi, Res.bind_ok, hl, hf, hw, hg, hh, hd_cons]

def mkQE (s : Select) : Option OrderBy → Option Limit → QueryExpr
  | none, none => .select s
  | o, l => .query s o l

theorem suffix_eval {f : Nat} {s : Select} {R R5 rest : List Token} {o : Option OrderBy} {l : Option Limit}
    (ho : tryParseOrderBy f R = .ok (o, R5)) (hl : tryParseLimit R5 = .ok (l, rest)) (he : qcur rest = .eof) :
    parseQueryExprSuffix f s R = .ok (mkQE s o l, rest) := by
  simp only [parseQueryExprSuffix, ho, Res.bind_ok, hl, he]
  cases o <;> cases l <;> rfl

theorem queryTop_eval {f : Nat} {ts R rest : List Token} {s : Select} {q : QueryExpr} (hsel : qcur ts = .select)
    (hs : parseSelect f ts = .ok (s, R)) (h1 : qcur R ≠ .setop) (h2 : qcur R ≠ .except)
    (hq : parseQueryExprSuffix f s R = .ok (q, rest)) (he : qcur rest = .eof) : parseQueryTop f ts = .ok ⟨q⟩ := by
  have hsq : parseSimpleQueryExpr f ts = .ok (s, R) := by simp only [parseSimpleQueryExpr, hsel, hs]
  have hqe : parseQueryExpr f ts = .ok (q, rest) := by
    simp only [parseQueryExpr, hsel, reduceCtorEq, if_false, hsq, Res.bind_ok]
    exact hq
  simp only [parseQueryTop, parseQueryStatement, hsel, reduceCtorEq, if_false, hqe, Res.bind_ok, he, if_true]

/-- **Completeness** for G_Q without the `expr.*` production. -/
theorem queryD0_complete {ds : List QD} {pre rest : List Token} (hd : QueryD0 ds) (hm : matchB ds pre = true)
    (hc : ∀ t ∈ pre, isCastLike t = false) (hr : qcur rest = .eof) :
    ∃ q, Ev (fun f => parseQueryTop f (pre ++ rest)) (.ok q) := by
  cases hd with
  | mk tr ha his hf hw hg hh ho hl htr =>
    obtain ⟨tsel, p0, rfl, hts, hm0⟩ := matchB_cons hm
    obtain ⟨pa, p1, rfl, hma, hm1⟩ := matchB_split hm0
    obtain ⟨pis, p2, rfl, hmis, hm2⟩ := matchB_split hm1
    obtain ⟨ptr, p3, rfl, hmtr, hm3⟩ := matchB_split hm2
    obtain ⟨pf, p4, rfl, hmf, hm4⟩ := matchB_split hm3
    obtain ⟨pw, p5, rfl, hmw, hm5⟩ := matchB_split hm4
    obtain ⟨pg, p6, rfl, hmg, hm6⟩ := matchB_split hm5
    obtain ⟨ph, p7, rfl, hmh, hm7⟩ := matchB_split hm6
    obtain ⟨po, pl, rfl, hmo, hml⟩ := matchB_split hm7
    have hcs : ∀ (l : List Token), (∀ t ∈ l, t ∈ tsel :: (pa ++ (pis ++ (ptr ++ (pf ++ (pw ++ (pg ++ (ph ++ (po ++ pl))))))))) →
        ∀ t ∈ l, isCastLike t = false := fun l hl t ht => hc t (hl t ht)
    -- the rests, from the end
    have s6 : StartGe 7 rest := by unfold StartGe; rw [hr]; exact Nat.le_refl 7
    have s5 : StartGe 6 (pl ++ rest) := startGe_step limitD_head (by decide) hl hml (s6.mono (by omega))
    have s4 : StartGe 5 (po ++ (pl ++ rest)) := startGe_step orderD_head (by decide) ho hmo (s5.mono (by omega))
    have s3 : StartGe 4 (ph ++ (po ++ (pl ++ rest))) := startGe_step havingD_head (by decide) hh hmh (s4.mono (by omega))
    have s2 : StartGe 3 (pg ++ (ph ++ (po ++ (pl ++ rest)))) := startGe_step groupD_head (by decide) hg hmg (s3.mono (by omega))
    have s1 : StartGe 2 (pw ++ (pg ++ (ph ++ (po ++ (pl ++ rest))))) :=
      startGe_step whereD_head (by decide) hw hmw (s2.mono (by omega))
    have s0 : StartGe 1 (pf ++ (pw ++ (pg ++ (ph ++ (po ++ (pl ++ rest)))))) :=
      startGe_step fromD_head (by decide) hf hmf (s1.mono (by omega))
    -- clauses
    obtain ⟨xl, hxl⟩ := opt_limit hl hml hr
    obtain ⟨xo, no, hxo⟩ := opt_order ho hmo (hcs po (by intro t ht; simp [ht])) s5
    obtain ⟨xh, nh, hxh⟩ := opt_having hh hmh (hcs ph (by intro t ht; simp [ht])) s4
    obtain ⟨xg, ng, hxg⟩ := opt_group hg hmg (hcs pg (by intro t ht; simp [ht])) s3
    obtain ⟨xw, nw, hxw⟩ := opt_where hw hmw (hcs pw (by intro t ht; simp [ht])) s2
    obtain ⟨xf, ⟨nf, hxf⟩, hff⟩ := opt_from hf hmf s1
    -- the end of the select list
    obtain ⟨T, hT, hE⟩ : ∃ T, ptr ++ (pf ++ (pw ++ (pg ++ (ph ++ (po ++ (pl ++ rest)))))) = T ∧
        ListEnd (pf ++ (pw ++ (pg ++ (ph ++ (po ++ (pl ++ rest)))))) tr T := by
      cases tr with
      | false =>
        have hptr : ptr = [] := matchB_nil (by simpa [trailD] using hmtr)
        subst hptr
        exact ⟨_, rfl, ListEnd.plain s0⟩
      | true =>
        obtain ⟨tc, p', rfl, htc, hp'⟩ := matchB_cons (d := .kw .comma) (ds := []) (by simpa [trailD] using hmtr)
        rw [matchB_nil hp']
        refine ⟨_, rfl, ListEnd.trail tc (ok_kw htc) ?_⟩
        cases hf with
        | some hF =>
          obtain ⟨ds', rfl⟩ := fromD_head _ hF
          exact Or.inl (hff (by simp))
        | none =>
          rcases htr rfl with h | ⟨h1, h2, h3, h4, h5⟩
          · exact absurd rfl h
          · subst h1 h2 h3 h4 h5
            right
            rw [matchB_nil hmf, matchB_nil hmw, matchB_nil hmg, matchB_nil hmh, matchB_nil hmo, matchB_nil hml]
            exact hr
    obtain ⟨i, T1, is, ⟨ni, hni⟩, ⟨nl, hnl⟩⟩ := items_complete his hmis (hcs pis (by intro t ht; simp [ht])) hE
    -- ALL | DISTINCT, and what follows it
    obtain ⟨hsub⟩ : Nonempty (SepBy ItemD0 _) := ⟨his⟩
    have hhead : ∃ t p', pis = t :: p' ∧ (qk t.kind = .star ∨ startTK (tk t.kind) = true) := by
      cases hsub with
      | one hQ => exact item_head hQ hmis
      | cons hQ _ =>
        obtain ⟨q1, q2, rfl, hq1, _⟩ := matchB_split hmis
        obtain ⟨t, p', rfl, h⟩ := item_head hQ hq1
        exact ⟨t, p' ++ q2, rfl, h⟩
    obtain ⟨t0, p0', hpis, ht0⟩ := hhead
    have hX : qcur (pis ++ T) ≠ .all ∧ qcur (pis ++ T) ≠ .distinct ∧ qcur (pis ++ T) ≠ .as_ := by
      rw [hpis]
      rcases ht0 with h | h
      · simp [qcur, h]
      · refine ⟨?_, ?_, ?_⟩ <;>
        · intro e
          have := not_start_of (k := t0.kind) (by show noStartK (qk t0.kind) = true; rw [show qk t0.kind = _ from e]; rfl)
          rw [this] at h; cases h
    obtain ⟨xa, hxa⟩ := aod_complete (X := pis ++ T) ha hma hX.1 hX.2.1
    have h45 : qcur (po ++ (pl ++ rest)) ≠ .setop ∧ qcur (po ++ (pl ++ rest)) ≠ .except := by
      rcases clause_cases (s4.mono (by omega)) with h | h | h | h | h | h | h <;> simp [h]
    refine ⟨⟨mkQE ⟨tsel.pos, xa, i, is, tr, xf, xw, xg, xh⟩ xo xl⟩, max (max (max ni nl) (max nf nw)) (max (max ng nh) no), fun f hf => ?_⟩
    have hts' : (tsel :: (pa ++ (pis ++ (ptr ++ (pf ++ (pw ++ (pg ++ (ph ++ (po ++ pl))))))))) ++ rest =
        tsel :: (pa ++ (pis ++ T)) := by
      rw [← hT]; simp only [List.cons_append, List.append_assoc]
    show parseQueryTop f _ = _
    rw [hts']
    exact queryTop_eval (ok_kw hts)
      (select_eval (ok_kw hts) hxa hX.2.2 (hni f (by omega)) (hnl f (by omega)) (hxf f (by omega)) (hxw f (by omega))
        (hxg f (by omega)) (hxh f (by omega)))
      h45.1 h45.2 (suffix_eval (hxo f (by omega)) hxl hr) hr

end MF.Query
