/-
  MF.Proofs.QueryComplete — building blocks for the completeness of the query model w.r.t. G_Q (Task X; the theorem
  `query_complete` itself is NOT proved yet, see doc/reports/TASK_X_REPORT.md §4):
  splitting a reading along an append, reading an expression slot, and completeness of an expression slot for the
  POSITIONED parser (from `MF.Expr.parseExpr_complete`, C07, through the erasure theorem), of WHERE / HAVING and of LIMIT.
-/
import MF.Proofs.QuerySound
import MF.Proofs.ExprComplete
namespace MF.Query
open MF MF.Expr

theorem matchB_split {a b : List QD} {pre : List Token} (h : matchB (a ++ b) pre = true) :
    ∃ p q, pre = p ++ q ∧ matchB a p = true ∧ matchB b q = true := by
  induction a generalizing pre with
  | nil => exact ⟨[], pre, rfl, rfl, by simpa using h⟩
  | cons d a ih =>
    cases pre with
    | nil => simp [matchB] at h
    | cons t pre =>
      simp only [List.cons_append, matchB, Bool.and_eq_true] at h
      obtain ⟨p, q, rfl, hp, hq⟩ := ih h.2
      exact ⟨t :: p, q, rfl, by simp [matchB, h.1, hp], hq⟩

theorem matchB_e_inv {pre : List Token} {ys : List Tok'} (h : matchB (ys.map QD.e) pre = true) : pre.map proj = ys := by
  induction ys generalizing pre with
  | nil => cases pre with
    | nil => rfl
    | cons t p => simp [matchB] at h
  | cons y ys ih => cases pre with
    | nil => simp [matchB] at h
    | cons t p =>
      simp only [List.map_cons, matchB, QD.ok, Bool.and_eq_true, beq_iff_eq] at h
      simp [h.1, ih h.2]

/-- eventually accepted, leaving `rest` (the tree may depend on the fuel in its positions only) -/
def Acc {α : Type} (p : Nat → QR α) (rest : List Token) : Prop := ∃ n, ∀ f, n ≤ f → ∃ a, p f = .ok (a, rest)

/-- an expression slot of G_Q followed by a token that does not continue an expression is consumed exactly by the
positioned expression parser -/
theorem parsePExpr_acc {ds : List QD} {pre rest : List Token} (he : ExprY ds) (hm : matchB ds pre = true)
    (hc : ∀ t ∈ pre, isCastLike t = false) (hf : Follow rest) : Acc (fun f => parsePExpr f (pre ++ rest)) rest := by
  obtain ⟨e, hp, hn, rfl⟩ := he
  obtain ⟨n, hn'⟩ := parseExpr_complete hp hn (matchB_e_inv hm) hc hf
  refine ⟨n, fun f hf' => ?_⟩
  have h := hn' f hf'
  rw [parseExpr_eq_erase] at h
  obtain ⟨a, ha, hea⟩ := Res.map_eq_ok.1 h
  obtain ⟨pe, r⟩ := a
  simp only [er, Prod.mk.injEq] at hea
  obtain ⟨_, rfl⟩ := hea
  exact ⟨pe, ha⟩

/-- `WHERE expr` -/
theorem tryParseWhere_acc {ds : List QD} {pre rest : List Token} (hd : WhereD ds) (hm : matchB ds pre = true)
    (hc : ∀ t ∈ pre, isCastLike t = false) (hf : Follow rest) : Acc (fun f => tryParseWhere f (pre ++ rest)) rest := by
  cases hd with
  | mk he =>
    cases pre with
    | nil => simp [matchB] at hm
    | cons t p =>
      simp only [matchB, QD.ok, Bool.and_eq_true, beq_iff_eq] at hm
      obtain ⟨n, hn⟩ := parsePExpr_acc he hm.2 (fun u hu => hc u (by simp [hu])) hf
      refine ⟨n, fun f hf' => ?_⟩
      obtain ⟨pe, hpe⟩ := hn f hf'
      refine ⟨some ⟨t.pos, pe⟩, ?_⟩
      unfold tryParseWhere
      simp only [List.cons_append, qcur, hm.1, if_true, List.tail_cons, hpe, Res.bind_ok, hd_cons]

/-- `HAVING expr` -/
theorem tryParseHaving_acc {ds : List QD} {pre rest : List Token} (hd : HavingD ds) (hm : matchB ds pre = true)
    (hc : ∀ t ∈ pre, isCastLike t = false) (hf : Follow rest) : Acc (fun f => tryParseHaving f (pre ++ rest)) rest := by
  cases hd with
  | mk he =>
    cases pre with
    | nil => simp [matchB] at hm
    | cons t p =>
      simp only [matchB, QD.ok, Bool.and_eq_true, beq_iff_eq] at hm
      obtain ⟨n, hn⟩ := parsePExpr_acc he hm.2 (fun u hu => hc u (by simp [hu])) hf
      refine ⟨n, fun f hf' => ?_⟩
      obtain ⟨pe, hpe⟩ := hn f hf'
      refine ⟨some ⟨t.pos, pe⟩, ?_⟩
      unfold tryParseHaving
      simp only [List.cons_append, qcur, hm.1, if_true, List.tail_cons, hpe, Res.bind_ok, hd_cons]

end MF.Query
