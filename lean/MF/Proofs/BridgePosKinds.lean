/-
  MF.Proofs.BridgePosKinds — per node kind of the two fragments: the row of the REGENERATED position table (`prow_K`:
  the bodies of `K.Pos()` / `K.End()` read out of ast/pos.go as terms over the helpers of pos_util.go, and the field
  classes of ast/ast.go, kernel-decided against `MF/Gen/PosGo.lean` / `MF/Gen/Catalog.lean`) and what the generic
  interpreter `goPosEnd` computes from that row on a node of that kind with ARBITRARY children (`pos_K`), given the
  children's own `(Pos(), End())`.

  `prow_K` is the obligation that breaks when `K.Pos()` / `K.End()` in ast/pos.go (or the struct in ast/ast.go) change.
-/
import MF.Proofs.BridgeBasic
namespace MF.Bridge
open MF MF.Ast

theorem natCast_add_one_not_neg (n : Nat) : ((n : Int) + 1 < 0) = False := by
  simp only [eq_iff_iff, iff_false]; omega

macro "pos_eval" "[" ts:Lean.Parser.Tactic.simpLemma,* "]" : tactic =>
  `(tactic| simp [GoPos.eval, GoPosTerm.eval, GoPosAtom.eval, GoNode.eval, GoNodeAtom.eval, evalGoNodeAlts, GoInt.eval,
      evalGoAdds, Ctx.single, Ctx.cls, Ctx.posField, Ctx.boolField, Ctx.strLen, List.lookup, natCast_not_neg,
      natCast_add_one_not_neg, $ts,*])

/-! ## literals, parameters, names -/

theorem prow_NullLiteral :
    PT.go.lookup "NullLiteral" = some (.term ⟨.field "Null", []⟩, .term ⟨.field "Null", [(.lit 4)]⟩) ∧
    PT.fieldsOf "NullLiteral" = [⟨"Null", .pos, "token.Pos"⟩] := by
  decide +kernel

theorem pos_NullLiteral (p : Nat) :
    goPosEnd PT (nNullLiteral p) = some ((p : Int), (p : Int) + 4) := by
  rw [nNullLiteral, goPosEnd_mk (ks := []) rfl prow_NullLiteral.1 prow_NullLiteral.2]
  pos_eval []

theorem prow_BoolLiteral :
    PT.go.lookup "BoolLiteral" = some (.term ⟨.field "ValuePos", []⟩, .term ⟨.field "ValuePos", [(.ifThenElse "Value" (.lit 4) (.lit 5))]⟩) ∧
    PT.fieldsOf "BoolLiteral" = [⟨"ValuePos", .pos, "token.Pos"⟩, ⟨"Value", .bool, "bool"⟩] := by
  decide +kernel

theorem pos_BoolLiteral (p : Nat) (b : Bool) :
    goPosEnd PT (nBoolLiteral p b) = some ((p : Int), (p : Int) + (if b then 4 else 5)) := by
  rw [nBoolLiteral, goPosEnd_mk (ks := []) rfl prow_BoolLiteral.1 prow_BoolLiteral.2]
  cases b <;> pos_eval []

theorem prow_IntLiteral :
    PT.go.lookup "IntLiteral" = some (.term ⟨.field "ValuePos", []⟩, .term ⟨.field "ValueEnd", []⟩) ∧
    PT.fieldsOf "IntLiteral" = [⟨"ValuePos", .pos, "token.Pos"⟩, ⟨"ValueEnd", .pos, "token.Pos"⟩, ⟨"Base", .int, "int"⟩, ⟨"Value", .str, "string"⟩] := by
  decide +kernel

theorem pos_IntLiteral (p e base : Nat) (v : Bytes) :
    goPosEnd PT (nIntLiteral p e base v) = some ((p : Int), (e : Int)) := by
  rw [nIntLiteral, goPosEnd_mk (ks := []) rfl prow_IntLiteral.1 prow_IntLiteral.2]
  pos_eval []

theorem prow_FloatLiteral :
    PT.go.lookup "FloatLiteral" = some (.term ⟨.field "ValuePos", []⟩, .term ⟨.field "ValueEnd", []⟩) ∧
    PT.fieldsOf "FloatLiteral" = [⟨"ValuePos", .pos, "token.Pos"⟩, ⟨"ValueEnd", .pos, "token.Pos"⟩, ⟨"Value", .str, "string"⟩] := by
  decide +kernel

theorem pos_FloatLiteral (p e : Nat) (v : Bytes) :
    goPosEnd PT (nFloatLiteral p e v) = some ((p : Int), (e : Int)) := by
  rw [nFloatLiteral, goPosEnd_mk (ks := []) rfl prow_FloatLiteral.1 prow_FloatLiteral.2]
  pos_eval []

theorem prow_StringLiteral :
    PT.go.lookup "StringLiteral" = some (.term ⟨.field "ValuePos", []⟩, .term ⟨.field "ValueEnd", []⟩) ∧
    PT.fieldsOf "StringLiteral" = [⟨"ValuePos", .pos, "token.Pos"⟩, ⟨"ValueEnd", .pos, "token.Pos"⟩, ⟨"Value", .str, "string"⟩] := by
  decide +kernel

theorem pos_StringLiteral (p e : Nat) (v : Bytes) :
    goPosEnd PT (nStringLiteral p e v) = some ((p : Int), (e : Int)) := by
  rw [nStringLiteral, goPosEnd_mk (ks := []) rfl prow_StringLiteral.1 prow_StringLiteral.2]
  pos_eval []

theorem prow_BytesLiteral :
    PT.go.lookup "BytesLiteral" = some (.term ⟨.field "ValuePos", []⟩, .term ⟨.field "ValueEnd", []⟩) ∧
    PT.fieldsOf "BytesLiteral" = [⟨"ValuePos", .pos, "token.Pos"⟩, ⟨"ValueEnd", .pos, "token.Pos"⟩, ⟨"Value", .bytes, "[]byte"⟩] := by
  decide +kernel

theorem pos_BytesLiteral (p e : Nat) (v : Bytes) :
    goPosEnd PT (nBytesLiteral p e v) = some ((p : Int), (e : Int)) := by
  rw [nBytesLiteral, goPosEnd_mk (ks := []) rfl prow_BytesLiteral.1 prow_BytesLiteral.2]
  pos_eval []

theorem prow_Param :
    PT.go.lookup "Param" = some (.term ⟨.field "Atmark", []⟩, .term ⟨.field "Atmark", [(.lit 1), (.len "Name")]⟩) ∧
    PT.fieldsOf "Param" = [⟨"Atmark", .pos, "token.Pos"⟩, ⟨"Name", .str, "string"⟩] := by
  decide +kernel

theorem pos_Param (a : Nat) (n : Bytes) :
    goPosEnd PT (nParam a n) = some ((a : Int), (a : Int) + 1 + (n.length : Int)) := by
  rw [nParam, goPosEnd_mk (ks := []) rfl prow_Param.1 prow_Param.2]
  pos_eval []

theorem prow_Ident :
    PT.go.lookup "Ident" = some (.term ⟨.field "NamePos", []⟩, .term ⟨.field "NameEnd", []⟩) ∧
    PT.fieldsOf "Ident" = [⟨"NamePos", .pos, "token.Pos"⟩, ⟨"NameEnd", .pos, "token.Pos"⟩, ⟨"Name", .str, "string"⟩] := by
  decide +kernel

theorem pos_Ident (p e : Nat) (n : Bytes) :
    goPosEnd PT (nIdent p e n) = some ((p : Int), (e : Int)) := by
  rw [nIdent, goPosEnd_mk (ks := []) rfl prow_Ident.1 prow_Ident.2]
  pos_eval []

theorem prow_Path :
    PT.go.lookup "Path" = some (.term ⟨.nodePos (.atom (.nodeSliceIndex "Idents" (.lit 0))), []⟩, .term ⟨.nodeEnd (.atom (.nodeSliceLast "Idents")), []⟩) ∧
    PT.fieldsOf "Path" = [⟨"Idents", .nodes, "[]*Ident"⟩] := by
  decide +kernel

/-- `Idents[0].pos`, `Idents[$].end`; `InvalidPos` on an empty slice -/
theorem pos_Path (nodes : List Node) (pes : List (Int × Int)) (h : nodes.map (goPosEnd PT) = pes.map some) :
    goPosEnd PT (nPath (sliceKids "Idents" 0 nodes)) =
      some ((pes.head?.map (·.1)).getD invalid, (pes.getLast?.map (·.2)).getD invalid) := by
  rw [nPath, goPosEnd_mk (goKids_slice h) prow_Path.1 prow_Path.2]
  have hs : (⟨[], kidsPE "Idents" 0 pes, [⟨"Idents", .nodes, "[]*Ident"⟩]⟩ : Ctx).slice "Idents" = some pes :=
    ctx_slice rfl (by simp [Ctx.cls])
  cases pes with
  | nil => simp [GoPos.eval, GoPosTerm.eval, GoPosAtom.eval, GoNode.eval, GoNodeAtom.eval, GoInt.eval, evalGoAdds, hs]
  | cons a r =>
    simp [GoPos.eval, GoPosTerm.eval, GoPosAtom.eval, GoNode.eval, GoNodeAtom.eval, GoInt.eval, evalGoAdds, hs]
    cases h : (a :: r).getLast? with
    | none => simp at h
    | some v => rfl

/-! ## operators -/

theorem prow_ParenExpr :
    PT.go.lookup "ParenExpr" = some (.term ⟨.field "Lparen", []⟩, .term ⟨.field "Rparen", [(.lit 1)]⟩) ∧
    PT.fieldsOf "ParenExpr" = [⟨"Lparen", .pos, "token.Pos"⟩, ⟨"Rparen", .pos, "token.Pos"⟩, ⟨"Expr", .node, "Expr"⟩] := by
  decide +kernel

theorem pos_ParenExpr (lp rp : Nat) (e : Node) (pe ee : Int) (he : goPosEnd PT e = some (pe, ee)) :
    goPosEnd PT (nParenExpr lp rp e) = some ((lp : Int), (rp : Int) + 1) := by
  rw [nParenExpr, goPosEnd_mk (ks := [⟨"Expr", none, pe, ee⟩]) (by simp [goKids, he]) prow_ParenExpr.1 prow_ParenExpr.2]
  pos_eval []

theorem prow_UnaryExpr :
    PT.go.lookup "UnaryExpr" = some (.term ⟨.field "OpPos", []⟩, .term ⟨.nodeEnd (.atom (.wrapNode "Expr")), []⟩) ∧
    PT.fieldsOf "UnaryExpr" = [⟨"OpPos", .pos, "token.Pos"⟩, ⟨"Op", .enum, "UnaryOp"⟩, ⟨"Expr", .node, "Expr"⟩] := by
  decide +kernel

theorem pos_UnaryExpr (opPos : Nat) (op : Bytes) (e : Node) (pe ee : Int) (he : goPosEnd PT e = some (pe, ee)) :
    goPosEnd PT (nUnaryExpr opPos op e) = some ((opPos : Int), ee) := by
  rw [nUnaryExpr, goPosEnd_mk (ks := [⟨"Expr", none, pe, ee⟩]) (by simp [goKids, he]) prow_UnaryExpr.1 prow_UnaryExpr.2]
  pos_eval []

theorem prow_BinaryExpr :
    PT.go.lookup "BinaryExpr" = some (.term ⟨.nodePos (.atom (.wrapNode "Left")), []⟩, .term ⟨.nodeEnd (.atom (.wrapNode "Right")), []⟩) ∧
    PT.fieldsOf "BinaryExpr" = [⟨"Op", .enum, "BinaryOp"⟩, ⟨"Left", .node, "Expr"⟩, ⟨"Right", .node, "Expr"⟩] := by
  decide +kernel

theorem pos_BinaryExpr (op : Bytes) (l r : Node) (pl el pr er : Int) (hl : goPosEnd PT l = some (pl, el))
    (hr : goPosEnd PT r = some (pr, er)) : goPosEnd PT (nBinaryExpr op l r) = some (pl, er) := by
  rw [nBinaryExpr, goPosEnd_mk (ks := [⟨"Left", none, pl, el⟩, ⟨"Right", none, pr, er⟩]) (by simp [goKids, hl, hr])
    prow_BinaryExpr.1 prow_BinaryExpr.2]
  pos_eval []

theorem prow_IsNullExpr :
    PT.go.lookup "IsNullExpr" = some (.term ⟨.nodePos (.atom (.wrapNode "Left")), []⟩, .term ⟨.field "Null", [(.lit 4)]⟩) ∧
    PT.fieldsOf "IsNullExpr" = [⟨"Null", .pos, "token.Pos"⟩, ⟨"Not", .bool, "bool"⟩, ⟨"Left", .node, "Expr"⟩] := by
  decide +kernel

theorem pos_IsNullExpr (np : Nat) (not : Bool) (l : Node) (pl el : Int) (hl : goPosEnd PT l = some (pl, el)) :
    goPosEnd PT (nIsNullExpr np not l) = some (pl, (np : Int) + 4) := by
  rw [nIsNullExpr, goPosEnd_mk (ks := [⟨"Left", none, pl, el⟩]) (by simp [goKids, hl]) prow_IsNullExpr.1 prow_IsNullExpr.2]
  pos_eval []

theorem prow_IsBoolExpr :
    PT.go.lookup "IsBoolExpr" = some (.term ⟨.nodePos (.atom (.wrapNode "Left")), []⟩, .term ⟨.field "RightPos", [(.ifThenElse "Right" (.lit 4) (.lit 5))]⟩) ∧
    PT.fieldsOf "IsBoolExpr" = [⟨"RightPos", .pos, "token.Pos"⟩, ⟨"Not", .bool, "bool"⟩, ⟨"Left", .node, "Expr"⟩, ⟨"Right", .bool, "bool"⟩] := by
  decide +kernel

theorem pos_IsBoolExpr (rpos : Nat) (not right : Bool) (l : Node) (pl el : Int) (hl : goPosEnd PT l = some (pl, el)) :
    goPosEnd PT (nIsBoolExpr rpos not l right) = some (pl, (rpos : Int) + (if right then 4 else 5)) := by
  rw [nIsBoolExpr, goPosEnd_mk (ks := [⟨"Left", none, pl, el⟩]) (by simp [goKids, hl]) prow_IsBoolExpr.1 prow_IsBoolExpr.2]
  cases right <;> pos_eval []

theorem prow_BetweenExpr :
    PT.go.lookup "BetweenExpr" = some (.term ⟨.nodePos (.atom (.wrapNode "Left")), []⟩, .term ⟨.nodeEnd (.atom (.wrapNode "RightEnd")), []⟩) ∧
    PT.fieldsOf "BetweenExpr" = [⟨"Not", .bool, "bool"⟩, ⟨"Left", .node, "Expr"⟩, ⟨"RightStart", .node, "Expr"⟩, ⟨"RightEnd", .node, "Expr"⟩] := by
  decide +kernel

theorem pos_BetweenExpr (not : Bool) (l lo hi : Node) (pl el plo elo phi ehi : Int)
    (hl : goPosEnd PT l = some (pl, el)) (hlo : goPosEnd PT lo = some (plo, elo))
    (hhi : goPosEnd PT hi = some (phi, ehi)) : goPosEnd PT (nBetweenExpr not l lo hi) = some (pl, ehi) := by
  rw [nBetweenExpr, goPosEnd_mk (ks := [⟨"Left", none, pl, el⟩, ⟨"RightStart", none, plo, elo⟩, ⟨"RightEnd", none, phi, ehi⟩])
    (by simp [goKids, hl, hlo, hhi]) prow_BetweenExpr.1 prow_BetweenExpr.2]
  pos_eval []

theorem prow_InExpr :
    PT.go.lookup "InExpr" = some (.term ⟨.nodePos (.atom (.wrapNode "Left")), []⟩, .term ⟨.nodeEnd (.atom (.wrapNode "Right")), []⟩) ∧
    PT.fieldsOf "InExpr" = [⟨"Not", .bool, "bool"⟩, ⟨"Left", .node, "Expr"⟩, ⟨"Right", .node, "InCondition"⟩] := by
  decide +kernel

theorem pos_InExpr (not : Bool) (l r : Node) (pl el pr er : Int) (hl : goPosEnd PT l = some (pl, el))
    (hr : goPosEnd PT r = some (pr, er)) : goPosEnd PT (nInExpr not l r) = some (pl, er) := by
  rw [nInExpr, goPosEnd_mk (ks := [⟨"Left", none, pl, el⟩, ⟨"Right", none, pr, er⟩]) (by simp [goKids, hl, hr])
    prow_InExpr.1 prow_InExpr.2]
  pos_eval []

theorem prow_ValuesInCondition :
    PT.go.lookup "ValuesInCondition" = some (.term ⟨.field "Lparen", []⟩, .term ⟨.field "Rparen", [(.lit 1)]⟩) ∧
    PT.fieldsOf "ValuesInCondition" = [⟨"Lparen", .pos, "token.Pos"⟩, ⟨"Rparen", .pos, "token.Pos"⟩, ⟨"Exprs", .nodes, "[]Expr"⟩] := by
  decide +kernel

theorem pos_ValuesInCondition (lp rp : Nat) (nodes : List Node) (pes : List (Int × Int))
    (h : nodes.map (goPosEnd PT) = pes.map some) :
    goPosEnd PT (nValuesInCondition lp rp (sliceKids "Exprs" 0 nodes)) = some ((lp : Int), (rp : Int) + 1) := by
  rw [nValuesInCondition, goPosEnd_mk (goKids_slice h) prow_ValuesInCondition.1 prow_ValuesInCondition.2]
  pos_eval []

theorem prow_UnnestInCondition :
    PT.go.lookup "UnnestInCondition" = some (.term ⟨.field "Unnest", []⟩, .term ⟨.field "Rparen", [(.lit 1)]⟩) ∧
    PT.fieldsOf "UnnestInCondition" = [⟨"Unnest", .pos, "token.Pos"⟩, ⟨"Rparen", .pos, "token.Pos"⟩, ⟨"Expr", .node, "Expr"⟩] := by
  decide +kernel

theorem pos_UnnestInCondition (un rp : Nat) (e : Node) (pe ee : Int) (he : goPosEnd PT e = some (pe, ee)) :
    goPosEnd PT (nUnnestInCondition un rp e) = some ((un : Int), (rp : Int) + 1) := by
  rw [nUnnestInCondition, goPosEnd_mk (ks := [⟨"Expr", none, pe, ee⟩]) (by simp [goKids, he])
    prow_UnnestInCondition.1 prow_UnnestInCondition.2]
  pos_eval []

/-! ## postfix forms -/

theorem prow_SelectorExpr :
    PT.go.lookup "SelectorExpr" = some (.term ⟨.nodePos (.atom (.wrapNode "Expr")), []⟩, .term ⟨.nodeEnd (.atom (.wrapNode "Ident")), []⟩) ∧
    PT.fieldsOf "SelectorExpr" = [⟨"Expr", .node, "Expr"⟩, ⟨"Ident", .node, "*Ident"⟩] := by
  decide +kernel

theorem pos_SelectorExpr (e i : Node) (pe ee pi ei : Int) (he : goPosEnd PT e = some (pe, ee))
    (hi : goPosEnd PT i = some (pi, ei)) : goPosEnd PT (nSelectorExpr e i) = some (pe, ei) := by
  rw [nSelectorExpr, goPosEnd_mk (ks := [⟨"Expr", none, pe, ee⟩, ⟨"Ident", none, pi, ei⟩]) (by simp [goKids, he, hi])
    prow_SelectorExpr.1 prow_SelectorExpr.2]
  pos_eval []

theorem prow_IndexExpr :
    PT.go.lookup "IndexExpr" = some (.term ⟨.nodePos (.atom (.wrapNode "Expr")), []⟩, .term ⟨.field "Rbrack", [(.lit 1)]⟩) ∧
    PT.fieldsOf "IndexExpr" = [⟨"Rbrack", .pos, "token.Pos"⟩, ⟨"Expr", .node, "Expr"⟩, ⟨"Index", .node, "SubscriptSpecifier"⟩] := by
  decide +kernel

theorem pos_IndexExpr (rb : Nat) (e i : Node) (pe ee pi ei : Int) (he : goPosEnd PT e = some (pe, ee))
    (hi : goPosEnd PT i = some (pi, ei)) : goPosEnd PT (nIndexExpr rb e i) = some (pe, (rb : Int) + 1) := by
  rw [nIndexExpr, goPosEnd_mk (ks := [⟨"Expr", none, pe, ee⟩, ⟨"Index", none, pi, ei⟩]) (by simp [goKids, he, hi])
    prow_IndexExpr.1 prow_IndexExpr.2]
  pos_eval []

theorem prow_ExprArg :
    PT.go.lookup "ExprArg" = some (.term ⟨.nodePos (.atom (.wrapNode "Expr")), []⟩, .term ⟨.nodeEnd (.atom (.wrapNode "Expr")), []⟩) ∧
    PT.fieldsOf "ExprArg" = [⟨"Expr", .node, "Expr"⟩] := by
  decide +kernel

theorem pos_ExprArg (e : Node) (pe ee : Int) (he : goPosEnd PT e = some (pe, ee)) :
    goPosEnd PT (nExprArg e) = some (pe, ee) := by
  rw [nExprArg, goPosEnd_mk (ks := [⟨"Expr", none, pe, ee⟩]) (by simp [goKids, he]) prow_ExprArg.1 prow_ExprArg.2]
  pos_eval []

theorem prow_SubscriptSpecifierKeyword :
    PT.go.lookup "SubscriptSpecifierKeyword" = some (.term ⟨.field "KeywordPos", []⟩, .term ⟨.field "Rparen", [(.lit 1)]⟩) ∧
    PT.fieldsOf "SubscriptSpecifierKeyword" = [⟨"KeywordPos", .pos, "token.Pos"⟩, ⟨"Rparen", .pos, "token.Pos"⟩, ⟨"Keyword", .enum, "PositionKeyword"⟩, ⟨"Expr", .node, "Expr"⟩] := by
  decide +kernel

theorem pos_SubscriptSpecifierKeyword (kp rp : Nat) (kw : Bytes) (e : Node) (pe ee : Int)
    (he : goPosEnd PT e = some (pe, ee)) :
    goPosEnd PT (nSubscriptSpecifierKeyword kp rp kw e) = some ((kp : Int), (rp : Int) + 1) := by
  rw [nSubscriptSpecifierKeyword, goPosEnd_mk (ks := [⟨"Expr", none, pe, ee⟩]) (by simp [goKids, he])
    prow_SubscriptSpecifierKeyword.1 prow_SubscriptSpecifierKeyword.2]
  pos_eval []

/-! ## CASE and IF -/

theorem prow_CaseExpr :
    PT.go.lookup "CaseExpr" = some (.term ⟨.field "Case", []⟩, .term ⟨.field "EndPos", [(.lit 3)]⟩) ∧
    PT.fieldsOf "CaseExpr" = [⟨"Case", .pos, "token.Pos"⟩, ⟨"EndPos", .pos, "token.Pos"⟩, ⟨"Expr", .node, "Expr"⟩, ⟨"Whens", .nodes, "[]*CaseWhen"⟩, ⟨"Else", .node, "*CaseElse"⟩] := by
  decide +kernel

/-- `Case`, `EndPos + 3`, whatever the children are (they only have to have positions themselves) -/
theorem pos_CaseExpr (cp ep : Nat) (kids : Kids) (ks : List KidPE) (hk : goKids PT kids = some ks) :
    goPosEnd PT (nCaseExpr cp ep kids) = some ((cp : Int), (ep : Int) + 3) := by
  rw [nCaseExpr, goPosEnd_mk hk prow_CaseExpr.1 prow_CaseExpr.2]
  pos_eval []

theorem prow_CaseWhen :
    PT.go.lookup "CaseWhen" = some (.term ⟨.field "When", []⟩, .term ⟨.nodeEnd (.atom (.wrapNode "Then")), []⟩) ∧
    PT.fieldsOf "CaseWhen" = [⟨"When", .pos, "token.Pos"⟩, ⟨"Cond", .node, "Expr"⟩, ⟨"Then", .node, "Expr"⟩] := by
  decide +kernel

theorem pos_CaseWhen (wp : Nat) (c t : Node) (pc ec pt et : Int) (hc : goPosEnd PT c = some (pc, ec))
    (ht : goPosEnd PT t = some (pt, et)) : goPosEnd PT (nCaseWhen wp c t) = some ((wp : Int), et) := by
  rw [nCaseWhen, goPosEnd_mk (ks := [⟨"Cond", none, pc, ec⟩, ⟨"Then", none, pt, et⟩]) (by simp [goKids, hc, ht])
    prow_CaseWhen.1 prow_CaseWhen.2]
  pos_eval []

theorem prow_CaseElse :
    PT.go.lookup "CaseElse" = some (.term ⟨.field "Else", []⟩, .term ⟨.nodeEnd (.atom (.wrapNode "Expr")), []⟩) ∧
    PT.fieldsOf "CaseElse" = [⟨"Else", .pos, "token.Pos"⟩, ⟨"Expr", .node, "Expr"⟩] := by
  decide +kernel

theorem pos_CaseElse (p : Nat) (e : Node) (pe ee : Int) (he : goPosEnd PT e = some (pe, ee)) :
    goPosEnd PT (nCaseElse p e) = some ((p : Int), ee) := by
  rw [nCaseElse, goPosEnd_mk (ks := [⟨"Expr", none, pe, ee⟩]) (by simp [goKids, he]) prow_CaseElse.1 prow_CaseElse.2]
  pos_eval []

theorem prow_IfExpr :
    PT.go.lookup "IfExpr" = some (.term ⟨.field "If", []⟩, .term ⟨.field "Rparen", [(.lit 1)]⟩) ∧
    PT.fieldsOf "IfExpr" = [⟨"If", .pos, "token.Pos"⟩, ⟨"Rparen", .pos, "token.Pos"⟩, ⟨"Expr", .node, "Expr"⟩, ⟨"TrueResult", .node, "Expr"⟩, ⟨"ElseResult", .node, "Expr"⟩] := by
  decide +kernel

theorem pos_IfExpr (ifp rp : Nat) (c t e : Node) (pc ec pt et pe ee : Int) (hc : goPosEnd PT c = some (pc, ec))
    (ht : goPosEnd PT t = some (pt, et)) (he : goPosEnd PT e = some (pe, ee)) :
    goPosEnd PT (nIfExpr ifp rp c t e) = some ((ifp : Int), (rp : Int) + 1) := by
  rw [nIfExpr, goPosEnd_mk (ks := [⟨"Expr", none, pc, ec⟩, ⟨"TrueResult", none, pt, et⟩, ⟨"ElseResult", none, pe, ee⟩])
    (by simp [goKids, hc, ht, he]) prow_IfExpr.1 prow_IfExpr.2]
  pos_eval []
/-! ## array literals -/

theorem prow_ArrayLiteral :
    PT.go.lookup "ArrayLiteral" = some (.posChoice [⟨.field "Array", []⟩, ⟨.field "Lbrack", []⟩], .term ⟨.field "Rbrack", [(.lit 1)]⟩) ∧
    PT.fieldsOf "ArrayLiteral" = [⟨"Array", .pos, "token.Pos"⟩, ⟨"Lbrack", .pos, "token.Pos"⟩, ⟨"Rbrack", .pos, "token.Pos"⟩, ⟨"Type", .node, "Type"⟩, ⟨"Values", .nodes, "[]Expr"⟩] := by
  decide +kernel

theorem pos_ArrayLiteral (lb rb : Nat) (kids : Kids) (ks : List KidPE) (hk : goKids PT kids = some ks) :
    goPosEnd PT (nArrayLiteral lb rb kids) = some ((lb : Int), (rb : Int) + 1) := by
  rw [nArrayLiteral, goPosEnd_mk hk prow_ArrayLiteral.1 prow_ArrayLiteral.2]
  pos_eval [evalGoPosAlts, invalid]
/-! ## types -/

theorem prow_SimpleType :
    PT.go.lookup "SimpleType" = some (.term ⟨.field "NamePos", []⟩, .term ⟨.field "NamePos", [(.len "Name")]⟩) ∧
    PT.fieldsOf "SimpleType" = [⟨"NamePos", .pos, "token.Pos"⟩, ⟨"Name", .enum, "ScalarTypeName"⟩] := by
  decide +kernel

theorem pos_SimpleType (p : Nat) (n : Bytes) :
    goPosEnd PT (nSimpleType p n) = some ((p : Int), (p : Int) + (n.length : Int)) := by
  rw [nSimpleType, goPosEnd_mk (ks := []) rfl prow_SimpleType.1 prow_SimpleType.2]
  pos_eval []

theorem prow_NamedType :
    PT.go.lookup "NamedType" = some (.term ⟨.nodePos (.atom (.nodeSliceIndex "Path" (.lit 0))), []⟩, .term ⟨.nodeEnd (.atom (.nodeSliceLast "Path")), []⟩) ∧
    PT.fieldsOf "NamedType" = [⟨"Path", .nodes, "[]*Ident"⟩] := by
  decide +kernel

/-- `Path[0].pos`, `Path[$].end`; `InvalidPos` on an empty slice -/
theorem pos_NamedType (nodes : List Node) (pes : List (Int × Int)) (h : nodes.map (goPosEnd PT) = pes.map some) :
    goPosEnd PT (nNamedType (sliceKids "Path" 0 nodes)) =
      some ((pes.head?.map (·.1)).getD invalid, (pes.getLast?.map (·.2)).getD invalid) := by
  rw [nNamedType, goPosEnd_mk (goKids_slice h) prow_NamedType.1 prow_NamedType.2]
  have hs : (⟨[], kidsPE "Path" 0 pes, [⟨"Path", .nodes, "[]*Ident"⟩]⟩ : Ctx).slice "Path" = some pes :=
    ctx_slice rfl (by simp [Ctx.cls])
  cases pes with
  | nil => simp [GoPos.eval, GoPosTerm.eval, GoPosAtom.eval, GoNode.eval, GoNodeAtom.eval, GoInt.eval, evalGoAdds, hs]
  | cons a r =>
    simp [GoPos.eval, GoPosTerm.eval, GoPosAtom.eval, GoNode.eval, GoNodeAtom.eval, GoInt.eval, evalGoAdds, hs]
    cases h : (a :: r).getLast? with
    | none => simp at h
    | some v => rfl

theorem prow_ArrayType :
    PT.go.lookup "ArrayType" = some (.term ⟨.field "Array", []⟩, .term ⟨.field "Gt", [(.lit 1)]⟩) ∧
    PT.fieldsOf "ArrayType" = [⟨"Array", .pos, "token.Pos"⟩, ⟨"Gt", .pos, "token.Pos"⟩, ⟨"Item", .node, "Type"⟩] := by
  decide +kernel

theorem pos_ArrayType (a gt : Nat) (item : Node) (pi ei : Int) (hi : goPosEnd PT item = some (pi, ei)) :
    goPosEnd PT (nArrayType a gt item) = some ((a : Int), (gt : Int) + 1) := by
  rw [nArrayType, goPosEnd_mk (ks := [⟨"Item", none, pi, ei⟩]) (by simp [goKids, hi]) prow_ArrayType.1 prow_ArrayType.2]
  pos_eval []

theorem prow_StructType :
    PT.go.lookup "StructType" = some (.term ⟨.field "Struct", []⟩, .term ⟨.field "Gt", [(.lit 1)]⟩) ∧
    PT.fieldsOf "StructType" = [⟨"Struct", .pos, "token.Pos"⟩, ⟨"Gt", .pos, "token.Pos"⟩, ⟨"Fields", .nodes, "[]*StructField"⟩] := by
  decide +kernel

theorem pos_StructType (s gt : Nat) (nodes : List Node) (pes : List (Int × Int))
    (h : nodes.map (goPosEnd PT) = pes.map some) :
    goPosEnd PT (nStructType s gt (sliceKids "Fields" 0 nodes)) = some ((s : Int), (gt : Int) + 1) := by
  rw [nStructType, goPosEnd_mk (goKids_slice h) prow_StructType.1 prow_StructType.2]
  pos_eval []

theorem prow_StructField :
    PT.go.lookup "StructField" = some (.term ⟨.nodePos (.nodeChoice [.wrapNode "Ident", .wrapNode "Type"]), []⟩, .term ⟨.nodeEnd (.atom (.wrapNode "Type")), []⟩) ∧
    PT.fieldsOf "StructField" = [⟨"Ident", .node, "*Ident"⟩, ⟨"Type", .node, "Type"⟩] := by
  decide +kernel

/-- `nodeChoice(Ident, Type).pos`, `Type.end`; `Ident` present -/
theorem pos_StructField_some (i t : Node) (pi ei pt et : Int) (hi : goPosEnd PT i = some (pi, ei))
    (ht : goPosEnd PT t = some (pt, et)) : goPosEnd PT (nStructField (some i) t) = some (pi, et) := by
  rw [nStructField, goPosEnd_mk (ks := [⟨"Ident", none, pi, ei⟩, ⟨"Type", none, pt, et⟩]) (by simp [goKids, hi, ht])
    prow_StructField.1 prow_StructField.2]
  pos_eval []

/-- … `Ident` nil -/
theorem pos_StructField_none (t : Node) (pt et : Int) (ht : goPosEnd PT t = some (pt, et)) :
    goPosEnd PT (nStructField none t) = some (pt, et) := by
  rw [nStructField, goPosEnd_mk (ks := [⟨"Type", none, pt, et⟩]) (by simp [goKids, ht])
    prow_StructField.1 prow_StructField.2]
  pos_eval []

/-! ## CAST -/

theorem prow_CastExpr :
    PT.go.lookup "CastExpr" = some (.term ⟨.field "Cast", []⟩, .term ⟨.field "Rparen", [(.lit 1)]⟩) ∧
    PT.fieldsOf "CastExpr" = [⟨"Cast", .pos, "token.Pos"⟩, ⟨"Rparen", .pos, "token.Pos"⟩, ⟨"Safe", .bool, "bool"⟩, ⟨"Expr", .node, "Expr"⟩, ⟨"Type", .node, "Type"⟩] := by
  decide +kernel

theorem pos_CastExpr (cp rp : Nat) (safe : Bool) (e t : Node) (pe ee pt et : Int) (he : goPosEnd PT e = some (pe, ee))
    (ht : goPosEnd PT t = some (pt, et)) :
    goPosEnd PT (nCastExpr cp rp safe e t) = some ((cp : Int), (rp : Int) + 1) := by
  rw [nCastExpr, goPosEnd_mk (ks := [⟨"Expr", none, pe, ee⟩, ⟨"Type", none, pt, et⟩]) (by simp [goKids, he, ht])
    prow_CastExpr.1 prow_CastExpr.2]
  pos_eval []
end MF.Bridge
