/-
  MF.Proofs.TreePos — Pos()/End() over whole trees.

   * `goPosEnd_doc`      (D1, lifted to trees) if pos.go is the emission of the documentation (the table equality
                         `MF.Props.C19.pos_go_eq_doc`), then whenever the compiled methods return `(Pos, End)` for a
                         tree, the documented expressions return the same pair;
   * `PosTableOK`        decidable well-formedness of the pos.go table w.r.t. the catalogue;
   * `Shaped`            decidable shape predicate on generic trees;
   * `goPosEnd_total`    (C04, Pos/End part) on a well-formed table, `Pos()`/`End()` of every shaped tree return
                         (no Go panic: no slice index out of range, no field of the wrong class).
-/
import MF.Model.Tree
import MF.Proofs.PosLang
namespace MF.Ast

/-! ### D1 on trees -/

theorem lookup_map_emit (k : String) :
    ∀ (l : List (String × PosE × PosE)),
      (l.map (fun r => (r.1, r.2.1.emit, r.2.2.emit))).lookup k = (l.lookup k).map (fun r => (r.1.emit, r.2.emit))
  | [] => rfl
  | (a, pe, ee) :: l => by
    have ih := lookup_map_emit k l
    simp only [List.map_cons, List.lookup_cons]
    cases k == a
    · simpa using ih
    · rfl

mutual
  theorem goPosEnd_doc (T : PosTables) (hT : T.go = T.doc.map (fun r => (r.1, r.2.1.emit, r.2.2.emit))) :
      ∀ (n : Node) (r : Int × Int), goPosEnd T n = some r → docPosEnd T n = some r
    | .mk k sc kids, r, h => by
      have ihk := goKids_doc T hT kids
      rw [goPosEnd] at h
      rw [docPosEnd]
      cases hk : goKids T kids with
      | none => simp [hk] at h
      | some ks =>
        rw [ihk ks hk]
        rw [hT, lookup_map_emit] at h
        cases hl : T.doc.lookup k with
        | none => simp [hk, hl] at h
        | some row =>
          obtain ⟨pe, ee⟩ := row
          simp only [hk, hl, Option.map_some] at h
          simp only
          cases hp : pe.emit.eval ⟨sc, ks, T.fieldsOf k⟩ with
          | none => simp [hp] at h
          | some p =>
            cases he : ee.emit.eval ⟨sc, ks, T.fieldsOf k⟩ with
            | none => simp [hp, he] at h
            | some e =>
              simp only [hp, he] at h
              simp only [PosE.emit_correct _ pe p hp, PosE.emit_correct _ ee e he]
              exact h
  theorem goKids_doc (T : PosTables) (hT : T.go = T.doc.map (fun r => (r.1, r.2.1.emit, r.2.2.emit))) :
      ∀ (ks : Kids) (r : List KidPE), goKids T ks = some r → docKids T ks = some r
    | .nil, r, h => by
      rw [goKids] at h
      rw [docKids]; exact h
    | .cons f i n rest, r, h => by
      have ihn := goPosEnd_doc T hT n
      have ihr := goKids_doc T hT rest
      rw [goKids] at h
      rw [docKids]
      cases hn : goPosEnd T n with
      | none => simp [hn] at h
      | some pe =>
        cases hr : goKids T rest with
        | none => simp [hn, hr] at h
        | some ks =>
          rw [ihn pe hn, ihr ks hr]
          simpa [hn, hr] using h
end

/-! ### D2: well-formed tables, shaped trees, totality -/

/-- class of field `f` in a field list (what `Ctx.cls` computes) -/
def clsOf (fs : List FieldDecl) (f : String) : Option FieldClass := (fs.find? (·.name == f)).map (·.cls)

def GoInt.ok (fs : List FieldDecl) : GoInt → Bool
  | .lit _ => true
  | .len f => clsOf fs f == some .str || clsOf fs f == some .enum
  | .ifThenElse b x y => clsOf fs b == some .bool && x.ok fs && y.ok fs

def GoNodeAtom.ok (fs : List FieldDecl) : GoNodeAtom → Bool
  | .wrapNode f => clsOf fs f == some .node
  | .nodeSliceLast f => clsOf fs f == some .nodes
  | .nodeSliceIndex f i => clsOf fs f == some .nodes && i == .lit 0

def GoNode.ok (fs : List FieldDecl) : GoNode → Bool
  | .atom a => a.ok fs
  | .nodeChoice as => as.all (GoNodeAtom.ok fs)

def GoPosAtom.ok (fs : List FieldDecl) : GoPosAtom → Bool
  | .field f => clsOf fs f == some .pos
  | .nodePos e => e.ok fs
  | .nodeEnd e => e.ok fs

def GoPosTerm.ok (fs : List FieldDecl) (t : GoPosTerm) : Bool := t.atom.ok fs && t.adds.all (GoInt.ok fs)

def GoPos.ok (fs : List FieldDecl) : GoPos → Bool
  | .term t => t.ok fs
  | .posChoice ts => ts.all (GoPosTerm.ok fs)
  | .unrecognised _ => false

/-- one catalogue entry has a pos.go row, and both bodies only mention fields of the struct, each with the class the
helper it is passed to needs; `nodeSliceIndex` only with the literal index 0; nothing unrecognised -/
def PosTables.kindOK (T : PosTables) (k : KindDecl) : Bool :=
  match T.go.lookup k.name with
  | some (pe, ee) => pe.ok (T.fieldsOf k.name) && ee.ok (T.fieldsOf k.name)
  | none => false

/-- decidable well-formedness of the pos.go table w.r.t. the catalogue -/
def PosTableOK (T : PosTables) : Bool := T.kinds.all T.kindOK

/-- a scalar field of class pos / bool / str / enum is present with a value of the matching constructor -/
def scalarOK (sc : List (String × Scalar)) (fd : FieldDecl) : Bool :=
  match fd.cls with
  | .pos => match sc.lookup fd.name with | some (.pos _) => true | _ => false
  | .bool => match sc.lookup fd.name with | some (.bool _) => true | _ => false
  | .str => match sc.lookup fd.name with | some (.str _) => true | _ => false
  | .enum => match sc.lookup fd.name with | some (.str _) => true | _ => false
  | _ => true

mutual
  def Node.shaped (T : PosTables) : Node → Bool
    | .mk k sc kids => T.kinds.any (·.name == k) && (T.fieldsOf k).all (scalarOK sc) && kids.shaped T
  def Kids.shaped (T : PosTables) : Kids → Bool
    | .nil => true
    | .cons _ _ n r => n.shaped T && r.shaped T
end

/-- every node's kind is in the catalogue and its pos/bool/str/enum fields are present with the right constructor -/
def Shaped (T : PosTables) (n : Node) : Prop := n.shaped T = true

instance (T : PosTables) (n : Node) : Decidable (Shaped T n) := inferInstanceAs (Decidable (_ = true))

theorem clsOf_some {fs : List FieldDecl} {f : String} {cl : FieldClass} (h : clsOf fs f = some cl) :
    ∃ fd, fd ∈ fs ∧ fd.name = f ∧ fd.cls = cl := by
  unfold clsOf at h
  cases hf : fs.find? (·.name == f) with
  | none => simp [hf] at h
  | some fd =>
    simp only [hf, Option.map_some, Option.some.injEq] at h
    refine ⟨fd, List.mem_of_find?_eq_some hf, ?_, h⟩
    have := List.find?_some hf
    simpa using this

/-- the evaluation context of a shaped node -/
structure CtxOK (c : Ctx) : Prop where
  scalars : c.fields.all (scalarOK c.scalars) = true

theorem Ctx.cls_eq (c : Ctx) (f : String) : c.cls f = clsOf c.fields f := rfl

theorem CtxOK.posField {c : Ctx} (hc : CtxOK c) {f : String} (h : clsOf c.fields f = some .pos) :
    ∃ p, c.posField f = some p := by
  obtain ⟨fd, hm, hn, hcl⟩ := clsOf_some h
  have := List.all_eq_true.mp hc.scalars fd hm
  simp only [scalarOK, hcl, hn] at this
  unfold Ctx.posField
  split at this
  · rename_i p hl; exact ⟨p, by simp [hl]⟩
  · cases this

theorem CtxOK.boolField {c : Ctx} (hc : CtxOK c) {f : String} (h : clsOf c.fields f = some .bool) :
    ∃ b, c.boolField f = some b := by
  obtain ⟨fd, hm, hn, hcl⟩ := clsOf_some h
  have := List.all_eq_true.mp hc.scalars fd hm
  simp only [scalarOK, hcl, hn] at this
  unfold Ctx.boolField
  split at this
  · rename_i p hl; exact ⟨p, by simp [hl]⟩
  · cases this

theorem CtxOK.strLen {c : Ctx} (hc : CtxOK c) {f : String}
    (h : clsOf c.fields f = some .str ∨ clsOf c.fields f = some .enum) :
    ∃ n, c.strLen f = some n := by
  have key : (match c.scalars.lookup f with | some (.str _) => true | _ => false) = true := by
    rcases h with h | h
    · obtain ⟨fd, hm, hn, hcl⟩ := clsOf_some h
      have := List.all_eq_true.mp hc.scalars fd hm
      simpa only [scalarOK, hcl, hn] using this
    · obtain ⟨fd, hm, hn, hcl⟩ := clsOf_some h
      have := List.all_eq_true.mp hc.scalars fd hm
      simpa only [scalarOK, hcl, hn] using this
  unfold Ctx.strLen
  split at key
  · rename_i s hl; exact ⟨s.length, by simp [hl]⟩
  · cases key

theorem GoInt.eval_total {c : Ctx} (hc : CtxOK c) : ∀ (i : GoInt), i.ok c.fields = true → ∃ v, i.eval c = some v
  | .lit n, _ => ⟨n, rfl⟩
  | .len f, h => by
    simp only [GoInt.ok, Bool.or_eq_true, beq_iff_eq] at h
    obtain ⟨n, hn⟩ := hc.strLen h
    exact ⟨n, by simp [GoInt.eval, hn]⟩
  | .ifThenElse b x y, h => by
    simp only [GoInt.ok, Bool.and_eq_true, beq_iff_eq] at h
    obtain ⟨⟨hb, hx⟩, hy⟩ := h
    obtain ⟨bv, hbv⟩ := hc.boolField hb
    obtain ⟨vx, hvx⟩ := GoInt.eval_total hc x hx
    obtain ⟨vy, hvy⟩ := GoInt.eval_total hc y hy
    cases bv
    · exact ⟨vy, by simp [GoInt.eval, hbv, hvx, hvy]⟩
    · exact ⟨vx, by simp [GoInt.eval, hbv, hvx, hvy]⟩

theorem GoNodeAtom.eval_total {c : Ctx} (a : GoNodeAtom) (h : a.ok c.fields = true) : ∃ v, a.eval c = some v := by
  cases a with
  | wrapNode f =>
    simp only [GoNodeAtom.ok, beq_iff_eq] at h
    simp [GoNodeAtom.eval, Ctx.single, Ctx.cls_eq, h]
  | nodeSliceLast f =>
    simp only [GoNodeAtom.ok, beq_iff_eq] at h
    simp [GoNodeAtom.eval, Ctx.slice, Ctx.cls_eq, h]
  | nodeSliceIndex f i =>
    simp only [GoNodeAtom.ok, Bool.and_eq_true, beq_iff_eq] at h
    obtain ⟨hf, hi⟩ := h
    subst hi
    obtain ⟨ns, hs⟩ : ∃ ns, c.slice f = some ns := by
      simp only [Ctx.slice, Ctx.cls_eq, hf, beq_self_eq_true, if_true]
      exact ⟨_, rfl⟩
    simp only [GoNodeAtom.eval, hs, GoInt.eval]
    cases ns with
    | nil => simp
    | cons x xs => simp

theorem evalGoNodeAlts_total {c : Ctx} :
    ∀ (as : List GoNodeAtom), as.all (GoNodeAtom.ok c.fields) = true → ∃ v, evalGoNodeAlts c as = some v
  | [], _ => ⟨none, rfl⟩
  | a :: as, h => by
    simp only [List.all_cons, Bool.and_eq_true] at h
    obtain ⟨x, hx⟩ := GoNodeAtom.eval_total a h.1
    obtain ⟨r, hr⟩ := evalGoNodeAlts_total as h.2
    cases x with
    | none => exact ⟨r, by simp [evalGoNodeAlts, hx, hr]⟩
    | some w => exact ⟨some w, by simp [evalGoNodeAlts, hx, hr]⟩

theorem GoNode.eval_total {c : Ctx} (e : GoNode) (h : e.ok c.fields = true) : ∃ v, e.eval c = some v := by
  cases e with
  | atom a => exact GoNodeAtom.eval_total a h
  | nodeChoice as => exact evalGoNodeAlts_total as h

theorem GoPosAtom.eval_total {c : Ctx} (hc : CtxOK c) (a : GoPosAtom) (h : a.ok c.fields = true) :
    ∃ v, a.eval c = some v := by
  cases a with
  | field f =>
    simp only [GoPosAtom.ok, beq_iff_eq] at h
    exact hc.posField h
  | nodePos e =>
    obtain ⟨x, hx⟩ := GoNode.eval_total e h
    exact ⟨_, by simp [GoPosAtom.eval, hx]; rfl⟩
  | nodeEnd e =>
    obtain ⟨x, hx⟩ := GoNode.eval_total e h
    exact ⟨_, by simp [GoPosAtom.eval, hx]; rfl⟩

theorem evalGoAdds_total {c : Ctx} (hc : CtxOK c) :
    ∀ (as : List GoInt) (p : Int), as.all (GoInt.ok c.fields) = true → ∃ v, evalGoAdds c p as = some v
  | [], p, _ => ⟨p, rfl⟩
  | a :: as, p, h => by
    simp only [List.all_cons, Bool.and_eq_true] at h
    obtain ⟨w, hw⟩ := GoInt.eval_total hc a h.1
    obtain ⟨r, hr⟩ := evalGoAdds_total hc as (if p < 0 then invalid else p + w) h.2
    exact ⟨r, by simp only [evalGoAdds, hw, hr]⟩

theorem GoPosTerm.eval_total {c : Ctx} (hc : CtxOK c) (t : GoPosTerm) (h : t.ok c.fields = true) :
    ∃ v, t.eval c = some v := by
  simp only [GoPosTerm.ok, Bool.and_eq_true] at h
  obtain ⟨p, hp⟩ := GoPosAtom.eval_total hc t.atom h.1
  obtain ⟨r, hr⟩ := evalGoAdds_total hc t.adds p h.2
  exact ⟨r, by simp only [GoPosTerm.eval, hp, hr]⟩

theorem evalGoPosAlts_total {c : Ctx} (hc : CtxOK c) :
    ∀ (ts : List GoPosTerm), ts.all (GoPosTerm.ok c.fields) = true → ∃ v, evalGoPosAlts c ts = some v
  | [], _ => ⟨invalid, rfl⟩
  | t :: ts, h => by
    simp only [List.all_cons, Bool.and_eq_true] at h
    obtain ⟨p, hp⟩ := GoPosTerm.eval_total hc t h.1
    obtain ⟨r, hr⟩ := evalGoPosAlts_total hc ts h.2
    exact ⟨if p < 0 then r else p, by simp only [evalGoPosAlts, hp, hr]⟩

/-- a checked method body evaluates in every context whose scalars have the declared shape -/
theorem GoPos.eval_total {c : Ctx} (hc : CtxOK c) (e : GoPos) (h : e.ok c.fields = true) : ∃ v, e.eval c = some v := by
  cases e with
  | term t => exact GoPosTerm.eval_total hc t h
  | posChoice ts => exact evalGoPosAlts_total hc ts h
  | unrecognised s => simp [GoPos.ok] at h

mutual
  /-- `Pos()` and `End()` of the compiled methods never panic on a shaped tree -/
  theorem goPosEnd_total (T : PosTables) (hT : PosTableOK T = true) :
      ∀ (n : Node), Shaped T n → ∃ r, goPosEnd T n = some r
    | .mk k sc kids, hn => by
      unfold Shaped at hn
      rw [Node.shaped] at hn
      simp only [Bool.and_eq_true] at hn
      obtain ⟨⟨hk, hsc⟩, hkids⟩ := hn
      obtain ⟨ks, hks⟩ := goKids_total T hT kids hkids
      obtain ⟨d, hd, hdk⟩ := List.any_eq_true.mp hk
      have hdk : d.name = k := by simpa using hdk
      have hrow := List.all_eq_true.mp hT d hd
      unfold PosTables.kindOK at hrow
      rw [hdk] at hrow
      rw [goPosEnd, hks]
      cases hl : T.go.lookup k with
      | none => simp [hl] at hrow
      | some row =>
        obtain ⟨pe, ee⟩ := row
        simp only [hl, Bool.and_eq_true] at hrow
        have hc : CtxOK ⟨sc, ks, T.fieldsOf k⟩ := ⟨hsc⟩
        obtain ⟨p, hp⟩ := GoPos.eval_total hc pe hrow.1
        obtain ⟨e, he⟩ := GoPos.eval_total hc ee hrow.2
        exact ⟨(p, e), by simp only [hp, he]⟩
  theorem goKids_total (T : PosTables) (hT : PosTableOK T = true) :
      ∀ (ks : Kids), ks.shaped T = true → ∃ r, goKids T ks = some r
    | .nil, _ => ⟨[], by rw [goKids]⟩
    | .cons f i n rest, h => by
      rw [Kids.shaped] at h
      simp only [Bool.and_eq_true] at h
      obtain ⟨⟨p, e⟩, hpe⟩ := goPosEnd_total T hT n h.1
      obtain ⟨ks, hks⟩ := goKids_total T hT rest h.2
      exact ⟨_, by rw [goKids, hpe, hks]⟩
end

/-! ### a linear-time certificate for `PosTableOK`

`PosTableOK` looks every kind up in the table (quadratically many string comparisons, slow in the kernel).  When the
catalogue and the table are aligned row by row (they are: both are generated in declaration order), one lock-step pass
suffices.  No uniqueness of names is needed: the first kind and the first row of a given name sit at the same index. -/

def zipOK : List KindDecl → List (String × GoPos × GoPos) → Bool
  | [], [] => true
  | k :: ks, (name, pe, ee) :: rs => name == k.name && pe.ok k.fields && ee.ok k.fields && zipOK ks rs
  | _, _ => false

theorem zipOK_lookup :
    ∀ (ks : List KindDecl) (rs : List (String × GoPos × GoPos)), zipOK ks rs = true →
      ∀ (name : String) (d : KindDecl), ks.find? (·.name == name) = some d →
        ∃ pe ee, rs.lookup name = some (pe, ee) ∧ pe.ok d.fields = true ∧ ee.ok d.fields = true
  | [], _, _, name, d, hf => by simp at hf
  | k :: ks, [], h, _, _, _ => by simp [zipOK] at h
  | k :: ks, (rn, pe, ee) :: rs, h, name, d, hf => by
    simp only [zipOK, Bool.and_eq_true, beq_iff_eq] at h
    obtain ⟨⟨⟨hn, hpe⟩, hee⟩, hrest⟩ := h
    subst hn
    rw [List.find?_cons] at hf
    rw [List.lookup_cons]
    by_cases hk : k.name = name
    · subst hk
      simp only [beq_self_eq_true, Option.some.injEq] at hf
      subst hf
      exact ⟨pe, ee, by simp, hpe, hee⟩
    · have h1 : (k.name == name) = false := by simpa using hk
      have h2 : (name == k.name) = false := by simpa using fun e => hk e.symm
      rw [h1] at hf
      rw [h2]
      exact zipOK_lookup ks rs hrest name d hf

theorem PosTableOK_of_zip (T : PosTables) (h : zipOK T.kinds T.go = true) : PosTableOK T = true := by
  unfold PosTableOK
  rw [List.all_eq_true]
  intro d hd
  cases hf : T.kinds.find? (·.name == d.name) with
  | none =>
    have := List.find?_eq_none.mp hf d hd
    simp at this
  | some d' =>
    obtain ⟨pe, ee, hl, hpe, hee⟩ := zipOK_lookup _ _ h d.name d' hf
    simp only [PosTables.kindOK, PosTables.fieldsOf, hl, hf, hpe, hee, Bool.and_self]

end MF.Ast
