/-
  MF.Proofs.ExprPosNodes — token alignment of every Go node of a placed tree.

  `place_ok`: if the tokens of `all` from index `i` read `yield x` (and `x` is in the parser's normal form, which rules
  out the empty `Path`), then for the tree `placeG (pe all) x i`:
    * `Pos()` is the `pos` of token `i`, `End()` the `end` of token `i + ntok x - 1`;
    * every Go node `n` of it (`nodesP`) is `NodeIn all i (i + ntok x)`: there are token indices `a < b` inside that
      range with `n.pos = pos(token a)`, `n.end = end(token b-1)`, and its direct children occupy consecutive
      disjoint sub-ranges `[a₁,b₁) [a₂,b₂) …` of `[a,b)` in source order (`Chain`), each child's span being
      `(pos(token aᵢ), end(token bᵢ-1))`.
  The only facts about tokens used here are the per-token length facts `TokOK`.
-/
import MF.Proofs.ExprPosTokens
namespace MF.Expr

/-! ## chains of index ranges -/

/-- consecutive non-empty index ranges inside `[lo, hi)` -/
def Chain (lo hi : Nat) : List (Nat × Nat) → Prop
  | [] => lo ≤ hi
  | ab :: rest => lo ≤ ab.1 ∧ ab.1 < ab.2 ∧ Chain ab.2 hi rest

theorem Chain.le {lo hi : Nat} {idx : List (Nat × Nat)} (h : Chain lo hi idx) : lo ≤ hi := by
  induction idx generalizing lo with
  | nil => exact h
  | cons ab rest ih => obtain ⟨h1, h2, h3⟩ := h; have := ih h3; omega

theorem Chain.mono {lo lo' hi hi' : Nat} {idx : List (Nat × Nat)} (h : Chain lo hi idx) (h1 : lo' ≤ lo) (h2 : hi ≤ hi') :
    Chain lo' hi' idx := by
  induction idx generalizing lo lo' with
  | nil => simp only [Chain] at h ⊢; omega
  | cons ab rest ih =>
    obtain ⟨a1, a2, a3⟩ := h
    exact ⟨by omega, a2, ih a3 (Nat.le_refl _)⟩

theorem Chain.append {lo mid hi : Nat} {a b : List (Nat × Nat)} (h1 : Chain lo mid a) (h2 : Chain mid hi b) :
    Chain lo hi (a ++ b) := by
  induction a generalizing lo with
  | nil => exact h2.mono h1 (Nat.le_refl _)
  | cons ab rest ih =>
    obtain ⟨a1, a2, a3⟩ := h1
    exact ⟨a1, a2, ih a3⟩

theorem Chain.mem {lo hi : Nat} {idx : List (Nat × Nat)} (h : Chain lo hi idx) :
    ∀ ab ∈ idx, lo ≤ ab.1 ∧ ab.1 < ab.2 ∧ ab.2 ≤ hi := by
  induction idx generalizing lo with
  | nil => simp
  | cons ab rest ih =>
    obtain ⟨a1, a2, a3⟩ := h
    intro x hx
    rcases List.mem_cons.mp hx with rfl | hx
    · exact ⟨a1, a2, a3.le⟩
    · have := ih a3 x hx; exact ⟨by omega, this.2.1, this.2.2⟩

/-- the span of the token range `[ab.1, ab.2)` -/
def spanOf (all : List Token) (ab : Nat × Nat) : Nat × Nat := ((tokAt all ab.1).pos, (tokAt all (ab.2 - 1)).end)

/-- the Go node `n` is aligned with a token range inside `[lo, hi)`, and so are its children, in source order -/
def NodeIn (all : List Token) (lo hi : Nat) (n : NodeInfo) : Prop :=
  ∃ a b, lo ≤ a ∧ a < b ∧ b ≤ hi ∧ n.pos = (tokAt all a).pos ∧ n.end = (tokAt all (b - 1)).end ∧
    ∃ idx, n.kids = idx.map (spanOf all) ∧ Chain a b idx

theorem NodeIn.mono {all : List Token} {lo lo' hi hi' : Nat} {n : NodeInfo} (h : NodeIn all lo hi n)
    (h1 : lo' ≤ lo) (h2 : hi ≤ hi') : NodeIn all lo' hi' n := by
  obtain ⟨a, b, c1, c2, c3, rest⟩ := h
  exact ⟨a, b, by omega, c2, by omega, rest⟩

theorem NodeIn.head {all : List Token} {i j : Nat} {n : NodeInfo} (hij : i < j) (hp : n.pos = (tokAt all i).pos)
    (he : n.end = (tokAt all (j - 1)).end) (idx : List (Nat × Nat)) (hk : n.kids = idx.map (spanOf all))
    (hc : Chain i j idx) : NodeIn all i j n :=
  ⟨i, j, Nat.le_refl _, hij, Nat.le_refl _, hp, he, idx, hk, hc⟩

/-! ## reading single tokens -/

theorem Pre_cons' {all : List Token} {i : Nat} {y : Tok'} {ys : List Tok'} :
    Pre all i (y :: ys) ↔ TokIs all i y ∧ Pre all (i + 1) ys := Pre_cons

theorem yield_length (x : Expr) : (yield x).length = ntok x := rfl
theorem yields_length (es : Exprs) : (yields es).length = ntoks es := rfl

section toks
variable {all : List Token} {len : Nat} (hT : ∀ t ∈ all, TokOK len t)
include hT

theorem tok_null {k : Nat} (h : TokIs all k (T .null)) : (tokAt all k).end = (tokAt all k).pos + 4 :=
  (hT _ h.mem).null h.tk
theorem tok_bool {k : Nat} {b : Bool} (h : TokIs all k (T (boolTK b))) :
    (tokAt all k).end = (tokAt all k).pos + boolLen b := by
  cases b
  · exact (hT _ h.mem).false_ h.tk
  · exact (hT _ h.mem).true_ h.tk
theorem tok_rparen {k : Nat} (h : TokIs all k (T .rparen)) : (tokAt all k).end = (tokAt all k).pos + 1 :=
  (hT _ h.mem).rparen h.tk
theorem tok_rbrack {k : Nat} (h : TokIs all k (T .rbrack)) : (tokAt all k).end = (tokAt all k).pos + 1 :=
  (hT _ h.mem).rbrack h.tk
theorem tok_end {k : Nat} (h : TokIs all k (T .end_)) : (tokAt all k).end = (tokAt all k).pos + 3 :=
  (hT _ h.mem).end_ h.tk
theorem tok_param {k : Nat} {n : Bytes} (h : TokIs all k ⟨.param, n⟩) :
    (tokAt all k).end = (tokAt all k).pos + 1 + n.length := by
  have h1 := (hT _ h.mem).param h.tk
  obtain ⟨t, ht, hp⟩ := h
  rw [tokAt_of_getElem? ht] at h1 ⊢
  have hk : tk t.kind = .param := congrArg Tok'.k hp
  have hv : tokVal t = n := congrArg Tok'.v hp
  simp only [tokVal, hk] at hv
  rw [h1, hv]

end toks

/-! ## number of tokens, constructor by constructor -/

theorem ntok_paren (e : Expr) : ntok (.paren e) = ntok e + 2 := by simp [ntok, yield]
theorem ntok_unary (op : UOp) (e : Expr) : ntok (.unary op e) = ntok e + 1 := by simp [ntok, yield]
theorem ntok_bin (op : BOp) (l r : Expr) : ntok (.bin op l r) = ntok l + op.toks.length + ntok r := by
  simp [ntok, yield]; omega
theorem ntok_isNull (e : Expr) (n : Bool) : ntok (.isNull e n) = ntok e + 1 + nb n + 1 := by
  simp [ntok, yield, notToks_length]; omega
theorem ntok_isBool (e : Expr) (n b : Bool) : ntok (.isBool e n b) = ntok e + 1 + nb n + 1 := by
  simp [ntok, yield, notToks_length]; omega
theorem ntok_between (n : Bool) (e lo hi : Expr) :
    ntok (.between n e lo hi) = ntok e + nb n + 1 + ntok lo + 1 + ntok hi := by
  simp [ntok, yield, notToks_length]; omega
theorem ntok_inList (n : Bool) (e first : Expr) (more : Exprs) :
    ntok (.inList n e first more) = ntok e + nb n + 1 + 1 + ntok first + ntoks more + 1 := by
  simp [ntok, ntoks, yield, notToks_length]; omega
theorem ntok_inUnnest (n : Bool) (e a : Expr) : ntok (.inUnnest n e a) = ntok e + nb n + 1 + 2 + ntok a + 1 := by
  simp [ntok, yield, notToks_length]; omega
theorem ntok_sel (e : Expr) (n : Bytes) : ntok (.sel e n) = ntok e + 2 := by simp [ntok, yield]
theorem ntok_index_none (e ix : Expr) : ntok (.index e none ix) = ntok e + 1 + ntok ix + 1 := by
  simp [ntok, yield]; omega
theorem ntok_index_some (e ix : Expr) (k : PosKw) (sp : Bytes) :
    ntok (.index e (some (k, sp)) ix) = ntok e + 3 + ntok ix + 2 := by
  simp [ntok, yield]; omega
theorem ntoks_cons (e : Expr) (es : Exprs) : ntoks (.cons e es) = 1 + ntok e + ntoks es := by
  simp [ntok, ntoks, yields]; omega
theorem ntok_cast (e : Expr) (ns : List Bytes) : ntok (.cast e ns) = 2 + ntok e + 1 + (pathToks ns).length + 1 := by
  simp [ntok, yield]; omega
theorem ntok_arr_nil : ntok (.array .nil) = 2 := by simp [ntok, yield]
theorem ntok_arr_cons (e : Expr) (es : Exprs) : ntok (.array (.cons e es)) = 1 + ntok e + ntoks es + 1 := by
  simp [ntok, ntoks, yield]; omega
theorem ntok_ifE (c t e : Expr) : ntok (.ifE c t e) = 2 + ntok c + 1 + ntok t + 1 + ntok e + 1 := by
  simp [ntok, yield]; omega
theorem ntok_caseE (o el : OExpr) (c t : Expr) (ws : Whens) :
    ntok (.caseE o c t ws el) = 1 + ntokO [] o + 1 + ntok c + 1 + ntok t + ntokW ws + ntokO [T .else_] el + 1 := by
  simp [ntok, ntokO, ntokW, yield]; omega
theorem ntokW_cons (c t : Expr) (ws : Whens) : ntokW (.cons c t ws) = 1 + ntok c + 1 + ntok t + ntokW ws := by
  simp [ntok, ntokW, yieldW]; omega
theorem ntokO_none (pre : List Tok') : ntokO pre .none = 0 := rfl
theorem ntokO_some (pre : List Tok') (e : Expr) : ntokO pre (.some e) = pre.length + ntok e := by
  simp [ntokO, ntok, yieldO]

/-- the tokens in front of an optional expression: nothing for the operand of CASE, ELSE for a `CaseElse` -/
def preKw (kw : Bool) : List Tok' := if kw then [T .else_] else []

/-! ## the invariant -/

structure PlaceOK (all : List Token) (x : Expr) (i : Nat) : Prop where
  pos : posP (placeG (pe all) x i).1 = (tokAt all i).pos
  end_ : endP (placeG (pe all) x i).1 = (tokAt all (i + ntok x - 1)).end
  npos : 0 < ntok x
  nodes : ∀ d, ∀ n ∈ nodesP d (placeG (pe all) x i).1, NodeIn all i (i + ntok x) n

theorem PlaceOK.span {all : List Token} {x : Expr} {i : Nat} (h : PlaceOK all x i) :
    spanP (placeG (pe all) x i).1 = spanOf all (i, i + ntok x) := by
  simp [spanP, spanOf, h.pos, h.end_]

structure PlacesOK (all : List Token) (es : Exprs) (i : Nat) : Prop where
  spans : ∃ idx, spansP (placesG (pe all) es i).1 = idx.map (spanOf all) ∧ Chain i (i + ntoks es) idx
  nodes : ∀ d, ∀ n ∈ nodesPs d (placesG (pe all) es i).1, NodeIn all i (i + ntoks es) n

structure PlaceWOK (all : List Token) (ws : Whens) (i : Nat) : Prop where
  spans : ∃ idx, spansW (placeW (pe all) ws i).1 = idx.map (spanOf all) ∧ Chain i (i + ntokW ws) idx
  nodes : ∀ d, ∀ n ∈ nodesPW d (placeW (pe all) ws i).1, NodeIn all i (i + ntokW ws) n

structure PlaceOOK (all : List Token) (kw : Bool) (o : OExpr) (i : Nat) : Prop where
  spans : ∃ idx, spanO kw (placeO (pe all) kw o i).1 = idx.map (spanOf all) ∧ Chain i (i + ntokO (preKw kw) o) idx
  nodes : ∀ d, ∀ n ∈ nodesPO kw d (placeO (pe all) kw o i).1, NodeIn all i (i + ntokO (preKw kw) o) n

/-- a leaf of `k` tokens (1, or 2 for a numeric literal with a folded sign) -/
theorem leaf_ok {all : List Token} {x : Expr} {i k : Nat} {pe' : PExpr}
    (hx : placeG (pe all) x i = (pe', i + k)) (hn : ntok x = k) (hk : 0 < k)
    (hnodes : ∀ d, ∃ kind fields, nodesP d pe' = [⟨d, kind, posP pe', endP pe', fields, []⟩])
    (hp : posP pe' = (tokAt all i).pos) (he : endP pe' = (tokAt all (i + k - 1)).end) : PlaceOK all x i := by
  refine ⟨by rw [hx]; exact hp, by rw [hx, hn]; exact he, by omega, ?_⟩
  intro d n hn'
  obtain ⟨kind, fields, hnd⟩ := hnodes d
  rw [hx, hnd] at hn'
  simp only [List.mem_singleton] at hn'
  subst hn'
  exact NodeIn.head (by omega) hp (by rw [hn]; exact he) [] rfl (by simp only [Chain]; omega)

/-! ## paths -/

theorem identNode_in {all : List Token} (d k : Nat) (n : Bytes) :
    NodeIn all k (k + 1) (identNode d (identAt (pe all) k n)) :=
  NodeIn.head (by omega) rfl rfl [] rfl (by simp only [Chain]; omega)

theorem placeIds_ok {all : List Token} (ns : List Bytes) (k : Nat) :
    ∃ idx, ((placeIds (pe all) ns k).1.map PIdent.span = idx.map (spanOf all)) ∧ Chain k (k + 2 * ns.length) idx ∧
      (∀ d, ∀ n ∈ (placeIds (pe all) ns k).1.map (identNode d), NodeIn all k (k + 2 * ns.length) n) ∧
      (∀ x0 : PIdent, (((x0 :: (placeIds (pe all) ns k).1).getLast?.map (·.nameEnd)).getD 0) =
        if ns = [] then x0.nameEnd else (tokAt all (k + 2 * ns.length - 1)).end) := by
  induction ns generalizing k with
  | nil => exact ⟨[], rfl, by simp [Chain], by simp [placeIds], by simp [placeIds]⟩
  | cons n ns ih =>
    obtain ⟨idx, h1, h2, h3, h4⟩ := ih (k + 2)
    refine ⟨(k + 1, k + 2) :: idx, ?_, ?_, ?_, ?_⟩
    · simp only [placeIds, List.map_cons, h1]
      rfl
    · simp only [Chain, List.length_cons]
      exact ⟨by omega, by omega, h2.mono (Nat.le_refl _) (by omega)⟩
    · intro d m hm
      simp only [placeIds, List.map_cons, List.mem_cons] at hm
      rcases hm with rfl | hm
      · exact (identNode_in d (k + 1) n).mono (by omega) (by simp only [List.length_cons]; omega)
      · exact (h3 d m hm).mono (by omega) (by simp only [List.length_cons]; omega)
    · intro x0
      simp only [placeIds, List.getLast?_cons_cons, reduceCtorEq, ↓reduceIte, List.length_cons]
      rw [h4]
      split
      · rename_i hns; subst hns
        simp [identAt]
      · congr 2; omega


/-- the `NamedType` of a CAST (first identifier at index `j`) and its `Ident`s -/
theorem placePath_ok {all : List Token} (a : Bytes) (ns : List Bytes) (j d : Nat) :
    posCT (placePath (pe all) (a :: ns) j).1 = (tokAt all j).pos ∧
    endCT (placePath (pe all) (a :: ns) j).1 = (tokAt all (j + (1 + 2 * ns.length) - 1)).end ∧
    ∀ n ∈ nodesCT d (placePath (pe all) (a :: ns) j).1, NodeIn all j (j + (1 + 2 * ns.length)) n := by
  obtain ⟨idx, h1, h2, h3, h4⟩ := placeIds_ok (all := all) ns (j + 1)
  have hend : endCT (placePath (pe all) (a :: ns) j).1 = (tokAt all (j + (1 + 2 * ns.length) - 1)).end := by
    simp only [placePath, endCT]
    rw [h4]
    split
    · rename_i hns; subst hns; simp [identAt]
    · congr 2; omega
  refine ⟨by simp [placePath, posCT, identAt], hend, ?_⟩
  intro n hn
  simp only [placePath, nodesCT, List.mem_cons] at hn
  rcases hn with rfl | hn
  · refine NodeIn.head (by omega) (by simp [posCT, identAt]) ?_ ((j, j + 1) :: idx) ?_ ?_
    · simp only [placePath] at hend; exact hend
    · simp only [List.map_cons, h1]; rfl
    · simp only [Chain]
      exact ⟨Nat.le_refl _, by omega, h2.mono (Nat.le_refl _) (by omega)⟩
  · simp only [List.map_cons, List.mem_cons] at hn
    rcases hn with rfl | hn
    · exact (identNode_in (d + 1) j a).mono (Nat.le_refl _) (by omega)
    · exact (h3 (d + 1) n hn).mono (by omega) (by omega)

/-! ## the main induction -/

theorem chain1 {lo hi a b : Nat} (h1 : lo ≤ a) (h2 : a < b) (h3 : b ≤ hi) : Chain lo hi [(a, b)] := by
  simp only [Chain]; omega
theorem chain2 {lo hi a b c d : Nat} (h1 : lo ≤ a) (h2 : a < b) (h3 : b ≤ c) (h4 : c < d) (h5 : d ≤ hi) :
    Chain lo hi [(a, b), (c, d)] := by
  simp only [Chain]; omega
theorem chain3 {lo hi a b c d e f : Nat} (h1 : lo ≤ a) (h2 : a < b) (h3 : b ≤ c) (h4 : c < d) (h5 : d ≤ e) (h6 : e < f)
    (h7 : f ≤ hi) : Chain lo hi [(a, b), (c, d), (e, f)] := by
  simp only [Chain]; omega

/-- one `CaseWhen` node (WHEN at index `iw`) with the nodes of its two operands -/
theorem when_ok {all : List Token} {c t : Expr} {iw d : Nat} (IHc : PlaceOK all c (iw + 1))
    (IHt : PlaceOK all t (iw + 1 + ntok c + 1)) :
    ∀ n ∈ (⟨d, "CaseWhen", (tokAt all iw).pos, endP (placeG (pe all) t (iw + 1 + ntok c + 1)).1,
          [("When", (tokAt all iw).pos)],
          [spanP (placeG (pe all) c (iw + 1)).1, spanP (placeG (pe all) t (iw + 1 + ntok c + 1)).1]⟩ ::
        (nodesP (d + 1) (placeG (pe all) c (iw + 1)).1 ++ nodesP (d + 1) (placeG (pe all) t (iw + 1 + ntok c + 1)).1) :
          List NodeInfo),
      NodeIn all iw (iw + 1 + ntok c + 1 + ntok t) n := by
  intro n hn
  have hpc := IHc.npos; have hpt := IHt.npos
  simp only [List.mem_cons, List.mem_append] at hn
  rcases hn with rfl | hn | hn
  · refine NodeIn.head (by omega) rfl ?_ [(iw + 1, iw + 1 + ntok c), (iw + 1 + ntok c + 1, iw + 1 + ntok c + 1 + ntok t)]
      (by simp [IHc.span, IHt.span]) (chain2 (by omega) (by omega) (by omega) (by omega) (Nat.le_refl _))
    simp only [IHt.end_]
  · exact (IHc.nodes (d + 1) n hn).mono (by omega) (by omega)
  · exact (IHt.nodes (d + 1) n hn).mono (by omega) (Nat.le_refl _)

set_option linter.unusedSimpArgs false
set_option linter.unusedSectionVars false
section main
variable {all : List Token} {len : Nat} (hT : ∀ t ∈ all, TokOK len t)
include hT

mutual
theorem place_ok : (x : Expr) → (i : Nat) → Pre all i (yield x) → nf x = true → PlaceOK all x i
  | .null, i, hpre, _ => by
    simp only [yield, Pre_cons', Pre_nil, and_true] at hpre
    exact leaf_ok (pe' := .null (tokAt all i).pos) (k := 1) (by simp [placeG]) (by simp [ntok, yield]) (by omega) (fun d => ⟨_, _, by simp only [nodesP]; rfl⟩)
      rfl (by rw [Nat.add_sub_cancel, tok_null hT hpre]; rfl)
  | .bool b, i, hpre, _ => by
    simp only [yield, Pre_cons', Pre_nil, and_true] at hpre
    exact leaf_ok (pe' := .bool (tokAt all i).pos b) (k := 1) (by simp [placeG]) (by simp [ntok, yield]) (by omega) (fun d => ⟨_, _, by simp only [nodesP]; rfl⟩)
      rfl (by rw [Nat.add_sub_cancel, tok_bool hT hpre]; rfl)
  | .int none raw, i, _, _ => by
    exact leaf_ok (pe' := .int (tokAt all i).pos (tokAt all i).end none raw) (k := 1) (by simp [placeG]) (by simp [ntok, yield, signToks]) (by omega)
      (fun d => ⟨_, _, by simp only [nodesP]; rfl⟩) rfl rfl
  | .int (some s) raw, i, _, _ => by
    exact leaf_ok (pe' := .int (tokAt all i).pos (tokAt all (i + 1)).end (some s) raw) (k := 2) (by simp [placeG]) (by simp [ntok, yield, signToks]) (by omega)
      (fun d => ⟨_, _, by simp only [nodesP]; rfl⟩) rfl rfl
  | .float none raw, i, _, _ => by
    exact leaf_ok (pe' := .float (tokAt all i).pos (tokAt all i).end none raw) (k := 1) (by simp [placeG]) (by simp [ntok, yield, signToks]) (by omega)
      (fun d => ⟨_, _, by simp only [nodesP]; rfl⟩) rfl rfl
  | .float (some s) raw, i, _, _ => by
    exact leaf_ok (pe' := .float (tokAt all i).pos (tokAt all (i + 1)).end (some s) raw) (k := 2) (by simp [placeG]) (by simp [ntok, yield, signToks]) (by omega)
      (fun d => ⟨_, _, by simp only [nodesP]; rfl⟩) rfl rfl
  | .str v, i, _, _ => by
    exact leaf_ok (pe' := .str (tokAt all i).pos (tokAt all i).end v) (k := 1) (by simp [placeG]) (by simp [ntok, yield]) (by omega)
      (fun d => ⟨_, _, by simp only [nodesP]; rfl⟩) rfl rfl
  | .bytes v, i, _, _ => by
    exact leaf_ok (pe' := .bytes (tokAt all i).pos (tokAt all i).end v) (k := 1) (by simp [placeG]) (by simp [ntok, yield]) (by omega)
      (fun d => ⟨_, _, by simp only [nodesP]; rfl⟩) rfl rfl
  | .param n, i, hpre, _ => by
    simp only [yield, Pre_cons', Pre_nil, and_true] at hpre
    exact leaf_ok (pe' := .param (tokAt all i).pos n) (k := 1) (by simp [placeG]) (by simp [ntok, yield]) (by omega) (fun d => ⟨_, _, by simp only [nodesP]; rfl⟩)
      rfl (by rw [Nat.add_sub_cancel, tok_param hT hpre]; rfl)
  | .ident n, i, _, _ => by
    exact leaf_ok (pe' := .ident (identAt (pe all) i n)) (k := 1) (by simp [placeG]) (by simp [ntok, yield]) (by omega)
      (fun d => ⟨_, _, by simp only [nodesP, identNode]; rfl⟩) rfl rfl
  | .path [], i, _, hnf => by simp [nf] at hnf
  | .path (a :: ns), i, _, hnf => by
    have hns : ns ≠ [] := by
      intro h; subst h; simp [nf] at hnf
    obtain ⟨idx, h1, h2, h3, h4⟩ := placeIds_ok (all := all) ns (i + 1)
    have hn : ntok (.path (a :: ns)) = 1 + 2 * ns.length := by simp [ntok, yield, pathToks_length]
    have hlen : 0 < ns.length := List.length_pos_iff.mpr hns
    have hend : endP (placeG (pe all) (.path (a :: ns)) i).1 = (tokAt all (i + ntok (.path (a :: ns)) - 1)).end := by
      simp only [placeG, endP]
      rw [h4, if_neg hns, hn]
      congr 2; omega
    refine ⟨by simp [placeG, posP, identAt], hend, by omega, ?_⟩
    intro d n hn'
    simp only [placeG, nodesP, List.mem_cons] at hn'
    rcases hn' with rfl | hn'
    · refine NodeIn.head (by omega) (by simp [posP, identAt]) ?_ ((i, i + 1) :: idx) ?_ ?_
      · simp only [placeG] at hend; exact hend
      · simp only [List.map_cons, h1]; rfl
      · simp only [Chain]
        exact ⟨Nat.le_refl _, by omega, h2.mono (Nat.le_refl _) (by omega)⟩
    · simp only [List.map_cons, List.mem_cons] at hn'
      rcases hn' with rfl | hn'
      · exact (identNode_in (d + 1) i a).mono (Nat.le_refl _) (by omega)
      · exact (h3 (d + 1) n hn').mono (by omega) (by omega)
  | .paren e, i, hpre, hnf => by
    simp only [yield, Pre_cons', Pre_append, Pre_nil, and_true, yield_length] at hpre
    obtain ⟨_, he, hrp⟩ := hpre
    have IH := place_ok e (i + 1) he (by simpa [nf] using hnf)
    have hs := placeG_snd (pe all) e (i + 1)
    have hend : endP (placeG (pe all) (.paren e) i).1 = (tokAt all (i + ntok (.paren e) - 1)).end := by
      simp only [placeG, endP, hs, pe_fst, ntok_paren]
      rw [show i + (ntok e + 2) - 1 = i + 1 + ntok e by omega, tok_rparen hT hrp]
    refine ⟨by simp [placeG, posP], hend, by rw [ntok_paren]; omega, ?_⟩
    intro d n hn
    simp only [placeG, nodesP, List.mem_cons] at hn
    rcases hn with rfl | hn
    · refine NodeIn.head (by rw [ntok_paren]; omega) (by simp) ?_ [(i + 1, i + 1 + ntok e)] (by simp [IH.span]) ?_
      · simp only [placeG, endP] at hend; exact hend
      · exact chain1 (by omega) (by have := IH.npos; omega) (by rw [ntok_paren]; omega)
    · exact (IH.nodes (d + 1) n hn).mono (by omega) (by rw [ntok_paren]; omega)
  | .unary op e, i, hpre, hnf => by
    simp only [yield, Pre_cons', yield_length] at hpre
    obtain ⟨_, he⟩ := hpre
    have IH := place_ok e (i + 1) he (by simp only [nf, Bool.and_eq_true] at hnf; exact hnf.1)
    have hend : endP (placeG (pe all) (.unary op e) i).1 = (tokAt all (i + ntok (.unary op e) - 1)).end := by
      simp only [placeG, endP, IH.end_, ntok_unary]
      congr 2; have := IH.npos; omega
    refine ⟨by simp [placeG, posP], hend, by rw [ntok_unary]; omega, ?_⟩
    intro d n hn
    simp only [placeG, nodesP, List.mem_cons] at hn
    rcases hn with rfl | hn
    · refine NodeIn.head (by rw [ntok_unary]; omega) (by simp) ?_ [(i + 1, i + 1 + ntok e)] (by simp [IH.span]) ?_
      · simp only [placeG, endP] at hend; exact hend
      · exact chain1 (by omega) (by have := IH.npos; omega) (by rw [ntok_unary]; omega)
    · exact (IH.nodes (d + 1) n hn).mono (by omega) (by rw [ntok_unary]; omega)
  | .bin op l r, i, hpre, hnf => by
    simp only [yield, Pre_append, yield_length] at hpre
    obtain ⟨hl, _, hr⟩ := hpre
    simp only [nf, Bool.and_eq_true] at hnf
    have IHl := place_ok l i hl hnf.1
    have IHr := place_ok r (i + ntok l + op.toks.length) hr hnf.2
    have hs := placeG_snd (pe all) l i
    have hend : endP (placeG (pe all) (.bin op l r) i).1 = (tokAt all (i + ntok (.bin op l r) - 1)).end := by
      simp only [placeG, endP, hs, IHr.end_, ntok_bin]
      congr 2; omega
    refine ⟨by simp only [placeG, posP]; exact IHl.pos, hend, by rw [ntok_bin]; have := IHl.npos; omega, ?_⟩
    intro d n hn
    simp only [placeG, nodesP, List.mem_cons, List.mem_append, hs] at hn
    rcases hn with rfl | hn | hn
    · refine NodeIn.head (by rw [ntok_bin]; have := IHl.npos; omega) (by simp only [hs]; exact IHl.pos) ?_
        [(i, i + ntok l), (i + ntok l + op.toks.length, i + ntok l + op.toks.length + ntok r)]
        (by simp [IHl.span, IHr.span, hs]) ?_
      · simp only [placeG, endP, hs] at hend; exact hend
      · exact chain2 (Nat.le_refl _) (by have := IHl.npos; omega) (by omega) (by have := IHr.npos; omega)
          (by rw [ntok_bin]; omega)
    · exact (IHl.nodes (d + 1) n hn).mono (Nat.le_refl _) (by rw [ntok_bin]; omega)
    · exact (IHr.nodes (d + 1) n hn).mono (by omega) (by rw [ntok_bin]; omega)
  | .isNull e nt, i, hpre, hnf => by
    simp only [yield, Pre_cons', Pre_append, Pre_nil, and_true, yield_length, notToks_length] at hpre
    obtain ⟨he, _, _, hnull⟩ := hpre
    have IH := place_ok e i he (by simpa [nf] using hnf)
    have hs := placeG_snd (pe all) e i
    have hend : endP (placeG (pe all) (.isNull e nt) i).1 = (tokAt all (i + ntok (.isNull e nt) - 1)).end := by
      simp only [placeG, endP, hs, pe_fst, ntok_isNull]
      rw [show i + (ntok e + 1 + nb nt + 1) - 1 = i + ntok e + 1 + nb nt by omega, tok_null hT hnull]
    refine ⟨by simp only [placeG, posP]; exact IH.pos, hend, by rw [ntok_isNull]; omega, ?_⟩
    intro d n hn
    simp only [placeG, nodesP, List.mem_cons] at hn
    rcases hn with rfl | hn
    · refine NodeIn.head (by rw [ntok_isNull]; omega) (by simp only; exact IH.pos) ?_ [(i, i + ntok e)]
        (by simp [IH.span]) ?_
      · simp only [placeG, endP] at hend; exact hend
      · exact chain1 (Nat.le_refl _) (by have := IH.npos; omega) (by rw [ntok_isNull]; omega)
    · exact (IH.nodes (d + 1) n hn).mono (Nat.le_refl _) (by rw [ntok_isNull]; omega)
  | .isBool e nt b, i, hpre, hnf => by
    simp only [yield, Pre_cons', Pre_append, Pre_nil, and_true, yield_length, notToks_length] at hpre
    obtain ⟨he, _, _, hb⟩ := hpre
    have IH := place_ok e i he (by simpa [nf] using hnf)
    have hs := placeG_snd (pe all) e i
    have hend : endP (placeG (pe all) (.isBool e nt b) i).1 = (tokAt all (i + ntok (.isBool e nt b) - 1)).end := by
      simp only [placeG, endP, hs, pe_fst, ntok_isBool]
      rw [show i + (ntok e + 1 + nb nt + 1) - 1 = i + ntok e + 1 + nb nt by omega, tok_bool hT hb]
    refine ⟨by simp only [placeG, posP]; exact IH.pos, hend, by rw [ntok_isBool]; omega, ?_⟩
    intro d n hn
    simp only [placeG, nodesP, List.mem_cons] at hn
    rcases hn with rfl | hn
    · refine NodeIn.head (by rw [ntok_isBool]; omega) (by simp only; exact IH.pos) ?_ [(i, i + ntok e)]
        (by simp [IH.span]) ?_
      · simp only [placeG, endP] at hend; exact hend
      · exact chain1 (Nat.le_refl _) (by have := IH.npos; omega) (by rw [ntok_isBool]; omega)
    · exact (IH.nodes (d + 1) n hn).mono (Nat.le_refl _) (by rw [ntok_isBool]; omega)
  | .between nt e lo hi, i, hpre, hnf => by
    simp only [yield, Pre_cons', Pre_append, yield_length, notToks_length] at hpre
    obtain ⟨he, _, _, hlo, _, hhi⟩ := hpre
    simp only [nf, Bool.and_eq_true] at hnf
    have IHe := place_ok e i he hnf.1.1
    have IHlo := place_ok lo (i + ntok e + nb nt + 1) hlo hnf.1.2
    have IHhi := place_ok hi (i + ntok e + nb nt + 1 + ntok lo + 1) hhi hnf.2
    have hse := placeG_snd (pe all) e i
    have hslo := placeG_snd (pe all) lo (i + ntok e + nb nt + 1)
    have hend : endP (placeG (pe all) (.between nt e lo hi) i).1 =
        (tokAt all (i + ntok (.between nt e lo hi) - 1)).end := by
      simp only [placeG, endP, hse, hslo, IHhi.end_, ntok_between]
      congr 2; omega
    have hpos := IHe.npos; have hpos2 := IHlo.npos; have hpos3 := IHhi.npos
    refine ⟨by simp only [placeG, posP]; exact IHe.pos, hend, by rw [ntok_between]; omega, ?_⟩
    intro d n hn
    simp only [placeG, nodesP, List.mem_cons, List.mem_append, hse, hslo] at hn
    rcases hn with rfl | hn | hn | hn
    · refine NodeIn.head (by rw [ntok_between]; omega) (by simp only [hse]; exact IHe.pos) ?_
        [(i, i + ntok e), (i + ntok e + nb nt + 1, i + ntok e + nb nt + 1 + ntok lo),
          (i + ntok e + nb nt + 1 + ntok lo + 1, i + ntok e + nb nt + 1 + ntok lo + 1 + ntok hi)]
        (by simp [IHe.span, IHlo.span, IHhi.span, hse, hslo]) ?_
      · simp only [placeG, endP, hse, hslo] at hend; exact hend
      · exact chain3 (Nat.le_refl _) (by omega) (by omega) (by omega) (by omega) (by omega) (by rw [ntok_between]; omega)
    · exact (IHe.nodes (d + 1) n hn).mono (Nat.le_refl _) (by rw [ntok_between]; omega)
    · exact (IHlo.nodes (d + 1) n hn).mono (by omega) (by rw [ntok_between]; omega)
    · exact (IHhi.nodes (d + 1) n hn).mono (by omega) (by rw [ntok_between]; omega)
  | .inList nt e first more, i, hpre, hnf => by
    simp only [yield, Pre_cons', Pre_append, Pre_nil, and_true, yield_length, yields_length, notToks_length] at hpre
    obtain ⟨he, _, _, _, hf, hm, hrp⟩ := hpre
    simp only [nf, Bool.and_eq_true] at hnf
    have IHe := place_ok e i he hnf.1.1
    have IHf := place_ok first (i + ntok e + nb nt + 1 + 1) hf hnf.1.2
    have IHm := places_ok more (i + ntok e + nb nt + 1 + 1 + ntok first) hm hnf.2
    have hse := placeG_snd (pe all) e i
    have hsf := placeG_snd (pe all) first (i + ntok e + nb nt + 1 + 1)
    have hsm := placesG_snd (pe all) more (i + ntok e + nb nt + 1 + 1 + ntok first)
    have hrpe := tok_rparen hT hrp
    have hend : endP (placeG (pe all) (.inList nt e first more) i).1 =
        (tokAt all (i + ntok (.inList nt e first more) - 1)).end := by
      simp only [placeG, endP, hse, hsf, hsm, pe_fst, ntok_inList]
      rw [show i + (ntok e + nb nt + 1 + 1 + ntok first + ntoks more + 1) - 1 =
        i + ntok e + nb nt + 1 + 1 + ntok first + ntoks more by omega, hrpe]
    have hpos := IHe.npos; have hpos2 := IHf.npos
    obtain ⟨idx, hidx, hchain⟩ := IHm.spans
    have hcl := hchain.le
    refine ⟨by simp only [placeG, posP]; exact IHe.pos, hend, by rw [ntok_inList]; omega, ?_⟩
    intro d n hn
    simp only [placeG, nodesP, List.mem_cons, List.mem_append, hse, hsf, hsm] at hn
    rcases hn with rfl | hn | rfl | hn | hn
    · refine NodeIn.head (by rw [ntok_inList]; omega) (by simp only [hse]; exact IHe.pos) ?_
        [(i, i + ntok e), (i + ntok e + nb nt + 1, i + ntok e + nb nt + 1 + 1 + ntok first + ntoks more + 1)]
        ?_ ?_
      · simp only [placeG, endP, hse, hsf, hsm] at hend; exact hend
      · simp only [List.map_cons, List.map_nil, IHe.span, spanOf, pe_fst, Nat.add_sub_cancel, hrpe]
      · exact chain2 (Nat.le_refl _) (by omega) (by omega) (by omega) (by rw [ntok_inList]; omega)
    · exact (IHe.nodes (d + 1) n hn).mono (Nat.le_refl _) (by rw [ntok_inList]; omega)
    · refine ⟨i + ntok e + nb nt + 1, i + ntok e + nb nt + 1 + 1 + ntok first + ntoks more + 1, by omega, by omega,
        by rw [ntok_inList]; omega, by simp, by simp only [pe_fst, Nat.add_sub_cancel, hrpe],
        (i + ntok e + nb nt + 1 + 1, i + ntok e + nb nt + 1 + 1 + ntok first) :: idx, ?_, ?_⟩
      · simp only [List.map_cons, IHf.span, hidx]
      · simp only [Chain]
        exact ⟨by omega, by omega, hchain.mono (Nat.le_refl _) (by omega)⟩
    · exact (IHf.nodes (d + 2) n hn).mono (by omega) (by rw [ntok_inList]; omega)
    · exact (IHm.nodes (d + 2) n hn).mono (by omega) (by rw [ntok_inList]; omega)
  | .inUnnest nt e a, i, hpre, hnf => by
    simp only [yield, Pre_cons', Pre_append, Pre_nil, and_true, yield_length, notToks_length] at hpre
    obtain ⟨he, _, _, _, _, ha, hrp⟩ := hpre
    simp only [nf, Bool.and_eq_true] at hnf
    have IHe := place_ok e i he hnf.1
    have IHa := place_ok a (i + ntok e + nb nt + 1 + 1 + 1) ha hnf.2
    have hse := placeG_snd (pe all) e i
    have hsa := placeG_snd (pe all) a (i + ntok e + nb nt + 1 + 2)
    have hrpe := tok_rparen hT hrp
    have e3 : i + ntok e + nb nt + 1 + 1 + 1 = i + ntok e + nb nt + 1 + 2 := by omega
    rw [e3] at IHa hrpe
    have hend : endP (placeG (pe all) (.inUnnest nt e a) i).1 =
        (tokAt all (i + ntok (.inUnnest nt e a) - 1)).end := by
      simp only [placeG, endP, hse, hsa, pe_fst, ntok_inUnnest]
      rw [show i + (ntok e + nb nt + 1 + 2 + ntok a + 1) - 1 = i + ntok e + nb nt + 1 + 2 + ntok a by omega, hrpe]
    have hpos := IHe.npos; have hpos2 := IHa.npos
    refine ⟨by simp only [placeG, posP]; exact IHe.pos, hend, by rw [ntok_inUnnest]; omega, ?_⟩
    intro d n hn
    simp only [placeG, nodesP, List.mem_cons, List.mem_append, hse, hsa] at hn
    rcases hn with rfl | hn | rfl | hn
    · refine NodeIn.head (by rw [ntok_inUnnest]; omega) (by simp only [hse]; exact IHe.pos) ?_
        [(i, i + ntok e), (i + ntok e + nb nt + 1, i + ntok e + nb nt + 1 + 2 + ntok a + 1)] ?_ ?_
      · simp only [placeG, endP, hse, hsa] at hend; exact hend
      · simp only [List.map_cons, List.map_nil, IHe.span, spanOf, pe_fst, Nat.add_sub_cancel, hrpe]
      · exact chain2 (Nat.le_refl _) (by omega) (by omega) (by omega) (by rw [ntok_inUnnest]; omega)
    · exact (IHe.nodes (d + 1) n hn).mono (Nat.le_refl _) (by rw [ntok_inUnnest]; omega)
    · refine ⟨i + ntok e + nb nt + 1, i + ntok e + nb nt + 1 + 2 + ntok a + 1, by omega, by omega,
        by rw [ntok_inUnnest]; omega, by simp, by simp only [pe_fst, Nat.add_sub_cancel, hrpe],
        [(i + ntok e + nb nt + 1 + 2, i + ntok e + nb nt + 1 + 2 + ntok a)], ?_, ?_⟩
      · simp only [List.map_cons, List.map_nil, IHa.span]
      · exact chain1 (by omega) (by omega) (by omega)
    · exact (IHa.nodes (d + 2) n hn).mono (by omega) (by rw [ntok_inUnnest]; omega)
  | .sel e nm, i, hpre, hnf => by
    simp only [yield, Pre_append, yield_length] at hpre
    obtain ⟨he, _⟩ := hpre
    simp only [nf, Bool.and_eq_true] at hnf
    have IH := place_ok e i he hnf.1
    have hs := placeG_snd (pe all) e i
    have hend : endP (placeG (pe all) (.sel e nm) i).1 = (tokAt all (i + ntok (.sel e nm) - 1)).end := by
      simp only [placeG, endP, hs, identAt, pe_snd, ntok_sel]
      congr 2
    have hpos := IH.npos
    refine ⟨by simp only [placeG, posP]; exact IH.pos, hend, by rw [ntok_sel]; omega, ?_⟩
    intro d n hn
    simp only [placeG, nodesP, List.mem_cons, List.mem_append, List.not_mem_nil, or_false, hs] at hn
    rcases hn with rfl | hn | rfl
    · refine NodeIn.head (by rw [ntok_sel]; omega) (by simp only [hs]; exact IH.pos) ?_
        [(i, i + ntok e), (i + ntok e + 1, i + ntok e + 1 + 1)] ?_ ?_
      · simp only [placeG, endP, hs] at hend; exact hend
      · simp [IH.span, hs, PIdent.span, identAt, spanOf]
      · exact chain2 (Nat.le_refl _) (by omega) (by omega) (by omega) (by rw [ntok_sel]; omega)
    · exact (IH.nodes (d + 1) n hn).mono (Nat.le_refl _) (by rw [ntok_sel]; omega)
    · exact (identNode_in (d + 1) (i + ntok e + 1) nm).mono (by omega) (by rw [ntok_sel]; omega)
  | .index e none ix, i, hpre, hnf => by
    simp only [yield, Pre_cons', Pre_append, Pre_nil, and_true, yield_length] at hpre
    obtain ⟨he, _, hix, hrb⟩ := hpre
    simp only [nf, Bool.and_eq_true] at hnf
    have IHe := place_ok e i he hnf.1
    have IHx := place_ok ix (i + ntok e + 1) hix hnf.2
    have hse := placeG_snd (pe all) e i
    have hsx := placeG_snd (pe all) ix (i + ntok e + 1)
    have hrbe := tok_rbrack hT hrb
    have hend : endP (placeG (pe all) (.index e none ix) i).1 = (tokAt all (i + ntok (.index e none ix) - 1)).end := by
      simp only [placeG, endP, hse, hsx, pe_fst, ntok_index_none]
      rw [show i + (ntok e + 1 + ntok ix + 1) - 1 = i + ntok e + 1 + ntok ix by omega, hrbe]
    have hpos := IHe.npos; have hpos2 := IHx.npos
    refine ⟨by simp only [placeG, posP]; exact IHe.pos, hend, by rw [ntok_index_none]; omega, ?_⟩
    intro d n hn
    simp only [placeG, nodesP, List.mem_cons, List.mem_append, hse, hsx] at hn
    rcases hn with rfl | hn | rfl | hn
    · refine NodeIn.head (by rw [ntok_index_none]; omega) (by simp only [hse]; exact IHe.pos) ?_
        [(i, i + ntok e), (i + ntok e + 1, i + ntok e + 1 + ntok ix)] (by simp [IHe.span, IHx.span, hse]) ?_
      · simp only [placeG, endP, hse, hsx] at hend; exact hend
      · exact chain2 (Nat.le_refl _) (by omega) (by omega) (by omega) (by rw [ntok_index_none]; omega)
    · exact (IHe.nodes (d + 1) n hn).mono (Nat.le_refl _) (by rw [ntok_index_none]; omega)
    · refine ⟨i + ntok e + 1, i + ntok e + 1 + ntok ix, by omega, by omega, by rw [ntok_index_none]; omega,
        by simp only [hse]; exact IHx.pos, by simp only [hse]; exact IHx.end_,
        [(i + ntok e + 1, i + ntok e + 1 + ntok ix)], by simp [IHx.span, hse], chain1 (Nat.le_refl _) (by omega) (Nat.le_refl _)⟩
    · exact (IHx.nodes (d + 2) n hn).mono (by omega) (by rw [ntok_index_none]; omega)
  | .index e (some (k, sp)) ix, i, hpre, hnf => by
    simp only [yield, Pre_cons', Pre_append, Pre_nil, and_true, yield_length] at hpre
    obtain ⟨he, _, _, _, hix, hrp, hrb⟩ := hpre
    simp only [nf, Bool.and_eq_true] at hnf
    have e3 : i + ntok e + 1 + 1 + 1 = i + ntok e + 3 := by omega
    rw [e3] at hix hrp hrb
    have IHe := place_ok e i he hnf.1.1
    have IHx := place_ok ix (i + ntok e + 3) hix hnf.1.2
    have hse := placeG_snd (pe all) e i
    have hsx := placeG_snd (pe all) ix (i + ntok e + 3)
    have hrpe := tok_rparen hT hrp
    have hrbe := tok_rbrack hT hrb
    have hend : endP (placeG (pe all) (.index e (some (k, sp)) ix) i).1 =
        (tokAt all (i + ntok (.index e (some (k, sp)) ix) - 1)).end := by
      simp only [placeG, endP, hse, hsx, pe_fst, ntok_index_some]
      rw [show i + (ntok e + 3 + ntok ix + 2) - 1 = i + ntok e + 3 + ntok ix + 1 by omega, hrbe]
    have hpos := IHe.npos; have hpos2 := IHx.npos
    refine ⟨by simp only [placeG, posP]; exact IHe.pos, hend, by rw [ntok_index_some]; omega, ?_⟩
    intro d n hn
    simp only [placeG, nodesP, List.mem_cons, List.mem_append, hse, hsx] at hn
    rcases hn with rfl | hn | rfl | hn
    · refine NodeIn.head (by rw [ntok_index_some]; omega) (by simp only [hse]; exact IHe.pos) ?_
        [(i, i + ntok e), (i + ntok e + 1, i + ntok e + 3 + ntok ix + 1)] ?_ ?_
      · simp only [placeG, endP, hse, hsx] at hend; exact hend
      · simp only [List.map_cons, List.map_nil, IHe.span, spanOf, pe_fst, Nat.add_sub_cancel, hrpe]
      · exact chain2 (Nat.le_refl _) (by omega) (by omega) (by omega) (by rw [ntok_index_some]; omega)
    · exact (IHe.nodes (d + 1) n hn).mono (Nat.le_refl _) (by rw [ntok_index_some]; omega)
    · refine ⟨i + ntok e + 1, i + ntok e + 3 + ntok ix + 1, by omega, by omega, by rw [ntok_index_some]; omega,
        by simp, by simp only [pe_fst, Nat.add_sub_cancel, hrpe],
        [(i + ntok e + 3, i + ntok e + 3 + ntok ix)], by simp [IHx.span], chain1 (by omega) (by omega) (by omega)⟩
    · exact (IHx.nodes (d + 2) n hn).mono (by omega) (by rw [ntok_index_some]; omega)
  | .ifE c t e, i, hpre, hnf => by
    simp only [yield, Pre_cons', Pre_append, Pre_nil, and_true, yield_length] at hpre
    obtain ⟨_, _, hc, _, ht, _, he, hrp⟩ := hpre
    simp only [nf, Bool.and_eq_true] at hnf
    have e2 : i + 1 + 1 = i + 2 := by omega
    rw [e2] at hc ht he hrp
    have IHc := place_ok c (i + 2) hc hnf.1.1
    have IHt := place_ok t (i + 2 + ntok c + 1) ht hnf.1.2
    have IHe := place_ok e (i + 2 + ntok c + 1 + ntok t + 1) he hnf.2
    have hsc := placeG_snd (pe all) c (i + 2)
    have hst := placeG_snd (pe all) t (i + 2 + ntok c + 1)
    have hse := placeG_snd (pe all) e (i + 2 + ntok c + 1 + ntok t + 1)
    have hrpe := tok_rparen hT hrp
    have hend : endP (placeG (pe all) (.ifE c t e) i).1 = (tokAt all (i + ntok (.ifE c t e) - 1)).end := by
      simp only [placeG, endP, hsc, hst, hse, pe_fst, ntok_ifE]
      rw [show i + (2 + ntok c + 1 + ntok t + 1 + ntok e + 1) - 1 = i + 2 + ntok c + 1 + ntok t + 1 + ntok e by omega, hrpe]
    have hp1 := IHc.npos; have hp2 := IHt.npos; have hp3 := IHe.npos
    refine ⟨by simp [placeG, posP], hend, by rw [ntok_ifE]; omega, ?_⟩
    intro d n hn
    simp only [placeG, nodesP, List.mem_cons, List.mem_append, hsc, hst, hse] at hn
    rcases hn with rfl | hn | hn | hn
    · refine NodeIn.head (by rw [ntok_ifE]; omega) (by simp) ?_
        [(i + 2, i + 2 + ntok c), (i + 2 + ntok c + 1, i + 2 + ntok c + 1 + ntok t),
          (i + 2 + ntok c + 1 + ntok t + 1, i + 2 + ntok c + 1 + ntok t + 1 + ntok e)]
        (by simp [IHc.span, IHt.span, IHe.span, hsc, hst]) ?_
      · simp only [placeG, endP, hsc, hst, hse] at hend; exact hend
      · exact chain3 (by omega) (by omega) (by omega) (by omega) (by omega) (by omega) (by rw [ntok_ifE]; omega)
    · exact (IHc.nodes (d + 1) n hn).mono (by omega) (by rw [ntok_ifE]; omega)
    · exact (IHt.nodes (d + 1) n hn).mono (by omega) (by rw [ntok_ifE]; omega)
    · exact (IHe.nodes (d + 1) n hn).mono (by omega) (by rw [ntok_ifE]; omega)
  | .cast e [], i, _, hnf => by simp [nf, nfT] at hnf
  | .cast e (a :: ns), i, hpre, hnf => by
    simp only [yield, Pre_cons', Pre_append, Pre_nil, and_true, yield_length] at hpre
    obtain ⟨_, _, he, _, _, hrp⟩ := hpre
    simp only [nf, Bool.and_eq_true] at hnf
    have e2 : i + 1 + 1 = i + 2 := by omega
    rw [e2] at he hrp
    have hL : (pathToks (a :: ns)).length = 1 + 2 * ns.length := pathToks_length a ns
    rw [hL] at hrp
    have IHe := place_ok e (i + 2) he hnf.1
    have hse := placeG_snd (pe all) e (i + 2)
    have hsp := placePath_snd (pe all) (a :: ns) (i + 2 + ntok e + 1)
    rw [hL] at hsp
    obtain ⟨hpp, hpe, hpn⟩ := placePath_ok (all := all) a ns (i + 2 + ntok e + 1) 0
    have hrpe := tok_rparen hT hrp
    have hend : endP (placeG (pe all) (.cast e (a :: ns)) i).1 = (tokAt all (i + ntok (.cast e (a :: ns)) - 1)).end := by
      simp only [placeG, endP, hse, hsp, pe_fst, ntok_cast, hL]
      rw [show i + (2 + ntok e + 1 + (1 + 2 * ns.length) + 1) - 1 = i + 2 + ntok e + 1 + (1 + 2 * ns.length) by omega, hrpe]
    have hp1 := IHe.npos
    refine ⟨by simp [placeG, posP], hend, by rw [ntok_cast]; omega, ?_⟩
    intro d n hn
    simp only [placeG, nodesP, List.mem_cons, List.mem_append, hse, hsp] at hn
    rcases hn with rfl | hn | hn
    · refine NodeIn.head (by rw [ntok_cast]; omega) (by simp) ?_
        [(i + 2, i + 2 + ntok e), (i + 2 + ntok e + 1, i + 2 + ntok e + 1 + (1 + 2 * ns.length))] ?_ ?_
      · simp only [placeG, endP, hse, hsp] at hend; exact hend
      · simp only [List.map_cons, List.map_nil, IHe.span, spanOf, hpp, hpe]
      · exact chain2 (by omega) (by omega) (by omega) (by omega) (by rw [ntok_cast, hL]; omega)
    · exact (IHe.nodes (d + 1) n hn).mono (by omega) (by rw [ntok_cast]; omega)
    · exact ((placePath_ok (all := all) a ns (i + 2 + ntok e + 1) (d + 1)).2.2 n hn).mono (by omega)
        (by rw [ntok_cast, hL]; omega)
  | .array .nil, i, hpre, _ => by
    simp only [yield, Pre_cons', Pre_nil, and_true] at hpre
    obtain ⟨_, hrb⟩ := hpre
    have hrbe := tok_rbrack hT hrb
    have hend : endP (placeG (pe all) (.array .nil) i).1 = (tokAt all (i + ntok (.array .nil) - 1)).end := by
      simp only [placeG, endP, pe_fst, ntok_arr_nil]
      rw [show i + 2 - 1 = i + 1 by omega, hrbe]
    refine ⟨by simp [placeG, posP], hend, by rw [ntok_arr_nil]; omega, ?_⟩
    intro d n hn
    simp only [placeG, nodesP, nodesPs, List.mem_cons, List.not_mem_nil, or_false, List.append_nil] at hn
    subst hn
    refine NodeIn.head (by rw [ntok_arr_nil]; omega) (by simp) ?_ [] (by simp [spansP]) (by simp only [Chain]; omega)
    simp only [placeG, endP] at hend; exact hend
  | .array (.cons e es), i, hpre, hnf => by
    simp only [yield, Pre_cons', Pre_append, Pre_nil, and_true, yield_length, yields_length] at hpre
    obtain ⟨_, he, hes, hrb⟩ := hpre
    simp only [nf, nfs, Bool.and_eq_true] at hnf
    have IHe := place_ok e (i + 1) he hnf.1
    have IHs := places_ok es (i + 1 + ntok e) hes hnf.2
    have hse := placeG_snd (pe all) e (i + 1)
    have hss := placesG_snd (pe all) es (i + 1 + ntok e)
    have hrbe := tok_rbrack hT hrb
    have hend : endP (placeG (pe all) (.array (.cons e es)) i).1 =
        (tokAt all (i + ntok (.array (.cons e es)) - 1)).end := by
      simp only [placeG, endP, hse, hss, pe_fst, ntok_arr_cons]
      rw [show i + (1 + ntok e + ntoks es + 1) - 1 = i + 1 + ntok e + ntoks es by omega, hrbe]
    have hp1 := IHe.npos
    obtain ⟨idx, hidx, hchain⟩ := IHs.spans
    have hcl := hchain.le
    refine ⟨by simp [placeG, posP], hend, by rw [ntok_arr_cons]; omega, ?_⟩
    intro d n hn
    simp only [placeG, nodesP, nodesPs, List.mem_cons, List.mem_append, hse, hss] at hn
    rcases hn with rfl | hn | hn
    · refine NodeIn.head (by rw [ntok_arr_cons]; omega) (by simp) ?_ ((i + 1, i + 1 + ntok e) :: idx) ?_ ?_
      · simp only [placeG, endP, hse, hss] at hend; exact hend
      · simp only [spansP, List.map_cons, IHe.span, hidx]
      · simp only [Chain]
        exact ⟨by omega, by omega, hchain.mono (Nat.le_refl _) (by rw [ntok_arr_cons]; omega)⟩
    · exact (IHe.nodes (d + 1) n hn).mono (by omega) (by rw [ntok_arr_cons]; omega)
    · exact (IHs.nodes (d + 1) n hn).mono (by omega) (by rw [ntok_arr_cons]; omega)
  | .caseE o c t ws el, i, hpre, hnf => by
    simp only [yield, Pre_cons', Pre_append, Pre_nil, and_true, yield_length] at hpre
    obtain ⟨_, hO, _, hc, _, ht, hW, hE, hend_⟩ := hpre
    simp only [nf, Bool.and_eq_true] at hnf
    have lO : (yieldO [] o).length = ntokO [] o := rfl
    have lW : (yieldW ws).length = ntokW ws := rfl
    have lE : (yieldO [T .else_] el).length = ntokO [T .else_] el := rfl
    rw [lO] at hc ht hW hE hend_
    rw [lW] at hE hend_
    rw [lE] at hend_
    have IHo := placeo_ok false o (i + 1) hO hnf.1.1.1.1
    have IHc := place_ok c (i + 1 + ntokO [] o + 1) hc hnf.1.1.1.2
    have IHt := place_ok t (i + 1 + ntokO [] o + 1 + ntok c + 1) ht hnf.1.1.2
    have IHw := placew_ok ws (i + 1 + ntokO [] o + 1 + ntok c + 1 + ntok t) hW hnf.1.2
    have IHe := placeo_ok true el (i + 1 + ntokO [] o + 1 + ntok c + 1 + ntok t + ntokW ws) hE hnf.2
    have hso := placeO_snd (pe all) false o (i + 1)
    have hsc := placeG_snd (pe all) c (i + 1 + ntokO [] o + 1)
    have hst := placeG_snd (pe all) t (i + 1 + ntokO [] o + 1 + ntok c + 1)
    have hsw := placeW_snd (pe all) ws (i + 1 + ntokO [] o + 1 + ntok c + 1 + ntok t)
    have hse := placeO_snd (pe all) true el (i + 1 + ntokO [] o + 1 + ntok c + 1 + ntok t + ntokW ws)
    simp only [Bool.false_eq_true, if_false, if_true] at hso hse
    have hende := tok_end hT hend_
    have hend : endP (placeG (pe all) (.caseE o c t ws el) i).1 = (tokAt all (i + ntok (.caseE o c t ws el) - 1)).end := by
      simp only [placeG, endP, hso, hsc, hst, hsw, hse, pe_fst, ntok_caseE]
      rw [show i + (1 + ntokO [] o + 1 + ntok c + 1 + ntok t + ntokW ws + ntokO [T .else_] el + 1) - 1 =
        i + 1 + ntokO [] o + 1 + ntok c + 1 + ntok t + ntokW ws + ntokO [T .else_] el by omega, hende]
    have hp1 := IHc.npos; have hp2 := IHt.npos
    obtain ⟨idxO, hidxO, hchO⟩ := IHo.spans
    obtain ⟨idxW, hidxW, hchW⟩ := IHw.spans
    obtain ⟨idxE, hidxE, hchE⟩ := IHe.spans
    have hlO := hchO.le; have hlW := hchW.le; have hlE := hchE.le
    simp only [preKw, Bool.false_eq_true, if_false, if_true] at hchO hchE hlO hlE
    refine ⟨by simp [placeG, posP], hend, by rw [ntok_caseE]; omega, ?_⟩
    intro d n hn
    simp only [placeG, nodesP, List.mem_cons, List.mem_append, hso, hsc, hst, hsw, hse] at hn
    rcases hn with rfl | hn | hn | hn | hn | hn | hn
    · refine NodeIn.head (by rw [ntok_caseE]; omega) (by simp) ?_
        (idxO ++ ((i + 1 + ntokO [] o, i + 1 + ntokO [] o + 1 + ntok c + 1 + ntok t) :: (idxW ++ idxE))) ?_ ?_
      · simp only [placeG, endP, hso, hsc, hst, hsw, hse] at hend; exact hend
      · simp only [hidxO, hidxW, hidxE, List.map_append, List.map_cons, spanOf, pe_fst, IHt.end_]
      · refine (hchO.mono (by omega) (Nat.le_refl _)).append ?_
        simp only [Chain]
        refine ⟨Nat.le_refl _, by omega, hchW.append (hchE.mono (Nat.le_refl _) (by rw [ntok_caseE]; omega))⟩
    · exact (IHo.nodes (d + 1) n hn).mono (by omega) (by rw [ntok_caseE]; simp only [preKw]; simp; omega)
    · exact (when_ok IHc IHt n (by simp only [List.mem_cons, List.mem_append, pe_fst]; exact Or.inl hn)).mono (by omega)
        (by rw [ntok_caseE]; omega)
    · exact (when_ok IHc IHt n (by simp only [List.mem_cons, List.mem_append]; exact Or.inr (Or.inl hn))).mono (by omega)
        (by rw [ntok_caseE]; omega)
    · exact (when_ok IHc IHt n (by simp only [List.mem_cons, List.mem_append]; exact Or.inr (Or.inr hn))).mono (by omega)
        (by rw [ntok_caseE]; omega)
    · exact (IHw.nodes (d + 1) n hn).mono (by omega) (by rw [ntok_caseE]; omega)
    · exact (IHe.nodes (d + 1) n hn).mono (by omega) (by rw [ntok_caseE]; simp only [preKw]; simp; omega)
theorem places_ok : (es : Exprs) → (i : Nat) → Pre all i (yields es) → nfs es = true → PlacesOK all es i
  | .nil, i, _, _ => ⟨⟨[], by simp [placesG, spansP], by simp [Chain]⟩, by simp [placesG, nodesPs]⟩
  | .cons e es, i, hpre, hnf => by
    simp only [yields, Pre_cons', Pre_append, yield_length] at hpre
    obtain ⟨_, he, hes⟩ := hpre
    simp only [nfs, Bool.and_eq_true] at hnf
    have IHe := place_ok e (i + 1) he hnf.1
    have IHs := places_ok es (i + 1 + ntok e) hes hnf.2
    have hs := placeG_snd (pe all) e (i + 1)
    obtain ⟨idx, hidx, hchain⟩ := IHs.spans
    have hpos := IHe.npos
    refine ⟨⟨(i + 1, i + 1 + ntok e) :: idx, ?_, ?_⟩, ?_⟩
    · simp only [placesG, spansP, hs, List.map_cons, IHe.span, hidx]
    · simp only [Chain, ntoks_cons]
      exact ⟨by omega, by omega, hchain.mono (Nat.le_refl _) (by omega)⟩
    · intro d n hn
      simp only [placesG, nodesPs, List.mem_append, hs] at hn
      rcases hn with hn | hn
      · exact (IHe.nodes d n hn).mono (by omega) (by rw [ntoks_cons]; omega)
      · exact (IHs.nodes d n hn).mono (by omega) (by rw [ntoks_cons]; omega)
theorem placew_ok : (ws : Whens) → (i : Nat) → Pre all i (yieldW ws) → nfw ws = true → PlaceWOK all ws i
  | .nil, i, _, _ => ⟨⟨[], by simp [placeW, spansW], by simp [Chain]⟩, by simp [placeW, nodesPW]⟩
  | .cons c t ws, i, hpre, hnf => by
    simp only [yieldW, Pre_cons', Pre_append, yield_length] at hpre
    obtain ⟨_, hc, _, ht, hW⟩ := hpre
    simp only [nfw, Bool.and_eq_true] at hnf
    have IHc := place_ok c (i + 1) hc hnf.1.1
    have IHt := place_ok t (i + 1 + ntok c + 1) ht hnf.1.2
    have IHw := placew_ok ws (i + 1 + ntok c + 1 + ntok t) hW hnf.2
    have hsc := placeG_snd (pe all) c (i + 1)
    have hst := placeG_snd (pe all) t (i + 1 + ntok c + 1)
    obtain ⟨idx, hidx, hchain⟩ := IHw.spans
    have hp1 := IHc.npos; have hp2 := IHt.npos
    refine ⟨⟨(i, i + 1 + ntok c + 1 + ntok t) :: idx, ?_, ?_⟩, ?_⟩
    · simp only [placeW, spansW, hsc, hst, List.map_cons, hidx, spanOf, pe_fst, IHt.end_]
    · simp only [Chain, ntokW_cons]
      exact ⟨Nat.le_refl _, by omega, hchain.mono (Nat.le_refl _) (by omega)⟩
    · intro d n hn
      simp only [placeW, nodesPW, List.mem_cons, List.mem_append, hsc, hst] at hn
      rcases hn with rfl | hn | hn | hn
      · exact (when_ok IHc IHt _ (by simp only [List.mem_cons, pe_fst]; exact Or.inl rfl)).mono (Nat.le_refl _)
          (by rw [ntokW_cons]; omega)
      · exact (when_ok (d := d) IHc IHt n (by simp only [List.mem_cons, List.mem_append]; exact Or.inr (Or.inl hn))).mono
          (Nat.le_refl _) (by rw [ntokW_cons]; omega)
      · exact (when_ok (d := d) IHc IHt n (by simp only [List.mem_cons, List.mem_append]; exact Or.inr (Or.inr hn))).mono
          (Nat.le_refl _) (by rw [ntokW_cons]; omega)
      · exact (IHw.nodes d n hn).mono (by omega) (by rw [ntokW_cons]; omega)
theorem placeo_ok (kw : Bool) : (o : OExpr) → (i : Nat) → Pre all i (yieldO (preKw kw) o) → nfo o = true →
    PlaceOOK all kw o i
  | .none, i, _, _ => ⟨⟨[], by simp [placeO, spanO], by simp [Chain]⟩, by simp [placeO, nodesPO]⟩
  | .some e, i, hpre, hnf => by
    simp only [nfo] at hnf
    cases kw with
    | false =>
      simp only [yieldO, preKw, Bool.false_eq_true, if_false, List.nil_append] at hpre
      have IH := place_ok e i hpre hnf
      have hp := IH.npos
      refine ⟨⟨[(i, i + ntok e)], ?_, ?_⟩, ?_⟩
      · simp only [placeO, spanO, nb, Bool.false_eq_true, if_false, Nat.add_zero, List.map_cons, List.map_nil]
        exact congrArg (fun x => [x]) IH.span
      · simp only [preKw, Bool.false_eq_true, if_false, ntokO_some, List.length_nil, Nat.zero_add]
        exact chain1 (Nat.le_refl _) (by omega) (Nat.le_refl _)
      · intro d n hn
        simp only [placeO, nodesPO, nb, Bool.false_eq_true, if_false, Nat.add_zero] at hn
        simp only [preKw, Bool.false_eq_true, if_false, ntokO_some, List.length_nil, Nat.zero_add]
        exact IH.nodes d n hn
    | true =>
      simp only [yieldO, preKw, if_true, List.cons_append, List.nil_append, Pre_cons'] at hpre
      obtain ⟨_, he⟩ := hpre
      have IH := place_ok e (i + 1) he hnf
      have hp := IH.npos
      refine ⟨⟨[(i, i + 1 + ntok e)], ?_, ?_⟩, ?_⟩
      · simp only [placeO, spanO, nb, if_true, List.map_cons, List.map_nil, spanOf, pe_fst, IH.end_]
      · simp only [preKw, if_true, ntokO_some, List.length_cons, List.length_nil]
        exact chain1 (Nat.le_refl _) (by omega) (by omega)
      · intro d n hn
        simp only [placeO, nodesPO, nb, if_true, List.mem_cons] at hn
        simp only [preKw, if_true, ntokO_some, List.length_cons, List.length_nil]
        rcases hn with rfl | hn
        · refine NodeIn.head (by omega) (by simp) (by simp only [IH.end_]; congr 2; omega) [(i + 1, i + 1 + ntok e)]
            (by simp [IH.span]) (chain1 (by omega) (by omega) (by omega))
        · exact (IH.nodes (d + 1) n hn).mono (by omega) (by omega)
end

end main

end MF.Expr
