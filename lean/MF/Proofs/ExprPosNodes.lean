/-
  MF.Proofs.ExprPosNodes — token alignment of every Go node of a placed tree.

  `place_ok`: if the tokens of `all` from index `i` read `yield x` (and `x` is in the parser's normal form, which rules
  out the empty `Path`), then for the tree `placeG (pe all) x i`:
    * `Pos()` is the `pos` of token `i`, `End()` the `end` of token `i + ntok x - 1`;
    * every Go node `n` of it (`nodesP`) is `NodeIn all i (i + ntok x)`: there are token indices `a < b` inside that
      range with `n.pos = pos(token a)`, `n.end = end(token b-1)`, and its direct children occupy consecutive
      disjoint sub-ranges `[a₁,b₁) [a₂,b₂) …` of `[a,b)` in source order (`Chain`), each child's span being
      `(pos(token aᵢ), end(token bᵢ-1))`.
  The only facts about tokens used here are the per-token length facts `TokOK`.
-/
import MF.Proofs.ExprPosTokens
namespace MF.Expr

/-! ## chains of index ranges -/

/-- consecutive non-empty index ranges inside `[lo, hi)` -/
def Chain (lo hi : Nat) : List (Nat × Nat) → Prop
  | [] => lo ≤ hi
  | ab :: rest => lo ≤ ab.1 ∧ ab.1 < ab.2 ∧ Chain ab.2 hi rest

theorem Chain.le {lo hi : Nat} {idx : List (Nat × Nat)} (h : Chain lo hi idx) : lo ≤ hi := by
  induction idx generalizing lo with
  | nil => exact h
  | cons ab rest ih => obtain ⟨h1, h2, h3⟩ := h; have := ih h3; omega

theorem Chain.mono {lo lo' hi hi' : Nat} {idx : List (Nat × Nat)} (h : Chain lo hi idx) (h1 : lo' ≤ lo) (h2 : hi ≤ hi') :
    Chain lo' hi' idx := by
  induction idx generalizing lo lo' with
  | nil => simp only [Chain] at h ⊢; omega
  | cons ab rest ih =>
    obtain ⟨a1, a2, a3⟩ := h
    exact ⟨by omega, a2, ih a3 (Nat.le_refl _)⟩

theorem Chain.append {lo mid hi : Nat} {a b : List (Nat × Nat)} (h1 : Chain lo mid a) (h2 : Chain mid hi b) :
    Chain lo hi (a ++ b) := by
  induction a generalizing lo with
  | nil => exact h2.mono h1 (Nat.le_refl _)
  | cons ab rest ih =>
    obtain ⟨a1, a2, a3⟩ := h1
    exact ⟨a1, a2, ih a3⟩

theorem Chain.mem {lo hi : Nat} {idx : List (Nat × Nat)} (h : Chain lo hi idx) :
    ∀ ab ∈ idx, lo ≤ ab.1 ∧ ab.1 < ab.2 ∧ ab.2 ≤ hi := by
  induction idx generalizing lo with
  | nil => simp
  | cons ab rest ih =>
    obtain ⟨a1, a2, a3⟩ := h
    intro x hx
    rcases List.mem_cons.mp hx with rfl | hx
    · exact ⟨a1, a2, a3.le⟩
    · have := ih a3 x hx; exact ⟨by omega, this.2.1, this.2.2⟩

/-- the span of the token range `[ab.1, ab.2)` -/
def spanOf (all : List Token) (ab : Nat × Nat) : Nat × Nat := ((tokAt all ab.1).pos, (tokAt all (ab.2 - 1)).end)

/-- the Go node `n` is aligned with a token range inside `[lo, hi)`, and so are its children, in source order -/
def NodeIn (all : List Token) (lo hi : Nat) (n : NodeInfo) : Prop :=
  ∃ a b, lo ≤ a ∧ a < b ∧ b ≤ hi ∧ n.pos = (tokAt all a).pos ∧ n.end = (tokAt all (b - 1)).end ∧
    ∃ idx, n.kids = idx.map (spanOf all) ∧ Chain a b idx

theorem NodeIn.mono {all : List Token} {lo lo' hi hi' : Nat} {n : NodeInfo} (h : NodeIn all lo hi n)
    (h1 : lo' ≤ lo) (h2 : hi ≤ hi') : NodeIn all lo' hi' n := by
  obtain ⟨a, b, c1, c2, c3, rest⟩ := h
  exact ⟨a, b, by omega, c2, by omega, rest⟩

theorem NodeIn.head {all : List Token} {i j : Nat} {n : NodeInfo} (hij : i < j) (hp : n.pos = (tokAt all i).pos)
    (he : n.end = (tokAt all (j - 1)).end) (idx : List (Nat × Nat)) (hk : n.kids = idx.map (spanOf all))
    (hc : Chain i j idx) : NodeIn all i j n :=
  ⟨i, j, Nat.le_refl _, hij, Nat.le_refl _, hp, he, idx, hk, hc⟩

/-! ## reading single tokens -/

theorem Pre_cons' {all : List Token} {i : Nat} {y : Tok'} {ys : List Tok'} :
    Pre all i (y :: ys) ↔ TokIs all i y ∧ Pre all (i + 1) ys := Pre_cons

theorem yield_length (x : Expr) : (yield x).length = ntok x := rfl
theorem yields_length (es : Exprs) : (yields es).length = ntoks es := rfl

section toks
variable {all : List Token} {len : Nat} (hT : ∀ t ∈ all, TokOK len t)
include hT

theorem tok_null {k : Nat} (h : TokIs all k (T .null)) : (tokAt all k).end = (tokAt all k).pos + 4 :=
  (hT _ h.mem).null h.tk
theorem tok_bool {k : Nat} {b : Bool} (h : TokIs all k (T (boolTK b))) :
    (tokAt all k).end = (tokAt all k).pos + boolLen b := by
  cases b
  · exact (hT _ h.mem).false_ h.tk
  · exact (hT _ h.mem).true_ h.tk
theorem tok_rparen {k : Nat} (h : TokIs all k (T .rparen)) : (tokAt all k).end = (tokAt all k).pos + 1 :=
  (hT _ h.mem).rparen h.tk
theorem tok_rbrack {k : Nat} (h : TokIs all k (T .rbrack)) : (tokAt all k).end = (tokAt all k).pos + 1 :=
  (hT _ h.mem).rbrack h.tk
theorem tok_param {k : Nat} {n : Bytes} (h : TokIs all k ⟨.param, n⟩) :
    (tokAt all k).end = (tokAt all k).pos + 1 + n.length := by
  have h1 := (hT _ h.mem).param h.tk
  obtain ⟨t, ht, hp⟩ := h
  rw [tokAt_of_getElem? ht] at h1 ⊢
  have hk : tk t.kind = .param := congrArg Tok'.k hp
  have hv : tokVal t = n := congrArg Tok'.v hp
  simp only [tokVal, hk] at hv
  rw [h1, hv]

end toks

/-! ## number of tokens, constructor by constructor -/

theorem ntok_paren (e : Expr) : ntok (.paren e) = ntok e + 2 := by simp [ntok, yield]
theorem ntok_unary (op : UOp) (e : Expr) : ntok (.unary op e) = ntok e + 1 := by simp [ntok, yield]
theorem ntok_bin (op : BOp) (l r : Expr) : ntok (.bin op l r) = ntok l + op.toks.length + ntok r := by
  simp [ntok, yield]; omega
theorem ntok_isNull (e : Expr) (n : Bool) : ntok (.isNull e n) = ntok e + 1 + nb n + 1 := by
  simp [ntok, yield, notToks_length]; omega
theorem ntok_isBool (e : Expr) (n b : Bool) : ntok (.isBool e n b) = ntok e + 1 + nb n + 1 := by
  simp [ntok, yield, notToks_length]; omega
theorem ntok_between (n : Bool) (e lo hi : Expr) :
    ntok (.between n e lo hi) = ntok e + nb n + 1 + ntok lo + 1 + ntok hi := by
  simp [ntok, yield, notToks_length]; omega
theorem ntok_inList (n : Bool) (e first : Expr) (more : Exprs) :
    ntok (.inList n e first more) = ntok e + nb n + 1 + 1 + ntok first + ntoks more + 1 := by
  simp [ntok, ntoks, yield, notToks_length]; omega
theorem ntok_inUnnest (n : Bool) (e a : Expr) : ntok (.inUnnest n e a) = ntok e + nb n + 1 + 2 + ntok a + 1 := by
  simp [ntok, yield, notToks_length]; omega
theorem ntok_sel (e : Expr) (n : Bytes) : ntok (.sel e n) = ntok e + 2 := by simp [ntok, yield]
theorem ntok_index_none (e ix : Expr) : ntok (.index e none ix) = ntok e + 1 + ntok ix + 1 := by
  simp [ntok, yield]; omega
theorem ntok_index_some (e ix : Expr) (k : PosKw) (sp : Bytes) :
    ntok (.index e (some (k, sp)) ix) = ntok e + 3 + ntok ix + 2 := by
  simp [ntok, yield]; omega
theorem ntoks_cons (e : Expr) (es : Exprs) : ntoks (.cons e es) = 1 + ntok e + ntoks es := by
  simp [ntok, ntoks, yields]; omega

/-! ## the invariant -/

structure PlaceOK (all : List Token) (x : Expr) (i : Nat) : Prop where
  pos : posP (placeG (pe all) x i).1 = (tokAt all i).pos
  end_ : endP (placeG (pe all) x i).1 = (tokAt all (i + ntok x - 1)).end
  npos : 0 < ntok x
  nodes : ∀ d, ∀ n ∈ nodesP d (placeG (pe all) x i).1, NodeIn all i (i + ntok x) n

theorem PlaceOK.span {all : List Token} {x : Expr} {i : Nat} (h : PlaceOK all x i) :
    spanP (placeG (pe all) x i).1 = spanOf all (i, i + ntok x) := by
  simp [spanP, spanOf, h.pos, h.end_]

structure PlacesOK (all : List Token) (es : Exprs) (i : Nat) : Prop where
  spans : ∃ idx, spansP (placesG (pe all) es i).1 = idx.map (spanOf all) ∧ Chain i (i + ntoks es) idx
  nodes : ∀ d, ∀ n ∈ nodesPs d (placesG (pe all) es i).1, NodeIn all i (i + ntoks es) n

/-- a leaf of `k` tokens (1, or 2 for a numeric literal with a folded sign) -/
theorem leaf_ok {all : List Token} {x : Expr} {i k : Nat} {pe' : PExpr}
    (hx : placeG (pe all) x i = (pe', i + k)) (hn : ntok x = k) (hk : 0 < k)
    (hnodes : ∀ d, ∃ kind fields, nodesP d pe' = [⟨d, kind, posP pe', endP pe', fields, []⟩])
    (hp : posP pe' = (tokAt all i).pos) (he : endP pe' = (tokAt all (i + k - 1)).end) : PlaceOK all x i := by
  refine ⟨by rw [hx]; exact hp, by rw [hx, hn]; exact he, by omega, ?_⟩
  intro d n hn'
  obtain ⟨kind, fields, hnd⟩ := hnodes d
  rw [hx, hnd] at hn'
  simp only [List.mem_singleton] at hn'
  subst hn'
  exact NodeIn.head (by omega) hp (by rw [hn]; exact he) [] rfl (by simp only [Chain]; omega)

/-! ## paths -/

theorem identNode_in {all : List Token} (d k : Nat) (n : Bytes) :
    NodeIn all k (k + 1) (identNode d (identAt (pe all) k n)) :=
  NodeIn.head (by omega) rfl rfl [] rfl (by simp only [Chain]; omega)

theorem placeIds_ok {all : List Token} (ns : List Bytes) (k : Nat) :
    ∃ idx, ((placeIds (pe all) ns k).1.map PIdent.span = idx.map (spanOf all)) ∧ Chain k (k + 2 * ns.length) idx ∧
      (∀ d, ∀ n ∈ (placeIds (pe all) ns k).1.map (identNode d), NodeIn all k (k + 2 * ns.length) n) ∧
      (∀ x0 : PIdent, (((x0 :: (placeIds (pe all) ns k).1).getLast?.map (·.nameEnd)).getD 0) =
        if ns = [] then x0.nameEnd else (tokAt all (k + 2 * ns.length - 1)).end) := by
  induction ns generalizing k with
  | nil => exact ⟨[], rfl, by simp [Chain], by simp [placeIds], by simp [placeIds]⟩
  | cons n ns ih =>
    obtain ⟨idx, h1, h2, h3, h4⟩ := ih (k + 2)
    refine ⟨(k + 1, k + 2) :: idx, ?_, ?_, ?_, ?_⟩
    · simp only [placeIds, List.map_cons, h1]
      rfl
    · simp only [Chain, List.length_cons]
      exact ⟨by omega, by omega, h2.mono (Nat.le_refl _) (by omega)⟩
    · intro d m hm
      simp only [placeIds, List.map_cons, List.mem_cons] at hm
      rcases hm with rfl | hm
      · exact (identNode_in d (k + 1) n).mono (by omega) (by simp only [List.length_cons]; omega)
      · exact (h3 d m hm).mono (by omega) (by simp only [List.length_cons]; omega)
    · intro x0
      simp only [placeIds, List.getLast?_cons_cons, reduceCtorEq, ↓reduceIte, List.length_cons]
      rw [h4]
      split
      · rename_i hns; subst hns
        simp [identAt]
      · congr 2; omega


/-! ## the main induction -/

theorem chain1 {lo hi a b : Nat} (h1 : lo ≤ a) (h2 : a < b) (h3 : b ≤ hi) : Chain lo hi [(a, b)] := by
  simp only [Chain]; omega
theorem chain2 {lo hi a b c d : Nat} (h1 : lo ≤ a) (h2 : a < b) (h3 : b ≤ c) (h4 : c < d) (h5 : d ≤ hi) :
    Chain lo hi [(a, b), (c, d)] := by
  simp only [Chain]; omega
theorem chain3 {lo hi a b c d e f : Nat} (h1 : lo ≤ a) (h2 : a < b) (h3 : b ≤ c) (h4 : c < d) (h5 : d ≤ e) (h6 : e < f)
    (h7 : f ≤ hi) : Chain lo hi [(a, b), (c, d), (e, f)] := by
  simp only [Chain]; omega

set_option linter.unusedSimpArgs false
set_option linter.unusedSectionVars false
section main
variable {all : List Token} {len : Nat} (hT : ∀ t ∈ all, TokOK len t)
include hT

mutual
theorem place_ok : (x : Expr) → (i : Nat) → Pre all i (yield x) → nf x = true → PlaceOK all x i
  | .null, i, hpre, _ => by
    simp only [yield, Pre_cons', Pre_nil, and_true] at hpre
    exact leaf_ok (pe' := .null (tokAt all i).pos) (k := 1) (by simp [placeG]) (by simp [ntok, yield]) (by omega) (fun d => ⟨_, _, by simp only [nodesP]; rfl⟩)
      rfl (by rw [Nat.add_sub_cancel, tok_null hT hpre]; rfl)
  | .bool b, i, hpre, _ => by
    simp only [yield, Pre_cons', Pre_nil, and_true] at hpre
    exact leaf_ok (pe' := .bool (tokAt all i).pos b) (k := 1) (by simp [placeG]) (by simp [ntok, yield]) (by omega) (fun d => ⟨_, _, by simp only [nodesP]; rfl⟩)
      rfl (by rw [Nat.add_sub_cancel, tok_bool hT hpre]; rfl)
  | .int none raw, i, _, _ => by
    exact leaf_ok (pe' := .int (tokAt all i).pos (tokAt all i).end none raw) (k := 1) (by simp [placeG]) (by simp [ntok, yield, signToks]) (by omega)
      (fun d => ⟨_, _, by simp only [nodesP]; rfl⟩) rfl rfl
  | .int (some s) raw, i, _, _ => by
    exact leaf_ok (pe' := .int (tokAt all i).pos (tokAt all (i + 1)).end (some s) raw) (k := 2) (by simp [placeG]) (by simp [ntok, yield, signToks]) (by omega)
      (fun d => ⟨_, _, by simp only [nodesP]; rfl⟩) rfl rfl
  | .float none raw, i, _, _ => by
    exact leaf_ok (pe' := .float (tokAt all i).pos (tokAt all i).end none raw) (k := 1) (by simp [placeG]) (by simp [ntok, yield, signToks]) (by omega)
      (fun d => ⟨_, _, by simp only [nodesP]; rfl⟩) rfl rfl
  | .float (some s) raw, i, _, _ => by
    exact leaf_ok (pe' := .float (tokAt all i).pos (tokAt all (i + 1)).end (some s) raw) (k := 2) (by simp [placeG]) (by simp [ntok, yield, signToks]) (by omega)
      (fun d => ⟨_, _, by simp only [nodesP]; rfl⟩) rfl rfl
  | .str v, i, _, _ => by
    exact leaf_ok (pe' := .str (tokAt all i).pos (tokAt all i).end v) (k := 1) (by simp [placeG]) (by simp [ntok, yield]) (by omega)
      (fun d => ⟨_, _, by simp only [nodesP]; rfl⟩) rfl rfl
  | .bytes v, i, _, _ => by
    exact leaf_ok (pe' := .bytes (tokAt all i).pos (tokAt all i).end v) (k := 1) (by simp [placeG]) (by simp [ntok, yield]) (by omega)
      (fun d => ⟨_, _, by simp only [nodesP]; rfl⟩) rfl rfl
  | .param n, i, hpre, _ => by
    simp only [yield, Pre_cons', Pre_nil, and_true] at hpre
    exact leaf_ok (pe' := .param (tokAt all i).pos n) (k := 1) (by simp [placeG]) (by simp [ntok, yield]) (by omega) (fun d => ⟨_, _, by simp only [nodesP]; rfl⟩)
      rfl (by rw [Nat.add_sub_cancel, tok_param hT hpre]; rfl)
  | .ident n, i, _, _ => by
    exact leaf_ok (pe' := .ident (identAt (pe all) i n)) (k := 1) (by simp [placeG]) (by simp [ntok, yield]) (by omega)
      (fun d => ⟨_, _, by simp only [nodesP, identNode]; rfl⟩) rfl rfl
  | .path [], i, _, hnf => by simp [nf] at hnf
  | .path (a :: ns), i, _, hnf => by
    have hns : ns ≠ [] := by
      intro h; subst h; simp [nf] at hnf
    obtain ⟨idx, h1, h2, h3, h4⟩ := placeIds_ok (all := all) ns (i + 1)
    have hn : ntok (.path (a :: ns)) = 1 + 2 * ns.length := by simp [ntok, yield, pathToks_length]
    have hlen : 0 < ns.length := List.length_pos_iff.mpr hns
    have hend : endP (placeG (pe all) (.path (a :: ns)) i).1 = (tokAt all (i + ntok (.path (a :: ns)) - 1)).end := by
      simp only [placeG, endP]
      rw [h4, if_neg hns, hn]
      congr 2; omega
    refine ⟨by simp [placeG, posP, identAt], hend, by omega, ?_⟩
    intro d n hn'
    simp only [placeG, nodesP, List.mem_cons] at hn'
    rcases hn' with rfl | hn'
    · refine NodeIn.head (by omega) (by simp [posP, identAt]) ?_ ((i, i + 1) :: idx) ?_ ?_
      · simp only [placeG] at hend; exact hend
      · simp only [List.map_cons, h1]; rfl
      · simp only [Chain]
        exact ⟨Nat.le_refl _, by omega, h2.mono (Nat.le_refl _) (by omega)⟩
    · simp only [List.map_cons, List.mem_cons] at hn'
      rcases hn' with rfl | hn'
      · exact (identNode_in (d + 1) i a).mono (Nat.le_refl _) (by omega)
      · exact (h3 (d + 1) n hn').mono (by omega) (by omega)
  | .paren e, i, hpre, hnf => by
    simp only [yield, Pre_cons', Pre_append, Pre_nil, and_true, yield_length] at hpre
    obtain ⟨_, he, hrp⟩ := hpre
    have IH := place_ok e (i + 1) he (by simpa [nf] using hnf)
    have hs := placeG_snd (pe all) e (i + 1)
    have hend : endP (placeG (pe all) (.paren e) i).1 = (tokAt all (i + ntok (.paren e) - 1)).end := by
      simp only [placeG, endP, hs, pe_fst, ntok_paren]
      rw [show i + (ntok e + 2) - 1 = i + 1 + ntok e by omega, tok_rparen hT hrp]
    refine ⟨by simp [placeG, posP], hend, by rw [ntok_paren]; omega, ?_⟩
    intro d n hn
    simp only [placeG, nodesP, List.mem_cons] at hn
    rcases hn with rfl | hn
    · refine NodeIn.head (by rw [ntok_paren]; omega) (by simp) ?_ [(i + 1, i + 1 + ntok e)] (by simp [IH.span]) ?_
      · simp only [placeG, endP] at hend; exact hend
      · exact chain1 (by omega) (by have := IH.npos; omega) (by rw [ntok_paren]; omega)
    · exact (IH.nodes (d + 1) n hn).mono (by omega) (by rw [ntok_paren]; omega)
  | .unary op e, i, hpre, hnf => by
    simp only [yield, Pre_cons', yield_length] at hpre
    obtain ⟨_, he⟩ := hpre
    have IH := place_ok e (i + 1) he (by simp only [nf, Bool.and_eq_true] at hnf; exact hnf.1)
    have hend : endP (placeG (pe all) (.unary op e) i).1 = (tokAt all (i + ntok (.unary op e) - 1)).end := by
      simp only [placeG, endP, IH.end_, ntok_unary]
      congr 2; have := IH.npos; omega
    refine ⟨by simp [placeG, posP], hend, by rw [ntok_unary]; omega, ?_⟩
    intro d n hn
    simp only [placeG, nodesP, List.mem_cons] at hn
    rcases hn with rfl | hn
    · refine NodeIn.head (by rw [ntok_unary]; omega) (by simp) ?_ [(i + 1, i + 1 + ntok e)] (by simp [IH.span]) ?_
      · simp only [placeG, endP] at hend; exact hend
      · exact chain1 (by omega) (by have := IH.npos; omega) (by rw [ntok_unary]; omega)
    · exact (IH.nodes (d + 1) n hn).mono (by omega) (by rw [ntok_unary]; omega)
  | .bin op l r, i, hpre, hnf => by
    simp only [yield, Pre_append, yield_length] at hpre
    obtain ⟨hl, _, hr⟩ := hpre
    simp only [nf, Bool.and_eq_true] at hnf
    have IHl := place_ok l i hl hnf.1
    have IHr := place_ok r (i + ntok l + op.toks.length) hr hnf.2
    have hs := placeG_snd (pe all) l i
    have hend : endP (placeG (pe all) (.bin op l r) i).1 = (tokAt all (i + ntok (.bin op l r) - 1)).end := by
      simp only [placeG, endP, hs, IHr.end_, ntok_bin]
      congr 2; omega
    refine ⟨by simp only [placeG, posP]; exact IHl.pos, hend, by rw [ntok_bin]; have := IHl.npos; omega, ?_⟩
    intro d n hn
    simp only [placeG, nodesP, List.mem_cons, List.mem_append, hs] at hn
    rcases hn with rfl | hn | hn
    · refine NodeIn.head (by rw [ntok_bin]; have := IHl.npos; omega) (by simp only [hs]; exact IHl.pos) ?_
        [(i, i + ntok l), (i + ntok l + op.toks.length, i + ntok l + op.toks.length + ntok r)]
        (by simp [IHl.span, IHr.span, hs]) ?_
      · simp only [placeG, endP, hs] at hend; exact hend
      · exact chain2 (Nat.le_refl _) (by have := IHl.npos; omega) (by omega) (by have := IHr.npos; omega)
          (by rw [ntok_bin]; omega)
    · exact (IHl.nodes (d + 1) n hn).mono (Nat.le_refl _) (by rw [ntok_bin]; omega)
    · exact (IHr.nodes (d + 1) n hn).mono (by omega) (by rw [ntok_bin]; omega)
  | .isNull e nt, i, hpre, hnf => by
    simp only [yield, Pre_cons', Pre_append, Pre_nil, and_true, yield_length, notToks_length] at hpre
    obtain ⟨he, _, _, hnull⟩ := hpre
    have IH := place_ok e i he (by simpa [nf] using hnf)
    have hs := placeG_snd (pe all) e i
    have hend : endP (placeG (pe all) (.isNull e nt) i).1 = (tokAt all (i + ntok (.isNull e nt) - 1)).end := by
      simp only [placeG, endP, hs, pe_fst, ntok_isNull]
      rw [show i + (ntok e + 1 + nb nt + 1) - 1 = i + ntok e + 1 + nb nt by omega, tok_null hT hnull]
    refine ⟨by simp only [placeG, posP]; exact IH.pos, hend, by rw [ntok_isNull]; omega, ?_⟩
    intro d n hn
    simp only [placeG, nodesP, List.mem_cons] at hn
    rcases hn with rfl | hn
    · refine NodeIn.head (by rw [ntok_isNull]; omega) (by simp only; exact IH.pos) ?_ [(i, i + ntok e)]
        (by simp [IH.span]) ?_
      · simp only [placeG, endP] at hend; exact hend
      · exact chain1 (Nat.le_refl _) (by have := IH.npos; omega) (by rw [ntok_isNull]; omega)
    · exact (IH.nodes (d + 1) n hn).mono (Nat.le_refl _) (by rw [ntok_isNull]; omega)
  | .isBool e nt b, i, hpre, hnf => by
    simp only [yield, Pre_cons', Pre_append, Pre_nil, and_true, yield_length, notToks_length] at hpre
    obtain ⟨he, _, _, hb⟩ := hpre
    have IH := place_ok e i he (by simpa [nf] using hnf)
    have hs := placeG_snd (pe all) e i
    have hend : endP (placeG (pe all) (.isBool e nt b) i).1 = (tokAt all (i + ntok (.isBool e nt b) - 1)).end := by
      simp only [placeG, endP, hs, pe_fst, ntok_isBool]
      rw [show i + (ntok e + 1 + nb nt + 1) - 1 = i + ntok e + 1 + nb nt by omega, tok_bool hT hb]
    refine ⟨by simp only [placeG, posP]; exact IH.pos, hend, by rw [ntok_isBool]; omega, ?_⟩
    intro d n hn
    simp only [placeG, nodesP, List.mem_cons] at hn
    rcases hn with rfl | hn
    · refine NodeIn.head (by rw [ntok_isBool]; omega) (by simp only; exact IH.pos) ?_ [(i, i + ntok e)]
        (by simp [IH.span]) ?_
      · simp only [placeG, endP] at hend; exact hend
      · exact chain1 (Nat.le_refl _) (by have := IH.npos; omega) (by rw [ntok_isBool]; omega)
    · exact (IH.nodes (d + 1) n hn).mono (Nat.le_refl _) (by rw [ntok_isBool]; omega)
  | .between nt e lo hi, i, hpre, hnf => by
    simp only [yield, Pre_cons', Pre_append, yield_length, notToks_length] at hpre
    obtain ⟨he, _, _, hlo, _, hhi⟩ := hpre
    simp only [nf, Bool.and_eq_true] at hnf
    have IHe := place_ok e i he hnf.1.1
    have IHlo := place_ok lo (i + ntok e + nb nt + 1) hlo hnf.1.2
    have IHhi := place_ok hi (i + ntok e + nb nt + 1 + ntok lo + 1) hhi hnf.2
    have hse := placeG_snd (pe all) e i
    have hslo := placeG_snd (pe all) lo (i + ntok e + nb nt + 1)
    have hend : endP (placeG (pe all) (.between nt e lo hi) i).1 =
        (tokAt all (i + ntok (.between nt e lo hi) - 1)).end := by
      simp only [placeG, endP, hse, hslo, IHhi.end_, ntok_between]
      congr 2; omega
    have hpos := IHe.npos; have hpos2 := IHlo.npos; have hpos3 := IHhi.npos
    refine ⟨by simp only [placeG, posP]; exact IHe.pos, hend, by rw [ntok_between]; omega, ?_⟩
    intro d n hn
    simp only [placeG, nodesP, List.mem_cons, List.mem_append, hse, hslo] at hn
    rcases hn with rfl | hn | hn | hn
    · refine NodeIn.head (by rw [ntok_between]; omega) (by simp only [hse]; exact IHe.pos) ?_
        [(i, i + ntok e), (i + ntok e + nb nt + 1, i + ntok e + nb nt + 1 + ntok lo),
          (i + ntok e + nb nt + 1 + ntok lo + 1, i + ntok e + nb nt + 1 + ntok lo + 1 + ntok hi)]
        (by simp [IHe.span, IHlo.span, IHhi.span, hse, hslo]) ?_
      · simp only [placeG, endP, hse, hslo] at hend; exact hend
      · exact chain3 (Nat.le_refl _) (by omega) (by omega) (by omega) (by omega) (by omega) (by rw [ntok_between]; omega)
    · exact (IHe.nodes (d + 1) n hn).mono (Nat.le_refl _) (by rw [ntok_between]; omega)
    · exact (IHlo.nodes (d + 1) n hn).mono (by omega) (by rw [ntok_between]; omega)
    · exact (IHhi.nodes (d + 1) n hn).mono (by omega) (by rw [ntok_between]; omega)
  | .inList nt e first more, i, hpre, hnf => by
    simp only [yield, Pre_cons', Pre_append, Pre_nil, and_true, yield_length, yields_length, notToks_length] at hpre
    obtain ⟨he, _, _, _, hf, hm, hrp⟩ := hpre
    simp only [nf, Bool.and_eq_true] at hnf
    have IHe := place_ok e i he hnf.1.1
    have IHf := place_ok first (i + ntok e + nb nt + 1 + 1) hf hnf.1.2
    have IHm := places_ok more (i + ntok e + nb nt + 1 + 1 + ntok first) hm hnf.2
    have hse := placeG_snd (pe all) e i
    have hsf := placeG_snd (pe all) first (i + ntok e + nb nt + 1 + 1)
    have hsm := placesG_snd (pe all) more (i + ntok e + nb nt + 1 + 1 + ntok first)
    have hrpe := tok_rparen hT hrp
    have hend : endP (placeG (pe all) (.inList nt e first more) i).1 =
        (tokAt all (i + ntok (.inList nt e first more) - 1)).end := by
      simp only [placeG, endP, hse, hsf, hsm, pe_fst, ntok_inList]
      rw [show i + (ntok e + nb nt + 1 + 1 + ntok first + ntoks more + 1) - 1 =
        i + ntok e + nb nt + 1 + 1 + ntok first + ntoks more by omega, hrpe]
    have hpos := IHe.npos; have hpos2 := IHf.npos
    obtain ⟨idx, hidx, hchain⟩ := IHm.spans
    have hcl := hchain.le
    refine ⟨by simp only [placeG, posP]; exact IHe.pos, hend, by rw [ntok_inList]; omega, ?_⟩
    intro d n hn
    simp only [placeG, nodesP, List.mem_cons, List.mem_append, hse, hsf, hsm] at hn
    rcases hn with rfl | hn | rfl | hn | hn
    · refine NodeIn.head (by rw [ntok_inList]; omega) (by simp only [hse]; exact IHe.pos) ?_
        [(i, i + ntok e), (i + ntok e + nb nt + 1, i + ntok e + nb nt + 1 + 1 + ntok first + ntoks more + 1)]
        ?_ ?_
      · simp only [placeG, endP, hse, hsf, hsm] at hend; exact hend
      · simp only [List.map_cons, List.map_nil, IHe.span, spanOf, pe_fst, Nat.add_sub_cancel, hrpe]
      · exact chain2 (Nat.le_refl _) (by omega) (by omega) (by omega) (by rw [ntok_inList]; omega)
    · exact (IHe.nodes (d + 1) n hn).mono (Nat.le_refl _) (by rw [ntok_inList]; omega)
    · refine ⟨i + ntok e + nb nt + 1, i + ntok e + nb nt + 1 + 1 + ntok first + ntoks more + 1, by omega, by omega,
        by rw [ntok_inList]; omega, by simp, by simp only [pe_fst, Nat.add_sub_cancel, hrpe],
        (i + ntok e + nb nt + 1 + 1, i + ntok e + nb nt + 1 + 1 + ntok first) :: idx, ?_, ?_⟩
      · simp only [List.map_cons, IHf.span, hidx]
      · simp only [Chain]
        exact ⟨by omega, by omega, hchain.mono (Nat.le_refl _) (by omega)⟩
    · exact (IHf.nodes (d + 2) n hn).mono (by omega) (by rw [ntok_inList]; omega)
    · exact (IHm.nodes (d + 2) n hn).mono (by omega) (by rw [ntok_inList]; omega)
  | .inUnnest nt e a, i, hpre, hnf => by
    simp only [yield, Pre_cons', Pre_append, Pre_nil, and_true, yield_length, notToks_length] at hpre
    obtain ⟨he, _, _, _, _, ha, hrp⟩ := hpre
    simp only [nf, Bool.and_eq_true] at hnf
    have IHe := place_ok e i he hnf.1
    have IHa := place_ok a (i + ntok e + nb nt + 1 + 1 + 1) ha hnf.2
    have hse := placeG_snd (pe all) e i
    have hsa := placeG_snd (pe all) a (i + ntok e + nb nt + 1 + 2)
    have hrpe := tok_rparen hT hrp
    have e3 : i + ntok e + nb nt + 1 + 1 + 1 = i + ntok e + nb nt + 1 + 2 := by omega
    rw [e3] at IHa hrpe
    have hend : endP (placeG (pe all) (.inUnnest nt e a) i).1 =
        (tokAt all (i + ntok (.inUnnest nt e a) - 1)).end := by
      simp only [placeG, endP, hse, hsa, pe_fst, ntok_inUnnest]
      rw [show i + (ntok e + nb nt + 1 + 2 + ntok a + 1) - 1 = i + ntok e + nb nt + 1 + 2 + ntok a by omega, hrpe]
    have hpos := IHe.npos; have hpos2 := IHa.npos
    refine ⟨by simp only [placeG, posP]; exact IHe.pos, hend, by rw [ntok_inUnnest]; omega, ?_⟩
    intro d n hn
    simp only [placeG, nodesP, List.mem_cons, List.mem_append, hse, hsa] at hn
    rcases hn with rfl | hn | rfl | hn
    · refine NodeIn.head (by rw [ntok_inUnnest]; omega) (by simp only [hse]; exact IHe.pos) ?_
        [(i, i + ntok e), (i + ntok e + nb nt + 1, i + ntok e + nb nt + 1 + 2 + ntok a + 1)] ?_ ?_
      · simp only [placeG, endP, hse, hsa] at hend; exact hend
      · simp only [List.map_cons, List.map_nil, IHe.span, spanOf, pe_fst, Nat.add_sub_cancel, hrpe]
      · exact chain2 (Nat.le_refl _) (by omega) (by omega) (by omega) (by rw [ntok_inUnnest]; omega)
    · exact (IHe.nodes (d + 1) n hn).mono (Nat.le_refl _) (by rw [ntok_inUnnest]; omega)
    · refine ⟨i + ntok e + nb nt + 1, i + ntok e + nb nt + 1 + 2 + ntok a + 1, by omega, by omega,
        by rw [ntok_inUnnest]; omega, by simp, by simp only [pe_fst, Nat.add_sub_cancel, hrpe],
        [(i + ntok e + nb nt + 1 + 2, i + ntok e + nb nt + 1 + 2 + ntok a)], ?_, ?_⟩
      · simp only [List.map_cons, List.map_nil, IHa.span]
      · exact chain1 (by omega) (by omega) (by omega)
    · exact (IHa.nodes (d + 2) n hn).mono (by omega) (by rw [ntok_inUnnest]; omega)
  | .sel e nm, i, hpre, hnf => by
    simp only [yield, Pre_append, yield_length] at hpre
    obtain ⟨he, _⟩ := hpre
    simp only [nf, Bool.and_eq_true] at hnf
    have IH := place_ok e i he hnf.1
    have hs := placeG_snd (pe all) e i
    have hend : endP (placeG (pe all) (.sel e nm) i).1 = (tokAt all (i + ntok (.sel e nm) - 1)).end := by
      simp only [placeG, endP, hs, identAt, pe_snd, ntok_sel]
      congr 2
    have hpos := IH.npos
    refine ⟨by simp only [placeG, posP]; exact IH.pos, hend, by rw [ntok_sel]; omega, ?_⟩
    intro d n hn
    simp only [placeG, nodesP, List.mem_cons, List.mem_append, List.not_mem_nil, or_false, hs] at hn
    rcases hn with rfl | hn | rfl
    · refine NodeIn.head (by rw [ntok_sel]; omega) (by simp only [hs]; exact IH.pos) ?_
        [(i, i + ntok e), (i + ntok e + 1, i + ntok e + 1 + 1)] ?_ ?_
      · simp only [placeG, endP, hs] at hend; exact hend
      · simp [IH.span, hs, PIdent.span, identAt, spanOf]
      · exact chain2 (Nat.le_refl _) (by omega) (by omega) (by omega) (by rw [ntok_sel]; omega)
    · exact (IH.nodes (d + 1) n hn).mono (Nat.le_refl _) (by rw [ntok_sel]; omega)
    · exact (identNode_in (d + 1) (i + ntok e + 1) nm).mono (by omega) (by rw [ntok_sel]; omega)
  | .index e none ix, i, hpre, hnf => by
    simp only [yield, Pre_cons', Pre_append, Pre_nil, and_true, yield_length] at hpre
    obtain ⟨he, _, hix, hrb⟩ := hpre
    simp only [nf, Bool.and_eq_true] at hnf
    have IHe := place_ok e i he hnf.1
    have IHx := place_ok ix (i + ntok e + 1) hix hnf.2
    have hse := placeG_snd (pe all) e i
    have hsx := placeG_snd (pe all) ix (i + ntok e + 1)
    have hrbe := tok_rbrack hT hrb
    have hend : endP (placeG (pe all) (.index e none ix) i).1 = (tokAt all (i + ntok (.index e none ix) - 1)).end := by
      simp only [placeG, endP, hse, hsx, pe_fst, ntok_index_none]
      rw [show i + (ntok e + 1 + ntok ix + 1) - 1 = i + ntok e + 1 + ntok ix by omega, hrbe]
    have hpos := IHe.npos; have hpos2 := IHx.npos
    refine ⟨by simp only [placeG, posP]; exact IHe.pos, hend, by rw [ntok_index_none]; omega, ?_⟩
    intro d n hn
    simp only [placeG, nodesP, List.mem_cons, List.mem_append, hse, hsx] at hn
    rcases hn with rfl | hn | rfl | hn
    · refine NodeIn.head (by rw [ntok_index_none]; omega) (by simp only [hse]; exact IHe.pos) ?_
        [(i, i + ntok e), (i + ntok e + 1, i + ntok e + 1 + ntok ix)] (by simp [IHe.span, IHx.span, hse]) ?_
      · simp only [placeG, endP, hse, hsx] at hend; exact hend
      · exact chain2 (Nat.le_refl _) (by omega) (by omega) (by omega) (by rw [ntok_index_none]; omega)
    · exact (IHe.nodes (d + 1) n hn).mono (Nat.le_refl _) (by rw [ntok_index_none]; omega)
    · refine ⟨i + ntok e + 1, i + ntok e + 1 + ntok ix, by omega, by omega, by rw [ntok_index_none]; omega,
        by simp only [hse]; exact IHx.pos, by simp only [hse]; exact IHx.end_,
        [(i + ntok e + 1, i + ntok e + 1 + ntok ix)], by simp [IHx.span, hse], chain1 (Nat.le_refl _) (by omega) (Nat.le_refl _)⟩
    · exact (IHx.nodes (d + 2) n hn).mono (by omega) (by rw [ntok_index_none]; omega)
  | .index e (some (k, sp)) ix, i, hpre, hnf => by
    simp only [yield, Pre_cons', Pre_append, Pre_nil, and_true, yield_length] at hpre
    obtain ⟨he, _, _, _, hix, hrp, hrb⟩ := hpre
    simp only [nf, Bool.and_eq_true] at hnf
    have e3 : i + ntok e + 1 + 1 + 1 = i + ntok e + 3 := by omega
    rw [e3] at hix hrp hrb
    have IHe := place_ok e i he hnf.1.1
    have IHx := place_ok ix (i + ntok e + 3) hix hnf.1.2
    have hse := placeG_snd (pe all) e i
    have hsx := placeG_snd (pe all) ix (i + ntok e + 3)
    have hrpe := tok_rparen hT hrp
    have hrbe := tok_rbrack hT hrb
    have hend : endP (placeG (pe all) (.index e (some (k, sp)) ix) i).1 =
        (tokAt all (i + ntok (.index e (some (k, sp)) ix) - 1)).end := by
      simp only [placeG, endP, hse, hsx, pe_fst, ntok_index_some]
      rw [show i + (ntok e + 3 + ntok ix + 2) - 1 = i + ntok e + 3 + ntok ix + 1 by omega, hrbe]
    have hpos := IHe.npos; have hpos2 := IHx.npos
    refine ⟨by simp only [placeG, posP]; exact IHe.pos, hend, by rw [ntok_index_some]; omega, ?_⟩
    intro d n hn
    simp only [placeG, nodesP, List.mem_cons, List.mem_append, hse, hsx] at hn
    rcases hn with rfl | hn | rfl | hn
    · refine NodeIn.head (by rw [ntok_index_some]; omega) (by simp only [hse]; exact IHe.pos) ?_
        [(i, i + ntok e), (i + ntok e + 1, i + ntok e + 3 + ntok ix + 1)] ?_ ?_
      · simp only [placeG, endP, hse, hsx] at hend; exact hend
      · simp only [List.map_cons, List.map_nil, IHe.span, spanOf, pe_fst, Nat.add_sub_cancel, hrpe]
      · exact chain2 (Nat.le_refl _) (by omega) (by omega) (by omega) (by rw [ntok_index_some]; omega)
    · exact (IHe.nodes (d + 1) n hn).mono (Nat.le_refl _) (by rw [ntok_index_some]; omega)
    · refine ⟨i + ntok e + 1, i + ntok e + 3 + ntok ix + 1, by omega, by omega, by rw [ntok_index_some]; omega,
        by simp, by simp only [pe_fst, Nat.add_sub_cancel, hrpe],
        [(i + ntok e + 3, i + ntok e + 3 + ntok ix)], by simp [IHx.span], chain1 (by omega) (by omega) (by omega)⟩
    · exact (IHx.nodes (d + 2) n hn).mono (by omega) (by rw [ntok_index_some]; omega)
theorem places_ok : (es : Exprs) → (i : Nat) → Pre all i (yields es) → nfs es = true → PlacesOK all es i
  | .nil, i, _, _ => ⟨⟨[], by simp [placesG, spansP], by simp [Chain]⟩, by simp [placesG, nodesPs]⟩
  | .cons e es, i, hpre, hnf => by
    simp only [yields, Pre_cons', Pre_append, yield_length] at hpre
    obtain ⟨_, he, hes⟩ := hpre
    simp only [nfs, Bool.and_eq_true] at hnf
    have IHe := place_ok e (i + 1) he hnf.1
    have IHs := places_ok es (i + 1 + ntok e) hes hnf.2
    have hs := placeG_snd (pe all) e (i + 1)
    obtain ⟨idx, hidx, hchain⟩ := IHs.spans
    have hpos := IHe.npos
    refine ⟨⟨(i + 1, i + 1 + ntok e) :: idx, ?_, ?_⟩, ?_⟩
    · simp only [placesG, spansP, hs, List.map_cons, IHe.span, hidx]
    · simp only [Chain, ntoks_cons]
      exact ⟨by omega, by omega, hchain.mono (Nat.le_refl _) (by omega)⟩
    · intro d n hn
      simp only [placesG, nodesPs, List.mem_append, hs] at hn
      rcases hn with hn | hn
      · exact (IHe.nodes d n hn).mono (by omega) (by rw [ntoks_cons]; omega)
      · exact (IHs.nodes d n hn).mono (by omega) (by rw [ntoks_cons]; omega)
end

end main

end MF.Expr
