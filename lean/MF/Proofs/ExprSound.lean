/-
  MF.Proofs.ExprSound — soundness of the expression parser model: ONE record over all mutually recursive
  functions, by induction on fuel.  A successful call consumed exactly the yield of the tree it returns, and that
  tree is grouped as the precedence table says (`PrecOK`), is in the parser's normal form (`NF`), and is of the
  level of the production.
-/
import MF.Proofs.ExprBasic
namespace MF.Expr

/-! ## facts about token classes -/

theorem symTable_vals : ∀ p ∈ symTable, p.2 ≠ TK.ident ∧ p.2 ≠ TK.eof ∧ p.2 ≠ .param ∧ p.2 ≠ .int ∧ p.2 ≠ .float ∧
    p.2 ≠ .string ∧ p.2 ≠ .bytes := by decide

theorem symTK_ne (s : Bytes) : symTK s ≠ .ident ∧ symTK s ≠ .eof := by
  unfold symTK
  split
  · rename_i p hp
    have := symTable_vals p (List.mem_of_find?_eq_some hp)
    exact ⟨this.1, this.2.1⟩
  · decide

theorem tk_ident {k : TokKind} : tk k = .ident ↔ k = .ident := by
  cases k <;> simp [tk, (symTK_ne _).1]

theorem posKwOf_eq {t : Token} (h : tk t.kind = .ident) : posKwOf t = posKwName t.asString := by
  have hk := tk_ident.1 h
  simp [posKwOf, posKwName, Token.isIdent, hk]

/-! ## facts about levels and yields -/

theorem BOp.level_le (op : BOp) : op.level ≤ 12 := by cases op <;> decide
theorem UOp.level_le (op : UOp) : op.level ≤ 12 := by cases op <;> decide

theorem level_le_12 (e : Expr) : level e ≤ 12 := by
  cases e <;> simp [level, BOp.level_le, UOp.level_le]
  all_goals (rename_i s _; cases s <;> simp)

theorem pathToks_snoc (a : Bytes) (ns : List Bytes) (n : Bytes) :
    pathToks ((a :: ns) ++ [n]) = pathToks (a :: ns) ++ [T .dot, ⟨.ident, n⟩] := by
  induction ns generalizing a with
  | nil => simp [pathToks]
  | cons b ns ih => simp only [List.cons_append, pathToks] at ih ⊢; rw [ih b]

theorem yield_mkSel {e : Expr} (n : Bytes) (h : NF e) : yield (mkSel e n) = yield e ++ [T .dot, ⟨.ident, n⟩] := by
  cases e <;> simp [mkSel, yield, pathToks]
  rename_i ns
  cases ns with
  | nil => simp [NF, nf] at h
  | cons a ns => simpa using pathToks_snoc a ns n

theorem good_mkSel {e : Expr} (n : Bytes) (hp : PrecOK e) (hn : NF e) (hl : level e ≤ 1) :
    PrecOK (mkSel e n) ∧ NF (mkSel e n) ∧ level (mkSel e n) ≤ 1 := by
  cases e <;> simp_all [mkSel, PrecOK, NF, precOK, nf, level, isIdentOrPath]
  omega

/-! ## what the productions promise -/

/-- a successful call of a production of level `k` -/
def Good (k : Nat) (ts : List Token) (e : Expr) (rest : List Token) : Prop :=
  Spells ts rest (yield e) ∧ PrecOK e ∧ NF e ∧ level e ≤ k

/-- a successful run of a loop of level `k` from accumulator `e` -/
def GoodLoop (k : Nat) (e : Expr) (ts : List Token) (e' : Expr) (rest : List Token) : Prop :=
  ∃ ys, yield e' = yield e ++ ys ∧ Spells ts rest ys ∧ PrecOK e' ∧ NF e' ∧ level e' ≤ k

def InCond.toks : InCond → List Tok'
  | .values first more => T .lparen :: (yield first ++ (yields more ++ [T .rparen]))
  | .unnest a => T .unnest :: T .lparen :: (yield a ++ [T .rparen])

def InCond.good : InCond → Prop
  | .values first more => PrecOK first ∧ NF first ∧ precOKs more = true ∧ nfs more = true
  | .unnest a => PrecOK a ∧ NF a

def IdxSpec.toks : IdxSpec → List Tok'
  | .plain i => yield i
  | .kw _ spelled i => ⟨.ident, spelled⟩ :: T .lparen :: (yield i ++ [T .rparen])

def IdxSpec.good : IdxSpec → Prop
  | .plain i => PrecOK i ∧ NF i
  | .kw k spelled i => PrecOK i ∧ NF i ∧ posKwName spelled = some k

structure SoundAt (f : Nat) : Prop where
  expr : ∀ ts e rest, parseExpr f ts = .ok (e, rest) → Good 12 ts e rest
  or_ : ∀ ts e rest, parseOr f ts = .ok (e, rest) → Good 12 ts e rest
  orLoop : ∀ e ts e' rest, orLoop f e ts = .ok (e', rest) → PrecOK e → NF e → level e ≤ 12 → GoodLoop 12 e ts e' rest
  and_ : ∀ ts e rest, parseAnd f ts = .ok (e, rest) → Good 11 ts e rest
  andLoop : ∀ e ts e' rest, andLoop f e ts = .ok (e', rest) → PrecOK e → NF e → level e ≤ 11 → GoodLoop 11 e ts e' rest
  not_ : ∀ ts e rest, parseNot f ts = .ok (e, rest) → Good 10 ts e rest
  cmp : ∀ ts e rest, parseComparison f ts = .ok (e, rest) → Good 9 ts e rest
  btw : ∀ not e ts e' rest, parseBetweenTail f not e ts = .ok (e', rest) →
    ∃ lo hi, e' = .between not e lo hi ∧ Spells ts rest (yield lo ++ (T .and_ :: yield hi)) ∧
      PrecOK lo ∧ NF lo ∧ level lo ≤ 8 ∧ PrecOK hi ∧ NF hi ∧ level hi ≤ 8
  inCond : ∀ ts c rest, parseInCondition f ts = .ok (c, rest) → Spells ts rest c.toks ∧ c.good
  inList : ∀ ts m rest, inListLoop f ts = .ok (m, rest) → Spells ts rest (yields m) ∧ precOKs m = true ∧ nfs m = true
  bitOr : ∀ ts e rest, parseBitOr f ts = .ok (e, rest) → Good 8 ts e rest
  bitOrLoop : ∀ e ts e' rest, bitOrLoop f e ts = .ok (e', rest) → PrecOK e → NF e → level e ≤ 8 → GoodLoop 8 e ts e' rest
  bitXor : ∀ ts e rest, parseBitXor f ts = .ok (e, rest) → Good 7 ts e rest
  bitXorLoop : ∀ e ts e' rest, bitXorLoop f e ts = .ok (e', rest) → PrecOK e → NF e → level e ≤ 7 → GoodLoop 7 e ts e' rest
  bitAnd : ∀ ts e rest, parseBitAnd f ts = .ok (e, rest) → Good 6 ts e rest
  bitAndLoop : ∀ e ts e' rest, bitAndLoop f e ts = .ok (e', rest) → PrecOK e → NF e → level e ≤ 6 → GoodLoop 6 e ts e' rest
  shift : ∀ ts e rest, parseBitShift f ts = .ok (e, rest) → Good 5 ts e rest
  shiftLoop : ∀ e ts e' rest, shiftLoop f e ts = .ok (e', rest) → PrecOK e → NF e → level e ≤ 5 → GoodLoop 5 e ts e' rest
  add : ∀ ts e rest, parseAddSub f ts = .ok (e, rest) → Good 4 ts e rest
  addLoop : ∀ e ts e' rest, addLoop f e ts = .ok (e', rest) → PrecOK e → NF e → level e ≤ 4 → GoodLoop 4 e ts e' rest
  mul : ∀ ts e rest, parseMulDiv f ts = .ok (e, rest) → Good 3 ts e rest
  mulLoop : ∀ e ts e' rest, mulLoop f e ts = .ok (e', rest) → PrecOK e → NF e → level e ≤ 3 → GoodLoop 3 e ts e' rest
  unary : ∀ ts e rest, parseUnary f ts = .ok (e, rest) → Good 2 ts e rest
  sel : ∀ ts e rest, parseSelector f ts = .ok (e, rest) → Good 1 ts e rest
  selLoop : ∀ e ts e' rest, selLoop f e ts = .ok (e', rest) → PrecOK e → NF e → level e ≤ 1 → GoodLoop 1 e ts e' rest
  idx : ∀ ts s rest, parseIndexSpecifier f ts = .ok (s, rest) → Spells ts rest s.toks ∧ s.good
  lit : ∀ ts e rest, parseLit f ts = .ok (e, rest) → Good 0 ts e rest
  paren : ∀ ts e rest, cur ts = .lparen → parseParenExpr f ts = .ok (e, rest) → Good 0 ts e rest
  caseE : ∀ ts e rest, parseCaseExpr f ts = .ok (e, rest) → Good 0 ts e rest
  caseLoop : ∀ ts ws rest, caseWhenLoop f ts = .ok (ws, rest) →
    Spells ts rest (yieldW ws) ∧ precOKw ws = true ∧ nfw ws = true
  caseWhen : ∀ ts c t rest, parseCaseWhen f ts = .ok ((c, t), rest) →
    Spells ts rest (T .when_ :: (yield c ++ (T .then_ :: yield t))) ∧ PrecOK c ∧ NF c ∧ PrecOK t ∧ NF t
  caseElse : ∀ ts e rest, parseCaseElse f ts = .ok (e, rest) → Spells ts rest (T .else_ :: yield e) ∧ PrecOK e ∧ NF e
  ifE : ∀ ts e rest, parseIfExpr f ts = .ok (e, rest) → Good 0 ts e rest
  arr : ∀ ts e rest, parseSimpleArrayLiteral f ts = .ok (e, rest) → Good 0 ts e rest
  cast : ∀ ts e rest, parseCastExpr f ts = .ok (e, rest) → Good 0 ts e rest

theorem Good.mono {k k' : Nat} {ts e rest} (h : Good k ts e rest) (hk : k ≤ k') : Good k' ts e rest :=
  ⟨h.1, h.2.1, h.2.2.1, Nat.le_trans h.2.2.2 hk⟩

theorem GoodLoop.refl (k : Nat) (e : Expr) (ts : List Token) (hp : PrecOK e) (hn : NF e) (hl : level e ≤ k) :
    GoodLoop k e ts e ts := ⟨[], by simp, Spells.nil ts, hp, hn, hl⟩

/-- `parse_k = parse_{k-1} ; loop_k` -/
theorem good_of_loop {k j : Nat} {ts ts1 rest : List Token} {e1 e : Expr}
    (h1 : Good j ts e1 ts1) (hjk : j ≤ k) (h2 : PrecOK e1 → NF e1 → level e1 ≤ k → GoodLoop k e1 ts1 e rest) :
    Good k ts e rest := by
  obtain ⟨s1, p1, n1, l1⟩ := h1
  obtain ⟨ys, hy, s2, p2, n2, l2⟩ := h2 p1 n1 (Nat.le_trans l1 hjk)
  exact ⟨(s1.append s2).cast hy.symm, p2, n2, l2⟩

/-- one iteration of a left-associative loop: `e op r` then the rest of the loop -/
theorem loop_iter {k : Nat} {op : BOp} {e r e' : Expr} {ts ts1 rest : List Token} {tkop : TK}
    (hop : op.toks = [T tkop]) (hlev : op.level = k) (hna : op.nonAssoc = false)
    (hcur : cur ts = tkop) (hne : tkop ≠ .eof)
    (hv : tkop ≠ .ident ∧ tkop ≠ .param ∧ tkop ≠ .string ∧ tkop ≠ .bytes ∧ tkop ≠ .int ∧ tkop ≠ .float)
    (hp : PrecOK e) (hn : NF e) (hl : level e ≤ k)
    (hr : Good (k - 1) ts.tail r ts1) (hk : 1 ≤ k)
    (hrest : PrecOK (.bin op e r) → NF (.bin op e r) → level (.bin op e r) ≤ k → GoodLoop k (.bin op e r) ts1 e' rest) :
    GoodLoop k e ts e' rest := by
  obtain ⟨sr, pr, nr, lr⟩ := hr
  have hpb : PrecOK (.bin op e r) := by
    simp only [PrecOK, precOK, hna, hlev] at hp pr ⊢
    simp [hp, pr]; omega
  have hnb : NF (.bin op e r) := by simp only [NF, nf] at hn nr ⊢; simp [hn, nr]
  have hlb : level (.bin op e r) ≤ k := by simp [level, hlev]
  obtain ⟨ys, hy, s2, p2, n2, l2⟩ := hrest hpb hnb hlb
  refine ⟨T tkop :: (yield r ++ ys), ?_, ?_, p2, n2, l2⟩
  · rw [hy]; simp [yield, hop]
  · exact ((Spells.tok hcur hne hv).append sr).append s2

theorem sound_zero : SoundAt 0 := by
  constructor <;> intros <;> simp_all [parseExpr, parseOr, orLoop, parseAnd, andLoop, parseNot, parseComparison,
    parseBetweenTail, parseInCondition, inListLoop, parseBitOr, bitOrLoop, parseBitXor, bitXorLoop, parseBitAnd,
    bitAndLoop, parseBitShift, shiftLoop, parseAddSub, addLoop, parseMulDiv, mulLoop, parseUnary, parseSelector,
    selLoop, parseIndexSpecifier, parseLit, parseParenExpr, parseCaseExpr, caseWhenLoop, parseCaseWhen, parseCaseElse,
    parseIfExpr, parseSimpleArrayLiteral, parseCastExpr]

/-! ## leaf lemmas -/

theorem proj_val {t : Token} : proj t = ⟨tk t.kind, tokVal t⟩ := rfl

/-- consume one token that carries a value -/
theorem Spells.valTok {ts : List Token} {k : TK} (h : cur ts = k) (hk : k ≠ .eof) :
    Spells ts ts.tail [⟨k, tokVal (hd ts)⟩] := by
  obtain ⟨t, tl, rfl, ht⟩ := cur_ne_eof h hk
  exact Spells.one (by simp [proj, ht])

theorem tokVal_ident {ts : List Token} (h : cur ts = .ident) : tokVal (hd ts) = (hd ts).asString := by
  obtain ⟨t, tl, rfl, ht⟩ := cur_ne_eof h (by decide); simp [tokVal, ht]
theorem tokVal_param {ts : List Token} (h : cur ts = .param) : tokVal (hd ts) = (hd ts).asString := by
  obtain ⟨t, tl, rfl, ht⟩ := cur_ne_eof h (by decide); simp [tokVal, ht]
theorem tokVal_string {ts : List Token} (h : cur ts = .string) : tokVal (hd ts) = (hd ts).asString := by
  obtain ⟨t, tl, rfl, ht⟩ := cur_ne_eof h (by decide); simp [tokVal, ht]
theorem tokVal_bytes {ts : List Token} (h : cur ts = .bytes) : tokVal (hd ts) = (hd ts).asString := by
  obtain ⟨t, tl, rfl, ht⟩ := cur_ne_eof h (by decide); simp [tokVal, ht]
theorem tokVal_int {ts : List Token} (h : cur ts = .int) : tokVal (hd ts) = (hd ts).raw := by
  obtain ⟨t, tl, rfl, ht⟩ := cur_ne_eof h (by decide); simp [tokVal, ht]
theorem tokVal_float {ts : List Token} (h : cur ts = .float) : tokVal (hd ts) = (hd ts).raw := by
  obtain ⟨t, tl, rfl, ht⟩ := cur_ne_eof h (by decide); simp [tokVal, ht]

/-- an operator token of a left-associative level -/
def OpTok (k : TK) (op : BOp) (L : Nat) : Prop :=
  op.toks = [T k] ∧ op.level = L ∧ op.nonAssoc = false ∧ k ≠ .eof ∧
    (k ≠ .ident ∧ k ≠ .param ∧ k ≠ .string ∧ k ≠ .bytes ∧ k ≠ .int ∧ k ≠ .float)

theorem shiftOp?_some {k : TK} {op : BOp} (h : shiftOp? k = some op) : OpTok k op 5 := by
  cases k <;> simp [shiftOp?] at h <;> subst h <;> exact ⟨rfl, rfl, rfl, by decide, by decide⟩
theorem addOp?_some {k : TK} {op : BOp} (h : addOp? k = some op) : OpTok k op 4 := by
  cases k <;> simp [addOp?] at h <;> subst h <;> exact ⟨rfl, rfl, rfl, by decide, by decide⟩
theorem mulOp?_some {k : TK} {op : BOp} (h : mulOp? k = some op) : OpTok k op 3 := by
  cases k <;> simp [mulOp?] at h <;> subst h <;> exact ⟨rfl, rfl, rfl, by decide, by decide⟩

theorem cmpOp?_some {k : TK} {op : BOp} (h : cmpOp? k = some op) :
    op.toks = [T k] ∧ op.level = 9 ∧ op.nonAssoc = true ∧ k ≠ .eof ∧
      (k ≠ .ident ∧ k ≠ .param ∧ k ≠ .string ∧ k ≠ .bytes ∧ k ≠ .int ∧ k ≠ .float) := by
  cases k <;> simp [cmpOp?] at h <;> subst h <;> exact ⟨rfl, rfl, rfl, by decide, by decide⟩

theorem unOp?_some {k : TK} {op : UOp} (h : unOp? k = some op) :
    op.tk = k ∧ op.level = 2 ∧ k ≠ .eof ∧
      (k ≠ .ident ∧ k ≠ .param ∧ k ≠ .string ∧ k ≠ .bytes ∧ k ≠ .int ∧ k ≠ .float) := by
  cases k <;> simp [unOp?] at h <;> subst h <;> exact ⟨rfl, rfl, by decide, by decide⟩

theorem loop_iter' {k : Nat} {op : BOp} {e r e' : Expr} {ts ts1 rest : List Token}
    (ho : OpTok (cur ts) op k)
    (hp : PrecOK e) (hn : NF e) (hl : level e ≤ k)
    (hr : Good (k - 1) ts.tail r ts1) (hk : 1 ≤ k)
    (hrest : PrecOK (.bin op e r) → NF (.bin op e r) → level (.bin op e r) ≤ k → GoodLoop k (.bin op e r) ts1 e' rest) :
    GoodLoop k e ts e' rest :=
  loop_iter ho.1 ho.2.1 ho.2.2.1 rfl ho.2.2.2.1 ho.2.2.2.2 hp hn hl hr hk hrest

/-- a comparison-level construct: operand of the `|` level, then its tail -/
theorem good_cmp {ts ts1 rest : List Token} {e1 e : Expr} {ys : List Tok'}
    (g1 : Good 8 ts e1 ts1) (hy : yield e = yield e1 ++ ys) (hs : Spells ts1 rest ys)
    (hp : PrecOK e1 → level e1 < 9 → PrecOK e) (hn : NF e1 → NF e) (hl : level e ≤ 9) : Good 9 ts e rest := by
  obtain ⟨s1, p1, n1, l1⟩ := g1
  exact ⟨(s1.append hs).cast hy.symm, hp p1 (by omega), hn n1, hl⟩

theorem foldSign_sound {op : UOp} {e1 e2 : Expr} (h : foldSign op e1 = .ok e2) (hop : op.level = 2)
    (hp : PrecOK e1) (hn : NF e1) (hl : level e1 ≤ 2) :
    yield e2 = T op.tk :: yield e1 ∧ PrecOK e2 ∧ NF e2 ∧ level e2 ≤ 2 := by
  cases op
  case not => simp [UOp.level] at hop
  case bitNot =>
    simp [foldSign, UOp.sign?] at h; subst h
    simp_all [yield, PrecOK, precOK, NF, nf, level, UOp.level, UOp.sign?]
  all_goals
    cases e1
    case int s raw =>
      cases s
      · simp only [foldSign, UOp.sign?] at h
        cases hu : unsignedRaw? raw with
        | none => simp [hu] at h
        | some b =>
          cases b <;> simp [hu] at h <;> subst h <;>
            simp_all [yield, PrecOK, precOK, NF, nf, level, UOp.level, UOp.sign?, rawSigned, signToks, Sign.tk, UOp.tk]
      · simp [foldSign, UOp.sign?] at h; subst h
        simp_all [yield, PrecOK, precOK, NF, nf, level, UOp.level, UOp.sign?, rawSigned]
    case float s raw =>
      cases s
      · simp only [foldSign, UOp.sign?] at h
        cases hu : unsignedRaw? raw with
        | none => simp [hu] at h
        | some b =>
          cases b <;> simp [hu] at h <;> subst h <;>
            simp_all [yield, PrecOK, precOK, NF, nf, level, UOp.level, UOp.sign?, rawSigned, signToks, Sign.tk, UOp.tk]
      · simp [foldSign, UOp.sign?] at h; subst h
        simp_all [yield, PrecOK, precOK, NF, nf, level, UOp.level, UOp.sign?, rawSigned]
    all_goals
      simp [foldSign, UOp.sign?] at h; subst h
      simp_all [yield, PrecOK, precOK, NF, nf, level, UOp.level, UOp.sign?, rawSigned]

theorem parseIsTail_sound {e e' : Expr} {ts rest : List Token} (h : parseIsTail e ts = .ok (e', rest)) :
    ∃ ys, yield e' = yield e ++ (T .is_ :: ys) ∧ Spells ts rest ys ∧
      (PrecOK e → level e < 9 → PrecOK e') ∧ (NF e → NF e') ∧ level e' ≤ 9 := by
  unfold parseIsTail at h
  by_cases hnot : cur ts = .not_
  · simp only [hnot, beq_self_eq_true, if_true] at h
    have s0 := Spells.tok hnot (by decide) (by decide)
    split at h
    · rename_i hc; cases h
      exact ⟨[T .not_, T .null], by simp [yield, notToks], s0.append (Spells.tok hc (by decide) (by decide)),
        by simp [PrecOK, precOK]; exact fun a b => ⟨a, b⟩, by simp [NF, nf], by simp [level]⟩
    · rename_i hc; cases h
      exact ⟨[T .not_, T .true_], by simp [yield, notToks, boolTK], s0.append (Spells.tok hc (by decide) (by decide)),
        by simp [PrecOK, precOK]; exact fun a b => ⟨a, b⟩, by simp [NF, nf], by simp [level]⟩
    · rename_i hc; cases h
      exact ⟨[T .not_, T .false_], by simp [yield, notToks, boolTK], s0.append (Spells.tok hc (by decide) (by decide)),
        by simp [PrecOK, precOK]; exact fun a b => ⟨a, b⟩, by simp [NF, nf], by simp [level]⟩
    · cases h
  · have hb : (cur ts == TK.not_) = false := by simpa using hnot
    simp only [hb, Bool.false_eq_true, if_false] at h
    split at h
    · rename_i hc; cases h
      exact ⟨[T .null], by simp [yield, notToks], Spells.tok hc (by decide) (by decide),
        by simp [PrecOK, precOK]; exact fun a b => ⟨a, b⟩, by simp [NF, nf], by simp [level]⟩
    · rename_i hc; cases h
      exact ⟨[T .true_], by simp [yield, notToks, boolTK], Spells.tok hc (by decide) (by decide),
        by simp [PrecOK, precOK]; exact fun a b => ⟨a, b⟩, by simp [NF, nf], by simp [level]⟩
    · rename_i hc; cases h
      exact ⟨[T .false_], by simp [yield, notToks, boolTK], Spells.tok hc (by decide) (by decide),
        by simp [PrecOK, precOK]; exact fun a b => ⟨a, b⟩, by simp [NF, nf], by simp [level]⟩
    · cases h

theorem yield_inCond (c : InCond) (not : Bool) (e : Expr) :
    yield (c.mk not e) = yield e ++ (notToks not ++ (T .in_ :: c.toks)) := by
  cases c <;> simp [InCond.mk, InCond.toks, yield]

theorem good_inCond {c : InCond} (not : Bool) {e : Expr} (hc : c.good) :
    (PrecOK e → level e < 9 → PrecOK (c.mk not e)) ∧ (NF e → NF (c.mk not e)) ∧ level (c.mk not e) ≤ 9 := by
  cases c <;> simp_all [InCond.mk, InCond.good, PrecOK, NF, precOK, nf, level]

theorem yield_idx (s : IdxSpec) (e : Expr) : yield (s.mk e) = yield e ++ (T .lbrack :: (s.toks ++ [T .rbrack])) := by
  cases s <;> simp [IdxSpec.mk, IdxSpec.toks, yield]

theorem good_idx {s : IdxSpec} {e : Expr} (hs : s.good) (hp : PrecOK e) (hn : NF e) (hl : level e ≤ 1) :
    PrecOK (s.mk e) ∧ NF (s.mk e) ∧ level (s.mk e) ≤ 1 := by
  cases s <;> simp_all [IdxSpec.mk, IdxSpec.good, PrecOK, NF, precOK, nf, level]

theorem startsPosKw_of_none {ts rest : List Token} {ys : List Tok'} (h : posKw? ts = none) (hs : Spells ts rest ys) :
    startsPosKw ys = false := by
  obtain ⟨pre, rfl, rfl⟩ := hs
  cases pre with
  | nil => simp [startsPosKw]
  | cons t p =>
    simp only [List.map_cons]
    by_cases hk : tk t.kind = .ident
    · simp only [posKw?, cur_cons, hk, if_true, hd_cons, List.cons_append, posKwOf_eq hk] at h
      simp [proj, hk, tokVal, startsPosKw, h]
    · unfold startsPosKw
      split
      · rename_i v _ heq
        simp [proj] at heq
        exact absurd heq.1.1 hk
      · rfl

/-! ## the type of a CAST -/

theorem pathLoop_spells : ∀ (f : Nat) (ts : List Token) (ids : List TypeP.Ident) (rest : List Token),
    TypeP.pathLoop f ts = .ok (ids, rest) →
      Spells ts rest (dotToks (ids.map (·.name))) ∧ (ids = [] → TypeP.cur ts ≠ .dot)
  | 0, _, _, _, h => by simp [TypeP.pathLoop] at h
  | f + 1, ts, ids, rest, h => by
    simp only [TypeP.pathLoop] at h
    split at h
    · rename_i hc
      obtain ⟨⟨i1, ts1⟩, h1, h2⟩ := TypeP.Res.bind_eq_ok.1 h
      obtain ⟨⟨is2, ts2⟩, h3, h4⟩ := TypeP.Res.bind_eq_ok.1 h2
      simp only [TypeP.Res.ok.injEq, Prod.mk.injEq] at h4
      obtain ⟨rfl, rfl⟩ := h4
      simp only [TypeP.parseIdent, TypeP.expect] at h1
      split at h1
      · rename_i hc2
        simp only [TypeP.Res.bind_ok, TypeP.Res.ok.injEq, Prod.mk.injEq] at h1
        obtain ⟨rfl, rfl⟩ := h1
        obtain ⟨s3, _⟩ := pathLoop_spells f _ _ _ h3
        have hd1 : cur ts = .dot := tcur_dot.1 hc
        have hi1 : cur ts.tail = .ident := tcur_ident.1 hc2
        have sv := Spells.valTok hi1 (by decide)
        rw [tokVal_ident hi1] at sv
        refine ⟨?_, fun h0 => by cases h0⟩
        simpa [dotToks, TypeP.hd, hd] using ((Spells.tok hd1 (by decide) (by decide)).append sv).append s3
      · simp [TypeP.Res.bind] at h1
    · rename_i hc
      simp only [TypeP.Res.ok.injEq, Prod.mk.injEq] at h
      obtain ⟨rfl, rfl⟩ := h
      exact ⟨Spells.nil _, fun _ => hc⟩

theorem castType_sound {f : Nat} {ts : List Token} {ns : List Bytes} {rest : List Token}
    (h : castType f ts = .ok (ns, rest)) : Spells ts rest (pathToks ns) ∧ nfT ns = true := by
  obtain ⟨t, tl, rfl, hk, hs⟩ := castType_ok_inv h
  cases f with
  | zero => rw [castType_zero _ (by simp [TypeP.cur, TypeP.tk_ident, hk]) hs] at h; cases h
  | succ f =>
    rw [castType_succ hk hs] at h
    cases hp : TypeP.pathLoop f tl with
    | ok a =>
      obtain ⟨ids, rest'⟩ := a
      rw [hp] at h
      simp only [Res.ok.injEq, Prod.mk.injEq] at h
      obtain ⟨rfl, rfl⟩ := h
      obtain ⟨s1, hnil⟩ := pathLoop_spells f tl ids rest' hp
      have hc : cur (t :: tl) = .ident := by simp [cur, hk, tk]
      have sv := Spells.valTok hc (by decide)
      rw [tokVal_ident hc] at sv
      refine ⟨by rw [pathToks_eq]; exact sv.append s1, ?_⟩
      cases ids with
      | cons i r => simp [nfT]
      | nil =>
        have hnd := hnil rfl
        simp only [List.map_nil, nfT]
        simp only [TypeP.lookaheadSimpleType, TypeP.cur, TypeP.tk_ident.2 hk, ne_eq, not_true_eq_false, if_false,
          TypeP.hd, List.headD_cons, TypeP.lookaheadKind, List.tail_cons] at hs
        rw [← simpleName?_eq hk]
        cases hsn : TypeP.simpleName? t with
        | none => rfl
        | some n =>
          simp only [hsn, Option.isSome_some, if_true, bne_eq_false_iff_eq] at hs
          exact absurd hs hnd
    | raise => rw [hp] at h; cases h
    | outOfFuel => rw [hp] at h; cases h

/-! ## the induction step, one lemma per function -/

section Step
variable {f : Nat}

theorem s_expr (ih : SoundAt f) : ∀ ts e rest, parseExpr (f + 1) ts = .ok (e, rest) → Good 12 ts e rest := by
  intro ts e rest h; simp only [parseExpr] at h; exact ih.or_ ts e rest h

theorem s_or (ih : SoundAt f) : ∀ ts e rest, parseOr (f + 1) ts = .ok (e, rest) → Good 12 ts e rest := by
  intro ts e rest h
  simp only [parseOr] at h
  obtain ⟨⟨e1, ts1⟩, h1, h2⟩ := Res.bind_eq_ok.1 h
  exact good_of_loop (ih.and_ ts e1 ts1 h1) (by omega) (ih.orLoop e1 ts1 e rest h2)

theorem s_orLoop (ih : SoundAt f) : ∀ e ts e' rest, orLoop (f + 1) e ts = .ok (e', rest) →
    PrecOK e → NF e → level e ≤ 12 → GoodLoop 12 e ts e' rest := by
  intro e ts e' rest h hp hn hl
  simp only [orLoop] at h
  split at h
  · rename_i hc
    obtain ⟨⟨r, ts1⟩, h1, h2⟩ := Res.bind_eq_ok.1 h
    exact loop_iter (op := .or) rfl rfl rfl hc (by decide) (by decide) hp hn hl (ih.and_ _ _ _ h1) (by omega)
      (ih.orLoop _ _ _ _ h2)
  · cases h; exact GoodLoop.refl _ _ _ hp hn hl

theorem s_and (ih : SoundAt f) : ∀ ts e rest, parseAnd (f + 1) ts = .ok (e, rest) → Good 11 ts e rest := by
  intro ts e rest h
  simp only [parseAnd] at h
  obtain ⟨⟨e1, ts1⟩, h1, h2⟩ := Res.bind_eq_ok.1 h
  exact good_of_loop (ih.not_ ts e1 ts1 h1) (by omega) (ih.andLoop e1 ts1 e rest h2)

theorem s_andLoop (ih : SoundAt f) : ∀ e ts e' rest, andLoop (f + 1) e ts = .ok (e', rest) →
    PrecOK e → NF e → level e ≤ 11 → GoodLoop 11 e ts e' rest := by
  intro e ts e' rest h hp hn hl
  simp only [andLoop] at h
  split at h
  · rename_i hc
    obtain ⟨⟨r, ts1⟩, h1, h2⟩ := Res.bind_eq_ok.1 h
    exact loop_iter (op := .and) rfl rfl rfl hc (by decide) (by decide) hp hn hl (ih.not_ _ _ _ h1) (by omega)
      (ih.andLoop _ _ _ _ h2)
  · cases h; exact GoodLoop.refl _ _ _ hp hn hl

theorem s_not (ih : SoundAt f) : ∀ ts e rest, parseNot (f + 1) ts = .ok (e, rest) → Good 10 ts e rest := by
  intro ts e rest h
  simp only [parseNot] at h
  split at h
  · rename_i hc
    obtain ⟨⟨e1, ts1⟩, h1, h2⟩ := Res.bind_eq_ok.1 h
    cases h2
    obtain ⟨s1, p1, n1, l1⟩ := ih.not_ _ _ _ h1
    refine ⟨?_, ?_, ?_, ?_⟩
    · simpa [yield, UOp.tk] using (Spells.tok hc (by decide) (by decide)).append s1
    · simp only [PrecOK, precOK, UOp.level] at p1 ⊢; simp [p1, l1]
    · simp only [NF, nf] at n1 ⊢; simp [n1, UOp.sign?]
    · simp [level, UOp.level]
  · exact (ih.cmp _ _ _ h).mono (by omega)

theorem s_btw (ih : SoundAt f) : ∀ not e ts e' rest, parseBetweenTail (f + 1) not e ts = .ok (e', rest) →
    ∃ lo hi, e' = .between not e lo hi ∧ Spells ts rest (yield lo ++ (T .and_ :: yield hi)) ∧
      PrecOK lo ∧ NF lo ∧ level lo ≤ 8 ∧ PrecOK hi ∧ NF hi ∧ level hi ≤ 8 := by
  intro not e ts e' rest h
  simp only [parseBetweenTail] at h
  obtain ⟨⟨lo, ts1⟩, h1, h2⟩ := Res.bind_eq_ok.1 h
  simp only at h2
  split at h2
  · rename_i hc
    obtain ⟨⟨hi, ts2⟩, h3, h4⟩ := Res.bind_eq_ok.1 h2
    cases h4
    obtain ⟨s1, p1, n1, l1⟩ := ih.bitOr _ _ _ h1
    obtain ⟨s2, p2, n2, l2⟩ := ih.bitOr _ _ _ h3
    exact ⟨lo, hi, rfl, s1.append ((Spells.tok hc (by decide) (by decide)).append s2), p1, n1, l1, p2, n2, l2⟩
  · cases h2

theorem s_cmp (ih : SoundAt f) : ∀ ts e rest, parseComparison (f + 1) ts = .ok (e, rest) → Good 9 ts e rest := by
  intro ts e rest h
  simp only [parseComparison] at h
  obtain ⟨⟨e1, ts1⟩, h1, h2⟩ := Res.bind_eq_ok.1 h
  have g1 := ih.bitOr _ _ _ h1
  simp only at h2
  split at h2
  · -- a simple comparison operator
    rename_i op hop
    obtain ⟨ht, hlv, hna, hne, hv⟩ := cmpOp?_some hop
    obtain ⟨⟨r, ts2⟩, h3, h4⟩ := Res.bind_eq_ok.1 h2
    cases h4
    obtain ⟨s2, p2, n2, l2⟩ := ih.bitOr _ _ _ h3
    refine good_cmp g1 (ys := T (cur ts1) :: yield r) (by simp [yield, ht])
      ((Spells.tok rfl hne hv).append s2) ?_ ?_ (by simp [level, hlv])
    · intro p1 l1
      simp only [PrecOK, precOK, hna, hlv] at p1 p2 ⊢
      simp [p1, p2, l1]; omega
    · intro n1; simp only [NF, nf] at n1 n2 ⊢; simp [n1, n2]
  · split at h2
    · -- IN
      rename_i hc
      obtain ⟨⟨c, ts2⟩, h3, h4⟩ := Res.bind_eq_ok.1 h2
      cases h4
      obtain ⟨sc, gc⟩ := ih.inCond _ _ _ h3
      obtain ⟨a, b, c'⟩ := good_inCond false (e := e1) gc
      exact good_cmp g1 (by simpa [notToks] using yield_inCond c false e1)
        ((Spells.tok hc (by decide) (by decide)).append sc) a b c'
    · -- BETWEEN
      rename_i hc
      obtain ⟨lo, hi, rfl, sb, p1, n1, l1, p2, n2, l2⟩ := ih.btw _ _ _ _ _ h2
      refine good_cmp g1 (by simp [yield, notToks])
        ((Spells.tok hc (by decide) (by decide)).append sb) ?_ ?_ (by simp [level])
      · intro p l
        simp only [PrecOK, precOK] at p p1 p2 ⊢
        simp [p, p1, p2, l]; omega
      · intro n; simp only [NF, nf] at n n1 n2 ⊢; simp [n, n1, n2]
    · -- NOT …
      rename_i hc
      have s0 := Spells.tok hc (by decide) (by decide)
      split at h2
      · -- NOT LIKE
        rename_i hc2
        obtain ⟨⟨r, ts2⟩, h3, h4⟩ := Res.bind_eq_ok.1 h2
        cases h4
        obtain ⟨s2, p2, n2, l2⟩ := ih.bitOr _ _ _ h3
        refine good_cmp g1 (ys := T .not_ :: T .like :: yield r) (by simp [yield, BOp.toks])
          ((s0.append (Spells.tok hc2 (by decide) (by decide))).append s2) ?_ ?_ (by simp [level, BOp.level])
        · intro p1 l1
          have hna : BOp.notLike.nonAssoc = true := rfl
          have hlv : BOp.notLike.level = 9 := rfl
          simp only [PrecOK, precOK, hna, hlv] at p1 p2 ⊢
          simp [p1, p2, l1]; omega
        · intro n1; simp only [NF, nf] at n1 n2 ⊢; simp [n1, n2]
      · -- NOT IN
        rename_i hc2
        obtain ⟨⟨c, ts2⟩, h3, h4⟩ := Res.bind_eq_ok.1 h2
        cases h4
        obtain ⟨sc, gc⟩ := ih.inCond _ _ _ h3
        obtain ⟨a, b, c'⟩ := good_inCond true (e := e1) gc
        exact good_cmp g1 (by simpa [notToks] using yield_inCond c true e1)
          ((s0.append (Spells.tok hc2 (by decide) (by decide))).append sc) a b c'
      · -- NOT BETWEEN
        rename_i hc2
        obtain ⟨lo, hi, rfl, sb, p1, n1, l1, p2, n2, l2⟩ := ih.btw _ _ _ _ _ h2
        refine good_cmp g1 (by simp [yield, notToks])
          ((s0.append (Spells.tok hc2 (by decide) (by decide))).append sb) ?_ ?_ (by simp [level])
        · intro p l
          simp only [PrecOK, precOK] at p p1 p2 ⊢
          simp [p, p1, p2, l]; omega
        · intro n; simp only [NF, nf] at n n1 n2 ⊢; simp [n, n1, n2]
      · cases h2
    · -- IS
      rename_i hc
      obtain ⟨ys, hy, sy, hp, hn, hl⟩ := parseIsTail_sound h2
      exact good_cmp g1 hy ((Spells.tok hc (by decide) (by decide)).append sy) hp hn hl
    · cases h2; exact g1.mono (by omega)

theorem s_inCond (ih : SoundAt f) : ∀ ts c rest, parseInCondition (f + 1) ts = .ok (c, rest) →
    Spells ts rest c.toks ∧ c.good := by
  intro ts c rest h
  simp only [parseInCondition] at h
  split at h
  · cases h
  split at h
  · rename_i hc
    obtain ⟨⟨e1, ts1⟩, h1, h2⟩ := Res.bind_eq_ok.1 h
    obtain ⟨⟨m, ts2⟩, h3, h4⟩ := Res.bind_eq_ok.1 h2
    simp only at h4
    split at h4
    · rename_i hc2
      cases h4
      obtain ⟨s1, p1, n1, _⟩ := ih.expr _ _ _ h1
      obtain ⟨s2, p2, n2⟩ := ih.inList _ _ _ h3
      exact ⟨(Spells.tok hc (by decide) (by decide)).append
        (s1.append (s2.append (Spells.tok hc2 (by decide) (by decide)))), p1, n1, p2, n2⟩
    · cases h4
  · rename_i hc
    split at h
    · rename_i hc2
      obtain ⟨⟨e1, ts1⟩, h1, h2⟩ := Res.bind_eq_ok.1 h
      simp only at h2
      split at h2
      · rename_i hc3
        cases h2
        obtain ⟨s1, p1, n1, _⟩ := ih.expr _ _ _ h1
        exact ⟨(Spells.tok hc (by decide) (by decide)).append ((Spells.tok hc2 (by decide) (by decide)).append
          (s1.append (Spells.tok hc3 (by decide) (by decide)))), p1, n1⟩
      · cases h2
    · cases h
  · cases h

theorem s_inList (ih : SoundAt f) : ∀ ts m rest, inListLoop (f + 1) ts = .ok (m, rest) →
    Spells ts rest (yields m) ∧ precOKs m = true ∧ nfs m = true := by
  intro ts m rest h
  simp only [inListLoop] at h
  split at h
  · rename_i hc
    obtain ⟨⟨e1, ts1⟩, h1, h2⟩ := Res.bind_eq_ok.1 h
    obtain ⟨⟨m1, ts2⟩, h3, h4⟩ := Res.bind_eq_ok.1 h2
    cases h4
    obtain ⟨s1, p1, n1, _⟩ := ih.expr _ _ _ h1
    obtain ⟨s2, p2, n2⟩ := ih.inList _ _ _ h3
    refine ⟨?_, ?_, ?_⟩
    · simpa [yields] using (Spells.tok hc (by decide) (by decide)).append (s1.append s2)
    · simp only [PrecOK] at p1; simp [precOKs, p1, p2]
    · simp only [NF] at n1; simp [nfs, n1, n2]
  · cases h; exact ⟨Spells.nil _, rfl, rfl⟩

theorem s_bitOr (ih : SoundAt f) : ∀ ts e rest, parseBitOr (f + 1) ts = .ok (e, rest) → Good 8 ts e rest := by
  intro ts e rest h
  simp only [parseBitOr] at h
  obtain ⟨⟨e1, ts1⟩, h1, h2⟩ := Res.bind_eq_ok.1 h
  exact good_of_loop (ih.bitXor ts e1 ts1 h1) (by omega) (ih.bitOrLoop e1 ts1 e rest h2)

theorem s_bitOrLoop (ih : SoundAt f) : ∀ e ts e' rest, bitOrLoop (f + 1) e ts = .ok (e', rest) →
    PrecOK e → NF e → level e ≤ 8 → GoodLoop 8 e ts e' rest := by
  intro e ts e' rest h hp hn hl
  simp only [bitOrLoop] at h
  split at h
  · rename_i hc
    obtain ⟨⟨r, ts1⟩, h1, h2⟩ := Res.bind_eq_ok.1 h
    exact loop_iter (op := .bitOr) rfl rfl rfl hc (by decide) (by decide) hp hn hl (ih.bitXor _ _ _ h1) (by omega)
      (ih.bitOrLoop _ _ _ _ h2)
  · cases h; exact GoodLoop.refl _ _ _ hp hn hl

theorem s_bitXor (ih : SoundAt f) : ∀ ts e rest, parseBitXor (f + 1) ts = .ok (e, rest) → Good 7 ts e rest := by
  intro ts e rest h
  simp only [parseBitXor] at h
  obtain ⟨⟨e1, ts1⟩, h1, h2⟩ := Res.bind_eq_ok.1 h
  exact good_of_loop (ih.bitAnd ts e1 ts1 h1) (by omega) (ih.bitXorLoop e1 ts1 e rest h2)

theorem s_bitXorLoop (ih : SoundAt f) : ∀ e ts e' rest, bitXorLoop (f + 1) e ts = .ok (e', rest) →
    PrecOK e → NF e → level e ≤ 7 → GoodLoop 7 e ts e' rest := by
  intro e ts e' rest h hp hn hl
  simp only [bitXorLoop] at h
  split at h
  · rename_i hc
    obtain ⟨⟨r, ts1⟩, h1, h2⟩ := Res.bind_eq_ok.1 h
    exact loop_iter (op := .bitXor) rfl rfl rfl hc (by decide) (by decide) hp hn hl (ih.bitAnd _ _ _ h1) (by omega)
      (ih.bitXorLoop _ _ _ _ h2)
  · cases h; exact GoodLoop.refl _ _ _ hp hn hl

theorem s_bitAnd (ih : SoundAt f) : ∀ ts e rest, parseBitAnd (f + 1) ts = .ok (e, rest) → Good 6 ts e rest := by
  intro ts e rest h
  simp only [parseBitAnd] at h
  obtain ⟨⟨e1, ts1⟩, h1, h2⟩ := Res.bind_eq_ok.1 h
  exact good_of_loop (ih.shift ts e1 ts1 h1) (by omega) (ih.bitAndLoop e1 ts1 e rest h2)

theorem s_bitAndLoop (ih : SoundAt f) : ∀ e ts e' rest, bitAndLoop (f + 1) e ts = .ok (e', rest) →
    PrecOK e → NF e → level e ≤ 6 → GoodLoop 6 e ts e' rest := by
  intro e ts e' rest h hp hn hl
  simp only [bitAndLoop] at h
  split at h
  · rename_i hc
    obtain ⟨⟨r, ts1⟩, h1, h2⟩ := Res.bind_eq_ok.1 h
    exact loop_iter (op := .bitAnd) rfl rfl rfl hc (by decide) (by decide) hp hn hl (ih.shift _ _ _ h1) (by omega)
      (ih.bitAndLoop _ _ _ _ h2)
  · cases h; exact GoodLoop.refl _ _ _ hp hn hl

theorem s_shift (ih : SoundAt f) : ∀ ts e rest, parseBitShift (f + 1) ts = .ok (e, rest) → Good 5 ts e rest := by
  intro ts e rest h
  simp only [parseBitShift] at h
  obtain ⟨⟨e1, ts1⟩, h1, h2⟩ := Res.bind_eq_ok.1 h
  exact good_of_loop (ih.add ts e1 ts1 h1) (by omega) (ih.shiftLoop e1 ts1 e rest h2)

theorem s_shiftLoop (ih : SoundAt f) : ∀ e ts e' rest, shiftLoop (f + 1) e ts = .ok (e', rest) →
    PrecOK e → NF e → level e ≤ 5 → GoodLoop 5 e ts e' rest := by
  intro e ts e' rest h hp hn hl
  simp only [shiftLoop] at h
  split at h
  · rename_i op hop
    obtain ⟨⟨r, ts1⟩, h1, h2⟩ := Res.bind_eq_ok.1 h
    exact loop_iter' (shiftOp?_some hop) hp hn hl (ih.add _ _ _ h1) (by omega) (ih.shiftLoop _ _ _ _ h2)
  · cases h; exact GoodLoop.refl _ _ _ hp hn hl

theorem s_add (ih : SoundAt f) : ∀ ts e rest, parseAddSub (f + 1) ts = .ok (e, rest) → Good 4 ts e rest := by
  intro ts e rest h
  simp only [parseAddSub] at h
  obtain ⟨⟨e1, ts1⟩, h1, h2⟩ := Res.bind_eq_ok.1 h
  exact good_of_loop (ih.mul ts e1 ts1 h1) (by omega) (ih.addLoop e1 ts1 e rest h2)

theorem s_addLoop (ih : SoundAt f) : ∀ e ts e' rest, addLoop (f + 1) e ts = .ok (e', rest) →
    PrecOK e → NF e → level e ≤ 4 → GoodLoop 4 e ts e' rest := by
  intro e ts e' rest h hp hn hl
  simp only [addLoop] at h
  split at h
  · rename_i op hop
    obtain ⟨⟨r, ts1⟩, h1, h2⟩ := Res.bind_eq_ok.1 h
    exact loop_iter' (addOp?_some hop) hp hn hl (ih.mul _ _ _ h1) (by omega) (ih.addLoop _ _ _ _ h2)
  · cases h; exact GoodLoop.refl _ _ _ hp hn hl

theorem s_mul (ih : SoundAt f) : ∀ ts e rest, parseMulDiv (f + 1) ts = .ok (e, rest) → Good 3 ts e rest := by
  intro ts e rest h
  simp only [parseMulDiv] at h
  obtain ⟨⟨e1, ts1⟩, h1, h2⟩ := Res.bind_eq_ok.1 h
  exact good_of_loop (ih.unary ts e1 ts1 h1) (by omega) (ih.mulLoop e1 ts1 e rest h2)

theorem s_mulLoop (ih : SoundAt f) : ∀ e ts e' rest, mulLoop (f + 1) e ts = .ok (e', rest) →
    PrecOK e → NF e → level e ≤ 3 → GoodLoop 3 e ts e' rest := by
  intro e ts e' rest h hp hn hl
  simp only [mulLoop] at h
  split at h
  · rename_i op hop
    obtain ⟨⟨r, ts1⟩, h1, h2⟩ := Res.bind_eq_ok.1 h
    exact loop_iter' (mulOp?_some hop) hp hn hl (ih.unary _ _ _ h1) (by omega) (ih.mulLoop _ _ _ _ h2)
  · cases h; exact GoodLoop.refl _ _ _ hp hn hl

theorem s_unary (ih : SoundAt f) : ∀ ts e rest, parseUnary (f + 1) ts = .ok (e, rest) → Good 2 ts e rest := by
  intro ts e rest h
  simp only [parseUnary] at h
  split at h
  · exact (ih.sel _ _ _ h).mono (by omega)
  · rename_i op hop
    obtain ⟨htk, hlv, hne, hv⟩ := unOp?_some hop
    obtain ⟨⟨e1, ts1⟩, h1, h2⟩ := Res.bind_eq_ok.1 h
    obtain ⟨e2, h3, h4⟩ := Res.bind_eq_ok.1 h2
    cases h4
    obtain ⟨s1, p1, n1, l1⟩ := ih.unary _ _ _ h1
    obtain ⟨hy, p2, n2, l2⟩ := foldSign_sound h3 hlv p1 n1 l1
    exact ⟨((Spells.tok rfl hne hv).append s1).cast (by rw [hy, htk]; rfl), p2, n2, l2⟩

theorem s_sel (ih : SoundAt f) : ∀ ts e rest, parseSelector (f + 1) ts = .ok (e, rest) → Good 1 ts e rest := by
  intro ts e rest h
  simp only [parseSelector] at h
  obtain ⟨⟨e1, ts1⟩, h1, h2⟩ := Res.bind_eq_ok.1 h
  exact good_of_loop (ih.lit ts e1 ts1 h1) (by omega) (ih.selLoop e1 ts1 e rest h2)

theorem s_selLoop (ih : SoundAt f) : ∀ e ts e' rest, selLoop (f + 1) e ts = .ok (e', rest) →
    PrecOK e → NF e → level e ≤ 1 → GoodLoop 1 e ts e' rest := by
  intro e ts e' rest h hp hn hl
  simp only [selLoop] at h
  split at h
  · rename_i hc
    split at h
    · cases h; exact GoodLoop.refl _ _ _ hp hn hl
    · obtain ⟨⟨n, ts1⟩, h1, h2⟩ := Res.bind_eq_ok.1 h
      simp only [parseIdent] at h1
      split at h1
      · rename_i hc2
        cases h1
        obtain ⟨p1, n1, l1⟩ := good_mkSel (hd ts.tail).asString hp hn hl
        obtain ⟨ys, hy, s2, p2, n2, l2⟩ := ih.selLoop _ _ _ _ h2 p1 n1 l1
        refine ⟨T .dot :: ⟨.ident, (hd ts.tail).asString⟩ :: ys, ?_, ?_, p2, n2, l2⟩
        · rw [hy, yield_mkSel _ hn]; simp
        · have sv := Spells.valTok hc2 (by decide)
          rw [tokVal_ident hc2] at sv
          exact ((Spells.tok hc (by decide) (by decide)).append sv).append s2
      · cases h1
  · rename_i hc
    obtain ⟨⟨s, ts1⟩, h1, h2⟩ := Res.bind_eq_ok.1 h
    simp only at h2
    split at h2
    · rename_i hc2
      obtain ⟨ss, gs⟩ := ih.idx _ _ _ h1
      obtain ⟨p1, n1, l1⟩ := good_idx gs hp hn hl
      obtain ⟨ys, hy, s2, p2, n2, l2⟩ := ih.selLoop _ _ _ _ h2 p1 n1 l1
      refine ⟨T .lbrack :: (s.toks ++ [T .rbrack]) ++ ys, ?_, ?_, p2, n2, l2⟩
      · rw [hy, yield_idx]; simp
      · exact ((Spells.tok hc (by decide) (by decide)).append
          (ss.append (Spells.tok hc2 (by decide) (by decide)))).append s2
    · cases h2
  · cases h; exact GoodLoop.refl _ _ _ hp hn hl

theorem s_idx (ih : SoundAt f) : ∀ ts s rest, parseIndexSpecifier (f + 1) ts = .ok (s, rest) →
    Spells ts rest s.toks ∧ s.good := by
  intro ts s rest h
  simp only [parseIndexSpecifier] at h
  split at h
  · rename_i k hk
    have hc : cur ts = .ident := by
      unfold posKw? at hk; split at hk
      · assumption
      · cases hk
    simp only [posKw?, hc, if_true] at hk
    split at h
    · rename_i hc2
      obtain ⟨⟨e1, ts1⟩, h1, h2⟩ := Res.bind_eq_ok.1 h
      simp only at h2
      split at h2
      · rename_i hc3
        cases h2
        obtain ⟨s1, p1, n1, _⟩ := ih.expr _ _ _ h1
        have sv := Spells.valTok hc (by decide)
        rw [tokVal_ident hc] at sv
        refine ⟨sv.append ((Spells.tok hc2 (by decide) (by decide)).append
          (s1.append (Spells.tok hc3 (by decide) (by decide)))), p1, n1, ?_⟩
        obtain ⟨t, tl, rfl, ht⟩ := cur_ne_eof hc (by decide)
        simpa [posKwOf_eq ht] using hk
      · cases h2
    · -- the word is not followed by `(`: an ordinary name, `default:` branch
      obtain ⟨⟨e1, ts1⟩, h1, h2⟩ := Res.bind_eq_ok.1 h
      cases h2
      obtain ⟨s1, p1, n1, _⟩ := ih.expr _ _ _ h1
      exact ⟨s1, p1, n1⟩
  · rename_i hk
    obtain ⟨⟨e1, ts1⟩, h1, h2⟩ := Res.bind_eq_ok.1 h
    cases h2
    obtain ⟨s1, p1, n1, _⟩ := ih.expr _ _ _ h1
    exact ⟨s1, p1, n1⟩

theorem s_paren (ih : SoundAt f) : ∀ ts e rest, cur ts = .lparen → parseParenExpr (f + 1) ts = .ok (e, rest) →
    Good 0 ts e rest := by
  intro ts e rest hc h
  simp only [parseParenExpr] at h
  split at h
  · cases h
  obtain ⟨⟨e1, ts1⟩, h1, h2⟩ := Res.bind_eq_ok.1 h
  simp only at h2
  split at h2
  · rename_i hc2
    cases h2
    obtain ⟨s1, p1, n1, _⟩ := ih.expr _ _ _ h1
    refine ⟨?_, ?_, ?_, by simp [level]⟩
    · simpa [yield] using (Spells.tok hc (by decide) (by decide)).append
        (s1.append (Spells.tok hc2 (by decide) (by decide)))
    · simpa [PrecOK, precOK] using p1
    · simpa [NF, nf] using n1
  · cases h2
  · cases h2

theorem s_lit (ih : SoundAt f) : ∀ ts e rest, parseLit (f + 1) ts = .ok (e, rest) → Good 0 ts e rest := by
  intro ts e rest h
  simp only [parseLit] at h
  split at h
  · rename_i hc
    simp only [parseNullLiteral, expectThen, hc, if_true] at h; cases h
    exact ⟨Spells.tok hc (by decide) (by decide), rfl, rfl, by simp [level]⟩
  · rename_i hc
    simp only [parseBoolLiteral, hc] at h; cases h
    exact ⟨Spells.tok hc (by decide) (by decide), rfl, rfl, by simp [level]⟩
  · rename_i hc
    simp only [parseBoolLiteral, hc] at h; cases h
    exact ⟨Spells.tok hc (by decide) (by decide), rfl, rfl, by simp [level]⟩
  · rename_i hc
    simp only [parseIntLiteral, expectThen, hc, if_true] at h; cases h
    have sv := Spells.valTok hc (by decide); rw [tokVal_int hc] at sv
    exact ⟨sv, rfl, rfl, by simp [level]⟩
  · rename_i hc
    simp only [parseFloatLiteral, expectThen, hc, if_true] at h; cases h
    have sv := Spells.valTok hc (by decide); rw [tokVal_float hc] at sv
    exact ⟨sv, rfl, rfl, by simp [level]⟩
  · rename_i hc
    simp only [parseStringLiteral, expectThen, hc, if_true] at h; cases h
    have sv := Spells.valTok hc (by decide); rw [tokVal_string hc] at sv
    exact ⟨sv, rfl, rfl, by simp [level]⟩
  · rename_i hc
    simp only [parseBytesLiteral, expectThen, hc, if_true] at h; cases h
    have sv := Spells.valTok hc (by decide); rw [tokVal_bytes hc] at sv
    exact ⟨sv, rfl, rfl, by simp [level]⟩
  · rename_i hc
    simp only [parseParam, expectThen, hc, if_true] at h; cases h
    have sv := Spells.valTok hc (by decide); rw [tokVal_param hc] at sv
    exact ⟨sv, rfl, rfl, by simp [level]⟩
  · exact ih.caseE _ _ _ h
  · exact ih.ifE _ _ _ h
  · exact ih.cast _ _ _ h
  · cases h
  · exact ih.arr _ _ _ h
  · rename_i hc; exact ih.paren _ _ _ hc h
  · rename_i hc
    simp only [parseLitIdent] at h
    split at h
    · cases h
    split at h
    · cases h
    split at h
    · cases h
    cases h
    have sv := Spells.valTok hc (by decide); rw [tokVal_ident hc] at sv
    exact ⟨sv, rfl, rfl, by simp [level]⟩
  · cases h

theorem s_caseWhen (ih : SoundAt f) : ∀ ts c t rest, parseCaseWhen (f + 1) ts = .ok ((c, t), rest) →
    Spells ts rest (T .when_ :: (yield c ++ (T .then_ :: yield t))) ∧ PrecOK c ∧ NF c ∧ PrecOK t ∧ NF t := by
  intro ts c t rest h
  simp only [parseCaseWhen] at h
  split at h
  · rename_i hc
    obtain ⟨⟨c1, ts1⟩, h1, h2⟩ := Res.bind_eq_ok.1 h
    simp only at h2
    split at h2
    · rename_i hc2
      obtain ⟨⟨t1, ts2⟩, h3, h4⟩ := Res.bind_eq_ok.1 h2
      cases h4
      obtain ⟨s1, p1, n1, _⟩ := ih.expr _ _ _ h1
      obtain ⟨s2, p2, n2, _⟩ := ih.expr _ _ _ h3
      exact ⟨(Spells.tok hc (by decide) (by decide)).append
        (s1.append ((Spells.tok hc2 (by decide) (by decide)).append s2)), p1, n1, p2, n2⟩
    · cases h2
  · cases h

theorem s_caseLoop (ih : SoundAt f) : ∀ ts ws rest, caseWhenLoop (f + 1) ts = .ok (ws, rest) →
    Spells ts rest (yieldW ws) ∧ precOKw ws = true ∧ nfw ws = true := by
  intro ts ws rest h
  simp only [caseWhenLoop] at h
  split at h
  · obtain ⟨⟨⟨c, t⟩, ts1⟩, h1, h2⟩ := Res.bind_eq_ok.1 h
    obtain ⟨⟨m, ts2⟩, h3, h4⟩ := Res.bind_eq_ok.1 h2
    cases h4
    obtain ⟨s1, p1, n1, p2, n2⟩ := ih.caseWhen _ _ _ _ h1
    obtain ⟨s3, p3, n3⟩ := ih.caseLoop _ _ _ h3
    refine ⟨?_, ?_, ?_⟩
    · simpa [yieldW] using s1.append s3
    · simp only [PrecOK] at p1 p2; simp [precOKw, p1, p2, p3]
    · simp only [NF] at n1 n2; simp [nfw, n1, n2, n3]
  · cases h; exact ⟨Spells.nil _, rfl, rfl⟩

theorem s_caseElse (ih : SoundAt f) : ∀ ts e rest, parseCaseElse (f + 1) ts = .ok (e, rest) →
    Spells ts rest (T .else_ :: yield e) ∧ PrecOK e ∧ NF e := by
  intro ts e rest h
  simp only [parseCaseElse] at h
  split at h
  · rename_i hc
    obtain ⟨s1, p1, n1, _⟩ := ih.expr _ _ _ h
    exact ⟨(Spells.tok hc (by decide) (by decide)).append s1, p1, n1⟩
  · cases h

/-- the optional operand of `parseCaseExpr` -/
theorem s_caseOperand (ih : SoundAt f) {ts : List Token} {o : OExpr} {rest : List Token}
    (h : (if cur ts = .when_ then Res.ok (OExpr.none, ts)
      else (parseExpr f ts).bind fun p => .ok (OExpr.some p.1, p.2)) = .ok (o, rest)) :
    Spells ts rest (yieldO [] o) ∧ precOKo o = true ∧ nfo o = true := by
  split at h
  · cases h; exact ⟨Spells.nil _, rfl, rfl⟩
  · obtain ⟨⟨e1, ts1⟩, h1, h2⟩ := Res.bind_eq_ok.1 h
    cases h2
    obtain ⟨s1, p1, n1, _⟩ := ih.expr _ _ _ h1
    exact ⟨by simpa [yieldO] using s1, p1, n1⟩

/-- the optional ELSE clause of `parseCaseExpr` -/
theorem s_caseEls (ih : SoundAt f) {ts : List Token} {o : OExpr} {rest : List Token}
    (h : (if cur ts = .else_ then (parseCaseElse f ts).bind fun p => .ok (OExpr.some p.1, p.2)
      else Res.ok (OExpr.none, ts)) = .ok (o, rest)) :
    Spells ts rest (yieldO [T .else_] o) ∧ precOKo o = true ∧ nfo o = true := by
  split at h
  · obtain ⟨⟨e1, ts1⟩, h1, h2⟩ := Res.bind_eq_ok.1 h
    cases h2
    obtain ⟨s1, p1, n1⟩ := ih.caseElse _ _ _ h1
    exact ⟨by simpa [yieldO] using s1, p1, n1⟩
  · cases h; exact ⟨Spells.nil _, rfl, rfl⟩

theorem s_caseE (ih : SoundAt f) : ∀ ts e rest, parseCaseExpr (f + 1) ts = .ok (e, rest) → Good 0 ts e rest := by
  intro ts e rest h
  simp only [parseCaseExpr] at h
  split at h
  · rename_i hc
    obtain ⟨⟨o, ts1⟩, h1, h2⟩ := Res.bind_eq_ok.1 h
    obtain ⟨⟨⟨c, t⟩, ts2⟩, h3, h4⟩ := Res.bind_eq_ok.1 h2
    obtain ⟨⟨ws, ts3⟩, h5, h6⟩ := Res.bind_eq_ok.1 h4
    obtain ⟨⟨el, ts4⟩, h7, h8⟩ := Res.bind_eq_ok.1 h6
    simp only at h8
    split at h8
    · rename_i hc2
      cases h8
      obtain ⟨so, po, no⟩ := s_caseOperand ih h1
      obtain ⟨sw, pc, nc, pt, nt⟩ := ih.caseWhen _ _ _ _ h3
      obtain ⟨sl, pl, nl⟩ := ih.caseLoop _ _ _ h5
      obtain ⟨se, pe, ne⟩ := s_caseEls ih h7
      refine ⟨?_, ?_, ?_, by simp [level]⟩
      · simpa [yield] using (Spells.tok hc (by decide) (by decide)).append
          (so.append (sw.append (sl.append (se.append (Spells.tok hc2 (by decide) (by decide))))))
      · simp only [PrecOK] at pc pt ⊢; simp [precOK, po, pc, pt, pl, pe]
      · simp only [NF] at nc nt ⊢; simp [nf, no, nc, nt, nl, ne]
    · cases h8
  · cases h

theorem s_ifE (ih : SoundAt f) : ∀ ts e rest, parseIfExpr (f + 1) ts = .ok (e, rest) → Good 0 ts e rest := by
  intro ts e rest h
  simp only [parseIfExpr] at h
  split at h
  · rename_i hc
    split at h
    · rename_i hc1
      obtain ⟨⟨c, ts1⟩, h1, h2⟩ := Res.bind_eq_ok.1 h
      simp only at h2
      split at h2
      · rename_i hc2
        obtain ⟨⟨t, ts2⟩, h3, h4⟩ := Res.bind_eq_ok.1 h2
        simp only at h4
        split at h4
        · rename_i hc3
          obtain ⟨⟨x, ts3⟩, h5, h6⟩ := Res.bind_eq_ok.1 h4
          simp only at h6
          split at h6
          · rename_i hc4
            cases h6
            obtain ⟨s1, p1, n1, _⟩ := ih.expr _ _ _ h1
            obtain ⟨s2, p2, n2, _⟩ := ih.expr _ _ _ h3
            obtain ⟨s3, p3, n3, _⟩ := ih.expr _ _ _ h5
            refine ⟨?_, ?_, ?_, by simp [level]⟩
            · simpa [yield] using (Spells.tok hc (by decide) (by decide)).append
                ((Spells.tok hc1 (by decide) (by decide)).append (s1.append
                  ((Spells.tok hc2 (by decide) (by decide)).append (s2.append
                    ((Spells.tok hc3 (by decide) (by decide)).append
                      (s3.append (Spells.tok hc4 (by decide) (by decide))))))))
            · simp only [PrecOK] at p1 p2 p3 ⊢; simp [precOK, p1, p2, p3]
            · simp only [NF] at n1 n2 n3 ⊢; simp [nf, n1, n2, n3]
          · cases h6
        · cases h4
      · cases h2
    · cases h
  · cases h

theorem s_cast (ih : SoundAt f) : ∀ ts e rest, parseCastExpr (f + 1) ts = .ok (e, rest) → Good 0 ts e rest := by
  intro ts e rest h
  simp only [parseCastExpr] at h
  split at h
  · rename_i hc
    split at h
    · rename_i hc1
      obtain ⟨⟨e1, ts1⟩, h1, h2⟩ := Res.bind_eq_ok.1 h
      simp only at h2
      split at h2
      · rename_i hc2
        obtain ⟨⟨ns, ts2⟩, h3, h4⟩ := Res.bind_eq_ok.1 h2
        simp only at h4
        split at h4
        · rename_i hc3
          cases h4
          obtain ⟨s1, p1, n1, _⟩ := ih.expr _ _ _ h1
          obtain ⟨s2, n2⟩ := castType_sound h3
          refine ⟨?_, ?_, ?_, by simp [level]⟩
          · simpa [yield] using (Spells.tok hc (by decide) (by decide)).append
              ((Spells.tok hc1 (by decide) (by decide)).append (s1.append
                ((Spells.tok hc2 (by decide) (by decide)).append (s2.append (Spells.tok hc3 (by decide) (by decide))))))
          · simpa [PrecOK, precOK] using p1
          · simp only [NF] at n1 ⊢; simp [nf, n1, n2]
        · cases h4
      · cases h2
    · cases h
  · cases h

theorem s_arr (ih : SoundAt f) : ∀ ts e rest, parseSimpleArrayLiteral (f + 1) ts = .ok (e, rest) → Good 0 ts e rest := by
  intro ts e rest h
  simp only [parseSimpleArrayLiteral] at h
  split at h
  · rename_i hc
    split at h
    · rename_i hc1
      cases h
      refine ⟨?_, rfl, rfl, by simp [level]⟩
      simpa [yield] using (Spells.tok hc (by decide) (by decide)).append (Spells.tok hc1 (by decide) (by decide))
    · obtain ⟨⟨e1, ts1⟩, h1, h2⟩ := Res.bind_eq_ok.1 h
      obtain ⟨⟨m, ts2⟩, h3, h4⟩ := Res.bind_eq_ok.1 h2
      simp only at h4
      split at h4
      · rename_i hc2
        cases h4
        obtain ⟨s1, p1, n1, _⟩ := ih.expr _ _ _ h1
        obtain ⟨s2, p2, n2⟩ := ih.inList _ _ _ h3
        refine ⟨?_, ?_, ?_, by simp [level]⟩
        · simpa [yield] using (Spells.tok hc (by decide) (by decide)).append
            (s1.append (s2.append (Spells.tok hc2 (by decide) (by decide))))
        · simp only [PrecOK] at p1 ⊢; simp [precOK, precOKs, p1, p2]
        · simp only [NF] at n1 ⊢; simp [nf, nfs, n1, n2]
      · cases h4
  · cases h

end Step

theorem sound_all : ∀ f, SoundAt f
  | 0 => sound_zero
  | f + 1 =>
    have ih := sound_all f
    { expr := s_expr ih, or_ := s_or ih, orLoop := s_orLoop ih, and_ := s_and ih, andLoop := s_andLoop ih,
      not_ := s_not ih, cmp := s_cmp ih, btw := s_btw ih, inCond := s_inCond ih, inList := s_inList ih,
      bitOr := s_bitOr ih, bitOrLoop := s_bitOrLoop ih, bitXor := s_bitXor ih, bitXorLoop := s_bitXorLoop ih,
      bitAnd := s_bitAnd ih, bitAndLoop := s_bitAndLoop ih, shift := s_shift ih, shiftLoop := s_shiftLoop ih,
      add := s_add ih, addLoop := s_addLoop ih, mul := s_mul ih, mulLoop := s_mulLoop ih, unary := s_unary ih,
      sel := s_sel ih, selLoop := s_selLoop ih, idx := s_idx ih, lit := s_lit ih, paren := s_paren ih,
      caseE := s_caseE ih, caseLoop := s_caseLoop ih, caseWhen := s_caseWhen ih, caseElse := s_caseElse ih,
      ifE := s_ifE ih, arr := s_arr ih, cast := s_cast ih }

/-- **Soundness.**  If `parseExpr` succeeds, the tokens it consumed are exactly the yield of the tree (so every
`paren` node is a `(` … `)` pair around exactly its operand), the tree is grouped as the GoogleSQL table says, and
it is in the parser's normal form. -/
theorem parseExpr_sound {fuel : Nat} {ts rest : List Token} {e : Expr} (h : parseExpr fuel ts = .ok (e, rest)) :
    (∃ pre, ts = pre ++ rest ∧ pre.map proj = yield e) ∧ PrecOK e ∧ NF e := by
  obtain ⟨s, p, n, _⟩ := (sound_all fuel).expr ts e rest h
  exact ⟨s, p, n⟩

end MF.Expr
