/-
  MF.Proofs.LexTokCtx — single tokens IN CONTEXT: the text of one token, preceded by blanks and followed by an
  arbitrary suffix `X` whose first byte does not continue the token, is lexed as that token and leaves `X`.
  One lemma per token class, stated as one-token runs (`MF.Concat.SRun`).
-/
import MF.Proofs.LexConcat
import MF.Proofs.QuoteIdent
set_option linter.unusedSimpArgs false
namespace MF.Concat
open MF MF.Lex MF.Spec.Lexical

/-- does the first byte of `X` satisfy `p`? (`false` at the end of the input) -/
def headSat (p : UInt8 → Bool) (X : Bytes) : Bool :=
  match X with
  | [] => false
  | c :: _ => p c

def isQuote (c : UInt8) : Bool := c == 34 || c == 39

@[simp] theorem headSat_nil (p : UInt8 → Bool) : headSat p [] = false := rfl
@[simp] theorem headSat_cons (p : UInt8 → Bool) (c : UInt8) (t : Bytes) : headSat p (c :: t) = p c := rfl

/-! ## `run` over a concatenation -/

theorem run_append_all {p : UInt8 → Bool} {a : Bytes} (ha : a.all p = true) (X : Bytes) :
    run p (a ++ X) = a.length + run p X := by
  induction a with
  | nil => simp
  | cons c t ih =>
    simp only [List.all_cons, Bool.and_eq_true] at ha
    simp only [List.cons_append, run, ha.1, if_true, ih ha.2, List.length_cons]
    omega

theorem run_stop {p : UInt8 → Bool} {X : Bytes} (h : headSat p X = false) : run p X = 0 := by
  cases X with
  | nil => rfl
  | cons c t => simp only [headSat_cons] at h; simp [run, h]

theorem run_append_stop {p : UInt8 → Bool} {a : Bytes} (ha : a.all p = true) {X : Bytes} (h : headSat p X = false) :
    run p (a ++ X) = a.length := by
  rw [run_append_all ha, run_stop h]; rfl

/-- a suffix whose first byte is not in the class does not change the run -/
theorem run_append {p : UInt8 → Bool} (a : Bytes) {X : Bytes} (h : headSat p X = false) :
    run p (a ++ X) = run p a := by
  induction a with
  | nil => simp [run_stop h, run]
  | cons c t ih =>
    simp only [List.cons_append, run, ih]

theorem run_all {p : UInt8 → Bool} {a : Bytes} (ha : a.all p = true) : run p a = a.length := by
  have := run_append_all ha []
  simpa [run] using this

theorem run_take_ge (p : UInt8 → Bool) (s : Bytes) {m : Nat} (h : run p s ≤ m) : run p (s.take m) = run p s := by
  induction s generalizing m with
  | nil => simp
  | cons c t ih =>
    by_cases hc : p c = true
    · simp only [run, hc, if_true] at h ⊢
      cases m with
      | zero => omega
      | succ m =>
        simp only [List.take_succ_cons, run, hc, if_true]
        rw [ih (by omega)]
    · simp only [run, hc] at h ⊢
      cases m with
      | zero => simp [run]
      | succ m => simp [run, hc]

theorem run_take_le (p : UInt8 → Bool) (s : Bytes) (m : Nat) : run p (s.take m) ≤ run p s := by
  induction s generalizing m with
  | nil => simp
  | cons c t ih =>
    cases m with
    | zero => simp [run]
    | succ m =>
      by_cases hc : p c = true
      · simp only [List.take_succ_cons, run, hc, if_true]
        have := ih m; omega
      · simp [run, hc]

theorem take_run_all (p : UInt8 → Bool) (s : Bytes) : (s.take (run p s)).all p = true := by
  induction s with
  | nil => simp [run]
  | cons c t ih =>
    by_cases hc : p c = true
    · simp [run, hc, ih]
    · simp [run, hc]

theorem drop_run_head (p : UInt8 → Bool) (s : Bytes) : headSat p (s.drop (run p s)) = false := by
  induction s with
  | nil => simp [run]
  | cons c t ih =>
    by_cases hc : p c = true
    · simp [run, hc, ih]
    · simp [run, hc]

/-! ## byte classes -/

theorem letter_facts : ∀ c : UInt8, isLetter c = true →
    (c == 46) = false ∧ isDigit c = false ∧ (c == 96) = false ∧ (c == 64) = false ∧
    (c == 34 || c == 39) = false ∧ isIdentChar c = true ∧
    c.toNat < 0x80 ∧ isWhite c.toNat = false ∧ c ≠ 35 ∧ c ≠ 47 ∧ c ≠ 45 := by
  apply UInt8.forall_of_fin; decide +kernel

theorem identChar_facts : ∀ c : UInt8, isIdentChar c = true →
    (c == 34 || c == 39) = false ∧ (c == 46) = false ∧ (c == 96) = false ∧ (c == 64) = false ∧
    c.toNat < 0x80 ∧ isWhite c.toNat = false ∧ c ≠ 35 ∧ c ≠ 47 ∧ c ≠ 45 ∧ (isDigit c = true ∨ isLetter c = true) := by
  apply UInt8.forall_of_fin; decide +kernel

theorem not_identChar_facts : ∀ c : UInt8, isIdentChar c = false →
    (c == 82 || c == 114) = false ∧ (c == 66 || c == 98) = false ∧ isDigit c = false ∧ isHex c = false ∧
    (c == 69 || c == 101) = false ∧ (c == 120 || c == 88) = false ∧ isLetter c = false := by
  apply UInt8.forall_of_fin; decide +kernel

theorem digit_facts : ∀ c : UInt8, isDigit c = true →
    (c == 46) = false ∧ (c == 96) = false ∧ (c == 64) = false ∧ isIdentChar c = true ∧
    c.toNat < 0x80 ∧ isWhite c.toNat = false ∧ c ≠ 35 ∧ c ≠ 47 ∧ c ≠ 45 ∧ isLetter c = false ∧
    (c == 34 || c == 39) = false ∧ (c == 82 || c == 114) = false ∧ (c == 66 || c == 98) = false := by
  apply UInt8.forall_of_fin; decide +kernel

/-! ## unquoted identifiers and keywords -/

/-- a word followed by a byte that is neither an identifier character nor a quote has no literal prefix -/
theorem literalPrefix_none_word {c : UInt8} {n : Bytes} (hc : isLetter c = true)
    (hall : n.all isIdentChar = true) {X : Bytes} (hX : headSat isIdentChar X = false)
    (hQ : headSat isQuote X = false) : literalPrefix ((c :: n) ++ X) = none := by
  obtain ⟨_, _, _, _, q0, _⟩ := letter_facts c hc
  have hx : ∀ x t, X = x :: t → (x == 34 || x == 39) = false ∧ (x == 82 || x == 114) = false ∧
      (x == 66 || x == 98) = false := by
    intro x t h
    subst h
    simp only [headSat_cons] at hX hQ
    obtain ⟨r1, r2, _⟩ := not_identChar_facts x hX
    exact ⟨hQ, r1, r2⟩
  match n, hall with
  | [], _ =>
    match X, hx with
    | [], _ => simp [literalPrefix, q0]
    | [x], hx => obtain ⟨a1, a2, a3⟩ := hx x [] rfl; simp [literalPrefix, q0, a1, a2, a3]
    | x :: y :: t, hx => obtain ⟨a1, a2, a3⟩ := hx x _ rfl; simp [literalPrefix, q0, a1, a2, a3]
  | [b], hall =>
    simp only [List.all_cons, List.all_nil, Bool.and_true] at hall
    obtain ⟨q1, _⟩ := identChar_facts b hall
    match X, hx with
    | [], _ => simp [literalPrefix, q0, q1]
    | x :: t, hx => obtain ⟨a1, a2, a3⟩ := hx x _ rfl; simp [literalPrefix, q0, q1, a1]
  | b :: e :: n', hall =>
    simp only [List.all_cons, Bool.and_eq_true] at hall
    obtain ⟨q1, _⟩ := identChar_facts b hall.1
    obtain ⟨q2, _⟩ := identChar_facts e hall.2.1
    simp [literalPrefix, q0, q1, q2]

/-- an identifier-shaped word in normal mode: a keyword if reserved, an identifier otherwise -/
theorem token_word {c : UInt8} {n : Bytes} (hc : isLetter c = true) (hall : n.all isIdentChar = true)
    {X : Bytes} (hX : headSat isIdentChar X = false) (hQ : headSat isQuote X = false) (lk : TokKind) :
    token ((c :: n) ++ X) lk false =
      some (if reserved.contains ((c :: n).map upper) then { kind := .sym ((c :: n).map upper), len := (c :: n).length }
            else { kind := .ident, len := (c :: n).length, value := c :: n }) := by
  have hlp := literalPrefix_none_word hc hall hX hQ
  obtain ⟨f1, f2, f3, f4, _, f6, _⟩ := letter_facts c hc
  have hall' : (c :: n).all isIdentChar = true := by simp [f6, hall]
  have hrun : run isIdentChar ((c :: n) ++ X) = (c :: n).length := run_append_stop hall' hX
  have htake : ((c :: n) ++ X).take (c :: n).length = c :: n := List.take_left
  rw [List.cons_append] at hlp hrun htake ⊢
  unfold token
  simp only [Bool.false_and, Bool.false_eq_true, if_false, f1, f2, f3, f4, hlp, hc, if_true, hrun, htake]
  split <;> rfl

/-- an identifier-character run in field mode (after a dot-enabling `.`) is an identifier, whatever it spells -/
theorem token_field {c : UInt8} {n : Bytes} (hc : isIdentChar c = true) (hall : n.all isIdentChar = true)
    {X : Bytes} (hX : headSat isIdentChar X = false) (lk : TokKind) :
    token ((c :: n) ++ X) lk true = some { kind := .ident, len := (c :: n).length, value := c :: n } := by
  have hall' : (c :: n).all isIdentChar = true := by simp [hc, hall]
  have hrun : run isIdentChar ((c :: n) ++ X) = (c :: n).length := run_append_stop hall' hX
  have htake : ((c :: n) ++ X).take (c :: n).length = c :: n := List.take_left
  rw [List.cons_append] at hrun htake ⊢
  unfold token
  simp only [Bool.true_and, hc, if_true, hrun, htake]

/-! ## parameters -/

theorem token_param {c : UInt8} {n : Bytes} (hc : isLetter c = true) (hall : n.all isIdentChar = true)
    {X : Bytes} (hX : headSat isIdentChar X = false) (lk : TokKind) (d : Bool) :
    token (64 :: ((c :: n) ++ X)) lk d = some { kind := .param, len := (c :: n).length + 1, value := c :: n } := by
  obtain ⟨_, _, _, f4, _, f6, _⟩ := letter_facts c hc
  have hall' : (c :: n).all isIdentChar = true := by simp [f6, hall]
  have hrun : run isIdentChar ((c :: n) ++ X) = (c :: n).length := run_append_stop hall' hX
  have htake : ((c :: n) ++ X).take (c :: n).length = c :: n := List.take_left
  rw [List.cons_append] at hrun htake ⊢
  have e0 : isIdentChar 64 = false := by decide
  have e1 : ((64 : UInt8) == 46) = false := by decide
  have e2 : isDigit 64 = false := by decide
  have e3 : ((64 : UInt8) == 96) = false := by decide
  unfold token
  simp only [e0, Bool.and_false, Bool.false_eq_true, if_false, e1, e2, e3, beq_self_eq_true, if_true, f4, hc, hrun,
    htake]

/-! ## punctuation -/

theorem singles_NS : ∀ c ∈ singles, MF.Refine.NS c := by decide

/-- a one-byte punctuation token that is not the first byte of a longer one -/
theorem token_single {c : UInt8} (hc : c ∈ singles) (t : Bytes) (lk : TokKind) :
    token (c :: t) lk false = some { kind := .sym [c], len := 1 } := by
  rw [MF.Refine.token_punct t lk (singles_NS c hc), MF.Refine.punctLen_single t hc]
  rfl

theorem token_of_punctLen {c : UInt8} (hc : c = 60 ∨ c = 62 ∨ c = 43 ∨ c = 45 ∨ c = 61 ∨ c = 124 ∨ c = 33)
    {t : Bytes} {p : Bytes} (lk : TokKind) (h : punctLen (c :: t) = some p) :
    token (c :: t) lk false = some { kind := .sym p, len := p.length } := by
  rw [MF.Refine.token_punct t lk (MF.Refine.NS_punct c hc), h]
  rfl

theorem punctLen_plus {t : Bytes} (h : headSat (· == 61) t = false) : punctLen (43 :: t) = some [43] := by
  cases t with
  | nil => simp [punctLen, puncts, startsWith]
  | cons d u => simp only [headSat_cons] at h; simp [punctLen, puncts, startsWith, h]

theorem punctLen_minus {t : Bytes} (h : headSat (fun c => c == 61 || c == 62) t = false) :
    punctLen (45 :: t) = some [45] := by
  cases t with
  | nil => simp [punctLen, puncts, startsWith]
  | cons d u =>
    simp only [headSat_cons, Bool.or_eq_false_iff] at h
    simp [punctLen, puncts, startsWith, h.1, h.2]

theorem punctLen_lt {t : Bytes} (h : headSat (fun c => c == 60 || c == 61 || c == 62) t = false) :
    punctLen (60 :: t) = some [60] := by
  cases t with
  | nil => simp [punctLen, puncts, startsWith]
  | cons d u =>
    simp only [headSat_cons, Bool.or_eq_false_iff] at h
    simp [punctLen, puncts, startsWith, h.1.1, h.1.2, h.2]

theorem punctLen_gt {t : Bytes} (h : headSat (fun c => c == 62 || c == 61) t = false) :
    punctLen (62 :: t) = some [62] := by
  cases t with
  | nil => simp [punctLen, puncts, startsWith]
  | cons d u =>
    simp only [headSat_cons, Bool.or_eq_false_iff] at h
    simp [punctLen, puncts, startsWith, h.1, h.2]

theorem punctLen_eq {t : Bytes} (h : headSat (· == 62) t = false) : punctLen (61 :: t) = some [61] := by
  cases t with
  | nil => simp [punctLen, puncts, startsWith]
  | cons d u => simp only [headSat_cons] at h; simp [punctLen, puncts, startsWith, h]

theorem punctLen_bar {t : Bytes} (h : headSat (fun c => c == 62 || c == 124) t = false) :
    punctLen (124 :: t) = some [124] := by
  cases t with
  | nil => simp [punctLen, puncts, startsWith]
  | cons d u =>
    simp only [headSat_cons, Bool.or_eq_false_iff] at h
    simp [punctLen, puncts, startsWith, h.1, h.2]

theorem punctLen_two (t : Bytes) :
    punctLen (124 :: 124 :: t) = some [124, 124] ∧ punctLen (60 :: 60 :: t) = some [60, 60] ∧
    punctLen (62 :: 62 :: t) = some [62, 62] ∧ punctLen (60 :: 61 :: t) = some [60, 61] ∧
    punctLen (62 :: 61 :: t) = some [62, 61] ∧ punctLen (33 :: 61 :: t) = some [33, 61] ∧
    punctLen (60 :: 62 :: t) = some [60, 62] := by
  refine ⟨?_, ?_, ?_, ?_, ?_, ?_, ?_⟩ <;> simp [punctLen, puncts, startsWith]

/-- `.` not followed by a digit is the `.` token, in either mode -/
theorem token_dot {t : Bytes} (h : headSat isDigit t = false) (lk : TokKind) (d : Bool) :
    token (46 :: t) lk d = some { kind := .sym [46], len := 1 } := by
  have e0 : isIdentChar 46 = false := by decide
  cases t with
  | nil =>
    unfold token
    simp only [e0, Bool.and_false, Bool.false_eq_true, if_false, beq_self_eq_true, if_true]
  | cons x u =>
    simp only [headSat_cons] at h
    unfold token
    simp only [e0, Bool.and_false, Bool.false_eq_true, if_false, beq_self_eq_true, if_true, h]

end MF.Concat
