/-
  MF.Proofs.ExprUnique — consequences of soundness + completeness:
    * `grouping_unique`: two trees grouped by the table, in normal form, with the same yield are equal
      (the grammar of the table is unambiguous on normal forms);
    * `comparison_nonassoc`: after one comparison the parser stops — a second comparison operator stays in the
      rest, so `ParseExpr` rejects `a = b = c`.
-/
import MF.Proofs.ExprComplete
set_option linter.unusedSimpArgs false
namespace MF.Expr

/-! ## a token list for every yield -/

/-- a kind of class `k` (for the classes that occur in yields) -/
def kindOfTK : TK → TokKind
  | .eof => .eof | .ident => .ident | .param => .param | .int => .int | .float => .float
  | .string => .string | .bytes => .bytes
  | .null => K "NULL" | .true_ => K "TRUE" | .false_ => K "FALSE"
  | .lparen => K "(" | .rparen => K ")" | .lbrack => K "[" | .rbrack => K "]" | .comma => K "," | .dot => K "."
  | .plus => K "+" | .minus => K "-" | .tilde => K "~" | .star => K "*" | .slash => K "/" | .concat => K "||"
  | .shl => K "<<" | .shr => K ">>" | .amp => K "&" | .caret => K "^" | .bar => K "|"
  | .eq => K "=" | .ne => K "!=" | .lt => K "<" | .le => K "<=" | .gt => K ">" | .ge => K ">="
  | .like => K "LIKE" | .in_ => K "IN" | .between => K "BETWEEN" | .is_ => K "IS" | .not_ => K "NOT"
  | .and_ => K "AND" | .or_ => K "OR" | .unnest => K "UNNEST" | .select => K "SELECT"
  | .case_ => K "CASE" | .when_ => K "WHEN" | .then_ => K "THEN" | .else_ => K "ELSE" | .end_ => K "END" | .if_ => K "IF"
  | .cast => K "CAST" | .as_ => K "AS"
  | .litStart => K "EXISTS" | .other => .bad

theorem tk_kindOfTK (k : TK) : tk (kindOfTK k) = k := by cases k <;> decide

/-- a canonical token for a projected token -/
def untok (y : Tok') : Token :=
  { kind := kindOfTK y.k
    asString := if y.k = .int ∨ y.k = .float then [] else y.v
    raw := if y.k = .int ∨ y.k = .float then y.v else [] }

/-- a projected token as the projection produces it: only literals and names carry a value -/
def wfTok (y : Tok') : Bool :=
  match y.k with
  | .ident | .param | .string | .bytes | .int | .float => true
  | _ => y.v == []

theorem proj_untok {y : Tok'} (h : wfTok y = true) : proj (untok y) = y := by
  obtain ⟨k, v⟩ := y
  cases k <;> simp_all [proj, untok, tokVal, tk_kindOfTK, wfTok]

theorem untok_notCast (y : Tok') : isCastLike (untok y) = false := by
  obtain ⟨k, v⟩ := y
  have h : ∀ s : Bytes, s ≠ [] → Char.equalFold [] s = false := by
    intro s hs; cases s <;> simp_all [Char.equalFold]
  simp only [isCastLike, Token.isKeywordLike, untok]
  by_cases hk : k = .int ∨ k = .float
  · rcases hk with rfl | rfl <;> simp [kindOfTK]
  · simp only [hk, if_false]
    rw [h _ (by decide), h _ (by decide)]; simp

def allWF (ys : List Tok') : Bool := ys.all wfTok

theorem allWF_append (a b : List Tok') : allWF (a ++ b) = (allWF a && allWF b) := by simp [allWF]
theorem allWF_cons (y : Tok') (b : List Tok') : allWF (y :: b) = (wfTok y && allWF b) := by simp [allWF]
theorem allWF_nil : allWF [] = true := rfl

theorem allWF_pathToks : ∀ ns, allWF (pathToks ns) = true
  | [] => rfl
  | [a] => by simp [pathToks, allWF, wfTok]
  | a :: b :: ns => by
    have := allWF_pathToks (b :: ns)
    simp [pathToks, allWF_cons, wfTok, T, this]

mutual
theorem allWF_yield : (e : Expr) → allWF (yield e) = true
  | .null => by simp [yield, allWF, wfTok, T]
  | .bool b => by simp [yield, allWF, wfTok, T]; cases b <;> simp [boolTK]
  | .int s raw => by cases s <;> simp [yield, signToks, allWF, wfTok, T]; rename_i s; cases s <;> simp [Sign.tk]
  | .float s raw => by cases s <;> simp [yield, signToks, allWF, wfTok, T]; rename_i s; cases s <;> simp [Sign.tk]
  | .str v => by simp [yield, allWF, wfTok]
  | .bytes v => by simp [yield, allWF, wfTok]
  | .param v => by simp [yield, allWF, wfTok]
  | .ident v => by simp [yield, allWF, wfTok]
  | .path ns => by simpa [yield] using allWF_pathToks ns
  | .paren e => by simp [yield, allWF_cons, allWF_append, allWF_yield e, wfTok, T, allWF_nil]
  | .unary op e => by cases op <;> simp [yield, allWF_cons, allWF_yield e, wfTok, T, UOp.tk]
  | .bin op l r => by
    cases op <;> simp [yield, allWF_cons, allWF_append, allWF_yield l, allWF_yield r, wfTok, T, BOp.toks, allWF_nil]
  | .isNull e n => by
    cases n <;> simp [yield, allWF_cons, allWF_append, allWF_yield e, wfTok, T, notToks, allWF_nil]
  | .isBool e n b => by
    cases n <;> cases b <;> simp [yield, allWF_cons, allWF_append, allWF_yield e, wfTok, T, notToks, allWF_nil, boolTK]
  | .between n e lo hi => by
    cases n <;> simp [yield, allWF_cons, allWF_append, allWF_yield e, allWF_yield lo, allWF_yield hi, wfTok, T, notToks,
      allWF_nil]
  | .inList n e f m => by
    cases n <;> simp [yield, allWF_cons, allWF_append, allWF_yield e, allWF_yield f, allWF_yields m, wfTok, T, notToks,
      allWF_nil]
  | .inUnnest n e a => by
    cases n <;> simp [yield, allWF_cons, allWF_append, allWF_yield e, allWF_yield a, wfTok, T, notToks, allWF_nil]
  | .sel e n => by simp [yield, allWF_cons, allWF_append, allWF_yield e, wfTok, T, allWF_nil]
  | .index e none i => by simp [yield, allWF_cons, allWF_append, allWF_yield e, allWF_yield i, wfTok, T, allWF_nil]
  | .index e (some (k, sp)) i => by
    simp [yield, allWF_cons, allWF_append, allWF_yield e, allWF_yield i, wfTok, T, allWF_nil]
  | .caseE o c t ws el => by
    have h2 : allWF (yieldO [{ k := TK.else_ }] el) = true := allWF_yieldO [T .else_] el rfl
    simp [yield, allWF_cons, allWF_append, allWF_yieldO [] o rfl, allWF_yield c, allWF_yield t, allWF_yieldW ws,
      h2, wfTok, T, allWF_nil]
  | .ifE c t e => by
    simp [yield, allWF_cons, allWF_append, allWF_yield c, allWF_yield t, allWF_yield e, wfTok, T, allWF_nil]
  | .array .nil => by simp [yield, allWF_cons, wfTok, T, allWF_nil]
  | .cast e ns => by
    simp [yield, allWF_cons, allWF_append, allWF_yield e, allWF_pathToks ns, wfTok, T, allWF_nil]
  | .array (.cons e es) => by
    simp [yield, allWF_cons, allWF_append, allWF_yield e, allWF_yields es, wfTok, T, allWF_nil]
theorem allWF_yields : (m : Exprs) → allWF (yields m) = true
  | .nil => rfl
  | .cons e es => by simp [yields, allWF_cons, allWF_append, allWF_yield e, allWF_yields es, wfTok, T]
theorem allWF_yieldW : (ws : Whens) → allWF (yieldW ws) = true
  | .nil => rfl
  | .cons c t ws => by
    simp [yieldW, allWF_cons, allWF_append, allWF_yield c, allWF_yield t, allWF_yieldW ws, wfTok, T]
theorem allWF_yieldO (pre : List Tok') : (o : OExpr) → allWF pre = true → allWF (yieldO pre o) = true
  | .none, _ => rfl
  | .some e, h => by simp [yieldO, allWF_append, allWF_yield e, h]
end

/-- the canonical tokens of a yield read it -/
theorem reads_untok {ys : List Tok'} (h : allWF ys = true) : Reads (ys.map untok) ys := by
  constructor
  · induction ys with
    | nil => rfl
    | cons y ys ih =>
      simp only [allWF_cons, Bool.and_eq_true] at h
      simp [proj_untok h.1, ih h.2]
  · intro t ht
    obtain ⟨y, _, rfl⟩ := List.mem_map.1 ht
    exact untok_notCast y

def eofTok : Token := { kind := .eof }

theorem follow_eof : Follow [eofTok] := by
  show noCont 12 [eofTok] = true
  decide

/-- **Uniqueness of the grouping.**  Two trees grouped as the table says, in normal form, with the same token
sequence, are the same tree. -/
theorem grouping_unique {e1 e2 : Expr} (p1 : PrecOK e1) (n1 : NF e1) (p2 : PrecOK e2) (n2 : NF e2)
    (hy : yield e1 = yield e2) : e1 = e2 := by
  have r1 := reads_untok (allWF_yield e1)
  have r2 : Reads ((yield e1).map untok) (yield e2) := by rw [← hy]; exact r1
  have h1 := ev_parseExpr_of (complete e1 p1 n1) r1 (rest := [eofTok]) follow_eof
  have h2 := ev_parseExpr_of (complete e2 p2 n2) r2 (rest := [eofTok]) follow_eof
  have := Ev.unique h1 h2
  simp only [Res.ok.injEq, Prod.mk.injEq] at this
  exact this.1

/-! ## the comparison level does not associate -/

/-- a token of the comparison family (`= != <> < <= > >= LIKE IN BETWEEN IS NOT`) -/
def isCmpTok (t : Token) : Prop := contLevel (tk t.kind) = some 9

/-- **Comparisons do not chain.**  On `a op b` followed by another comparison-family token `u`, `parseExpr`
returns `a op b` and leaves `u` (and everything behind it) unconsumed … -/
theorem comparison_once {op : BOp} {a b : Expr} (hop : op.nonAssoc = true)
    (pa : PrecOK a) (na : NF a) (la : level a ≤ 8) (pb : PrecOK b) (nb : NF b) (lb : level b ≤ 8)
    {pre : List Token} {u : Token} {rest : List Token}
    (hr : pre.map proj = yield (.bin op a b)) (hc : ∀ t ∈ pre, isCastLike t = false) (hu : isCmpTok u) :
    ∃ n, ∀ fuel, n ≤ fuel → parseExpr fuel (pre ++ u :: rest) = .ok (.bin op a b, u :: rest) := by
  have ca := complete a pa na
  have cb := complete b pb nb
  have h9 : op.level = 9 := by simpa [BOp.nonAssoc] using hop
  have hpb : PrecOK (.bin op a b) := by
    simp only [PrecOK, precOK, hop, h9] at pa pb ⊢; simp [pa, pb]; omega
  have hnb : NF (.bin op a b) := by simp only [NF, nf] at na nb ⊢; simp [na, nb]
  have hh := leftFacts _ hpb hnb
  have hrd : Reads pre (yield (.bin op a b)) := ⟨hr, hc⟩
  have hn8 : noCont 8 (u :: rest) = true := noCont_cons hu (by omega)
  have e9 := cmp8 (ys := op.toks ++ yield b) (by simp [yield]) ca la (bin_cmp_tail hop cb lb) pre (u :: rest) hrd hn8
  have e10 : Ev (fun f => P 10 f (pre ++ u :: rest)) (.ok (.bin op a b, u :: rest)) :=
    ev_not_cmp (by rw [cur_reads hrd hh.ne]; exact hh.not_ (by simp [level, h9])) e9
  have stop : ∀ L, BinLoop L → 11 ≤ L → loopOp L (cur (u :: rest)) = none := by
    intro L _ hL
    cases h : loopOp L (cur (u :: rest)) with
    | none => rfl
    | some op' =>
      have := (loopOp_cont h).1
      simp only [cur_cons] at this
      rw [hu] at this
      simp at this; omega
  have e11 : Ev (fun f => P 11 f (pre ++ u :: rest)) (.ok (.bin op a b, u :: rest)) :=
    ev_parse_of_loop (L := 11) (by simp [BinLoop]) e10 (ev_loop_stop (by simp [BinLoop]) (stop 11 (by simp [BinLoop]) (by omega)))
  have e12 : Ev (fun f => P 12 f (pre ++ u :: rest)) (.ok (.bin op a b, u :: rest)) :=
    ev_parse_of_loop (L := 12) (by simp [BinLoop]) e11 (ev_loop_stop (by simp [BinLoop]) (stop 12 (by simp [BinLoop]) (by omega)))
  exact ev_expr e12

/-- … so `ParseExpr` rejects the input: `a = b = c` is a syntax error, not `(a = b) = c`. -/
theorem comparison_nonassoc {op : BOp} {a b : Expr} (hop : op.nonAssoc = true)
    (pa : PrecOK a) (na : NF a) (la : level a ≤ 8) (pb : PrecOK b) (nb : NF b) (lb : level b ≤ 8)
    {pre : List Token} {u : Token} {rest : List Token}
    (hr : pre.map proj = yield (.bin op a b)) (hc : ∀ t ∈ pre, isCastLike t = false) (hu : isCmpTok u) :
    ∃ n, ∀ fuel, n ≤ fuel → parseExprTop fuel (pre ++ u :: rest) = .raise := by
  obtain ⟨n, hn⟩ := comparison_once hop pa na la pb nb lb (rest := rest) hr hc hu
  refine ⟨n, fun fuel hf => ?_⟩
  have hne : tk u.kind ≠ .eof := by
    intro h; unfold isCmpTok at hu; rw [h] at hu; simp [contLevel] at hu
  simp [parseExprTop, hn fuel hf, hne]

/-! ## the entry point `ParseExpr` -/

theorem parseExprTop_sound {fuel : Nat} {ts : List Token} {e : Expr} (h : parseExprTop fuel ts = .ok e) :
    ∃ pre rest, ts = pre ++ rest ∧ cur rest = .eof ∧ pre.map proj = yield e ∧ PrecOK e ∧ NF e := by
  unfold parseExprTop at h
  obtain ⟨⟨e1, rest⟩, h1, h2⟩ := Res.bind_eq_ok.1 h
  simp only at h2
  split at h2
  · rename_i hc
    cases h2
    obtain ⟨⟨pre, hpre, hy⟩, hp, hn⟩ := parseExpr_sound h1
    exact ⟨pre, rest, hpre, hc, hy, hp, hn⟩
  · cases h2

theorem parseExprTop_complete {e : Expr} (hp : PrecOK e) (hn : NF e) {pre rest : List Token}
    (hr : pre.map proj = yield e) (hc : ∀ t ∈ pre, isCastLike t = false) (he : cur rest = .eof) :
    ∃ n, ∀ fuel, n ≤ fuel → parseExprTop fuel (pre ++ rest) = .ok e := by
  have hf : Follow rest := by simp [Follow, noCont, he, contLevel]
  obtain ⟨n, h⟩ := parseExpr_complete hp hn hr hc hf
  exact ⟨n, fun fuel hfl => by simp [parseExprTop, h fuel hfl, he]⟩

end MF.Expr
