/-
  MF.Proofs.BridgeParsed — the precondition of the bridge theorems holds for every tree the model parsers build from
  lexer output (identifier tokens have non-empty names, a `Path` / `NamedType` has a component): the bridge, stated for
  accepted inputs.  Kept apart from the bridge proper: it is the only part that depends on the parser models and on the
  soundness theorems about them (MF/Proofs/ExprRoundTrip.lean `parse_lexwf`, MF/Proofs/TypeNames.lean `parse_namesOK`).
-/
import MF.Proofs.BridgeExpr
import MF.Proofs.BridgeType
import MF.Proofs.ExprRoundTrip
import MF.Proofs.ExprPosErase
import MF.Proofs.TypeNames
namespace MF.Bridge
open MF MF.Ast

section
open MF.Expr

mutual
theorem wfBridge_of_lexWF : (e : PExpr) → lexWF (erase e) = true → wfBridge e = true
  | .null _, _ | .bool _ _, _ | .int _ _ _ _, _ | .float _ _ _ _, _ | .str _ _ _, _ | .bytes _ _ _, _
  | .param _ _, _ => rfl
  | .ident id, h => by simpa [erase, lexWF, identOK, wfBridge] using h
  | .path ids, h => by
    simp only [erase, lexWF, List.isEmpty_map, List.all_map, Bool.and_eq_true] at h
    simp only [wfBridge, Bool.and_eq_true]
    exact ⟨h.1, h.2⟩
  | .paren _ _ e, h => by simp only [erase, lexWF] at h; simp only [wfBridge, wfBridge_of_lexWF e h]
  | .unary _ _ e, h => by simp only [erase, lexWF] at h; simp only [wfBridge, wfBridge_of_lexWF e h]
  | .bin _ l r, h => by
    simp only [erase, lexWF, Bool.and_eq_true] at h
    simp only [wfBridge, wfBridge_of_lexWF l h.1, wfBridge_of_lexWF r h.2, Bool.and_self]
  | .isNull _ e _, h => by simp only [erase, lexWF] at h; simp only [wfBridge, wfBridge_of_lexWF e h]
  | .isBool _ e _ _, h => by simp only [erase, lexWF] at h; simp only [wfBridge, wfBridge_of_lexWF e h]
  | .between _ e lo hi, h => by
    simp only [erase, lexWF, Bool.and_eq_true] at h
    simp only [wfBridge, wfBridge_of_lexWF e h.1.1, wfBridge_of_lexWF lo h.1.2, wfBridge_of_lexWF hi h.2, Bool.and_self]
  | .inList _ e _ _ f m, h => by
    simp only [erase, lexWF, Bool.and_eq_true] at h
    simp only [wfBridge, wfBridge_of_lexWF e h.1.1, wfBridge_of_lexWF f h.1.2, wfBridges_of_lexWFs m h.2, Bool.and_self]
  | .inUnnest _ e _ _ a, h => by
    simp only [erase, lexWF, Bool.and_eq_true] at h
    simp only [wfBridge, wfBridge_of_lexWF e h.1, wfBridge_of_lexWF a h.2, Bool.and_self]
  | .sel e id, h => by
    simp only [erase, lexWF, identOK, Bool.and_eq_true] at h
    simp only [wfBridge, wfBridge_of_lexWF e h.1, h.2, Bool.and_self]
  | .index _ e _ i, h => by
    simp only [erase, lexWF, Bool.and_eq_true] at h
    simp only [wfBridge, wfBridge_of_lexWF e h.1, wfBridge_of_lexWF i h.2, Bool.and_self]
  | .caseE _ _ o _ c t ws el, h => by
    simp only [erase, lexWF, Bool.and_eq_true] at h
    simp only [wfBridge, wfBridgeO_of_lexWFo o h.1.1.1.1, wfBridge_of_lexWF c h.1.1.1.2, wfBridge_of_lexWF t h.1.1.2,
      wfBridgeW_of_lexWFw ws h.1.2, wfBridgeO_of_lexWFo el h.2, Bool.and_self]
  | .ifE _ _ c t e, h => by
    simp only [erase, lexWF, Bool.and_eq_true] at h
    simp only [wfBridge, wfBridge_of_lexWF c h.1.1, wfBridge_of_lexWF t h.1.2, wfBridge_of_lexWF e h.2, Bool.and_self]
  | .cast _ _ e path, h => by
    simp only [erase, lexWF, List.isEmpty_map, List.all_map, Bool.and_eq_true] at h
    simp only [wfBridge, wfBridge_of_lexWF e h.1, Bool.true_and, Bool.and_eq_true]
    exact ⟨h.2.1, h.2.2⟩
  | .array _ _ es, h => by
    simp only [erase, lexWF] at h
    simp only [wfBridge, wfBridges_of_lexWFs es h]
theorem wfBridges_of_lexWFs : (es : PExprs) → lexWFs (erases es) = true → wfBridges es = true
  | .nil, _ => rfl
  | .cons e es, h => by
    simp only [erases, lexWFs, Bool.and_eq_true] at h
    simp only [wfBridges, wfBridge_of_lexWF e h.1, wfBridges_of_lexWFs es h.2, Bool.and_self]
theorem wfBridgeW_of_lexWFw : (ws : PWhens) → lexWFw (eraseW ws) = true → wfBridgeW ws = true
  | .nil, _ => rfl
  | .cons _ c t ws, h => by
    simp only [eraseW, lexWFw, Bool.and_eq_true] at h
    simp only [wfBridgeW, wfBridge_of_lexWF c h.1.1, wfBridge_of_lexWF t h.1.2, wfBridgeW_of_lexWFw ws h.2, Bool.and_self]
theorem wfBridgeO_of_lexWFo : (o : POExpr) → lexWFo (eraseO o) = true → wfBridgeO o = true
  | .none, _ => rfl
  | .some _ e, h => by
    simp only [eraseO, lexWFo] at h
    simp only [wfBridgeO, wfBridge_of_lexWF e h]
end

/-- trees built by `parsePTop` from lexer tokens satisfy the precondition of the bridge -/
theorem parsed_wfBridge {buf : Bytes} {ts : List Token} {fuel : Nat} {e : PExpr} (h1 : Lex.lexAll buf = .ok ts)
    (h2 : parsePTop fuel ts = .ok e) : WFBridge e :=
  wfBridge_of_lexWF e (parse_lexwf h1 (by rw [erase_parseTop h2]; rfl))

end

section
open MF.TypeP MF.TypeG

mutual
theorem wfBridgeT_of_namesOK : (t : Ty) → namesOK t = true → wfBridgeT t = true
  | .simple _ _, _ => rfl
  | .named path, h => by simpa only [namesOK, wfBridgeT] using h
  | .array _ _ item, h => by simp only [namesOK] at h; simp only [wfBridgeT, wfBridgeT_of_namesOK item h]
  | .struct _ _ fs, h => by simp only [namesOK] at h; simp only [wfBridgeT, wfBridgeFs_of_namesOKFs fs h]
theorem wfBridgeFs_of_namesOKFs : (fs : Fields) → namesOKFs fs = true → wfBridgeFs fs = true
  | .nil, _ => rfl
  | .cons i t rest, h => by
    simp only [namesOKFs, Bool.and_eq_true] at h
    have h1 : wfIdentT i = true := h.1.1
    simp only [wfBridgeFs, h1, wfBridgeT_of_namesOK t h.1.2, wfBridgeFs_of_namesOKFs rest h.2, Bool.and_self]
end

/-- trees built by `parseTypeTop` from lexer tokens satisfy the precondition of the bridge -/
theorem parsed_wfBridgeT {buf : Bytes} {ts : List Token} {fuel : Nat} {t : Ty} (h1 : Lex.lexAll buf = .ok ts)
    (h2 : parseTypeTop fuel ts = .ok t) : WFBridgeT t :=
  wfBridgeT_of_namesOK t (parse_namesOK h1 h2)

end

end MF.Bridge
