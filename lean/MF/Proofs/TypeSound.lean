/-
  MF.Proofs.TypeSound — soundness of the `ParseType` model: a successful `parseType` consumed exactly the
  (split-aware) yield of the tree it returns, and the tree satisfies `wf`.  One record over the mutually recursive
  functions, by induction on fuel.
-/
import MF.Proofs.TypeBasic
namespace MF.TypeP
open MF.TypeG

/-! ## leaves -/

theorem isIdent_eq {t : Token} (h : t.kind = .ident) (n : Bytes) : t.isIdent n = Char.equalFold t.asString n := by
  simp [Token.isIdent, h]

theorem simpleName?_eq {t : Token} (h : t.kind = .ident) : simpleName? t = simpleOf t.asString := by
  unfold simpleName? simpleOf
  congr 1
  funext n
  exact isIdent_eq h n

theorem parseIdent_ok {ts ts' : PState} {i : Ident} (h : parseIdent ts = .ok (i, ts')) :
    ∃ t, ts = t :: ts' ∧ tk t.kind = .ident ∧ i = ⟨t.pos, t.end, t.asString⟩ := by
  unfold parseIdent at h
  obtain ⟨⟨t, r⟩, he, h2⟩ := Res.bind_eq_ok.1 h
  obtain ⟨rfl, ht⟩ := expect_ok he (by decide)
  simp at h2
  obtain ⟨rfl, rfl⟩ := h2
  exact ⟨t, rfl, ht, rfl⟩

theorem parseIdent_sp {ts ts' : PState} {i : Ident} (h : parseIdent ts = .ok (i, ts')) : Sp ts ts' [.ident i] := by
  obtain ⟨t, rfl, ht, rfl⟩ := parseIdent_ok h
  exact Sp.one ⟨ht, rfl⟩ (by rw [ht]; decide) (by rw [ht]; decide)

theorem parseSimpleType_sp {ts ts' : PState} {t : Ty} (h : parseSimpleType ts = .ok (t, ts')) :
    Sp ts ts' (yieldT t) ∧ wf t = true := by
  unfold parseSimpleType at h
  obtain ⟨⟨u, r⟩, he, h2⟩ := Res.bind_eq_ok.1 h
  obtain ⟨rfl, hu⟩ := expect_ok he (by decide)
  simp only at h2
  split at h2
  · rename_i n hn
    simp at h2
    obtain ⟨rfl, rfl⟩ := h2
    exact ⟨Sp.one ⟨hu, rfl, hn⟩ (by rw [hu]; decide) (by rw [hu]; decide), rfl⟩
  · cases h2

/-- the closing `>`: an ordinary `>` token, or the first half of a `>>` whose second half becomes the current token -/
theorem parseGt_sp {ts ts' : PState} {g : Nat} (h : parseGt ts = .ok (g, ts')) : Sp ts ts' [.at .gt g] := by
  unfold parseGt at h
  split at h
  · rename_i hc
    obtain ⟨t, tl, rfl, ht⟩ := cur_ne_eof hc (by decide)
    simp at h
    obtain ⟨rfl, rfl⟩ := h
    refine ⟨[gt1 t], ?_, ⟨⟨by simp, by simp⟩, trivial⟩⟩
    rw [expand_shr tl ht, expand_splitTok]; rfl
  · obtain ⟨⟨u, r⟩, he, h2⟩ := Res.bind_eq_ok.1 h
    simp at h2
    obtain ⟨rfl, rfl⟩ := h2
    exact Sp.expect he (by decide) (by decide) (by decide) (fun hk => ⟨hk, rfl⟩)

/-! ## the path loop -/

/-- what the loop of `parseIdentOrPath` reads: `.` identifier, repeatedly -/
def yieldDots : List Ident → List YT
  | [] => []
  | a :: rest => .sym .dot :: .ident a :: yieldDots rest

theorem yieldPath_cons (a : Ident) (rest : List Ident) : yieldPath (a :: rest) = .ident a :: yieldDots rest := by
  induction rest generalizing a with
  | nil => rfl
  | cons b rest ih => simp [yieldPath, yieldDots, ih]

theorem pathLoop_sp {f : Nat} {ts ts' : PState} {ids : List Ident} (h : pathLoop f ts = .ok (ids, ts')) :
    Sp ts ts' (yieldDots ids) := by
  induction f generalizing ts ts' ids with
  | zero => cases h
  | succ f ih =>
    simp only [pathLoop] at h
    split at h
    · rename_i hc
      obtain ⟨d, tl, rfl, hd⟩ := cur_ne_eof hc (by decide)
      obtain ⟨⟨i, r⟩, hi, h2⟩ := Res.bind_eq_ok.1 h
      obtain ⟨⟨more, r2⟩, hl, h3⟩ := Res.bind_eq_ok.1 h2
      simp at h3
      obtain ⟨rfl, rfl⟩ := h3
      have s1 : Sp (d :: tl) tl [.sym .dot] := Sp.one (y := .sym .dot) hd (by rw [hd]; decide) (by rw [hd]; decide)
      exact (s1.append ((parseIdent_sp hi).append (ih hl))).cast (by simp [yieldDots])
    · simp at h
      obtain ⟨rfl, rfl⟩ := h
      exact Sp.nil _

/-- the look-ahead of `parseType` on an identifier: it reads as a simple type name and the NEXT token is not `.` -/
theorem lookaheadSimpleType_cons {u : Token} {r : PState} (hu : tk u.kind = .ident) :
    lookaheadSimpleType (u :: r) = ((simpleName? u).isSome && cur r != .dot) := by
  cases hq : simpleName? u <;> simp [lookaheadSimpleType, lookaheadKind, hu, hq]

/-- the loop returns no identifier only when the current token is not a `.` -/
theorem pathLoop_nil {f : Nat} {ts ts' : PState} (h : pathLoop f ts = .ok ([], ts')) : cur ts ≠ .dot := by
  cases f with
  | zero => cases h
  | succ f =>
    simp only [pathLoop] at h
    split at h
    · obtain ⟨⟨i, r⟩, _, h2⟩ := Res.bind_eq_ok.1 h
      obtain ⟨⟨more, r2⟩, _, h3⟩ := Res.bind_eq_ok.1 h2
      simp at h3
    · assumption

theorem parseNamedType_sp {f : Nat} {ts ts' : PState} {t : Ty} (h : parseNamedType f ts = .ok (t, ts'))
    (hs : lookaheadSimpleType ts = false) : Sp ts ts' (yieldT t) ∧ wf t = true := by
  unfold parseNamedType parseIdentOrPath at h
  obtain ⟨⟨path, r⟩, h1, h2⟩ := Res.bind_eq_ok.1 h
  obtain ⟨⟨i, r1⟩, hi, h3⟩ := Res.bind_eq_ok.1 h1
  obtain ⟨⟨more, r2⟩, hl, h4⟩ := Res.bind_eq_ok.1 h3
  simp at h4 h2
  obtain ⟨rfl, rfl⟩ := h4
  obtain ⟨rfl, rfl⟩ := h2
  refine ⟨((parseIdent_sp hi).append (pathLoop_sp hl)).cast (by simp [yieldT, yieldPath_cons]), ?_⟩
  obtain ⟨u, rfl, hu, rfl⟩ := parseIdent_ok hi
  cases more with
  | cons b more => rfl
  | nil =>
    -- a one-component path: the token after the identifier is not `.`, so the identifier is no simple type name
    have hnd : cur r1 ≠ .dot := pathLoop_nil hl
    rw [lookaheadSimpleType_cons hu] at hs
    simp only [wf]
    rw [← simpleName?_eq (tk_ident.1 hu)]
    cases hq : simpleName? u with
    | none => rfl
    | some n => simp [hq, hnd] at hs

/-! ## the mutually recursive productions -/

structure SoundAt (f : Nat) : Prop where
  type : ∀ ts t ts', parseType f ts = .ok (t, ts') → Sp ts ts' (yieldT t) ∧ wf t = true
  array : ∀ ts t ts', parseArrayType f ts = .ok (t, ts') → Sp ts ts' (yieldT t) ∧ wf t = true
  struct : ∀ ts t ts', parseStructType f ts = .ok (t, ts') → Sp ts ts' (yieldT t) ∧ wf t = true
  fields : ∀ ts fs g ts', parseStructTypeFields f ts = .ok ((fs, g), ts') →
    Sp ts ts' (.sym .lt :: yieldFs fs ++ [.at .gt g]) ∧ wfs fs = true
  list : ∀ ts fs ts', parseFieldList f ts = .ok (fs, ts') → Sp ts ts' (yieldFs fs) ∧ wfs fs = true
  loop : ∀ ts fs ts', fieldLoop f ts = .ok (fs, ts') → Sp ts ts' (yieldMore fs) ∧ wfs fs = true
  field : ∀ ts i t ts', parseFieldType f ts = .ok ((i, t), ts') → Sp ts ts' (yieldName i ++ yieldT t) ∧ wf t = true

theorem sound_zero : SoundAt 0 := by
  constructor <;> intros <;> rename_i h <;> cases h

theorem sound_succ {f : Nat} (ih : SoundAt f) : SoundAt (f + 1) where
  type := by
    intro ts t ts' h
    simp only [parseType] at h
    split at h
    · split at h
      · rename_i hl
        exact parseNamedType_sp h (by simpa using hl)
      · exact parseSimpleType_sp h
    · exact ih.array _ _ _ h
    · exact ih.struct _ _ _ h
    · cases h
  array := by
    intro ts t ts' h
    simp only [parseArrayType] at h
    obtain ⟨⟨a, r1⟩, ha, h⟩ := Res.bind_eq_ok.1 h
    obtain ⟨⟨l, r2⟩, hl, h⟩ := Res.bind_eq_ok.1 h
    obtain ⟨⟨item, r3⟩, ht, h⟩ := Res.bind_eq_ok.1 h
    obtain ⟨⟨g, r4⟩, hg, h⟩ := Res.bind_eq_ok.1 h
    simp at h
    obtain ⟨rfl, rfl⟩ := h
    obtain ⟨s3, w3⟩ := ih.type _ _ _ ht
    have s1 : Sp ts r1 [.at .array a.pos] := Sp.expect ha (by decide) (by decide) (by decide) (fun hk => ⟨hk, rfl⟩)
    have s2 : Sp r1 r2 [.sym .lt] := Sp.expect (y := .sym .lt) hl (by decide) (by decide) (by decide) (fun hk => hk)
    exact ⟨(s1.append (s2.append (s3.append (parseGt_sp hg)))).cast (by simp [yieldT]), by simpa [wf] using w3⟩
  struct := by
    intro ts t ts' h
    simp only [parseStructType] at h
    obtain ⟨⟨s, r1⟩, hs, h⟩ := Res.bind_eq_ok.1 h
    simp only at h
    split at h
    · cases h
    · obtain ⟨⟨⟨fs, g⟩, r2⟩, hf, h⟩ := Res.bind_eq_ok.1 h
      simp at h
      obtain ⟨rfl, rfl⟩ := h
      obtain ⟨s2, w2⟩ := ih.fields _ _ _ _ hf
      have s1 : Sp ts r1 [.at .struct_ s.pos] := Sp.expect hs (by decide) (by decide) (by decide) (fun hk => ⟨hk, rfl⟩)
      exact ⟨(s1.append s2).cast (by simp [yieldT]), by simpa [wf] using w2⟩
  fields := by
    intro ts fs g ts' h
    simp only [parseStructTypeFields] at h
    split at h
    · rename_i hc
      obtain ⟨t, tl, rfl, ht⟩ := cur_ne_eof hc (by decide)
      simp at h
      obtain ⟨⟨rfl, rfl⟩, rfl⟩ := h
      refine ⟨⟨[lt1 t, gt2 t], ?_, ?_⟩, rfl⟩
      · rw [expand_ltgt tl ht]; rfl
      · simp [yieldFs, YT.ok]
    · obtain ⟨⟨l, r1⟩, hl, h⟩ := Res.bind_eq_ok.1 h
      obtain ⟨⟨fs', r2⟩, hf, h⟩ := Res.bind_eq_ok.1 h
      obtain ⟨⟨g', r3⟩, hg, h⟩ := Res.bind_eq_ok.1 h
      simp at h
      obtain ⟨⟨rfl, rfl⟩, rfl⟩ := h
      have s1 : Sp ts r1 [.sym .lt] := Sp.expect (y := .sym .lt) hl (by decide) (by decide) (by decide) (fun hk => hk)
      have s2 : Sp r1 r2 (yieldFs fs') ∧ wfs fs' = true := by
        simp only at hf
        split at hf
        · exact ih.list _ _ _ hf
        · simp at hf
          obtain ⟨rfl, rfl⟩ := hf
          exact ⟨Sp.nil _, rfl⟩
      exact ⟨(s1.append (s2.1.append (parseGt_sp hg))).cast (by simp), s2.2⟩
  list := by
    intro ts fs ts' h
    simp only [parseFieldList] at h
    obtain ⟨⟨⟨i, t⟩, r1⟩, hx, h⟩ := Res.bind_eq_ok.1 h
    obtain ⟨⟨more, r2⟩, hm, h⟩ := Res.bind_eq_ok.1 h
    simp at h
    obtain ⟨rfl, rfl⟩ := h
    obtain ⟨s1, w1⟩ := ih.field _ _ _ _ hx
    obtain ⟨s2, w2⟩ := ih.loop _ _ _ hm
    exact ⟨(s1.append s2).cast (by simp [yieldFs]), by simp [wfs, w1, w2]⟩
  loop := by
    intro ts fs ts' h
    simp only [fieldLoop] at h
    split at h
    · rename_i hc
      obtain ⟨c, tl, rfl, hcm⟩ := cur_ne_eof hc (by decide)
      obtain ⟨⟨⟨i, t⟩, r1⟩, hx, h⟩ := Res.bind_eq_ok.1 h
      obtain ⟨⟨more, r2⟩, hm, h⟩ := Res.bind_eq_ok.1 h
      simp at h
      obtain ⟨rfl, rfl⟩ := h
      obtain ⟨s1, w1⟩ := ih.field _ _ _ _ hx
      obtain ⟨s2, w2⟩ := ih.loop _ _ _ hm
      have s0 : Sp (c :: tl) tl [.sym .comma] :=
        Sp.one (y := .sym .comma) hcm (by rw [hcm]; decide) (by rw [hcm]; decide)
      exact ⟨(s0.append (s1.append s2)).cast (by simp [yieldMore]), by simp [wfs, w1, w2]⟩
    · simp at h
      obtain ⟨rfl, rfl⟩ := h
      exact ⟨Sp.nil _, rfl⟩
  field := by
    intro ts i t ts' h
    simp only [parseFieldType] at h
    split at h
    · obtain ⟨⟨id, r1⟩, hi, h⟩ := Res.bind_eq_ok.1 h
      obtain ⟨⟨t', r2⟩, ht, h⟩ := Res.bind_eq_ok.1 h
      simp at h
      obtain ⟨⟨rfl, rfl⟩, rfl⟩ := h
      obtain ⟨s2, w2⟩ := ih.type _ _ _ ht
      exact ⟨((parseIdent_sp hi).append s2).cast (by simp [yieldName]), w2⟩
    · obtain ⟨⟨t', r2⟩, ht, h⟩ := Res.bind_eq_ok.1 h
      simp at h
      obtain ⟨⟨rfl, rfl⟩, rfl⟩ := h
      obtain ⟨s2, w2⟩ := ih.type _ _ _ ht
      exact ⟨s2.cast (by simp [yieldName]), w2⟩

theorem sound_all (f : Nat) : SoundAt f := by
  induction f with
  | zero => exact sound_zero
  | succ f ih => exact sound_succ ih

/-- soundness of `parseType` -/
theorem parseType_sound {f : Nat} {ts ts' : PState} {t : Ty} (h : parseType f ts = .ok (t, ts')) :
    (∃ pre, expand ts = pre ++ expand ts' ∧ Match (yieldT t) pre) ∧ wf t = true :=
  (sound_all f).type _ _ _ h

/-- soundness of the entry point: the whole (expanded) token list up to an `<eof>` reads as the tree -/
theorem parseTypeTop_sound {f : Nat} {ts : PState} {t : Ty} (h : parseTypeTop f ts = .ok t) :
    ∃ pre rest, expand ts = pre ++ rest ∧ cur rest = .eof ∧ Match (yieldT t) pre ∧ wf t = true := by
  unfold parseTypeTop at h
  obtain ⟨⟨t', ts'⟩, hp, h2⟩ := Res.bind_eq_ok.1 h
  simp only at h2
  split at h2
  · rename_i he
    cases h2
    obtain ⟨⟨pre, e, m⟩, w⟩ := parseType_sound hp
    refine ⟨pre, expand ts', e, ?_, m, w⟩
    cases ts' with
    | nil => rfl
    | cons u tl =>
      have hu : tk u.kind = .eof := he
      rw [expand_plain tl (by rw [hu]; decide) (by rw [hu]; decide)]
      exact hu
  · cases h2

end MF.TypeP
