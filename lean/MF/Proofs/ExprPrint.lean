/-
  MF.Proofs.ExprPrint — the printer side of C07, at the TOKEN level (partial: see `print_minimal_partial`).

  `sqlToks e` is the token-level image of `sqlE e` (the model of the `SQL()` methods): the same recursion, the same
  `exprPrec` / `paren` decisions, emitting projected tokens instead of bytes.  That lexing the bytes `sqlE e` gives
  exactly these tokens is NOT proved here (it needs a compositional theory of the lexer over concatenations); it
  is checked by the EXPR channel on every explored input (field `rt` of the answer), on the model and on the Go
  code.  What IS proved: for every tree grouped as the table says, `paren` never fires, i.e. the printed token
  sequence is the yield of the tree (with position keywords in their canonical spelling) — no parenthesis is
  added — and that sequence parses back to the tree — none is needed.
-/
import MF.Proofs.ExprUnique
import MF.Spec.PrintToks
set_option linter.unusedSimpArgs false
namespace MF.Expr

theorem exprPrec_le_level (e : Expr) : exprPrec e ≤ level e := by
  cases e <;> simp [exprPrec, level]
  · rename_i op _; cases op <;> simp [UOp.prec, UOp.level]
  · rename_i op _ _; cases op <;> simp [BOp.prec, BOp.level]

theorem UOp.prec_eq (op : UOp) : op.prec = op.level := by cases op <;> rfl
theorem BOp.prec_eq (op : BOp) : op.prec = op.level := by cases op <;> rfl

theorem parenT_id {p : Nat} {e : Expr} {ts : List Tok'} (h : level e ≤ p) : parenT p e ts = ts := by
  have := exprPrec_le_level e
  simp [parenT, Nat.le_trans this h]

mutual
/-- **The printer adds no parenthesis** (token level).  For a tree grouped as the table says, every `paren(p, e)`
of the `SQL()` methods returns the operand text unchanged: the printed tokens are the yield of the tree. -/
theorem sqlToks_eq_yield : (e : Expr) → PrecOK e → sqlToks e = yield (canonKw e)
  | .null, _ => by simp [sqlToks, canonKw, yield]
  | .bool _, _ => by simp [sqlToks, canonKw, yield]
  | .int _ _, _ => by simp [sqlToks, canonKw, yield]
  | .float _ _, _ => by simp [sqlToks, canonKw, yield]
  | .str _, _ => by simp [sqlToks, canonKw, yield]
  | .bytes _, _ => by simp [sqlToks, canonKw, yield]
  | .param _, _ => by simp [sqlToks, canonKw, yield]
  | .ident _, _ => by simp [sqlToks, canonKw, yield]
  | .path _, _ => by simp [sqlToks, canonKw, yield]
  | .paren e, hp => by
    simp only [PrecOK, precOK] at hp
    simp [sqlToks, canonKw, yield, sqlToks_eq_yield e hp]
  | .unary op e, hp => by
    simp only [PrecOK, precOK, Bool.and_eq_true, decide_eq_true_eq] at hp
    simp [sqlToks, canonKw, yield, sqlToks_eq_yield e hp.1, parenT_id (op.prec_eq ▸ hp.2)]
  | .bin op l r, hp => by
    simp only [PrecOK, precOK, Bool.and_eq_true, decide_eq_true_eq] at hp
    have hl : level l ≤ op.prec := by
      rw [op.prec_eq]; have := hp.1.2; split at this <;> simp only [decide_eq_true_eq] at this <;> omega
    have hr : level r ≤ op.prec := by rw [op.prec_eq]; omega
    simp [sqlToks, canonKw, yield, sqlToks_eq_yield l hp.1.1.1, sqlToks_eq_yield r hp.1.1.2, parenT_id hl, parenT_id hr]
  | .isNull e n, hp => by
    simp only [PrecOK, precOK, Bool.and_eq_true, decide_eq_true_eq] at hp
    simp [sqlToks, canonKw, yield, sqlToks_eq_yield e hp.1, parenT_id (show level e ≤ 9 by omega)]
  | .isBool e n b, hp => by
    simp only [PrecOK, precOK, Bool.and_eq_true, decide_eq_true_eq] at hp
    simp [sqlToks, canonKw, yield, sqlToks_eq_yield e hp.1, parenT_id (show level e ≤ 9 by omega)]
  | .between n e lo hi, hp => by
    simp only [PrecOK, precOK, Bool.and_eq_true, decide_eq_true_eq] at hp
    simp [sqlToks, canonKw, yield, sqlToks_eq_yield e hp.1.1.1.1.1, sqlToks_eq_yield lo hp.1.1.1.1.2,
      sqlToks_eq_yield hi hp.1.1.1.2, parenT_id (show level e ≤ 9 by omega), parenT_id (show level lo ≤ 9 by omega),
      parenT_id (show level hi ≤ 9 by omega)]
  | .inList n e f m, hp => by
    simp only [PrecOK, precOK, Bool.and_eq_true, decide_eq_true_eq] at hp
    simp [sqlToks, canonKw, yield, sqlToks_eq_yield e hp.1.1.1, sqlToks_eq_yield f hp.1.2, sqlToksL_eq_yields m hp.2,
      parenT_id (show level e ≤ 9 by omega)]
  | .inUnnest n e a, hp => by
    simp only [PrecOK, precOK, Bool.and_eq_true, decide_eq_true_eq] at hp
    simp [sqlToks, canonKw, yield, sqlToks_eq_yield e hp.1.1, sqlToks_eq_yield a hp.2,
      parenT_id (show level e ≤ 9 by omega)]
  | .sel e n, hp => by
    simp only [PrecOK, precOK, Bool.and_eq_true, decide_eq_true_eq] at hp
    simp [sqlToks, canonKw, yield, sqlToks_eq_yield e hp.1, parenT_id hp.2]
  | .index e none i, hp => by
    simp only [PrecOK, precOK, Bool.and_eq_true, decide_eq_true_eq] at hp
    simp [sqlToks, canonKw, yield, sqlToks_eq_yield e hp.1.1, sqlToks_eq_yield i hp.2, parenT_id hp.1.2]
  | .index e (some (k, sp)) i, hp => by
    simp only [PrecOK, precOK, Bool.and_eq_true, decide_eq_true_eq] at hp
    simp [sqlToks, canonKw, yield, sqlToks_eq_yield e hp.1.1, sqlToks_eq_yield i hp.2, parenT_id hp.1.2]
  | .caseE o c t ws el, hp => by
    simp only [PrecOK, precOK, Bool.and_eq_true] at hp
    simp only [sqlToks, canonKw, yield, sqlToksO_eq_yieldO [] o hp.1.1.1.1, sqlToks_eq_yield c hp.1.1.1.2,
      sqlToks_eq_yield t hp.1.1.2, sqlToksW_eq_yieldW ws hp.1.2, sqlToksO_eq_yieldO [T .else_] el hp.2]
  | .ifE c t e, hp => by
    simp only [PrecOK, precOK, Bool.and_eq_true] at hp
    simp only [sqlToks, canonKw, yield, sqlToks_eq_yield c hp.1.1, sqlToks_eq_yield t hp.1.2, sqlToks_eq_yield e hp.2]
  | .array .nil, _ => by simp [sqlToks, canonKw, canonKwL, yield]
  | .cast e ns, hp => by
    simp only [PrecOK, precOK] at hp
    simp only [sqlToks, canonKw, yield, sqlToks_eq_yield e hp]
  | .array (.cons e es), hp => by
    simp only [PrecOK, precOK, precOKs, Bool.and_eq_true] at hp
    simp only [sqlToks, canonKw, canonKwL, yield, sqlToks_eq_yield e hp.1, sqlToksL_eq_yields es hp.2]
theorem sqlToksL_eq_yields : (m : Exprs) → precOKs m = true → sqlToksL m = yields (canonKwL m)
  | .nil, _ => by simp [sqlToksL, canonKwL, yields]
  | .cons e es, hp => by
    simp only [precOKs, Bool.and_eq_true] at hp
    simp [sqlToksL, canonKwL, yields, sqlToks_eq_yield e hp.1, sqlToksL_eq_yields es hp.2]
theorem sqlToksW_eq_yieldW : (ws : Whens) → precOKw ws = true → sqlToksW ws = yieldW (canonKwW ws)
  | .nil, _ => by simp [sqlToksW, canonKwW, yieldW]
  | .cons c t ws, hp => by
    simp only [precOKw, Bool.and_eq_true] at hp
    simp only [sqlToksW, canonKwW, yieldW, sqlToks_eq_yield c hp.1.1, sqlToks_eq_yield t hp.1.2,
      sqlToksW_eq_yieldW ws hp.2]
theorem sqlToksO_eq_yieldO (pre : List Tok') : (o : OExpr) → precOKo o = true →
    sqlToksO pre o = yieldO pre (canonKwO o)
  | .none, _ => by simp [sqlToksO, canonKwO, yieldO]
  | .some e, hp => by
    simp only [precOKo] at hp
    simp only [sqlToksO, canonKwO, yieldO, sqlToks_eq_yield e hp]
end

/-! ## canonical spelling preserves grouping and normal form -/

theorem level_canonKw (e : Expr) : level (canonKw e) = level e := by
  cases e <;> simp [canonKw, level]
  rename_i e kw i
  cases kw with
  | none => simp [canonKw, level]
  | some ks => obtain ⟨k, sp⟩ := ks; simp [canonKw, level]

theorem isIdentOrPath_canonKw (e : Expr) : isIdentOrPath (canonKw e) = isIdentOrPath e := by
  cases e <;> simp [canonKw, isIdentOrPath]
  rename_i e kw i
  cases kw with
  | none => simp [canonKw, isIdentOrPath]
  | some ks => obtain ⟨k, sp⟩ := ks; simp [canonKw, isIdentOrPath]

theorem rawSigned_canonKw (e : Expr) : rawSigned (canonKw e) = rawSigned e := by
  cases e <;> simp [canonKw, rawSigned]
  rename_i e kw i
  cases kw with
  | none => simp [canonKw, rawSigned]
  | some ks => obtain ⟨k, sp⟩ := ks; simp [canonKw, rawSigned]

theorem posKwName_str (k : PosKw) : posKwName k.str = some k := by cases k <;> decide

mutual
theorem precOK_canonKw : (e : Expr) → precOK (canonKw e) = precOK e
  | .null | .bool _ | .int _ _ | .float _ _ | .str _ | .bytes _ | .param _ | .ident _ | .path _ => by simp [canonKw]
  | .paren e => by simp [canonKw, precOK, precOK_canonKw e]
  | .unary op e => by simp [canonKw, precOK, precOK_canonKw e, level_canonKw]
  | .bin op l r => by simp [canonKw, precOK, precOK_canonKw l, precOK_canonKw r, level_canonKw]
  | .isNull e _ => by simp [canonKw, precOK, precOK_canonKw e, level_canonKw]
  | .isBool e _ _ => by simp [canonKw, precOK, precOK_canonKw e, level_canonKw]
  | .between _ e lo hi => by
    simp [canonKw, precOK, precOK_canonKw e, precOK_canonKw lo, precOK_canonKw hi, level_canonKw]
  | .inList _ e f m => by simp [canonKw, precOK, precOK_canonKw e, precOK_canonKw f, precOKs_canonKwL m, level_canonKw]
  | .inUnnest _ e a => by simp [canonKw, precOK, precOK_canonKw e, precOK_canonKw a, level_canonKw]
  | .sel e _ => by simp [canonKw, precOK, precOK_canonKw e, level_canonKw]
  | .index e none i => by simp [canonKw, precOK, precOK_canonKw e, precOK_canonKw i, level_canonKw]
  | .index e (some (k, sp)) i => by simp [canonKw, precOK, precOK_canonKw e, precOK_canonKw i, level_canonKw]
  | .caseE o c t ws el => by
    simp only [canonKw, precOK, precOKo_canonKwO o, precOK_canonKw c, precOK_canonKw t, precOKw_canonKwW ws,
      precOKo_canonKwO el]
  | .ifE c t e => by simp only [canonKw, precOK, precOK_canonKw c, precOK_canonKw t, precOK_canonKw e]
  | .array es => by simp only [canonKw, precOK, precOKs_canonKwL es]
  | .cast e _ => by simp only [canonKw, precOK, precOK_canonKw e]
theorem precOKs_canonKwL : (m : Exprs) → precOKs (canonKwL m) = precOKs m
  | .nil => by simp [canonKwL]
  | .cons e es => by simp [canonKwL, precOKs, precOK_canonKw e, precOKs_canonKwL es]
theorem precOKw_canonKwW : (ws : Whens) → precOKw (canonKwW ws) = precOKw ws
  | .nil => by simp [canonKwW]
  | .cons c t ws => by simp only [canonKwW, precOKw, precOK_canonKw c, precOK_canonKw t, precOKw_canonKwW ws]
theorem precOKo_canonKwO : (o : OExpr) → precOKo (canonKwO o) = precOKo o
  | .none => by simp [canonKwO]
  | .some e => by simp only [canonKwO, precOKo, precOK_canonKw e]
end

theorem head?_append_congr {α : Type} {a a' b b' : List α} (h1 : a.head? = a'.head?) (h2 : b.head? = b'.head?) :
    (a ++ b).head? = (a' ++ b').head? := by
  cases a <;> cases a' <;> simp_all

/-- the first token of the yield does not change (a position keyword is never first) -/
theorem head_yield_canonKw : (e : Expr) → (yield (canonKw e)).head? = (yield e).head?
  | .null | .bool _ | .int _ _ | .float _ _ | .str _ | .bytes _ | .param _ | .ident _ | .path _ => by simp [canonKw]
  | .paren e => by simp [canonKw, yield]
  | .unary op e => by simp [canonKw, yield]
  | .bin op l r => by
    simp only [canonKw, yield]
    exact head?_append_congr (head_yield_canonKw l) (by cases op <;> simp [BOp.toks])
  | .isNull e _ => by simp only [canonKw, yield]; exact head?_append_congr (head_yield_canonKw e) rfl
  | .isBool e _ _ => by simp only [canonKw, yield]; exact head?_append_congr (head_yield_canonKw e) rfl
  | .between n e _ _ => by
    simp only [canonKw, yield]; exact head?_append_congr (head_yield_canonKw e) (by cases n <;> simp [notToks])
  | .inList n e _ _ => by
    simp only [canonKw, yield]; exact head?_append_congr (head_yield_canonKw e) (by cases n <;> simp [notToks])
  | .inUnnest n e _ => by
    simp only [canonKw, yield]; exact head?_append_congr (head_yield_canonKw e) (by cases n <;> simp [notToks])
  | .sel e _ => by simp only [canonKw, yield]; exact head?_append_congr (head_yield_canonKw e) rfl
  | .index e none _ => by simp only [canonKw, yield]; exact head?_append_congr (head_yield_canonKw e) rfl
  | .index e (some (k, sp)) _ => by simp only [canonKw, yield]; exact head?_append_congr (head_yield_canonKw e) rfl
  | .caseE .. => by simp [canonKw, yield]
  | .ifE .. => by simp [canonKw, yield]
  | .array .nil => by simp [canonKw, canonKwL, yield]
  | .array (.cons _ _) => by simp [canonKw, canonKwL, yield]
  | .cast .. => by simp [canonKw, yield]

theorem startsPosKw_congr {a b : List Tok'} (h : a.head? = b.head?) : startsPosKw a = startsPosKw b := by
  cases a with
  | nil => cases b with
    | nil => rfl
    | cons y ys => simp at h
  | cons x xs => cases b with
    | nil => simp at h
    | cons y ys =>
      simp only [List.head?_cons, Option.some.injEq] at h
      subst h
      obtain ⟨k, v⟩ := x
      cases k <;> rfl

mutual
theorem nf_canonKw : (e : Expr) → nf e = true → nf (canonKw e) = true
  | .null, h | .bool _, h | .int _ _, h | .float _ _, h | .str _, h | .bytes _, h | .param _, h | .ident _, h
  | .path _, h => by simpa [canonKw] using h
  | .paren e, h => by simp only [nf] at h; simp [canonKw, nf, nf_canonKw e h]
  | .unary op e, h => by
    simp only [nf, Bool.and_eq_true] at h
    simp only [canonKw, nf, nf_canonKw e h.1, rawSigned_canonKw, Bool.true_and]; exact h.2
  | .bin op l r, h => by
    simp only [nf, Bool.and_eq_true] at h; simp [canonKw, nf, nf_canonKw l h.1, nf_canonKw r h.2]
  | .isNull e _, h => by simp only [nf] at h; simp [canonKw, nf, nf_canonKw e h]
  | .isBool e _ _, h => by simp only [nf] at h; simp [canonKw, nf, nf_canonKw e h]
  | .between _ e lo hi, h => by
    simp only [nf, Bool.and_eq_true] at h
    simp [canonKw, nf, nf_canonKw e h.1.1, nf_canonKw lo h.1.2, nf_canonKw hi h.2]
  | .inList _ e f m, h => by
    simp only [nf, Bool.and_eq_true] at h
    simp [canonKw, nf, nf_canonKw e h.1.1, nf_canonKw f h.1.2, nfs_canonKwL m h.2]
  | .inUnnest _ e a, h => by
    simp only [nf, Bool.and_eq_true] at h; simp [canonKw, nf, nf_canonKw e h.1, nf_canonKw a h.2]
  | .sel e _, h => by
    simp only [nf, Bool.and_eq_true] at h
    simp only [canonKw, nf, nf_canonKw e h.1, isIdentOrPath_canonKw, Bool.true_and]; exact h.2
  | .index e none i, h => by
    simp only [nf, Bool.and_eq_true] at h
    simp [canonKw, nf, nf_canonKw e h.1, nf_canonKw i h.2]
  | .index e (some (k, sp)) i, h => by
    simp only [nf, Bool.and_eq_true] at h
    simp [canonKw, nf, nf_canonKw e h.1.1, nf_canonKw i h.1.2, posKwName_str]
  | .caseE o c t ws el, h => by
    simp only [nf, Bool.and_eq_true] at h
    simp [canonKw, nf, nfo_canonKwO o h.1.1.1.1, nf_canonKw c h.1.1.1.2, nf_canonKw t h.1.1.2, nfw_canonKwW ws h.1.2,
      nfo_canonKwO el h.2]
  | .ifE c t e, h => by
    simp only [nf, Bool.and_eq_true] at h
    simp [canonKw, nf, nf_canonKw c h.1.1, nf_canonKw t h.1.2, nf_canonKw e h.2]
  | .array es, h => by simp only [nf] at h; simp [canonKw, nf, nfs_canonKwL es h]
  | .cast e ns, h => by simp only [nf, Bool.and_eq_true] at h; simp [canonKw, nf, nf_canonKw e h.1, h.2]
theorem nfs_canonKwL : (m : Exprs) → nfs m = true → nfs (canonKwL m) = true
  | .nil, _ => by simp [canonKwL, nfs]
  | .cons e es, h => by
    simp only [nfs, Bool.and_eq_true] at h; simp [canonKwL, nfs, nf_canonKw e h.1, nfs_canonKwL es h.2]
theorem nfw_canonKwW : (ws : Whens) → nfw ws = true → nfw (canonKwW ws) = true
  | .nil, _ => by simp [canonKwW, nfw]
  | .cons c t ws, h => by
    simp only [nfw, Bool.and_eq_true] at h
    simp [canonKwW, nfw, nf_canonKw c h.1.1, nf_canonKw t h.1.2, nfw_canonKwW ws h.2]
theorem nfo_canonKwO : (o : OExpr) → nfo o = true → nfo (canonKwO o) = true
  | .none, _ => by simp [canonKwO, nfo]
  | .some e, h => by simp only [nfo] at h; simp [canonKwO, nfo, nf_canonKw e h]
end

/-- **`print_minimal`, token level.**  For a tree `e` the parser can build (`PrecOK e`, `NF e`):
  (1) the token image of `SQL()` is the yield of `e` with canonical position keywords — the printer adds no
      parenthesis: the only `(` `)` are those of the `paren` nodes of the tree (and of IN lists / UNNEST / position
      keywords, which are part of the syntax of those constructs);
  (2) any token list reading that image, followed by a token that does not continue an expression, parses back to
      the same tree — no parenthesis is needed.
  PARTIAL: the step from the bytes `sqlE e` to the tokens `sqlToks e` (the model lexer run on the printed text) is
  not proved; the EXPR channel checks it on every explored input. -/
theorem print_minimal_partial {e : Expr} (hp : PrecOK e) (hn : NF e) :
    sqlToks e = yield (canonKw e) ∧
    ∀ pre rest, pre.map proj = sqlToks e → (∀ t ∈ pre, isCastLike t = false) → Follow rest →
      ∃ n, ∀ fuel, n ≤ fuel → parseExpr fuel (pre ++ rest) = .ok (canonKw e, rest) := by
  have h1 := sqlToks_eq_yield e hp
  refine ⟨h1, fun pre rest hr hc hf => ?_⟩
  have hp' : PrecOK (canonKw e) := by simpa [PrecOK, precOK_canonKw] using hp
  have hn' : NF (canonKw e) := nf_canonKw e hn
  exact parseExpr_complete hp' hn' (by rw [hr, h1]) hc hf

end MF.Expr
