/-
  MF.Proofs.TypePrint — the lexer side of C01 / C02 for types: the printed text `sqlT t` of a tree whose names are
  non-empty and whose simple type names are table entries lexes, and its (expanded) tokens read as the yield of `t`
  (`rtOK t = true`).

  The printed text is cut into PIECES (keyword, simple type name, dotted path of names, `<`, `>`, `,`, blank); a text made
  of pieces that satisfy simple adjacency conditions is lexed piece by piece (`lex_pieces`), the only tokens that span two
  pieces being `<>` and `>>`, which the expansion undoes.
-/
import MF.Proofs.LexCompose
import MF.Proofs.LexWindow
import MF.Proofs.TypeRound
namespace MF.TypeP
open MF.TypeG MF.Lex

/-! ## pieces -/

inductive Piece
  | arrayKw | structKw
  | simple (n : Bytes)
  /-- a dotted path of names, each printed by `Ident.SQL()` -/
  | path (ns : List Bytes)
  | lt | gt | comma | sp

def nameSQL (n : Bytes) : Bytes := identSQL ⟨0, 0, n⟩

def pathText : List Bytes → Bytes
  | [] => []
  | [a] => nameSQL a
  | a :: b :: rest => nameSQL a ++ [46] ++ pathText (b :: rest)

def Piece.text : Piece → Bytes
  | .arrayKw => B "ARRAY"
  | .structKw => B "STRUCT"
  | .simple n => n
  | .path ns => pathText ns
  | .lt => [60]
  | .gt => [62]
  | .comma => [44]
  | .sp => [32]

def textOf : List Piece → Bytes
  | [] => []
  | p :: ps => p.text ++ textOf ps

theorem textOf_append (a b : List Piece) : textOf (a ++ b) = textOf a ++ textOf b := by
  induction a with
  | nil => rfl
  | cons p a ih => simp [textOf, ih]

def descPath : List Bytes → List YT
  | [] => []
  | [a] => [.ident ⟨0, 0, a⟩]
  | a :: b :: rest => .ident ⟨0, 0, a⟩ :: .sym .dot :: descPath (b :: rest)

/-- the token descriptions of a piece (positions 0) -/
def Piece.desc : Piece → List YT
  | .arrayKw => [.at .array 0]
  | .structKw => [.at .struct_ 0]
  | .simple n => [.simple 0 n]
  | .path ns => descPath ns
  | .lt => [.sym .lt]
  | .gt => [.at .gt 0]
  | .comma => [.sym .comma]
  | .sp => []

def descOf : List Piece → List YT
  | [] => []
  | p :: ps => p.desc ++ descOf ps

theorem descOf_append (a b : List Piece) : descOf (a ++ b) = descOf a ++ descOf b := by
  induction a with
  | nil => rfl
  | cons p a ih => simp [descOf, ih]

/-! ## the pieces of a tree -/

def piecesName : Option Ident → List Piece
  | some i => [.path [i.name], .sp]
  | none => []

mutual
def piecesT : Ty → List Piece
  | .simple _ n => [.simple n]
  | .named path => [.path (path.map (·.name))]
  | .array _ _ item => .arrayKw :: .lt :: piecesT item ++ [.gt]
  | .struct _ _ fs => .structKw :: .lt :: piecesFs fs ++ [.gt]
def piecesFs : Fields → List Piece
  | .nil => []
  | .cons i t rest => piecesName i ++ piecesT t ++ piecesMore rest
def piecesMore : Fields → List Piece
  | .nil => []
  | .cons i t rest => .comma :: .sp :: piecesName i ++ piecesT t ++ piecesMore rest
end

theorem identSQL_name (i : Ident) : identSQL i = nameSQL i.name := rfl

theorem pathText_eq (path : List Ident) : pathText (path.map (·.name)) = pathSQL path := by
  induction path with
  | nil => rfl
  | cons a rest ih =>
    cases rest with
    | nil => rfl
    | cons b r =>
      simp only [List.map_cons, pathText, pathSQL] at ih ⊢
      rw [ih, identSQL_name]
      rfl

theorem textOf_name (i : Option Ident) : textOf (piecesName i) = fieldNameSQL i := by
  cases i with
  | none => rfl
  | some i => simp [piecesName, textOf, Piece.text, pathText, fieldNameSQL, identSQL_name]; rfl

mutual
theorem textOf_piecesT : ∀ t : Ty, textOf (piecesT t) = sqlT t
  | .simple _ n => by simp [piecesT, textOf, Piece.text, sqlT]
  | .named path => by simp [piecesT, textOf, Piece.text, sqlT, pathText_eq]
  | .array _ _ item => by
    simp only [piecesT, textOf, textOf_append, Piece.text, sqlT, textOf_piecesT item, List.append_nil]
    rfl
  | .struct _ _ fs => by
    simp only [piecesT, textOf, textOf_append, Piece.text, sqlT, (textOf_piecesFs fs).1, List.append_nil]
    rfl
theorem textOf_piecesFs : ∀ fs : Fields, textOf (piecesFs fs) = sqlFs fs ∧ textOf (piecesMore fs) = sqlMore fs
  | .nil => ⟨rfl, rfl⟩
  | .cons i t rest => by
    have h1 := textOf_piecesT t
    have h2 := (textOf_piecesFs rest).2
    constructor
    · simp only [piecesFs, textOf_append, textOf_name, h1, h2, sqlFs, List.append_assoc]
    · simp only [piecesMore, textOf, textOf_append, textOf_name, h1, h2, sqlMore, Piece.text, List.append_assoc]
      rfl
end

theorem descPath_eq (path : List Ident) : descPath (path.map (·.name)) = yieldPath (path.map eraseI) := by
  induction path with
  | nil => rfl
  | cons a rest ih =>
    cases rest with
    | nil => rfl
    | cons b r =>
      simp only [List.map_cons, descPath, yieldPath] at ih ⊢
      rw [ih]; rfl

theorem descOf_name (i : Option Ident) : descOf (piecesName i) = yieldName (i.map eraseI) := by
  cases i <;> rfl

mutual
theorem descOf_piecesT : ∀ t : Ty, descOf (piecesT t) = yieldT (eraseT t)
  | .simple _ n => rfl
  | .named path => by simp [piecesT, descOf, Piece.desc, eraseT, yieldT, descPath_eq]
  | .array _ _ item => by
    simp only [piecesT, descOf, descOf_append, Piece.desc, eraseT, yieldT, descOf_piecesT item, List.append_nil]
    rfl
  | .struct _ _ fs => by
    simp only [piecesT, descOf, descOf_append, Piece.desc, eraseT, yieldT, (descOf_piecesFs fs).1, List.append_nil]
    rfl
theorem descOf_piecesFs : ∀ fs : Fields,
    descOf (piecesFs fs) = yieldFs (eraseFs fs) ∧ descOf (piecesMore fs) = yieldMore (eraseFs fs)
  | .nil => ⟨rfl, rfl⟩
  | .cons i t rest => by
    have h1 := descOf_piecesT t
    have h2 := (descOf_piecesFs rest).2
    constructor
    · simp only [piecesFs, descOf_append, descOf_name, h1, h2, eraseFs, yieldFs]
    · simp only [piecesMore, descOf, descOf_append, descOf_name, h1, h2, eraseFs, yieldMore, Piece.desc, List.append_assoc]
      rfl
end

/-! ## names -/

open MF.Props.C16 (Trivia NoTriviaStart SpaceRune)

theorem trivia_blank : Trivia false [32] := by
  have hs : SpaceRune [32] := ⟨by decide, by decide, by decide⟩
  have := Trivia.space (e := false) hs Trivia.nil
  simpa using this

/-- how `Ident.SQL()` prints a non-empty name: as it is when it is an identifier-shaped non-keyword, else back-quoted -/
theorem nameSQL_cases (n : Bytes) (hn : n ≠ []) :
    (nameSQL n = n ∧ IsWord n ∧ reserved.contains (Char.toUpper n) = false) ∨
    nameSQL n = [96] ++ Quote.quoteStringContent asciiPrint 96 (n.length + 1) n ++ [96] := by
  cases n with
  | nil => exact absurd rfl hn
  | cons c t =>
    unfold nameSQL identSQL Quote.quoteIdent Quote.needQuoteIdent
    simp only
    by_cases hk : isKeyword (c :: t) = true
    · right; simp [hk]
    · have hk' : isKeyword (c :: t) = false := by simpa using hk
      simp only [hk', Bool.false_eq_true, if_false]
      by_cases hshape : Char.isIdentStart c = true ∧ (c :: t).all Char.isIdentPart = true
      · left
        have hnq : (!Char.isIdentStart c || !(c :: t).all Char.isIdentPart) = false := by
          simp only [hshape.1, hshape.2, Bool.not_true, Bool.or_self]
        rw [hnq]
        refine ⟨rfl, ⟨by simp, ?_, hshape.2⟩, hk'⟩
        intro d hd
        simp only [List.head?_cons, Option.some.injEq] at hd
        rw [← hd]; exact hshape.1
      · right
        have hnq : (!Char.isIdentStart c || !(c :: t).all Char.isIdentPart) = true := by
          cases h1 : Char.isIdentStart c <;> cases h2 : (c :: t).all Char.isIdentPart <;> simp_all
        rw [hnq]
        rfl

/-- a printed name in front of a delimiter is scanned as one identifier token with that name, in both scanner modes -/
theorem scan_name (n : Bytes) (hn : n ≠ []) {Z : Bytes} (hZ : Delim Z) (p0 : Nat) (lk : TokKind) (dot : Bool) :
    (if dot = true then consumeFieldToken (nameSQL n ++ Z) p0 lk false else consumeToken (nameSQL n ++ Z) p0 lk false) =
      .ok { kind := .ident, len := (nameSQL n).length, asString := n } := by
  rcases nameSQL_cases n hn with ⟨h1, hw, hk⟩ | h1
  · rw [h1]
    cases dot with
    | true => simp only [if_true]; exact consumeFieldToken_word hw hZ p0 lk
    | false =>
      simp only [Bool.false_eq_true, if_false]
      rw [consumeToken_word hw hZ p0 lk, hk]
      rfl
  · rw [h1]
    have hl : ([96] ++ Quote.quoteStringContent asciiPrint 96 (n.length + 1) n ++ [96]).length =
        (Quote.quoteStringContent asciiPrint 96 (n.length + 1) n).length + 2 := by
      simp only [List.length_append, List.length_cons, List.length_nil]; omega
    rw [hl]
    cases dot with
    | true => simp only [if_true]; exact consumeFieldToken_bquote_ctx asciiPrint n hn Z p0 lk
    | false => simp only [Bool.false_eq_true, if_false]; exact consumeToken_bquote_ctx asciiPrint n hn Z p0 lk

/-- the first byte of a printed name -/
theorem nameSQL_head (n : Bytes) (hn : n ≠ []) :
    ∃ b t, nameSQL n = b :: t ∧ (Char.isIdentStart b = true ∨ b = 96) := by
  rcases nameSQL_cases n hn with ⟨h1, hw, _⟩ | h1
  · rw [h1]
    cases n with
    | nil => exact absurd rfl hn
    | cons c t => exact ⟨c, t, rfl, Or.inl (hw.start c rfl)⟩
  · rw [h1]; exact ⟨96, _, rfl, Or.inr rfl⟩

/-- bytes a token of a printed type can start with -/
def GoodFirst (d : UInt8) : Prop :=
  Char.isIdentStart d = true ∨ d = 96 ∨ d = 60 ∨ d = 62 ∨ d = 44 ∨ d = 46

theorem goodFirst_facts : ∀ d : UInt8, GoodFirst d →
    MF.Props.C16.tokStart d = true ∧ d ≠ 35 ∧ d ≠ 47 ∧ d ≠ 45 := by
  intro d hd
  rcases hd with h | rfl | rfl | rfl | rfl | rfl
  · obtain ⟨_, _, h3, h4, h5, h6, _⟩ := Quote.identStart_facts d h
    exact ⟨by simp [MF.Props.C16.tokStart, h6], h3, h4, h5⟩
  all_goals decide

theorem nts_of_goodFirst {d : UInt8} (t : Bytes) (hd : GoodFirst d) : NoTriviaStart (d :: t) := by
  obtain ⟨h1, h2, h3, h4⟩ := goodFirst_facts d hd
  apply MF.Props.C16.noTriviaStart_cons h1
  · simp [isLineCommentStart, h2, h3, h4]
  · simp [isBlockCommentStart, h3]

/-! ## single steps as runs -/

theorem drop_after {buf : Bytes} {p : Nat} {τ A R : Bytes} (h : buf.drop p = τ ++ (A ++ R)) :
    buf.drop (p + τ.length + A.length) = R := by
  rw [Nat.add_assoc, ← List.drop_drop, h, ← List.length_append, ← List.append_assoc, List.drop_left]

theorem pos_le_of_drop {buf : Bytes} {p : Nat} {τ A R : Bytes} (h : buf.drop p = τ ++ (A ++ R)) (hp : p ≤ buf.length) :
    p + τ.length + A.length ≤ buf.length := by
  have := congrArg List.length h
  simp only [List.length_drop, List.length_append] at this
  omega

/-- one token: the text at the cursor is `τ ++ A ++ R`, `A ++ R` starts with a good byte, and the scanner reads `A` -/
theorem run_token {buf : Bytes} {s : State} {τ A R : Bytes} {sc : Scan}
    (hd : buf.drop s.pos = τ ++ (A ++ R)) (hp : s.pos ≤ buf.length) (hτ : Trivia false τ)
    (hfirst : ∃ d t, A ++ R = d :: t ∧ GoodFirst d)
    (hscan : (if s.dotIdent = true then consumeFieldToken (A ++ R) (s.pos + τ.length) s.tok.kind false
       else consumeToken (A ++ R) (s.pos + τ.length) s.tok.kind false) = .ok sc)
    (hlen : sc.len = A.length) (hk : sc.kind ≠ .eof) :
    ∃ s1, Runs buf s [s1.tok] s1 ∧ s1.pos = s.pos + τ.length + A.length ∧ s1.pos ≤ buf.length ∧
      buf.drop s1.pos = R ∧ s1.tok.kind = sc.kind ∧ s1.tok.asString = sc.asString ∧
      s1.dotIdent = (if s.dotIdent = true then false else sc.dot) := by
  obtain ⟨d, t, hdt, hg⟩ := hfirst
  have hX : NoTriviaStart (A ++ R) := by rw [hdt]; exact nts_of_goodFirst t hg
  obtain ⟨s1, h1, h2, h3, h4, h5⟩ := step_of_scan hd hp hτ hX hscan (by rw [hlen]; simp)
  rw [hlen] at h2
  refine ⟨s1, Runs.one h1 (by rw [h3]; exact hk), h2, ?_, ?_, h3, h4, h5⟩
  · rw [h2]; exact pos_le_of_drop hd hp
  · rw [h2]; exact drop_after hd

/-! ## a dotted path -/

theorem tk_of_ident {t : Token} (h : t.kind = .ident) : tk t.kind = .ident := by rw [h]; rfl

theorem expand_cons_plain' {t : Token} (T : List Token) (h : tk t.kind ≠ .shr ∧ tk t.kind ≠ .ltgt) :
    expand (t :: T) = t :: expand T := expand_plain T h.1 h.2

theorem run_path : ∀ (ns : List Bytes), ns ≠ [] → (∀ n ∈ ns, n ≠ []) →
    ∀ (buf : Bytes) (s : State) (τ Z : Bytes), buf.drop s.pos = τ ++ (pathText ns ++ Z) → s.pos ≤ buf.length →
      Trivia false τ → Delim Z → (∀ d, Z.head? = some d → d ≠ 46) →
      ∃ T s', Runs buf s T s' ∧ s'.pos = s.pos + τ.length + (pathText ns).length ∧ s'.pos ≤ buf.length ∧
        buf.drop s'.pos = Z ∧ s'.dotIdent = false ∧ readsB (descPath ns) (expand T) = true := by
  intro ns
  induction ns with
  | nil => intro h; exact absurd rfl h
  | cons a rest ih =>
    intro _ hne buf s τ Z hd hp hτ hZ hZd
    have ha : a ≠ [] := hne a (by simp)
    obtain ⟨b0, t0, hb0, hg0⟩ := nameSQL_head a ha
    have hgood : GoodFirst b0 := by
      rcases hg0 with h | h
      · exact Or.inl h
      · exact Or.inr (Or.inl h)
    cases rest with
    | nil =>
      simp only [pathText] at hd ⊢
      obtain ⟨s1, r1, r2, r3, r4, r5, r6, r7⟩ := run_token (sc := { kind := .ident, len := (nameSQL a).length, asString := a })
        hd hp hτ ⟨b0, t0 ++ Z, by rw [hb0]; rfl, hgood⟩ (scan_name a ha hZ _ _ s.dotIdent) rfl (by simp)
      refine ⟨[s1.tok], s1, r1, r2, r3, r4, ?_, ?_⟩
      · rw [r7]; split <;> rfl
      · rw [expand_cons_plain' [] (by rw [tk_of_ident r5]; exact ⟨by decide, by decide⟩)]
        simp [descPath, readsB, YT.readsB, tk_of_ident r5, r6]
    | cons b rest' =>
      have hd' : buf.drop s.pos = τ ++ (nameSQL a ++ ([46] ++ (pathText (b :: rest') ++ Z))) := by
        rw [hd]; simp [pathText]
      have hZ1 : Delim ([46] ++ (pathText (b :: rest') ++ Z)) := delim_cons _ (by simp)
      obtain ⟨s1, r1, r2, r3, r4, r5, r6, r7⟩ := run_token (sc := { kind := .ident, len := (nameSQL a).length, asString := a })
        hd' hp hτ ⟨b0, t0 ++ ([46] ++ (pathText (b :: rest') ++ Z)), by rw [hb0]; rfl, hgood⟩
        (scan_name a ha hZ1 _ _ s.dotIdent) rfl (by simp)
      have hdot1 : s1.dotIdent = false := by rw [r7]; split <;> rfl
      -- the `.`
      have hd2 : buf.drop s1.pos = [] ++ ([46] ++ (pathText (b :: rest') ++ Z)) := by rw [r4]; rfl
      have hscan2 : (if s1.dotIdent = true then consumeFieldToken ([46] ++ (pathText (b :: rest') ++ Z)) (s1.pos + 0) s1.tok.kind false
          else consumeToken ([46] ++ (pathText (b :: rest') ++ Z)) (s1.pos + 0) s1.tok.kind false) =
          .ok { kind := K ".", len := 1, dot := true } := by
        rw [hdot1]
        simp only [Bool.false_eq_true, if_false]
        exact consumeToken_dot _ _ (by rw [r5]; rfl)
      obtain ⟨s2, q1, q2, q3, q4, q5, q6, q7⟩ := run_token (τ := []) hd2 r3 Trivia.nil
        ⟨46, pathText (b :: rest') ++ Z, rfl, by simp [GoodFirst]⟩ hscan2 rfl (by decide)
      have hdot2 : s2.dotIdent = true := by rw [q7, hdot1]; rfl
      -- the rest of the path, in dot-identifier mode
      obtain ⟨T, s3, p1, p2, p3, p4, p5, p6⟩ := ih (by simp) (fun n hn => hne n (by simp [hn])) buf s2 [] Z
        (by rw [q4]; rfl) q3 Trivia.nil hZ hZd
      refine ⟨s1.tok :: s2.tok :: T, s3, (r1.append (q1.append p1)), ?_, p3, p4, p5, ?_⟩
      · rw [p2, q2, r2]
        simp only [pathText, List.length_append, List.length_cons, List.length_nil]
        omega
      · have hk2 : tk s2.tok.kind = .dot := by rw [q5]; decide
        rw [expand_cons_plain' _ (by rw [tk_of_ident r5]; exact ⟨by decide, by decide⟩),
          expand_cons_plain' _ (by rw [hk2]; exact ⟨by decide, by decide⟩)]
        simp only [descPath, readsB, YT.readsB, tk_of_ident r5, r6, hk2, p6]
        simp

/-! ## well-formed piece lists -/

def Piece.wordlike : Piece → Bool
  | .arrayKw | .structKw | .simple _ | .path _ => true
  | _ => false

def okP : Piece → Prop
  | .simple n => n ∈ simpleTypes
  | .path ns => ns ≠ [] ∧ ∀ n ∈ ns, n ≠ []
  | _ => True

/-- what may follow a piece -/
def okNext : Piece → Option Piece → Prop
  | .lt, nx => nx ≠ some .lt
  | .gt, _ => True
  | .comma, _ => True
  | .sp, nx => ∃ q, nx = some q ∧ q.wordlike = true
  | _, nx => nx = none ∨ nx = some .lt ∨ nx = some .gt ∨ nx = some .comma ∨ nx = some .sp

/-- the first piece of `rest`, or what follows the list -/
def firstOr (rest : List Piece) (nxt : Option Piece) : Option Piece :=
  match rest with
  | [] => nxt
  | q :: _ => some q

/-- a piece list that is followed by `nxt` satisfies the adjacency conditions -/
def WFf (nxt : Option Piece) : List Piece → Prop
  | [] => True
  | p :: rest => okP p ∧ okNext p (firstOr rest nxt) ∧ WFf nxt rest

theorem WFf_append {nxt : Option Piece} {a b : List Piece} (ha : WFf (firstOr b nxt) a) (hb : WFf nxt b) :
    WFf nxt (a ++ b) := by
  induction a with
  | nil => exact hb
  | cons p a ih =>
    obtain ⟨h1, h2, h3⟩ := ha
    refine ⟨h1, ?_, ih h3⟩
    cases a with
    | nil => exact h2
    | cons q a => exact h2

/-! ## first bytes -/

def isWordB (w : Bytes) : Bool :=
  !w.isEmpty && (w.head?.map Char.isIdentStart).getD false && w.all Char.isIdentPart

theorem isWord_of_B {w : Bytes} (h : isWordB w = true) : IsWord w := by
  simp only [isWordB, Bool.and_eq_true, Bool.not_eq_true', List.isEmpty_eq_false_iff] at h
  obtain ⟨⟨h1, h2⟩, h3⟩ := h
  refine ⟨h1, ?_, h3⟩
  intro c hc
  rw [hc] at h2
  simpa using h2

theorem simpleTypes_facts : simpleTypes.all (fun n => isWordB n && !reserved.contains (Char.toUpper n) &&
    (simpleTypes.find? (fun m => Char.equalFold n m) == some n)) = true := by decide

theorem simple_facts {n : Bytes} (h : n ∈ simpleTypes) :
    IsWord n ∧ reserved.contains (Char.toUpper n) = false ∧ simpleTypes.find? (fun m => Char.equalFold n m) = some n := by
  have := (List.all_eq_true.1 simpleTypes_facts) n h
  simp only [Bool.and_eq_true, Bool.not_eq_true', beq_iff_eq] at this
  exact ⟨isWord_of_B this.1.1, this.1.2, this.2⟩

/-- the first byte of a piece -/
def FirstB : Piece → UInt8 → Prop
  | .lt, b => b = 60
  | .gt, b => b = 62
  | .comma, b => b = 44
  | .sp, b => b = 32
  | _, b => Char.isIdentStart b = true ∨ b = 96

theorem isWord_head {w : Bytes} (h : IsWord w) : ∃ b t, w = b :: t ∧ Char.isIdentStart b = true := by
  cases w with
  | nil => exact absurd rfl h.ne
  | cons c t => exact ⟨c, t, rfl, h.start c rfl⟩

theorem text_head (q : Piece) (hq : okP q) : ∃ b t, q.text = b :: t ∧ FirstB q b := by
  cases q with
  | arrayKw => exact ⟨65, _, rfl, Or.inl (by decide)⟩
  | structKw => exact ⟨83, _, rfl, Or.inl (by decide)⟩
  | simple n =>
    obtain ⟨b, t, e, hb⟩ := isWord_head (simple_facts hq).1
    exact ⟨b, t, e, Or.inl hb⟩
  | path ns =>
    obtain ⟨h1, h2⟩ := hq
    cases ns with
    | nil => exact absurd rfl h1
    | cons a rest =>
      obtain ⟨b, t, e, hb⟩ := nameSQL_head a (h2 a (by simp))
      cases rest with
      | nil => exact ⟨b, t, by simp only [Piece.text, pathText]; exact e, hb⟩
      | cons c r => exact ⟨b, t ++ ([46] ++ pathText (c :: r)), by simp only [Piece.text, pathText, e]; simp, hb⟩
  | lt => exact ⟨60, [], rfl, rfl⟩
  | gt => exact ⟨62, [], rfl, rfl⟩
  | comma => exact ⟨44, [], rfl, rfl⟩
  | sp => exact ⟨32, [], rfl, rfl⟩

theorem identStart_ne : ∀ b : UInt8, Char.isIdentStart b = true →
    b ≠ 60 ∧ b ≠ 61 ∧ b ≠ 62 ∧ b ≠ 46 ∧ b ≠ 44 ∧ b ≠ 32 ∧ b ≠ 96 := by
  apply UInt8.forall_of_fin; decide +kernel

/-- the head of the text of a non-empty well-formed list is the first byte of its first piece -/
theorem textOf_head {nxt : Option Piece} {q : Piece} {rest : List Piece} (h : WFf nxt (q :: rest)) :
    ∃ b t, textOf (q :: rest) = b :: t ∧ FirstB q b := by
  obtain ⟨b, t, e, hb⟩ := text_head q h.1
  exact ⟨b, t ++ textOf rest, by simp only [textOf, e]; rfl, hb⟩

/-- after a word-like piece comes a delimiter that is not `.` -/
theorem delim_after_word {p : Piece} {rest : List Piece} (hp : p.wordlike = true)
    (h : WFf none (p :: rest)) : Delim (textOf rest) ∧ ∀ d, (textOf rest).head? = some d → d ≠ 46 := by
  obtain ⟨_, h2, h3⟩ := h
  cases rest with
  | nil => exact ⟨delim_nil, by intro d hd; simp [textOf] at hd⟩
  | cons q rest =>
    obtain ⟨b, t, e, hb⟩ := textOf_head h3
    have hq : q = .lt ∨ q = .gt ∨ q = .comma ∨ q = .sp := by
      cases p <;> simp only [Piece.wordlike, Bool.false_eq_true] at hp <;>
        (simp only [okNext, firstOr, Option.some.injEq, reduceCtorEq, false_or] at h2; exact h2)
    rw [e]
    rcases hq with rfl | rfl | rfl | rfl <;> simp only [FirstB] at hb <;> subst hb
    all_goals
      refine ⟨delim_cons _ (by simp), ?_⟩
      intro d hd
      simp only [List.head?_cons, Option.some.injEq] at hd
      rw [← hd]; decide

/-! ## a word-like piece -/

theorem simpleName?_of {t : Token} {n : Bytes} (hk : t.kind = .ident) (ha : t.asString = n) (hn : n ∈ simpleTypes) :
    simpleName? t = some n := by
  unfold simpleName?
  have : (fun m => t.isIdent m) = (fun m => Char.equalFold n m) := by
    funext m; simp [Token.isIdent, hk, ha]
  rw [this]
  exact (simple_facts hn).2.2

theorem run_word {q : Piece} (hw : q.wordlike = true) (hq : okP q) {buf : Bytes} {s : State} {τ R : Bytes}
    (hd : buf.drop s.pos = τ ++ (q.text ++ R)) (hp : s.pos ≤ buf.length) (hτ : Trivia false τ)
    (hdot : s.dotIdent = false) (hR : Delim R) (hR46 : ∀ d, R.head? = some d → d ≠ 46) :
    ∃ T s', Runs buf s T s' ∧ s'.pos ≤ buf.length ∧ buf.drop s'.pos = R ∧ s'.dotIdent = false ∧
      readsB q.desc (expand T) = true := by
  obtain ⟨b0, t0, hb0, hf0⟩ := text_head q hq
  cases q with
  | path ns =>
    obtain ⟨T, s', r1, _, r3, r4, r5, r6⟩ := run_path ns hq.1 hq.2 buf s τ R hd hp hτ hR hR46
    exact ⟨T, s', r1, r3, r4, r5, r6⟩
  | arrayKw =>
    have hword : IsWord (B "ARRAY") := isWord_of_B (by decide)
    have hscan : (if s.dotIdent = true then consumeFieldToken (B "ARRAY" ++ R) (s.pos + τ.length) s.tok.kind false
        else consumeToken (B "ARRAY" ++ R) (s.pos + τ.length) s.tok.kind false) =
        .ok { kind := K "ARRAY", len := (B "ARRAY").length } := by
      rw [hdot]
      simp only [Bool.false_eq_true, if_false]
      rw [consumeToken_word hword hR]
      rfl
    obtain ⟨s1, r1, _, r3, r4, r5, _, r7⟩ := run_token hd hp hτ
      ⟨65, _, rfl, Or.inl (by decide)⟩ hscan rfl (by decide)
    refine ⟨[s1.tok], s1, r1, r3, r4, by rw [r7, hdot]; rfl, ?_⟩
    have hk : tk s1.tok.kind = .array := by rw [r5]; decide
    rw [expand_cons_plain' [] (by rw [hk]; exact ⟨by decide, by decide⟩)]
    simp [Piece.desc, readsB, YT.readsB, hk]
  | structKw =>
    have hword : IsWord (B "STRUCT") := isWord_of_B (by decide)
    have hscan : (if s.dotIdent = true then consumeFieldToken (B "STRUCT" ++ R) (s.pos + τ.length) s.tok.kind false
        else consumeToken (B "STRUCT" ++ R) (s.pos + τ.length) s.tok.kind false) =
        .ok { kind := K "STRUCT", len := (B "STRUCT").length } := by
      rw [hdot]
      simp only [Bool.false_eq_true, if_false]
      rw [consumeToken_word hword hR]
      rfl
    obtain ⟨s1, r1, _, r3, r4, r5, _, r7⟩ := run_token hd hp hτ
      ⟨83, _, rfl, Or.inl (by decide)⟩ hscan rfl (by decide)
    refine ⟨[s1.tok], s1, r1, r3, r4, by rw [r7, hdot]; rfl, ?_⟩
    have hk : tk s1.tok.kind = .struct_ := by rw [r5]; decide
    rw [expand_cons_plain' [] (by rw [hk]; exact ⟨by decide, by decide⟩)]
    simp [Piece.desc, readsB, YT.readsB, hk]
  | simple n =>
    obtain ⟨hword, hres, _⟩ := simple_facts hq
    have hscan : (if s.dotIdent = true then consumeFieldToken (n ++ R) (s.pos + τ.length) s.tok.kind false
        else consumeToken (n ++ R) (s.pos + τ.length) s.tok.kind false) =
        .ok { kind := .ident, len := n.length, asString := n } := by
      rw [hdot]
      simp only [Bool.false_eq_true, if_false]
      rw [consumeToken_word hword hR, hres]
      rfl
    have hgood : GoodFirst b0 := by
      rcases hf0 with h | h
      · exact Or.inl h
      · exact Or.inr (Or.inl h)
    obtain ⟨s1, r1, _, r3, r4, r5, r6, r7⟩ := run_token hd hp hτ
      ⟨b0, t0 ++ R, by simp only [Piece.text] at hb0; rw [hb0]; rfl, hgood⟩ hscan rfl (by simp)
    refine ⟨[s1.tok], s1, r1, r3, r4, by rw [r7, hdot]; rfl, ?_⟩
    have hk : tk s1.tok.kind = .ident := tk_of_ident r5
    rw [expand_cons_plain' [] (by rw [hk]; exact ⟨by decide, by decide⟩)]
    simp [Piece.desc, readsB, YT.readsB, hk, simpleName?_of r5 r6 hq]
  | lt => cases hw
  | gt => cases hw
  | comma => cases hw
  | sp => cases hw

/-! ## lexing a piece list -/

theorem readsB_append {a b : List YT} {x y : List Token} (h1 : readsB a x = true) (h2 : readsB b y = true) :
    readsB (a ++ b) (x ++ y) = true := by
  induction a generalizing x with
  | nil =>
    cases x with
    | nil => exact h2
    | cons t x => simp [readsB] at h1
  | cons d a ih =>
    cases x with
    | nil => simp [readsB] at h1
    | cons t x =>
      simp only [readsB, Bool.and_eq_true] at h1
      simp only [List.cons_append, readsB, Bool.and_eq_true]
      exact ⟨h1.1, ih h1.2⟩

/-- first bytes that are neither `<`, `=`, `>` -/
theorem firstB_not_angle {q : Piece} {b : UInt8} (hb : FirstB q b) (h1 : q ≠ .lt) (h2 : q ≠ .gt) :
    b ≠ 60 ∧ b ≠ 61 ∧ b ≠ 62 := by
  cases q with
  | lt => exact absurd rfl h1
  | gt => exact absurd rfl h2
  | comma => simp only [FirstB] at hb; subst hb; decide
  | sp => simp only [FirstB] at hb; subst hb; decide
  | arrayKw | structKw | simple _ | path _ =>
    simp only [FirstB] at hb
    rcases hb with h | h
    · have := identStart_ne b h; exact ⟨this.1, this.2.1, this.2.2.1⟩
    · subst h; decide

theorem firstB_not_gt {q : Piece} {b : UInt8} (hb : FirstB q b) (h2 : q ≠ .gt) : b ≠ 62 ∧ b ≠ 61 := by
  cases q with
  | gt => exact absurd rfl h2
  | lt => simp only [FirstB] at hb; subst hb; decide
  | comma => simp only [FirstB] at hb; subst hb; decide
  | sp => simp only [FirstB] at hb; subst hb; decide
  | arrayKw | structKw | simple _ | path _ =>
    simp only [FirstB] at hb
    rcases hb with h | h
    · have := identStart_ne b h; exact ⟨this.2.2.1, this.2.1⟩
    · subst h; decide

/-- the continuation: after a run that consumed the first pieces, the induction hypothesis finishes the text -/
theorem finish {buf : Bytes} {s s1 : State} {T1 T2 : List Token} {e : Token} {d1 d2 : List YT}
    (h1 : Runs buf s T1 s1) (h2 : Steps buf s1 (T2 ++ [e])) (r1 : readsB d1 (expand T1) = true)
    (r2 : readsB d2 (expand T2) = true) :
    Steps buf s ((T1 ++ T2) ++ [e]) ∧ readsB (d1 ++ d2) (expand (T1 ++ T2)) = true := by
  refine ⟨by rw [List.append_assoc]; exact h1.steps h2, ?_⟩
  rw [expand_append]
  exact readsB_append r1 r2

theorem lex_pieces : ∀ (n : Nat) (ps : List Piece), ps.length ≤ n → WFf none ps → ∀ (buf : Bytes) (s : State),
    buf.drop s.pos = textOf ps → s.pos ≤ buf.length → s.dotIdent = false →
    ∃ T e, Steps buf s (T ++ [e]) ∧ e.kind = .eof ∧ readsB (descOf ps) (expand T) = true := by
  intro n
  induction n with
  | zero =>
    intro ps hlen _ buf s hd hp _
    have : ps = [] := List.eq_nil_of_length_eq_zero (by omega)
    subst this
    have hpos : s.pos = buf.length := by
      have := congrArg List.length hd
      simp only [textOf, List.length_drop, List.length_nil] at this
      omega
    obtain ⟨e, he1, he2⟩ := steps_win_eof hpos
    exact ⟨[], e, he1, he2, rfl⟩
  | succ n ih =>
    intro ps hlen hwf buf s hd hp hdot
    cases ps with
    | nil =>
      have hpos : s.pos = buf.length := by
        have := congrArg List.length hd
        simp only [textOf, List.length_drop, List.length_nil] at this
        omega
      obtain ⟨e, he1, he2⟩ := steps_win_eof hpos
      exact ⟨[], e, he1, he2, rfl⟩
    | cons p rest =>
      have hlen' : rest.length ≤ n := by simp only [List.length_cons] at hlen; omega
      obtain ⟨hokp, hnext, hwfr⟩ := hwf
      by_cases hw : p.wordlike = true
      · -- a keyword, a simple type name or a path
        obtain ⟨hR, hR46⟩ := delim_after_word hw ⟨hokp, hnext, hwfr⟩
        obtain ⟨T1, s1, r1, r2, r3, r4, r5⟩ := run_word hw hokp (τ := []) (R := textOf rest) (by rw [hd]; rfl) hp
          Trivia.nil hdot hR hR46
        obtain ⟨T2, e, q1, q2, q3⟩ := ih rest hlen' hwfr buf s1 r3 r2 r4
        obtain ⟨f1, f2⟩ := finish r1 q1 r5 q3
        exact ⟨T1 ++ T2, e, f1, q2, f2⟩
      · cases p with
        | arrayKw => exact absurd rfl hw
        | structKw => exact absurd rfl hw
        | simple _ => exact absurd rfl hw
        | path _ => exact absurd rfl hw
        | sp =>
          obtain ⟨q, hq1, hq2⟩ := hnext
          cases rest with
          | nil => simp [firstOr] at hq1
          | cons q' rest2 =>
            simp only [firstOr, Option.some.injEq] at hq1
            subst hq1
            have hlen2 : rest2.length ≤ n := by simp only [List.length_cons] at hlen'; omega
            obtain ⟨hR, hR46⟩ := delim_after_word hq2 hwfr
            obtain ⟨T1, s1, r1, r2, r3, r4, r5⟩ := run_word hq2 hwfr.1 (τ := [32]) (R := textOf rest2)
              (by rw [hd]; rfl) hp trivia_blank hdot hR hR46
            obtain ⟨T2, e, q1, q2, q3⟩ := ih rest2 hlen2 hwfr.2.2 buf s1 r3 r2 r4
            obtain ⟨f1, f2⟩ := finish r1 q1 r5 q3
            exact ⟨T1 ++ T2, e, f1, q2, by simpa [descOf, Piece.desc] using f2⟩
        | comma =>
          have hscan : (if s.dotIdent = true then consumeFieldToken ([44] ++ textOf rest) (s.pos + 0) s.tok.kind false
              else consumeToken ([44] ++ textOf rest) (s.pos + 0) s.tok.kind false) = .ok { kind := K ",", len := 1 } := by
            rw [hdot]; simp only [Bool.false_eq_true, if_false]; exact consumeToken_comma _ _ _
          obtain ⟨s1, r1, _, r3, r4, r5, _, r7⟩ := run_token (τ := []) (A := [44]) (R := textOf rest) (by rw [hd]; rfl) hp
            Trivia.nil ⟨44, textOf rest, rfl, by simp [GoodFirst]⟩ hscan rfl (by decide)
          obtain ⟨T2, e, q1, q2, q3⟩ := ih rest hlen' hwfr buf s1 r4 r3 (by rw [r7, hdot]; rfl)
          have hk : tk s1.tok.kind = .comma := by rw [r5]; decide
          have hr1 : readsB [YT.sym .comma] (expand [s1.tok]) = true := by
            rw [expand_cons_plain' [] (by rw [hk]; exact ⟨by decide, by decide⟩)]
            simp [readsB, YT.readsB, hk]
          obtain ⟨f1, f2⟩ := finish r1 q1 hr1 q3
          exact ⟨[s1.tok] ++ T2, e, f1, q2, f2⟩
        | lt =>
          by_cases hg : ∃ rest2, rest = .gt :: rest2
          · -- `<>`
            obtain ⟨rest2, rfl⟩ := hg
            have hlen2 : rest2.length ≤ n := by simp only [List.length_cons] at hlen'; omega
            have hscan : (if s.dotIdent = true then consumeFieldToken ([60, 62] ++ textOf rest2) (s.pos + 0) s.tok.kind false
                else consumeToken ([60, 62] ++ textOf rest2) (s.pos + 0) s.tok.kind false) = .ok { kind := K "<>", len := 2 } := by
              rw [hdot]; simp only [Bool.false_eq_true, if_false]; exact consumeToken_ltgt _ _ _
            obtain ⟨s1, r1, _, r3, r4, r5, _, r7⟩ := run_token (τ := []) (A := [60, 62]) (R := textOf rest2)
              (by rw [hd]; rfl) hp Trivia.nil ⟨60, 62 :: textOf rest2, rfl, by simp [GoodFirst]⟩ hscan rfl (by decide)
            obtain ⟨T2, e, q1, q2, q3⟩ := ih rest2 hlen2 hwfr.2.2 buf s1 r4 r3 (by rw [r7, hdot]; rfl)
            have hk : tk s1.tok.kind = .ltgt := by rw [r5]; decide
            have hr1 : readsB [YT.sym .lt, YT.at .gt 0] (expand [s1.tok]) = true := by
              rw [expand_ltgt [] hk]
              simp [readsB, YT.readsB]
            obtain ⟨f1, f2⟩ := finish r1 q1 hr1 q3
            exact ⟨[s1.tok] ++ T2, e, f1, q2, f2⟩
          · -- `<`
            have hZ : ∀ d, (textOf rest).head? = some d → d ≠ 60 ∧ d ≠ 61 ∧ d ≠ 62 := by
              intro d hdd
              cases rest with
              | nil => simp [textOf] at hdd
              | cons q rest2 =>
                obtain ⟨b, t, e, hb⟩ := textOf_head hwfr
                rw [e] at hdd
                simp only [List.head?_cons, Option.some.injEq] at hdd
                subst hdd
                refine firstB_not_angle hb ?_ ?_
                · intro hq; subst hq; exact hnext rfl
                · intro hq; subst hq; exact hg ⟨rest2, rfl⟩
            have hscan : (if s.dotIdent = true then consumeFieldToken ([60] ++ textOf rest) (s.pos + 0) s.tok.kind false
                else consumeToken ([60] ++ textOf rest) (s.pos + 0) s.tok.kind false) = .ok { kind := K "<", len := 1 } := by
              rw [hdot]; simp only [Bool.false_eq_true, if_false]; exact consumeToken_lt hZ _ _
            obtain ⟨s1, r1, _, r3, r4, r5, _, r7⟩ := run_token (τ := []) (A := [60]) (R := textOf rest) (by rw [hd]; rfl) hp
              Trivia.nil ⟨60, textOf rest, rfl, by simp [GoodFirst]⟩ hscan rfl (by decide)
            obtain ⟨T2, e, q1, q2, q3⟩ := ih rest hlen' hwfr buf s1 r4 r3 (by rw [r7, hdot]; rfl)
            have hk : tk s1.tok.kind = .lt := by rw [r5]; decide
            have hr1 : readsB [YT.sym .lt] (expand [s1.tok]) = true := by
              rw [expand_cons_plain' [] (by rw [hk]; exact ⟨by decide, by decide⟩)]
              simp [readsB, YT.readsB, hk]
            obtain ⟨f1, f2⟩ := finish r1 q1 hr1 q3
            exact ⟨[s1.tok] ++ T2, e, f1, q2, f2⟩
        | gt =>
          by_cases hg : ∃ rest2, rest = .gt :: rest2
          · -- `>>`
            obtain ⟨rest2, rfl⟩ := hg
            have hlen2 : rest2.length ≤ n := by simp only [List.length_cons] at hlen'; omega
            have hscan : (if s.dotIdent = true then consumeFieldToken ([62, 62] ++ textOf rest2) (s.pos + 0) s.tok.kind false
                else consumeToken ([62, 62] ++ textOf rest2) (s.pos + 0) s.tok.kind false) = .ok { kind := K ">>", len := 2 } := by
              rw [hdot]; simp only [Bool.false_eq_true, if_false]; exact consumeToken_shr _ _ _
            obtain ⟨s1, r1, _, r3, r4, r5, _, r7⟩ := run_token (τ := []) (A := [62, 62]) (R := textOf rest2)
              (by rw [hd]; rfl) hp Trivia.nil ⟨62, 62 :: textOf rest2, rfl, by simp [GoodFirst]⟩ hscan rfl (by decide)
            obtain ⟨T2, e, q1, q2, q3⟩ := ih rest2 hlen2 hwfr.2.2 buf s1 r4 r3 (by rw [r7, hdot]; rfl)
            have hk : tk s1.tok.kind = .shr := by rw [r5]; decide
            have hr1 : readsB [YT.at .gt 0, YT.at .gt 0] (expand [s1.tok]) = true := by
              rw [expand_shr [] hk]
              simp [readsB, YT.readsB]
            obtain ⟨f1, f2⟩ := finish r1 q1 hr1 q3
            exact ⟨[s1.tok] ++ T2, e, f1, q2, f2⟩
          · -- `>`
            have hZ : ∀ d, (textOf rest).head? = some d → d ≠ 62 ∧ d ≠ 61 := by
              intro d hdd
              cases rest with
              | nil => simp [textOf] at hdd
              | cons q rest2 =>
                obtain ⟨b, t, e, hb⟩ := textOf_head hwfr
                rw [e] at hdd
                simp only [List.head?_cons, Option.some.injEq] at hdd
                subst hdd
                refine firstB_not_gt hb ?_
                intro hq; subst hq; exact hg ⟨rest2, rfl⟩
            have hscan : (if s.dotIdent = true then consumeFieldToken ([62] ++ textOf rest) (s.pos + 0) s.tok.kind false
                else consumeToken ([62] ++ textOf rest) (s.pos + 0) s.tok.kind false) = .ok { kind := K ">", len := 1 } := by
              rw [hdot]; simp only [Bool.false_eq_true, if_false]; exact consumeToken_gt hZ _ _
            obtain ⟨s1, r1, _, r3, r4, r5, _, r7⟩ := run_token (τ := []) (A := [62]) (R := textOf rest) (by rw [hd]; rfl) hp
              Trivia.nil ⟨62, textOf rest, rfl, by simp [GoodFirst]⟩ hscan rfl (by decide)
            obtain ⟨T2, e, q1, q2, q3⟩ := ih rest hlen' hwfr buf s1 r4 r3 (by rw [r7, hdot]; rfl)
            have hk : tk s1.tok.kind = .gt := by rw [r5]; decide
            have hr1 : readsB [YT.at .gt 0] (expand [s1.tok]) = true := by
              rw [expand_cons_plain' [] (by rw [hk]; exact ⟨by decide, by decide⟩)]
              simp [readsB, YT.readsB, hk]
            obtain ⟨f1, f2⟩ := finish r1 q1 hr1 q3
            exact ⟨[s1.tok] ++ T2, e, f1, q2, f2⟩

/-! ## the pieces of a tree are well-formed -/

/-- what may follow a type in a printed type: nothing, `>` or `,` -/
def FollowT (nxt : Option Piece) : Prop := nxt = none ∨ nxt = some .gt ∨ nxt = some .comma

theorem okNext_word {p : Piece} (hw : p.wordlike = true) {nx : Option Piece}
    (h : nx = none ∨ nx = some .lt ∨ nx = some .gt ∨ nx = some .comma ∨ nx = some .sp) : okNext p nx := by
  cases p <;> first | exact h | cases hw

theorem FollowT.word {nxt : Option Piece} (h : FollowT nxt) :
    nxt = none ∨ nxt = some .lt ∨ nxt = some .gt ∨ nxt = some .comma ∨ nxt = some .sp := by
  rcases h with h | h | h
  · exact Or.inl h
  · exact Or.inr (Or.inr (Or.inl h))
  · exact Or.inr (Or.inr (Or.inr (Or.inl h)))

/-- a list that starts with a word-like piece -/
def StartsWord (ps : List Piece) : Prop := ∃ q rest, ps = q :: rest ∧ q.wordlike = true

theorem firstOr_startsWord {ps : List Piece} (h : StartsWord ps) (nxt : Option Piece) :
    ∃ q, firstOr ps nxt = some q ∧ q.wordlike = true := by
  obtain ⟨q, rest, rfl, hq⟩ := h
  exact ⟨q, rfl, hq⟩

theorem firstOr_append_left {a : List Piece} (h : StartsWord a) (b : List Piece) (nxt : Option Piece) :
    firstOr (a ++ b) nxt = firstOr a nxt := by
  obtain ⟨q, rest, rfl, _⟩ := h
  rfl

theorem StartsWord.append {a : List Piece} (h : StartsWord a) (b : List Piece) : StartsWord (a ++ b) := by
  obtain ⟨q, rest, rfl, hq⟩ := h
  exact ⟨q, rest ++ b, rfl, hq⟩

theorem name_ne {i : Ident} (h : (!i.name.isEmpty) = true) : i.name ≠ [] := by
  intro e; rw [e] at h; simp at h

theorem piecesName_wf (i : Option Ident) (hi : (match i with | some i => !i.name.isEmpty | none => true) = true)
    {nxt : Option Piece} (hn : ∃ q, nxt = some q ∧ q.wordlike = true) : WFf nxt (piecesName i) := by
  cases i with
  | none => trivial
  | some i =>
    refine ⟨⟨by simp, ?_⟩, okNext_word (p := .path [i.name]) rfl (by simp [firstOr]), trivial, ?_, trivial⟩
    · intro n hn'
      simp only [List.mem_singleton] at hn'
      subst hn'
      exact name_ne hi
    · exact hn

theorem startsWord_name_type {i : Option Ident} {ps : List Piece} (h : StartsWord ps) : StartsWord (piecesName i ++ ps) := by
  cases i with
  | none => exact h
  | some i => exact ⟨.path [i.name], .sp :: ps, rfl, rfl⟩

mutual
theorem piecesT_wf : ∀ t : Ty, namesOK t = true → StartsWord (piecesT t) ∧ ∀ nxt, FollowT nxt → WFf nxt (piecesT t)
  | .simple _ n, h => by
    refine ⟨⟨_, _, rfl, rfl⟩, fun nxt hn => ⟨?_, okNext_word (p := .simple n) rfl hn.word, trivial⟩⟩
    show n ∈ simpleTypes
    simpa [namesOK] using h
  | .named path, h => by
    simp only [namesOK, Bool.and_eq_true, Bool.not_eq_true', List.isEmpty_eq_false_iff, List.all_eq_true] at h
    refine ⟨⟨_, _, rfl, rfl⟩, fun nxt hn => ⟨⟨?_, ?_⟩, okNext_word (p := .path (path.map (·.name))) rfl hn.word, trivial⟩⟩
    · intro e
      exact h.1 (List.map_eq_nil_iff.1 e)
    · intro n hn'
      obtain ⟨i, hi, rfl⟩ := List.mem_map.1 hn'
      exact name_ne (by simpa using h.2 i hi)
  | .array _ _ item, h => by
    obtain ⟨hs, hwf⟩ := piecesT_wf item (by simpa [namesOK] using h)
    refine ⟨⟨_, _, rfl, rfl⟩, fun nxt hn => ?_⟩
    simp only [piecesT]
    refine ⟨trivial, okNext_word (p := .arrayKw) rfl (Or.inr (Or.inl rfl)), trivial, ?_, ?_⟩
    · obtain ⟨q, hq1, hq2⟩ := firstOr_startsWord (hs.append [.gt]) nxt
      show firstOr (piecesT item ++ [Piece.gt]) nxt ≠ some .lt
      rw [hq1]
      intro e
      cases e
      cases hq2
    · exact WFf_append (hwf _ (Or.inr (Or.inl rfl))) ⟨trivial, trivial, trivial⟩
  | .struct _ _ fs, h => by
    obtain ⟨hs, hwf⟩ := piecesFs_wf fs (by simpa [namesOK] using h)
    refine ⟨⟨_, _, rfl, rfl⟩, fun nxt hn => ?_⟩
    simp only [piecesT]
    refine ⟨trivial, okNext_word (p := .structKw) rfl (Or.inr (Or.inl rfl)), trivial, ?_, ?_⟩
    · show firstOr (piecesFs fs ++ [Piece.gt]) nxt ≠ some .lt
      rcases hs with hnil | hsw
      · rw [hnil]
        intro e
        cases e
      · obtain ⟨q, hq1, hq2⟩ := firstOr_startsWord (hsw.append [.gt]) nxt
        rw [hq1]
        intro e
        cases e
        cases hq2
    · exact WFf_append (hwf.1) ⟨trivial, trivial, trivial⟩
theorem piecesFs_wf : ∀ fs : Fields, namesOKFs fs = true →
    (piecesFs fs = [] ∨ StartsWord (piecesFs fs)) ∧ WFf (some .gt) (piecesFs fs) ∧ WFf (some .gt) (piecesMore fs)
  | .nil, _ => ⟨Or.inl rfl, trivial, trivial⟩
  | .cons i t rest, h => by
    simp only [namesOKFs, Bool.and_eq_true] at h
    obtain ⟨⟨hi, ht⟩, hr⟩ := h
    obtain ⟨hs, hwf⟩ := piecesT_wf t ht
    obtain ⟨_, _, hmore⟩ := piecesFs_wf rest hr
    -- what follows the type of this field
    have hfollow : FollowT (firstOr (piecesMore rest) (some .gt)) := by
      cases rest with
      | nil => exact Or.inr (Or.inl rfl)
      | cons _ _ _ => exact Or.inr (Or.inr rfl)
    have hbody : WFf (some .gt) (piecesName i ++ (piecesT t ++ piecesMore rest)) := by
      apply WFf_append
      · apply piecesName_wf i hi
        rw [firstOr_append_left hs]
        exact firstOr_startsWord hs _
      · exact WFf_append (hwf _ hfollow) hmore
    have hsw : StartsWord (piecesName i ++ (piecesT t ++ piecesMore rest)) :=
      startsWord_name_type (hs.append _)
    refine ⟨Or.inr (by simpa [piecesFs, List.append_assoc] using hsw), by simpa [piecesFs, List.append_assoc] using hbody, ?_⟩
    simp only [piecesMore, List.cons_append]
    refine ⟨trivial, trivial, trivial, ?_, by simpa [List.append_assoc] using hbody⟩
    show ∃ q, firstOr (piecesName i ++ piecesT t ++ piecesMore rest) (some .gt) = some q ∧ q.wordlike = true
    rw [List.append_assoc]
    exact firstOr_startsWord hsw _
end

/-! ## `rtOK` -/

/-- positions do not matter to `readsB`: a description list and its position-free image read the same tokens -/
def eraseY : YT → YT
  | .simple _ n => .simple 0 n
  | .ident i => .ident (eraseI i)
  | .at k _ => .at k 0
  | .sym k => .sym k

theorem readsB_eraseY (y : YT) (t : Token) : (eraseY y).readsB t = y.readsB t := by
  cases y <;> rfl

theorem readsB_map_erase (ys : List YT) (ts : List Token) : readsB (ys.map eraseY) ts = readsB ys ts := by
  induction ys generalizing ts with
  | nil => cases ts <;> rfl
  | cons y ys ih =>
    cases ts with
    | nil => rfl
    | cons t ts => simp only [List.map_cons, readsB, readsB_eraseY, ih]

theorem yieldPath_erase (p : List Ident) : yieldPath (p.map eraseI) = (yieldPath p).map eraseY := by
  induction p with
  | nil => rfl
  | cons a rest ih =>
    cases rest with
    | nil => rfl
    | cons b r =>
      simp only [List.map_cons, yieldPath] at ih ⊢
      rw [ih]; rfl

mutual
theorem yieldT_erase : ∀ t : Ty, yieldT (eraseT t) = (yieldT t).map eraseY
  | .simple _ _ => rfl
  | .named p => by simp only [eraseT, yieldT, yieldPath_erase]
  | .array _ _ item => by
    simp only [eraseT, yieldT, yieldT_erase item, List.map_cons, List.map_append, List.map_nil]; rfl
  | .struct _ _ fs => by
    simp only [eraseT, yieldT, (yieldFs_erase fs).1, List.map_cons, List.map_append, List.map_nil]; rfl
theorem yieldFs_erase : ∀ fs : Fields,
    yieldFs (eraseFs fs) = (yieldFs fs).map eraseY ∧ yieldMore (eraseFs fs) = (yieldMore fs).map eraseY
  | .nil => ⟨rfl, rfl⟩
  | .cons i t rest => by
    have h1 := yieldT_erase t
    have h2 := (yieldFs_erase rest).2
    cases i <;>
      simp only [eraseFs, yieldFs, yieldMore, yieldName, Option.map, h1, h2, List.map_cons, List.map_append,
        List.map_nil, List.nil_append] <;> simp [eraseY]
end

/-- the lexer side of C01 / C02: the printed text of a tree with printable names lexes, and its expanded tokens read as
the yield of the tree -/
theorem rtOK_of_namesOK {t : Ty} (h : namesOK t = true) : rtOK t = true := by
  obtain ⟨_, hwf⟩ := piecesT_wf t h
  have hbuf : (sqlT t).drop (init : State).pos = textOf (piecesT t) := by rw [textOf_piecesT]; rfl
  obtain ⟨T, e, h1, h2, h3⟩ := lex_pieces _ (piecesT t) (Nat.le_refl _) (hwf none (Or.inl rfl)) (sqlT t) init hbuf
    (Nat.zero_le _) rfl
  unfold rtOK
  rw [steps_lexAll h1]
  simp only [printLexB]
  have heplain : expand [e] = [e] := by
    have hk : tk e.kind = .eof := by rw [h2]; rfl
    exact expand_plain [] (by rw [hk]; decide) (by rw [hk]; decide)
  rw [expand_append, heplain]
  simp only [List.dropLast_concat, List.getLast?_append, List.getLast?_singleton, Option.some_or, Option.map_some, h2]
  rw [descOf_piecesT, yieldT_erase, readsB_map_erase] at h3
  simp [h3, tk]

end MF.TypeP
