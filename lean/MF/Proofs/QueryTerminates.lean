/-
  MF.Proofs.QueryTerminates — TOTAL termination of the model of `ParseQuery` / `ParseStatement` (MF/Model/Query.lean, the
  SELECT core M3 on top of the positioned expression model): on EVERY token list, accepted, rejected or garbage, the
  entry points answer `ok`, `raise` or `outside` — never `outOfFuel`, and never `crash` on lexer output — as soon as the
  fuel is at least

      queryFuel ts = 15 * ts.length + 15        (= exprFuel ts ≤ Query.topFuel ts = 32 * (ts.length + 2))

  and from there on the answer does not depend on the fuel.

  Why the expression bound is enough.  In this model only the four list loops (`resultsLoop`, `pathLoop`, `exprListLoop`,
  `orderListLoop`) spend fuel; every other function of the query layer hands its fuel UNCHANGED to its callees (the
  expression parser `parsePExpr` and the loops).  A loop iteration consumes a `,` (or a `.`) before it calls the
  expression parser on the rest and re-enters on what that call left: with `n` tokens in front of it a loop needs
  `15 * n + 1` units (one for itself, `15 * (n - 1) + 15` for the expression parser behind the comma).  So with
  `15 * |ts| + 15` units every expression slot and every loop of a run on `ts` has enough: they all start on a SUFFIX
  of `ts`.

  One pass proves three things per function (`Fine ts0 r`): `r ≠ outOfFuel`; `r ≠ crash` if the numeric tokens of `ts0`
  are non-empty (`NumOK`, true of lexer output); after `ok` the rest is a suffix of `ts0`.  The expression slot is a
  black box (`pexpr_fine`: `parsePExpr_ne_oof`, `parseExpr_no_crash`, `parseExpr_sound` through the erasure).

  Fuel monotonicity of the query layer (`…_le`, new) from `pmono_all`; together: `parseQueryTop_stable`, `parseStatementTop_stable`.
-/
import MF.Model.Query
import MF.Proofs.ExprPosTerminates
import MF.Proofs.ExprNoCrash
namespace MF.Expr

/-! ## vocabulary shared by the statement layers (Query, DML) -/

/-- a helper without state answered and did not crash -/
def Quiet {β : Type} (p : Res β) : Prop := p ≠ .outOfFuel ∧ p ≠ .crash

theorem Quiet.ok {β : Type} (b : β) : Quiet (Res.ok b) := ⟨fun h => (by cases h), fun h => (by cases h)⟩
theorem Quiet.raise {β : Type} : Quiet (Res.raise : Res β) := ⟨fun h => (by cases h), fun h => (by cases h)⟩
theorem Quiet.outside {β : Type} : Quiet (Res.outside : Res β) := ⟨fun h => (by cases h), fun h => (by cases h)⟩

/-- the call answered (not `outOfFuel`); it did not crash if the numeric tokens of `ts0` are non-empty; after `ok` the
remaining tokens are a suffix of `ts0` -/
def Fine {α : Type} (ts0 : List Token) (r : Res (α × List Token)) : Prop :=
  r ≠ .outOfFuel ∧ (NumOK ts0 → r ≠ .crash) ∧ ∀ a, r = .ok a → a.2 <:+ ts0

theorem Fine.ok {α : Type} {ts0 ts : List Token} (x : α) (h : ts <:+ ts0) : Fine ts0 (Res.ok (x, ts)) :=
  ⟨fun e => (by cases e), fun _ e => (by cases e), fun a e => (by cases e; exact h)⟩
theorem Fine.raise {α : Type} {ts0 : List Token} : Fine ts0 (Res.raise : Res (α × List Token)) :=
  ⟨fun e => (by cases e), fun _ e => (by cases e), fun a e => (by cases e)⟩
theorem Fine.outside {α : Type} {ts0 : List Token} : Fine ts0 (Res.outside : Res (α × List Token)) :=
  ⟨fun e => (by cases e), fun _ e => (by cases e), fun a e => (by cases e)⟩

theorem Fine.bind {α β : Type} {ts0 : List Token} {p : Res (α × List Token)} {k : α × List Token → Res (β × List Token)}
    (hp : Fine ts0 p) (hk : ∀ a, a.2 <:+ ts0 → Fine ts0 (k a)) : Fine ts0 (p.bind k) := by
  obtain ⟨h1, h2, h3⟩ := hp
  cases p with
  | ok a => exact hk a (h3 a rfl)
  | raise => exact Fine.raise
  | outside => exact Fine.outside
  | crash => exact ⟨fun e => (by cases e), fun hn _ => h2 hn rfl, fun a e => (by cases e)⟩
  | outOfFuel => exact absurd rfl h1

theorem Fine.bindQ {α β : Type} {ts0 : List Token} {p : Res β} {k : β → Res (α × List Token)}
    (hp : Quiet p) (hk : ∀ b, Fine ts0 (k b)) : Fine ts0 (p.bind k) := by
  obtain ⟨h1, h2⟩ := hp
  cases p with
  | ok b => exact hk b
  | raise => exact Fine.raise
  | outside => exact Fine.outside
  | crash => exact absurd rfl h2
  | outOfFuel => exact absurd rfl h1

theorem NumOK.suffix {ts ts0 : List Token} (h : NumOK ts0) (hs : ts <:+ ts0) : NumOK ts :=
  fun t ht => h t (hs.subset ht)

theorem Fine.of_suffix {α : Type} {mid ts0 : List Token} {r : Res (α × List Token)} (hs : mid <:+ ts0)
    (h : Fine mid r) : Fine ts0 r :=
  ⟨h.1, fun hn => h.2.1 (hn.suffix hs), fun a e => (h.2.2 a e).trans hs⟩

/-- the fuel-monotonicity step transported through the entry-point tail -/
theorem Le.trans' {α : Type} {a b c : Res α} (h1 : Le a b) (h2 : Le b c) : Le a c := by
  rcases h1 with h | h
  · exact Or.inl h
  · rw [h]; exact h2

/-- suffix goals: `x.tail.tail <:+ ts0` from `x <:+ ts0` -/
macro "sfx0" : tactic => `(tactic| (first | assumption | exact List.suffix_refl _))
macro "sfx1" : tactic => `(tactic| (first | sfx0 | (apply List.IsSuffix.trans (List.tail_suffix _); sfx0)))
macro "sfx2" : tactic => `(tactic| (first | sfx0 | (apply List.IsSuffix.trans (List.tail_suffix _); sfx1)))
macro "sfx" : tactic => `(tactic| (first | sfx0 | (apply List.IsSuffix.trans (List.tail_suffix _); sfx2)))

/-- closed branches -/
macro "fin" : tactic =>
  `(tactic| (with_reducible first
      | (refine Fine.ok _ ?_; sfx) | exact Fine.raise | exact Fine.outside
      | exact Quiet.ok _ | exact Quiet.raise | exact Quiet.outside))

/-- close a goal `Fine ts0 (body)`: structural steps, with the given facts about the callees -/
syntax "fine_auto" "[" term,* "]" : tactic
macro_rules
  | `(tactic| fine_auto [$ts,*]) => do
    let alts ← ts.getElems.mapM fun t => `(tactic| with_reducible exact $t)
    `(tactic| (repeat' first
        | fin
        $[| $alts:tactic]*
        | with_reducible apply Fine.bind
        | with_reducible apply Fine.bindQ
        | intro _
        | split
        | dsimp only))

/-- close a goal `Le (body at f) (body at f + 1)` -/
syntax "le_auto'" "[" term,* "]" : tactic
macro_rules
  | `(tactic| le_auto' [$ts,*]) => do
    let alts ← ts.getElems.mapM fun t => `(tactic| with_reducible exact $t)
    `(tactic| (repeat' first
        | with_reducible exact Le.refl _
        $[| $alts:tactic]*
        | with_reducible apply Le.bind
        | intro _
        | split
        | dsimp only))

/-! ## the expression slot (black box) -/

theorem parsePExpr_crash_iff (f : Nat) (ts : List Token) : parsePExpr f ts = .crash ↔ parseExpr f ts = .crash := by
  rw [parseExpr_eq_erase]
  cases parsePExpr f ts <;> simp [Res.map]

/-- the positioned expression parser on a suffix `ts` of `ts0`, with the expression fuel of `ts0` -/
theorem pexpr_fine {f : Nat} {ts ts0 : List Token} (hs : ts <:+ ts0) (hf : 15 * ts0.length + 15 ≤ f) :
    Fine ts0 (parsePExpr f ts) := by
  have hl := hs.length_le
  refine ⟨parsePExpr_ne_oof (by unfold exprFuel; omega), fun hn e => ?_, fun a e => ?_⟩
  · exact parseExpr_no_crash (hn.suffix hs) ((parsePExpr_crash_iff f ts).1 e)
  · have h1 : parseExpr f ts = .ok (er a) := by rw [parseExpr_eq_erase, e]; rfl
    obtain ⟨⟨pre, he, _⟩, _⟩ := parseExpr_sound (e := (er a).1) (rest := (er a).2) h1
    exact (List.IsSuffix.trans ⟨pre, he.symm⟩ hs)

/-- the same for the parser without positions -/
theorem expr_fine {f : Nat} {ts ts0 : List Token} (hs : ts <:+ ts0) (hf : 15 * ts0.length + 15 ≤ f) :
    Fine ts0 (parseExpr f ts) := by
  have hl := hs.length_le
  refine ⟨parseExpr_ne_oof (by unfold exprFuel; omega), fun hn e => ?_, fun a e => ?_⟩
  · exact parseExpr_no_crash (hn.suffix hs) e
  · obtain ⟨⟨pre, he, _⟩, _⟩ := parseExpr_sound (e := a.1) (rest := a.2) e
    exact (List.IsSuffix.trans ⟨pre, he.symm⟩ hs)

end MF.Expr

namespace MF.Query
open MF MF.Expr

theorem qcur_pos {ts : List Token} {k : QK} (h : qcur ts = k) (hk : k ≠ .eof) : 0 < ts.length := by
  cases ts with
  | nil => exact absurd h.symm hk
  | cons t tl => simp

/-! ## termination, no crash, suffix: one pass over the query layer -/

section
variable {f : Nat} {ts ts0 : List Token}

theorem parseIdent_fine (hs : ts <:+ ts0) : Fine ts0 (parseIdent ts) := by
  unfold parseIdent; fine_auto []

theorem tryParseAsAlias_fine (hs : ts <:+ ts0) : Fine ts0 (tryParseAsAlias ts) := by
  unfold tryParseAsAlias; fine_auto [parseIdent_fine (by sfx)]

theorem starModifiers_quiet (ts : List Token) : Quiet (starModifiers ts) := by
  unfold starModifiers
  split
  · fin
  · split
    · split <;> fin
    · fin

theorem tableTail_quiet (ts : List Token) : Quiet (tableTail ts) := by
  unfold tableTail; split <;> fin

theorem parseSelectItem_fine (hs : ts <:+ ts0) (hf : 15 * ts0.length + 15 ≤ f) : Fine ts0 (parseSelectItem f ts) := by
  unfold parseSelectItem
  fine_auto [pexpr_fine (by sfx) hf, tryParseAsAlias_fine (by sfx), starModifiers_quiet _]

end

theorem resultsLoop_fine : ∀ (f : Nat) (ts : List Token), 15 * ts.length + 1 ≤ f → Fine ts (resultsLoop f ts)
  | 0, _, h => by omega
  | f + 1, ts, h => by
    rw [resultsLoop]
    split
    · rename_i hc
      have h0 := qcur_pos hc (by decide)
      split
      all_goals first
        | fin
        | (refine Fine.of_suffix (List.tail_suffix ts) ?_
           refine Fine.bind (parseSelectItem_fine (List.suffix_refl _) (by lia)) fun i hi => ?_
           have hl := hi.length_le
           exact Fine.bind ((resultsLoop_fine f i.2 (by lia)).of_suffix hi) fun r hr => by fin)
    · fin

theorem pathLoop_fine : ∀ (f : Nat) (ts : List Token), 15 * ts.length + 1 ≤ f → Fine ts (pathLoop f ts)
  | 0, _, h => by omega
  | f + 1, ts, h => by
    rw [pathLoop]
    split
    · rename_i hc
      have h0 := qcur_pos hc (by decide)
      refine Fine.of_suffix (List.tail_suffix ts) ?_
      refine Fine.bind (parseIdent_fine (List.suffix_refl _)) fun i hi => ?_
      have hl := hi.length_le
      exact Fine.bind ((pathLoop_fine f i.2 (by lia)).of_suffix hi) fun r hr => by fin
    · fin

theorem exprListLoop_fine : ∀ (f : Nat) (ts : List Token), 15 * ts.length + 1 ≤ f → Fine ts (exprListLoop f ts)
  | 0, _, h => by omega
  | f + 1, ts, h => by
    rw [exprListLoop]
    split
    · rename_i hc
      have h0 := qcur_pos hc (by decide)
      refine Fine.of_suffix (List.tail_suffix ts) ?_
      refine Fine.bind (pexpr_fine (List.suffix_refl _) (by lia)) fun i hi => ?_
      have hl := hi.length_le
      exact Fine.bind ((exprListLoop_fine f i.2 (by lia)).of_suffix hi) fun r hr => by fin
    · fin

section
variable {f : Nat} {ts ts0 : List Token}

/-- a loop started on a suffix of `ts0` with the fuel of `ts0` -/
theorem loop_fuel (hs : ts <:+ ts0) (hf : 15 * ts0.length + 15 ≤ f) : 15 * ts.length + 1 ≤ f := by
  have := hs.length_le; omega

theorem parseTableExpr_fine (hs : ts <:+ ts0) (hf : 15 * ts0.length + 15 ≤ f) : Fine ts0 (parseTableExpr f ts) := by
  unfold parseTableExpr
  split
  · fin
  · fin
  · refine Fine.bind (parseIdent_fine hs) fun i hi => ?_
    refine Fine.bind ((pathLoop_fine f i.2 (loop_fuel hi hf)).of_suffix hi) fun r hr => ?_
    fine_auto [tryParseAsAlias_fine (by sfx), tableTail_quiet _]
  · fin

theorem tryParseFrom_fine (hs : ts <:+ ts0) (hf : 15 * ts0.length + 15 ≤ f) : Fine ts0 (tryParseFrom f ts) := by
  unfold tryParseFrom; fine_auto [parseTableExpr_fine (by sfx) hf]

theorem tryParseWhere_fine (hs : ts <:+ ts0) (hf : 15 * ts0.length + 15 ≤ f) : Fine ts0 (tryParseWhere f ts) := by
  unfold tryParseWhere; fine_auto [pexpr_fine (by sfx) hf]

theorem tryParseGroupBy_fine (hs : ts <:+ ts0) (hf : 15 * ts0.length + 15 ≤ f) : Fine ts0 (tryParseGroupBy f ts) := by
  unfold tryParseGroupBy
  split
  · split
    · refine Fine.bind (pexpr_fine (by sfx) hf) fun e he => ?_
      exact Fine.bind ((exprListLoop_fine f e.2 (loop_fuel he hf)).of_suffix he) fun r hr => by fin
    · fin
  · fin

theorem tryParseHaving_fine (hs : ts <:+ ts0) (hf : 15 * ts0.length + 15 ≤ f) : Fine ts0 (tryParseHaving f ts) := by
  unfold tryParseHaving; fine_auto [pexpr_fine (by sfx) hf]

theorem tryParseAllOrDistinct_sfx (hs : ts <:+ ts0) : (tryParseAllOrDistinct ts).2 <:+ ts0 := by
  unfold tryParseAllOrDistinct; split <;> (simp only; sfx)

theorem parseSelect_fine (hs : ts <:+ ts0) (hf : 15 * ts0.length + 15 ≤ f) : Fine ts0 (parseSelect f ts) := by
  unfold parseSelect
  have ha := tryParseAllOrDistinct_sfx (ts := ts.tail) (ts0 := ts0) (by sfx)
  split
  · dsimp only
    split
    · fin
    · refine Fine.bind (parseSelectItem_fine ha hf) fun i hi => ?_
      refine Fine.bind ((resultsLoop_fine f i.2 (loop_fuel hi hf)).of_suffix hi) fun r hr => ?_
      refine Fine.bind (tryParseFrom_fine hr hf) fun fr hfr => ?_
      refine Fine.bind (tryParseWhere_fine hfr hf) fun w hw => ?_
      refine Fine.bind (tryParseGroupBy_fine hw hf) fun g hg => ?_
      exact Fine.bind (tryParseHaving_fine hg hf) fun h hh => by fin
  · fin

theorem tryParseDirection_sfx (hs : ts <:+ ts0) : (tryParseDirection ts).2 <:+ ts0 := by
  unfold tryParseDirection; split <;> (simp only; sfx)

theorem parseOrderByItem_fine (hs : ts <:+ ts0) (hf : 15 * ts0.length + 15 ≤ f) : Fine ts0 (parseOrderByItem f ts) := by
  unfold parseOrderByItem
  refine Fine.bind (pexpr_fine hs hf) fun e he => ?_
  split
  · fin
  · exact Fine.ok _ (tryParseDirection_sfx he)

end

theorem orderListLoop_fine : ∀ (f : Nat) (ts : List Token), 15 * ts.length + 1 ≤ f → Fine ts (orderListLoop f ts)
  | 0, _, h => by omega
  | f + 1, ts, h => by
    rw [orderListLoop]
    split
    · rename_i hc
      have h0 := qcur_pos hc (by decide)
      refine Fine.of_suffix (List.tail_suffix ts) ?_
      refine Fine.bind (parseOrderByItem_fine (List.suffix_refl _) (by lia)) fun i hi => ?_
      have hl := hi.length_le
      exact Fine.bind ((orderListLoop_fine f i.2 (by lia)).of_suffix hi) fun r hr => by fin
    · fin

section
variable {f : Nat} {ts ts0 : List Token}

theorem tryParseOrderBy_fine (hs : ts <:+ ts0) (hf : 15 * ts0.length + 15 ≤ f) : Fine ts0 (tryParseOrderBy f ts) := by
  unfold tryParseOrderBy
  split
  · split
    · refine Fine.bind (parseOrderByItem_fine (by sfx) hf) fun e he => ?_
      exact Fine.bind ((orderListLoop_fine f e.2 (loop_fuel he hf)).of_suffix he) fun r hr => by fin
    · fin
  · fin

theorem parseIntValue_fine (hs : ts <:+ ts0) : Fine ts0 (parseIntValue ts) := by
  unfold parseIntValue; fine_auto []

theorem tryParseOffset_fine (hs : ts <:+ ts0) : Fine ts0 (tryParseOffset ts) := by
  unfold tryParseOffset; fine_auto [parseIntValue_fine (by sfx)]

theorem tryParseLimit_fine (hs : ts <:+ ts0) : Fine ts0 (tryParseLimit ts) := by
  unfold tryParseLimit; fine_auto [parseIntValue_fine (by sfx), tryParseOffset_fine (by sfx)]

theorem parseQueryExprSuffix_fine (s : Select) (hs : ts <:+ ts0) (hf : 15 * ts0.length + 15 ≤ f) :
    Fine ts0 (parseQueryExprSuffix f s ts) := by
  unfold parseQueryExprSuffix
  fine_auto [tryParseOrderBy_fine (by sfx) hf, tryParseLimit_fine (by sfx)]

theorem parseSimpleQueryExpr_fine (hs : ts <:+ ts0) (hf : 15 * ts0.length + 15 ≤ f) :
    Fine ts0 (parseSimpleQueryExpr f ts) := by
  unfold parseSimpleQueryExpr; fine_auto [parseSelect_fine (by sfx) hf]

theorem parseQueryExpr_fine (hs : ts <:+ ts0) (hf : 15 * ts0.length + 15 ≤ f) : Fine ts0 (parseQueryExpr f ts) := by
  unfold parseQueryExpr
  fine_auto [parseSimpleQueryExpr_fine (by sfx) hf, parseQueryExprSuffix_fine _ (by sfx) hf]

theorem parseQueryStatement_fine (hs : ts <:+ ts0) (hf : 15 * ts0.length + 15 ≤ f) :
    Fine ts0 (parseQueryStatement f ts) := by
  unfold parseQueryStatement; fine_auto [parseQueryExpr_fine (by sfx) hf]

theorem parseStatement_fine (hs : ts <:+ ts0) (hf : 15 * ts0.length + 15 ≤ f) : Fine ts0 (parseStatement f ts) := by
  unfold parseStatement; fine_auto [parseQueryExpr_fine (by sfx) hf]

end

/-! ## fuel monotonicity of the query layer -/

theorem pexpr_le (f : Nat) (ts : List Token) : Le (parsePExpr f ts) (parsePExpr (f + 1) ts) := (pmono_all f).expr ts

theorem parseSelectItem_le (f : Nat) (ts : List Token) : Le (parseSelectItem f ts) (parseSelectItem (f + 1) ts) := by
  unfold parseSelectItem; le_auto' [pexpr_le _ _]

theorem resultsLoop_le : ∀ (f : Nat) (ts : List Token), Le (resultsLoop f ts) (resultsLoop (f + 1) ts)
  | 0, _ => Le.oof _
  | f + 1, ts => by
    rw [resultsLoop, resultsLoop]
    le_auto' [parseSelectItem_le _ _, resultsLoop_le f _]

theorem pathLoop_le : ∀ (f : Nat) (ts : List Token), Le (pathLoop f ts) (pathLoop (f + 1) ts)
  | 0, _ => Le.oof _
  | f + 1, ts => by
    rw [pathLoop, pathLoop]
    le_auto' [pathLoop_le f _]

theorem exprListLoop_le : ∀ (f : Nat) (ts : List Token), Le (exprListLoop f ts) (exprListLoop (f + 1) ts)
  | 0, _ => Le.oof _
  | f + 1, ts => by
    rw [exprListLoop, exprListLoop]
    le_auto' [pexpr_le _ _, exprListLoop_le f _]

theorem parseTableExpr_le (f : Nat) (ts : List Token) : Le (parseTableExpr f ts) (parseTableExpr (f + 1) ts) := by
  unfold parseTableExpr; le_auto' [pathLoop_le _ _]

theorem tryParseFrom_le (f : Nat) (ts : List Token) : Le (tryParseFrom f ts) (tryParseFrom (f + 1) ts) := by
  unfold tryParseFrom; le_auto' [parseTableExpr_le _ _]

theorem tryParseWhere_le (f : Nat) (ts : List Token) : Le (tryParseWhere f ts) (tryParseWhere (f + 1) ts) := by
  unfold tryParseWhere; le_auto' [pexpr_le _ _]

theorem tryParseGroupBy_le (f : Nat) (ts : List Token) : Le (tryParseGroupBy f ts) (tryParseGroupBy (f + 1) ts) := by
  unfold tryParseGroupBy; le_auto' [pexpr_le _ _, exprListLoop_le _ _]

theorem tryParseHaving_le (f : Nat) (ts : List Token) : Le (tryParseHaving f ts) (tryParseHaving (f + 1) ts) := by
  unfold tryParseHaving; le_auto' [pexpr_le _ _]

theorem parseSelect_le (f : Nat) (ts : List Token) : Le (parseSelect f ts) (parseSelect (f + 1) ts) := by
  unfold parseSelect
  le_auto' [parseSelectItem_le _ _, resultsLoop_le _ _, tryParseFrom_le _ _, tryParseWhere_le _ _, tryParseGroupBy_le _ _,
    tryParseHaving_le _ _]

theorem parseOrderByItem_le (f : Nat) (ts : List Token) : Le (parseOrderByItem f ts) (parseOrderByItem (f + 1) ts) := by
  unfold parseOrderByItem; le_auto' [pexpr_le _ _]

theorem orderListLoop_le : ∀ (f : Nat) (ts : List Token), Le (orderListLoop f ts) (orderListLoop (f + 1) ts)
  | 0, _ => Le.oof _
  | f + 1, ts => by
    rw [orderListLoop, orderListLoop]
    le_auto' [parseOrderByItem_le _ _, orderListLoop_le f _]

theorem tryParseOrderBy_le (f : Nat) (ts : List Token) : Le (tryParseOrderBy f ts) (tryParseOrderBy (f + 1) ts) := by
  unfold tryParseOrderBy; le_auto' [parseOrderByItem_le _ _, orderListLoop_le _ _]

theorem parseQueryExprSuffix_le (f : Nat) (s : Select) (ts : List Token) :
    Le (parseQueryExprSuffix f s ts) (parseQueryExprSuffix (f + 1) s ts) := by
  unfold parseQueryExprSuffix; le_auto' [tryParseOrderBy_le _ _]

theorem parseSimpleQueryExpr_le (f : Nat) (ts : List Token) :
    Le (parseSimpleQueryExpr f ts) (parseSimpleQueryExpr (f + 1) ts) := by
  unfold parseSimpleQueryExpr; le_auto' [parseSelect_le _ _]

theorem parseQueryExpr_le (f : Nat) (ts : List Token) : Le (parseQueryExpr f ts) (parseQueryExpr (f + 1) ts) := by
  unfold parseQueryExpr; le_auto' [parseSimpleQueryExpr_le _ _, parseQueryExprSuffix_le _ _ _]

theorem parseQueryStatement_le (f : Nat) (ts : List Token) :
    Le (parseQueryStatement f ts) (parseQueryStatement (f + 1) ts) := by
  unfold parseQueryStatement; le_auto' [parseQueryExpr_le _ _]

theorem parseStatement_le (f : Nat) (ts : List Token) : Le (parseStatement f ts) (parseStatement (f + 1) ts) := by
  unfold parseStatement; le_auto' [parseQueryExpr_le _ _]

theorem parseQueryTop_le (f : Nat) (ts : List Token) : Le (parseQueryTop f ts) (parseQueryTop (f + 1) ts) := by
  unfold parseQueryTop; le_auto' [parseQueryStatement_le _ _]

theorem parseStatementTop_le (f : Nat) (ts : List Token) : Le (parseStatementTop f ts) (parseStatementTop (f + 1) ts) := by
  unfold parseStatementTop; le_auto' [parseStatement_le _ _]

/-- once `ParseQuery` (model) answers, every larger fuel gives the same answer -/
theorem parseQueryTop_mono {n m : Nat} {ts : List Token} (hnm : n ≤ m) (h : parseQueryTop n ts ≠ .outOfFuel) :
    parseQueryTop m ts = parseQueryTop n ts :=
  (le_of_le (p := fun f => parseQueryTop f ts) (fun f => parseQueryTop_le f ts) hnm).eq rfl h

theorem parseStatementTop_mono {n m : Nat} {ts : List Token} (hnm : n ≤ m) (h : parseStatementTop n ts ≠ .outOfFuel) :
    parseStatementTop m ts = parseStatementTop n ts :=
  (le_of_le (p := fun f => parseStatementTop f ts) (fun f => parseStatementTop_le f ts) hnm).eq rfl h

/-! ## the bound -/

/-- fuel that suffices for EVERY token list: the expression bound (only the list loops of the query layer spend fuel) -/
def queryFuel (ts : List Token) : Nat := 15 * ts.length + 15

theorem queryFuel_eq_exprFuel (ts : List Token) : queryFuel ts = exprFuel ts := rfl

/-- the driver's fuel is above the bound -/
theorem queryFuel_le_topFuel (ts : List Token) : queryFuel ts ≤ topFuel ts := by
  unfold queryFuel topFuel; omega

/-- the tail of the entry points: `if p.Token.Kind != <eof> { error }` -/
theorem top_of_fine {α : Type} {ts : List Token} {r : Res (α × List Token)} (h : Fine ts r) :
    (r.bind fun p => if qcur p.2 = .eof then Res.ok p.1 else .raise) ≠ .outOfFuel ∧
    (NumOK ts → (r.bind fun p => if qcur p.2 = .eof then Res.ok p.1 else .raise) ≠ .crash) := by
  obtain ⟨h1, h2, _⟩ := h
  cases r with
  | ok a =>
    simp only [Res.bind_ok]
    refine ⟨fun e => ?_, fun _ e => ?_⟩ <;> (split at e <;> cases e)
  | raise => exact ⟨fun e => (by cases e), fun _ e => (by cases e)⟩
  | outside => exact ⟨fun e => (by cases e), fun _ e => (by cases e)⟩
  | crash => exact ⟨fun e => (by cases e), fun hn _ => h2 hn rfl⟩
  | outOfFuel => exact absurd rfl h1

/-- **`ParseQuery` (model) terminates on every token list** -/
theorem parseQueryTop_ne_oof {f : Nat} {ts : List Token} (h : queryFuel ts ≤ f) : parseQueryTop f ts ≠ .outOfFuel :=
  (top_of_fine (parseQueryStatement_fine (List.suffix_refl ts) h)).1

/-- **`ParseStatement` (model, query fragment) terminates on every token list** -/
theorem parseStatementTop_ne_oof {f : Nat} {ts : List Token} (h : queryFuel ts ≤ f) :
    parseStatementTop f ts ≠ .outOfFuel :=
  (top_of_fine (parseStatement_fine (List.suffix_refl ts) h)).1

/-- no run-time panic on token lists whose numeric tokens are non-empty (lexer output) -/
theorem parseQueryTop_ne_crash {f : Nat} {ts : List Token} (h : queryFuel ts ≤ f) (hn : NumOK ts) :
    parseQueryTop f ts ≠ .crash :=
  (top_of_fine (parseQueryStatement_fine (List.suffix_refl ts) h)).2 hn

theorem parseStatementTop_ne_crash {f : Nat} {ts : List Token} (h : queryFuel ts ≤ f) (hn : NumOK ts) :
    parseStatementTop f ts ≠ .crash :=
  (top_of_fine (parseStatement_fine (List.suffix_refl ts) h)).2 hn

/-- from the bound on, the answer does not depend on the fuel -/
theorem parseQueryTop_stable {f g : Nat} {ts : List Token} (hf : queryFuel ts ≤ f) (hg : queryFuel ts ≤ g) :
    parseQueryTop f ts = parseQueryTop g ts := by
  rw [parseQueryTop_mono hf (parseQueryTop_ne_oof (Nat.le_refl _)), parseQueryTop_mono hg (parseQueryTop_ne_oof (Nat.le_refl _))]

theorem parseStatementTop_stable {f g : Nat} {ts : List Token} (hf : queryFuel ts ≤ f) (hg : queryFuel ts ≤ g) :
    parseStatementTop f ts = parseStatementTop g ts := by
  rw [parseStatementTop_mono hf (parseStatementTop_ne_oof (Nat.le_refl _)),
    parseStatementTop_mono hg (parseStatementTop_ne_oof (Nat.le_refl _))]

end MF.Query
