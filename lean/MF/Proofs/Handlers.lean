/-
  MF.Proofs.Handlers — C10, I4: the four recovery handlers (`MF.Model.Handlers`) collect exactly the tokens they skip.
-/
import MF.Model.Handlers
import MF.Proofs.LexModes
import MF.Proofs.LexTrivia
namespace MF.Handlers
open MF MF.Lex

/-! ### recovery-mode trivia: spaces are whitespace, recorded comments are complete -/

theorem skipComment_rec_ok {rest : Bytes} {p0 n : Nat}
    (h : skipComment rest p0 true = .ok (n, false)) : skipComment rest p0 false = .ok (n, false) := by
  unfold skipComment at h ⊢
  split at h
  · simp only [*, ↓reduceIte] <;> exact h
  · split at h
    · split at h
      · simp only [*, ↓reduceIte, Bool.false_eq_true] <;> exact h
      · simp at h
    · simp only [*, ↓reduceIte, Bool.false_eq_true] <;> exact h

theorem triviaLoop_trivia_any {buf : Bytes} {np : Bool} {fuel pos : Nat} {cs : List Comment} {p0 : Nat}
    {pos' : Nat} {cs' : List Comment} {space : Bytes} {he : Bool}
    (h : triviaLoop buf np fuel pos cs = .ok (pos', cs', space, he))
    (hcs : TriviaOK buf p0 cs) (hle : lastEnd p0 cs = pos) :
    TriviaOK buf p0 cs' ∧ AllSpaceIn buf (lastEnd p0 cs') pos' := by
  induction fuel generalizing pos cs with
  | zero => simp [triviaLoop] at h
  | succ fuel ih =>
    simp only [triviaLoop] at h
    split at h
    · cases h
    · rename_i space1 hsp
      have hsa := skipSpaces_allSpace buf (buf.length + 1) pos
      split at h
      · cases h
      · cases h
      · rename_i n he1 hsc
        split at h
        · cases h
          exact ⟨hcs, by rw [hle]; exact hsa⟩
        · rename_i hn0
          have hn0' : n ≠ 0 := by simpa using hn0
          split at h
          · cases h
          · rename_i raw hraw
            obtain ⟨hr1, hr2, hr3⟩ := slice?_some hraw
            split at h
            · cases h
              exact ⟨hcs, by rw [hle]; exact hsa⟩
            · rename_i hhe
              have hhe' : he1 = false := by simpa using hhe
              subst hhe'
              have hsc' : skipComment (buf.drop (pos + skipSpaces (buf.length + 1) (List.drop pos buf)))
                  (pos + skipSpaces (buf.length + 1) (List.drop pos buf)) false = .ok (n, false) := by
                cases np with
                | false => exact hsc
                | true => exact skipComment_rec_ok hsc
              have hcc := skipComment_complete hsc' hn0' hr2 hr3
              have happ := TriviaOK_append (c := { space := space1, raw := raw, pos := pos + skipSpaces (buf.length + 1) (List.drop pos buf), «end» := pos + skipSpaces (buf.length + 1) (List.drop pos buf) + n })
                hcs (by rw [hle]; exact hsa) (by
                  unfold CompleteComment at hcc ⊢
                  exact hcc)
              exact ih h happ (lastEnd_append _ _ _)

/-- in either mode: every `Space` of a returned token is a run of whitespace runes and every recorded comment is complete
(in recovery mode an unclosed comment is not recorded: it is the `<bad>` token itself) -/
theorem nextToken_trivia_any {buf : Bytes} {np : Bool} {s s' : State} (h : nextToken buf np s = .ok s') :
    TriviaOK buf s.pos s'.tok.comments ∧ AllSpaceIn buf (lastEnd s.pos s'.tok.comments) s'.tok.pos := by
  have h := nextToken_ok_core h
  unfold nextTokenCore at h
  simp only at h
  split at h
  · cases h
  · cases h
  · rename_i pos comments space he htl
    have inv := triviaLoop_trivia_any (p0 := s.pos) htl (by simp [TriviaOK]) (by simp [lastEnd])
    split at h
    · split at h
      · cases h
      · cases h; exact inv
    · split at h
      · cases h
      · cases h
      · split at h
        · cases h
        · cases h; exact inv


/-! ### vocabulary of the statements -/

/-- the lexer invariant of a restored state: what every state produced by the lexer satisfies -/
structure LexInv (buf : Bytes) (l : State) : Prop where
  tok_end : l.tok.end = l.pos
  pos_le : l.pos ≤ buf.length
  raw : l.tok.raw = slice buf l.tok.pos l.tok.end

theorem LexInv.init (buf : Bytes) : LexInv buf Lex.init := ⟨rfl, Nat.zero_le _, by simp [Lex.init, slice_self]⟩

theorem LexInv.next {buf : Bytes} {np : Bool} {s s' : State} (h : nextToken buf np s = .ok s') : LexInv buf s' :=
  have fr := nextToken_frame h
  ⟨fr.tok_end, fr.le_len, fr.raw⟩

/-- the states the hook hands to the handlers satisfy the invariant -/
theorem advance_inv {buf : Bytes} {k : Nat} {s l : State} (hs : LexInv buf s) (h : advance buf k s = some l) : LexInv buf l := by
  induction k generalizing s with
  | zero => simp only [advance] at h; cases h; exact hs
  | succ k ih =>
    simp only [advance] at h
    split at h
    · rename_i s' hn; exact ih (LexInv.next hn) h
    · cases h; exact hs
    · cases h

/-- the state reached from `s` by `k` recovery-mode steps -/
def recState (buf : Bytes) : Nat → State → Option State
  | 0, s => some s
  | k + 1, s =>
    match nextToken buf true s with
    | .ok s' => recState buf k s'
    | _ => none

/-- the recovery-mode token stream from `s`: the current tokens of the first `k` states `s, s₁, s₂, …` -/
def recToks (buf : Bytes) : Nat → State → List Token
  | 0, _ => []
  | k + 1, s =>
    s.tok :: match nextToken buf true s with
      | .ok s' => recToks buf k s'
      | _ => []

/-- the same two notions in panic mode -/
def panState (buf : Bytes) : Nat → State → Option State
  | 0, s => some s
  | k + 1, s =>
    match nextToken buf false s with
    | .ok s' => panState buf k s'
    | _ => none

def panToks (buf : Bytes) : Nat → State → List Token
  | 0, _ => []
  | k + 1, s =>
    s.tok :: match nextToken buf false s with
      | .ok s' => panToks buf k s'
      | _ => []

/-- the nesting counter after the loop has taken the tokens `ts` starting with counter `n`; `none` when one of them
is `<eof>` or makes the `switch` leave the loop (so `some m` says: none of `ts` is a stop token) -/
def runNest (h : HKind) : Nat → List Token → Option Nat
  | n, [] => some n
  | n, t :: ts =>
    if t.kind == .eof then none
    else match action h n t.kind with
      | .take n' => runNest h n' ts
      | _ => none

/-- the loop stops at a token of kind `k` when the counter is `m` -/
def isStop (h : HKind) (m : Nat) (k : TokKind) : Bool :=
  k == .eof || match action h m k with
    | .take _ => false
    | _ => true

/-- the lexer the handler leaves behind when it stops in state `sk` with counter `m` -/
def finalOf (h : HKind) (m : Nat) (sk : State) : State :=
  if sk.tok.kind != .eof && action h m sk.tok.kind == .split then splitTok sk else sk

/-- `end` after the loop: the end of the last collected token, or the initial value -/
def endOf (e : Nat) (ts : List Token) : Nat :=
  match ts.getLast? with
  | some t => t.end
  | none => e

theorem endOf_cons (e : Nat) (t : Token) (ts : List Token) : endOf e (t :: ts) = endOf t.end ts := by
  unfold endOf
  cases ts with
  | nil => simp
  | cons u us =>
    rw [List.getLast?_cons_cons]
    cases hg : (u :: us).getLast? with
    | none => simp at hg
    | some x => rfl

/-! ### the loop -/

/-- what a successful run of the skip loop computed, in terms of the recovery-mode token stream from `s` -/
theorem skipLoop_ok {buf : Bytes} {h : HKind} {pos fuel : Nat} {s : State} {n : Nat} {toks : List Token} {e : Nat} {o : Out}
    (hr : skipLoop buf h pos fuel s n toks e = .ok o) :
    ∃ k sk m, k + 1 ≤ fuel ∧ recState buf k s = some sk ∧ o.tokens = toks ++ recToks buf k s ∧ o.nodePos = pos ∧
      o.nodeEnd = endOf e (recToks buf k s) ∧ runNest h n (recToks buf k s) = some m ∧
      isStop h m sk.tok.kind = true ∧ o.final = finalOf h m sk := by
  induction fuel generalizing s n toks e with
  | zero => simp [skipLoop] at hr
  | succ fuel ih =>
    simp only [skipLoop] at hr
    split at hr
    · rename_i heof
      cases hr
      refine ⟨0, s, n, by omega, rfl, by simp [recToks], rfl, by simp [recToks, endOf], by simp [recToks, runNest], ?_, ?_⟩
      · simp [isStop, heof]
      · have : s.tok.kind = .eof := by simpa using heof
        simp [finalOf, this]
    · rename_i hne
      split at hr
      · rename_i hact
        cases hr
        refine ⟨0, s, n, by omega, rfl, by simp [recToks], rfl, by simp [recToks, endOf], by simp [recToks, runNest], ?_, ?_⟩
        · simp [isStop, hact]
        · simp [finalOf, hact]
      · rename_i hact
        cases hr
        refine ⟨0, s, n, by omega, rfl, by simp [recToks], rfl, by simp [recToks, endOf], by simp [recToks, runNest], ?_, ?_⟩
        · simp [isStop, hact]
        · have : s.tok.kind ≠ .eof := by simpa using hne
          simp [finalOf, hact, this]
      · rename_i n' hact
        split at hr
        · rename_i s' hnt
          obtain ⟨k, sk, m, h1, h2, h3, h4, h5, h6, h7, h8⟩ := ih hr
          refine ⟨k + 1, sk, m, by omega, ?_, ?_, h4, ?_, ?_, h7, h8⟩
          · simp only [recState, hnt]; exact h2
          · simp only [recToks, hnt]; rw [h3]; simp
          · simp only [recToks, hnt]; rw [endOf_cons]; exact h5
          · simp only [recToks, hnt, runNest, hne, hact]; exact h6
        · cases hr
        · cases hr


/-- (e) the fuel suffices: from a state inside the buffer the loop ends, without `crash` and without error, as soon as the
fuel covers one iteration per remaining byte plus two (one for a final empty token, one for the stop test) -/
theorem skipLoop_total {buf : Bytes} {h : HKind} {pos fuel : Nat} {s : State} {n : Nat} {toks : List Token} {e : Nat}
    (hs : s.pos ≤ buf.length)
    (hf : (s.tok.kind = .eof → 1 ≤ fuel) ∧ (s.tok.kind ≠ .eof → buf.length - s.pos + 2 ≤ fuel)) :
    ∃ o, skipLoop buf h pos fuel s n toks e = .ok o := by
  induction fuel generalizing s n toks e with
  | zero =>
    by_cases hk : s.tok.kind = .eof
    · have := hf.1 hk; omega
    · have := hf.2 hk; omega
  | succ fuel ih =>
    simp only [skipLoop]
    split
    · exact ⟨_, rfl⟩
    · rename_i hne
      have hne' : s.tok.kind ≠ .eof := by simpa using hne
      have hf2 := hf.2 hne'
      split
      · exact ⟨_, rfl⟩
      · exact ⟨_, rfl⟩
      · obtain ⟨s', hs'⟩ := noPanic_total hs
        rw [hs']
        have fr := nextToken_frame hs'
        have pg := nextToken_progress hs' hs
        refine ih fr.le_len ⟨fun _ => by omega, fun hk => ?_⟩
        have := pg.2.2.1 hk
        have := fr.le_len
        omega

/-- more fuel does not change the result -/
theorem skipLoop_fuel_mono {buf : Bytes} {h : HKind} {pos fuel : Nat} {s : State} {n : Nat} {toks : List Token} {e : Nat} {o : Out}
    (hr : skipLoop buf h pos fuel s n toks e = .ok o) : skipLoop buf h pos (fuel + 1) s n toks e = .ok o := by
  induction fuel generalizing s n toks e with
  | zero => simp [skipLoop] at hr
  | succ fuel ih =>
    rw [skipLoop] at hr
    rw [skipLoop]
    split at hr
    · rename_i hk; simp only [hk, ↓reduceIte]; exact hr
    · rename_i hk
      simp only [hk]
      split at hr
      · exact hr
      · exact hr
      · split at hr
        · exact ih hr
        · cases hr
        · cases hr

/-! ### the collected tokens are consecutive exact slices with only trivia in between -/

/-- between offset `p` and the start of `t` there is only trivia, and `t` records it: whitespace runs and complete comments -/
structure TriviaBefore (buf : Bytes) (p : Nat) (t : Token) : Prop where
  comments : CommentsOK buf p t.comments
  trivia : TriviaOK buf p t.comments
  space_ws : AllSpaceIn buf (lastEnd p t.comments) t.pos
  space : t.space = slice buf (lastEnd p t.comments) t.pos
  between : triviaBytes t.comments ++ t.space = slice buf p t.pos

/-- the tokens `ts` follow each other from offset `p` on: each starts at or after the end of the previous one with only
trivia in between, and each is the exact slice `buf[pos, end)` -/
def Consecutive (buf : Bytes) : Nat → List Token → Prop
  | _, [] => True
  | p, t :: ts => p ≤ t.pos ∧ TriviaBefore buf p t ∧ t.raw = slice buf t.pos t.end ∧ t.pos ≤ t.end ∧
      t.end ≤ buf.length ∧ Consecutive buf t.end ts

theorem frame_consecutive {buf : Bytes} {s s' : State} (h : nextToken buf true s = .ok s') :
    s.pos ≤ s'.tok.pos ∧ TriviaBefore buf s.pos s'.tok ∧ s'.tok.raw = slice buf s'.tok.pos s'.tok.end ∧
    s'.tok.pos ≤ s'.tok.end ∧ s'.tok.end ≤ buf.length := by
  have fr := nextToken_frame h
  have tr := nextToken_trivia_any h
  have cl := CommentsOK_le fr.comments
  refine ⟨by have := fr.space_le; omega, ⟨fr.comments, tr.1, tr.2, fr.space, ?_⟩, fr.raw, fr.tok_le, by rw [fr.tok_end]; exact fr.le_len⟩
  rw [triviaBytes_tile fr.comments, fr.space, slice_append buf cl.1 fr.space_le]

theorem recToks_tail_consecutive (buf : Bytes) (k : Nat) (s : State) :
    Consecutive buf s.pos (match nextToken buf true s with
      | .ok s' => recToks buf k s'
      | _ => []) := by
  induction k generalizing s with
  | zero => cases nextToken buf true s <;> simp [recToks, Consecutive]
  | succ k ih =>
    cases hn : nextToken buf true s with
    | ok s' =>
      simp only [recToks, Consecutive]
      obtain ⟨a, b, c, d, e⟩ := frame_consecutive hn
      refine ⟨a, b, c, d, e, ?_⟩
      have fr := nextToken_frame hn
      rw [fr.tok_end]
      exact ih s'
    | err _ => simp [Consecutive]
    | crash => simp [Consecutive]

theorem recToks_length {buf : Bytes} {k : Nat} {s sk : State} (h : recState buf k s = some sk) :
    (recToks buf k s).length = k := by
  induction k generalizing s with
  | zero => simp [recToks]
  | succ k ih =>
    simp only [recState] at h
    split at h
    · rename_i s' hn
      simp only [recToks, hn, List.length_cons, ih h]
    · cases h

theorem recToks_raw {buf : Bytes} {k : Nat} {s : State} (hs : s.tok.raw = slice buf s.tok.pos s.tok.end) :
    ∀ t ∈ recToks buf k s, t.raw = slice buf t.pos t.end := by
  induction k generalizing s with
  | zero => simp [recToks]
  | succ k ih =>
    intro t ht
    simp only [recToks, List.mem_cons] at ht
    rcases ht with ht | ht
    · subst ht; exact hs
    · cases hn : nextToken buf true s with
      | ok s' => rw [hn] at ht; exact ih (nextToken_frame hn).raw t ht
      | err _ => rw [hn] at ht; simp at ht
      | crash => rw [hn] at ht; simp at ht

/-! ### on a lexically clean range the recovery-mode stream is the panic-mode stream (with I1) -/

theorem rec_eq_pan {buf : Bytes} {k : Nat} {s sk : State} (h : panState buf k s = some sk) :
    recState buf k s = some sk ∧ recToks buf k s = panToks buf k s := by
  induction k generalizing s with
  | zero => simp only [panState] at h; cases h; simp [recState, recToks, panToks]
  | succ k ih =>
    simp only [panState] at h
    split at h
    · rename_i s' hn
      have hn' := noPanic_agrees hn
      obtain ⟨a, b⟩ := ih h
      simp only [recState, recToks, panToks, hn, hn']
      exact ⟨a, by rw [b]⟩
    · cases h


/-! ### the `>>` split -/

theorem isK_single {k : TokKind} {x : String} : isK k [x] = true ↔ k = K x := by
  simp [isK]

/-- the `switch` asks for the split exactly in the type handler, on `>>`, with `nesting == 1` -/
theorem action_split_iff {h : HKind} {m : Nat} {k : TokKind} :
    action h m k = .split ↔ h = .type ∧ k = K ">>" ∧ m = 1 := by
  constructor
  · intro ha
    cases h with
    | statement => simp only [action] at ha; split at ha <;> cases ha
    | query simple => simp only [action] at ha; (repeat' split at ha) <;> cases ha
    | expr => simp only [action] at ha; (repeat' split at ha) <;> cases ha
    | type =>
      simp only [action] at ha
      split at ha
      · cases ha
      split at ha
      · cases ha
      split at ha
      · split at ha <;> cases ha
      split at ha
      · rename_i hk
        split at ha
        · cases ha
        · split at ha
          · rename_i h1
            exact ⟨rfl, isK_single.1 hk, by simpa using h1⟩
          · cases ha
      split at ha
      · split at ha <;> cases ha
      · cases ha
  · rintro ⟨rfl, rfl, rfl⟩
    decide


/-! ### the handlers -/

/-- C10 for one run of a handler from the restored lexer `l` -/
structure BadExact (buf : Bytes) (h : HKind) (l : State) (o : Out) : Prop where
  /-- (a) every collected token is the exact slice `buf[pos, end)` -/
  raws : ∀ t ∈ o.tokens, t.raw = slice buf t.pos t.end
  /-- (a) the first collected token is `l.tok` and the others follow it consecutively with only trivia in between -/
  chain : o.tokens = [] ∨ ∃ rest, o.tokens = l.tok :: rest ∧ Consecutive buf l.tok.end rest
  /-- (b) -/
  nodePos : o.nodePos = l.tok.pos
  /-- (b) `NodeEnd` is the end of the last collected token, or `NodePos` when none was collected -/
  nodeEnd : o.nodeEnd = match o.tokens.getLast? with
    | some t => t.end
    | none => o.nodePos
  /-- (c) the collected tokens are a prefix of the recovery-mode token stream from `l` … -/
  stream : o.tokens = recToks buf o.tokens.length l
  /-- (c) … namely the prefix up to (not including) the first stop token: none of the collected tokens stops the loop
  (`runNest … = some m`, `m` the nesting counter reached), the next token of the stream (`sk.tok`) does, and the lexer is
  left on it — (d) with the `>>` split applied when that is how the loop stopped (`finalOf`) -/
  stop : ∃ sk m, recState buf o.tokens.length l = some sk ∧ runNest h 0 o.tokens = some m ∧
    isStop h m sk.tok.kind = true ∧ o.final = finalOf h m sk
  /-- (e) the loop ends within `len - l.pos + 2` iterations (one per collected token plus the one that stops) -/
  iterations : o.tokens.length + 1 ≤ buf.length - l.pos + 2

/-- C10, I4 `bad_tokens_exact`: each of the four handlers, from every restored lexer state that satisfies the lexer
invariant, terminates with the fuel the model gives it (e) and returns exactly the skipped tokens (a)–(d). -/
theorem bad_tokens_exact {buf : Bytes} (h : HKind) {l : State} (inv : LexInv buf l) :
    ∃ o, handler buf h l = .ok o ∧ BadExact buf h l o := by
  have hfuel : (l.tok.kind = .eof → 1 ≤ buf.length - l.pos + 2) ∧ (l.tok.kind ≠ .eof → buf.length - l.pos + 2 ≤ buf.length - l.pos + 2) :=
    ⟨fun _ => by omega, fun _ => Nat.le_refl _⟩
  obtain ⟨o, ho⟩ := skipLoop_total (h := h) (pos := l.tok.pos) (n := 0) (toks := []) (e := l.tok.pos) inv.pos_le hfuel
  refine ⟨o, ho, ?_⟩
  obtain ⟨k, sk, m, h1, h2, h3, h4, h5, h6, h7, h8⟩ := skipLoop_ok ho
  simp only [List.nil_append] at h3
  have hlen : o.tokens.length = k := by rw [h3]; exact recToks_length h2
  refine ⟨?_, ?_, h4, ?_, ?_, ⟨sk, m, ?_, ?_, h7, h8⟩, by omega⟩
  · rw [h3]; exact recToks_raw inv.raw
  · cases k with
    | zero => left; rw [h3]; rfl
    | succ k =>
      right
      refine ⟨_, by rw [h3]; rfl, ?_⟩
      rw [inv.tok_end]
      exact recToks_tail_consecutive buf k l
  · rw [h5, h4, h3]; rfl
  · rw [hlen]; exact h3
  · rw [hlen]; exact h2
  · rw [h3]; exact h6

/-- (c) with I1: when panic-mode lexing succeeds on the skipped tokens and the stop token, the collected tokens are the
panic-mode tokens and the loop stopped on the panic-mode token -/
theorem bad_tokens_clean {buf : Bytes} {h : HKind} {l : State} {o : Out} (ex : BadExact buf h l o) {sk : State}
    (hclean : panState buf o.tokens.length l = some sk) :
    o.tokens = panToks buf o.tokens.length l ∧ ∃ m, runNest h 0 o.tokens = some m ∧ o.final = finalOf h m sk := by
  obtain ⟨a, b⟩ := rec_eq_pan hclean
  obtain ⟨sk', m, c1, c2, _, c4⟩ := ex.stop
  rw [a] at c1
  cases c1
  exact ⟨by rw [← b]; exact ex.stream, m, c2, c4⟩

/-- (d) the `>>` split: the lexer is left on a modified token exactly when the type handler stops on `>>` with
`nesting == 1`; the current token is then `>` with `Pos` one past the original and everything else (`End`, `Raw`, the
lexer's cursor) unchanged; in every other case the lexer is left on the stop token itself -/
theorem split_gt {h : HKind} {m : Nat} {sk : State} :
    (h = .type ∧ sk.tok.kind = K ">>" ∧ m = 1 →
      (finalOf h m sk).tok = { sk.tok with kind := K ">", pos := sk.tok.pos + 1 } ∧
      (finalOf h m sk).pos = sk.pos ∧ (finalOf h m sk).lastKind = sk.lastKind ∧ (finalOf h m sk).dotIdent = sk.dotIdent) ∧
    (¬(h = .type ∧ sk.tok.kind = K ">>" ∧ m = 1) → finalOf h m sk = sk) := by
  constructor
  · intro hc
    have ha := action_split_iff.2 hc
    have hne : sk.tok.kind ≠ .eof := by rw [hc.2.1]; simp [K]
    simp [finalOf, ha, hne, splitTok]
  · intro hc
    have ha : action h m sk.tok.kind ≠ .split := fun hh => hc (action_split_iff.1 hh)
    simp [finalOf, ha]


/-! ### `BadNode.SQL()`: the shape of the text (what is proved of `bad_sql_relex`) -/

/-- in either mode a token other than `<eof>` is not empty -/
theorem nextToken_nonempty {buf : Bytes} {np : Bool} {s s' : State} (h : nextToken buf np s = .ok s')
    (hk : s'.tok.kind ≠ .eof) : s'.tok.pos < s'.tok.end := by
  have h := nextToken_ok_core h
  unfold nextTokenCore at h
  simp only at h
  split at h
  · cases h
  · cases h
  · rename_i pos comments space he htl
    have inv := triviaLoop_ok (p0 := s.pos) htl (by simp [CommentsOK]) (by simp [lastEnd])
    obtain ⟨i1, i2, i3, i4, i5, i6⟩ := inv
    split at h
    · rename_i hhe
      have j := i6 hhe
      split at h
      · cases h
      · cases h; exact j.1
    · split at h
      · cases h
      · cases h
      · rename_i sc hsc
        have hok : ScanOK (buf.drop pos) sc := by
          split at hsc
          · exact consumeFieldToken_ok hsc
          · exact consumeToken_ok hsc
        split at h
        · cases h
        · cases h
          simp only at hk ⊢
          have hne : buf.drop pos ≠ [] := by
            intro hn
            rw [hn] at hsc
            split at hsc
            · rw [consumeFieldToken_nil] at hsc; cases hsc; exact hk rfl
            · rw [consumeToken_nil] at hsc; cases hsc; exact hk rfl
          have := hok.pos hne
          omega

/-- the blank `BadNode.SQL()` writes before a comment or a token: one, when it had leading space and is not at the very start -/
def blank (sql space : Bytes) : Bytes := if !sql.isEmpty && space.length > 0 then [32] else []

/-- the text `BadNode.SQL()` writes for the comments of one token, after `sql` -/
def commentsText (sql : Bytes) : List Comment → Bytes
  | [] => []
  | c :: cs => blank sql c.space ++ c.raw ++ commentsText (sql ++ blank sql c.space ++ c.raw) cs

/-- everything `BadNode.SQL()` writes between the text so far and the `Raw` of the token `t` -/
def gap (sql : Bytes) (t : Token) : Bytes :=
  commentsText sql t.comments ++ blank (sql ++ commentsText sql t.comments) t.space

theorem sqlComments_eq (sql : Bytes) (cs : List Comment) : sqlComments sql cs = sql ++ commentsText sql cs := by
  induction cs generalizing sql with
  | nil => simp [sqlComments, commentsText]
  | cons c cs ih =>
    simp only [sqlComments, commentsText]
    have : (if (!sql.isEmpty && decide (c.space.length > 0)) = true then sql ++ [32] else sql) = sql ++ blank sql c.space := by
      unfold blank; split <;> simp
    rw [this, ih]
    simp [List.append_assoc]

/-- one iteration of the token loop appends the gap and the token's `Raw` -/
theorem sqlTok_eq (sql : Bytes) (t : Token) : sqlTok sql t = sql ++ gap sql t ++ t.raw := by
  unfold sqlTok gap
  simp only
  rw [sqlComments_eq]
  have : ∀ x : Bytes, (if (!x.isEmpty && decide (t.space.length > 0)) = true then x ++ [32] else x) = x ++ blank x t.space := by
    intro x; unfold blank; split <;> simp
  rw [this]
  simp [List.append_assoc]

theorem badSQL_snoc (toks : List Token) (t : Token) :
    badSQL (toks ++ [t]) = badSQL toks ++ gap (badSQL toks) t ++ t.raw := by
  unfold badSQL
  rw [List.foldl_append]
  simp only [List.foldl_cons, List.foldl_nil]
  exact sqlTok_eq _ t

theorem commentsText_nil_iff {sql : Bytes} {cs : List Comment} (hc : ∀ c ∈ cs, c.raw ≠ []) :
    commentsText sql cs = [] ↔ cs = [] := by
  cases cs with
  | nil => simp [commentsText]
  | cons c cs =>
    simp only [commentsText, List.append_eq_nil_iff, reduceCtorEq, iff_false]
    intro h
    exact absurd h.1.2 (hc c (by simp))

/-- after a non-empty text, nothing is written before the token's `Raw` exactly when the token has no comments and no
leading space: `SQL()` glues two tokens only when nothing separated them -/
theorem gap_nil_iff {sql : Bytes} {t : Token} (hs : sql ≠ []) (hc : ∀ c ∈ t.comments, c.raw ≠ []) :
    gap sql t = [] ↔ t.comments = [] ∧ t.space = [] := by
  unfold gap
  constructor
  · intro h
    rw [List.append_eq_nil_iff] at h
    have h1 := (commentsText_nil_iff hc).1 h.1
    refine ⟨h1, ?_⟩
    have h2 := h.2
    rw [h.1, List.append_nil] at h2
    unfold blank at h2
    split at h2
    · cases h2
    · rename_i hb
      cases hsp : t.space with
      | nil => rfl
      | cons x xs =>
        exfalso; apply hb
        cases sql with
        | nil => exact absurd rfl hs
        | cons y ys => simp [hsp]
  · rintro ⟨h1, h2⟩
    simp [h1, h2, commentsText, blank]

theorem badSQL_ne_nil {toks : List Token} {t : Token} (ht : t.raw ≠ []) : badSQL (toks ++ [t]) ≠ [] := by
  rw [badSQL_snoc]
  intro h
  rw [List.append_eq_nil_iff] at h
  exact ht h.2

theorem CommentsOK_raw_ne {buf : Bytes} {p : Nat} {cs : List Comment} (h : CommentsOK buf p cs) :
    ∀ c ∈ cs, c.raw ≠ [] := by
  induction cs generalizing p with
  | nil => simp
  | cons d ds ih =>
    simp only [CommentsOK] at h
    obtain ⟨a, b, c', d', e, f⟩ := h
    intro c hc
    simp only [List.mem_cons] at hc
    rcases hc with hc | hc
    · subst hc
      intro hr
      have := congrArg List.length e
      rw [hr, slice_length (Nat.le_of_lt b) c'] at this
      simp at this
      omega
    · exact ih f c hc

/-- no trivia recorded ⇔ the token starts where the previous one ended -/
theorem TriviaBefore.nil_iff {buf : Bytes} {p : Nat} {t : Token} (tb : TriviaBefore buf p t) (hp : p ≤ t.pos)
    (hl : t.pos ≤ buf.length) : (t.comments = [] ∧ t.space = []) ↔ t.pos = p := by
  have hb := tb.between
  constructor
  · rintro ⟨h1, h2⟩
    rw [h1, h2] at hb
    simp only [triviaBytes, List.flatMap_nil, List.append_nil] at hb
    have := congrArg List.length hb
    rw [slice_length hp hl] at this
    simp at this
    omega
  · intro h
    rw [h, slice_self] at hb
    rw [List.append_eq_nil_iff] at hb
    refine ⟨?_, hb.2⟩
    cases hc : t.comments with
    | nil => rfl
    | cons c cs =>
      exfalso
      have hne := CommentsOK_raw_ne tb.comments c (by rw [hc]; simp)
      have h1 := hb.1
      rw [hc] at h1
      simp only [triviaBytes, List.flatMap_cons, Comment.text, List.append_eq_nil_iff] at h1
      exact hne h1.1.2

/-- `bad_sql_shape` (the part of `bad_sql_relex` that is proved): in `BadNode.SQL()` the `Raw`s of the collected tokens
appear in order, and between two consecutive ones the text has nothing exactly when the input had nothing between them:
`SQL()` never glues two tokens that trivia (a blank, a comment) separated, and never separates two that were glued. -/
theorem bad_sql_shape {buf : Bytes} {h : HKind} {l : State} {o : Out} (ex : BadExact buf h l o)
    {pre post : List Token} {t t' : Token} (hsplit : o.tokens = pre ++ t :: t' :: post) (ht : t.raw ≠ []) :
    badSQL (pre ++ [t, t']) = badSQL (pre ++ [t]) ++ gap (badSQL (pre ++ [t])) t' ++ t'.raw ∧
    (gap (badSQL (pre ++ [t])) t' = [] ↔ t'.pos = t.end) := by
  have hcons : ∀ (pre : List Token) (p : Nat), Consecutive buf p (pre ++ t :: t' :: post) →
      t.end ≤ t'.pos ∧ TriviaBefore buf t.end t' ∧ t'.pos ≤ buf.length := by
    intro pre
    induction pre with
    | nil =>
      intro p hc
      simp only [List.nil_append, Consecutive] at hc
      obtain ⟨_, _, _, _, _, a, b, _, c, d, _⟩ := hc
      exact ⟨a, b, by omega⟩
    | cons x xs ih =>
      intro p hc
      simp only [List.cons_append, Consecutive] at hc
      exact ih _ hc.2.2.2.2.2
  have key : t.end ≤ t'.pos ∧ TriviaBefore buf t.end t' ∧ t'.pos ≤ buf.length := by
    rcases ex.chain with hnil | ⟨rest, hr, hc⟩
    · rw [hnil] at hsplit; cases pre <;> simp at hsplit
    · rw [hr] at hsplit
      cases pre with
      | nil =>
        simp only [List.nil_append, List.cons.injEq] at hsplit
        obtain ⟨h1, h2⟩ := hsplit
        subst h1
        rw [h2] at hc
        simp only [Consecutive] at hc
        obtain ⟨a, b, _, c, d, _⟩ := hc
        exact ⟨a, b, by omega⟩
      | cons x xs =>
        simp only [List.cons_append, List.cons.injEq] at hsplit
        rw [hsplit.2] at hc
        exact hcons xs _ hc
  obtain ⟨k1, k2, k3⟩ := key
  refine ⟨?_, ?_⟩
  · have : pre ++ [t, t'] = (pre ++ [t]) ++ [t'] := by simp
    rw [this, badSQL_snoc]
  · rw [gap_nil_iff (badSQL_ne_nil ht) (CommentsOK_raw_ne k2.comments)]
    exact k2.nil_iff k1 k3


/-- the token loop of `SQL()` over consecutive tokens without comments whose leading space is nothing or one blank
reproduces the input slice -/
theorem foldl_sqlTok_slice {buf : Bytes} {a : Nat} :
    ∀ (ts : List Token) (p : Nat) (sql : Bytes), sql = slice buf a p → sql ≠ [] → a ≤ p → Consecutive buf p ts →
      (∀ t ∈ ts, t.comments = []) → (∀ t ∈ ts, t.space = [] ∨ t.space = [32]) →
      ts.foldl sqlTok sql = slice buf a (endOf p ts) := by
  intro ts
  induction ts with
  | nil => intro p sql hs _ _ _ _ _; simpa [endOf] using hs
  | cons t ts ih =>
    intro p sql hs hne hap hc hcm hsp
    simp only [Consecutive] at hc
    obtain ⟨c1, c2, c3, c4, c5, c6⟩ := hc
    have hcm0 := hcm t (by simp)
    have hbt := c2.between
    rw [hcm0] at hbt
    simp only [triviaBytes, List.flatMap_nil, List.nil_append] at hbt
    have hgap : gap sql t = t.space := by
      unfold gap
      rw [hcm0]
      simp only [commentsText, List.append_nil, List.nil_append]
      unfold blank
      rcases hsp t (by simp) with h0 | h1
      · simp [h0]
      · cases sql with
        | nil => exact absurd rfl hne
        | cons y ys => simp [h1]
    have hstep : sqlTok sql t = slice buf a t.end := by
      rw [sqlTok_eq, hgap, hbt, c3, hs, slice_append buf hap c1, slice_append buf (by omega) c4]
    simp only [List.foldl_cons]
    rw [endOf_cons]
    refine ih t.end _ hstep ?_ (by omega) c6 (fun u hu => hcm u (by simp [hu])) (fun u hu => hsp u (by simp [hu]))
    rw [hstep]
    intro h0
    apply hne
    rw [hs]
    have hl := congrArg List.length h0
    rw [slice_length (by omega) c5] at hl
    simp only [List.length_nil] at hl
    have : p = a := by omega
    rw [this, slice_self]

/-- `bad_sql_slice_partial`: when no collected token has comments and every collected token after the first is preceded by
nothing or by exactly one blank, `BadNode.SQL()` IS the input slice `input[NodePos:NodeEnd]` — so for such Bad nodes "SQL()
re-lexes to the Tokens" is the same claim as "input[NodePos:NodeEnd] re-lexes to the Tokens".
(Hypotheses added to `bad_sql_relex`: no comments, canonical blanks, a non-empty first token; and the conclusion is the
identity of the two texts, not their re-lexing — see the report for what re-lexing needs.) -/
theorem bad_sql_slice_partial {buf : Bytes} {h : HKind} {l : State} {o : Out} (inv : LexInv buf l) (ex : BadExact buf h l o)
    (hl : l.tok.pos < l.tok.end) (hcm : ∀ t ∈ o.tokens, t.comments = [])
    (hsp : ∀ t ∈ o.tokens.tail, t.space = [] ∨ t.space = [32]) :
    badSQL o.tokens = slice buf o.nodePos o.nodeEnd := by
  rcases ex.chain with hnil | ⟨rest, hr, hc⟩
  · have he := ex.nodeEnd
    rw [hnil] at he
    simp only [List.getLast?_nil] at he
    rw [hnil, he, slice_self]; rfl
  · have he := ex.nodeEnd
    have hraw := ex.raws l.tok (by rw [hr]; simp)
    rw [hr] at hcm hsp he ⊢
    simp only [List.tail_cons] at hsp
    have hfirst : sqlTok [] l.tok = slice buf l.tok.pos l.tok.end := by
      rw [sqlTok_eq]
      have : gap [] l.tok = [] := by
        unfold gap
        rw [hcm l.tok (by simp)]
        simp [commentsText, blank]
      rw [this, hraw]; simp
    have hne : sqlTok [] l.tok ≠ [] := by
      rw [hfirst]
      intro h0
      have hlen := congrArg List.length h0
      have hle : l.tok.end ≤ buf.length := by rw [inv.tok_end]; exact inv.pos_le
      rw [slice_length (Nat.le_of_lt hl) hle] at hlen
      simp at hlen
      omega
    have := foldl_sqlTok_slice (a := l.tok.pos) rest l.tok.end (sqlTok [] l.tok) hfirst hne (Nat.le_of_lt hl) hc
      (fun t ht => hcm t (by simp [ht])) hsp
    unfold badSQL
    simp only [List.foldl_cons]
    rw [this, ex.nodePos, he]
    congr 1
    show endOf l.tok.end rest = endOf o.nodePos (l.tok :: rest)
    rw [endOf_cons]

end MF.Handlers
