/-
  MF.Proofs.DMLPos — `Pos()` / `End()` of the statement-level DML nodes lie exactly over the run of tokens the
  node-building call consumed (`MF.Query.Over`), for the positioned instantiation of the DML model (`parsePExpr`), on
  any suffix of a token list with the lexer's token facts (`MF.Query.TokensOK`: C05 facts for expressions + `TokLen`).
-/
import MF.Proofs.QueryPos
import MF.Proofs.DMLSound
import MF.Proofs.DMLErase
namespace MF.DML
open MF MF.Expr
open MF.Query (Over firstPos lastEnd TokensOK)

theorem tk_rparen {k : TokKind} (h : tk k = .rparen) : k = K ")" := by
  cases k with
  | sym s =>
    obtain ⟨p, hp, hs, hc⟩ := symTK_of_find (show symTK s = .rparen from h) (by decide)
    have : ∀ p ∈ symTable, p.2 = TK.rparen → p.1 = ")" := by decide
    rw [← hs, this p hp hc]; rfl
  | _ => cases h

theorem rparen_end {t : Token} (hl : Lex.TokLen t) (h : tk t.kind = .rparen) : t.end = t.pos + 1 := by
  have := hl.1 (B ")") (tk_rparen h)
  have e : (B ")").length = 1 := by decide
  rw [e] at this; exact this

theorem default_end {t : Token} (hl : Lex.TokLen t) (h : t.kind = K "DEFAULT") : t.end = t.pos + 7 := by
  have := hl.1 (B "DEFAULT") h
  have e : (B "DEFAULT").length = 7 := by decide
  rw [e] at this; exact this

theorem lastEnd_cons {t : Token} {l : List Token} (h : l ≠ []) : lastEnd (t :: l) = lastEnd l :=
  Query.lastEnd_append (a := [t]) h

/-- `DefaultExpr` -/
theorem defaultP_over {len f : Nat} {ts rest : List Token} {d : DefaultExpr PExpr} (hT : TokensOK len ts)
    (h : parseDefaultExpr parsePExpr f ts = .ok (d, rest)) :
    ∃ pre, ts = pre ++ rest ∧ Over (posDefault d) (endDefault d) pre := by
  unfold parseDefaultExpr at h
  by_cases h1 : kd ts = K "DEFAULT"
  · rw [if_pos h1] at h
    obtain ⟨t, tl, rfl, ht⟩ := kd_split h1
    cases h
    refine ⟨[t], by simp, by simp, rfl, ?_⟩
    simp only [endDefault, hd_cons, Query.lastEnd_single]
    exact (default_end (hT.tl t (by simp)) ht).symm
  · rw [if_neg h1] at h
    obtain ⟨p, hp, h⟩ := Res.bind_eq_ok.1 h
    cases h
    exact Query.parsePExpr_over hT hp

/-- `Where` -/
theorem whereP_over {len f : Nat} {ts rest : List Token} {w : Where PExpr} (hT : TokensOK len ts)
    (h : parseWhere parsePExpr f ts = .ok (w, rest)) :
    ∃ pre, ts = pre ++ rest ∧ Over (posWhere w) (endWhere w) pre := by
  unfold parseWhere at h
  by_cases h1 : kd ts = K "WHERE"
  · rw [if_pos h1] at h
    obtain ⟨t, tl, rfl, ht⟩ := kd_split h1
    obtain ⟨p, hp, h⟩ := Res.bind_eq_ok.1 h
    cases h
    simp only [List.tail_cons] at hp
    obtain ⟨pre, hpre, ho⟩ := Query.parsePExpr_over (hT.suffix (pre := [t])) hp
    exact ⟨t :: pre, by simp [hpre], Query.Over.cons_left t ho⟩
  · rw [if_neg h1] at h; cases h

/-- `AsAlias` -/
theorem aliasP_over {ts rest : List Token} {a : AsAlias} (h : tryParseAsAlias ts = .ok (some a, rest)) :
    ∃ pre, ts = pre ++ rest ∧ Over (posAlias a) (endAlias a) pre := by
  obtain ⟨pre, hts, hd⟩ := tryParseAsAlias_sound h
  generalize hx : some a = x at hd
  cases hd with
  | none => cases hx
  | @as_ k t hk ht =>
    cases hx
    exact ⟨[k, t], hts, by simp, rfl, rfl⟩
  | @bare t ht =>
    cases hx
    exact ⟨[t], hts, by simp, rfl, rfl⟩

/-- a row derivation starts at `Lparen` and ends at `Rparen + 1` -/
theorem rowD_span {r : ValuesRow Expr} {p : List Token} (h : RowD r p) (hl : ∀ t ∈ p, Lex.TokLen t) :
    p ≠ [] ∧ r.lparen = firstPos p ∧ r.rparen + 1 = lastEnd p := by
  cases h with
  | @empty l rp hlp hrp =>
    refine ⟨by simp, rfl, ?_⟩
    show rp.pos + 1 = rp.end
    exact (rparen_end (hl rp (by simp)) hrp).symm
  | @list l rp ds ts hlp hd hrp =>
    refine ⟨by simp, rfl, ?_⟩
    have e : l :: ts ++ [rp] = (l :: ts) ++ [rp] := rfl
    rw [e, Query.lastEnd_append (by simp), Query.lastEnd_single]
    exact (rparen_end (hl rp (by simp)) hrp).symm

/-- `ValuesRow` -/
theorem rowP_over {len f : Nat} {ts rest : List Token} {r : ValuesRow PExpr} (hT : TokensOK len ts)
    (h : parseValuesRow parsePExpr f ts = .ok (r, rest)) :
    ∃ pre, ts = pre ++ rest ∧ Over (posRow r) (endRow r) pre := by
  have he := parseValuesRow_nat erase_H f ts
  rw [h] at he
  simp only [Res.map, lift] at he
  obtain ⟨pre, hts, hd⟩ := parseValuesRow_sound he
  have hl : ∀ t ∈ pre, Lex.TokLen t := fun t ht => hT.tl t (by rw [hts]; simp [ht])
  obtain ⟨hne, h1, h2⟩ := rowD_span hd hl
  exact ⟨pre, hts, hne, h1, h2⟩

theorem rowsD_span {rs : List (ValuesRow Expr)} {p : List Token} (h : RowsD rs p) (hl : ∀ t ∈ p, Lex.TokLen t) :
    p ≠ [] ∧ (rs.getLast?.map (fun r => r.rparen + 1)).getD 0 = lastEnd p := by
  induction h with
  | one hd =>
    obtain ⟨hne, _, h2⟩ := rowD_span hd hl
    exact ⟨hne, by simpa using h2⟩
  | @cons r ts c rs us hd hc hrs ih =>
    obtain ⟨hne, h2⟩ := ih (fun t ht => hl t (by simp [ht]))
    refine ⟨by simp, ?_⟩
    have e : ts ++ c :: us = (ts ++ [c]) ++ us := by simp
    rw [e, Query.lastEnd_append hne, ← h2]
    cases hrs with
    | one _ => simp
    | cons _ _ _ => simp

/-- `ValuesInput` -/
theorem inputP_over {len f : Nat} {ts rest : List Token} {v : ValuesInput PExpr} (hT : TokensOK len ts)
    (h : parseValuesInput parsePExpr f ts = .ok (v, rest)) :
    ∃ pre, ts = pre ++ rest ∧ Over (posInput v) (endInput v) pre := by
  have he := parseValuesInput_nat erase_H f ts
  rw [h] at he
  simp only [Res.map, lift] at he
  obtain ⟨t, pre, hts, _, rs, hv, hd⟩ := parseValuesInput_sound he
  have hl : ∀ x ∈ pre, Lex.TokLen x := fun x hx => hT.tl x (by rw [hts]; simp [hx])
  obtain ⟨hne, h2⟩ := rowsD_span hd hl
  refine ⟨t :: pre, by simp [hts], by simp, ?_, ?_⟩
  · have := congrArg ValuesInput.values hv
    exact this
  · rw [lastEnd_cons hne, ← h2]
    have hr := congrArg ValuesInput.rows hv
    simp only [ValuesInput.map] at hr
    rw [← hr]
    simp only [endInput, List.getLast?_map, Option.map_map]
    rfl

/-- the body of a DELETE: `End()` of the statement is the end of the last consumed token -/
theorem deleteP_over {len f pos : Nat} {ts rest : List Token} {s : PStmt} (hT : TokensOK len ts)
    (h : parseDelete parsePExpr f pos ts = .ok (s, rest)) :
    posD s = pos ∧ ∃ pre, ts = pre ++ rest ∧ pre ≠ [] ∧ endD s = lastEnd pre := by
  simp only [parseDelete] at h
  obtain ⟨preF, hpreF, _⟩ := opt_sound "FROM" ts
  obtain ⟨n, hn, h⟩ := Res.bind_eq_ok.1 h
  obtain ⟨preP, hpreP, _⟩ := parseIdentOrPath_sound hn
  by_cases hh : hintAhead n.2 = true
  · rw [if_pos hh] at h; cases h
  · rw [if_neg hh] at h
    obtain ⟨a, ha, h⟩ := Res.bind_eq_ok.1 h
    obtain ⟨preA, hpreA, _⟩ := tryParseAsAlias_sound ha
    obtain ⟨w, hw, h⟩ := Res.bind_eq_ok.1 h
    have hts : ts = (preF ++ (preP ++ preA)) ++ a.2 := by rw [hpreF, hpreP, hpreA]; simp
    obtain ⟨preW, hpreW, hne, _, hwe⟩ := whereP_over (by rw [hts] at hT; exact hT.suffix) hw
    obtain ⟨u, _, h⟩ := Res.bind_eq_ok.1 h
    cases h
    refine ⟨rfl, (preF ++ (preP ++ preA)) ++ preW, by rw [hts, hpreW]; simp, by simp [hne], ?_⟩
    rw [Query.lastEnd_append hne]
    exact hwe

/-- the body of an INSERT -/
theorem insertP_over {len f pos : Nat} {ts rest : List Token} {s : PStmt} (hT : TokensOK len ts)
    (h : parseInsert parsePExpr f pos ts = .ok (s, rest)) :
    posD s = pos ∧ ∃ pre, ts = pre ++ rest ∧ pre ≠ [] ∧ endD s = lastEnd pre := by
  unfold parseInsert at h
  obtain ⟨o, ho, h⟩ := Res.bind_eq_ok.1 h
  obtain ⟨preO, hpreO, _⟩ := parseInsertOr_sound ho
  obtain ⟨preI, hpreI, _⟩ := opt_sound "INTO" o.2
  simp only at h
  obtain ⟨n, hn, h⟩ := Res.bind_eq_ok.1 h
  obtain ⟨preP, hpreP, _⟩ := parseIdentOrPath_sound hn
  by_cases hh : hintAhead n.2 = true
  · rw [if_pos hh] at h; cases h
  · rw [if_neg hh] at h
    obtain ⟨c, hc, h⟩ := Res.bind_eq_ok.1 h
    obtain ⟨preC, hpreC, _⟩ := parseColumns_sound hc
    by_cases hv : kwLike "VALUES" c.2 = true
    · rw [if_pos hv] at h
      obtain ⟨v, hv2, h⟩ := Res.bind_eq_ok.1 h
      obtain ⟨u, _, h⟩ := Res.bind_eq_ok.1 h
      cases h
      have hts : ts = (preO ++ (preI ++ (preP ++ preC))) ++ c.2 := by rw [hpreO, hpreI, hpreP, hpreC]; simp
      obtain ⟨preV, hpreV, hne, _, hve⟩ := inputP_over (by rw [hts] at hT; exact hT.suffix) hv2
      refine ⟨rfl, (preO ++ (preI ++ (preP ++ preC))) ++ preV, by rw [hts, hpreV]; simp, by simp [hne], ?_⟩
      rw [Query.lastEnd_append hne]
      exact hve
    · rw [if_neg hv] at h
      split at h <;> cases h

/-- `UpdateItem` -/
theorem itemP_over {len f : Nat} {ts rest : List Token} {u : UpdateItem PExpr} (hT : TokensOK len ts)
    (h : parseUpdateItem parsePExpr f ts = .ok (u, rest)) :
    ∃ pre, ts = pre ++ rest ∧ Over (posItem u) (endItem u) pre := by
  unfold parseUpdateItem at h
  obtain ⟨n, hn, h⟩ := Res.bind_eq_ok.1 h
  obtain ⟨preP, hpreP, hdP⟩ := parseIdentOrPath_sound hn
  by_cases h1 : cur n.2 = .eq
  · rw [if_pos h1] at h
    obtain ⟨e, tl, he, _⟩ := cur_split h1 (by decide)
    obtain ⟨d, hd, h⟩ := Res.bind_eq_ok.1 h
    cases h
    rw [he] at hd
    simp only [List.tail_cons] at hd
    have hts : ts = (preP ++ [e]) ++ tl := by rw [hpreP, he]; simp
    obtain ⟨preD, hpreD, hne, _, hde⟩ := defaultP_over (by rw [hts] at hT; exact hT.suffix) hd
    generalize hn1 : n.1 = ids at hdP
    cases hdP with
    | @mk t ids' tl' ht _ =>
      refine ⟨((t :: tl') ++ [e]) ++ preD, by rw [hts, hpreD]; simp, by simp, ?_, ?_⟩
      · simp only [posItem, posPath]; rfl
      · rw [Query.lastEnd_append hne]; exact hde
  · rw [if_neg h1] at h; cases h

/-- the body of an UPDATE -/
theorem updateP_over {len f pos : Nat} {ts rest : List Token} {s : PStmt} (hT : TokensOK len ts)
    (h : parseUpdate parsePExpr f pos ts = .ok (s, rest)) :
    posD s = pos ∧ ∃ pre, ts = pre ++ rest ∧ pre ≠ [] ∧ endD s = lastEnd pre := by
  unfold parseUpdate at h
  obtain ⟨n, hn, h⟩ := Res.bind_eq_ok.1 h
  obtain ⟨preP, hpreP, _⟩ := parseIdentOrPath_sound hn
  by_cases hh : hintAhead n.2 = true
  · rw [if_pos hh] at h; cases h
  · rw [if_neg hh] at h
    obtain ⟨a, ha, h⟩ := Res.bind_eq_ok.1 h
    obtain ⟨preA, hpreA, _⟩ := tryParseAsAlias_sound ha
    by_cases hs : kd a.2 = K "SET"
    · rw [if_pos hs] at h
      obtain ⟨st, tl, hst, _⟩ := kd_split hs
      obtain ⟨us, hus, h⟩ := Res.bind_eq_ok.1 h
      rw [hst] at hus
      simp only [List.tail_cons] at hus
      have hue := itemsLoop_nat erase_H f tl
      rw [hus] at hue
      simp only [Res.map, lift] at hue
      obtain ⟨preU, hpreU, _⟩ := itemsLoop_sound f hue
      obtain ⟨w, hw, h⟩ := Res.bind_eq_ok.1 h
      have hts : ts = (preP ++ (preA ++ st :: preU)) ++ us.2 := by rw [hpreP, hpreA, hst, hpreU]; simp
      obtain ⟨preW, hpreW, hne, _, hwe⟩ := whereP_over (by rw [hts] at hT; exact hT.suffix) hw
      obtain ⟨u, _, h⟩ := Res.bind_eq_ok.1 h
      cases h
      refine ⟨rfl, (preP ++ (preA ++ st :: preU)) ++ preW, by rw [hts, hpreW]; simp, by simp [hne], ?_⟩
      rw [Query.lastEnd_append hne]
      exact hwe
    · rw [if_neg hs] at h; cases h

/-- the three statements: `Pos()` is the `pos` of the keyword token, `End()` the `end` of the last consumed token -/
theorem stmtP_over {len f : Nat} {ts rest : List Token} {s : PStmt} (hT : TokensOK len ts)
    (h : parseDMLInternal parsePExpr f ts = .ok (s, rest)) :
    ∃ pre, ts = pre ++ rest ∧ Over (posD s) (endD s) pre := by
  unfold parseDMLInternal at h
  by_cases h0 : cur ts = .ident
  · rw [if_pos h0] at h
    obtain ⟨k, tl, rfl, _⟩ := cur_split h0 (by decide)
    simp only [List.tail_cons, hd_cons] at h
    have hT' : TokensOK len tl := hT.suffix (pre := [k])
    have fin : ∀ {s : PStmt} {rest : List Token}, (posD s = k.pos ∧ ∃ pre, tl = pre ++ rest ∧ pre ≠ [] ∧ endD s = lastEnd pre) →
        ∃ pre, k :: tl = pre ++ rest ∧ Over (posD s) (endD s) pre := by
      rintro s rest ⟨hp, pre, hts, hne, he⟩
      exact ⟨k :: pre, by simp [hts], by simp, hp, by rw [lastEnd_cons hne]; exact he⟩
    by_cases h1 : kwLike "INSERT" (k :: tl) = true
    · rw [if_pos h1] at h; exact fin (insertP_over hT' h)
    · rw [if_neg h1] at h
      by_cases h2 : kwLike "DELETE" (k :: tl) = true
      · rw [if_pos h2] at h; exact fin (deleteP_over hT' h)
      · rw [if_neg h2] at h
        by_cases h3 : kwLike "UPDATE" (k :: tl) = true
        · rw [if_pos h3] at h; exact fin (updateP_over hT' h)
        · rw [if_neg h3] at h; cases h
  · rw [if_neg h0] at h; cases h

/-! ## the parts of one DELETE statement -/

theorem pathTail_end {ids : List PIdent} {p : List Token} (h : PathTailD ids p) :
    ∀ t : Token, ((identOf t :: ids).getLast?.map (·.nameEnd)).getD 0 = lastEnd (t :: p) := by
  induction h with
  | nil => intro t; rfl
  | @cons d t' ids' ts _ _ _ ih =>
    intro t
    rw [List.getLast?_cons_cons, ih t', Query.lastEnd_cons_cons, Query.lastEnd_cons_cons]

/-- `Path` (`TableName`): from the first identifier to the end of the last -/
theorem pathD_over {ids : List PIdent} {p : List Token} (h : PathD ids p) : Over (posPath ids) (endPath ids) p := by
  cases h with
  | @mk t ids' ts ht htl => exact ⟨by simp, rfl, pathTail_end htl t⟩

theorem deleteP_struct {len f pos : Nat} {ts rest : List Token} {s : PStmt} (hT : TokensOK len ts)
    (h : parseDelete parsePExpr f pos ts = .ok (s, rest)) :
    ∃ (preF preP preA preW : List Token) (tbl : List PIdent) (al : Option AsAlias) (wh : Where PExpr),
      s = .delete pos tbl al wh ∧ ts = preF ++ (preP ++ (preA ++ (preW ++ rest))) ∧
      Over (posPath tbl) (endPath tbl) preP ∧
      ((al = none ∧ preA = []) ∨ ∃ a, al = some a ∧ Over (posAlias a) (endAlias a) preA) ∧
      Over (posWhere wh) (endWhere wh) preW := by
  simp only [parseDelete] at h
  obtain ⟨preF, hpreF, _⟩ := opt_sound "FROM" ts
  obtain ⟨n, hn, h⟩ := Res.bind_eq_ok.1 h
  obtain ⟨preP, hpreP, hdP⟩ := parseIdentOrPath_sound hn
  by_cases hh : hintAhead n.2 = true
  · rw [if_pos hh] at h; cases h
  · rw [if_neg hh] at h
    obtain ⟨a, ha, h⟩ := Res.bind_eq_ok.1 h
    obtain ⟨preA, hpreA, hdA⟩ := tryParseAsAlias_sound ha
    obtain ⟨w, hw, h⟩ := Res.bind_eq_ok.1 h
    have hts : ts = (preF ++ (preP ++ preA)) ++ a.2 := by rw [hpreF, hpreP, hpreA]; simp
    obtain ⟨preW, hpreW, hoW⟩ := whereP_over (by rw [hts] at hT; exact hT.suffix) hw
    obtain ⟨u, _, h⟩ := Res.bind_eq_ok.1 h
    cases h
    refine ⟨preF, preP, preA, preW, n.1, a.1, w.1, rfl, by rw [hts, hpreW]; simp, pathD_over hdP, ?_, hoW⟩
    obtain ⟨a1, a2⟩ := a
    cases a1 with
    | none =>
      left
      refine ⟨rfl, ?_⟩
      generalize hx : (none : Option AsAlias) = x at hdA
      cases hdA with
      | none => rfl
      | as_ _ _ => cases hx
      | bare _ => cases hx
    | some x =>
      right
      obtain ⟨pre', hpre', ho⟩ := aliasP_over ha
      have : pre' = preA := List.append_cancel_right (hpre'.symm.trans hpreA)
      exact ⟨x, rfl, this ▸ ho⟩

/-! ## the parts of one UPDATE statement -/

/-- the elements lie over consecutive runs separated by one token (a comma) -/
inductive RunsOver {α : Type} (posf endf : α → Nat) : List α → List Token → Prop
  | one {x : α} {p : List Token} : Over (posf x) (endf x) p → RunsOver posf endf [x] p
  | cons {x : α} {xs : List α} {p q : List Token} {c : Token} :
      Over (posf x) (endf x) p → RunsOver posf endf xs q → RunsOver posf endf (x :: xs) (p ++ c :: q)

theorem RunsOver.ne {α : Type} {posf endf : α → Nat} {xs : List α} {p : List Token} (h : RunsOver posf endf xs p) : p ≠ [] := by
  cases h with
  | one ho => exact ho.1
  | cons ho _ => simp [ho.1]

/-- `lo ≤ Pos(x₁) < End(x₁) ≤ Pos(x₂) < … ≤ hi` -/
def chainOK {α : Type} (posf endf : α → Nat) : Nat → List α → Nat → Prop
  | lo, [], hi => lo ≤ hi
  | lo, x :: xs, hi => lo ≤ posf x ∧ posf x < endf x ∧ chainOK posf endf (endf x) xs hi

theorem chainOK_lo {α : Type} {posf endf : α → Nat} {lo lo' hi : Nat} (h : lo ≤ lo') :
    ∀ {xs : List α}, chainOK posf endf lo' xs hi → chainOK posf endf lo xs hi
  | [], hc => Nat.le_trans h hc
  | _ :: _, hc => ⟨Nat.le_trans h hc.1, hc.2⟩

/-- on lexer output the elements of consecutive runs are non-empty, ordered and inside the whole run -/
theorem runs_chain {α : Type} {posf endf : α → Nat} {buf : Bytes} {all : List Token} (hl : Lex.lexAll buf = .ok all)
    {xs : List α} {pre : List Token} (h : RunsOver posf endf xs pre) :
    ∀ {l r : List Token}, all = l ++ pre ++ r → r ≠ [] → chainOK posf endf (firstPos pre) xs (lastEnd pre) := by
  induction h with
  | @one x p ho =>
    intro l r hall hr
    have hf := Query.over_facts hl hall hr ho
    exact ⟨Nat.le_of_eq ho.2.1.symm, hf.2.2.1, Nat.le_of_eq ho.2.2⟩
  | @cons x xs p q c ho hq ih =>
    intro l r hall hr
    have hqne := hq.ne
    have hf := Query.over_facts (l := l) (run := p) (r := c :: q ++ r) hl (by rw [hall]; simp) (by simp) ho
    have hih := ih (l := l ++ p ++ [c]) (r := r) (by rw [hall]; simp) hr
    have hord := Query.over_ordered (l := l) (c1 := p) (m := [c]) (c2 := q) (r := r) hl (by rw [hall]; simp) ho
      (⟨hqne, rfl, rfl⟩ : Over (firstPos q) (lastEnd q) q)
    refine ⟨?_, hf.2.2.1, ?_⟩
    · rw [Query.firstPos_append ho.1]; exact Nat.le_of_eq ho.2.1.symm
    · have e : p ++ c :: q = (p ++ [c]) ++ q := by simp
      rw [e, Query.lastEnd_append hqne]
      exact chainOK_lo hord hih

theorem itemsP_over {len : Nat} : ∀ (f : Nat) {ts rest : List Token} {us : List (UpdateItem PExpr)}, TokensOK len ts →
    itemsLoop parsePExpr f ts = .ok (us, rest) → ∃ pre, ts = pre ++ rest ∧ RunsOver posItem endItem us pre
  | 0, _, _, _, _, h => by simp [itemsLoop] at h
  | f + 1, ts, rest, us, hT, h => by
    rw [itemsLoop.eq_2] at h
    obtain ⟨p, hp, h⟩ := Res.bind_eq_ok.1 h
    obtain ⟨pre, hpre, ho⟩ := itemP_over hT hp
    by_cases h1 : cur p.2 = .comma
    · rw [if_pos h1] at h
      obtain ⟨c, tl, hc, _⟩ := cur_split h1 (by decide)
      obtain ⟨q, hq, h⟩ := Res.bind_eq_ok.1 h
      cases h
      rw [hc] at hq
      simp only [List.tail_cons] at hq
      have hts : ts = (pre ++ [c]) ++ tl := by rw [hpre, hc]; simp
      obtain ⟨pre2, hpre2, ho2⟩ := itemsP_over f (by rw [hts] at hT; exact hT.suffix) hq
      exact ⟨pre ++ c :: pre2, by rw [hts, hpre2]; simp, .cons ho ho2⟩
    · rw [if_neg h1] at h
      cases h
      exact ⟨pre, hpre, .one ho⟩

theorem updateP_struct {len f pos : Nat} {ts rest : List Token} {s : PStmt} (hT : TokensOK len ts)
    (h : parseUpdate parsePExpr f pos ts = .ok (s, rest)) :
    ∃ (preP preA preU preW : List Token) (st : Token) (tbl : List PIdent) (al : Option AsAlias)
      (us : List (UpdateItem PExpr)) (wh : Where PExpr),
      s = .update pos tbl al us wh ∧ ts = preP ++ (preA ++ (st :: (preU ++ (preW ++ rest)))) ∧
      Over (posPath tbl) (endPath tbl) preP ∧
      ((al = none ∧ preA = []) ∨ ∃ a, al = some a ∧ Over (posAlias a) (endAlias a) preA) ∧
      RunsOver posItem endItem us preU ∧ Over (posWhere wh) (endWhere wh) preW := by
  unfold parseUpdate at h
  obtain ⟨n, hn, h⟩ := Res.bind_eq_ok.1 h
  obtain ⟨preP, hpreP, hdP⟩ := parseIdentOrPath_sound hn
  by_cases hh : hintAhead n.2 = true
  · rw [if_pos hh] at h; cases h
  · rw [if_neg hh] at h
    obtain ⟨a, ha, h⟩ := Res.bind_eq_ok.1 h
    obtain ⟨preA, hpreA, hdA⟩ := tryParseAsAlias_sound ha
    by_cases hs : kd a.2 = K "SET"
    · rw [if_pos hs] at h
      obtain ⟨st, tl, hst, _⟩ := kd_split hs
      obtain ⟨us, hus, h⟩ := Res.bind_eq_ok.1 h
      rw [hst] at hus
      simp only [List.tail_cons] at hus
      have hts0 : ts = (preP ++ (preA ++ [st])) ++ tl := by rw [hpreP, hpreA, hst]; simp
      obtain ⟨preU, hpreU, hoU⟩ := itemsP_over f (by rw [hts0] at hT; exact hT.suffix) hus
      obtain ⟨w, hw, h⟩ := Res.bind_eq_ok.1 h
      have hts : ts = (preP ++ (preA ++ st :: preU)) ++ us.2 := by rw [hts0, hpreU]; simp
      obtain ⟨preW, hpreW, hoW⟩ := whereP_over (by rw [hts] at hT; exact hT.suffix) hw
      obtain ⟨u, _, h⟩ := Res.bind_eq_ok.1 h
      cases h
      refine ⟨preP, preA, preU, preW, st, n.1, a.1, us.1, w.1, rfl, by rw [hts, hpreW]; simp, pathD_over hdP, ?_, hoU, hoW⟩
      obtain ⟨a1, a2⟩ := a
      cases a1 with
      | none =>
        left
        refine ⟨rfl, ?_⟩
        generalize hx : (none : Option AsAlias) = x at hdA
        cases hdA with
        | none => rfl
        | as_ _ _ => cases hx
        | bare _ => cases hx
      | some x =>
        right
        obtain ⟨pre', hpre', ho⟩ := aliasP_over ha
        have : pre' = preA := List.append_cancel_right (hpre'.symm.trans hpreA)
        exact ⟨x, rfl, this ▸ ho⟩
    · rw [if_neg hs] at h; cases h

/-! ## the parts of one INSERT statement -/

theorem rowsP_over {len : Nat} : ∀ (f : Nat) {ts rest : List Token} {rs : List (ValuesRow PExpr)}, TokensOK len ts →
    rowsLoop parsePExpr f ts = .ok (rs, rest) → ∃ pre, ts = pre ++ rest ∧ RunsOver posRow endRow rs pre
  | 0, _, _, _, _, h => by simp [rowsLoop] at h
  | f + 1, ts, rest, rs, hT, h => by
    rw [rowsLoop.eq_2] at h
    obtain ⟨p, hp, h⟩ := Res.bind_eq_ok.1 h
    obtain ⟨pre, hpre, ho⟩ := rowP_over hT hp
    by_cases h1 : cur p.2 = .comma
    · rw [if_pos h1] at h
      obtain ⟨c, tl, hc, _⟩ := cur_split h1 (by decide)
      obtain ⟨q, hq, h⟩ := Res.bind_eq_ok.1 h
      cases h
      rw [hc] at hq
      simp only [List.tail_cons] at hq
      have hts : ts = (pre ++ [c]) ++ tl := by rw [hpre, hc]; simp
      obtain ⟨pre2, hpre2, ho2⟩ := rowsP_over f (by rw [hts] at hT; exact hT.suffix) hq
      exact ⟨pre ++ c :: pre2, by rw [hts, hpre2]; simp, .cons ho ho2⟩
    · rw [if_neg h1] at h
      cases h
      exact ⟨pre, hpre, .one ho⟩

theorem insertP_struct {len f pos : Nat} {ts rest : List Token} {s : PStmt} (hT : TokensOK len ts)
    (h : parseInsert parsePExpr f pos ts = .ok (s, rest)) :
    ∃ (pre0 preP preC preR : List Token) (v : Token) (ot : InsertOrType) (tbl cs : List PIdent)
      (rs : List (ValuesRow PExpr)),
      s = .insert pos ot tbl cs ⟨v.pos, rs⟩ ∧ ts = pre0 ++ (preP ++ (preC ++ (v :: (preR ++ rest)))) ∧
      Over (posPath tbl) (endPath tbl) preP ∧ preC ≠ [] ∧ RunsOver posRow endRow rs preR := by
  unfold parseInsert at h
  obtain ⟨o, ho, h⟩ := Res.bind_eq_ok.1 h
  obtain ⟨preO, hpreO, _⟩ := parseInsertOr_sound ho
  obtain ⟨preI, hpreI, _⟩ := opt_sound "INTO" o.2
  simp only at h
  obtain ⟨n, hn, h⟩ := Res.bind_eq_ok.1 h
  obtain ⟨preP, hpreP, hdP⟩ := parseIdentOrPath_sound hn
  by_cases hh : hintAhead n.2 = true
  · rw [if_pos hh] at h; cases h
  · rw [if_neg hh] at h
    obtain ⟨c, hc, h⟩ := Res.bind_eq_ok.1 h
    obtain ⟨preC, hpreC, hdC⟩ := parseColumns_sound hc
    by_cases hv : kwLike "VALUES" c.2 = true
    · rw [if_pos hv] at h
      obtain ⟨vi, hv2, h⟩ := Res.bind_eq_ok.1 h
      obtain ⟨u, _, h⟩ := Res.bind_eq_ok.1 h
      cases h
      unfold parseValuesInput at hv2
      rw [if_pos hv] at hv2
      obtain ⟨v, tl, hvt, _⟩ := kwLike_split hv
      obtain ⟨q, hq, hv2⟩ := Res.bind_eq_ok.1 hv2
      cases hv2
      rw [hvt] at hq
      simp only [List.tail_cons] at hq
      have hts : ts = ((preO ++ preI) ++ (preP ++ (preC ++ [v]))) ++ tl := by rw [hpreO, hpreI, hpreP, hpreC, hvt]; simp
      obtain ⟨preR, hpreR, hoR⟩ := rowsP_over f (by rw [hts] at hT; exact hT.suffix) hq
      refine ⟨preO ++ preI, preP, preC, preR, v, o.1, n.1, c.1, q.1, ?_, by rw [hts, hpreR]; simp, pathD_over hdP, ?_, hoR⟩
      · rw [hvt]; rfl
      · generalize c.1 = ids at hdC
        cases hdC <;> simp
    · rw [if_neg hv] at h
      split at h <;> cases h

end MF.DML
