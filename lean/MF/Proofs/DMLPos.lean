/-
  MF.Proofs.DMLPos — `Pos()` / `End()` of the statement-level DML nodes lie exactly over the run of tokens the
  node-building call consumed (`MF.Query.Over`), for the positioned instantiation of the DML model (`parsePExpr`), on
  any suffix of a token list with the lexer's token facts (`MF.Query.TokensOK`: C05 facts for expressions + `TokLen`).
-/
import MF.Proofs.QueryPos
import MF.Proofs.DMLSound
import MF.Proofs.DMLErase
namespace MF.DML
open MF MF.Expr
open MF.Query (Over firstPos lastEnd TokensOK)

theorem tk_rparen {k : TokKind} (h : tk k = .rparen) : k = K ")" := by
  cases k with
  | sym s =>
    obtain ⟨p, hp, hs, hc⟩ := symTK_of_find (show symTK s = .rparen from h) (by decide)
    have : ∀ p ∈ symTable, p.2 = TK.rparen → p.1 = ")" := by decide
    rw [← hs, this p hp hc]; rfl
  | _ => cases h

theorem rparen_end {t : Token} (hl : Lex.TokLen t) (h : tk t.kind = .rparen) : t.end = t.pos + 1 := by
  have := hl.1 (B ")") (tk_rparen h)
  have e : (B ")").length = 1 := by decide
  rw [e] at this; exact this

theorem default_end {t : Token} (hl : Lex.TokLen t) (h : t.kind = K "DEFAULT") : t.end = t.pos + 7 := by
  have := hl.1 (B "DEFAULT") h
  have e : (B "DEFAULT").length = 7 := by decide
  rw [e] at this; exact this

theorem lastEnd_cons {t : Token} {l : List Token} (h : l ≠ []) : lastEnd (t :: l) = lastEnd l :=
  Query.lastEnd_append (a := [t]) h

/-- `DefaultExpr` -/
theorem defaultP_over {len f : Nat} {ts rest : List Token} {d : DefaultExpr PExpr} (hT : TokensOK len ts)
    (h : parseDefaultExpr parsePExpr f ts = .ok (d, rest)) :
    ∃ pre, ts = pre ++ rest ∧ Over (posDefault d) (endDefault d) pre := by
  unfold parseDefaultExpr at h
  by_cases h1 : kd ts = K "DEFAULT"
  · rw [if_pos h1] at h
    obtain ⟨t, tl, rfl, ht⟩ := kd_split h1
    cases h
    refine ⟨[t], by simp, by simp, rfl, ?_⟩
    simp only [endDefault, hd_cons, Query.lastEnd_single]
    exact (default_end (hT.tl t (by simp)) ht).symm
  · rw [if_neg h1] at h
    obtain ⟨p, hp, h⟩ := Res.bind_eq_ok.1 h
    cases h
    exact Query.parsePExpr_over hT hp

/-- `Where` -/
theorem whereP_over {len f : Nat} {ts rest : List Token} {w : Where PExpr} (hT : TokensOK len ts)
    (h : parseWhere parsePExpr f ts = .ok (w, rest)) :
    ∃ pre, ts = pre ++ rest ∧ Over (posWhere w) (endWhere w) pre := by
  unfold parseWhere at h
  by_cases h1 : kd ts = K "WHERE"
  · rw [if_pos h1] at h
    obtain ⟨t, tl, rfl, ht⟩ := kd_split h1
    obtain ⟨p, hp, h⟩ := Res.bind_eq_ok.1 h
    cases h
    simp only [List.tail_cons] at hp
    obtain ⟨pre, hpre, ho⟩ := Query.parsePExpr_over (hT.suffix (pre := [t])) hp
    exact ⟨t :: pre, by simp [hpre], Query.Over.cons_left t ho⟩
  · rw [if_neg h1] at h; cases h

/-- `AsAlias` -/
theorem aliasP_over {ts rest : List Token} {a : AsAlias} (h : tryParseAsAlias ts = .ok (some a, rest)) :
    ∃ pre, ts = pre ++ rest ∧ Over (posAlias a) (endAlias a) pre := by
  obtain ⟨pre, hts, hd⟩ := tryParseAsAlias_sound h
  generalize hx : some a = x at hd
  cases hd with
  | none => cases hx
  | @as_ k t hk ht =>
    cases hx
    exact ⟨[k, t], hts, by simp, rfl, rfl⟩
  | @bare t ht =>
    cases hx
    exact ⟨[t], hts, by simp, rfl, rfl⟩

/-- a row derivation starts at `Lparen` and ends at `Rparen + 1` -/
theorem rowD_span {r : ValuesRow Expr} {p : List Token} (h : RowD r p) (hl : ∀ t ∈ p, Lex.TokLen t) :
    p ≠ [] ∧ r.lparen = firstPos p ∧ r.rparen + 1 = lastEnd p := by
  cases h with
  | @empty l rp hlp hrp =>
    refine ⟨by simp, rfl, ?_⟩
    show rp.pos + 1 = rp.end
    exact (rparen_end (hl rp (by simp)) hrp).symm
  | @list l rp ds ts hlp hd hrp =>
    refine ⟨by simp, rfl, ?_⟩
    have e : l :: ts ++ [rp] = (l :: ts) ++ [rp] := rfl
    rw [e, Query.lastEnd_append (by simp), Query.lastEnd_single]
    exact (rparen_end (hl rp (by simp)) hrp).symm

/-- `ValuesRow` -/
theorem rowP_over {len f : Nat} {ts rest : List Token} {r : ValuesRow PExpr} (hT : TokensOK len ts)
    (h : parseValuesRow parsePExpr f ts = .ok (r, rest)) :
    ∃ pre, ts = pre ++ rest ∧ Over (posRow r) (endRow r) pre := by
  have he := parseValuesRow_nat erase_H f ts
  rw [h] at he
  simp only [Res.map, lift] at he
  obtain ⟨pre, hts, hd⟩ := parseValuesRow_sound he
  have hl : ∀ t ∈ pre, Lex.TokLen t := fun t ht => hT.tl t (by rw [hts]; simp [ht])
  obtain ⟨hne, h1, h2⟩ := rowD_span hd hl
  exact ⟨pre, hts, hne, h1, h2⟩

theorem rowsD_span {rs : List (ValuesRow Expr)} {p : List Token} (h : RowsD rs p) (hl : ∀ t ∈ p, Lex.TokLen t) :
    p ≠ [] ∧ (rs.getLast?.map (fun r => r.rparen + 1)).getD 0 = lastEnd p := by
  induction h with
  | one hd =>
    obtain ⟨hne, _, h2⟩ := rowD_span hd hl
    exact ⟨hne, by simpa using h2⟩
  | @cons r ts c rs us hd hc hrs ih =>
    obtain ⟨hne, h2⟩ := ih (fun t ht => hl t (by simp [ht]))
    refine ⟨by simp, ?_⟩
    have e : ts ++ c :: us = (ts ++ [c]) ++ us := by simp
    rw [e, Query.lastEnd_append hne, ← h2]
    cases hrs with
    | one _ => simp
    | cons _ _ _ => simp

/-- `ValuesInput` -/
theorem inputP_over {len f : Nat} {ts rest : List Token} {v : ValuesInput PExpr} (hT : TokensOK len ts)
    (h : parseValuesInput parsePExpr f ts = .ok (v, rest)) :
    ∃ pre, ts = pre ++ rest ∧ Over (posInput v) (endInput v) pre := by
  have he := parseValuesInput_nat erase_H f ts
  rw [h] at he
  simp only [Res.map, lift] at he
  obtain ⟨t, pre, hts, _, rs, hv, hd⟩ := parseValuesInput_sound he
  have hl : ∀ x ∈ pre, Lex.TokLen x := fun x hx => hT.tl x (by rw [hts]; simp [hx])
  obtain ⟨hne, h2⟩ := rowsD_span hd hl
  refine ⟨t :: pre, by simp [hts], by simp, ?_, ?_⟩
  · have := congrArg ValuesInput.values hv
    exact this
  · rw [lastEnd_cons hne, ← h2]
    have hr := congrArg ValuesInput.rows hv
    simp only [ValuesInput.map] at hr
    rw [← hr]
    simp only [endInput, List.getLast?_map, Option.map_map]
    rfl

/-- the body of a DELETE: `End()` of the statement is the end of the last consumed token -/
theorem deleteP_over {len f pos : Nat} {ts rest : List Token} {s : PStmt} (hT : TokensOK len ts)
    (h : parseDelete parsePExpr f pos ts = .ok (s, rest)) :
    posD s = pos ∧ ∃ pre, ts = pre ++ rest ∧ pre ≠ [] ∧ endD s = lastEnd pre := by
  simp only [parseDelete] at h
  obtain ⟨preF, hpreF, _⟩ := opt_sound "FROM" ts
  obtain ⟨n, hn, h⟩ := Res.bind_eq_ok.1 h
  obtain ⟨preP, hpreP, _⟩ := parseIdentOrPath_sound hn
  by_cases hh : hintAhead n.2 = true
  · rw [if_pos hh] at h; cases h
  · rw [if_neg hh] at h
    obtain ⟨a, ha, h⟩ := Res.bind_eq_ok.1 h
    obtain ⟨preA, hpreA, _⟩ := tryParseAsAlias_sound ha
    obtain ⟨w, hw, h⟩ := Res.bind_eq_ok.1 h
    have hts : ts = (preF ++ (preP ++ preA)) ++ a.2 := by rw [hpreF, hpreP, hpreA]; simp
    obtain ⟨preW, hpreW, hne, _, hwe⟩ := whereP_over (by rw [hts] at hT; exact hT.suffix) hw
    obtain ⟨u, _, h⟩ := Res.bind_eq_ok.1 h
    cases h
    refine ⟨rfl, (preF ++ (preP ++ preA)) ++ preW, by rw [hts, hpreW]; simp, by simp [hne], ?_⟩
    rw [Query.lastEnd_append hne]
    exact hwe

/-- the body of an INSERT -/
theorem insertP_over {len f pos : Nat} {ts rest : List Token} {s : PStmt} (hT : TokensOK len ts)
    (h : parseInsert parsePExpr f pos ts = .ok (s, rest)) :
    posD s = pos ∧ ∃ pre, ts = pre ++ rest ∧ pre ≠ [] ∧ endD s = lastEnd pre := by
  unfold parseInsert at h
  obtain ⟨o, ho, h⟩ := Res.bind_eq_ok.1 h
  obtain ⟨preO, hpreO, _⟩ := parseInsertOr_sound ho
  obtain ⟨preI, hpreI, _⟩ := opt_sound "INTO" o.2
  simp only at h
  obtain ⟨n, hn, h⟩ := Res.bind_eq_ok.1 h
  obtain ⟨preP, hpreP, _⟩ := parseIdentOrPath_sound hn
  by_cases hh : hintAhead n.2 = true
  · rw [if_pos hh] at h; cases h
  · rw [if_neg hh] at h
    obtain ⟨c, hc, h⟩ := Res.bind_eq_ok.1 h
    obtain ⟨preC, hpreC, _⟩ := parseColumns_sound hc
    by_cases hv : kwLike "VALUES" c.2 = true
    · rw [if_pos hv] at h
      obtain ⟨v, hv2, h⟩ := Res.bind_eq_ok.1 h
      obtain ⟨u, _, h⟩ := Res.bind_eq_ok.1 h
      cases h
      have hts : ts = (preO ++ (preI ++ (preP ++ preC))) ++ c.2 := by rw [hpreO, hpreI, hpreP, hpreC]; simp
      obtain ⟨preV, hpreV, hne, _, hve⟩ := inputP_over (by rw [hts] at hT; exact hT.suffix) hv2
      refine ⟨rfl, (preO ++ (preI ++ (preP ++ preC))) ++ preV, by rw [hts, hpreV]; simp, by simp [hne], ?_⟩
      rw [Query.lastEnd_append hne]
      exact hve
    · rw [if_neg hv] at h
      split at h <;> cases h

/-- `UpdateItem` -/
theorem itemP_over {len f : Nat} {ts rest : List Token} {u : UpdateItem PExpr} (hT : TokensOK len ts)
    (h : parseUpdateItem parsePExpr f ts = .ok (u, rest)) :
    ∃ pre, ts = pre ++ rest ∧ Over (posItem u) (endItem u) pre := by
  unfold parseUpdateItem at h
  obtain ⟨n, hn, h⟩ := Res.bind_eq_ok.1 h
  obtain ⟨preP, hpreP, hdP⟩ := parseIdentOrPath_sound hn
  by_cases h1 : cur n.2 = .eq
  · rw [if_pos h1] at h
    obtain ⟨e, tl, he, _⟩ := cur_split h1 (by decide)
    obtain ⟨d, hd, h⟩ := Res.bind_eq_ok.1 h
    cases h
    rw [he] at hd
    simp only [List.tail_cons] at hd
    have hts : ts = (preP ++ [e]) ++ tl := by rw [hpreP, he]; simp
    obtain ⟨preD, hpreD, hne, _, hde⟩ := defaultP_over (by rw [hts] at hT; exact hT.suffix) hd
    generalize hn1 : n.1 = ids at hdP
    cases hdP with
    | @mk t ids' tl' ht _ =>
      refine ⟨((t :: tl') ++ [e]) ++ preD, by rw [hts, hpreD]; simp, by simp, ?_, ?_⟩
      · simp only [posItem, posPath]; rfl
      · rw [Query.lastEnd_append hne]; exact hde
  · rw [if_neg h1] at h; cases h

/-- the body of an UPDATE -/
theorem updateP_over {len f pos : Nat} {ts rest : List Token} {s : PStmt} (hT : TokensOK len ts)
    (h : parseUpdate parsePExpr f pos ts = .ok (s, rest)) :
    posD s = pos ∧ ∃ pre, ts = pre ++ rest ∧ pre ≠ [] ∧ endD s = lastEnd pre := by
  unfold parseUpdate at h
  obtain ⟨n, hn, h⟩ := Res.bind_eq_ok.1 h
  obtain ⟨preP, hpreP, _⟩ := parseIdentOrPath_sound hn
  by_cases hh : hintAhead n.2 = true
  · rw [if_pos hh] at h; cases h
  · rw [if_neg hh] at h
    obtain ⟨a, ha, h⟩ := Res.bind_eq_ok.1 h
    obtain ⟨preA, hpreA, _⟩ := tryParseAsAlias_sound ha
    by_cases hs : kd a.2 = K "SET"
    · rw [if_pos hs] at h
      obtain ⟨st, tl, hst, _⟩ := kd_split hs
      obtain ⟨us, hus, h⟩ := Res.bind_eq_ok.1 h
      rw [hst] at hus
      simp only [List.tail_cons] at hus
      have hue := itemsLoop_nat erase_H f tl
      rw [hus] at hue
      simp only [Res.map, lift] at hue
      obtain ⟨preU, hpreU, _⟩ := itemsLoop_sound f hue
      obtain ⟨w, hw, h⟩ := Res.bind_eq_ok.1 h
      have hts : ts = (preP ++ (preA ++ st :: preU)) ++ us.2 := by rw [hpreP, hpreA, hst, hpreU]; simp
      obtain ⟨preW, hpreW, hne, _, hwe⟩ := whereP_over (by rw [hts] at hT; exact hT.suffix) hw
      obtain ⟨u, _, h⟩ := Res.bind_eq_ok.1 h
      cases h
      refine ⟨rfl, (preP ++ (preA ++ st :: preU)) ++ preW, by rw [hts, hpreW]; simp, by simp [hne], ?_⟩
      rw [Query.lastEnd_append hne]
      exact hwe
    · rw [if_neg hs] at h; cases h

/-- the three statements: `Pos()` is the `pos` of the keyword token, `End()` the `end` of the last consumed token -/
theorem stmtP_over {len f : Nat} {ts rest : List Token} {s : PStmt} (hT : TokensOK len ts)
    (h : parseDMLInternal parsePExpr f ts = .ok (s, rest)) :
    ∃ pre, ts = pre ++ rest ∧ Over (posD s) (endD s) pre := by
  unfold parseDMLInternal at h
  by_cases h0 : cur ts = .ident
  · rw [if_pos h0] at h
    obtain ⟨k, tl, rfl, _⟩ := cur_split h0 (by decide)
    simp only [List.tail_cons, hd_cons] at h
    have hT' : TokensOK len tl := hT.suffix (pre := [k])
    have fin : ∀ {s : PStmt} {rest : List Token}, (posD s = k.pos ∧ ∃ pre, tl = pre ++ rest ∧ pre ≠ [] ∧ endD s = lastEnd pre) →
        ∃ pre, k :: tl = pre ++ rest ∧ Over (posD s) (endD s) pre := by
      rintro s rest ⟨hp, pre, hts, hne, he⟩
      exact ⟨k :: pre, by simp [hts], by simp, hp, by rw [lastEnd_cons hne]; exact he⟩
    by_cases h1 : kwLike "INSERT" (k :: tl) = true
    · rw [if_pos h1] at h; exact fin (insertP_over hT' h)
    · rw [if_neg h1] at h
      by_cases h2 : kwLike "DELETE" (k :: tl) = true
      · rw [if_pos h2] at h; exact fin (deleteP_over hT' h)
      · rw [if_neg h2] at h
        by_cases h3 : kwLike "UPDATE" (k :: tl) = true
        · rw [if_pos h3] at h; exact fin (updateP_over hT' h)
        · rw [if_neg h3] at h; cases h
  · rw [if_neg h0] at h; cases h

end MF.DML
