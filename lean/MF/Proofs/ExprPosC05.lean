/-
  MF.Proofs.ExprPosC05 — assembly of C05 for the expression fragment: from `lexAll buf = ok ts` and
  `parsePTop fuel ts = ok e` to the token alignment, range, nesting and order of every Go node of `e`.
-/
import MF.Proofs.ExprPosNodes
import MF.Proofs.ExprSound
namespace MF.Expr

/-! ## from index ranges to byte positions -/

theorem Chain.pairwise {lo hi : Nat} {idx : List (Nat × Nat)} (h : Chain lo hi idx) :
    idx.Pairwise (fun x y => x.1 < x.2 ∧ x.2 ≤ y.1 ∧ y.1 < y.2 ∧ y.2 ≤ hi) := by
  induction idx generalizing lo with
  | nil => exact List.Pairwise.nil
  | cons ab rest ih =>
    obtain ⟨_, a2, a3⟩ := h
    refine List.Pairwise.cons ?_ (ih a3)
    intro y hy
    have := a3.mem y hy
    exact ⟨a2, this.1, this.2.1, this.2.2⟩

/-- what a node aligned with the tokens of lexer output satisfies, in byte positions -/
theorem NodeIn.facts {all : List Token} {len lo hi : Nat} {n : NodeInfo} (L : Lexed all len) (h : NodeIn all lo hi n)
    (hhi : hi < all.length) :
    n.pos < n.end ∧ n.end ≤ len ∧ (∀ k ∈ n.kids, n.pos ≤ k.1 ∧ k.1 < k.2 ∧ k.2 ≤ n.end) ∧
      n.kids.Pairwise (fun k1 k2 => k1.2 ≤ k2.1) := by
  obtain ⟨a, b, _, hab, hb, hp, he, idx, hk, hc⟩ := h
  refine ⟨?_, ?_, ?_, ?_⟩
  · rw [hp, he]; exact L.pos_lt_end (by omega) (by omega)
  · rw [he]; exact L.end_le (by omega)
  · intro k hkm
    rw [hk] at hkm
    obtain ⟨ab, hab', rfl⟩ := List.mem_map.mp hkm
    have := hc.mem ab hab'
    rw [hp, he]
    exact ⟨L.pos_le_pos this.1 (by omega), L.pos_lt_end (by omega) (by omega), L.end_le_end (by omega) (by omega)⟩
  · rw [hk, List.pairwise_map]
    refine hc.pairwise.imp ?_
    intro x y hxy
    exact L.sorted _ _ (by omega) (by omega)

/-! ## no `<eof>` among the tokens of a yield -/

theorem Pre.ne_eof {all : List Token} {i : Nat} {ys : List Tok'} (h : Pre all i ys) (hne : NE ys) :
    ∀ k, k < ys.length → tk (tokAt all (i + k)).kind ≠ .eof := by
  induction ys generalizing i with
  | nil => intro k hk; simp at hk
  | cons y ys ih =>
    obtain ⟨h1, h2⟩ := Pre_cons.mp h
    obtain ⟨hy, hys⟩ := NE_cons.mp hne
    intro k hk
    cases k with
    | zero =>
      have : TokIs all i y := h1
      rw [Nat.add_zero, this.tk]; exact hy
    | succ k =>
      have := ih h2 hys k (by simpa using hk)
      rwa [show i + (k + 1) = i + 1 + k by omega]

/-! ## the parse of a whole lexed input -/

/-- everything the later proofs need about a successful `parsePTop` on lexer output -/
structure TopFacts (buf : Bytes) (ts : List Token) (e : PExpr) : Prop where
  lexed : Lexed ts buf.length
  placed : placeG (pe ts) (erase e) 0 = (e, ntok (erase e))
  pre : Pre ts 0 (yield (erase e))
  prec : PrecOK (erase e)
  nf : NF (erase e)
  /-- the token after the expression exists and is `<eof>` -/
  lt : ntok (erase e) < ts.length
  eof : cur (ts.drop (ntok (erase e))) = .eof
  ok : PlaceOK ts (erase e) 0

theorem top_facts {buf : Bytes} {ts : List Token} {fuel : Nat} {e : PExpr} (hl : Lex.lexAll buf = .ok ts)
    (hp : parsePTop fuel ts = .ok e) : TopFacts buf ts e := by
  have L := lexAll_lexed hl
  unfold parsePTop at hp
  obtain ⟨⟨e', rest⟩, hpe, h2⟩ := Res.bind_eq_ok.mp hp
  have heof : cur rest = .eof ∧ e' = e := by
    simp only at h2
    split at h2
    · rename_i hc; simp only [Res.ok.injEq] at h2; exact ⟨hc, h2⟩
    · cases h2
  obtain ⟨hce, rfl⟩ := heof
  obtain ⟨j, hj, hrest⟩ := parsePExpr_placed (all := ts) (i := 0) (by simpa using hpe)
  have hjn : j = ntok (erase e') := by
    have := placeG_snd (pe ts) (erase e') 0
    rw [hj] at this; simpa using this
  subst hjn
  have her := erase_parse hpe
  simp only [Res.map_ok, er_mk] at her
  obtain ⟨⟨pre, hts, hy⟩, hprec, hnf⟩ := parseExpr_sound her
  have hpre : Pre ts 0 (yield (erase e')) := by
    unfold Pre
    rw [List.drop_zero, hts, List.map_append, hy]
    exact List.prefix_append _ _
  have hok := place_ok L.tok (erase e') 0 hpre hnf
  have hlt : ntok (erase e') < ts.length := by
    have hne : yield (erase e') ≠ [] := by
      intro h0; have := hok.npos; simp [ntok, h0] at this
    have hle := hpre.len hne
    rw [yield_length] at hle
    rcases Nat.lt_or_ge (ntok (erase e')) ts.length with h | h
    · exact h
    · exfalso
      have hpos := hok.npos
      have h1 := hpre.ne_eof (yield_NE _) (ntok (erase e') - 1) (by rw [yield_length]; omega)
      exact h1 (L.last _ (by omega))
  exact ⟨L, hj, hpre, hprec, hnf, hlt, hrest ▸ hce, hok⟩

/-- **C05 for the expression fragment** (see MF/Props/C05Expr.lean for the reading) -/
theorem expr_positions_proof {buf : Bytes} {ts : List Token} {fuel : Nat} {e : PExpr} (hl : Lex.lexAll buf = .ok ts)
    (hp : parsePTop fuel ts = .ok e) :
    (posP e = (tokAt ts 0).pos ∧ endP e = (tokAt ts (ntok (erase e) - 1)).end ∧
      tk (tokAt ts (ntok (erase e))).kind = .eof) ∧
    ∀ n ∈ nodesP 0 e,
      (∃ a b, a < b ∧ b ≤ ntok (erase e) ∧ n.pos = (tokAt ts a).pos ∧ n.end = (tokAt ts (b - 1)).end ∧
        ∃ idx, n.kids = idx.map (spanOf ts) ∧ Chain a b idx) ∧
      n.pos < n.end ∧ n.end ≤ buf.length ∧
      (∀ k ∈ n.kids, n.pos ≤ k.1 ∧ k.1 < k.2 ∧ k.2 ≤ n.end) ∧
      n.kids.Pairwise (fun k1 k2 => k1.2 ≤ k2.1) := by
  have F := top_facts hl hp
  have hok := F.ok
  constructor
  · have h1 := hok.pos; have h2 := hok.end_
    rw [F.placed] at h1 h2
    refine ⟨h1, by simpa using h2, ?_⟩
    have hd : ts.drop (ntok (erase e)) = tokAt ts (ntok (erase e)) :: ts.drop (ntok (erase e) + 1) := by
      rw [List.drop_eq_getElem_cons F.lt, tokAt_of_getElem? (List.getElem?_eq_getElem F.lt)]
    have h := F.eof
    rw [hd] at h
    exact h
  · intro n hn
    have hin := hok.nodes 0 n (by rw [F.placed]; exact hn)
    rw [Nat.zero_add] at hin
    refine ⟨?_, NodeIn.facts F.lexed hin F.lt⟩
    obtain ⟨a, b, _, c2, c3, rest⟩ := hin
    exact ⟨a, b, c2, c3, rest⟩

/-- lex and parse with the driver's fuel (for the examples) -/
def parseOf (buf : Bytes) : Option (List Token × PExpr) :=
  match Lex.lexAll buf with
  | .ok ts =>
    match parsePTop (topFuel ts) ts with
    | .ok e => some (ts, e)
    | _ => none
  | _ => none

theorem parseOf_some {buf : Bytes} {ts : List Token} {e : PExpr} (h : parseOf buf = some (ts, e)) :
    Lex.lexAll buf = .ok ts ∧ parsePTop (topFuel ts) ts = .ok e := by
  unfold parseOf at h
  split at h
  · rename_i ts' hl
    split at h
    · rename_i e' hp
      simp only [Option.some.injEq, Prod.mk.injEq] at h
      obtain ⟨rfl, rfl⟩ := h
      exact ⟨hl, hp⟩
    · cases h
  · cases h

end MF.Expr
