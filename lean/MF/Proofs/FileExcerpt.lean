/-
  MF.Proofs.FileExcerpt — C20 clause (4): the excerpt rendered by `File.Position` quotes exactly the lines
  from `pos`'s line to `end`'s line of the text, each verbatim.

  * `splitLines_join`, `splitLines_no_nl`: `splitLines buf` really is the list of lines of `buf`
    (joining them with `\n` gives `buf` back, and no line contains `\n`);
  * `lineBuffer_eq`: `f.Buffer[f.lines[l] : f.lines[l+1]-1]` is the `l`-th line;
  * `position_source_single`, `position_source_multi`: the rendered excerpt.
-/
import MF.Proofs.File
namespace MF.File
open MF.Spec

/-- `strings.Join(ls, "\n")` -/
def joinLines : List Bytes → Bytes
  | [] => []
  | [l] => l
  | l :: l' :: ls => l ++ 10 :: joinLines (l' :: ls)

theorem joinLines_cons_ne {l : Bytes} {ls : List Bytes} (h : ls ≠ []) :
    joinLines (l :: ls) = l ++ 10 :: joinLines ls := by
  cases ls with
  | nil => exact absurd rfl h
  | cons a t => rfl

/-- `splitLines` is a right inverse of joining with newlines: the lines, joined by `\n`, are the text -/
theorem splitLines_join (b : Bytes) : joinLines (splitLines b) = b := by
  induction b with
  | nil => rfl
  | cons c t ih =>
    simp only [splitLines]
    split
    · rename_i hc
      have : c = 10 := by simpa using hc
      subst this
      rw [joinLines_cons_ne (splitLines_ne_nil t), ih]; rfl
    · split
      · rename_i h; exact absurd h (splitLines_ne_nil t)
      · rename_i l ls h
        rw [h] at ih
        cases ls with
        | nil => simp only [joinLines] at ih ⊢; rw [ih]
        | cons a r => simp only [joinLines] at ih ⊢; rw [← ih]; rfl

/-- no line contains a newline byte -/
theorem splitLines_no_nl (b : Bytes) : ∀ l ∈ splitLines b, (10 : UInt8) ∉ l := by
  induction b with
  | nil => simp [splitLines]
  | cons c t ih =>
    simp only [splitLines]
    split
    · intro l hl
      rcases List.mem_cons.1 hl with h | h
      · subst h; simp
      · exact ih l h
    · rename_i hc
      have hc' : ¬ c = 10 := by simpa using hc
      split
      · rename_i h; exact absurd h (splitLines_ne_nil t)
      · rename_i l ls h
        rw [h] at ih
        intro x hx
        rcases List.mem_cons.1 hx with h' | h'
        · subst h'
          intro hm
          rcases List.mem_cons.1 hm with h'' | h''
          · exact hc' h''.symm
          · exact ih l (List.mem_cons_self) h''
        · exact ih x (List.mem_cons_of_mem _ h')

theorem linesAux_length (ls : List Bytes) (cur : Nat) : (linesAux ls cur).length = ls.length := by
  induction ls generalizing cur with
  | nil => rfl
  | cons l t ih => simp only [linesAux, List.length_cons, ih]

/-- `len(f.lines) = len(strings.Split(buf, "\n")) + 1` -/
theorem lines_length (buf : Bytes) : (lines buf).length = (splitLines buf).length + 1 := by
  unfold lines; simp only [List.length_cons, linesAux_length]

theorem splitLines_length (buf : Bytes) : (splitLines buf).length = (lines buf).length - 1 := by
  rw [lines_length]; omega

/-- the line of an in-range position is a line of the text -/
theorem lineCol_line_lt {buf : Bytes} {pos : Nat} (h : pos ≤ buf.length) :
    (lineCol buf pos).1 < (splitLines buf).length := by
  have := line_lt (buf := buf) (pos := pos) h
  rw [lines_length] at this; omega

/-- the offsets table against the joined text: entry `l` is where line `l` starts, entry `l+1` is one past the
newline (or the end of text + 1) that ends it -/
theorem linesAux_get (ls : List Bytes) (cur l : Nat) (ln : Bytes) (hl : ls[l]? = some ln) :
    ∃ a, (cur :: linesAux ls cur)[l]? = some a ∧ (cur :: linesAux ls cur)[l + 1]? = some (a + ln.length + 1) ∧
      cur ≤ a ∧ a - cur + ln.length ≤ (joinLines ls).length ∧
      ∃ rest, (joinLines ls).drop (a - cur) = ln ++ rest := by
  induction ls generalizing cur l with
  | nil => simp at hl
  | cons x xs ih =>
    cases l with
    | zero =>
      simp only [List.getElem?_cons_zero, Option.some.injEq] at hl
      subst hl
      refine ⟨cur, by simp, by simp [linesAux], Nat.le_refl _, ?_⟩
      simp only [Nat.sub_self, List.drop_zero]
      cases xs with
      | nil => exact ⟨by simp [joinLines], [], by simp [joinLines]⟩
      | cons a r => exact ⟨by simp [joinLines], 10 :: joinLines (a :: r), rfl⟩
    | succ k =>
      simp only [List.getElem?_cons_succ] at hl
      obtain ⟨a, h1, h2, h3, h5, rest, h4⟩ := ih (cur + x.length + 1) k hl
      have hne : xs ≠ [] := by
        intro h; subst h; simp at hl
      refine ⟨a, ?_, ?_, by omega, ?_, rest, ?_⟩
      · simpa only [linesAux, List.getElem?_cons_succ] using h1
      · simpa only [linesAux, List.getElem?_cons_succ] using h2
      · rw [joinLines_cons_ne hne]
        simp only [List.length_append, List.length_cons]
        omega
      · rw [joinLines_cons_ne hne]
        have e : a - cur = x.length + ((a - (cur + x.length + 1)) + 1) := by omega
        rw [e, ← List.drop_drop, List.drop_left, List.drop_succ_cons]
        exact h4

/-- C20: the slice `buf[lines[l] : lines[l+1]-1]` is exactly the `l`-th line of `strings.Split(buf, "\n")` -/
theorem lineBuffer_eq' {buf : Bytes} {l : Nat} {ln : Bytes} (h : (splitLines buf)[l]? = some ln) :
    lineBuffer? buf l = some ln := by
  obtain ⟨a, h1, h2, _, h5, rest, h4⟩ := linesAux_get (splitLines buf) 0 l ln h
  rw [splitLines_join, Nat.sub_zero] at h4 h5
  unfold lineBuffer? lines
  simp only [h1, h2]
  have hne : ¬ (a + ln.length + 1 = 0) := by omega
  simp only [hne, if_false, Nat.add_sub_cancel]
  have hlen : a + ln.length ≤ buf.length := h5
  rw [slice?_of_le (by omega) hlen, slice_drop, h4, List.take_left]

theorem lineBuffer_eq {buf : Bytes} {l : Nat} (h : l < (splitLines buf).length) :
    lineBuffer? buf l = some ((splitLines buf).getD l []) := by
  apply lineBuffer_eq'
  rw [List.getD_eq_getElem?_getD, List.getElem?_eq_getElem h]; rfl

/-- the rendering of consecutive lines starting at line number `l`:
`(if l > 0 then "\n" else "") ++ pad3 (l+1) ++ "|  " ++ line`, concatenated -/
def excerptLines : List Bytes → Nat → Bytes
  | [], _ => []
  | ln :: rest, l => (if l > 0 then [10] else []) ++ pad3 (l + 1) ++ B "|  " ++ ln ++ excerptLines rest (l + 1)

theorem multiLine_eq {buf : Bytes} {n l : Nat} (h : l + n ≤ (splitLines buf).length) :
    multiLine buf n l = some (excerptLines (((splitLines buf).drop l).take n) l) := by
  induction n generalizing l with
  | zero => simp [multiLine, excerptLines]
  | succ m ih =>
    have hl : l < (splitLines buf).length := by omega
    simp only [multiLine]
    rw [lineBuffer_eq' (List.getElem?_eq_getElem hl), ih (l := l + 1) (by omega)]
    simp only
    rw [List.drop_eq_getElem_cons hl, List.take_succ_cons]
    simp only [excerptLines]

/-- C20: same-line excerpt: the line of `pos`, verbatim, then a marker line -/
theorem position_source_single (buf : Bytes) (pos «end» : Nat) (h1 : pos ≤ «end») (h2 : «end» ≤ buf.length)
    (hsame : (lineCol buf pos).1 = (lineCol buf «end»).1) :
    ∃ p, position buf pos «end» = some p ∧
      p.source = pad3 ((lineCol buf pos).1 + 1) ++ B "|  " ++ (splitLines buf).getD (lineCol buf pos).1 [] ++ [10] ++
        B "   |  " ++ List.replicate (lineCol buf pos).2 32 ++ [94] ++
        List.replicate ((lineCol buf «end»).2 - (lineCol buf pos).2 - 1) 126 := by
  unfold position
  rw [resolvePos_spec buf pos (by omega), resolvePos_spec buf «end» h2]
  simp only
  have hnn' : (decide ((pos : Int) < 0) || decide ((«end» : Int) < 0)) = false := by simp
  simp only [hnn', Bool.false_eq_true, if_false]
  have hl := lineCol_line_lt (buf := buf) (pos := pos) (by omega)
  have heq : (((lineCol buf pos).1 : Int) == ((lineCol buf «end»).1 : Int)) = true := by
    rw [hsame]; simp
  simp only [heq, if_true, Int.toNat_natCast, lineBuffer_eq hl]
  refine ⟨_, rfl, ?_⟩
  simp only
  have e : (((lineCol buf «end»).2 : Int) - ((lineCol buf pos).2 : Int) - 1).toNat =
      (lineCol buf «end»).2 - (lineCol buf pos).2 - 1 := by omega
  rw [e]

/-- C20: multi-line excerpt: every line from `pos`'s line to `end`'s line, verbatim, in order -/
theorem position_source_multi (buf : Bytes) (pos «end» : Nat) (h1 : pos ≤ «end») (h2 : «end» ≤ buf.length)
    (hlt : (lineCol buf pos).1 < (lineCol buf «end»).1) :
    ∃ p, position buf pos «end» = some p ∧
      p.source = excerptLines
        (((splitLines buf).drop (lineCol buf pos).1).take ((lineCol buf «end»).1 - (lineCol buf pos).1 + 1))
        (lineCol buf pos).1 ∧
      (((splitLines buf).drop (lineCol buf pos).1).take ((lineCol buf «end»).1 - (lineCol buf pos).1 + 1)).length
        = (lineCol buf «end»).1 - (lineCol buf pos).1 + 1 := by
  unfold position
  rw [resolvePos_spec buf pos (by omega), resolvePos_spec buf «end» h2]
  simp only
  have hnn' : (decide ((pos : Int) < 0) || decide ((«end» : Int) < 0)) = false := by simp
  simp only [hnn', Bool.false_eq_true, if_false]
  have hl := lineCol_line_lt (buf := buf) (pos := «end») h2
  have hne : (((lineCol buf pos).1 : Int) == ((lineCol buf «end»).1 : Int)) = false := by
    simp only [beq_eq_false_iff_ne, ne_eq]; omega
  have hlt' : ((lineCol buf pos).1 : Int) < ((lineCol buf «end»).1 : Int) := by omega
  have e : (((lineCol buf «end»).1 : Int) - ((lineCol buf pos).1 : Int) + 1).toNat =
      (lineCol buf «end»).1 - (lineCol buf pos).1 + 1 := by omega
  simp only [hne, Bool.false_eq_true, if_false, hlt', if_true, Int.toNat_natCast, e]
  rw [multiLine_eq (by omega)]
  refine ⟨_, rfl, rfl, ?_⟩
  simp only [List.length_take, List.length_drop]
  omega

/-- the order of position lines never inverts for `pos ≤ end`: so single/multi are the only two cases -/
theorem lineCol_line_mono (buf : Bytes) {p q : Nat} (h : p ≤ q) : (lineCol buf p).1 ≤ (lineCol buf q).1 := by
  rw [lineCol_line, lineCol_line]
  have : buf.take p = (buf.take q).take p := by rw [List.take_take]; congr 1; omega
  rw [this]
  exact (List.take_sublist _ _).count_le _

end MF.File
