/-
  MF.Proofs.TypeExact — C06 for types, parser side: every type node `n` of an accepted type owns a contiguous run
  `m` of the (expanded) tokens, and ANY token list that reads like `m` moved down by `pos n` (same kinds and names,
  positions decreased by `pos n`), followed by `<eof>`, is parsed by `parseTypeTop` to `n` with all positions decreased
  by `pos n`.
-/
import MF.Proofs.TypeComplete
import MF.Proofs.TypeUnique
import MF.Proofs.TypePos
import MF.Spec.TypeShift
namespace MF.TypeP
open MF.TypeG

/-! ## moving tokens and descriptions down -/

/-- `v` is `u` moved down by `d`: same kind and name -/
def CoreShift (d : Nat) (u v : Token) : Prop :=
  v.kind = u.kind ∧ v.asString = u.asString ∧ v.pos = u.pos - d ∧ v.end = u.end - d

def Shifted (d : Nat) : List Token → List Token → Prop
  | [], [] => True
  | u :: us, v :: vs => CoreShift d u v ∧ Shifted d us vs
  | _, _ => False

def shiftY (d : Nat) : YT → YT
  | .simple p n => .simple (p - d) n
  | .ident i => .ident (shiftI d i)
  | .at k p => .at k (p - d)
  | .sym k => .sym k

theorem simpleName?_congr {u v : Token} (hk : v.kind = u.kind) (ha : v.asString = u.asString) :
    simpleName? v = simpleName? u := by
  unfold simpleName? Token.isIdent
  rw [hk, ha]

theorem shiftY_ok {d : Nat} {y : YT} {u v : Token} (hy : y.ok u) (hs : CoreShift d u v) : (shiftY d y).ok v := by
  obtain ⟨hk, ha, hp, he⟩ := hs
  cases y with
  | simple p n =>
    obtain ⟨h1, h2, h3⟩ := hy
    exact ⟨by rw [hk]; exact h1, by rw [hp, h2], by rw [simpleName?_congr hk ha]; exact h3⟩
  | ident i =>
    obtain ⟨h1, h2⟩ := hy
    refine ⟨by rw [hk]; exact h1, ?_⟩
    subst h2
    simp [shiftI, hp, he, ha]
  | «at» k p =>
    obtain ⟨h1, h2⟩ := hy
    exact ⟨by rw [hk]; exact h1, by rw [hp, h2]⟩
  | sym k =>
    have h1 : tk u.kind = k := hy
    show tk v.kind = k
    rw [hk]; exact h1

theorem match_shift {d : Nat} {ys : List YT} {us vs : List Token} (hm : Match ys us) (hs : Shifted d us vs) :
    Match (ys.map (shiftY d)) vs := by
  induction ys generalizing us vs with
  | nil =>
    have := hm.nil_left; subst this
    cases vs with
    | nil => trivial
    | cons v vs => exact absurd hs (by simp [Shifted])
  | cons y ys ih =>
    obtain ⟨u, us', rfl, hy, hm'⟩ := match_cons_inv hm
    cases vs with
    | nil => exact absurd hs (by simp [Shifted])
    | cons v vs => exact ⟨shiftY_ok hy hs.1, ih hm' hs.2⟩

theorem yieldPath_shift (d : Nat) (path : List Ident) :
    yieldPath (path.map (shiftI d)) = (yieldPath path).map (shiftY d) := by
  induction path with
  | nil => rfl
  | cons a rest ih =>
    cases rest with
    | nil => rfl
    | cons b r =>
      simp only [List.map_cons, yieldPath] at ih ⊢
      rw [ih]
      rfl

mutual
theorem yieldT_shift (d : Nat) : ∀ t : Ty, yieldT (shiftT d t) = (yieldT t).map (shiftY d)
  | .simple p n => rfl
  | .named path => by simp only [shiftT, yieldT, yieldPath_shift]
  | .array a g item => by
    simp only [shiftT, yieldT, yieldT_shift d item, List.map_cons, List.map_append, List.map_nil]; rfl
  | .struct s g fs => by
    simp only [shiftT, yieldT, (yieldFs_shift d fs).1, List.map_cons, List.map_append, List.map_nil]; rfl
theorem yieldFs_shift (d : Nat) : ∀ fs : Fields,
    yieldFs (shiftFs d fs) = (yieldFs fs).map (shiftY d) ∧ yieldMore (shiftFs d fs) = (yieldMore fs).map (shiftY d)
  | .nil => ⟨rfl, rfl⟩
  | .cons i t rest => by
    have h1 := yieldT_shift d t
    have h2 := (yieldFs_shift d rest).2
    cases i <;>
      simp only [shiftFs, yieldFs, yieldMore, yieldName, Option.map, h1, h2, List.map_cons, List.map_append,
        List.map_nil, List.nil_append] <;> simp [shiftY]
end

mutual
theorem wf_shift (d : Nat) : ∀ t : Ty, wf (shiftT d t) = wf t
  | .simple _ _ => rfl
  | .named [] => rfl
  | .named [_] => rfl
  | .named (_ :: _ :: _) => rfl
  | .array _ _ item => by simp only [shiftT, wf, wf_shift d item]
  | .struct _ _ fs => by simp only [shiftT, wf, wfs_shift d fs]
theorem wfs_shift (d : Nat) : ∀ fs : Fields, wfs (shiftFs d fs) = wfs fs
  | .nil => rfl
  | .cons _ t rest => by simp only [shiftFs, wfs, wf_shift d t, wfs_shift d rest]
end

mutual
theorem needT_shift (d : Nat) : ∀ t : Ty, needT (shiftT d t) = needT t
  | .simple _ _ => rfl
  | .named path => by simp [shiftT, needT]
  | .array _ _ item => by simp only [shiftT, needT, needT_shift d item]
  | .struct _ _ fs => by simp only [shiftT, needT, (needFs_shift d fs).1]
theorem needFs_shift (d : Nat) : ∀ fs : Fields,
    needFs (shiftFs d fs) = needFs fs ∧ needLoop (shiftFs d fs) = needLoop fs
  | .nil => ⟨rfl, rfl⟩
  | .cons _ t rest => by
    simp only [shiftFs, needFs, needLoop, needT_shift d t, (needFs_shift d rest).2, and_self]
end

/-! ## the tokens of a sub-node -/

/-- classes a type can end with -/
theorem yieldPath_last (a : Ident) (rest : List Ident) : ∃ ys y, yieldPath (a :: rest) = ys ++ [y] ∧ y.cls = .ident := by
  induction rest generalizing a with
  | nil => exact ⟨[], .ident a, rfl, rfl⟩
  | cons b r ih =>
    obtain ⟨ys, y, e, hy⟩ := ih b
    exact ⟨.ident a :: .sym .dot :: ys, y, by simp only [yieldPath, e, List.cons_append], hy⟩

theorem yieldT_last : ∀ t : Ty, wf t = true → ∃ ys y, yieldT t = ys ++ [y] ∧ (y.cls = .ident ∨ y.cls = .gt)
  | .simple p n, _ => ⟨[], _, rfl, Or.inl rfl⟩
  | .named [], h => by simp [wf] at h
  | .named (a :: rest), _ => by
    obtain ⟨ys, y, e, hy⟩ := yieldPath_last a rest
    exact ⟨ys, y, by simp only [yieldT, e], Or.inl hy⟩
  | .array a g item, _ => ⟨_, _, rfl, Or.inr rfl⟩
  | .struct s g fs, _ => ⟨_, _, rfl, Or.inr rfl⟩

theorem match_last {t : Ty} {m : List Token} (hw : wf t = true) (hm : Match (yieldT t) m) :
    ∃ m0 z, m = m0 ++ [z] ∧ (tk z.kind = .ident ∨ tk z.kind = .gt) := by
  obtain ⟨ys, y, e, hy⟩ := yieldT_last t hw
  rw [e] at hm
  obtain ⟨m0, mz, rfl, _, hz⟩ := hm.append_inv
  obtain ⟨z, r, rfl, hyz, hr⟩ := match_cons_inv hz
  rw [hr.nil_left]
  exact ⟨m0, z, rfl, by rw [YT.ok_cls hyz]; exact hy⟩

/-- the token in front of a run (if any) is not a `.` -/
def NotDotLast (l : List Token) : Prop := ∀ u, l.getLast? = some u → tk u.kind ≠ .dot

theorem notDotLast_nil : NotDotLast [] := by intro u h; simp at h

theorem NotDotLast.append {l l' : List Token} (h : NotDotLast l) (h' : NotDotLast l') : NotDotLast (l ++ l') := by
  intro u hu
  rw [List.getLast?_append] at hu
  cases hl : l'.getLast? with
  | none => rw [hl] at hu; exact h u (by simpa using hu)
  | some v => rw [hl] at hu; simp only [Option.some_or, Option.some.injEq] at hu; subst hu; exact h' v hl

theorem notDotLast_snoc (l : List Token) {u : Token} (h : tk u.kind ≠ .dot) : NotDotLast (l ++ [u]) := by
  intro v hv
  simp only [List.getLast?_append, List.getLast?_singleton, Option.some_or, Option.some.injEq] at hv
  subst hv; exact h

/-- a type node below `t` owns a contiguous run of `t`'s tokens, is itself `wf`, and is not preceded by a `.` -/
def SubOK (pre : List Token) (x : Node) : Prop :=
  ∀ n, x = .ty n → ∃ l m r, pre = l ++ m ++ r ∧ Match (yieldT n) m ∧ wf n = true ∧ NotDotLast l

theorem SubOK.lift {m : List Token} {x : Node} (h : SubOK m x) (l r : List Token) (hl : NotDotLast l) :
    SubOK (l ++ m ++ r) x := by
  intro n hn
  obtain ⟨l', m', r', rfl, hm, hw, hd⟩ := h n hn
  exact ⟨l ++ l', m', r' ++ r, by simp, hm, hw, hl.append hd⟩

mutual
theorem sub_match : ∀ t : Ty, wf t = true → ∀ pre, Match (yieldT t) pre → ∀ x ∈ nodesT t, SubOK pre x
  | .simple p n, hw, pre, hm, x, hx => by
    simp only [nodesT, List.mem_singleton] at hx
    subst hx
    intro n' hn'
    cases hn'
    exact ⟨[], pre, [], by simp, hm, hw, notDotLast_nil⟩
  | .named path, hw, pre, hm, x, hx => by
    simp only [nodesT, List.mem_cons, List.mem_map] at hx
    rcases hx with rfl | ⟨i, _, rfl⟩
    · intro n' hn'
      cases hn'
      exact ⟨[], pre, [], by simp, hm, hw, notDotLast_nil⟩
    · intro n' hn'
      cases hn'
  | .array a g item, hw, pre, hm, x, hx => by
    simp only [nodesT, List.mem_cons] at hx
    rcases hx with rfl | hx
    · intro n' hn'
      cases hn'
      exact ⟨[], pre, [], by simp, hm, hw, notDotLast_nil⟩
    · simp only [yieldT] at hm
      obtain ⟨ta, r1, rfl, _, hm1⟩ := match_cons_inv hm
      obtain ⟨tl, r2, rfl, hyl, hm2⟩ := match_cons_inv hm1
      obtain ⟨mid, last, rfl, hmi, _⟩ := hm2.append_inv
      have hkl : tk tl.kind = .lt := hyl
      have := (sub_match item (by simpa [wf] using hw) mid hmi x hx).lift [ta, tl] last
        (notDotLast_snoc [ta] (by rw [hkl]; decide))
      simpa using this
  | .struct s g fs, hw, pre, hm, x, hx => by
    simp only [nodesT, List.mem_cons] at hx
    rcases hx with rfl | hx
    · intro n' hn'
      cases hn'
      exact ⟨[], pre, [], by simp, hm, hw, notDotLast_nil⟩
    · simp only [yieldT] at hm
      obtain ⟨ta, r1, rfl, _, hm1⟩ := match_cons_inv hm
      obtain ⟨tl, r2, rfl, hyl, hm2⟩ := match_cons_inv hm1
      obtain ⟨mid, last, rfl, hmi, _⟩ := hm2.append_inv
      have hkl : tk tl.kind = .lt := hyl
      have := ((sub_matchFs fs (by simpa [wf] using hw)).1 mid hmi x hx).lift [ta, tl] last
        (notDotLast_snoc [ta] (by rw [hkl]; decide))
      simpa using this
theorem sub_matchFs : ∀ fs : Fields, wfs fs = true →
    (∀ pre, Match (yieldFs fs) pre → ∀ x ∈ nodesFs fs, SubOK pre x) ∧
    (∀ pre, Match (yieldMore fs) pre → ∀ x ∈ nodesFs fs, SubOK pre x)
  | .nil, _ => by simp [nodesFs]
  | .cons i t rest, hw => by
    have hw' : wf t = true ∧ wfs rest = true := by simpa [wfs] using hw
    have body : ∀ pre, Match (yieldName i ++ yieldT t ++ yieldMore rest) pre →
        ∀ x ∈ nodesFs (.cons i t rest), SubOK pre x := by
      intro pre hm x hx
      obtain ⟨p12, pm, rfl, hm12, hmm⟩ := hm.append_inv
      obtain ⟨pn, pt, rfl, hmn, hmt⟩ := hm12.append_inv
      have hpn : NotDotLast pn := by
        cases i with
        | none => simp only [yieldName] at hmn; rw [hmn.nil_left]; exact notDotLast_nil
        | some id =>
          simp only [yieldName] at hmn
          obtain ⟨u, r, rfl, hu, hr⟩ := match_cons_inv hmn
          rw [hr.nil_left]
          exact notDotLast_snoc [] (by rw [hu.1]; decide)
      have hpt : NotDotLast (pn ++ pt) := by
        obtain ⟨m0, z, rfl, hz⟩ := match_last hw'.1 hmt
        rw [← List.append_assoc]
        exact notDotLast_snoc _ (by rcases hz with h | h <;> rw [h] <;> decide)
      simp only [nodesFs, List.mem_cons, List.mem_append] at hx
      rcases hx with (rfl | hx | hx) | hx
      · intro n' hn'; cases hn'
      · cases i with
        | none => simp [optIdent] at hx
        | some id =>
          simp only [optIdent, List.mem_singleton] at hx
          subst hx
          intro n' hn'; cases hn'
      · exact (sub_match t hw'.1 pt hmt x hx).lift pn pm hpn
      · have := ((sub_matchFs rest hw'.2).2 pm hmm x hx).lift (pn ++ pt) [] hpt
        simpa using this
    constructor
    · intro pre hm x hx
      simp only [yieldFs] at hm
      exact body pre hm x hx
    · intro pre hm x hx
      simp only [yieldMore, List.cons_append] at hm
      obtain ⟨c, r, rfl, hc, hm1⟩ := match_cons_inv hm
      have hck : tk c.kind = .comma := hc
      have := (body r hm1 x hx).lift [c] [] (notDotLast_snoc [] (by rw [hck]; decide))
      simpa using this
end

/-! ## the theorem (token level) -/

/-- C06 for types, parser side -/
theorem exact_tokens {t : Ty} {pre : List Token} (hw : wf t = true) (hm : Match (yieldT t) pre)
    {n : Ty} (hn : Node.ty n ∈ nodesT t) :
    ∃ l m r, pre = l ++ m ++ r ∧ Match (yieldT n) m ∧ wf n = true ∧ NotDotLast l ∧
      ∀ (ts2 : PState) (vs rest2 : List Token), Shifted (posT n) m vs → expand ts2 = vs ++ rest2 → curX rest2 = .eof →
        ∀ fuel, needT n ≤ fuel → parseTypeTop fuel ts2 = .ok (shiftT (posT n) n) := by
  obtain ⟨l, m, r, e, hmn, hwn, hnd⟩ := sub_match t hw pre hm _ hn n rfl
  refine ⟨l, m, r, e, hmn, hwn, hnd, ?_⟩
  intro ts2 vs rest2 hs he hr fuel hf
  have hm2 : Match (yieldT (shiftT (posT n) n)) vs := by
    rw [yieldT_shift]; exact match_shift hmn hs
  exact parseTypeTop_complete (by rw [wf_shift]; exact hwn) hm2 he hr fuel (by rw [needT_shift]; exact hf)

end MF.TypeP
