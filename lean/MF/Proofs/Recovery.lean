/-
  Theorems of the recovery calculus (`MF/Model/Recovery.lean`), all about EVERY derivation of `Exec` / `EntryExec`
  over an arbitrary program:

    no_escape            static reachability condition ⇒ no execution started in a root ends in a raise
    errors_only_grow     no function writes `p.errors` except by appending ⇒ the error list only grows
    analyze_sound        the credit analysis bounds the change of `|errors| − (#Bad + #handler runs)`
    bad_implies_error    ⇒ `#Bad ≤ #errors`, `#handler runs ≤ #errors`; `errors = []` ⇒ no Bad, no handler run
    entry_contract       entry shape ⇒ `nil` is returned iff `errors = [] ∧ token = <eof>`
    entry_no_escape / entry_credit   the two static conditions lifted to the entry shape
-/
import MF.Model.Recovery
namespace MF.Recovery

/-! ## list plumbing -/

theorem isClosed_spec {next : Nat → List Nat} {R : List Nat} (h : isClosed next R = true)
    {f c : Nat} (hf : f ∈ R) (hc : c ∈ next f) : c ∈ R := by
  unfold isClosed at h
  rw [List.all_eq_true] at h
  have h1 := h f hf
  rw [List.all_eq_true] at h1
  have h2 := h1 c hc
  exact List.contains_iff_mem.mp h2

theorem all_contains_spec {roots R : List Nat} (h : roots.all R.contains = true) {e : Nat} (he : e ∈ roots) : e ∈ R := by
  rw [List.all_eq_true] at h
  exact List.contains_iff_mem.mp (h e he)

theorem calleesOf_mem {cs : List Code} {c : Code} (hc : c ∈ cs) {f : Nat} (hf : f ∈ c.calls) : f ∈ calleesOf cs := by
  unfold calleesOf
  exact List.mem_flatMap.mpr ⟨c, hc, hf⟩

/-! ## no_escape -/

/-- `R` is a set of functions closed under unprotected calls none of which raises in unprotected code -/
structure Barrier (g : Prog) (R : List Nat) : Prop where
  closed : isClosed (expNext g) R = true
  quiet : ∀ f ∈ R, expRaises g f = false

theorem Barrier.callee {g : Prog} {R : List Nat} (hB : Barrier g R) {f : Nat} {d : FunDef} (hf : f ∈ R)
    (hd : g[f]? = some d) {c : Code} (hc : c ∈ d.exposed) : (∀ x ∈ c.calls, x ∈ R) ∧ c.raises = false := by
  constructor
  · intro x hx
    apply isClosed_spec hB.closed hf
    unfold expNext
    rw [hd]
    exact calleesOf_mem hc hx
  · have h := hB.quiet f hf
    simp only [expRaises, hd] at h
    cases hr : c.raises with
    | false => rfl
    | true =>
      have : d.exposed.any Code.raises = true := List.any_eq_true.mpr ⟨c, hc, hr⟩
      rw [this] at h
      cases h

/-- the core lemma: code that calls only into the barrier and contains no raise itself cannot end in a raise -/
theorem no_raise {g : Prog} {R : List Nat} (hB : Barrier g R) {c : Code} {s : State} {o : Out} {s' : State}
    (h : Exec g c s o s') : (∀ f ∈ c.calls, f ∈ R) → c.raises = false → o = .norm := by
  induction h with
  | skip | appendErr | clobberErrs | havoc | lexOk | mkBad | loopDone | callUndef | callNorm => intros; rfl
  | raise => intro _ hr; simp [Code.raises] at hr
  | lexErr => intro _ hr; simp [Code.raises] at hr
  | seqNorm _ _ _ ihb =>
    intro hc hr
    simp only [Code.raises, Bool.or_eq_false_iff] at hr
    exact ihb (fun f hf => hc f (by simp [Code.calls, hf])) hr.2
  | seqRaise _ iha =>
    intro hc hr
    simp only [Code.raises, Bool.or_eq_false_iff] at hr
    exact iha (fun f hf => hc f (by simp [Code.calls, hf])) hr.1
  | choiceL _ ih =>
    intro hc hr
    simp only [Code.raises, Bool.or_eq_false_iff] at hr
    exact ih (fun f hf => hc f (by simp [Code.calls, hf])) hr.1
  | choiceR _ ih =>
    intro hc hr
    simp only [Code.raises, Bool.or_eq_false_iff] at hr
    exact ih (fun f hf => hc f (by simp [Code.calls, hf])) hr.2
  | loopStep _ _ _ ihb => intro hc hr; exact ihb hc hr
  | loopRaise _ ih =>
    intro hc hr
    exact ih (fun f hf => hc f (by simpa [Code.calls] using hf)) (by simpa [Code.raises] using hr)
  | @callPlain f d s o s1 hd hh _ ih =>
    intro hc _
    have hf : f ∈ R := hc f (by simp [Code.calls])
    have hp := hB.callee hf hd (c := d.pre) (by simp [FunDef.exposed, hh])
    have hb := hB.callee hf hd (c := d.body) (by simp [FunDef.exposed, hh])
    apply ih
    · intro x hx
      simp only [Code.calls, List.mem_append] at hx
      cases hx with
      | inl h => exact hp.1 x h
      | inr h => exact hb.1 x h
    · simp [Code.raises, hp.2, hb.2]
  | @callPreRaise f d h s s1 hd hh _ ih =>
    intro hc _
    have hf : f ∈ R := hc f (by simp [Code.calls])
    have hp := hB.callee hf hd (c := d.pre) (by simp [FunDef.exposed, hh])
    exact ih hp.1 hp.2
  | @callCaught f d h s s1 s2 o s3 hd hh _ _ _ _ _ ihh =>
    intro hc _
    have hf : f ∈ R := hc f (by simp [Code.calls])
    have hx := hB.callee hf hd (c := h) (by simp [FunDef.exposed, hh])
    exact ihh hx.1 hx.2

theorem barrier_of_unprotectedReach {g : Prog} {roots : List Nat} (h : unprotectedReach g roots = []) :
    ∃ R, Barrier g R ∧ ∀ e ∈ roots, e ∈ R := by
  unfold unprotectedReach at h
  simp only at h
  split at h
  · rename_i hc
    rw [Bool.and_eq_true] at hc
    refine ⟨_, ⟨hc.1, ?_⟩, fun e he => all_contains_spec hc.2 he⟩
    intro f hf
    rw [List.filter_eq_nil_iff] at h
    have := h f hf
    simpa using this
  · cases h

/-- **no_escape.**  If no function whose unprotected code raises (directly or through the panic-mode lexer) is reachable
    from the roots in the call graph with the bodies of protected functions cut out, then no execution started by
    calling a root ends in an escaping raise. -/
theorem no_escape {g : Prog} {roots : List Nat} (h0 : unprotectedReach g roots = []) {e : Nat} (he : e ∈ roots)
    {s : State} {o : Out} {s' : State} (h : Exec g (.call e) s o s') : o = .norm := by
  obtain ⟨R, hB, hR⟩ := barrier_of_unprotectedReach h0
  exact no_raise hB h (fun f hf => by simp [Code.calls] at hf; subst hf; exact hR _ he) (by simp [Code.raises])

/-! ## the error list only grows -/

theorem errors_only_grow_aux {g : Prog} {R : List Nat} (hcl : isClosed (allNext g) R = true) (hnc : noClobber g R = true)
    {c : Code} {s : State} {o : Out} {s' : State} (h : Exec g c s o s') :
    (∀ f ∈ c.calls, f ∈ R) → c.clobbers = false → ∃ t, s'.errs = s.errs ++ t := by
  have sub : ∀ {f d}, f ∈ R → g[f]? = some d → ∀ c ∈ d.all, (∀ x ∈ c.calls, x ∈ R) ∧ c.clobbers = false := by
    intro f d hf hd c hc
    constructor
    · intro x hx
      apply isClosed_spec hcl hf
      unfold allNext
      rw [hd]
      exact calleesOf_mem hc hx
    · unfold noClobber at hnc
      rw [List.all_eq_true] at hnc
      have h1 := hnc f hf
      rw [hd] at h1
      simp only at h1
      rw [List.all_eq_true] at h1
      simpa using h1 c hc
  induction h with
  | skip | raise | lexErr | loopDone | callUndef => intros; exact ⟨[], by simp⟩
  | havoc | lexOk | mkBad => intros; exact ⟨[], by simp⟩
  | appendErr e => intros; exact ⟨[e], rfl⟩
  | clobberErrs => intro _ hc; simp [Code.clobbers] at hc
  | seqNorm _ _ iha ihb =>
    intro hc hk
    simp only [Code.clobbers, Bool.or_eq_false_iff] at hk
    obtain ⟨t1, h1⟩ := iha (fun f hf => hc f (by simp [Code.calls, hf])) hk.1
    obtain ⟨t2, h2⟩ := ihb (fun f hf => hc f (by simp [Code.calls, hf])) hk.2
    exact ⟨t1 ++ t2, by rw [h2, h1, List.append_assoc]⟩
  | seqRaise _ iha =>
    intro hc hk
    simp only [Code.clobbers, Bool.or_eq_false_iff] at hk
    exact iha (fun f hf => hc f (by simp [Code.calls, hf])) hk.1
  | choiceL _ ih =>
    intro hc hk
    simp only [Code.clobbers, Bool.or_eq_false_iff] at hk
    exact ih (fun f hf => hc f (by simp [Code.calls, hf])) hk.1
  | choiceR _ ih =>
    intro hc hk
    simp only [Code.clobbers, Bool.or_eq_false_iff] at hk
    exact ih (fun f hf => hc f (by simp [Code.calls, hf])) hk.2
  | loopStep _ _ iha ihb =>
    intro hc hk
    obtain ⟨t1, h1⟩ := iha (fun f hf => hc f (by simpa [Code.calls] using hf)) (by simpa [Code.clobbers] using hk)
    obtain ⟨t2, h2⟩ := ihb hc hk
    exact ⟨t1 ++ t2, by rw [h2, h1, List.append_assoc]⟩
  | loopRaise _ ih =>
    intro hc hk
    exact ih (fun f hf => hc f (by simpa [Code.calls] using hf)) (by simpa [Code.clobbers] using hk)
  | @callPlain f d s o s1 hd hh _ ih =>
    intro hc _
    have hf : f ∈ R := hc f (by simp [Code.calls])
    have hp := sub hf hd d.pre (by simp [FunDef.all, hh])
    have hb := sub hf hd d.body (by simp [FunDef.all, hh])
    apply ih
    · intro x hx
      simp only [Code.calls, List.mem_append] at hx
      cases hx with
      | inl h => exact hp.1 x h
      | inr h => exact hb.1 x h
    · simp [Code.clobbers, hp.2, hb.2]
  | @callPreRaise f d h s s1 hd hh _ ih =>
    intro hc _
    have hf : f ∈ R := hc f (by simp [Code.calls])
    have hp := sub hf hd d.pre (by simp [FunDef.all, hh])
    exact ih hp.1 hp.2
  | @callNorm f d h s s1 s2 hd hh _ _ ihp ihb =>
    intro hc _
    have hf : f ∈ R := hc f (by simp [Code.calls])
    have hp := sub hf hd d.pre (by simp [FunDef.all, hh])
    have hb := sub hf hd d.body (by simp [FunDef.all, hh])
    obtain ⟨t1, h1⟩ := ihp hp.1 hp.2
    obtain ⟨t2, h2⟩ := ihb hb.1 hb.2
    exact ⟨t1 ++ t2, by rw [h2, h1, List.append_assoc]⟩
  | @callCaught f d h s s1 s2 o s3 hd hh _ _ _ ihp ihb ihh =>
    intro hc _
    have hf : f ∈ R := hc f (by simp [Code.calls])
    have hp := sub hf hd d.pre (by simp [FunDef.all, hh])
    have hb := sub hf hd d.body (by simp [FunDef.all, hh])
    have hx := sub hf hd h (by simp [FunDef.all, hh])
    obtain ⟨t1, h1⟩ := ihp hp.1 hp.2
    obtain ⟨t2, h2⟩ := ihb hb.1 hb.2
    obtain ⟨t3, h3⟩ := ihh hx.1 hx.2
    exact ⟨t1 ++ t2 ++ t3, by rw [h3]; simp only []; rw [h2, h1]; simp [List.append_assoc]⟩

/-! ## credit analysis -/

def Bound.Holds (b : Bound) (W : Weights) (s : State) (o : Out) (s' : State) : Prop :=
  match o with
  | .norm => ∃ n, b.nd = some n ∧ credit W s + n ≤ credit W s'
  | .raise => ∃ n, b.rz = some n ∧ credit W s + n ≤ credit W s'

theorem leO_spec {a b : Option Int} (h : leO a b = true) {n : Int} (hb : b = some n) : ∃ m, a = some m ∧ m ≤ n := by
  subst hb
  cases a with
  | none => simp [leO] at h
  | some m => exact ⟨m, rfl, by simpa [leO] using h⟩

theorem Bound.Holds.weaken {claimed actual : Bound} (hle : claimed.le actual = true) {W : Weights} {s : State} {o : Out}
    {s' : State} (h : actual.Holds W s o s') : claimed.Holds W s o s' := by
  unfold Bound.le at hle
  rw [Bool.and_eq_true] at hle
  cases o with
  | norm =>
    obtain ⟨n, hn, hc⟩ := h
    obtain ⟨m, hm, hmn⟩ := leO_spec hle.1 hn
    exact ⟨m, hm, by omega⟩
  | raise =>
    obtain ⟨n, hn, hc⟩ := h
    obtain ⟨m, hm, hmn⟩ := leO_spec hle.2 hn
    exact ⟨m, hm, by omega⟩

theorem minO_left {x y : Option Int} {n : Int} (hx : x = some n) : ∃ m, minO x y = some m ∧ m ≤ n := by
  subst hx
  cases y with
  | none => exact ⟨n, rfl, Int.le_refl _⟩
  | some b => exact ⟨min n b, rfl, Int.min_le_left _ _⟩

theorem minO_right {x y : Option Int} {n : Int} (hy : y = some n) : ∃ m, minO x y = some m ∧ m ≤ n := by
  subst hy
  cases x with
  | none => exact ⟨n, rfl, Int.le_refl _⟩
  | some a => exact ⟨min a n, rfl, Int.min_le_right _ _⟩

theorem addO_some {x y : Option Int} {a b : Int} (hx : x = some a) (hy : y = some b) : addO x y = some (a + b) := by
  subst hx; subst hy; rfl

theorem credit_eof (W : Weights) (s : State) (b : Bool) : credit W { s with eof := b } = credit W s := rfl

theorem credit_append (W : Weights) (s : State) (e : Nat) : credit W { s with errs := s.errs ++ [e] } = credit W s + 1 := by
  simp only [credit, cost, List.length_append, List.length_singleton]
  omega

theorem credit_bad (W : Weights) (s : State) (k : String) : credit W { s with bads := k :: s.bads } = credit W s + wBad W k := by
  simp only [credit, cost, wBad, List.countP_cons]
  cases W.bad k <;> simp <;> omega

theorem credit_caught (W : Weights) (s : State) (f : Nat) :
    credit W { s with caught := f :: s.caught } = credit W s + wCaught W f := by
  simp only [credit, cost, wCaught, List.countP_cons]
  cases W.caught f <;> simp <;> omega

theorem checkSigs_none {g : Prog} {σ : Nat → Bound} {W : Weights} {R : List Nat} (h : checkSigs g σ W R = true)
    {f : Nat} (hf : f ∈ R) (hd : g[f]? = none) : (σ f).le ⟨some 0, none⟩ = true := by
  unfold checkSigs at h
  rw [List.all_eq_true] at h
  have h1 := h f hf
  simpa only [hd] using h1

theorem checkSigs_some {g : Prog} {σ : Nat → Bound} {W : Weights} {R : List Nat} (h : checkSigs g σ W R = true)
    {f : Nat} (hf : f ∈ R) {d : FunDef} (hd : g[f]? = some d) : ∃ b, funBound σ W f d = some b ∧ (σ f).le b = true := by
  unfold checkSigs at h
  rw [List.all_eq_true] at h
  have h1 := h f hf
  simp only [hd] at h1
  cases hb : funBound σ W f d with
  | none => rw [hb] at h1; cases h1
  | some b => rw [hb] at h1; exact ⟨b, rfl, h1⟩

/-- **soundness of the credit analysis**, for every execution of every piece of code that calls into `R` -/
theorem analyze_sound {g : Prog} {σ : Nat → Bound} {W : Weights} {R : List Nat}
    (hcl : isClosed (allNext g) R = true) (hsig : checkSigs g σ W R = true)
    {c : Code} {s : State} {o : Out} {s' : State} (h : Exec g c s o s') :
    ∀ b, analyze σ W c = some b → (∀ f ∈ c.calls, f ∈ R) → b.Holds W s o s' := by
  have sub : ∀ {f d}, f ∈ R → g[f]? = some d → ∀ c ∈ d.all, ∀ x ∈ c.calls, x ∈ R := by
    intro f d hf hd c hc x hx
    apply isClosed_spec hcl hf
    unfold allNext
    rw [hd]
    exact calleesOf_mem hc hx
  induction h with
  | skip => intro b hb _; simp [analyze] at hb; subst hb; exact ⟨0, rfl, by omega⟩
  | raise => intro b hb _; simp [analyze] at hb; subst hb; exact ⟨0, rfl, by omega⟩
  | appendErr e => intro b hb _; simp [analyze] at hb; subst hb; exact ⟨1, rfl, by rw [credit_append]; omega⟩
  | clobberErrs => intro b hb _; simp [analyze] at hb
  | havoc x => intro b hb _; simp [analyze] at hb; subst hb; exact ⟨0, rfl, by simp [credit, cost]⟩
  | lexOk m x => intro b hb _; simp [analyze] at hb; subst hb; exact ⟨0, rfl, by simp [credit, cost]⟩
  | lexErr => intro b hb _; simp [analyze] at hb; subst hb; exact ⟨0, rfl, by omega⟩
  | mkBad k => intro b hb _; simp [analyze] at hb; subst hb; exact ⟨wBad W k, rfl, by rw [credit_bad]; omega⟩
  | @seqNorm a b' s s1 o s2 _ _ iha ihb =>
    intro b hb hc
    simp only [analyze] at hb
    cases hx : analyze σ W a with
    | none => simp [hx] at hb
    | some x =>
      cases hy : analyze σ W b' with
      | none => simp [hx, hy] at hb
      | some y =>
        simp only [hx, hy, Option.some.injEq] at hb
        subst hb
        obtain ⟨n, hn, h1⟩ := iha x hx (fun f hf => hc f (by simp [Code.calls, hf]))
        have h2 := ihb y hy (fun f hf => hc f (by simp [Code.calls, hf]))
        cases o with
        | norm =>
          obtain ⟨m, hm, h2⟩ := h2
          exact ⟨n + m, addO_some hn hm, by omega⟩
        | raise =>
          obtain ⟨m, hm, h2⟩ := h2
          obtain ⟨k, hk, hkm⟩ := minO_right (x := x.rz) (addO_some hn hm)
          exact ⟨k, hk, by omega⟩
  | @seqRaise a b' s s1 _ iha =>
    intro b hb hc
    simp only [analyze] at hb
    cases hx : analyze σ W a with
    | none => simp [hx] at hb
    | some x =>
      cases hy : analyze σ W b' with
      | none => simp [hx, hy] at hb
      | some y =>
        simp only [hx, hy, Option.some.injEq] at hb
        subst hb
        obtain ⟨n, hn, h1⟩ := iha x hx (fun f hf => hc f (by simp [Code.calls, hf]))
        obtain ⟨k, hk, hkm⟩ := minO_left (y := addO x.nd y.rz) hn
        exact ⟨k, hk, by omega⟩
  | @choiceL a b' s o s1 _ ih =>
    intro b hb hc
    simp only [analyze] at hb
    cases hx : analyze σ W a with
    | none => simp [hx] at hb
    | some x =>
      cases hy : analyze σ W b' with
      | none => simp [hx, hy] at hb
      | some y =>
        simp only [hx, hy, Option.some.injEq] at hb
        subst hb
        have h1 := ih x hx (fun f hf => hc f (by simp [Code.calls, hf]))
        cases o with
        | norm =>
          obtain ⟨n, hn, h1⟩ := h1
          obtain ⟨k, hk, hkm⟩ := minO_left (y := y.nd) hn
          exact ⟨k, hk, by omega⟩
        | raise =>
          obtain ⟨n, hn, h1⟩ := h1
          obtain ⟨k, hk, hkm⟩ := minO_left (y := y.rz) hn
          exact ⟨k, hk, by omega⟩
  | @choiceR a b' s o s1 _ ih =>
    intro b hb hc
    simp only [analyze] at hb
    cases hx : analyze σ W a with
    | none => simp [hx] at hb
    | some x =>
      cases hy : analyze σ W b' with
      | none => simp [hx, hy] at hb
      | some y =>
        simp only [hx, hy, Option.some.injEq] at hb
        subst hb
        have h1 := ih y hy (fun f hf => hc f (by simp [Code.calls, hf]))
        cases o with
        | norm =>
          obtain ⟨n, hn, h1⟩ := h1
          obtain ⟨k, hk, hkm⟩ := minO_right (x := x.nd) hn
          exact ⟨k, hk, by omega⟩
        | raise =>
          obtain ⟨n, hn, h1⟩ := h1
          obtain ⟨k, hk, hkm⟩ := minO_right (x := x.rz) hn
          exact ⟨k, hk, by omega⟩
  | @loopDone a s =>
    intro b hb _
    simp only [analyze] at hb
    cases hx : analyze σ W a with
    | none => simp [hx] at hb
    | some x =>
      simp only [hx] at hb
      split at hb
      · simp only [Option.some.injEq] at hb; subst hb; exact ⟨0, rfl, by omega⟩
      · cases hb
  | @loopStep a s s1 o s2 _ _ iha ihb =>
    intro b hb hc
    have hb0 := hb
    simp only [analyze] at hb
    cases hx : analyze σ W a with
    | none => simp [hx] at hb
    | some x =>
      simp only [hx] at hb
      split at hb
      · rename_i hle
        simp only [Option.some.injEq] at hb
        obtain ⟨n, hn, h1⟩ := iha x hx (fun f hf => hc f (by simpa [Code.calls] using hf))
        obtain ⟨m, hm, hmn⟩ := leO_spec hle hn
        simp only [Option.some.injEq] at hm
        have h2 := ihb b hb0 hc
        subst hb
        cases o with
        | norm =>
          obtain ⟨k, hk, h2⟩ := h2
          simp only [Option.some.injEq] at hk
          exact ⟨0, rfl, by omega⟩
        | raise =>
          obtain ⟨k, hk, h2⟩ := h2
          exact ⟨k, hk, by omega⟩
      · cases hb
  | @loopRaise a s s1 _ ih =>
    intro b hb hc
    simp only [analyze] at hb
    cases hx : analyze σ W a with
    | none => simp [hx] at hb
    | some x =>
      simp only [hx] at hb
      split at hb
      · simp only [Option.some.injEq] at hb
        subst hb
        exact ih x hx (fun f hf => hc f (by simpa [Code.calls] using hf))
      · cases hb
  | @callUndef f s hd =>
    intro b hb hc
    simp only [analyze, Option.some.injEq] at hb
    subst hb
    have hf : f ∈ R := hc f (by simp [Code.calls])
    have h1 := checkSigs_none hsig hf hd
    exact Bound.Holds.weaken h1 (o := .norm) ⟨0, rfl, by omega⟩
  | @callPlain f d s o s1 hd hh _ ih =>
    intro b hb hc
    simp only [analyze, Option.some.injEq] at hb
    subst hb
    have hf : f ∈ R := hc f (by simp [Code.calls])
    obtain ⟨b, hfb, hle⟩ := checkSigs_some hsig hf hd
    simp only [funBound, hh] at hfb
    apply Bound.Holds.weaken hle
    apply ih b hfb
    intro x hx
    simp only [Code.calls, List.mem_append] at hx
    cases hx with
    | inl h => exact sub hf hd d.pre (by simp [FunDef.all, hh]) x h
    | inr h => exact sub hf hd d.body (by simp [FunDef.all, hh]) x h
  | @callPreRaise f d h s s1 hd hh _ ih =>
    intro b hb hc
    simp only [analyze, Option.some.injEq] at hb
    subst hb
    have hf : f ∈ R := hc f (by simp [Code.calls])
    obtain ⟨b, hfb, hle⟩ := checkSigs_some hsig hf hd
    simp only [funBound, hh] at hfb
    apply Bound.Holds.weaken hle
    cases hp : analyze σ W d.pre with
    | none => simp [hp] at hfb
    | some p =>
      cases hbd : analyze σ W d.body with
      | none => simp [hp, hbd] at hfb
      | some bd =>
        cases hx : analyze σ W h with
        | none => simp [hp, hbd, hx] at hfb
        | some x =>
          simp only [hp, hbd, hx, Option.some.injEq] at hfb
          subst hfb
          obtain ⟨n, hn, h1⟩ := ih p hp (sub hf hd d.pre (by simp [FunDef.all, hh]))
          obtain ⟨k, hk, hkm⟩ := minO_left (y := addO p.nd (addO bd.rz (addO (some (wCaught W f)) x.rz))) hn
          exact ⟨k, hk, by omega⟩
  | @callNorm f d h s s1 s2 hd hh _ _ ihp ihb =>
    intro b hb hc
    simp only [analyze, Option.some.injEq] at hb
    subst hb
    have hf : f ∈ R := hc f (by simp [Code.calls])
    obtain ⟨b, hfb, hle⟩ := checkSigs_some hsig hf hd
    simp only [funBound, hh] at hfb
    apply Bound.Holds.weaken hle
    cases hp : analyze σ W d.pre with
    | none => simp [hp] at hfb
    | some p =>
      cases hbd : analyze σ W d.body with
      | none => simp [hp, hbd] at hfb
      | some bd =>
        cases hx : analyze σ W h with
        | none => simp [hp, hbd, hx] at hfb
        | some x =>
          simp only [hp, hbd, hx, Option.some.injEq] at hfb
          subst hfb
          obtain ⟨n, hn, h1⟩ := ihp p hp (sub hf hd d.pre (by simp [FunDef.all, hh]))
          obtain ⟨m, hm, h2⟩ := ihb bd hbd (sub hf hd d.body (by simp [FunDef.all, hh]))
          obtain ⟨k, hk, hkm⟩ := minO_left (y := addO bd.rz (addO (some (wCaught W f)) x.nd)) hm
          exact ⟨n + k, addO_some hn hk, by omega⟩
  | @callCaught f d h s s1 s2 o s3 hd hh _ _ _ ihp ihb ihh =>
    intro b hb hc
    simp only [analyze, Option.some.injEq] at hb
    subst hb
    have hf : f ∈ R := hc f (by simp [Code.calls])
    obtain ⟨b, hfb, hle⟩ := checkSigs_some hsig hf hd
    simp only [funBound, hh] at hfb
    apply Bound.Holds.weaken hle
    cases hp : analyze σ W d.pre with
    | none => simp [hp] at hfb
    | some p =>
      cases hbd : analyze σ W d.body with
      | none => simp [hp, hbd] at hfb
      | some bd =>
        cases hx : analyze σ W h with
        | none => simp [hp, hbd, hx] at hfb
        | some x =>
          simp only [hp, hbd, hx, Option.some.injEq] at hfb
          subst hfb
          obtain ⟨n, hn, h1⟩ := ihp p hp (sub hf hd d.pre (by simp [FunDef.all, hh]))
          obtain ⟨m, hm, h2⟩ := ihb bd hbd (sub hf hd d.body (by simp [FunDef.all, hh]))
          have h3 := ihh x hx (sub hf hd h (by simp [FunDef.all, hh]))
          cases o with
          | norm =>
            obtain ⟨q, hq, h3⟩ := h3
            rw [credit_caught] at h3
            have e1 : addO bd.rz (addO (some (wCaught W f)) x.nd) = some (m + (wCaught W f + q)) :=
              addO_some hm (addO_some rfl hq)
            obtain ⟨k, hk, hkm⟩ := minO_right (x := bd.nd) e1
            exact ⟨n + k, addO_some hn hk, by omega⟩
          | raise =>
            obtain ⟨q, hq, h3⟩ := h3
            rw [credit_caught] at h3
            have e1 : addO bd.rz (addO (some (wCaught W f)) x.rz) = some (m + (wCaught W f + q)) :=
              addO_some hm (addO_some rfl hq)
            obtain ⟨k, hk, hkm⟩ := minO_right (x := p.rz) (addO_some hn e1)
            exact ⟨k, hk, by omega⟩

/-- what `creditOK` establishes -/
structure Checked (g : Prog) (W : Weights) (σ : Nat → Bound) (R : List Nat) : Prop where
  closed : isClosed (allNext g) R = true
  mono : noClobber g R = true
  sigs : checkSigs g σ W R = true

theorem checked_of_creditOK {g : Prog} {W : Weights} {roots : List Nat} (h : creditOK g W roots = true) :
    ∃ σ R, Checked g W σ R ∧ ∀ e ∈ roots, e ∈ R ∧ (Bound.dflt).le (σ e) = true := by
  unfold creditOK at h
  simp only [Bool.and_eq_true] at h
  obtain ⟨⟨⟨⟨h1, h2⟩, h3⟩, h4⟩, h5⟩ := h
  refine ⟨_, _, ⟨h1, h3, h4⟩, fun e he => ⟨all_contains_spec h2 he, ?_⟩⟩
  rw [List.all_eq_true] at h5
  exact h5 e he

/-- a call of a function whose claimed bound is at least the default never ends with less credit than it started -/
theorem Checked.call_credit {g : Prog} {W : Weights} {σ : Nat → Bound} {R : List Nat} (hC : Checked g W σ R)
    {e : Nat} (he : e ∈ R) (hd : (Bound.dflt).le (σ e) = true)
    {s : State} {o : Out} {s' : State} (h : Exec g (.call e) s o s') : credit W s ≤ credit W s' := by
  have h1 := analyze_sound hC.closed hC.sigs h (σ e) rfl (fun f hf => by simp [Code.calls] at hf; subst hf; exact he)
  have h2 := Bound.Holds.weaken hd h1
  cases o with
  | norm => obtain ⟨n, hn, h2⟩ := h2; simp [Bound.dflt] at hn; omega
  | raise => obtain ⟨n, hn, h2⟩ := h2; simp [Bound.dflt] at hn; omega

theorem countP_zero_spec {α} {p : α → Bool} {l : List α} (h : l.countP p = 0) : ∀ a ∈ l, p a = false := by
  intro a ha
  cases hp : p a with
  | false => rfl
  | true =>
    have : 0 < l.countP p := List.countP_pos_iff.mpr ⟨a, ha, hp⟩
    omega

/-- **bad_implies_error.**  Static premise `creditOK g W roots`: in the call graph below the roots the error list is
    written only by appending (monotonicity), and every function meets its credit bound — which forces every counted
    `Bad*` literal and every counted handler run to be preceded, in every execution, by its own appended error.
    Conclusion, for every execution started by calling a root (however it ends):
      * the error list only grows;
      * `#counted Bad + #counted handler runs` grows by no more than `|errors|` does;
      * started with nothing counted, `errors = []` at the end implies no counted `Bad*` node was created and no
        counted handler ran. -/
theorem bad_implies_error {g : Prog} {W : Weights} {roots : List Nat} (h0 : creditOK g W roots = true)
    {e : Nat} (he : e ∈ roots) {s : State} {o : Out} {s' : State} (h : Exec g (.call e) s o s') :
    (∃ t, s'.errs = s.errs ++ t) ∧
    (cost W s' : Int) - cost W s ≤ (s'.errs.length : Int) - s.errs.length ∧
    (cost W s = 0 → s'.errs = [] → (∀ k ∈ s'.bads, W.bad k = false) ∧ (∀ f ∈ s'.caught, W.caught f = false)) := by
  obtain ⟨σ, R, hC, hR⟩ := checked_of_creditOK h0
  have hcr := hC.call_credit (hR e he).1 (hR e he).2 h
  have hgrow := errors_only_grow_aux hC.closed hC.mono h
    (fun f hf => by simp [Code.calls] at hf; rw [hf]; exact (hR e he).1) rfl
  refine ⟨hgrow, ?_, ?_⟩
  · unfold credit at hcr; omega
  · intro hz hnil
    unfold credit at hcr
    rw [hnil] at hcr
    obtain ⟨t, ht⟩ := hgrow
    rw [hnil] at ht
    have hs : s.errs = [] := by
      cases hse : s.errs with
      | nil => rfl
      | cons a l => rw [hse] at ht; cases ht
    rw [hs] at hcr
    simp only [List.length_nil] at hcr
    have hc0 : cost W s' = 0 := by omega
    unfold cost at hc0
    exact ⟨countP_zero_spec (by omega), countP_zero_spec (by omega)⟩

/-! ## entry shape -/

theorem tail_exec {g : Prog} {x y : String} {s : State} {r : EntryRes} {s' : State}
    (h : EntryExec g [.retIfErrors x, .retNil y] s r s') : s' = s ∧ r ≠ .escaped ∧ (r = .nilErr ↔ s.errs = []) := by
  cases h with
  | stepRaise hc _ => simp [EntryStmt.code?] at hc
  | stepNorm hc _ _ => simp [EntryStmt.code?] at hc
  | retErrs hne => exact ⟨rfl, by simp, by simp [hne]⟩
  | retSkip he h2 =>
    cases h2 with
    | stepRaise hc _ => simp [EntryStmt.code?] at hc
    | stepNorm hc _ _ => simp [EntryStmt.code?] at hc
    | retNil => exact ⟨rfl, by simp, by simp [he]⟩

theorem tailOK_spec {l : List EntryStmt} (h : tailOK l = true) : ∃ f x y, l = [.eofCheck f, .retIfErrors x, .retNil y] := by
  unfold tailOK at h
  split at h
  · exact ⟨_, _, _, rfl⟩
  · cases h

/-- **entry_contract.**  For an entry point of the shape `call… ; if tok ≠ <eof> { append error } ;
    if |errors| > 0 { return x, MultiError } ; return x, nil`: every execution that returns at all returns the nil
    error iff at the end the error list is empty and the current token is `<eof>`. -/
theorem entry_contract {g : Prog} {sh : List EntryStmt} (hw : wellShaped sh = true)
    {s : State} {r : EntryRes} {s' : State} (h : EntryExec g sh s r s') (hr : r ≠ .escaped) :
    (r = .nilErr ↔ s'.errs = [] ∧ s'.eof = true) := by
  induction h with
  | stepRaise => exact absurd rfl hr
  | stepNorm hc _ _ ih =>
    apply ih _ hr
    simpa [wellShaped, hc] using hw
  | eofYes he h2 =>
    simp only [wellShaped, EntryStmt.code?, Option.isSome_none, Bool.false_eq_true, if_false] at hw
    obtain ⟨f, x, y, hl⟩ := tailOK_spec hw
    injection hl with _ hl
    subst hl
    obtain ⟨h3, _, h5⟩ := tail_exec h2
    subst h3
    simp [h5, he]
  | eofNoRaise => exact absurd rfl hr
  | @eofNo f rest s s1 e r s2 he _ h2 =>
    simp only [wellShaped, EntryStmt.code?, Option.isSome_none, Bool.false_eq_true, if_false] at hw
    obtain ⟨f, x, y, hl⟩ := tailOK_spec hw
    injection hl with _ hl
    subst hl
    obtain ⟨h3, _, h5⟩ := tail_exec h2
    subst h3
    simp [h5]
  | retErrs => simp [wellShaped, EntryStmt.code?, tailOK] at hw
  | retSkip => simp [wellShaped, EntryStmt.code?, tailOK] at hw
  | retNil => simp [wellShaped, EntryStmt.code?, tailOK] at hw

theorem code?_calls {st : EntryStmt} {c : Code} (h : st.code? = some c) : (∀ f ∈ c.calls, f ∈ st.calls) ∧ c.raises = false := by
  cases st <;> simp [EntryStmt.code?] at h <;> subst h <;> simp [Code.calls, EntryStmt.calls, Code.raises]

/-- `no_escape` for the entry shape: the static condition on the functions the shape calls -/
theorem entry_no_escape {g : Prog} {roots : List Nat} {sh : List EntryStmt} (h0 : unprotectedReach g roots = [])
    (hsub : ∀ f ∈ sh.flatMap EntryStmt.calls, f ∈ roots)
    {s : State} {r : EntryRes} {s' : State} (h : EntryExec g sh s r s') : r ≠ .escaped := by
  obtain ⟨R, hB, hR'⟩ := barrier_of_unprotectedReach h0
  have hR : ∀ f ∈ sh.flatMap EntryStmt.calls, f ∈ R := fun f hf => hR' f (hsub f hf)
  clear h0 hsub hR'
  induction h with
  | @stepRaise st c rest s s1 hc hx =>
    have := no_raise hB hx (fun f hf => hR f (by simp [(code?_calls hc).1 f hf])) (code?_calls hc).2
    cases this
  | stepNorm _ _ _ ih => exact ih (fun e he => hR e (by simp only [List.flatMap_cons, List.mem_append]; exact Or.inr he))
  | eofYes _ _ ih => exact ih (fun e he => hR e (by simp only [List.flatMap_cons, List.mem_append]; exact Or.inr he))
  | @eofNoRaise f rest s s1 _ hx =>
    have := no_raise hB hx (fun x hx => by simp [Code.calls] at hx; subst hx; exact hR _ (by simp [EntryStmt.calls]))
      (by simp [Code.raises])
    cases this
  | eofNo _ _ _ ih => exact ih (fun e he => hR e (by simp only [List.flatMap_cons, List.mem_append]; exact Or.inr he))
  | retErrs => simp
  | retSkip _ _ ih => exact ih (fun e he => hR e (by simp only [List.flatMap_cons, List.mem_append]; exact Or.inr he))
  | retNil => simp

/-- `bad_implies_error` for the entry shape -/
theorem entry_credit {g : Prog} {W : Weights} {roots : List Nat} {sh : List EntryStmt} (h0 : creditOK g W roots = true)
    (hsub : ∀ f ∈ sh.flatMap EntryStmt.calls, f ∈ roots)
    {s : State} {r : EntryRes} {s' : State} (h : EntryExec g sh s r s') : credit W s ≤ credit W s' := by
  obtain ⟨σ, R, hC, hR'⟩ := checked_of_creditOK h0
  have hR : ∀ f ∈ sh.flatMap EntryStmt.calls, f ∈ R ∧ (Bound.dflt).le (σ f) = true := fun f hf => hR' f (hsub f hf)
  clear h0 hsub hR'
  have stepc : ∀ {st : EntryStmt} {c : Code} {s o s1}, st.code? = some c → (∀ f ∈ st.calls, f ∈ R ∧ (Bound.dflt).le (σ f) = true) →
      Exec g c s o s1 → credit W s ≤ credit W s1 := by
    intro st c s o s1 hc hin hx
    cases st <;> simp [EntryStmt.code?] at hc <;> subst hc
    case callStmt f => exact hC.call_credit (hin f (by simp [EntryStmt.calls])).1 (hin f (by simp [EntryStmt.calls])).2 hx
    case parse x f => exact hC.call_credit (hin f (by simp [EntryStmt.calls])).1 (hin f (by simp [EntryStmt.calls])).2 hx
    case parseList x l f =>
      have hl := hin l (by simp [EntryStmt.calls])
      have hf := hin f (by simp [EntryStmt.calls])
      generalize hcode : Code.loop (.choice (.call l) (.call f)) = c at hx
      induction hx with
      | loopDone => exact Int.le_refl _
      | @loopStep a s s1 o s2 ha _ _ ihb =>
        injection hcode with hcode
        subst hcode
        have h1 : credit W s ≤ credit W s1 := by
          cases ha with
          | choiceL h => exact hC.call_credit hl.1 hl.2 h
          | choiceR h => exact hC.call_credit hf.1 hf.2 h
        have h2 := ihb rfl
        omega
      | loopRaise ha _ =>
        injection hcode with hcode
        subst hcode
        cases ha with
        | choiceL h => exact hC.call_credit hl.1 hl.2 h
        | choiceR h => exact hC.call_credit hf.1 hf.2 h
      | _ => cases hcode
  induction h with
  | stepRaise hc hx => exact stepc hc (fun f hf => hR f (by simp [hf])) hx
  | stepNorm hc hx _ ih =>
    have h1 := stepc hc (fun f hf => hR f (by simp [hf])) hx
    have h2 := ih (fun e he => hR e (by simp only [List.flatMap_cons, List.mem_append]; exact Or.inr he))
    omega
  | eofYes _ _ ih => exact ih (fun e he => hR e (by simp only [List.flatMap_cons, List.mem_append]; exact Or.inr he))
  | @eofNoRaise f rest s s1 _ hx =>
    have hf := hR f (by simp [EntryStmt.calls])
    exact hC.call_credit hf.1 hf.2 hx
  | @eofNo f rest s s1 e r s2 _ hx _ ih =>
    have hf := hR f (by simp [EntryStmt.calls])
    have h1 := hC.call_credit hf.1 hf.2 hx
    have h2 := ih (fun e he => hR e (by simp only [List.flatMap_cons, List.mem_append]; exact Or.inr he))
    rw [credit_append] at h2
    omega
  | retErrs => exact Int.le_refl _
  | retSkip _ _ ih => exact ih (fun e he => hR e (by simp only [List.flatMap_cons, List.mem_append]; exact Or.inr he))
  | retNil => exact Int.le_refl _

/-- All three together, for an entry point started on a fresh parser: it returns (no escaping raise), returns the nil
    error iff the error list is empty and the token is `<eof>`, and the counted `Bad*` nodes and handler runs are at
    most as many as the errors — in particular none if the nil error is returned. -/
theorem entry_sound {g : Prog} {W : Weights} {roots : List Nat} {sh : List EntryStmt} (hw : wellShaped sh = true)
    (hsub : ∀ f ∈ sh.flatMap EntryStmt.calls, f ∈ roots)
    (hu : unprotectedReach g roots = []) (hc : creditOK g W roots = true)
    {b : Bool} {r : EntryRes} {s' : State} (h : EntryExec g sh (State.init b) r s') :
    r ≠ .escaped ∧ (r = .nilErr ↔ s'.errs = [] ∧ s'.eof = true) ∧ cost W s' ≤ s'.errs.length ∧
    (r = .nilErr → (∀ k ∈ s'.bads, W.bad k = false) ∧ (∀ f ∈ s'.caught, W.caught f = false)) := by
  have h1 := entry_no_escape hu hsub h
  have h2 := entry_contract hw h h1
  have h3 := entry_credit hc hsub h
  have h4 : cost W s' ≤ s'.errs.length := by
    simp only [credit, cost, State.init, List.length_nil, List.countP_nil] at h3
    unfold cost
    omega
  refine ⟨h1, h2, h4, fun hn => ?_⟩
  have he := (h2.mp hn).1
  rw [he] at h4
  simp only [List.length_nil, Nat.le_zero_eq] at h4
  unfold cost at h4
  exact ⟨countP_zero_spec (by omega), countP_zero_spec (by omega)⟩

/-! ## non-vacuity: a two-function program, with and without the `recover` -/

/-- function 0 calls function 1; function 1 raises under its own `recover`, whose handler appends an error and then
    builds a `BadExpr` -/
def toy : Prog := [{ body := .call 1 }, { body := .raise, handler := some (.seq .appendErr (.mkBad "BadExpr")) }]

/-- the same without the `recover` -/
def toyBroken : Prog := [{ body := .call 1 }, { body := .raise }]

/-- the handler builds the node first and may be interrupted before it records the error -/
def toyEager : Prog :=
  [{ body := .call 1 }, { body := .raise, handler := some (.seq (.mkBad "BadExpr") (.seq (.lex true) .appendErr)) }]

/-- no error recorded at all -/
def toySilent : Prog := [{ body := .call 1 }, { body := .raise, handler := some (.mkBad "BadExpr") }]

example : unprotectedReach toy [0] = [] := by decide
example : creditOK toy ⟨fun _ => true, fun _ => false⟩ [0] = true := by decide
example : creditOK toy ⟨fun _ => false, fun _ => true⟩ [0] = true := by decide
example : unprotectedReach toyBroken [0] = [1] := by decide
example : creditOK toyEager ⟨fun _ => true, fun _ => false⟩ [0] = false := by decide
example : creditOK toySilent ⟨fun _ => true, fun _ => false⟩ [0] = false := by decide
example : creditOK toySilent ⟨fun _ => false, fun _ => true⟩ [0] = false := by decide

/-- the machine does run the handler: one error, one `BadExpr`, one handler run, normal return -/
example : Exec toy (.call 0) (State.init) .norm ⟨[7], ["BadExpr"], [1], false⟩ :=
  .callPlain (d := toy[0]) rfl rfl (.seqNorm .skip
    (.callCaught (d := toy[1]) (h := .seq .appendErr (.mkBad "BadExpr")) rfl rfl .skip .raise
      (.seqNorm (.appendErr 7) (.mkBad "BadExpr"))))

/-- and without the `recover` the raise does escape: `no_escape`'s premise is not vacuous -/
example : Exec toyBroken (.call 0) (State.init) .raise (State.init) :=
  .callPlain (d := toyBroken[0]) rfl rfl (.seqNorm .skip (.callPlain (d := toyBroken[1]) rfl rfl (.seqNorm .skip .raise)))

end MF.Recovery
