/-
  MF.Proofs.PosChain — the lock-step pass `misfitsZip` of MF/Model/PosChain.lean computes what it should: if it returns
  `some M`, the two tables list the same kinds in the same order and every row either fits (`verdict … = .ok`) or is in `M`.
-/
import MF.Model.PosChain
namespace MF.PosChain
open MF MF.Ast

theorem misfitsZip_sound {bs : List (String × SqlBody)} {ds : List (String × PosE × PosE)} {M : List (String × Verdict)}
    (h : misfitsZip bs ds = some M) {b : String × SqlBody} {d : String × PosE × PosE} (hbd : (b, d) ∈ bs.zip ds) :
    b.1 = d.1 ∧ (verdict b.2 d.2.1 d.2.2 = .ok ∨ (d.1, verdict b.2 d.2.1 d.2.2) ∈ M) := by
  induction bs generalizing ds M with
  | nil => simp at hbd
  | cons b0 bs ih =>
    cases ds with
    | nil => simp at hbd
    | cons d0 ds =>
      simp only [misfitsZip] at h
      split at h
      · rename_i hname
        cases hz : misfitsZip bs ds with
        | none => simp [hz] at h
        | some M' =>
          simp only [hz, Option.map_some, Option.some.injEq] at h
          simp only [List.zip_cons_cons, List.mem_cons, Prod.mk.injEq] at hbd
          rcases hbd with ⟨rfl, rfl⟩ | hbd
          · refine ⟨by simpa using hname, ?_⟩
            cases hv : verdict b.2 d.2.1 d.2.2 with
            | ok => exact .inl rfl
            | noTemplate => rw [hv] at h; subst h; exact .inr (List.mem_cons_self ..)
            | posMismatch => rw [hv] at h; subst h; exact .inr (List.mem_cons_self ..)
            | endMismatch => rw [hv] at h; subst h; exact .inr (List.mem_cons_self ..)
            | bothMismatch => rw [hv] at h; subst h; exact .inr (List.mem_cons_self ..)
          · obtain ⟨h1, h2⟩ := ih hz hbd
            refine ⟨h1, ?_⟩
            rcases h2 with h2 | h2
            · exact .inl h2
            · refine .inr ?_
              subst h
              split
              · exact h2
              · exact List.mem_cons_of_mem _ h2
      · cases h

end MF.PosChain
