/-
  MF.Proofs.LexLocalScan — locality of the token scanners under truncation (continues LexLocalBasic).
-/
import MF.Proofs.LexLocalBasic
namespace MF.Lex

theorem skipComment_take {R : Bytes} {p0 : Nat} {np : Bool} {k : Nat} {he : Bool} {m : Nat}
    (h : skipComment R p0 np = .ok (k, he)) (hk : k ≤ m) : skipComment (R.take m) p0 np = .ok (k, he) := by
  by_cases hm' : R.length ≤ m
  · rw [List.take_of_length_le hm']; exact h
  have hm : m < R.length := by omega
  by_cases hk0 : k = 0
  · subst hk0
    have hnl : isLineCommentStart R = false := by
      cases hl : isLineCommentStart R with
      | false => rfl
      | true =>
        exfalso
        simp only [skipComment, hl, if_true] at h
        cases hs : scanUntil [10] R with
        | none =>
          rw [hs] at h
          simp only [Option.getD_none, Res.ok.injEq, Prod.mk.injEq] at h
          omega
        | some j =>
          rw [hs] at h
          have := (scanUntil_some hs).1
          simp at h this
          omega
    have hnb : isBlockCommentStart R = false := by
      cases hb : isBlockCommentStart R with
      | false => rfl
      | true =>
        exfalso
        simp only [skipComment, hnl, hb, Bool.false_eq_true, if_false, if_true] at h
        split at h
        · simp at h
        · split at h
          · simp only [Res.ok.injEq, Prod.mk.injEq] at h; omega
          · cases h
    have hnl' : isLineCommentStart (R.take m) = false := by
      cases hl : isLineCommentStart (R.take m) with
      | false => rfl
      | true => rw [isLineCommentStart_take_mono hl] at hnl; cases hnl
    have hnb' : isBlockCommentStart (R.take m) = false := by
      cases hb : isBlockCommentStart (R.take m) with
      | false => rfl
      | true => rw [isBlockCommentStart_take_mono hb] at hnb; cases hnb
    simp only [skipComment, hnl, hnb, Bool.false_eq_true, if_false] at h
    simp only [skipComment, hnl', hnb', Bool.false_eq_true, if_false]
    exact h
  · -- a comment was skipped: it is at least two bytes long
    have h2 : 2 ≤ k := by
      unfold skipComment at h
      split at h
      · rename_i hl
        cases hs : scanUntil [10] R with
        | none => rw [hs] at h; simp at h; omega
        | some j =>
          rw [hs] at h
          obtain ⟨a, b, c⟩ := scanUntil_some hs
          simp at h a
          obtain ⟨rfl, _⟩ := h
          rcases Nat.lt_or_ge j 2 with hj | hj
          · exfalso
            have hj1 : j = 1 := by omega
            subst hj1
            rw [isLineCommentStart_eq] at hl
            cases R with
            | nil => simp at hl
            | cons x t =>
              simp at c
              subst c
              simp at hl
          · exact hj
      · split at h
        · split at h
          · simp at h; omega
          · split at h
            · simp at h; omega
            · cases h
        · simp at h; omega
    have hm2 : 2 ≤ m := by omega
    unfold skipComment at h ⊢
    rw [isLineCommentStart_take2 hm2, isBlockCommentStart_take2 hm2]
    split at h
    · rename_i hl
      simp only [hl, if_true]
      cases hs : scanUntil [10] R with
      | none => rw [hs] at h; simp at h; omega
      | some j =>
        rw [hs] at h
        simp at h
        rw [scanUntil_take (by simp) hs (by omega)]
        simp [h]
    · rename_i hl
      simp only [hl, Bool.false_eq_true, if_false]
      split at h
      · rename_i hb
        simp only [hb, if_true]
        split at h
        · rename_i j hs
          simp at h
          rw [List.drop_take, scanUntil_take (by simp) hs (by omega)]
          simp [h]
        · split at h
          · simp at h; omega
          · cases h
      · simp at h; omega

/-! ## identifiers -/

theorem spanLen_take (pred : UInt8 → Bool) (R : Bytes) (m : Nat) :
    spanLen pred (R.take m) = min (spanLen pred R) m := by
  induction R generalizing m with
  | nil => simp [spanLen]
  | cons c t ih =>
    cases m with
    | zero => simp [spanLen]
    | succ m =>
      simp only [List.take_succ_cons, spanLen]
      split
      · rw [ih]; omega
      · simp

theorem spanLen_take_le {pred : UInt8 → Bool} {R : Bytes} {m : Nat} (h : spanLen pred R ≤ m) :
    spanLen pred (R.take m) = spanLen pred R := by
  rw [spanLen_take]; omega

/-! ## quoted content -/

theorem find?_congr' {α : Type} {p q : α → Bool} {l : List α} (h : ∀ a ∈ l, p a = q a) :
    l.find? p = l.find? q := by
  induction l with
  | nil => rfl
  | cons a l ih =>
    simp only [List.find?_cons, h a List.mem_cons_self]
    rw [ih (fun b hb => h b (List.mem_cons_of_mem _ hb))]

theorem firstBad_take {R : Bytes} {pred : UInt8 → Bool} {i n m : Nat} (h : i + n ≤ m) :
    firstBad (R.take m) pred i n = firstBad R pred i n := by
  unfold firstBad
  apply find?_congr'
  intro j hj
  have := List.mem_range.1 hj
  rw [take_getElem?_lt (by omega)]

theorem escapeDigits_take {R : Bytes} {p0 i : Nat} {pred : UInt8 → Bool} {start size base maxv : Nat}
    {k : ErrKind} {cp : Bool} {m : Nat} (h : i + size ≤ m) :
    escapeDigits (R.take m) p0 i pred start size base maxv k cp =
      escapeDigits R p0 i pred start size base maxv k cp := by
  unfold escapeDigits
  rw [firstBad_take h, lslice?_take h]

theorem escape_take {R : Bytes} {p0 : Nat} {u : Bool} {i : Nat} {c : UInt8} {bs : Bytes} {i' m : Nat}
    (h : escape R p0 u i c = .bytes bs i') (hm : i' ≤ m) : escape (R.take m) p0 u i c = .bytes bs i' := by
  unfold escape at h ⊢
  split at h
  · exact h
  · split at h
    · rename_i hc
      simp only [hc, if_true]
      have := escapeDigits_bytes (by decide) h
      rw [escapeDigits_take (by omega)]; exact h
    · rename_i hc
      simp only [hc, Bool.false_eq_true, if_false]
      split at h
      · rename_i hc2
        simp only [hc2, if_true]
        split at h
        · cases h
        · rename_i hu
          simp only [hu, Bool.false_eq_true, if_false]
          have := escapeDigits_bytes (by split <;> decide) h
          rw [escapeDigits_take (by omega)]; exact h
      · rename_i hc2
        simp only [hc2, Bool.false_eq_true, if_false]
        split at h
        · rename_i hc3
          simp only [hc3, if_true]
          have := escapeDigits_bytes (by decide) h
          rw [escapeDigits_take (by omega)]; exact h
        · cases h

theorem quotedStep_take_done {R : Bytes} {p0 : Nat} {q : Bytes} {raw uni isId : Bool}
    {i : Nat} {content : Bytes} {he : Bool} {qc : QC} {m : Nat}
    (h : quotedStep R p0 p0 q raw uni isId false i content he = .done qc) (hq : 0 < q.length)
    (hm : i + q.length ≤ m) :
    qc.len = i + q.length ∧ quotedStep (R.take m) p0 p0 q raw uni isId false i content he = .done qc := by
  unfold quotedStep at h ⊢
  rw [take_getElem?_lt (by omega), lslice?_take hm]
  split at h
  · simp at h
  · split at h
    · cases h
    · rename_i sl hsl
      split at h
      · rename_i hq
        simp only [hq, if_true]
        split at h
        · simp at h
        · rename_i hc
          simp only [hc, Bool.false_eq_true, if_false]
          split at h
          · rename_i hhe; cases h; exact ⟨rfl, by simp only [hhe, if_true]⟩
          · rename_i hhe; cases h; exact ⟨rfl, by simp only [hhe, Bool.false_eq_true, if_false]⟩
      · split at h
        · split at h
          · simp at h
          · split at h
            · cases h
            · split at h
              · cases h
              · simp at h
              · cases h
        · split at h
          · simp at h
          · cases h

theorem quotedStep_take_next {R : Bytes} {p0 : Nat} {q : Bytes} {raw uni isId : Bool}
    {i : Nat} {content : Bytes} {he : Bool} {i' : Nat} {c' : Bytes} {he' : Bool} {m : Nat}
    (h : quotedStep R p0 p0 q raw uni isId false i content he = .next i' c' he') (hq : 0 < q.length)
    (hm : i' + q.length ≤ m) :
    quotedStep (R.take m) p0 p0 q raw uni isId false i content he = .next i' c' he' := by
  have hlt := (quotedStep_next h).1
  unfold quotedStep at h ⊢
  rw [take_getElem?_lt (by omega), lslice?_take (by omega), take_getElem?_lt (by omega)]
  split at h
  · simp at h
  · split at h
    · cases h
    · rename_i sl hsl
      split at h
      · split at h
        · simp at h
        · split at h <;> cases h
      · rename_i hq
        simp only [hq, Bool.false_eq_true, if_false]
        split at h
        · rename_i hc
          simp only [hc, if_true]
          split at h
          · simp at h
          · split at h
            · rename_i hraw; simp only [hraw, if_true]; exact h
            · rename_i hraw
              simp only [hraw, Bool.false_eq_true, if_false]
              split at h
              · rename_i bs i2 hesc
                cases h
                rw [escape_take hesc (by omega)]
              · simp at h
              · cases h
        · rename_i hc
          simp only [hc, Bool.false_eq_true, if_false]
          exact h

theorem quotedLoop_len_ge {R : Bytes} {p0 : Nat} {q : Bytes} {raw uni isId : Bool}
    {fuel i : Nat} {content : Bytes} {he : Bool} {qc : QC}
    (h : quotedLoop R p0 p0 q raw uni isId false fuel i content he = .ok qc) (hq : 0 < q.length) :
    i + q.length ≤ qc.len := by
  induction fuel generalizing i content he with
  | zero => simp [quotedLoop] at h
  | succ fuel ih =>
    simp only [quotedLoop] at h
    split at h
    · rename_i qc' hd
      cases h
      have := (quotedStep_take_done (m := i + q.length) hd hq (Nat.le_refl _)).1
      omega
    · cases h
    · cases h
    · rename_i i' c' he' hn
      have := (quotedStep_next hn).1
      have := ih h
      omega

theorem quotedLoop_take {R : Bytes} {p0 : Nat} {q : Bytes} {raw uni isId : Bool}
    {fuel i : Nat} {content : Bytes} {he : Bool} {qc : QC} {m : Nat}
    (h : quotedLoop R p0 p0 q raw uni isId false fuel i content he = .ok qc) (hq : 0 < q.length)
    (hm : qc.len ≤ m) :
    quotedLoop (R.take m) p0 p0 q raw uni isId false fuel i content he = .ok qc := by
  induction fuel generalizing i content he with
  | zero => simp [quotedLoop] at h
  | succ fuel ih =>
    simp only [quotedLoop] at h ⊢
    split at h
    · rename_i qc' hd
      cases h
      have hl := (quotedStep_take_done (m := i + q.length) hd hq (Nat.le_refl _)).1
      rw [(quotedStep_take_done (m := m) hd hq (by omega)).2]
    · cases h
    · cases h
    · rename_i i' c' he' hn
      have := quotedLoop_len_ge h hq
      rw [quotedStep_take_next hn hq (by omega)]
      exact ih h

theorem quotedLoop_ok_lt {R : Bytes} {tp p0 : Nat} {q : Bytes} {raw uni isId : Bool}
    {fuel i : Nat} {content : Bytes} {he : Bool} {qc : QC}
    (h : quotedLoop R tp p0 q raw uni isId false fuel i content he = .ok qc) : i < R.length := by
  cases fuel with
  | zero => simp [quotedLoop] at h
  | succ fuel =>
    simp only [quotedLoop, quotedStep] at h
    cases hi : R[i]? with
    | none => simp [hi] at h
    | some c => exact getElem?_some_lt hi

/-- more fuel does not change a result other than running out of it -/
theorem quotedLoop_fuel_mono {R : Bytes} {tp p0 : Nat} {q : Bytes} {raw uni isId np : Bool}
    {f f' i : Nat} {content : Bytes} {he : Bool}
    (h : quotedLoop R tp p0 q raw uni isId np f i content he ≠ .crash) (hf : f ≤ f') :
    quotedLoop R tp p0 q raw uni isId np f' i content he = quotedLoop R tp p0 q raw uni isId np f i content he := by
  induction f generalizing f' i content he with
  | zero => simp [quotedLoop] at h
  | succ f ih =>
    cases f' with
    | zero => omega
    | succ f' =>
      simp only [quotedLoop] at h ⊢
      split
      · rfl
      · rfl
      · rfl
      · rename_i i' c' he' hn
        rw [hn] at h
        exact ih h (by omega)

theorem consumeQuotedContent_take {R : Bytes} {p0 : Nat} {q : Bytes} {raw uni isId : Bool} {qc : QC} {m : Nat}
    (h : consumeQuotedContent R p0 q raw uni isId false = .ok qc) (hq : 0 < q.length) (hm : qc.len ≤ m) :
    consumeQuotedContent (R.take m) p0 q raw uni isId false = .ok qc := by
  unfold consumeQuotedContent at h ⊢
  have hlen := quotedLoop_len_ge h hq
  have hlt := quotedLoop_ok_lt h
  have hlen2 := (quotedLoop_len h (by omega)).2
  have h1 := quotedLoop_take h hq hm
  have hql : q.length ≤ (R.take m).length := by rw [List.length_take]; omega
  have hnc : quotedLoop (R.take m) p0 p0 q raw uni isId false ((R.take m).length + 2) q.length [] false ≠ .crash :=
    quotedLoop_ne_crash hql (by omega)
  have := quotedLoop_fuel_mono (f' := R.length + 2) hnc (by rw [List.length_take]; omega)
  rw [← this, h1]

/-! ## numbers -/

theorem isDigit_identPart : ∀ c : UInt8, Char.isDigit c = true → Char.isIdentPart c = true := by
  apply UInt8.forall_of_fin; decide +kernel

theorem exp_identPart : ∀ c : UInt8, (c == 69 || c == 101) = true → Char.isIdentPart c = true := by
  apply UInt8.forall_of_fin; decide +kernel

theorem numberLoop_take {R : Bytes} {base fuel i : Nat} {isInt exp : Bool} {iF : Nat} {b : Bool} {m : Nat}
    (h : numberLoop R base fuel i isInt exp = some (iF, b)) (hi : i ≤ R.length) (hm : iF ≤ m)
    (hstop : ∀ c, R[iF]? = some c → Char.isIdentPart c = false) :
    numberLoop (R.take m) base fuel i isInt exp = some (iF, b) := by
  induction fuel generalizing i isInt exp with
  | zero => simp [numberLoop] at h
  | succ fuel ih =>
    simp only [numberLoop] at h ⊢
    split at h
    · rename_i hn
      cases h
      have : (R.take m)[iF]? = none := by
        rw [List.getElem?_take]; split <;> simp [hn]
      simp [this]
    · rename_i c hc
      have hlt := getElem?_some_lt hc
      -- a step that continues has `i < iF ≤ m`, so the truncated input shows the same byte
      have hcont : ∀ {j a e}, numberLoop R base fuel j a e = some (iF, b) → i < j → j ≤ R.length →
          (R.take m)[i]? = some c := by
        intro j a e hj hij hjl
        have := (numberLoop_bound hj hjl).1
        rw [take_getElem?_lt (by omega)]; exact hc
      split at h
      · rename_i h1
        rw [hcont h (by omega) (by omega)]
        simp only [h1, if_true]
        exact ih h (by omega)
      · rename_i h1
        split at h
        · rename_i h2
          rw [hcont h (by omega) (by omega)]
          simp only [h1, Bool.false_eq_true, if_false, h2, if_true]
          exact ih h (by omega)
        · rename_i h2
          split at h
          · rename_i h3
            rw [hcont h (by omega) (by omega)]
            simp only [h1, Bool.false_eq_true, if_false, h2, h3, if_true]
            exact ih h (by omega)
          · rename_i h3
            split at h
            · rename_i h4
              have hce : Char.isIdentPart c = true := by
                simp only [Bool.and_eq_true] at h4
                exact exp_identPart c h4.2
              split at h
              · rename_i d hd
                have hlt2 := getElem?_some_lt hd
                split at h
                · rename_i hdig
                  -- the exponent continues
                  have hb := (numberLoop_bound h (by omega)).1
                  have hi2 : (if (R[i + 1]? == some 43 || R[i + 1]? == some 45) = true then i + 1 + 1 else i + 1) < iF := by
                    rcases Nat.lt_or_ge (if (R[i + 1]? == some 43 || R[i + 1]? == some 45) = true then i + 1 + 1 else i + 1) iF with hx | hx
                    · exact hx
                    · exfalso
                      have : iF = (if (R[i + 1]? == some 43 || R[i + 1]? == some 45) = true then i + 1 + 1 else i + 1) := by omega
                      rw [this] at hstop
                      have := hstop d hd
                      rw [isDigit_identPart d hdig] at this
                      cases this
                  have hi1 : i + 1 < m := by
                    have : i + 1 ≤ (if (R[i + 1]? == some 43 || R[i + 1]? == some 45) = true then i + 1 + 1 else i + 1) := by
                      split <;> omega
                    omega
                  rw [take_getElem?_lt (by omega), hc]
                  simp only [h1, Bool.false_eq_true, if_false, h2, h3, h4, if_true]
                  rw [take_getElem?_lt hi1, take_getElem?_lt (by omega), hd]
                  simp only [hdig, if_true]
                  exact ih h (by omega)
                · cases h
                  exfalso
                  have := hstop c hc
                  rw [hce] at this; cases this
              · cases h
                exfalso
                have := hstop c hc
                rw [hce] at this; cases this
            · rename_i h4
              cases h
              -- the loop stops here
              rcases Nat.lt_or_ge iF m with him | him
              · rw [take_getElem?_lt him, hc]
                simp only [h1, Bool.false_eq_true, if_false, h2, h3, h4]
              · rw [take_getElem?_ge him]

theorem numberLoop_fuel_mono {R : Bytes} {base f f' i : Nat} {a e : Bool}
    (h : numberLoop R base f i a e ≠ none) (hf : f ≤ f') :
    numberLoop R base f' i a e = numberLoop R base f i a e := by
  induction f generalizing f' i a e with
  | zero => simp [numberLoop] at h
  | succ f ih =>
    cases f' with
    | zero => omega
    | succ f' =>
      simp only [numberLoop] at h ⊢
      split
      · rfl
      · rename_i c hc
        simp only [hc] at h
        split
        · rename_i h1; simp only [h1, if_true] at h; exact ih h (by omega)
        · rename_i h1
          simp only [h1, Bool.false_eq_true, if_false] at h
          split
          · rename_i h2; simp only [h2, if_true] at h; exact ih h (by omega)
          · rename_i h2
            simp only [h2, Bool.false_eq_true, if_false] at h
            split
            · rename_i h3; simp only [h3, if_true] at h; exact ih h (by omega)
            · rename_i h3
              simp only [h3, Bool.false_eq_true, if_false] at h
              split
              · rename_i h4
                simp only [h4, if_true] at h
                split
                · rename_i d hd
                  simp only [hd] at h
                  split
                  · rename_i h5; simp only [h5, if_true] at h; exact ih h (by omega)
                  · rfl
                · rfl
              · rfl

theorem isHexPrefix_eq (R : Bytes) : isHexPrefix R =
    (R[0]? == some 48 && (R[1]? == some 120 || R[1]? == some 88) &&
      (match R[2]? with | some d => Char.isHexDigit d | none => false)) := by
  unfold isHexPrefix peekSat; rfl

theorem isHexPrefix_take_mono {R : Bytes} {m : Nat} (h : isHexPrefix (R.take m) = true) : isHexPrefix R = true := by
  rw [isHexPrefix_eq] at h ⊢
  simp only [List.getElem?_take] at h
  by_cases h0 : 0 < m <;> by_cases h1 : 1 < m <;> by_cases h2 : 2 < m <;> simp_all

theorem isHexPrefix_take3 {R : Bytes} {m : Nat} (hm : 3 ≤ m) : isHexPrefix (R.take m) = isHexPrefix R := by
  rw [isHexPrefix_eq, isHexPrefix_eq, take_getElem?_lt (by omega), take_getElem?_lt (by omega),
    take_getElem?_lt (by omega)]

theorem numberLoop_hex_ge3 {R : Bytes} {fuel : Nat} {a e : Bool} {iF : Nat} {b : Bool}
    (hx : isHexPrefix R = true) (h : numberLoop R 16 fuel 2 a e = some (iF, b)) : 3 ≤ iF := by
  have hl := isHexPrefix_len hx
  rw [isHexPrefix_eq] at hx
  cases fuel with
  | zero => simp [numberLoop] at h
  | succ fuel =>
    cases h2 : R[2]? with
    | none => rw [h2] at hx; simp at hx
    | some d =>
      rw [h2] at hx
      simp only [Bool.and_eq_true] at hx
      have hd : Char.isHexDigit d = true := hx.2
      simp only [numberLoop, h2, hd] at h
      have h10 : ((16 : Nat) == 10) = false := by decide
      simp only [h10, Bool.false_and, Bool.false_eq_true, if_false, beq_self_eq_true, Bool.true_and, if_true] at h
      have := (numberLoop_bound h (by omega)).1
      omega

theorem consumeNumber_take {R : Bytes} {p0 : Nat} {sc : Scan} {m : Nat}
    (h : consumeNumber R p0 false = .ok sc) (hm : sc.len ≤ m) : consumeNumber (R.take m) p0 false = .ok sc := by
  unfold consumeNumber at h
  simp only at h
  split at h
  · cases h
  · rename_i i isInt hnl
    have hi0 : (if isHexPrefix R = true then 2 else 0) ≤ R.length := by
      split
      · rename_i hh
        have := isHexPrefix_len hh
        omega
      · omega
    have hb := numberLoop_bound hnl hi0
    -- the scanned length is `i`, and the byte after the number does not continue it
    have hfacts : sc.len = i ∧ (∀ c, R[i]? = some c → Char.isIdentPart c = false) ∧
        sc = (if isInt then { kind := .int, len := i, base := (if isHexPrefix R = true then 16 else 10) }
              else { kind := .float, len := i }) := by
      split at h
      · rename_i c hc
        split at h
        · simp at h
        · rename_i hip
          cases h
          refine ⟨by split <;> rfl, ?_, rfl⟩
          intro c' hc'
          rw [hc] at hc'; cases hc'
          simpa using hip
      · rename_i hc
        cases h
        exact ⟨by split <;> rfl, fun c' hc' => (by rw [hc] at hc'; cases hc'), rfl⟩
    obtain ⟨hlen, hstop, hsc⟩ := hfacts
    have him : i ≤ m := by omega
    have hhex : isHexPrefix (R.take m) = isHexPrefix R := by
      cases hx : isHexPrefix R with
      | true =>
        rw [hx] at hnl
        simp only [if_true] at hnl
        have := numberLoop_hex_ge3 hx hnl
        rw [isHexPrefix_take3 (by omega)]; exact hx
      | false =>
        cases hx' : isHexPrefix (R.take m) with
        | false => rfl
        | true => rw [isHexPrefix_take_mono hx'] at hx; cases hx
    have h1 := numberLoop_take hnl hi0 him hstop
    have hlen' : (R.take m).length = min m R.length := List.length_take
    have hnn : numberLoop (R.take m) (if isHexPrefix R = true then 16 else 10) ((R.take m).length + 1)
        (if isHexPrefix R = true then 2 else 0) true false ≠ none :=
      numberLoop_ne_none (by rw [hlen']; omega) (by omega)
    have h2 := numberLoop_fuel_mono (f' := R.length + 1) hnn (by rw [hlen']; omega)
    rw [h1] at h2
    unfold consumeNumber
    simp only [hhex]
    rw [← h2]
    simp only
    rcases Nat.lt_or_ge i m with hlt | hge
    · rw [take_getElem?_lt hlt]
      cases hc : R[i]? with
      | none => simp only; rw [hsc]
      | some c =>
        simp only [hstop c hc, Bool.false_eq_true, if_false]
        rw [hsc]
    · rw [take_getElem?_ge hge]
      simp only
      rw [hsc]

/-! ## strings, identifiers, parameters -/

theorem strPrefix_idx_le {R : Bytes} {fuel i0 : Nat} {b r : Bool} {i : Nat} {b' r' : Bool}
    (h : strPrefix R fuel i0 b r = some (i, b', r')) : i0 ≤ i := by
  induction fuel generalizing i0 b r with
  | zero => simp [strPrefix] at h
  | succ fuel ih =>
    simp only [strPrefix] at h
    split at h
    · cases h
    · split at h
      · have := ih h; omega
      · split at h
        · have := ih h; omega
        · split at h
          · cases h; exact Nat.le_refl _
          · cases h

theorem strPrefix_take_some {R : Bytes} {fuel i0 : Nat} {b r : Bool} {i : Nat} {b' r' : Bool} {m : Nat}
    (h : strPrefix R fuel i0 b r = some (i, b', r')) (hm : i < m) :
    strPrefix (R.take m) fuel i0 b r = some (i, b', r') := by
  induction fuel generalizing i0 b r with
  | zero => simp [strPrefix] at h
  | succ fuel ih =>
    have hle := strPrefix_idx_le h
    simp only [strPrefix] at h ⊢
    rw [take_getElem?_lt (by omega)]
    split at h
    · cases h
    · split at h
      · rename_i h1; simp only [h1, if_true]; exact ih h
      · rename_i h1
        simp only [h1, Bool.false_eq_true, if_false]
        split at h
        · rename_i h2; simp only [h2, if_true]; exact ih h
        · rename_i h2
          simp only [h2, Bool.false_eq_true, if_false]
          exact h

theorem strPrefix_take_none {R : Bytes} {fuel i0 : Nat} {b r : Bool} {m : Nat}
    (h : strPrefix R fuel i0 b r = none) : strPrefix (R.take m) fuel i0 b r = none := by
  induction fuel generalizing i0 b r with
  | zero => simp [strPrefix]
  | succ fuel ih =>
    simp only [strPrefix] at h ⊢
    rcases Nat.lt_or_ge i0 m with hlt | hge
    · rw [take_getElem?_lt hlt]
      split at h
      · rfl
      · split at h
        · rename_i h1; simp only [h1, if_true]; exact ih h
        · rename_i h1
          simp only [h1, Bool.false_eq_true, if_false]
          split at h
          · rename_i h2; simp only [h2, if_true]; exact ih h
          · rename_i h2
            simp only [h2, Bool.false_eq_true, if_false]
            exact h
    · rw [take_getElem?_ge hge]

theorem peekDelimiter_take {S q : Bytes} {k : Nat} (h : peekDelimiter S = some q) (hk : q.length ≤ k) :
    peekDelimiter (S.take k) = some q := by
  unfold peekDelimiter at h ⊢
  split at h
  · cases h
  · rename_i c hc
    split at h
    · cases h
    · rename_i hq
      split at h
      · rename_i h3
        cases h
        simp only [List.length_cons, List.length_nil] at hk
        rw [take_getElem?_lt (by omega), take_getElem?_lt (by omega), take_getElem?_lt (by omega), hc]
        simp only [hq, Bool.false_eq_true, if_false, h3, if_true]
      · rename_i h3
        cases h
        simp only [List.length_cons, List.length_nil] at hk
        rw [take_getElem?_lt (by omega), hc]
        simp only [hq, Bool.false_eq_true, if_false]
        have : ¬ (((S.take k)[1]? == some c && (S.take k)[2]? == some c) = true) := by
          intro hx
          apply h3
          simp only [List.getElem?_take] at hx
          by_cases h1 : 1 < k <;> by_cases h2 : 2 < k <;> simp_all
        simp only [this, Bool.false_eq_true, if_false]

theorem identTok_take {R : Bytes} {m : Nat} (h : spanLen Char.isIdentPart R ≤ m) : identTok (R.take m) = identTok R := by
  unfold identTok
  simp only
  rw [spanLen_take_le h, List.take_take, Nat.min_eq_left h]

theorem paramTok_take {R : Bytes} {sc : Scan} {m : Nat} (h : paramTok R = .ok sc) (hm : sc.len ≤ m) :
    paramTok (R.take m) = .ok sc := by
  unfold paramTok at h ⊢
  simp only at h ⊢
  cases h
  simp only at hm
  have h1 : spanLen Char.isIdentPart ((R.take m).drop 1) = spanLen Char.isIdentPart (R.drop 1) := by
    rw [List.drop_take, spanLen_take_le (by omega)]
  rw [h1, slice_take hm]

theorem stringTok_take {R : Bytes} {c : UInt8} {p0 : Nat} {sc : Scan} {m : Nat}
    (h : stringTok R c p0 false = .ok sc) (hm : sc.len ≤ m) : stringTok (R.take m) c p0 false = .ok sc := by
  unfold stringTok at h ⊢
  split at h
  · rename_i i b r hsp
    have hp := strPrefix_some hsp
    split at h
    · cases h
    · rename_i q hq
      have hd := peekDelimiter_some hq
      simp only [List.length_drop] at hd
      unfold quotedTok at h
      split at h
      · rename_i qc hqc
        cases h
        simp only at hm
        have hql := consumeQuotedContent_ok hqc (by simp only [List.length_drop]; omega)
        rw [strPrefix_take_some hsp (by omega)]
        simp only
        rw [List.drop_take, peekDelimiter_take hq (by omega)]
        simp only
        rw [consumeQuotedContent_take hqc hd.1 (by omega)]
        rfl
      · cases h
      · cases h
  · rename_i hsp
    rw [strPrefix_take_none hsp]
    simp only
    unfold fallbackTok at h ⊢
    split at h
    · rename_i hs
      simp only [hs, if_true]
      cases h
      have : spanLen Char.isIdentPart R ≤ m := by
        unfold identTok at hm
        simp only at hm
        split at hm <;> exact hm
      rw [identTok_take this]
    · simp at h

/-! ## the one-byte look-ahead and the sentinel -/

/-- the byte at offset `m`, if there is one, is `;` -/
def Sentinel (R : Bytes) (m : Nat) : Prop := m < R.length → R[m]? = some 59

theorem peekIs_take {R : Bytes} {m : Nat} (hm : 1 ≤ m) (hs : Sentinel R m) (x : UInt8) (hx : x ≠ 59) :
    peekIs (R.take m) 1 x = peekIs R 1 x := by
  unfold peekIs
  rcases Nat.lt_or_ge 1 m with h | h
  · rw [take_getElem?_lt h]
  · have hm1 : m = 1 := by omega
    subst hm1
    rw [take_getElem?_ge (Nat.le_refl _)]
    rcases Nat.lt_or_ge 1 R.length with hl | hl
    · rw [hs hl]
      have : ¬ (59 : UInt8) = x := fun h => hx h.symm
      simp [this]
    · rw [List.getElem?_eq_none hl]

theorem peekSat_take {R : Bytes} {m : Nat} (hm : 1 ≤ m) (hs : Sentinel R m) (pred : UInt8 → Bool)
    (hp : pred 59 = false) : peekSat (R.take m) 1 pred = peekSat R 1 pred := by
  unfold peekSat
  rcases Nat.lt_or_ge 1 m with h | h
  · rw [take_getElem?_lt h]
  · have hm1 : m = 1 := by omega
    subst hm1
    rw [take_getElem?_ge (Nat.le_refl _)]
    rcases Nat.lt_or_ge 1 R.length with hl | hl
    · rw [hs hl]; simp [hp]
    · rw [List.getElem?_eq_none hl]

/-! ## `consumeToken` -/

/-- the `switch l.peek(0)` of `consumeToken` with the first byte as a parameter -/
def tokBody (rest : Bytes) (c : UInt8) (p0 : Nat) (lastKind : TokKind) (noPanic : Bool) : Res Scan :=
  match classify c with
  | .single => .ok { kind := .sym [c], len := 1 }
  | .dot =>
    if !isNextDotIdent lastKind && peekSat rest 1 Char.isDigit then consumeNumber rest p0 noPanic
    else .ok { kind := K ".", len := 1, dot := isNextDotIdent lastKind }
  | .lt =>
    if peekIs rest 1 60 then tok2 "<<" else if peekIs rest 1 61 then tok2 "<="
    else if peekIs rest 1 62 then tok2 "<>" else tok1 "<"
  | .gt =>
    if peekIs rest 1 62 then tok2 ">>" else if peekIs rest 1 61 then tok2 ">=" else tok1 ">"
  | .plus => if peekIs rest 1 61 then tok2 "+=" else tok1 "+"
  | .minus =>
    if peekIs rest 1 61 then tok2 "-=" else if peekIs rest 1 62 then tok2 "->" else tok1 "-"
  | .eq => if peekIs rest 1 62 then tok2 "=>" else tok1 "="
  | .bar =>
    if peekIs rest 1 62 then tok2 "|>" else if peekIs rest 1 124 then tok2 "||" else tok1 "|"
  | .bang => if peekIs rest 1 61 then tok2 "!=" else tok1 "!"
  | .at =>
    if peekIs rest 1 64 then tok2 "@@"
    else if peekSat rest 1 Char.isIdentStart then paramTok rest
    else tok1 "@"
  | .bquote => quotedTok .ident 0 (consumeQuotedContent rest p0 [96] false true true noPanic)
  | .digit => consumeNumber rest p0 noPanic
  | .strStart => stringTok rest c p0 noPanic
  | .other => fallbackTok rest c p0 noPanic

theorem consumeToken_cons (c : UInt8) (t : Bytes) (p0 : Nat) (lk : TokKind) (np : Bool) :
    consumeToken (c :: t) p0 lk np = tokBody (c :: t) c p0 lk np := rfl

theorem isDigit_semi : Char.isDigit 59 = false := by decide
theorem isIdentStart_semi : Char.isIdentStart 59 = false := by decide
theorem isIdentPart_semi : Char.isIdentPart 59 = false := by decide

theorem tokBody_take {R : Bytes} {c : UInt8} {p0 : Nat} {lk : TokKind} {sc : Scan} {m : Nat}
    (h : tokBody R c p0 lk false = .ok sc) (hm : sc.len ≤ m) (hm1 : 1 ≤ m) (hs : Sentinel R m) :
    tokBody (R.take m) c p0 lk false = .ok sc := by
  have pI := fun x hx => peekIs_take hm1 hs x hx
  have pD := peekSat_take hm1 hs Char.isDigit isDigit_semi
  have pS := peekSat_take hm1 hs Char.isIdentStart isIdentStart_semi
  unfold tokBody at h ⊢
  split at h
  · exact h
  · rw [pD]
    split at h
    · rename_i hc; simp only [hc, if_true]; exact consumeNumber_take h hm
    · rename_i hc; simp only [hc, Bool.false_eq_true, if_false]; exact h
  · rw [pI 60 (by decide), pI 61 (by decide), pI 62 (by decide)]; exact h
  · rw [pI 62 (by decide), pI 61 (by decide)]; exact h
  · rw [pI 61 (by decide)]; exact h
  · rw [pI 61 (by decide), pI 62 (by decide)]; exact h
  · rw [pI 62 (by decide)]; exact h
  · rw [pI 62 (by decide), pI 124 (by decide)]; exact h
  · rw [pI 61 (by decide)]; exact h
  · rw [pI 64 (by decide), pS]
    split at h
    · rename_i hc; simp only [hc, if_true]; exact h
    · rename_i hc
      simp only [hc, Bool.false_eq_true, if_false]
      split at h
      · rename_i hc2; simp only [hc2, if_true]; exact paramTok_take h hm
      · rename_i hc2; simp only [hc2, Bool.false_eq_true, if_false]; exact h
  · unfold quotedTok at h
    split at h
    · rename_i qc hqc
      cases h
      simp only at hm
      rw [consumeQuotedContent_take hqc (by decide) (by omega)]
      rfl
    · cases h
    · cases h
  · exact consumeNumber_take h hm
  · exact stringTok_take h hm
  · unfold fallbackTok at h ⊢
    split at h
    · rename_i hs'
      simp only [hs', if_true]
      cases h
      have : spanLen Char.isIdentPart R ≤ m := by
        unfold identTok at hm
        simp only at hm
        split at hm <;> exact hm
      rw [identTok_take this]
    · simp at h

/-- C11, lexer half, per token: a token scan that ends at or before offset `m`, where the byte at `m` is `;`,
is the same on the input cut at `m` -/
theorem consumeToken_take {R : Bytes} {p0 : Nat} {lk : TokKind} {sc : Scan} {m : Nat}
    (h : consumeToken R p0 lk false = .ok sc) (hm : sc.len ≤ m) (hs : Sentinel R m) :
    consumeToken (R.take m) p0 lk false = .ok sc := by
  cases R with
  | nil => simpa using h
  | cons c t =>
    have hpos := (consumeToken_ok h).pos (by simp)
    cases m with
    | zero => omega
    | succ m =>
      rw [consumeToken_cons] at h
      have := tokBody_take h hm (by omega) hs
      rw [List.take_succ_cons] at this ⊢
      rw [consumeToken_cons]; exact this

theorem consumeFieldToken_take {R : Bytes} {p0 : Nat} {lk : TokKind} {sc : Scan} {m : Nat}
    (h : consumeFieldToken R p0 lk false = .ok sc) (hm : sc.len ≤ m) (hs : Sentinel R m) :
    consumeFieldToken (R.take m) p0 lk false = .ok sc := by
  cases R with
  | nil => simpa using h
  | cons c t =>
    have hpos := (consumeFieldToken_ok h).pos (by simp)
    cases m with
    | zero => omega
    | succ m =>
      rw [List.take_succ_cons]
      unfold consumeFieldToken at h ⊢
      simp only at h ⊢
      split at h
      · rename_i hc
        simp only [hc, if_true]
        cases h
        simp only at hm
        rw [← List.take_succ_cons, spanLen_take_le hm, List.take_take, Nat.min_eq_left hm]
      · rename_i hc
        simp only [hc, Bool.false_eq_true, if_false]
        rw [← List.take_succ_cons]
        exact consumeToken_take h hm hs

end MF.Lex
