/-
  MF.Proofs.LexAppendTok — forward extension of one token / one step of the reference lexer:
  a token that ends strictly inside `R` is the same token on `R ++ W` (`token_append`, `next_append`).
-/
import MF.Proofs.LexAppend
set_option linter.unusedSimpArgs false
namespace MF.Concat
open MF MF.Lex MF.Spec.Lexical

theorem take_append_le {R : Bytes} {n : Nat} (h : n ≤ R.length) (W : Bytes) : (R ++ W).take n = R.take n :=
  List.take_append_of_le_length h

theorem rb_facts : ∀ c : UInt8, ((c == 82 || c == 114) = true ∨ (c == 66 || c == 98) = true) → isIdentChar c = true ∧
    isLetter c = true := by
  apply UInt8.forall_of_fin; decide +kernel

/-- `literalPrefix` of a two-byte input that has none, extended: still none, unless both bytes are `r`/`b` letters -/
theorem literalPrefix_two_none {c x : UInt8} (h : literalPrefix [c, x] = none)
    (hcx : ((c == 82 || c == 114) = false ∧ (c == 66 || c == 98) = false) ∨
           ((x == 82 || x == 114) = false ∧ (x == 66 || x == 98) = false)) (W : Bytes) :
    literalPrefix (c :: x :: W) = none := by
  cases W with
  | nil => exact h
  | cons y W' =>
    simp only [literalPrefix] at h ⊢
    by_cases q0 : (c == 34 || c == 39) = true
    · simp [q0] at h
    · simp only [q0, Bool.false_eq_true, if_false] at h ⊢
      by_cases q1 : ((c == 82 || c == 114) && (x == 34 || x == 39)) = true
      · simp [q1] at h
      · simp only [q1, Bool.false_eq_true, if_false] at h ⊢
        by_cases q2 : ((c == 66 || c == 98) && (x == 34 || x == 39)) = true
        · simp [q2] at h
        · simp only [q2, Bool.false_eq_true, if_false] at h ⊢
          rcases hcx with ⟨a1, a2⟩ | ⟨a1, a2⟩ <;> simp [a1, a2]

/-- **forward extension of a token**: a token of the reference lexer that ends strictly inside `R` is the same
token on `R ++ W` -/
theorem token_append {R : Bytes} {lk : TokKind} {d : Bool} {t : STok} (h : token R lk d = some t)
    (h1 : 1 ≤ t.len) (hlt : t.len < R.length) (W : Bytes) : token (R ++ W) lk d = some t := by
  cases R with
  | nil => simp at hlt
  | cons c s =>
    have hs : ∃ x u, s = x :: u := by
      cases s with
      | nil => simp only [List.length_cons, List.length_nil] at hlt; omega
      | cons x u => exact ⟨x, u, rfl⟩
    obtain ⟨x, u, rfl⟩ := hs
    rw [List.cons_append, List.cons_append]
    unfold token at h ⊢
    simp only [] at h ⊢
    by_cases c1 : (d && isIdentChar c) = true
    · -- field mode
      simp only [if_pos c1] at h ⊢
      cases h
      simp only at hlt
      have hr : run isIdentChar (c :: x :: (u ++ W)) = run isIdentChar (c :: x :: u) := by
        have := run_append_lt hlt W
        simpa using this
      rw [hr]
      have ht : (c :: x :: (u ++ W)).take (run isIdentChar (c :: x :: u)) =
          (c :: x :: u).take (run isIdentChar (c :: x :: u)) := by
        have := take_append_le (Nat.le_of_lt hlt) W
        simpa using this
      rw [ht]
    · simp only [if_neg c1] at h ⊢
      have hnum : ∀ {t : STok},
          (match number (c :: x :: u) with
            | (k, n) =>
              if (match List.drop n (c :: x :: u) with | y :: _ => isIdentChar y | [] => false) = true then none
              else some { kind := if (k == NumKind.float) = true then TokKind.float else TokKind.int, len := n,
                          base := if (k == NumKind.int16) = true then 16 else if (k == NumKind.int10) = true then 10 else 0 }) =
            some t → 1 ≤ t.len → t.len < (c :: x :: u).length →
          (match number (c :: x :: (u ++ W)) with
            | (k, n) =>
              if (match List.drop n (c :: x :: (u ++ W)) with | y :: _ => isIdentChar y | [] => false) = true then none
              else some { kind := if (k == NumKind.float) = true then TokKind.float else TokKind.int, len := n,
                          base := if (k == NumKind.int16) = true then 16 else if (k == NumKind.int10) = true then 10 else 0 }) =
            some t := by
        intro t h h1 hlt
        cases hn : number (c :: x :: u) with
        | mk k n =>
          simp only [hn] at h
          by_cases hc : (match List.drop n (c :: x :: u) with | y :: _ => isIdentChar y | [] => false) = true
          · rw [if_pos hc] at h; cases h
          · rw [if_neg hc] at h
            cases h
            simp only at h1 hlt
            have hid : headSat isIdentChar ((c :: x :: u).drop n) = false := by
              cases hd : (c :: x :: u).drop n with
              | nil => rfl
              | cons y r => rw [hd] at hc; simpa using hc
            have hna := number_append_lt hn h1 hlt hid W
            simp only [List.cons_append] at hna
            simp only [hna]
            have hdr : (c :: x :: (u ++ W)).drop n = (c :: x :: u).drop n ++ W := by
              have := List.drop_append_of_le_length (l₂ := W) (Nat.le_of_lt hlt)
              simpa using this
            rw [hdr]
            cases hd : (c :: x :: u).drop n with
            | nil =>
              have := congrArg List.length hd
              simp only [List.length_drop, List.length_nil] at this
              omega
            | cons y r =>
              rw [hd] at hc
              simp only [List.cons_append]
              rw [if_neg hc]
      by_cases c2 : (c == 46) = true
      · simp only [if_pos c2] at h ⊢
        by_cases c3 : (!dotEnables lk && isDigit x) = true
        · simp only [if_pos c3] at h ⊢
          exact hnum h h1 hlt
        · simp only [if_neg c3] at h ⊢
          exact h
      · simp only [if_neg c2] at h ⊢
        by_cases c4 : isDigit c = true
        · simp only [if_pos c4] at h ⊢
          exact hnum h h1 hlt
        · simp only [if_neg c4] at h ⊢
          by_cases c5 : (c == 96) = true
          · simp only [if_pos c5] at h ⊢
            cases hb : body [96] false false ((c :: x :: u).length + 1) (x :: u) [] 1 with
            | none => rw [hb] at h; cases h
            | some r =>
              have := body_append hb (fuel' := (c :: x :: (u ++ W)).length + 1)
                (by simp only [List.length_cons, List.length_append]; omega) W
              rw [List.cons_append] at this
              rw [this]
              rw [hb] at h
              exact h
          · simp only [if_neg c5] at h ⊢
            by_cases c6 : (c == 64) = true
            · simp only [if_pos c6] at h ⊢
              by_cases c7 : (x == 64) = true
              · simp only [if_pos c7] at h ⊢; exact h
              · simp only [if_neg c7] at h ⊢
                by_cases c8 : isLetter x = true
                · simp only [if_pos c8] at h ⊢
                  cases h
                  simp only [List.length_cons] at hlt
                  have hr := run_append_lt (p := isIdentChar) (R := x :: u) (by simp only [List.length_cons]; omega) W
                  rw [List.cons_append] at hr
                  rw [hr]
                  have ht := take_append_le (R := x :: u) (n := run isIdentChar (x :: u))
                    (by simp only [List.length_cons]; omega) W
                  rw [List.cons_append] at ht
                  rw [ht]
                · simp only [if_neg c8] at h ⊢; exact h
            · simp only [if_neg c6] at h ⊢
              cases hlp : literalPrefix (c :: x :: u) with
              | some p =>
                simp only [hlp] at h
                cases hb : body (delimiter (List.drop p.len (c :: x :: u))) p.isRaw p.isBytes ((c :: x :: u).length + 1)
                    (List.drop (delimiter (List.drop p.len (c :: x :: u))).length (List.drop p.len (c :: x :: u))) []
                    (p.len + (delimiter (List.drop p.len (c :: x :: u))).length) with
                | none => rw [hb] at h; cases h
                | some r =>
                  rw [hb] at h
                  cases h
                  simp only at hlt h1
                  obtain ⟨b1, b2⟩ := body_some_facts hb
                  simp only [List.length_drop] at b1
                  have hpl := MF.Refine.literalPrefix_some hlp
                  have hq1 : 1 ≤ (delimiter (List.drop p.len (c :: x :: u))).length := by
                    cases hdl : List.drop p.len (c :: x :: u) with
                    | nil =>
                      have := congrArg List.length hdl
                      simp only [List.length_drop, List.length_nil] at this
                      omega
                    | cons a r' =>
                      match r' with
                      | [] => simp [delimiter]
                      | [_] => simp [delimiter]
                      | b :: c' :: _ => simp only [delimiter]; split <;> simp
                  have h3 : 3 ≤ (c :: x :: u).length := by omega
                  have h3' : 3 ≤ (List.drop p.len (c :: x :: u)).length := by
                    simp only [List.length_drop]; omega
                  have hlp' : literalPrefix (c :: x :: (u ++ W)) = some p := by
                    have := literalPrefix_append3 h3 W
                    rw [List.cons_append, List.cons_append] at this
                    rw [this, hlp]
                  have hple : p.len ≤ (c :: x :: u).length := by omega
                  have hdr : List.drop p.len (c :: x :: (u ++ W)) = List.drop p.len (c :: x :: u) ++ W := by
                    have := List.drop_append_of_le_length (l₂ := W) hple
                    simpa using this
                  simp only [hlp', hdr, delimiter_append3 h3' W]
                  rw [List.drop_append_of_le_length (by simp only [List.length_drop]; omega)]
                  have := body_append hb (fuel' := (c :: x :: (u ++ W)).length + 1)
                    (by simp only [List.length_cons, List.length_append]; omega) W
                  rw [this]
              | none =>
                simp only [hlp] at h
                -- the extended input has no literal prefix either
                have hlp' : ∀ (hrun : isLetter c = true → run isIdentChar (c :: x :: u) < (c :: x :: u).length),
                    literalPrefix (c :: x :: (u ++ W)) = none := by
                  intro hrun
                  cases u with
                  | cons y u' =>
                    have := literalPrefix_append3 (R := c :: x :: y :: u') (by simp) W
                    simp only [List.cons_append] at this
                    rw [List.cons_append, this, hlp]
                  | nil =>
                    rw [List.nil_append]
                    apply literalPrefix_two_none hlp
                    by_cases hl : isLetter c = true
                    · right
                      have := hrun hl
                      have hxi : isIdentChar x = false := by
                        have hci : isIdentChar c = true := (letter_facts c hl).2.2.2.2.2.1
                        by_cases hx : isIdentChar x = true
                        · simp [run, hci, hx] at this
                        · simpa using hx
                      exact ⟨(not_identChar_facts x hxi).1, (not_identChar_facts x hxi).2.1⟩
                    · left
                      have hl' : isLetter c = false := by simpa using hl
                      constructor
                      · cases hh : (c == 82 || c == 114)
                        · rfl
                        · exact absurd (rb_facts c (Or.inl hh)).2 (by simp [hl'])
                      · cases hh : (c == 66 || c == 98)
                        · rfl
                        · exact absurd (rb_facts c (Or.inr hh)).2 (by simp [hl'])
                by_cases c9 : isLetter c = true
                · simp only [if_pos c9] at h
                  have hrun : run isIdentChar (c :: x :: u) < (c :: x :: u).length := by
                    split at h <;> (cases h; exact hlt)
                  simp only [hlp' (fun _ => hrun), if_pos c9]
                  have hr : run isIdentChar (c :: x :: (u ++ W)) = run isIdentChar (c :: x :: u) := by
                    have := run_append_lt hrun W
                    simpa using this
                  have ht : (c :: x :: (u ++ W)).take (run isIdentChar (c :: x :: u)) =
                      (c :: x :: u).take (run isIdentChar (c :: x :: u)) := by
                    have := take_append_le (Nat.le_of_lt hrun) W
                    simpa using this
                  rw [hr, ht]
                  exact h
                · simp only [if_neg c9] at h
                  simp only [hlp' (fun hl => absurd hl c9), if_neg c9]
                  have := punctLen_append (R := c :: x :: u) (by simp) W
                  simp only [List.cons_append] at this
                  rw [this]
                  exact h

end MF.Concat
