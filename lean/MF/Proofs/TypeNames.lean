/-
  MF.Proofs.TypeNames — the trees the parser builds from lexer tokens can be printed and read back: every identifier
  token of an accepted input has a non-empty `AsString` (`lexAll_ident_ne`), hence `namesOK t` for every tree returned by
  `parseTypeTop` on lexer output; with `rtOK_of_namesOK` this closes the lexer side of C01 / C02.
-/
import MF.Proofs.TypePrint
import MF.Proofs.TypePos
import MF.Proofs.RefineQuoted
namespace MF.Lex

/-- the quoted-identifier scanner never returns an empty name -/
theorem bquote_content_ne {R : Bytes} {p0 : Nat} {qc : QC} (hR : R.head? = some 96)
    (h : consumeQuotedContent R p0 [96] false true true false = .ok qc) : qc.content ≠ [] := by
  unfold consumeQuotedContent at h
  have hlen : 1 ≤ R.length := by
    cases R with
    | nil => simp at hR
    | cons c t => simp
  have := MF.Refine.loop_sim [96] (Or.inl rfl) false false true R p0 p0 (R.length + 2) (R.length + 2) 1 [] 0 hlen
    (by omega) (by omega)
  simp only [Bool.not_false, List.length_cons, List.length_nil, Nat.zero_add] at this h
  rw [h] at this
  exact this.2.2.2.1 trivial

theorem identTok_ne {c : UInt8} {t : Bytes} (hc : Char.isIdentPart c = true) (hk : (identTok (c :: t)).kind = .ident) :
    (identTok (c :: t)).asString ≠ [] := by
  unfold identTok at hk ⊢
  simp only at hk ⊢
  split
  · rename_i hr; simp only [hr, if_true] at hk; cases hk
  · simp only
    have := spanLen_pos (pred := Char.isIdentPart) (t := t) hc
    intro e
    have hl := congrArg List.length e
    simp only [List.length_take, List.length_nil] at hl
    have := spanLen_le Char.isIdentPart (c :: t)
    omega

theorem quotedTok_identNe {R : Bytes} {p0 : Nat} {sc : Scan} (hR : R.head? = some 96)
    (h : quotedTok .ident 0 (consumeQuotedContent R p0 [96] false true true false) = .ok sc) (hk : sc.kind = .ident) :
    sc.asString ≠ [] := by
  unfold quotedTok at h
  split at h
  · rename_i qc hqc
    cases h
    exact bquote_content_ne hR hqc
  · cases h
  · cases h

theorem tokBody_identNe {R : Bytes} {c : UInt8} {p0 : Nat} {lk : TokKind} {sc : Scan}
    (hR : R.head? = some c) (h : tokBody R c p0 lk false = .ok sc) (hk : sc.kind = .ident) : sc.asString ≠ [] := by
  have hkind : TyKind sc.kind := Or.inl hk
  have hnum : ∀ {p : Nat}, consumeNumber R p false = .ok sc → False := by
    intro p hn
    have := (consumeNumber_kind hn).1
    rcases this with h1 | h1 | h1
    · exact hkind.ne.1 h1
    · exact hkind.ne.2.1 h1
    · exact hkind.ne.2.2.1 h1
  have hfall : fallbackTok R c p0 false = .ok sc → sc.asString ≠ [] := by
    intro hf
    unfold fallbackTok at hf
    split at hf
    · rename_i hs
      cases hf
      cases R with
      | nil => simp at hR
      | cons d t =>
        simp only [List.head?_cons, Option.some.injEq] at hR
        subst hR
        exact identTok_ne (identStart_part _ hs) hk
    · simp at hf
  unfold tokBody at h
  split at h
  · cases h; cases hk
  · split at h
    · exact (hnum h).elim
    · cases h; exact absurd hk (by dsimp only; decide)
  all_goals first
    | exact (hnum h).elim
    | exact hfall h
    | (unfold stringTok at h
       split at h
       · split at h
         · cases h
         · have := (quotedTok_kind h).1
           exfalso
           rcases this with h1 | h1
           · rw [h1] at hk; split at hk <;> cases hk
           · rw [h1] at hk; cases hk
       · exact hfall h)
    | (rename_i hc
       have hq := classify_bquote c hc
       rw [hq] at hR
       exact quotedTok_identNe hR h hk)
    | ((repeat' split at h) <;>
        (simp only [tok1, tok2, paramTok, Res.ok.injEq] at h
         subst h
         exact absurd hk (by dsimp only; decide)))

theorem scan_identNe {R : Bytes} {p0 : Nat} {lk : TokKind} {dot : Bool} {sc : Scan}
    (h : (if dot = true then consumeFieldToken R p0 lk false else consumeToken R p0 lk false) = .ok sc)
    (hk : sc.kind = .ident) : sc.asString ≠ [] := by
  have hct : consumeToken R p0 lk false = .ok sc → sc.asString ≠ [] := by
    intro hc
    cases R with
    | nil => rw [consumeToken_nil] at hc; cases hc; cases hk
    | cons c t => rw [consumeToken_cons] at hc; exact tokBody_identNe rfl hc hk
  split at h
  · unfold consumeFieldToken at h
    split at h
    · rename_i c t
      split at h
      · rename_i hc
        cases h
        simp only
        have := spanLen_pos (pred := Char.isIdentPart) (t := t) hc
        intro e
        have hl := congrArg List.length e
        simp only [List.length_take, List.length_nil] at hl
        have := spanLen_le Char.isIdentPart (c :: t)
        omega
      · exact hct h
    · exact hct h
  · exact hct h

theorem nextToken_identNe {buf : Bytes} {s s1 : State} (h : nextToken buf false s = .ok s1)
    (hk : s1.tok.kind = .ident) : s1.tok.asString ≠ [] := by
  obtain ⟨pos, cs, sp, sc, _, hsc, _, rfl⟩ := MF.Props.C16.nextToken_inv h
  exact scan_identNe hsc hk

theorem steps_identNe {buf : Bytes} {s : State} {l : List Token} (h : Steps buf s l) :
    ∀ t ∈ l, t.kind = .ident → t.asString ≠ [] := by
  induction h with
  | last hn _ =>
    intro t ht hk
    simp only [List.mem_singleton] at ht
    subst ht
    exact nextToken_identNe hn hk
  | cons hn _ _ ih =>
    intro t ht hk
    simp only [List.mem_cons] at ht
    rcases ht with rfl | ht
    · exact nextToken_identNe hn hk
    · exact ih t ht hk

/-- an identifier token of an accepted input has a non-empty name -/
theorem lexAll_ident_ne {buf : Bytes} {ts : List Token} (h : lexAll buf = .ok ts) :
    ∀ t ∈ ts, t.kind = .ident → t.asString ≠ [] :=
  steps_identNe (lexAll_steps h)

end MF.Lex

namespace MF.TypeP
open MF.TypeG

/-- names taken from tokens with non-empty names are printable -/
theorem path_namesOK (path : List Ident) : ∀ (m : List Token), Match (yieldPath path) m →
    (∀ tok ∈ m, tk tok.kind = .ident → tok.asString ≠ []) → path.all (fun i => !i.name.isEmpty) = true := by
  induction path with
  | nil => intro _ _ _; rfl
  | cons a rest ih =>
    intro m hm hne
    cases rest with
    | nil =>
      simp only [yieldPath] at hm
      obtain ⟨t, r, rfl, hy, _⟩ := match_cons_inv hm
      obtain ⟨hk, rfl⟩ := hy
      have := hne t (by simp) hk
      simp only [List.all_cons, List.all_nil, Bool.and_true, Bool.not_eq_true', List.isEmpty_eq_false_iff]
      exact this
    | cons b r =>
      simp only [yieldPath] at hm
      obtain ⟨t, r1, rfl, hy, hm1⟩ := match_cons_inv hm
      obtain ⟨d, r2, rfl, _, hm2⟩ := match_cons_inv hm1
      obtain ⟨hk, rfl⟩ := hy
      have h1 := hne t (by simp) hk
      have h2 := ih r2 hm2 (fun tok ht => hne tok (by simp [ht]))
      rw [List.all_cons, h2]
      simp only [Bool.and_true, Bool.not_eq_true', List.isEmpty_eq_false_iff]
      exact h1

mutual
theorem match_namesOK : ∀ t : Ty, wf t = true → ∀ m, Match (yieldT t) m →
    (∀ tok ∈ m, tk tok.kind = .ident → tok.asString ≠ []) → namesOK t = true
  | .simple p n, _, m, hm, _ => by
    simp only [yieldT] at hm
    obtain ⟨t, r, rfl, hy, _⟩ := match_cons_inv hm
    obtain ⟨_, _, hn⟩ := hy
    simp only [namesOK, List.contains_iff_mem]
    exact (simpleName?_len hn).2
  | .named [], hw, _, _, _ => by simp [wf] at hw
  | .named (a :: rest), _, m, hm, hne => by
    simp only [yieldT] at hm
    simp only [namesOK, List.isEmpty_cons, Bool.not_false, Bool.true_and]
    exact path_namesOK (a :: rest) m hm hne
  | .array _ _ item, hw, m, hm, hne => by
    simp only [yieldT] at hm
    obtain ⟨ta, r1, rfl, _, hm1⟩ := match_cons_inv hm
    obtain ⟨tl, r2, rfl, _, hm2⟩ := match_cons_inv hm1
    obtain ⟨mid, last, rfl, hmi, _⟩ := hm2.append_inv
    simp only [namesOK]
    exact match_namesOK item (by simpa [wf] using hw) mid hmi (fun tok ht => hne tok (by simp [ht]))
  | .struct _ _ fs, hw, m, hm, hne => by
    simp only [yieldT] at hm
    obtain ⟨ta, r1, rfl, _, hm1⟩ := match_cons_inv hm
    obtain ⟨tl, r2, rfl, _, hm2⟩ := match_cons_inv hm1
    obtain ⟨mid, last, rfl, hmi, _⟩ := hm2.append_inv
    simp only [namesOK]
    exact (match_namesOKFs fs (by simpa [wf] using hw)).1 mid hmi (fun tok ht => hne tok (by simp [ht]))
theorem match_namesOKFs : ∀ fs : Fields, wfs fs = true →
    (∀ m, Match (yieldFs fs) m → (∀ tok ∈ m, tk tok.kind = .ident → tok.asString ≠ []) → namesOKFs fs = true) ∧
    (∀ m, Match (yieldMore fs) m → (∀ tok ∈ m, tk tok.kind = .ident → tok.asString ≠ []) → namesOKFs fs = true)
  | .nil, _ => ⟨fun _ _ _ => rfl, fun _ _ _ => rfl⟩
  | .cons i t rest, hw => by
    have hw' : wf t = true ∧ wfs rest = true := by simpa [wfs] using hw
    have body : ∀ m, Match (yieldName i ++ yieldT t ++ yieldMore rest) m →
        (∀ tok ∈ m, tk tok.kind = .ident → tok.asString ≠ []) → namesOKFs (.cons i t rest) = true := by
      intro m hm hne
      obtain ⟨p12, pm, rfl, hm12, hmm⟩ := hm.append_inv
      obtain ⟨pn, pt, rfl, hmn, hmt⟩ := hm12.append_inv
      have h1 := match_namesOK t hw'.1 pt hmt (fun tok ht => hne tok (by simp [ht]))
      have h2 := (match_namesOKFs rest hw'.2).2 pm hmm (fun tok ht => hne tok (by simp [ht]))
      simp only [namesOKFs, h1, h2, Bool.and_true]
      cases i with
      | none => rfl
      | some id =>
        simp only [yieldName] at hmn
        obtain ⟨u, r, rfl, hu, _⟩ := match_cons_inv hmn
        obtain ⟨hk, rfl⟩ := hu
        have := hne u (by simp) hk
        simp only [Bool.not_eq_true', List.isEmpty_eq_false_iff]
        exact this
    constructor
    · intro m hm hne
      simp only [yieldFs] at hm
      exact body m hm hne
    · intro m hm hne
      simp only [yieldMore, List.cons_append] at hm
      obtain ⟨c, r, rfl, _, hm1⟩ := match_cons_inv hm
      exact body r hm1 (fun tok ht => hne tok (by simp [ht]))
end

/-- an identifier of the expanded list is a token of the list (the halves of `>>` / `<>` are not identifiers) -/
theorem mem_expand_ident {ts : List Token} {t : Token} (h : t ∈ expand ts) (hk : tk t.kind = .ident) : t ∈ ts := by
  induction ts with
  | nil => simp at h
  | cons u ts ih =>
    simp only [expand] at h
    split at h
    · simp only [List.mem_cons] at h
      rcases h with rfl | rfl | h
      · simp at hk
      · simp at hk
      · simp [ih h]
    · simp only [List.mem_cons] at h
      rcases h with rfl | rfl | h
      · simp at hk
      · simp at hk
      · simp [ih h]
    · simp only [List.mem_cons] at h
      rcases h with rfl | h
      · simp
      · simp [ih h]

/-- the tree of an accepted input has printable names -/
theorem parse_namesOK {buf : Bytes} {ts : List Token} {fuel : Nat} {t : Ty}
    (hl : Lex.lexAll buf = .ok ts) (hp : parseTypeTop fuel ts = .ok t) : namesOK t = true := by
  obtain ⟨pre, rest, he, _, hm, hw⟩ := parseTypeTop_sound hp
  apply match_namesOK t hw pre hm
  intro tok htok hk
  have hmem : tok ∈ expand ts := by rw [he]; simp [htok]
  exact Lex.lexAll_ident_ne hl tok (mem_expand_ident hmem hk) (tk_ident.1 hk)

/-- C01 / C02, lexer side, for parser-built trees -/
theorem parse_rtOK {buf : Bytes} {ts : List Token} {fuel : Nat} {t : Ty}
    (hl : Lex.lexAll buf = .ok ts) (hp : parseTypeTop fuel ts = .ok t) : rtOK t = true :=
  rtOK_of_namesOK (parse_namesOK hl hp)

end MF.TypeP
